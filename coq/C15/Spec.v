(* C15 — lemmas: the effective validators against the declarative ranking, the
   schedule arithmetic, independence of every enumeration order. *)
From Coq Require Import List Arith NArith Bool Lia Permutation Sorted.
From Coq Require Import ZifyBool ZifyN ZifyNat.
From Verif Require Import Outcome.
From C15 Require Import Model Order Tally.
Import ListNotations.
Open Scope N_scope.

(* ---- declarative side ------------------------------------------------------ *)

Definition qual (minv : N) (e : entry) : bool := minv <=? snd e.

(* number of qualifying candidates that beat [e]: more votes, or the same votes
   and a greater key *)
Definition rank (m : vmap) (minv : N) (e : entry) : N :=
  N.of_nat (length (filter (fun x => qual minv x && vless x e) m)).

Definition has_candidates (st : status) (m : vmap) (minv : N) : bool :=
  match st with Growing => false | _ => existsb (qual minv) m end.

Definition mkV (k : key) (o v : N) : validator := {| v_pub := k; v_order := o; v_votes := v |}.

(* validators listed by order: the i-th has order base + i *)
Definition contig (base : N) (vs : list validator) : Prop :=
  forall i x, nth_error vs i = Some x -> v_order x = base + N.of_nat i.

(* ---- list lemmas ------------------------------------------------------------ *)

Lemma nth_error_number_from l : forall i n,
  nth_error (number_from i l) n =
  option_map (fun e => mkV (fst e) (i + N.of_nat n) (snd e)) (nth_error l n).
Proof.
  induction l as [|[k v] l IH]; intros i n.
  - destruct n; reflexivity.
  - destruct n as [|n]; cbn.
    + unfold mkV. f_equal. f_equal. lia.
    + rewrite IH. destruct (nth_error l n); cbn; [|reflexivity].
      unfold mkV. f_equal. f_equal. lia.
Qed.

Lemma nth_error_firstn' {A} (l : list A) : forall k n,
  nth_error (firstn k l) n = if (n <? k)%nat then nth_error l n else None.
Proof.
  induction l as [|a l IH]; intros k n.
  - rewrite firstn_nil. destruct n, (_ <? _)%nat; reflexivity.
  - destruct k as [|k]; cbn.
    + destruct n; reflexivity.
    + destruct n as [|n]; cbn; [reflexivity|]. rewrite IH.
      change (S n <? S k)%nat with (n <? k)%nat. reflexivity.
Qed.

Lemma number_from_length l : forall i, length (number_from i l) = length l.
Proof. induction l as [|[k v] l IH]; intros i; cbn; [reflexivity|]. rewrite IH. reflexivity. Qed.

Lemma sorted_split {A} (R : A -> A -> Prop) l1 x l2 :
  StronglySorted R (l1 ++ x :: l2) -> Forall (fun y => R y x) l1 /\ Forall (R x) l2.
Proof.
  induction l1 as [|a l1 IH]; cbn; intros S; inversion S as [|? ? S' F]; subst.
  - split; [constructor | exact F].
  - destruct (IH S') as [H1 H2]. split; [|exact H2].
    constructor; [|exact H1]. rewrite Forall_forall in F. apply F. apply in_or_app. right. left. reflexivity.
Qed.

Lemma filter_all_true {A} (p : A -> bool) l : Forall (fun x => p x = true) l -> filter p l = l.
Proof.
  induction 1 as [|a l H F IH]; cbn; [reflexivity|]. rewrite H, IH. reflexivity.
Qed.
Lemma filter_all_false {A} (p : A -> bool) l : Forall (fun x => p x = false) l -> filter p l = [].
Proof.
  induction 1 as [|a l H F IH]; cbn; [reflexivity|]. rewrite H, IH. reflexivity.
Qed.

Lemma filter_andb {A} (p q : A -> bool) l :
  filter (fun x => p x && q x) l = filter q (filter p l).
Proof.
  induction l as [|a l IH]; cbn; [reflexivity|].
  destruct (p a); cbn; [destruct (q a)|]; rewrite IH; reflexivity.
Qed.

(* in a sorted duplicate-free list the elements beating [e] are exactly those before it *)
Lemma beaters_sorted l1 e l2 :
  StronglySorted vle (l1 ++ e :: l2) -> NoDup (l1 ++ e :: l2) ->
  filter (fun x => vless x e) (l1 ++ e :: l2) = l1.
Proof.
  intros S ND. destruct (sorted_split _ _ _ _ S) as [H1 H2].
  rewrite filter_app. cbn. rewrite vless_irrefl.
  rewrite (filter_all_false _ l2).
  - rewrite app_nil_r. apply filter_all_true.
    rewrite Forall_forall in *. intros x Hx. specialize (H1 _ Hx). unfold vle in H1.
    destruct (vless x e) eqn:E; [reflexivity|]. exfalso.
    assert (x = e) by (apply vless_total; assumption). subst x.
    apply NoDup_remove_2 in ND. apply ND. apply in_or_app. left. exact Hx.
  - rewrite Forall_forall in *. intros x Hx. apply H2. exact Hx.
Qed.

Lemma nth_error_split' {A} (l : list A) n a :
  nth_error l n = Some a -> exists l1 l2, l = l1 ++ a :: l2 /\ length l1 = n.
Proof. apply nth_error_split. Qed.

(* ---- the sorted candidate list ---------------------------------------------- *)

Section Candidates.
  Variable srt : list entry -> list entry.
  Variable m iter : list entry.
  Variable minv : N.
  Hypothesis Hsrt : sort_contract srt.
  Hypothesis Hnd : NoDup (map fst m).
  Hypothesis Hperm : Permutation iter m.

  Let L := srt (filter (qual minv) iter).

  Lemma L_perm : Permutation L (filter (qual minv) m).
  Proof.
    assert (ND1 : NoDup (map fst (filter (qual minv) iter))).
    { apply NoDup_map_filter. eapply NoDup_map_perm; [apply Permutation_sym; exact Hperm | exact Hnd]. }
    destruct (Hsrt _ ND1) as [P _].
    eapply Permutation_trans; [exact P | apply Permutation_filter; exact Hperm].
  Qed.

  Lemma L_sorted : StronglySorted vle L.
  Proof.
    assert (ND1 : NoDup (map fst (filter (qual minv) iter))).
    { apply NoDup_map_filter. eapply NoDup_map_perm; [apply Permutation_sym; exact Hperm | exact Hnd]. }
    destruct (Hsrt _ ND1) as [_ S]. apply Sorted_StronglySorted; [exact vle_Transitive | exact S].
  Qed.

  Lemma L_nodup : NoDup L.
  Proof.
    eapply Permutation_NoDup; [apply Permutation_sym; exact L_perm|].
    apply NoDup_filter. eapply NoDup_map_inv. exact Hnd.
  Qed.

  Lemma L_in e : In e L <-> In e m /\ qual minv e = true.
  Proof.
    split; intros H.
    - apply filter_In. eapply Permutation_in; [exact L_perm | exact H].
    - eapply Permutation_in; [apply Permutation_sym; exact L_perm | apply filter_In; exact H].
  Qed.

  Lemma L_rank i e : nth_error L i = Some e -> rank m minv e = N.of_nat i.
  Proof.
    intros H. unfold rank. rewrite filter_andb.
    rewrite <- (Permutation_length (Permutation_filter (fun x => vless x e) _ _ L_perm)).
    destruct (nth_error_split' _ _ _ H) as [l1 [l2 [E Hl]]].
    pose proof L_sorted as S. pose proof L_nodup as ND. rewrite E in S, ND |- *.
    rewrite beaters_sorted by assumption. rewrite Hl. reflexivity.
  Qed.

  Lemma L_length : length L = length (filter (qual minv) m).
  Proof. apply Permutation_length. exact L_perm. Qed.

  Lemma L_nil : L = [] <-> existsb (qual minv) m = false.
  Proof.
    split; intros H.
    - destruct (existsb (qual minv) m) eqn:E; [|reflexivity].
      apply existsb_exists in E. destruct E as [e [He Hq]].
      assert (In e L) as Hin by (apply L_in; split; assumption). rewrite H in Hin. contradiction.
    - destruct L as [|e l] eqn:EL; [reflexivity|]. exfalso.
      assert (In e L) as Hin by (rewrite EL; left; reflexivity).
      apply L_in in Hin. destruct Hin as [He Hq].
      assert (existsb (qual minv) m = true) by (apply existsb_exists; exists e; split; assumption).
      congruence.
  Qed.
End Candidates.

(* ---- effective validators ---------------------------------------------------- *)

Lemma eff_unfold srt iter st minv maxn fed :
  effective_validators srt iter st minv maxn fed =
  match st with
  | Growing => fed_from 0 fed
  | _ => match srt (filter (qual minv) iter) with
         | [] => fed_from 0 fed
         | vs => number_from 0 (firstn maxn vs)
         end
  end.
Proof. unfold effective_validators, all_validators, qual. destruct st; reflexivity. Qed.

Lemma eff_no_candidates srt m iter st minv maxn fed :
  sort_contract srt -> NoDup (map fst m) -> Permutation iter m ->
  has_candidates st m minv = false ->
  effective_validators srt iter st minv maxn fed = fed_from 0 fed.
Proof.
  intros C ND P H. rewrite eff_unfold. unfold has_candidates in H.
  destruct st; try reflexivity;
    (apply (L_nil srt m iter minv C ND P) in H; rewrite H; reflexivity).
Qed.

Lemma eff_candidates srt m iter st minv maxn fed :
  sort_contract srt -> NoDup (map fst m) -> Permutation iter m ->
  has_candidates st m minv = true ->
  effective_validators srt iter st minv maxn fed =
  number_from 0 (firstn maxn (srt (filter (qual minv) iter))).
Proof.
  intros C ND P H. rewrite eff_unfold. unfold has_candidates in H.
  destruct st; try discriminate;
    (destruct (srt (filter (qual minv) iter)) as [|e l] eqn:EL; [|reflexivity];
     apply (L_nil srt m iter minv C ND P) in EL; congruence).
Qed.

Lemma eff_nth srt m iter st minv maxn fed i x :
  sort_contract srt -> NoDup (map fst m) -> Permutation iter m ->
  has_candidates st m minv = true ->
  (nth_error (effective_validators srt iter st minv maxn fed) i = Some x <->
   (i < maxn)%nat /\ exists e, nth_error (srt (filter (qual minv) iter)) i = Some e /\
                               x = mkV (fst e) (N.of_nat i) (snd e)).
Proof.
  intros C ND P H. rewrite (eff_candidates _ m) by assumption.
  rewrite nth_error_number_from, nth_error_firstn'.
  destruct (i <? maxn)%nat eqn:Ei.
  - destruct (nth_error (srt (filter (qual minv) iter)) i) as [e|]; cbn.
    + split.
      * intros E. inversion E. split; [lia|]. exists e. split; reflexivity.
      * intros [_ [e' [E1 E2]]]. inversion E1; subst. reflexivity.
    + split; [discriminate|]. intros [_ [e' [E1 _]]]. discriminate.
  - cbn. split; [discriminate|]. intros [Hlt _]. lia.
Qed.

Lemma eff_spec srt m iter st minv maxn fed :
  sort_contract srt -> NoDup (map fst m) -> Permutation iter m ->
  has_candidates st m minv = true ->
  let vs := effective_validators srt iter st minv maxn fed in
  (forall k o v, In (mkV k o v) vs <->
                 In (k, v) m /\ minv <= v /\ o = rank m minv (k, v) /\ o < N.of_nat maxn)
  /\ contig 0 vs
  /\ length vs = Nat.min maxn (length (filter (qual minv) m)).
Proof.
  intros C ND P H vs. split; [|split].
  - intros k o v. split.
    + intros Hin. apply In_nth_error in Hin. destruct Hin as [i Hi].
      apply (eff_nth srt m) in Hi; try assumption.
      destruct Hi as [Hlt [[k' v'] [He Hx]]]. unfold mkV in Hx. cbn in Hx. inversion Hx; subst k' o v'.
      pose proof (nth_error_In _ _ He) as HinL.
      apply (L_in srt m iter minv C ND P) in HinL. destruct HinL as [Hm Hq].
      unfold qual in Hq. cbn in Hq.
      rewrite (L_rank srt m iter minv C ND P i (k, v) He).
      repeat split; [exact Hm | lia | lia].
    + intros [Hm [Hq [Ho Hlt]]].
      assert (In (k, v) (srt (filter (qual minv) iter))) as HinL.
      { apply (L_in srt m iter minv C ND P). split; [exact Hm|]. unfold qual. cbn. lia. }
      apply In_nth_error in HinL. destruct HinL as [i Hi].
      pose proof (L_rank srt m iter minv C ND P i (k, v) Hi) as Hr.
      apply (nth_error_In _ i). apply (eff_nth srt m); try assumption.
      split; [lia|]. exists (k, v). split; [exact Hi|]. cbn. f_equal. lia.
  - intros i x Hi. apply (eff_nth srt m) in Hi; try assumption.
    destruct Hi as [_ [e [_ Hx]]]. subst x. cbn. lia.
  - unfold vs. rewrite (eff_candidates _ m) by assumption.
    rewrite number_from_length, firstn_length.
    rewrite (L_length srt m iter minv C ND P). reflexivity.
Qed.

(* ---- federation --------------------------------------------------------------- *)

Lemma key_mem_In k l : key_mem k l = true <-> In k l.
Proof.
  induction l as [|x l IH]; cbn; [split; [discriminate | tauto]|].
  rewrite orb_true_iff, IH, key_eqb_eq. split; intros [H|H]; auto.
Qed.

Lemma fed_from_nodup fed : forall i, NoDup fed ->
  fed_from i fed = number_from i (map (fun k => (k, 0)) fed).
Proof.
  induction fed as [|k fed IH]; intros i ND; cbn; [reflexivity|].
  inversion ND as [|? ? Hn ND']; subst.
  destruct (key_mem k fed) eqn:E; [apply key_mem_In in E; contradiction|].
  rewrite IH by exact ND'. reflexivity.
Qed.

Lemma contig_number_from l i : contig i (number_from i l).
Proof.
  intros n x H. rewrite nth_error_number_from in H.
  destruct (nth_error l n); cbn in H; [|discriminate]. inversion H. reflexivity.
Qed.

Lemma fed_from_ge fed : forall i v, In v (fed_from i fed) -> i <= v_order v.
Proof.
  induction fed as [|k fed IH]; intros i v; cbn; [tauto|].
  destruct (key_mem k fed).
  - intros H. apply IH in H. lia.
  - intros [<-|H]; [cbn; lia | apply IH in H; lia].
Qed.

Lemma fed_from_orders_nodup fed : forall i, NoDup (map v_order (fed_from i fed)).
Proof.
  induction fed as [|k fed IH]; intros i; cbn; [constructor|].
  destruct (key_mem k fed); [apply IH|]. cbn. constructor; [|apply IH].
  intros Hin. apply in_map_iff in Hin. destruct Hin as [v [E Hv]].
  apply fed_from_ge in Hv. lia.
Qed.

Lemma number_from_ge l : forall i v, In v (number_from i l) -> i <= v_order v.
Proof.
  induction l as [|[k x] l IH]; intros i v; cbn; [tauto|].
  intros [<-|H]; [cbn; lia | apply IH in H; lia].
Qed.

Lemma number_from_orders_nodup l : forall i, NoDup (map v_order (number_from i l)).
Proof.
  induction l as [|[k x] l IH]; intros i; cbn; [constructor|].
  constructor; [|apply IH].
  intros Hin. apply in_map_iff in Hin. destruct Hin as [v [E Hv]].
  apply number_from_ge in Hv. lia.
Qed.

(* orders are pairwise distinct in every case (even a federation list with repeats) *)
Lemma eff_orders_nodup srt iter st minv maxn fed :
  NoDup (map v_order (effective_validators srt iter st minv maxn fed)).
Proof.
  unfold effective_validators.
  destruct (all_validators srt iter st minv); [apply fed_from_orders_nodup | apply number_from_orders_nodup].
Qed.

Lemma eff_contig srt m iter st minv maxn fed :
  sort_contract srt -> NoDup (map fst m) -> Permutation iter m -> NoDup fed ->
  contig 0 (effective_validators srt iter st minv maxn fed).
Proof.
  intros C ND P NF. destruct (has_candidates st m minv) eqn:H.
  - apply (eff_spec srt m iter st minv maxn fed C ND P H).
  - rewrite (eff_no_candidates srt m) by assumption.
    rewrite fed_from_nodup by exact NF. apply contig_number_from.
Qed.

(* ---- independence of the enumeration order of the validators map -------------- *)

Lemma find_perm_unique {A B} (f : A -> B) (p : A -> bool) l l' :
  (forall x y, p x = true -> p y = true -> f x = f y) ->
  NoDup (map f l) -> Permutation l l' -> find p l = find p l'.
Proof.
  intros Hp ND P.
  destruct (find p l) as [x|] eqn:E1, (find p l') as [y|] eqn:E2; try reflexivity.
  - apply find_some in E1. apply find_some in E2. destruct E1 as [I1 P1], E2 as [I2 P2].
    f_equal. eapply (NoDup_map_inj f l); try assumption.
    + eapply Permutation_in; [apply Permutation_sym; exact P | exact I2].
    + apply Hp; assumption.
  - apply find_some in E1. destruct E1 as [I1 P1].
    pose proof (find_none _ _ E2 x (Permutation_in _ P I1)). congruence.
  - apply find_some in E2. destruct E2 as [I2 P2].
    pose proof (find_none _ _ E1 y (Permutation_in _ (Permutation_sym P) I2)). congruence.
Qed.

Lemma get_validator_perm vs viter interval cpts t :
  NoDup (map v_order vs) -> Permutation viter vs ->
  get_validator viter interval cpts t = get_validator vs interval cpts t.
Proof.
  intros ND P. unfold get_validator. rewrite (Permutation_length P).
  destruct (validator_order _ _ _ _) as [o| |]; try reflexivity.
  destruct (o <? two63); [|reflexivity]. f_equal. unfold find_order.
  symmetry. apply (find_perm_unique v_order); [|exact ND | apply Permutation_sym; exact P].
  intros x y Hx Hy. apply N.eqb_eq in Hx, Hy. congruence.
Qed.

(* ---- schedule arithmetic -------------------------------------------------------- *)

Lemma two64_pos : 0 < two64. Proof. reflexivity. Qed.

Lemma sub64_exact a b : b <= a -> a < two64 -> sub64 a b = a - b.
Proof.
  intros H1 H2. unfold sub64.
  replace (a + two64 - b) with ((a - b) + 1 * two64) by lia.
  rewrite N.mod_add by (unfold two64; lia). apply N.mod_small. lia.
Qed.

Lemma mod_mul_div d iv n : iv <> 0 -> n <> 0 -> (d mod (n * iv)) / iv = (d / iv) mod n.
Proof.
  intros Hi Hn. rewrite (N.mul_comm n iv). rewrite N.mod_mul_r by assumption.
  rewrite (N.mul_comm iv), N.div_add by exact Hi.
  rewrite N.div_small by (apply N.mod_lt; exact Hi). reflexivity.
Qed.

Lemma validator_order_exact interval start t n :
  1 <= n -> 1 <= interval -> n * interval < two64 -> start <= t -> t < two64 ->
  validator_order interval start t n = Ok (((t - start) / interval) mod n).
Proof.
  intros Hn Hi Hov Hst Ht. unfold validator_order, w64.
  rewrite (N.mod_small (n * interval)) by exact Hov.
  replace (n * interval =? 0) with false by lia.
  replace (interval =? 0) with false by lia.
  rewrite (sub64_exact t start) by assumption.
  set (d := t - start). set (r := n * interval).
  assert (Hr : r <> 0) by (unfold r; lia).
  assert (Hq : d / r * r <= d) by (rewrite N.mul_comm; apply N.mul_div_le; exact Hr).
  rewrite (N.mod_small (d / r * r)) by (unfold d in *; lia).
  rewrite (N.mod_small (start + d / r * r)) by (unfold d in *; lia).
  rewrite sub64_exact by (unfold d in *; lia).
  f_equal.
  replace (t - (start + d / r * r)) with (d mod r).
  - unfold r. apply mod_mul_div; lia.
  - rewrite (N.mod_eq d r) by exact Hr. rewrite (N.mul_comm r). unfold d in *. lia.
Qed.

Lemma slot_round_robin interval start n j r :
  1 <= n -> 1 <= interval -> r < interval ->
  ((start + j * interval + r - start) / interval) mod n = j mod n.
Proof.
  intros Hn Hi Hr. replace (start + j * interval + r - start) with (j * interval + r) by lia.
  rewrite N.div_add_l by lia. rewrite N.div_small by exact Hr. rewrite N.add_0_r. reflexivity.
Qed.

Lemma find_order_contig vs : forall base i x,
  contig base vs -> nth_error vs i = Some x -> find_order vs (base + N.of_nat i) = Some x.
Proof.
  unfold find_order.
  induction vs as [|a vs IH]; intros base i x Hc Hn; [destruct i; discriminate|].
  pose proof (Hc 0%nat a eq_refl) as Ha. cbn in Ha.
  destruct i as [|i]; cbn in *.
  - inversion Hn; subst. replace (v_order x =? base + 0) with true by lia. reflexivity.
  - replace (v_order a =? base + N.pos (Pos.of_succ_nat i)) with false by lia.
    replace (base + N.pos (Pos.of_succ_nat i)) with ((base + 1) + N.of_nat i) by lia.
    apply IH; [|exact Hn].
    intros k y Hk. rewrite (Hc (S k) y Hk). lia.
Qed.

Lemma get_validator_slot vs interval cpts t :
  contig 0 vs ->
  let n := N.of_nat (length vs) in
  let start := w64 (cpts + interval) in
  1 <= n -> n < two63 -> 1 <= interval -> n * interval < two64 -> start <= t -> t < two64 ->
  let slot := ((t - start) / interval) mod n in
  exists v, get_validator vs interval cpts t = Ok (Some v)
            /\ nth_error vs (N.to_nat slot) = Some v /\ v_order v = slot
            /\ (forall v', In v' vs -> v_order v' = slot -> v' = v).
Proof.
  intros Hc n start Hn Hn63 Hi Hov Hst Ht slot.
  assert (Hslot : slot < n) by (apply N.mod_lt; lia).
  destruct (nth_error vs (N.to_nat slot)) as [v|] eqn:Ev.
  2:{ apply nth_error_None in Ev. unfold n in Hslot. lia. }
  exists v. unfold get_validator. fold start. fold n.
  rewrite validator_order_exact by assumption. fold slot.
  replace (slot <? two63) with true by lia.
  pose proof (find_order_contig vs 0 (N.to_nat slot) v Hc Ev) as F.
  replace (0 + N.of_nat (N.to_nat slot)) with slot in F by lia.
  rewrite F. split; [reflexivity|]. split; [reflexivity|].
  pose proof (Hc _ _ Ev) as Ho. split; [lia|].
  intros v' Hin Ho'. apply In_nth_error in Hin. destruct Hin as [i Hi'].
  pose proof (Hc _ _ Hi') as Hoi.
  assert (i = N.to_nat slot) by lia. subst i. congruence.
Qed.

Lemma get_validator_n0 interval cpts t : get_validator [] interval cpts t = Panic DivZero.
Proof. reflexivity. Qed.
