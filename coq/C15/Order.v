(* C15 — lemmas: the string order, the sort comparator, sorted permutations. *)
From Coq Require Import List NArith Bool Lia Permutation Sorted.
From Coq Require Import ZifyBool ZifyN ZifyNat.
From C15 Require Import Model.
Import ListNotations.
Open Scope N_scope.

(* ---- key order ------------------------------------------------------------ *)

Lemma key_eqb_eq a b : key_eqb a b = true <-> a = b.
Proof.
  revert b; induction a as [|x a IH]; intros [|y b]; cbn; split; intros H;
    try reflexivity; try discriminate.
  - apply andb_prop in H. destruct H as [H1 H2]. apply N.eqb_eq in H1. apply IH in H2. congruence.
  - inversion H; subst. rewrite N.eqb_refl. cbn. apply IH. reflexivity.
Qed.

Lemma key_eqb_refl a : key_eqb a a = true.
Proof. apply key_eqb_eq. reflexivity. Qed.

Lemma key_eqb_neq a b : key_eqb a b = false <-> a <> b.
Proof.
  split; intros H.
  - intros E. apply key_eqb_eq in E. congruence.
  - destruct (key_eqb a b) eqn:E; [apply key_eqb_eq in E; contradiction | reflexivity].
Qed.

Lemma key_eqb_sym a b : key_eqb a b = key_eqb b a.
Proof.
  destruct (key_eqb a b) eqn:E1, (key_eqb b a) eqn:E2; try reflexivity.
  - apply key_eqb_eq in E1. subst. rewrite key_eqb_refl in E2. discriminate.
  - apply key_eqb_eq in E2. subst. rewrite key_eqb_refl in E1. discriminate.
Qed.

Lemma key_ltb_irrefl a : key_ltb a a = false.
Proof. induction a as [|x a IH]; cbn; [reflexivity|]. rewrite N.ltb_irrefl. exact IH. Qed.

Lemma key_ltb_trans a b c : key_ltb a b = true -> key_ltb b c = true -> key_ltb a c = true.
Proof.
  revert b c; induction a as [|x a IH]; intros [|y b] [|z c]; cbn; try congruence.
  destruct (x <? y) eqn:Exy, (y <? x) eqn:Eyx, (y <? z) eqn:Eyz, (z <? y) eqn:Ezy,
    (x <? z) eqn:Exz, (z <? x) eqn:Ezx; try congruence; try lia.
  apply IH.
Qed.

Lemma key_ltb_total a b : key_ltb a b = false -> key_ltb b a = false -> a = b.
Proof.
  revert b; induction a as [|x a IH]; intros [|y b]; cbn; try congruence.
  destruct (x <? y) eqn:Exy, (y <? x) eqn:Eyx; try congruence.
  intros H1 H2. assert (x = y) by lia. subst. f_equal. apply IH; assumption.
Qed.

Lemma key_ltb_asym a b : key_ltb a b = true -> key_ltb b a = false.
Proof.
  intros H. destruct (key_ltb b a) eqn:E; [|reflexivity].
  pose proof (key_ltb_trans _ _ _ H E) as T. rewrite key_ltb_irrefl in T. discriminate.
Qed.

Definition key_lt (a b : key) : Prop := key_ltb a b = true.

(* ---- the comparator ------------------------------------------------------- *)

Definition vle (a b : entry) : Prop := vless b a = false.

Lemma vless_irrefl a : vless a a = false.
Proof. unfold vless. rewrite N.eqb_refl. cbn. apply key_ltb_irrefl. Qed.

Lemma vless_asym a b : vless a b = true -> vless b a = false.
Proof.
  unfold vless. destruct a as [ka va], b as [kb vb]; cbn.
  destruct (va =? vb) eqn:E1, (vb =? va) eqn:E2; cbn; try lia.
  apply key_ltb_asym.
Qed.

Lemma vless_trans a b c : vless a b = true -> vless b c = true -> vless a c = true.
Proof.
  unfold vless. destruct a as [ka va], b as [kb vb], c as [kc vc]; cbn.
  destruct (va =? vb) eqn:E1, (vb =? vc) eqn:E2, (va =? vc) eqn:E3; cbn; try lia.
  intros H1 H2. eapply key_ltb_trans; eassumption.
Qed.

Lemma vless_total a b : vless a b = false -> vless b a = false -> a = b.
Proof.
  unfold vless. destruct a as [ka va], b as [kb vb]; cbn.
  destruct (va =? vb) eqn:E1, (vb =? va) eqn:E2; cbn; try lia.
  intros H1 H2. assert (va = vb) by lia. subst. f_equal.
  symmetry. apply key_ltb_total; assumption.
Qed.

Lemma vle_trans a b c : vle a b -> vle b c -> vle a c.
Proof.
  unfold vle. intros H1 H2.
  destruct (vless c a) eqn:E; [|reflexivity].
  (* c < a ; not (b < a) ; not (c < b) *)
  destruct (vless a b) eqn:Eab.
  - pose proof (vless_trans _ _ _ E Eab). congruence.
  - pose proof (vless_total _ _ Eab H1). subst. congruence.
Qed.

#[global] Instance vle_Transitive : RelationClasses.Transitive vle.
Proof. intros a b c. apply vle_trans. Qed.

(* ---- sorted permutations are unique --------------------------------------- *)

Definition sort_contract (srt : list entry -> list entry) : Prop :=
  forall l, NoDup (map fst l) -> Permutation (srt l) l /\ Sorted vle (srt l).

Lemma NoDup_map_inj {A B} (f : A -> B) l x y :
  NoDup (map f l) -> In x l -> In y l -> f x = f y -> x = y.
Proof.
  induction l as [|a l IH]; cbn; intros ND Hx Hy E; [contradiction|].
  inversion ND as [|? ? Hn ND']; subst.
  destruct Hx as [->|Hx], Hy as [->|Hy]; try reflexivity.
  - exfalso. apply Hn. rewrite E. apply in_map. exact Hy.
  - exfalso. apply Hn. rewrite <- E. apply in_map. exact Hx.
  - apply IH; assumption.
Qed.

Lemma sorted_perm_unique (l1 l2 : list entry) :
  Permutation l1 l2 -> StronglySorted vle l1 -> StronglySorted vle l2 -> l1 = l2.
Proof.
  revert l2; induction l1 as [|x l1 IH]; intros l2 P S1 S2.
  - apply Permutation_nil in P. congruence.
  - destruct l2 as [|y l2]; [apply Permutation_sym, Permutation_nil in P; discriminate|].
    inversion S1 as [|? ? S1' F1]; subst. inversion S2 as [|? ? S2' F2]; subst.
    assert (x = y) as ->.
    { assert (In y (x :: l1)) as Hy by (eapply Permutation_in; [apply Permutation_sym; exact P | left; reflexivity]).
      assert (In x (y :: l2)) as Hx by (eapply Permutation_in; [exact P | left; reflexivity]).
      destruct Hy as [->|Hy]; [reflexivity|]. destruct Hx as [->|Hx]; [reflexivity|].
      rewrite Forall_forall in F1, F2. specialize (F1 _ Hy). specialize (F2 _ Hx).
      unfold vle in F1, F2. symmetry. apply vless_total; assumption. }
    f_equal. apply IH; [eapply Permutation_cons_inv; exact P | assumption | assumption].
Qed.

Lemma Permutation_filter {A} (p : A -> bool) l1 l2 :
  Permutation l1 l2 -> Permutation (filter p l1) (filter p l2).
Proof.
  induction 1; cbn.
  - constructor.
  - destruct (p x); [constructor|]; assumption.
  - destruct (p x), (p y); try apply perm_swap; try constructor; apply Permutation_refl.
  - eapply Permutation_trans; eassumption.
Qed.

Lemma NoDup_map_filter {A B} (f : A -> B) (p : A -> bool) l :
  NoDup (map f l) -> NoDup (map f (filter p l)).
Proof.
  induction l as [|a l IH]; cbn; intros ND; [constructor|].
  inversion ND as [|? ? Hn ND']; subst.
  destruct (p a); cbn; [constructor|]; auto.
  intros Hin. apply Hn. apply in_map_iff in Hin. destruct Hin as [x [E Hx]].
  apply filter_In in Hx. destruct Hx as [Hx _]. rewrite <- E. apply in_map. exact Hx.
Qed.

Lemma NoDup_map_perm {A B} (f : A -> B) l1 l2 :
  Permutation l1 l2 -> NoDup (map f l1) -> NoDup (map f l2).
Proof.
  intros P ND. eapply Permutation_NoDup; [apply Permutation_map; exact P | exact ND].
Qed.

(* the sorted list produced from any enumeration of the map by any sort *)
Lemma sorted_filter_unique srt1 srt2 m iter1 iter2 p :
  sort_contract srt1 -> sort_contract srt2 -> NoDup (map fst m) ->
  Permutation iter1 m -> Permutation iter2 m ->
  srt1 (filter p iter1) = srt2 (filter p iter2).
Proof.
  intros C1 C2 ND P1 P2.
  assert (ND1 : NoDup (map fst (filter p iter1))).
  { apply NoDup_map_filter. eapply NoDup_map_perm; [apply Permutation_sym; exact P1 | exact ND]. }
  assert (ND2 : NoDup (map fst (filter p iter2))).
  { apply NoDup_map_filter. eapply NoDup_map_perm; [apply Permutation_sym; exact P2 | exact ND]. }
  destruct (C1 _ ND1) as [Pa Sa]. destruct (C2 _ ND2) as [Pb Sb].
  apply sorted_perm_unique.
  - eapply Permutation_trans; [exact Pa|].
    eapply Permutation_trans; [apply Permutation_filter; exact P1|].
    eapply Permutation_trans; [apply Permutation_filter; apply Permutation_sym; exact P2|].
    apply Permutation_sym; exact Pb.
  - apply Sorted_StronglySorted; [exact vle_Transitive | exact Sa].
  - apply Sorted_StronglySorted; [exact vle_Transitive | exact Sb].
Qed.

(* ---- insertion sort satisfies the contract -------------------------------- *)

Lemma ins_sorted_perm e l : Permutation (ins_sorted e l) (e :: l).
Proof.
  induction l as [|x l IH]; cbn; [apply Permutation_refl|].
  destruct (vless x e).
  - eapply Permutation_trans; [apply perm_skip; exact IH | apply perm_swap].
  - apply Permutation_refl.
Qed.

Lemma isort_perm l : Permutation (isort l) l.
Proof.
  induction l as [|x l IH]; cbn; [constructor|].
  eapply Permutation_trans; [apply ins_sorted_perm | apply perm_skip; exact IH].
Qed.

Lemma ins_sorted_sorted e l : StronglySorted vle l -> StronglySorted vle (ins_sorted e l).
Proof.
  induction l as [|x l IH]; cbn; intros S.
  - constructor; constructor.
  - inversion S as [|? ? S' F]; subst.
    destruct (vless x e) eqn:E.
    + constructor; [apply IH; exact S'|].
      rewrite Forall_forall in *. intros y Hy.
      eapply Permutation_in in Hy; [|apply ins_sorted_perm].
      destruct Hy as [<-|Hy]; [|apply F; exact Hy].
      unfold vle. apply vless_asym. exact E.
    + constructor; [exact S|].
      constructor; [exact E|].
      rewrite Forall_forall in *. intros y Hy. eapply vle_trans; [exact E | apply F; exact Hy].
Qed.

Lemma isort_sorted l : StronglySorted vle (isort l).
Proof.
  induction l as [|x l IH]; cbn; [constructor|]. apply ins_sorted_sorted. exact IH.
Qed.

Lemma isort_contract : sort_contract isort.
Proof.
  intros l _. split; [apply isort_perm | apply StronglySorted_Sorted, isort_sorted].
Qed.
