(* C15 — the lemmas that Props.v restates, assembled from Order.v, Tally.v, Spec.v,
   and examples showing that every hypothesis is satisfiable by non-trivial values. *)
From Coq Require Import List Arith NArith Bool Lia Permutation Sorted.
From Coq Require Import ZifyBool ZifyN ZifyNat.
From Verif Require Import Outcome.
From C15 Require Import Model Order Tally Spec.
Import ListNotations.
Open Scope N_scope.

(* ---- determinism --------------------------------------------------------------- *)

Lemma deterministic :
  forall srt1 srt2 m iter1 iter2 st minv maxn fed viter1 viter2 interval cpts t,
    sort_contract srt1 -> sort_contract srt2 -> NoDup (map fst m) ->
    Permutation iter1 m -> Permutation iter2 m ->
    Permutation viter1 (effective_validators srt1 iter1 st minv maxn fed) ->
    Permutation viter2 (effective_validators srt2 iter2 st minv maxn fed) ->
    all_validators srt1 iter1 st minv = all_validators srt2 iter2 st minv
    /\ effective_validators srt1 iter1 st minv maxn fed = effective_validators srt2 iter2 st minv maxn fed
    /\ get_validator viter1 interval cpts t = get_validator viter2 interval cpts t.
Proof.
  intros srt1 srt2 m iter1 iter2 st minv maxn fed viter1 viter2 interval cpts t
         C1 C2 ND P1 P2 V1 V2.
  assert (A : all_validators srt1 iter1 st minv = all_validators srt2 iter2 st minv).
  { unfold all_validators. destruct st; try reflexivity;
      apply (sorted_filter_unique srt1 srt2 m); assumption. }
  assert (Ef : effective_validators srt1 iter1 st minv maxn fed
               = effective_validators srt2 iter2 st minv maxn fed).
  { unfold effective_validators. rewrite A. reflexivity. }
  split; [exact A|]. split; [exact Ef|].
  rewrite (get_validator_perm _ viter1 interval cpts t (eff_orders_nodup _ _ _ _ _ _) V1).
  rewrite (get_validator_perm _ viter2 interval cpts t (eff_orders_nodup _ _ _ _ _ _) V2).
  rewrite Ef. reflexivity.
Qed.

(* ---- declarative specification ---------------------------------------------------- *)

Lemma spec :
  forall srt m iter st minv maxn fed,
    sort_contract srt -> NoDup (map fst m) -> Permutation iter m ->
    let vs := effective_validators srt iter st minv maxn fed in
    (has_candidates st m minv = true ->
       (forall k o v, In (mkV k o v) vs <->
                      In (k, v) m /\ minv <= v /\ o = rank m minv (k, v) /\ o < N.of_nat maxn)
       /\ contig 0 vs
       /\ length vs = Nat.min maxn (length (filter (qual minv) m)))
    /\ (has_candidates st m minv = false ->
          vs = fed_from 0 fed
          /\ (NoDup fed -> vs = number_from 0 (map (fun k => (k, 0)) fed) /\ contig 0 vs
                           /\ length vs = length fed)).
Proof.
  intros srt m iter st minv maxn fed C ND P vs. split; intros H.
  - apply (eff_spec srt m iter st minv maxn fed C ND P H).
  - assert (E : vs = fed_from 0 fed) by (apply (eff_no_candidates srt m); assumption).
    split; [exact E|]. intros NF. rewrite E, fed_from_nodup by exact NF.
    split; [reflexivity|]. split; [apply contig_number_from|].
    rewrite number_from_length, map_length. reflexivity.
Qed.

(* ---- tally along a branch ------------------------------------------------------------ *)

Lemma tally_branch :
  forall E c bs c',
    wf (cp_votes c) -> run_chain E c bs = Ok c' ->
    wf (cp_votes c') /\ NoDup (map fst (cp_votes c'))
    /\ forall k, lookup k (cp_votes c') = tally k (lookup k (cp_votes c)) (chain_events E bs).
Proof.
  intros E c bs c' W R. destruct (run_chain_votes E c bs c' W R) as [W' T].
  split; [exact W'|]. split; [apply wf_NoDup; exact W' | exact T].
Qed.

Lemma tally_difference :
  forall k x evs, plain k x evs ->
    tally k (Some x) evs = Some (x + votes_of k evs - vetoes_of k evs)
    /\ vetoes_of k evs <= x + votes_of k evs.
Proof. intros. apply tally_plain. assumption. Qed.

(* ---- the schedule ---------------------------------------------------------------------- *)

Lemma one_proposer :
  forall srt m iter st minv maxn fed viter interval cpts t,
    sort_contract srt -> NoDup (map fst m) -> Permutation iter m -> NoDup fed ->
    let vs := effective_validators srt iter st minv maxn fed in
    Permutation viter vs ->
    let n := N.of_nat (length vs) in
    let start := w64 (cpts + interval) in
    1 <= n -> n < two63 -> 1 <= interval -> n * interval < two64 -> start <= t -> t < two64 ->
    let slot := ((t - start) / interval) mod n in
    exists v, get_validator viter interval cpts t = Ok (Some v)
              /\ nth_error vs (N.to_nat slot) = Some v /\ v_order v = slot
              /\ (forall v', In v' viter -> v_order v' = slot -> v' = v).
Proof.
  intros srt m iter st minv maxn fed viter interval cpts t C ND P NF vs V n start
         Hn Hn63 Hi Hov Hst Ht slot.
  assert (Hc : contig 0 vs) by (apply (eff_contig srt m); assumption).
  destruct (get_validator_slot vs interval cpts t Hc Hn Hn63 Hi Hov Hst Ht) as [v [G [Nth [Ho U]]]].
  exists v. rewrite (get_validator_perm vs viter interval cpts t (eff_orders_nodup _ _ _ _ _ _) V).
  split; [exact G|]. split; [exact Nth|]. split; [exact Ho|].
  intros v' Hin Ho'. apply U; [eapply Permutation_in; [exact V | exact Hin] | exact Ho'].
Qed.

Lemma round_robin :
  forall interval start n j r, 1 <= n -> 1 <= interval -> r < interval ->
    ((start + j * interval + r - start) / interval) mod n = j mod n.
Proof. intros. apply slot_round_robin; assumption. Qed.

Lemma n0 :
  forall srt m iter st minv maxn interval cpts t,
    sort_contract srt -> NoDup (map fst m) -> Permutation iter m ->
    has_candidates st m minv = false ->
    get_validator (effective_validators srt iter st minv maxn []) interval cpts t = Panic DivZero.
Proof.
  intros srt m iter st minv maxn interval cpts t C ND P H.
  rewrite (eff_no_candidates srt m) by assumption. reflexivity.
Qed.

(* ---- the hypotheses are satisfiable ------------------------------------------------------ *)

(* keys "a1" < "a2" < "b0" < "b07" as byte strings; three candidates tie on 50 votes *)
Definition ex_map : vmap :=
  [([97; 49], 50); ([97; 50], 70); ([98; 48], 50); ([98; 48; 55], 50); ([99], 3)].

Example ex_map_wf : wf ex_map.
Proof. unfold wf, ex_map; cbn. repeat (constructor; [|repeat constructor]). constructor. Qed.

Example ex_sort : sort_contract isort.
Proof. exact isort_contract. Qed.

Example ex_candidates : has_candidates Unjustified ex_map 10 = true.
Proof. reflexivity. Qed.

(* top three of four candidates: 70 votes first, then the tie broken by the greater key *)
Example ex_effective :
  effective_validators isort ex_map Unjustified 10 3 [[120]] =
  [mkV [97; 50] 0 70; mkV [98; 48; 55] 1 50; mkV [98; 48] 2 50].
Proof. vm_compute. reflexivity. Qed.

(* the same from another enumeration order *)
Example ex_effective_rev :
  effective_validators isort (rev ex_map) Unjustified 10 3 [[120]] =
  effective_validators isort ex_map Unjustified 10 3 [[120]].
Proof. vm_compute. reflexivity. Qed.

(* schedule premises hold for 3 validators, interval 6000, checkpoint time 1000, t = 7000 + 2*6000 + 5 *)
Example ex_schedule :
  let vs := effective_validators isort ex_map Unjustified 10 3 [[120]] in
  let n := N.of_nat (length vs) in
  1 <= n /\ n < two63 /\ 1 <= 6000 /\ n * 6000 < two64 /\ w64 (1000 + 6000) <= 19005 /\ 19005 < two64
  /\ get_validator vs 6000 1000 19005 = Ok (Some (mkV [98; 48] 2 50)).
Proof. vm_compute. repeat split; try reflexivity; try discriminate. Qed.

(* a branch of two blocks crossing an epoch boundary (E = 2): vote 5 for key 0xab, veto 2 *)
Definition ex_chain : list block :=
  [ {| b_height := 2; b_ts := 10; b_txs := [ {| tx_ins := [IOther]; tx_outs := [OVote [171] 5; OOther] |} ] |};
    {| b_height := 3; b_ts := 20; b_txs := [ {| tx_ins := [IVeto [171] 2]; tx_outs := [OVote [1] 0] |} ] |} ].
Definition ex_cp0 : checkpoint := {| cp_height := 1; cp_ts := 0; cp_status := Growing; cp_votes := [] |}.

Example ex_run_chain :
  exists c', run_chain 2 ex_cp0 ex_chain = Ok c'
             /\ cp_votes c' = [([48; 49], 0); ([97; 98], 3)] /\ cp_status c' = Growing.
Proof. eexists. split; [reflexivity|]. vm_compute. split; reflexivity. Qed.

Example ex_plain : plain [97; 98] 0 (chain_events 2 ex_chain).
Proof. vm_compute. repeat split; try reflexivity; try discriminate. Qed.
