(* C15 — validator set and block-proposer schedule.  EXECUTABLE MODEL ONLY (no proofs).

   Mirrors /repo/protocol/state/checkpoint.go:
     applyVotes, NewCheckpoint, Increase (the parts touching Votes/Status/Timestamp),
     AllValidators, EffectiveValidators, federationValidators, getValidatorOrder,
     GetValidator,
   and the way protocol/casper/apply_block.go walks a branch (a new child
   checkpoint when height % BlocksOfEpoch == 1, then Increase).

   Conventions: uint64 values are [N] with explicit wrap-around ([w64], [sub64]);
   a Go string is the list of its bytes ([key]); a Go map[string]uint64 is an
   association list kept strictly sorted by key ([vmap]).  Functions that range
   over a Go map take the enumeration order as an explicit argument ([iter],
   [viter]); [sort.Slice] is an explicit argument [srt]; the theorems quantify
   over all of them.  Block/checkpoint hashes are not modelled (the harness
   always chains blocks correctly, so Increase's hash guard never fires). *)
From Coq Require Import List NArith Bool.
From Verif Require Import Outcome.
Import ListNotations.
Open Scope N_scope.

(* ---- Go strings and their order ------------------------------------------ *)

Definition key := list N.

(* Go's [a < b] on strings: bytewise lexicographic, a proper prefix is smaller *)
Fixpoint key_ltb (a b : key) : bool :=
  match a, b with
  | [], [] => false
  | [], _ :: _ => true
  | _ :: _, [] => false
  | x :: a', y :: b' =>
      if x <? y then true else if y <? x then false else key_ltb a' b'
  end.

Fixpoint key_eqb (a b : key) : bool :=
  match a, b with
  | [], [] => true
  | x :: a', y :: b' => (x =? y) && key_eqb a' b'
  | _, _ => false
  end.

(* hex.EncodeToString: two lower-case hex digits per byte *)
Definition hexdigit (n : N) : N := if n <? 10 then 48 + n else 87 + n.
Fixpoint hexenc (bs : list N) : key :=
  match bs with
  | [] => []
  | b :: r => hexdigit (b / 16) :: hexdigit (b mod 16) :: hexenc r
  end.

(* ---- uint64 -------------------------------------------------------------- *)

Definition two64 : N := 18446744073709551616.
Definition two63 : N := 9223372036854775808.
Definition w64 (x : N) : N := x mod two64.
(* a - b on uint64 operands (both < 2^64) *)
Definition sub64 (a b : N) : N := (a + two64 - b) mod two64.

(* ---- map[string]uint64 --------------------------------------------------- *)

Definition entry := (key * N)%type.
Definition vmap := list entry.

Fixpoint lookup (k : key) (m : vmap) : option N :=
  match m with
  | [] => None
  | (k0, v0) :: r => if key_eqb k k0 then Some v0 else lookup k r
  end.

(* m[k] with the zero default *)
Definition get (k : key) (m : vmap) : N :=
  match lookup k m with Some v => v | None => 0 end.

Fixpoint insert (k : key) (v : N) (m : vmap) : vmap :=
  match m with
  | [] => [(k, v)]
  | (k0, v0) :: r =>
      if key_eqb k k0 then (k, v) :: r
      else if key_ltb k k0 then (k, v) :: m
      else (k0, v0) :: insert k v r
  end.

Fixpoint delete (k : key) (m : vmap) : vmap :=
  match m with
  | [] => []
  | (k0, v0) :: r => if key_eqb k k0 then delete k r else (k0, v0) :: delete k r
  end.

(* ---- applyVotes ---------------------------------------------------------- *)

Inductive txin := IVeto (pk : list N) (amt : N) | IOther.
Inductive txout := OVote (pk : list N) (amt : N) | OOther.
Record tx := { tx_ins : list txin; tx_outs : list txout }.

(*  if c.Votes[pubKey] > vetoInput.Amount { c.Votes[pubKey] -= vetoInput.Amount }
    else { delete(c.Votes, pubKey) }                                            *)
Definition apply_in (m : vmap) (i : txin) : vmap :=
  match i with
  | IVeto pk amt =>
      let k := hexenc pk in
      if amt <? get k m then insert k (get k m - amt) m else delete k m
  | IOther => m
  end.

(*  c.Votes[hex(vote)] += output.Amount      (uint64, wraps) *)
Definition apply_out (m : vmap) (o : txout) : vmap :=
  match o with
  | OVote pk amt => let k := hexenc pk in insert k (w64 (get k m + amt)) m
  | OOther => m
  end.

Definition apply_tx (m : vmap) (t : tx) : vmap :=
  fold_left apply_out (tx_outs t) (fold_left apply_in (tx_ins t) m).

Definition apply_votes (m : vmap) (txs : list tx) : vmap := fold_left apply_tx txs m.

(* ---- checkpoints along a branch ------------------------------------------ *)

Inductive status := Growing | Unjustified | Justified | Finalized.

Record checkpoint := {
  cp_height : N;
  cp_ts : N;
  cp_status : status;
  cp_votes : vmap
}.

Record block := { b_height : N; b_ts : N; b_txs : list tx }.

(* NewCheckpoint(parent): copies the non-zero votes, status Growing *)
Definition new_checkpoint (p : checkpoint) : checkpoint :=
  {| cp_height := cp_height p;
     cp_ts := cp_ts p;
     cp_status := Growing;
     cp_votes := filter (fun e => negb (snd e =? 0)) (cp_votes p) |}.

(* Checkpoint.Increase (epoch length E > 0) *)
Definition increase (E : N) (c : checkpoint) (b : block) : checkpoint :=
  {| cp_height := b_height b;
     cp_ts := b_ts b;
     cp_status := if b_height b mod E =? 0 then Unjustified else cp_status c;
     cp_votes := apply_votes (cp_votes c) (b_txs b) |}.

(* casper.applyBlockToCheckpoint: a new child when height % E == 1 *)
Definition chain_step (E : N) (c : checkpoint) (b : block) : checkpoint :=
  increase E (if b_height b mod E =? 1 then new_checkpoint c else c) b.

(* a whole branch; BlocksOfEpoch = 0 makes the first [%] panic *)
Definition run_chain (E : N) (c : checkpoint) (bs : list block) : outcome unit checkpoint :=
  match bs with
  | [] => Ok c
  | _ :: _ => if E =? 0 then Panic DivZero else Ok (fold_left (chain_step E) bs c)
  end.

(* ---- AllValidators / EffectiveValidators --------------------------------- *)

(* the comparator given to sort.Slice: "a sorts before b" *)
Definition vless (a b : entry) : bool :=
  if negb (snd a =? snd b) then snd b <? snd a else key_ltb (fst b) (fst a).

(* [iter] = the map's entries in the order [range c.Votes] yields them;
   [srt]  = sort.Slice with [vless] *)
Definition all_validators (srt : list entry -> list entry) (iter : list entry)
           (st : status) (minv : N) : list entry :=
  match st with
  | Growing => []
  | _ => srt (filter (fun e => minv <=? snd e) iter)
  end.

Record validator := { v_pub : key; v_order : N; v_votes : N }.

Fixpoint number_from (i : N) (l : list entry) : list validator :=
  match l with
  | [] => []
  | (k, v) :: r => {| v_pub := k; v_order := i; v_votes := v |} :: number_from (i + 1) r
  end.

Fixpoint key_mem (k : key) (l : list key) : bool :=
  match l with [] => false | x :: r => key_eqb k x || key_mem k r end.

(* federationValidators: validators[xpub.String()] = {Order: i}; a repeated key
   keeps its last index.  Listed by Order. *)
Fixpoint fed_from (i : N) (fed : list key) : list validator :=
  match fed with
  | [] => []
  | k :: r =>
      if key_mem k r then fed_from (i + 1) r
      else {| v_pub := k; v_order := i; v_votes := 0 |} :: fed_from (i + 1) r
  end.

(* the resulting map[string]*Validator, listed by Order *)
Definition effective_validators (srt : list entry -> list entry) (iter : list entry)
           (st : status) (minv : N) (maxn : nat) (fed : list key) : list validator :=
  match all_validators srt iter st minv with
  | [] => fed_from 0 fed
  | vs => number_from 0 (firstn maxn vs)
  end.

(* ---- getValidatorOrder / GetValidator ------------------------------------ *)

Definition validator_order (interval start t n : N) : outcome unit N :=
  let round := w64 (n * interval) in
  if round =? 0 then Panic DivZero
  else
    let last := w64 (start + w64 (sub64 t start / round * round)) in
    if interval =? 0 then Panic DivZero else Ok (sub64 t last / interval).

Definition find_order (viter : list validator) (o : N) : option validator :=
  find (fun v => v_order v =? o) viter.

(* [viter] = the validators map in the order [range validators] yields it.
   [validator.Order == int(order)]: an order >= 2^63 converts to a negative int *)
Definition get_validator (viter : list validator) (interval cpts t : N)
  : outcome unit (option validator) :=
  let start := w64 (cpts + interval) in
  match validator_order interval start t (N.of_nat (length viter)) with
  | Ok o => Ok (if o <? two63 then find_order viter o else None)
  | Err e => Err e
  | Panic p => Panic p
  end.

(* ---- the reference sort used when the model is executed ------------------ *)

Fixpoint ins_sorted (e : entry) (l : list entry) : list entry :=
  match l with
  | [] => [e]
  | x :: r => if vless x e then x :: ins_sorted e r else e :: l
  end.
Definition isort (l : list entry) : list entry := fold_right ins_sorted [] l.
