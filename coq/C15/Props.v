(* C15 — Validator set and block-proposer schedule are deterministic.
   PROPERTY THEOREMS ONLY.

   The model (C15/Model.v) mirrors protocol/state/checkpoint.go: applyVotes,
   NewCheckpoint, Increase, AllValidators, EffectiveValidators,
   federationValidators, getValidatorOrder, GetValidator, with uint64 wrap-around
   written out.  Everything the Go code obtains by ranging over a map is an explicit
   enumeration argument ([iter] for c.Votes, [viter] for the validators map) and
   sort.Slice is an explicit argument [srt]; the theorems hold for ALL enumerations
   that are permutations of the map and ALL functions meeting the sort contract
   ([sort_contract]: the result is a permutation of the input and adjacent elements
   are in comparator order, required only for inputs with distinct keys).

   [wf m]        the association list m has strictly increasing keys (a Go map);
   [rank m min e] the number of entries of m with tally >= min that sort before e
                  (more votes, or equal votes and the greater key);
   [contig 0 vs] the i-th listed validator has Order i;
   [tally k t evs] the per-key tally: a veto subtracts when the tally is strictly
                  greater and removes the entry otherwise, a vote adds modulo 2^64,
                  an epoch boundary (NewCheckpoint) drops a zero entry. *)
From Coq Require Import List NArith Permutation.
From Verif Require Import Outcome.
From C15 Require Import Model Order Tally Spec Proofs.
Import ListNotations.
Open Scope N_scope.

(* The validator list, the effective set with its orders, and the scheduled
   validator do not depend on the iteration order of either map nor on which
   (unstable) sorting algorithm is used. *)
Theorem c15_deterministic :
  forall srt1 srt2 m iter1 iter2 st minv maxn fed viter1 viter2 interval cpts t,
    sort_contract srt1 -> sort_contract srt2 -> NoDup (map fst m) ->
    Permutation iter1 m -> Permutation iter2 m ->
    Permutation viter1 (effective_validators srt1 iter1 st minv maxn fed) ->
    Permutation viter2 (effective_validators srt2 iter2 st minv maxn fed) ->
    all_validators srt1 iter1 st minv = all_validators srt2 iter2 st minv
    /\ effective_validators srt1 iter1 st minv maxn fed = effective_validators srt2 iter2 st minv maxn fed
    /\ get_validator viter1 interval cpts t = get_validator viter2 interval cpts t.
Proof. exact deterministic. Qed.
Print Assumptions c15_deterministic.

(* The effective validators are exactly the candidates (tally >= minimum, checkpoint
   not Growing) whose rank is below the maximum (ten), each with Order = rank, listed
   by Order; when there is no candidate they are the federation keys with Order =
   position and zero votes. *)
Theorem c15_spec :
  forall srt m iter st minv maxn fed,
    sort_contract srt -> NoDup (map fst m) -> Permutation iter m ->
    let vs := effective_validators srt iter st minv maxn fed in
    (has_candidates st m minv = true ->
       (forall k o v, In (mkV k o v) vs <->
                      In (k, v) m /\ minv <= v /\ o = rank m minv (k, v) /\ o < N.of_nat maxn)
       /\ contig 0 vs
       /\ length vs = Nat.min maxn (length (filter (qual minv) m)))
    /\ (has_candidates st m minv = false ->
          vs = fed_from 0 fed
          /\ (NoDup fed -> vs = number_from 0 (map (fun k => (k, 0)) fed) /\ contig 0 vs
                           /\ length vs = length fed)).
Proof. exact spec. Qed.
Print Assumptions c15_spec.

(* Along any branch (any list of blocks, a child checkpoint at every height = 1 mod
   E) the vote map stays a map (distinct keys) and every key holds exactly its tally
   under the code's floor rule. *)
Theorem c15_tally :
  forall E c bs c',
    wf (cp_votes c) -> run_chain E c bs = Ok c' ->
    wf (cp_votes c') /\ NoDup (map fst (cp_votes c'))
    /\ forall k, lookup k (cp_votes c') = tally k (lookup k (cp_votes c)) (chain_events E bs).
Proof. exact tally_branch. Qed.
Print Assumptions c15_tally.

(* When no veto reaches the running tally, no sum reaches 2^64 and the tally is not
   zero at an epoch boundary ([plain]), the tally is votes minus vetoes. *)
Theorem c15_tally_difference :
  forall k x evs, plain k x evs ->
    tally k (Some x) evs = Some (x + votes_of k evs - vetoes_of k evs)
    /\ vetoes_of k evs <= x + votes_of k evs.
Proof. exact tally_difference. Qed.
Print Assumptions c15_tally_difference.

(* For every block time t at or after the epoch start (checkpoint timestamp +
   interval), with n >= 1 validators and n * interval < 2^64: GetValidator returns
   exactly one validator, the one whose Order is ((t - start) / interval) mod n, for
   every enumeration order of the validators map; no other validator has that Order. *)
Theorem c15_one_proposer :
  forall srt m iter st minv maxn fed viter interval cpts t,
    sort_contract srt -> NoDup (map fst m) -> Permutation iter m -> NoDup fed ->
    let vs := effective_validators srt iter st minv maxn fed in
    Permutation viter vs ->
    let n := N.of_nat (length vs) in
    let start := w64 (cpts + interval) in
    1 <= n -> n < two63 -> 1 <= interval -> n * interval < two64 -> start <= t -> t < two64 ->
    let slot := ((t - start) / interval) mod n in
    exists v, get_validator viter interval cpts t = Ok (Some v)
              /\ nth_error vs (N.to_nat slot) = Some v /\ v_order v = slot
              /\ (forall v', In v' viter -> v_order v' = slot -> v' = v).
Proof. exact one_proposer. Qed.
Print Assumptions c15_one_proposer.

(* Round-robin: every time inside the j-th slot after the start maps to j mod n. *)
Theorem c15_round_robin :
  forall interval start n j r, 1 <= n -> 1 <= interval -> r < interval ->
    ((start + j * interval + r - start) / interval) mod n = j mod n.
Proof. exact round_robin. Qed.
Print Assumptions c15_round_robin.

(* Note (configuration only): with no candidate and an empty federation list the
   schedule divides by zero. *)
Theorem c15_n0 :
  forall srt m iter st minv maxn interval cpts t,
    sort_contract srt -> NoDup (map fst m) -> Permutation iter m ->
    has_candidates st m minv = false ->
    get_validator (effective_validators srt iter st minv maxn []) interval cpts t = Panic DivZero.
Proof. exact n0. Qed.
Print Assumptions c15_n0.

(* ---- The slot arithmetic of the model is the code's (translator tools/gofrag) ------------------
   VerifGen.FragState.getValidatorOrder is GENERATED from getValidatorOrder
   (protocol/state/checkpoint.go) on every run; its first parameter is the configuration value
   consensus.ActiveNetParams.BlockTimeInterval.  C15/Tie.v: [u64 x] = x < 2^64; [code_view] maps
   Ok o to Some o and a panic to None. *)
From Coq Require Import ZArith.
From VerifGen Require Import FragState.
From C15 Require Import Tie.

(* TIE: same value and same panics as the hand-written validator_order, all uint64 inputs *)
Theorem c15_tie_getValidatorOrder : forall interval start t n,
  u64 interval -> u64 start -> u64 t -> u64 n ->
  getValidatorOrder (Z.of_N interval) (Z.of_N start) (Z.of_N t) (Z.of_N n) =
  code_view (validator_order interval start t n).
Proof. exact tie_validator_order. Qed.
Print Assumptions c15_tie_getValidatorOrder.

(* SPEC: without wrap-around of n * interval the slot is ((t - start) / interval) mod n, no panic *)
Theorem c15_code_getValidatorOrder : forall interval start t n,
  (1 <= n)%N -> (1 <= interval)%N -> (n * interval < two64)%N -> (start <= t)%N -> u64 t ->
  getValidatorOrder (Z.of_N interval) (Z.of_N start) (Z.of_N t) (Z.of_N n) =
  Some (Z.of_N (((t - start) / interval) mod n)%N).
Proof. exact getValidatorOrder_spec. Qed.
Print Assumptions c15_code_getValidatorOrder.
