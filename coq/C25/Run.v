(* C25 — helpers used by the generated case files: the run of C24.Run.run_case projected
   to what C25 is about: per delivery (wallet in step with the node, node height) and for
   every present record its ValidHeight, the keeper's verdict "usable at the node's best
   height" and the consensus verdict for a spend at the next height on the chain the
   wallet is attached to (0 not an unspent output, 1 immature / locked, 2 spendable). *)
From Coq Require Import List NArith Bool.
From Verif Require Import Cmp.
From C24 Require Import Model Run.
Import ListNotations.
Open Scope N_scope.

Definition c25_rec := (N * bool * (N * bool * N))%type.
Definition c25_of (r : orecd) : c25_rec :=
  match r with
  | (id, sp, (_, _, _, _, _, _, _, vh, us, st)) => (id, sp, (vh, us, st))
  end.
Definition c25_obs := (bool * N * list c25_rec)%type.
Definition c25_project (o : obs) : c25_obs :=
  match o with (sy, h, l) => (sy, h, map c25_of l) end.

Definition run_c25 t g trunk ds n : list c25_obs := map c25_project (run_case t g trunk ds n).

Definition c25_rec_eqb : c25_rec -> c25_rec -> bool :=
  pair_eqb (pair_eqb N.eqb Bool.eqb) (pair_eqb (pair_eqb N.eqb Bool.eqb) N.eqb).

Definition c25_obs_eqb : c25_obs -> c25_obs -> bool :=
  pair_eqb (pair_eqb Bool.eqb N.eqb) (list_eqb c25_rec_eqb).

Definition c25_res := list c25_obs.
Definition c25_res_eqb : c25_res -> c25_res -> bool := list_eqb c25_obs_eqb.
