(* C25 — helpers used by the generated keeper case files (cases_keeper_<k>.v).

   One case = one observation of the real keeper (account manager's own utxoKeeper behind a real
   wallet): the node's best height, the wallet's records under the standard and the contract key,
   the copies in the keeper's unconfirmed map, and the output ids asked for.  Compared, for
   useUnconfirmed = true and = false:
     - for each of the four queries (account 1 / 2, no vote / vote key 1, asset BTM) what findUtxos
       hands out (output id, ValidHeight of the utxo handed out; sorted by id - the code iterates a
       LevelDB prefix and a Go map) and the immature amount;
     - for every id what ReserveParticular hands out (ValidHeight of the utxo) or that it refuses. *)
From Coq Require Import List NArith Bool.
From Verif Require Import Cmp.
From C24 Require Import Model.
From C25 Require Import Keeper.
Import ListNotations.
Open Scope N_scope.

Definition k_queries : list kquery :=
  [mkQ 1 0 None; mkQ 1 0 (Some 1); mkQ 2 0 None; mkQ 2 0 (Some 1)].

Fixpoint ins_sorted (x : N * N) (l : list (N * N)) : list (N * N) :=
  match l with
  | [] => [x]
  | y :: l' => if fst x <=? fst y then x :: l else y :: ins_sorted x l'
  end.
Definition sort_ids (l : list (N * N)) : list (N * N) := fold_right ins_sorted [] l.

Definition kres := (list (list (N * N) * N) * list (option N))%type.

Definition run_flag (h : N) (std ctr unconf : list utxo) (ids : list N) (useU : bool) : kres :=
  (map (fun q => match find_utxos q h std unconf useU with
                 | (o, imm) => (sort_ids (map (fun u => (u_id u, u_valid u)) o), imm)
                 end) k_queries,
   map (fun id => option_map u_valid (reserve_particular std ctr unconf id useU h)) ids).

Definition keeper_res := (kres * kres)%type.

Definition run_keeper (h : N) (std ctr unconf : list utxo) (ids : list N) : keeper_res :=
  (run_flag h std ctr unconf ids true, run_flag h std ctr unconf ids false).

Definition kres_eqb : kres -> kres -> bool :=
  pair_eqb (list_eqb (pair_eqb (list_eqb (pair_eqb N.eqb N.eqb)) N.eqb)) (list_eqb (option_eqb N.eqb)).

Definition keeper_res_eqb : keeper_res -> keeper_res -> bool := pair_eqb kres_eqb kres_eqb.
