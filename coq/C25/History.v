(* C25 — concrete histories: satisfiable hypotheses, the refutation of the statement
   without the schedule hypothesis (known finding C25-vote-lock-schedule) and the
   violation by the PINNED detachUtxos (restored outputs get ValidHeight 0). *)
From Coq Require Import List NArith Bool Lia.
From C24 Require Import Model Maps Inv Detach Proofs.
From C25 Require Import Proofs.
Import ListNotations.
Open Scope N_scope.

Definition owner1 (p : N) : option cp := if N.eqb p 1 then Some (mkCP 1 1 false) else None.
Definition p2w1 (p : N) : bool := (1 <=? p) && (p <=? 2).

(* constant vote lock 3 *)
Definition P0 : params := mkP p2w1 owner1 0 10 (fun _ => 3).
(* a lock that GROWS: 1 below height 3, 5 from there on (main net: 14400 below 432000, 302400 after) *)
Definition P1 : params := mkP p2w1 owner1 0 10 (fun h => if h <? 3 then 1 else 5).

Definition cb (id : N) : tx := mkTx true [IOther] [OOrig (mkO id 0 0 0)].
Definition empty (id prev h : N) : block := mkB id prev h [cb (1000 + id)].

(* the statement for a variant of the code and a class of parameters *)
Definition c25_statement (I : impl) (guard : params -> Prop) : Prop :=
  forall P st, guard P -> reach I P st -> spendable_next P st.

Definition c25_system_statement (I : impl) (guard : params -> Prop) : Prop :=
  forall P g ds, guard P -> cscan P [g] <> None ->
    sys_ok I P (mkSys [g] (winit P g)) ds ->
    let s := sys_run I P (mkSys [g] (winit P g)) ds in
    forall k u e m, dget (wdb (s_w s)) k = Some u -> usable u (tip_height (s_main s)) = true ->
      cscan P (wchain (s_w s)) = Some m -> cget m (snd k) = Some e ->
      unlocked P e (tip_height (s_main s) + 1) = true.

Definition sched_good (P : params) : Prop := sched_create P /\ sched_mono P.

Lemma P0_good : sched_good P0.
Proof. apply (sched_const P0 3). reflexivity. Qed.

(* ------------------------------------------------------------------ the schedule *)

(* g; block 2 (height 1) creates a wallet-owned vote output 5; block 3 (height 2) empty *)
Definition gA : block := mkB 1 0 0 [cb 1001].
Definition v1 : block := mkB 2 1 1 [cb 1002; mkTx false [IOther] [OVote (mkO 5 0 40 1) 7]].
Definition v2 : block := empty 3 2 2.

Definition st_sched : wstate := wrun repaired P1 (winit P1 gA) [OAttach v1; OAttach v2].

Lemma st_sched_reach : reach repaired P1 st_sched.
Proof.
  apply wrun_reach.
  - constructor. vm_compute. discriminate.
  - apply hist_okb_ok. vm_compute. reflexivity.
Qed.

(* the wallet says: mature from height 2 on (1 + lock(1) = 2); consensus at height 3: 1 + lock(3) = 6 > 3 *)
Lemma st_sched_witness :
  exists u, dget (wdb st_sched) (true, 5) = Some u /\ u_valid u = 2 /\ usable u 2 = true /\
  exists m e, cscan P1 (wchain st_sched) = Some m /\ cget m 5 = Some e /\ unlocked P1 e 3 = false.
Proof. vm_compute. eexists. repeat split. eexists. eexists. repeat split. Qed.

Theorem refuted_lock_schedule : ~ c25_statement repaired (fun _ => True).
Proof.
  intros H. specialize (H P1 st_sched Logic.I st_sched_reach).
  destruct st_sched_witness as [u [G [_ [U [m [e [C [E L]]]]]]]].
  destruct (H (true, 5) u 2 G U) as [m' [e' [C' [E' [_ [_ [_ [_ L']]]]]]]].
  rewrite C in C'. inversion C'; subst m'. cbn [snd] in E'. rewrite E in E'. inversion E'; subst e'.
  change (2 + 1) with 3 in L'. rewrite L in L'. discriminate.
Qed.

(* ------------------------------------------------------------------ the pinned code *)

(* genesis pays the wallet a COINBASE output 1 (mature at height 10) *)
Definition gB : block := mkB 1 0 0 [mkTx true [IOther] [OOrig (mkO 1 0 50 1)]].
Definition e (i : N) : block := empty (i + 1) i i.      (* block id i+1 at height i on block id i *)
Definition trunkB : list block := map e [1; 2; 3; 4; 5; 6; 7; 8; 9].
(* A10 spends the coinbase output at height 10 *)
Definition a10 : block := mkB 11 10 10 [cb 1011; mkTx false [ISpend (mkO 1 0 50 1)] [OOrig (mkO 2 0 49 2)]].
Definition b10 : block := empty 12 10 10.
Definition b11 : block := empty 13 12 11.
Definition z6 : block := empty 14 6 6.

(* wallet level: attach everything up to A10, then DetachBlock twice *)
Definition ops_pin : list op := map OAttach trunkB ++ [OAttach a10; ODetach; ODetach].
Definition st_pin (I : impl) : wstate := wrun I P0 (winit P0 gB) ops_pin.

Lemma st_pin_reach I : reach I P0 (st_pin I).
Proof.
  apply wrun_reach.
  - constructor. vm_compute. discriminate.
  - apply hist_okb_ok. destruct I as [a b]; destruct a, b; vm_compute; reflexivity.
Qed.

(* the restored coinbase output has ValidHeight 0: usable at the wallet's own height 8,
   immature (0 + 10 > 9) for consensus *)
Lemma st_pin_witness :
  tip_height (wchain (st_pin pinned)) = 8 /\
  exists u, dget (wdb (st_pin pinned)) (true, 1) = Some u /\ u_valid u = 0 /\ usable u 8 = true /\
  exists m e, cscan P0 (wchain (st_pin pinned)) = Some m /\ cget m 1 = Some e /\ unlocked P0 e 9 = false.
Proof. vm_compute. split; [reflexivity|]. eexists. repeat split. eexists. eexists. repeat split. Qed.

Theorem pinned_refuted : ~ c25_statement pinned sched_good.
Proof.
  intros H. specialize (H P0 (st_pin pinned) P0_good (st_pin_reach pinned)).
  destruct st_pin_witness as [_ [u [G [_ [U [m [e [C [E L]]]]]]]]].
  destruct (H (true, 1) u 8 G U) as [m' [e' [C' [E' [_ [_ [_ [_ L']]]]]]]].
  rewrite C in C'. inversion C'; subst m'. cbn [snd] in E'. rewrite E in E'. inversion E'; subst e'.
  change (8 + 1) with 9 in L'. rewrite L in L'. discriminate.
Qed.

(* the repaired code on the same operations: the restored output matures at height 10 *)
Example st_pin_repaired :
  exists u, dget (wdb (st_pin repaired)) (true, 1) = Some u /\ u_valid u = 10 /\ usable u 8 = false.
Proof. vm_compute. eexists. repeat split. Qed.

(* node level, through the real updater walk: the node goes genesis..9, A10 (spend), then
   B10, B11 replace A10 (the wallet un-spends output 1), then the LOWER branch Z6 wins (a
   justified checkpoint): the wallet is not woken, the keeper works with height 6 *)
Definition ds_pin : list (nat * list block) :=
  map (fun b => (0%nat, [b])) trunkB ++ [(0%nat, [a10]); (1%nat, [b10; b11]); (6%nat, [z6])].

Definition s_pin (I : impl) : sys := sys_run I P0 (mkSys [gB] (winit P0 gB)) ds_pin.

Lemma s_pin_ok I : cscan P0 [gB] <> None /\ sys_ok I P0 (mkSys [gB] (winit P0 gB)) ds_pin.
Proof.
  split; [vm_compute; discriminate|].
  apply sys_okb_ok. destruct I as [a b]; destruct a, b; vm_compute; reflexivity.
Qed.

Lemma s_pin_witness :
  tip_height (s_main (s_pin pinned)) = 6 /\ tip_height (wchain (s_w (s_pin pinned))) = 11 /\
  exists u, dget (wdb (s_w (s_pin pinned))) (true, 1) = Some u /\ usable u 6 = true /\
  exists m e, cscan P0 (wchain (s_w (s_pin pinned))) = Some m /\ cget m 1 = Some e /\
              unlocked P0 e 7 = false /\
  exists m', cscan P0 (s_main (s_pin pinned)) = Some m' /\ cget m' 1 = Some e.
Proof.
  vm_compute. split; [reflexivity|]. split; [reflexivity|].
  eexists. repeat split. eexists. eexists. repeat split. eexists. repeat split.
Qed.

Lemma s_pin_witness2 :
  let s := sys_run pinned P0 (mkSys [gB] (winit P0 gB)) ds_pin in
  exists k u e m, dget (wdb (s_w s)) k = Some u /\ usable u (tip_height (s_main s)) = true /\
    cscan P0 (wchain (s_w s)) = Some m /\ cget m (snd k) = Some e /\
    unlocked P0 e (tip_height (s_main s) + 1) = false.
Proof.
  cbv zeta. exists (true, 1). vm_compute. eexists. eexists. eexists. repeat split.
Qed.

Theorem pinned_refuted_system : ~ c25_system_statement pinned sched_good.
Proof.
  intros H. destruct (s_pin_ok pinned) as [Hg Hs].
  specialize (H P0 gB ds_pin P0_good Hg Hs). cbv zeta in H.
  pose proof s_pin_witness2 as W. cbv zeta in W.
  destruct W as [k [u [e [m [G [U [C [E L]]]]]]]].
  exact (eq_true_false_abs _ (H k u e m G U C E) L).
Qed.

Theorem repaired_system : c25_system_statement repaired sched_good.
Proof.
  intros P g ds [HC HM] Hg Hs s k u e m G U C E.
  destruct (system_usable_is_spendable P g ds HC HM Hg Hs k u _ G U) as [m' [e' [C' [E' [_ [_ [_ [_ L]]]]]]]].
  fold s in C'. rewrite C in C'. inversion C'; subst m'. rewrite E in E'. inversion E'; subst e'. exact L.
Qed.
