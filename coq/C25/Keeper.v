(* C25 — the keeper's lookups when the caller accepts unconfirmed utxos.  EXECUTABLE MODEL, no proofs.

   Mirrors account/utxo_keeper.go
     findUtxos(accountID, assetID, useUnconfirmed, vote)
         the closure appendUtxo (filter on account / asset / vote; an output id is looked at
         once: [seen]; ValidHeight > currentHeight counts as immature amount, otherwise the
         utxo is handed out) is applied to the records of the wallet's db under the standard
         key prefix, in key order, and then - with useUnconfirmed - to the keeper's
         unconfirmed map, in map order;
     findUtxo(outHash, useUnconfirmed)
         the db under the standard key, then under the contract key, and only then - when
         useUnconfirmed is set - the unconfirmed map: the confirmed record wins over a copy, the
         same precedence as in findUtxos (the code before /repo commit 781a2de1 looked in the
         unconfirmed map FIRST: [find_utxo_old], kept for the regression witness);
     ReserveParticular(outHash, useUnconfirmed, _)
         findUtxo, then the maturity filter ValidHeight <= currentHeight (the reservation
         book-keeping - property C26 - is left out: no reservation is held across calls here).

   The records are C24.Model.utxo.  The copies in the unconfirmed map are what
   wallet.AddUnconfirmedTx computed with txOutToUtxos(tx, 0): their ValidHeight is
   VotePendingBlockNums(0) for a vote output and 0 otherwise, whatever height the transaction
   is mined at later; wallet.RemoveUnconfirmedTx deletes them when the pool's removal message
   is handled.  Which copies exist at a given moment is an INPUT of this model. *)
From Coq Require Import List NArith Bool.
From C24 Require Import Model.
Import ListNotations.
Open Scope N_scope.

(* the arguments of findUtxos *)
Record kquery := mkQ { q_acct : N; q_asset : N; q_vote : option N }.

(* UTXO.AccountID: 0 when filterAccountUtxo has not set it *)
Definition acct_of (u : utxo) : N :=
  match u_cp u with Some c => cp_acct c | None => 0 end.

Definition kmatch (q : kquery) (u : utxo) : bool :=
  N.eqb (acct_of u) (q_acct q) && N.eqb (u_asset u) (q_asset q) && optN_eqb (u_vote u) (q_vote q).

Definition mem (x : N) (l : list N) : bool := existsb (N.eqb x) l.

(* the variables the closure appendUtxo updates: seen, utxos, immatureAmount (uint64) *)
Record fstate := mkF { f_seen : list N; f_out : list utxo; f_imm : N }.

Definition append_utxo (q : kquery) (h : N) (s : fstate) (u : utxo) : fstate :=
  if kmatch q u then
    if mem (u_id u) (f_seen s) then s
    else if h <? u_valid u
         then mkF (u_id u :: f_seen s) (f_out s) (wrap64 (f_imm s + u_amount u))
         else mkF (u_id u :: f_seen s) (f_out s ++ [u]) (f_imm s)
  else s.

(* [dbl]: the db records under the standard key prefix, in iteration order; [unconf]: the
   unconfirmed map in iteration order; result: the utxos handed out and the immature amount *)
Definition find_utxos (q : kquery) (h : N) (dbl unconf : list utxo) (useU : bool) : list utxo * N :=
  let s := fold_left (append_utxo q h) dbl (mkF [] [] 0) in
  let s' := if useU then fold_left (append_utxo q h) unconf s else s in
  (f_out s', f_imm s').

Definition lookup (l : list utxo) (id : N) : option utxo :=
  find (fun u => N.eqb (u_id u) id) l.

(* [std], [ctr]: the db records under the standard / the contract key *)
Definition find_utxo (std ctr unconf : list utxo) (id : N) (useU : bool) : option utxo :=
  match lookup std id with
  | Some u => Some u
  | None =>
    match lookup ctr id with
    | Some u => Some u
    | None => if useU then lookup unconf id else None
    end
  end.

(* findUtxo before the repair: the unconfirmed map first *)
Definition find_utxo_old (std ctr unconf : list utxo) (id : N) (useU : bool) : option utxo :=
  match (if useU then lookup unconf id else None) with
  | Some u => Some u
  | None =>
    match lookup std id with
    | Some u => Some u
    | None => lookup ctr id
    end
  end.

(* None: ErrMatchUTXO or ErrImmature *)
Definition reserve_particular (std ctr unconf : list utxo) (id : N) (useU : bool) (h : N) : option utxo :=
  match find_utxo std ctr unconf id useU with
  | Some u => if h <? u_valid u then None else Some u
  | None => None
  end.

Definition reserve_particular_old (std ctr unconf : list utxo) (id : N) (useU : bool) (h : N) : option utxo :=
  match find_utxo_old std ctr unconf id useU with
  | Some u => if h <? u_valid u then None else Some u
  | None => None
  end.
