(* C25 — the wallet never reports unspendable outputs as mature: proofs.
   Imports the model, the invariant [Inv true] (record view + maturity part [Vh]) and the
   reachability theorem of C24. *)
From Coq Require Import List NArith Bool Lia.
From C24 Require Import Model Maps Inv Detach Proofs.
Import ListNotations.
Open Scope N_scope.

Lemma sched_ok_true P : sched_create P -> sched_mono P -> sched_ok true P.
Proof. intros A B _. split; assumption. Qed.

(* the conclusion of the property for one wallet state: every record the keeper's filter
   passes at height h is an unspent output of the chain the wallet is attached to, it is the
   output the record describes, and consensus accepts a spend of it at height h + 1 *)
Definition spendable_next (P : params) (st : wstate) : Prop :=
  forall k u h, dget (wdb st) k = Some u -> usable u h = true ->
    exists m e, cscan P (wchain st) = Some m /\ cget m (snd k) = Some e /\
      u_id u = snd k /\ u_amount u = o_amount (ce_rec e) /\ u_prog u = o_prog (ce_rec e) /\
      u_vote u = ce_vote e /\
      unlocked P e (h + 1) = true.

Theorem usable_is_spendable P st :
  sched_create P -> sched_mono P -> reach repaired P st -> spendable_next P st.
Proof.
  intros HC HM R k u h G U.
  destruct (reach_inv true P st (sched_ok_true P HC HM) R) as [m [C [HV HH]]].
  specialize (HH eq_refl). specialize (HV k). rewrite G in HV. cbn [option_map] in HV.
  unfold view in HV. destruct (cget m (snd k)) as [e|] eqn:E; [|discriminate].
  exists m, e. split; [exact C|]. split; [exact E|].
  destruct (Bool.eqb (fst k) true && p2w P (o_prog (ce_rec e))); [|discriminate].
  destruct (owner P (o_prog (ce_rec e))); [|discriminate].
  unfold proj in HV. inversion HV; subst. repeat (split; [assumption || reflexivity|]).
  apply (HH k u e G E). unfold usable in U. apply N.leb_le in U. exact U.
Qed.

Theorem system_usable_is_spendable P g ds :
  sched_create P -> sched_mono P ->
  cscan P [g] <> None ->
  sys_ok repaired P (mkSys [g] (winit P g)) ds ->
  spendable_next P (s_w (sys_run repaired P (mkSys [g] (winit P g)) ds)).
Proof.
  intros HC HM Hg Hs. apply usable_is_spendable; auto.
  apply sys_reach; auto. constructor; auto.
Qed.

(* a constant vote lock satisfies the schedule hypotheses *)
Lemma sched_const P n : (forall h, vote_pend P h = n) -> sched_create P /\ sched_mono P.
Proof.
  intros Hn. split.
  - intros H h Hs Hh. rewrite Hn in *. rewrite wrap64_small; [lia|exact Hs].
  - intros H s s' Hs Hle. rewrite Hn in *. lia.
Qed.

(* so does any lock that never grows with the height, as long as nothing wraps *)
Lemma sched_noninc P :
  (forall a b, a <= b -> vote_pend P b <= vote_pend P a) ->
  (forall a b, a + vote_pend P b < 18446744073709551616) ->
  sched_create P /\ sched_mono P.
Proof.
  intros Hn Hw. split.
  - intros H h Hs Hh. rewrite wrap64_small by apply Hw.
    assert (vote_pend P (h + 1) <= vote_pend P H) by (apply Hn; lia). lia.
  - intros H s s' Hs Hle. rewrite wrap64_small in * by apply Hw.
    assert (vote_pend P s' <= vote_pend P s) by (apply Hn; lia). lia.
Qed.
