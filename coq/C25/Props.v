(* C25 — the wallet never reports unspendable outputs as mature.  PROPERTY THEOREMS ONLY.

   Model: C24/Model.v (wallet: AttachBlock / DetachBlock / the updater's walk; records carry
   ValidHeight; the keeper's filter is [usable u h := ValidHeight <= h]) and, as the
   specification side, consensus spendability along a chain ([cscan]: the unspent outputs
   with utxo type and creating height; [unlocked P e s]: coinbase: height + 10 <= s,
   vote output: height + VotePendingBlockNums(s) <= s, evaluated in uint64 as
   applySpendUtxo does).

   [spendable_next P st]: for EVERY height h, every record of the wallet that the keeper's
   filter passes at h is an unspent output of the chain the wallet is attached to, it is
   the output the record describes (id, amount, program, vote key), and consensus accepts
   a spend of it at height h + 1.  (The keeper evaluates the filter at the node's best
   height; the statement holds for every height, so also while the wallet lags behind.)

   Hypotheses:
     reach / sys_ok      as in C24: the wallet only attaches blocks that extend its chain
                         to a valid chain;
     sched_create P      creation height + lock(creation height) <= h implies
                         creation height + lock(h + 1) <= h + 1   (the wallet computes the
                         lock at the creating height, consensus at the spending height);
     sched_mono P        a vote output that can be vetoed at height s can be vetoed at every
                         later height.
   Both hold for a constant lock and for every lock that does not grow with the height
   (Proofs.sched_const, Proofs.sched_noninc); History.P0_good is the instance used by the
   harness.  They FAIL for a lock that grows with the height, as the main net's does
   (14400 blocks below height 432000, 302400 from there on): c25_refuted_lock_schedule -
   known finding C25-vote-lock-schedule, not repaired.

   The code at the pinned commit violates the property also under a good schedule
   (c25_pinned_refuted, c25_pinned_refuted_system: outputs restored by detachUtxos had
   ValidHeight 0); the positive theorems are about the repaired detachUtxos in /repo's
   working tree (restored outputs mature at the height of the detached block). *)
From Coq Require Import List NArith Bool.
From C24 Require Import Model Maps Inv Detach Proofs.
From C25 Require Import Proofs History.
Import ListNotations.

(* In every reachable wallet state, for every height: usable => spendable at the next height. *)
Theorem c25_usable_is_spendable :
  forall P st, sched_create P -> sched_mono P -> reach repaired P st -> spendable_next P st.
Proof. exact usable_is_spendable. Qed.
Print Assumptions c25_usable_is_spendable.

(* ... in particular after any sequence of reorganisations of the node's main chain, at the
   node's best height, whether or not the updater has been woken. *)
Theorem c25_after_reorganisations :
  forall P g ds, sched_create P -> sched_mono P ->
    cscan P [g] <> None ->
    sys_ok repaired P (mkSys [g] (winit P g)) ds ->
    spendable_next P (s_w (sys_run repaired P (mkSys [g] (winit P g)) ds)).
Proof. exact system_usable_is_spendable. Qed.
Print Assumptions c25_after_reorganisations.

(* The same, phrased with the node's best height. *)
Theorem c25_holds_outside : c25_system_statement repaired sched_good.
Proof. exact repaired_system. Qed.
Print Assumptions c25_holds_outside.

(* The schedule hypotheses are satisfiable: constant lock, non-growing lock. *)
Theorem c25_schedule_constant :
  forall P n, (forall h, vote_pend P h = n) -> sched_create P /\ sched_mono P.
Proof. exact sched_const. Qed.
Print Assumptions c25_schedule_constant.

(* Without the schedule hypothesis the statement fails, with no reorganisation at all: a
   vote output created at height 1 under lock 1 is offered from height 2 on, while
   consensus applies the lock of the spending height (5 from height 3 on). *)
Theorem c25_refuted_lock_schedule : ~ c25_statement repaired (fun _ => True).
Proof. exact refuted_lock_schedule. Qed.
Print Assumptions c25_refuted_lock_schedule.

(* The pinned code: a coinbase output un-spent by DetachBlock has ValidHeight 0. *)
Theorem c25_pinned_refuted : ~ c25_statement pinned sched_good.
Proof. exact pinned_refuted. Qed.
Print Assumptions c25_pinned_refuted.

(* ... reachable through the real updater: spend at height 10, a reorganisation un-spends
   it, then a lower branch (height 6) becomes the main chain: the keeper offers the
   coinbase output of height 0 at height 6. *)
Theorem c25_pinned_refuted_system : ~ c25_system_statement pinned sched_good.
Proof. exact pinned_refuted_system. Qed.
Print Assumptions c25_pinned_refuted_system.

(* ---- The lock schedule of the model is the code's (translator tools/gofrag) --------------------

   VerifGen.FragConsensus.VotePendingBlockNums is GENERATED from consensus.VotePendingBlockNums
   (consensus/general.go) on every run: a function of the table
   ActiveNetParams.VotePendingBlockNums (records BeginBlock / EndBlock / Num) and of the height.
   C25/Tie.v: [covers h r] = Begin r <= h < End r; [entry_of] converts a triple of the model's
   table; C24.Run.sched_fun is the schedule every correspondence case of C24/C25 is run with. *)
From Coq Require Import ZArith.
From Verif Require Import GoFrag.
From VerifGen Require Import FragConsensus.
From C24 Require Import Run.
From C25 Require Import Tie.

(* SPEC, all inputs: the Num of the first entry covering the height, else the default; no panic *)
Theorem c25_code_VotePendingBlockNums : forall tbl h,
  VotePendingBlockNums tbl h =
  Some (match first_match (covers h) VotePendingBlockNum_Num tbl with
        | Some n => n
        | None => consensus_defaultVotePendingNum
        end).
Proof. exact VotePendingBlockNums_spec. Qed.
Print Assumptions c25_code_VotePendingBlockNums.

(* TIE: the generated function is the hand-written schedule of the models *)
Theorem c25_tie_sched_fun : forall (t : list (N * N * N)) (h : N),
  VotePendingBlockNums (map entry_of t) (Z.of_N h) = Some (Z.of_N (sched_fun t h)).
Proof. exact tie_sched_fun. Qed.
Print Assumptions c25_tie_sched_fun.

(* ---- The keeper's lookups when the caller accepts unconfirmed utxos (C25/Keeper.v) ---------------

   Model: account/utxo_keeper.go findUtxos (the closure appendUtxo with its [seen] set, over the
   db records and then - with useUnconfirmed - over the keeper's unconfirmed map), findUtxo (the
   unconfirmed map first) and ReserveParticular.  The copies in the unconfirmed map were computed by
   wallet.AddUnconfirmedTx for block height 0 (ValidHeight = VotePendingBlockNums(0) for a vote
   output) and stay until the pool's removal message is handled; which copies exist is arbitrary
   here.  [copies_agree]: a copy and a record under the same output id describe the same output
   (account, asset, vote key: an output id is a hash).  Tied to the code by the keeper case files
   of the harness (every observed state with copies in the map, both values of useUnconfirmed). *)
From C25 Require Import Keeper KeeperProofs.

(* findUtxos, with or without useUnconfirmed: whatever is handed out under the id of a confirmed
   record IS that record, and it has passed the maturity filter - copies never stand in for it. *)
Theorem c25_find_utxos_confirmed_first :
  forall q h dbl unconf useU u r,
    copies_agree q dbl unconf -> NoDup (map u_id dbl) ->
    In u (fst (find_utxos q h dbl unconf useU)) -> In r dbl -> u_id r = u_id u ->
    u = r /\ (u_valid r <= h)%N.
Proof. exact find_utxos_confirmed_first. Qed.
Print Assumptions c25_find_utxos_confirmed_first.

(* Hence the property holds for findUtxos with useUnconfirmed on every confirmed output, in every
   reachable wallet state ([dbl]: records of the wallet's db under the standard key). *)
Theorem c25_find_utxos_unconfirmed_spendable :
  forall P st q h dbl unconf useU u r,
    sched_create P -> sched_mono P -> reach repaired P st ->
    (forall a, In a dbl -> dget (wdb st) (true, u_id a) = Some a) ->
    NoDup (map u_id dbl) -> copies_agree q dbl unconf ->
    In u (fst (find_utxos q h dbl unconf useU)) -> In r dbl -> u_id r = u_id u ->
    exists m e, cscan P (wchain st) = Some m /\ cget m (u_id u) = Some e /\
      u_amount u = o_amount (ce_rec e) /\ u_prog u = o_prog (ce_rec e) /\ u_vote u = ce_vote e /\
      unlocked P e (h + 1) = true.
Proof. exact find_utxos_unconfirmed_spendable. Qed.
Print Assumptions c25_find_utxos_unconfirmed_spendable.

(* ReserveParticular / findUtxo (repaired in /repo, commit 781a2de1: the db first, then - with
   useUnconfirmed - the unconfirmed map).  [db_record std ctr id r]: r is what the db holds under
   the id (standard key, else contract key).  Whenever the db holds a record under the id, findUtxo
   returns that record and ReserveParticular hands it out exactly when it has passed the maturity
   filter - for EVERY content of the unconfirmed map and both values of useUnconfirmed.  (Before
   the repair the copy was looked up first and a vote output mined at 17 under lock 3 - record
   ValidHeight 20, copy ValidHeight 3 - was reserved at height 17: KeeperProofs.reserve_old_witness,
   harness corpus case corpus-pool-vote-lag, oracle class immature-reserved-unconfirmed-copy.) *)
Theorem c25_reserve_particular_confirmed_first :
  forall std ctr unconf id useU h r,
    db_record std ctr id r ->
    find_utxo std ctr unconf id useU = Some r /\
    reserve_particular std ctr unconf id useU h = (if (h <? u_valid r)%N then None else Some r).
Proof. exact reserve_confirmed_first. Qed.
Print Assumptions c25_reserve_particular_confirmed_first.

(* Consequently the property holds for ReserveParticular under either flag on every confirmed
   output, in every reachable wallet state: what is reserved is the record, and consensus accepts a
   spend of it at the next height - a confirmed, still locked output is never handed out. *)
Theorem c25_reserve_particular_spendable :
  forall P st std ctr unconf id useU h u r,
    sched_create P -> sched_mono P -> reach repaired P st ->
    (forall a, In a std -> dget (wdb st) (true, u_id a) = Some a) ->
    (forall a, In a ctr -> dget (wdb st) (false, u_id a) = Some a) ->
    db_record std ctr id r ->
    reserve_particular std ctr unconf id useU h = Some u ->
    u = r /\
    exists m e, cscan P (wchain st) = Some m /\ cget m id = Some e /\
      u_amount u = o_amount (ce_rec e) /\ u_prog u = o_prog (ce_rec e) /\ u_vote u = ce_vote e /\
      unlocked P e (h + 1) = true.
Proof. exact reserve_particular_spendable. Qed.
Print Assumptions c25_reserve_particular_spendable.
