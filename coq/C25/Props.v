(* C25 — the wallet never reports unspendable outputs as mature.  PROPERTY THEOREMS ONLY.

   Model: C24/Model.v (wallet: AttachBlock / DetachBlock / the updater's walk; records carry
   ValidHeight; the keeper's filter is [usable u h := ValidHeight <= h]) and, as the
   specification side, consensus spendability along a chain ([cscan]: the unspent outputs
   with utxo type and creating height; [unlocked P e s]: coinbase: height + 10 <= s,
   vote output: height + VotePendingBlockNums(s) <= s, evaluated in uint64 as
   applySpendUtxo does).

   [spendable_next P st]: for EVERY height h, every record of the wallet that the keeper's
   filter passes at h is an unspent output of the chain the wallet is attached to, it is
   the output the record describes (id, amount, program, vote key), and consensus accepts
   a spend of it at height h + 1.  (The keeper evaluates the filter at the node's best
   height; the statement holds for every height, so also while the wallet lags behind.)

   Hypotheses:
     reach / sys_ok      as in C24: the wallet only attaches blocks that extend its chain
                         to a valid chain;
     sched_create P      creation height + lock(creation height) <= h implies
                         creation height + lock(h + 1) <= h + 1   (the wallet computes the
                         lock at the creating height, consensus at the spending height);
     sched_mono P        a vote output that can be vetoed at height s can be vetoed at every
                         later height.
   Both hold for a constant lock and for every lock that does not grow with the height
   (Proofs.sched_const, Proofs.sched_noninc); History.P0_good is the instance used by the
   harness.  They FAIL for a lock that grows with the height, as the main net's does
   (14400 blocks below height 432000, 302400 from there on): c25_refuted_lock_schedule -
   known finding C25-vote-lock-schedule, not repaired.

   The code at the pinned commit violates the property also under a good schedule
   (c25_pinned_refuted, c25_pinned_refuted_system: outputs restored by detachUtxos had
   ValidHeight 0); the positive theorems are about the repaired detachUtxos in /repo's
   working tree (restored outputs mature at the height of the detached block). *)
From Coq Require Import List NArith Bool.
From C24 Require Import Model Maps Inv Detach Proofs.
From C25 Require Import Proofs History.
Import ListNotations.

(* In every reachable wallet state, for every height: usable => spendable at the next height. *)
Theorem c25_usable_is_spendable :
  forall P st, sched_create P -> sched_mono P -> reach repaired P st -> spendable_next P st.
Proof. exact usable_is_spendable. Qed.
Print Assumptions c25_usable_is_spendable.

(* ... in particular after any sequence of reorganisations of the node's main chain, at the
   node's best height, whether or not the updater has been woken. *)
Theorem c25_after_reorganisations :
  forall P g ds, sched_create P -> sched_mono P ->
    cscan P [g] <> None ->
    sys_ok repaired P (mkSys [g] (winit P g)) ds ->
    spendable_next P (s_w (sys_run repaired P (mkSys [g] (winit P g)) ds)).
Proof. exact system_usable_is_spendable. Qed.
Print Assumptions c25_after_reorganisations.

(* The same, phrased with the node's best height. *)
Theorem c25_holds_outside : c25_system_statement repaired sched_good.
Proof. exact repaired_system. Qed.
Print Assumptions c25_holds_outside.

(* The schedule hypotheses are satisfiable: constant lock, non-growing lock. *)
Theorem c25_schedule_constant :
  forall P n, (forall h, vote_pend P h = n) -> sched_create P /\ sched_mono P.
Proof. exact sched_const. Qed.
Print Assumptions c25_schedule_constant.

(* Without the schedule hypothesis the statement fails, with no reorganisation at all: a
   vote output created at height 1 under lock 1 is offered from height 2 on, while
   consensus applies the lock of the spending height (5 from height 3 on). *)
Theorem c25_refuted_lock_schedule : ~ c25_statement repaired (fun _ => True).
Proof. exact refuted_lock_schedule. Qed.
Print Assumptions c25_refuted_lock_schedule.

(* The pinned code: a coinbase output un-spent by DetachBlock has ValidHeight 0. *)
Theorem c25_pinned_refuted : ~ c25_statement pinned sched_good.
Proof. exact pinned_refuted. Qed.
Print Assumptions c25_pinned_refuted.

(* ... reachable through the real updater: spend at height 10, a reorganisation un-spends
   it, then a lower branch (height 6) becomes the main chain: the keeper offers the
   coinbase output of height 0 at height 6. *)
Theorem c25_pinned_refuted_system : ~ c25_system_statement pinned sched_good.
Proof. exact pinned_refuted_system. Qed.
Print Assumptions c25_pinned_refuted_system.
