(* C25 — the keeper's lookups with useUnconfirmed: proofs about C25/Keeper.v.

   findUtxos: an output that has a confirmed record in the wallet's db is decided by that
   record alone, whatever copies the unconfirmed map holds (the db is scanned first and every
   matching record - mature or not - enters [seen]).  Hence the property of C25 carries over to
   queries with useUnconfirmed = true for every confirmed output.

   ReserveParticular / findUtxo (repaired, /repo commit 781a2de1): whenever the db holds a record
   under the id, that record is what findUtxo returns and what the maturity filter of
   ReserveParticular judges, whatever the unconfirmed map holds and whatever useUnconfirmed is.
   Before the repair findUtxo looked in the unconfirmed map first ([find_utxo_old]): the
   regression witness [reserve_old_witness] is the state of the harness corpus case
   corpus-pool-vote-lag. *)
From Coq Require Import List NArith Bool Lia.
From C24 Require Import Model Maps Inv Detach Proofs.
From C25 Require Import Proofs Keeper.
Import ListNotations.
Open Scope N_scope.

Lemma mem_In x l : mem x l = true <-> In x l.
Proof.
  unfold mem. rewrite existsb_exists. split.
  - intros [y [Hy E]]. apply N.eqb_eq in E. subst. exact Hy.
  - intros H. exists x. split; [exact H|apply N.eqb_refl].
Qed.

Lemma mem_not_In x l : mem x l = false <-> ~ In x l.
Proof.
  split.
  - intros E H. apply mem_In in H. congruence.
  - intros H. destruct (mem x l) eqn:E; [|reflexivity]. apply mem_In in E. contradiction.
Qed.

(* one pass of appendUtxo over a list *)
Lemma fold_append q h : forall l s,
  let s' := fold_left (append_utxo q h) l s in
  (forall u, In u (f_out s') ->
     In u (f_out s) \/
     (In u l /\ kmatch q u = true /\ u_valid u <= h /\ ~ In (u_id u) (f_seen s))) /\
  (forall x, In x (f_seen s) -> In x (f_seen s')) /\
  (forall r, In r l -> kmatch q r = true -> In (u_id r) (f_seen s')).
Proof.
  induction l as [|a l IH]; intros s; cbn [fold_left].
  - cbn. split; [auto|]. split; [auto|]. intros r [].
  - specialize (IH (append_utxo q h s a)). cbn zeta in IH. destruct IH as [A [B C]].
    set (s1 := append_utxo q h s a) in *.
    assert (Mono : forall x, In x (f_seen s) -> In x (f_seen s1)).
    { intros x Hx. unfold s1, append_utxo.
      destruct (kmatch q a); [|exact Hx].
      destruct (mem (u_id a) (f_seen s)); [exact Hx|].
      destruct (h <? u_valid a); cbn; right; exact Hx. }
    assert (Seen : kmatch q a = true -> In (u_id a) (f_seen s1)).
    { intros Hm. unfold s1, append_utxo. rewrite Hm.
      destruct (mem (u_id a) (f_seen s)) eqn:M; [apply mem_In; exact M|].
      destruct (h <? u_valid a); cbn; left; reflexivity. }
    assert (Out : forall u, In u (f_out s1) ->
              In u (f_out s) \/ (u = a /\ kmatch q a = true /\ u_valid a <= h /\ ~ In (u_id a) (f_seen s))).
    { intros u Hu. unfold s1, append_utxo in Hu.
      destruct (kmatch q a) eqn:Hm; [|left; exact Hu].
      destruct (mem (u_id a) (f_seen s)) eqn:M; [left; exact Hu|].
      destruct (h <? u_valid a) eqn:L; cbn in Hu; [left; exact Hu|].
      apply in_app_or in Hu. destruct Hu as [Hu|[Hu|[]]]; [left; exact Hu|].
      right. subst u. split; [reflexivity|]. split; [reflexivity|].
      split; [apply N.ltb_ge in L; exact L|apply mem_not_In; exact M]. }
    split; [|split].
    + intros u Hu. destruct (A u Hu) as [H1|[H1 [H2 [H3 H4]]]].
      * destruct (Out u H1) as [H5|[H5 [H6 [H7 H8]]]]; [left; exact H5|].
        right. subst u. split; [left; reflexivity|]. auto.
      * right. split; [right; exact H1|]. split; [exact H2|]. split; [exact H3|].
        intros Hc. apply H4. apply Mono. exact Hc.
    + intros x Hx. apply B. apply Mono. exact Hx.
    + intros r [Hr|Hr] Hm.
      * subst r. apply B. apply Seen. exact Hm.
      * apply C; assumption.
Qed.

Lemma nodup_ids_eq : forall (l : list utxo) a b,
  NoDup (map u_id l) -> In a l -> In b l -> u_id a = u_id b -> a = b.
Proof.
  induction l as [|x l IH]; intros a b ND Ha Hb E; [destruct Ha|].
  cbn in ND. inversion ND as [|? ? Hx ND']; subst.
  destruct Ha as [Ha|Ha], Hb as [Hb|Hb].
  - congruence.
  - subst a. exfalso. apply Hx. rewrite E. apply in_map. exact Hb.
  - subst b. exfalso. apply Hx. rewrite <- E. apply in_map. exact Ha.
  - apply IH; assumption.
Qed.

(* the copies describe the same outputs as the records: an output id is a hash of what the
   output is (asset, vote key, program - hence account) *)
Definition copies_agree (q : kquery) (dbl unconf : list utxo) : Prop :=
  forall a c, In a dbl -> In c unconf -> u_id a = u_id c -> kmatch q a = kmatch q c.

(* findUtxos: whatever is handed out under the id of a confirmed record IS that record, and the
   record has passed the maturity filter - with and without useUnconfirmed *)
Theorem find_utxos_confirmed_first q h dbl unconf useU u r :
  copies_agree q dbl unconf -> NoDup (map u_id dbl) ->
  In u (fst (find_utxos q h dbl unconf useU)) -> In r dbl -> u_id r = u_id u ->
  u = r /\ u_valid r <= h.
Proof.
  intros AG ND Hu Hr E. unfold find_utxos in Hu. cbn [fst] in Hu.
  destruct (fold_append q h dbl (mkF [] [] 0)) as [A1 [B1 C1]]. cbn zeta in *.
  set (s := fold_left (append_utxo q h) dbl (mkF [] [] 0)) in *.
  assert (FromDb : In u (f_out s) -> u = r /\ u_valid r <= h).
  { intros H. destruct (A1 u H) as [[]|[H1 [H2 [H3 _]]]].
    assert (u = r) by (apply (nodup_ids_eq dbl); auto). subst. auto. }
  destruct useU; [|apply FromDb; exact Hu].
  destruct (fold_append q h unconf s) as [A2 _]. cbn zeta in A2.
  destruct (A2 u Hu) as [H|[H1 [H2 [_ H4]]]]; [apply FromDb; exact H|].
  exfalso. apply H4. rewrite <- E. apply C1; [exact Hr|].
  rewrite (AG r u Hr H1 E). exact H2.
Qed.

(* ... so the property of C25 holds for findUtxos with useUnconfirmed on every confirmed output:
   [dbl] enumerates records of the wallet's db under the standard key *)
Theorem find_utxos_unconfirmed_spendable P st q h dbl unconf useU u r :
  sched_create P -> sched_mono P -> reach repaired P st ->
  (forall a, In a dbl -> dget (wdb st) (true, u_id a) = Some a) ->
  NoDup (map u_id dbl) -> copies_agree q dbl unconf ->
  In u (fst (find_utxos q h dbl unconf useU)) -> In r dbl -> u_id r = u_id u ->
  exists m e, cscan P (wchain st) = Some m /\ cget m (u_id u) = Some e /\
    u_amount u = o_amount (ce_rec e) /\ u_prog u = o_prog (ce_rec e) /\ u_vote u = ce_vote e /\
    unlocked P e (h + 1) = true.
Proof.
  intros HC HM R Hdb ND AG Hu Hr E.
  destruct (find_utxos_confirmed_first q h dbl unconf useU u r AG ND Hu Hr E) as [EQ LE].
  subst u.
  destruct (usable_is_spendable P st HC HM R (true, u_id r) r h (Hdb r Hr)) as [m [e [C [G [_ [H1 [H2 [H3 H4]]]]]]]].
  { unfold usable. apply N.leb_le. exact LE. }
  cbn [snd] in G. exists m, e. auto 10.
Qed.

(* ------------------------------------------------------------------ ReserveParticular *)

Lemma lookup_some l id u : lookup l id = Some u -> In u l /\ u_id u = id.
Proof.
  unfold lookup. intros H. apply find_some in H. destruct H as [H1 H2].
  apply N.eqb_eq in H2. auto.
Qed.

Lemma lookup_none l id r : lookup l id = None -> In r l -> u_id r <> id.
Proof.
  unfold lookup. intros H Hr E. pose proof (find_none _ _ H r Hr) as F. cbn in F.
  rewrite E, N.eqb_refl in F. discriminate.
Qed.

Lemma lookup_in l id r : NoDup (map u_id l) -> In r l -> u_id r = id -> lookup l id = Some r.
Proof.
  intros ND Hr E. destruct (lookup l id) as [x|] eqn:L.
  - destruct (lookup_some _ _ _ L) as [I1 I2]. f_equal. apply (nodup_ids_eq l); auto. congruence.
  - exfalso. exact (lookup_none _ _ _ L Hr E).
Qed.

(* the record the db holds under an output id: uk.db.Get(StandardUTXOKey(id)), else
   uk.db.Get(ContractUTXOKey(id)) *)
Definition db_record (std ctr : list utxo) (id : N) (r : utxo) : Prop :=
  lookup std id = Some r \/ (lookup std id = None /\ lookup ctr id = Some r).

(* findUtxo / ReserveParticular: whenever the db holds a record under the id, findUtxo returns
   that record and ReserveParticular applies the maturity filter to it - for every content of the
   unconfirmed map and both values of useUnconfirmed *)
Theorem reserve_confirmed_first std ctr unconf id useU h r :
  db_record std ctr id r ->
  find_utxo std ctr unconf id useU = Some r /\
  reserve_particular std ctr unconf id useU h = (if h <? u_valid r then None else Some r).
Proof.
  intros D. assert (F : find_utxo std ctr unconf id useU = Some r).
  { unfold find_utxo. destruct D as [D|[D1 D2]]; [rewrite D|rewrite D1, D2]; reflexivity. }
  split; [exact F|]. unfold reserve_particular. rewrite F. reflexivity.
Qed.

(* ... in particular a confirmed record that has not passed the maturity filter is never handed
   out, and what is handed out under the id of a confirmed record is that record *)
Corollary reserve_confirmed_mature std ctr unconf id useU h u r :
  NoDup (map u_id std) -> In r std -> u_id r = id ->
  reserve_particular std ctr unconf id useU h = Some u -> u = r /\ u_valid r <= h.
Proof.
  intros ND Hr E H.
  destruct (reserve_confirmed_first std ctr unconf id useU h r) as [_ R].
  { left. apply lookup_in; assumption. }
  rewrite R in H. destruct (h <? u_valid r) eqn:V; [discriminate|].
  inversion H; subst. split; [reflexivity|apply N.ltb_ge in V; exact V].
Qed.

(* Hence the property holds for ReserveParticular, with and without useUnconfirmed, on every
   confirmed output in every reachable wallet state ([std] / [ctr] enumerate records of the wallet's
   db under the standard / the contract key) *)
Theorem reserve_particular_spendable P st std ctr unconf id useU h u r :
  sched_create P -> sched_mono P -> reach repaired P st ->
  (forall a, In a std -> dget (wdb st) (true, u_id a) = Some a) ->
  (forall a, In a ctr -> dget (wdb st) (false, u_id a) = Some a) ->
  db_record std ctr id r ->
  reserve_particular std ctr unconf id useU h = Some u ->
  u = r /\
  exists m e, cscan P (wchain st) = Some m /\ cget m id = Some e /\
    u_amount u = o_amount (ce_rec e) /\ u_prog u = o_prog (ce_rec e) /\ u_vote u = ce_vote e /\
    unlocked P e (h + 1) = true.
Proof.
  intros HC HM R Hs Hc D H.
  destruct (reserve_confirmed_first std ctr unconf id useU h r D) as [_ E]. rewrite E in H.
  destruct (h <? u_valid r) eqn:V; [discriminate|]. inversion H; subst u. split; [reflexivity|].
  assert (U : usable r h = true) by (unfold usable; apply N.leb_le; apply N.ltb_ge in V; exact V).
  assert (K : exists sp, dget (wdb st) (sp, id) = Some r).
  { destruct D as [D|[_ D]]; destruct (lookup_some _ _ _ D) as [I1 I2].
    - exists true. rewrite <- I2. apply Hs. exact I1.
    - exists false. rewrite <- I2. apply Hc. exact I1. }
  destruct K as [sp G].
  destruct (usable_is_spendable P st HC HM R (sp, id) r h G U) as [m [e [C [G' [_ [H1 [H2 [H3 H4]]]]]]]].
  cbn [snd] in G'. exists m, e. auto 10.
Qed.

(* the regression witness (harness corpus case corpus-pool-vote-lag): a vote output mined at height
   17 under lock 3 (record: ValidHeight 20), its copy computed for block height 0 (ValidHeight 3),
   current height 17 *)
Definition w_rec : utxo := mkU 1 0 100 1 (Some 1) (Some (mkCP 1 1 false)) 20.
Definition w_copy : utxo := mkU 1 0 100 1 (Some 1) (Some (mkCP 1 1 false)) 3.

(* before the repair the copy was reserved; now the record decides: refused until height 20 *)
Example reserve_old_witness :
  reserve_particular_old [w_rec] [] [w_copy] 1 true 17 = Some w_copy /\
  reserve_particular [w_rec] [] [w_copy] 1 true 17 = None /\
  reserve_particular [w_rec] [] [w_copy] 1 false 17 = None /\
  reserve_particular [w_rec] [] [w_copy] 1 true 20 = Some w_rec.
Proof. vm_compute. auto. Qed.

(* the hypotheses are satisfiable by that state; an output with a copy only is still found *)
Example reserve_hypotheses_satisfiable :
  db_record [w_rec] [] 1 w_rec /\ NoDup (map u_id [w_rec]) /\ copies_agree (mkQ 1 0 (Some 1)) [w_rec] [w_copy] /\
  reserve_particular [] [] [w_copy] 1 true 17 = Some w_copy /\
  reserve_particular [] [] [w_copy] 1 false 17 = None.
Proof.
  split; [left; reflexivity|]. split; [constructor; [intros []|constructor]|].
  split; [|vm_compute; auto].
  intros a c [Ha|[]] [Hc|[]] _. subst. reflexivity.
Qed.

(* the same state queried through findUtxos with useUnconfirmed: the record shadows the copy and
   counts as immature *)
Example find_utxos_shadowed :
  find_utxos (mkQ 1 0 (Some 1)) 17 [w_rec] [w_copy] true = ([], 100) /\
  find_utxos (mkQ 1 0 (Some 1)) 20 [w_rec] [w_copy] true = ([w_rec], 0).
Proof. vm_compute. auto. Qed.
