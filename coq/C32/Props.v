(* C32 — encrypted peer connections deliver the exact byte stream.  PROPERTY THEOREMS ONLY.

   Model: C32/Model.v mirrors p2p/connection/secret_connection.go with the two repairs
   in place (Read's buffered branch reports the copied count; a remote key of the wrong
   length is an error): Write = chunks of at most 1024 bytes, each framed
   len16 || chunk || zero padding (1026 bytes), sealed under the current send nonce,
   nonce += 2;  Read = buffered bytes first, else one sealed frame (1042 bytes) taken
   from the connection, opened under the receive nonce, nonce += 2, length check, copy,
   rest buffered;  handshake = ephemeral keys sorted, nonce pair differing in the last
   bit, challenge, authentication message through the secret channel, signature check.

   [PARTIAL: AEAD idealised]  seal/open (secretbox with the shared key) are arbitrary
   functions constrained only by
     aead_ok   : open k n (seal k n m) = Some m,  |seal k n m| = |m| + 16
     aead_auth : open k n c = Some m -> c = seal k n m      (deterministic box; tamper theorems only)
     aead_dist : no two sealings under one (key, nonce) differ in exactly one byte
                 (the authenticator of another plaintext differs; single-byte theorem only).
   All are satisfied by an executable instance (c32_hypotheses_satisfiable); secrecy is
   not part of the property.  The hashes are arbitrary functions; DH and signatures are
   arbitrary functions too, constrained only in c32_handshake_honest (keys_ok: DH commutes,
   honest signatures verify, key/signature lengths 32/64).

   A direction of a connection is a [link]: the sender's state, the bytes in transit
   (a reliable FIFO), the receiver's state.  [synced l]: same key, send nonce = receive
   nonce, nothing in transit or buffered - the state each direction is in after the
   handshake.  An operation sequence is ANY list of OWrite data / ORead buffer-size
   (any interleaving, any sizes including 0 and sizes far below or above a frame). *)
From Coq Require Import List NArith.
From Verif Require Import Outcome Cmp.
From C32 Require Import Model Proofs Main.
Import ListNotations.

(* For EVERY sequence of writes and reads: no call fails or panics, every Read returns
   err = nil with n = number of bytes copied (or waits for data), and the bytes written
   are exactly the bytes delivered followed by the bytes still pending - so what the
   reader got is a prefix of what the writer wrote: nothing lost, duplicated, reordered;
   nothing is pending exactly when nothing is in transit or buffered. *)
Theorem c32_stream :
  forall seal open, aead_ok 16 seal open ->
  forall l ops, synced l -> no_tamper ops ->
  exists l' rs,
    run 1024 16 seal open l ops = Ok (l', rs) /\
    Forall good_obs rs /\ length rs = length ops /\
    exists pending,
      written ops = delivered_all rs ++ pending /\
      (pending = [] <-> wire l' = [] /\ recvBuffer (rx l') = []).
Proof. exact stream. Qed.
Print Assumptions c32_stream.

(* ... and it is all of it once enough reads were issued: any operation sequence followed
   by at least as many reads (each with a buffer of one byte or more) as bytes written
   delivers the complete stream, whatever the buffer sizes. *)
Theorem c32_stream_complete :
  forall seal open, aead_ok 16 seal open ->
  forall l ops sizes, synced l -> no_tamper ops ->
  Forall (fun b => 1 <= b) sizes -> length (written ops) <= length sizes ->
  exists l' rs,
    run 1024 16 seal open l (ops ++ map ORead sizes) = Ok (l', rs) /\
    delivered_all rs = written ops /\ wire l' = [] /\ recvBuffer (rx l') = [].
Proof. exact stream_complete. Qed.
Print Assumptions c32_stream_complete.

(* The invariant behind both, and what every single call does in a reachable state
   ([linked l cs]: the wire holds exactly the sealed frames of the chunks cs under the
   receiver's successive nonces and the sender's nonce is the next one): a Write of d
   returns n = |d|; a Read returns n = |bytes copied| <= buffer size, at least one byte
   if the buffer has room and anything is pending, and waits only if nothing is pending. *)
Theorem c32_stream_step :
  forall seal open, aead_ok 16 seal open ->
  forall l cs o, linked 1024 seal l cs -> is_tamper o = false ->
  exists l' cs' r, step 1024 16 seal open l o = Ok (l', r) /\ step_post 1024 seal l cs o l' cs' r.
Proof.
  exact (fun seal open A => step_linked 1024 16 seal open Toy.M0_pos Toy.M0_u16 (proj1 A) (proj2 A)).
Qed.
Print Assumptions c32_stream_step.

(* Any modification of ciphertext in transit is detected.  The receiver has [pre] honest
   frames ahead (and possibly buffered bytes), then a 1042-byte block [bad] that is not
   the sealing of anything under the key and the nonce due at that position, then
   anything.  A caller reading with ANY buffer sizes until the first error gets data only
   from before the block - and when the block is reached, the Read fails (decryption
   error) with exactly the earlier bytes delivered. *)
Theorem c32_tamper :
  forall seal open, aead_ok 16 seal open -> aead_auth seal open ->
  forall sizes c pre bad rest,
    Forall (okchunk 1024) pre -> length bad = sealed_frame_size 1024 16 ->
    (forall m, bad <> seal (key c) (nonce_after (length pre) (recvNonce c)) m) ->
    exists rs,
      read_seq 1024 16 open c (concat (sealed_seq 1024 seal (key c) (recvNonce c) pre) ++ bad ++ rest) sizes = Ok rs /\
      ((all_data rs /\ exists more, recvBuffer c ++ concat pre = deliv rs ++ more) \/
       (exists rs0, rs = rs0 ++ [RErrDecrypt] /\ all_data rs0 /\ deliv rs0 = recvBuffer c ++ concat pre)).
Proof.
  exact (fun seal open A Au => tamper_reads 1024 16 seal open Toy.M0_pos Toy.M0_u16 (proj1 A) (proj2 A) Au).
Qed.
Print Assumptions c32_tamper.

(* ... in the words of the property: flipping any bits of any single byte of any frame in
   flight (frame number |pre|, byte [off], non-zero [mask]) makes the corresponding Read
   fail, with everything before that frame - and nothing else - delivered. *)
Theorem c32_tamper_single_byte :
  forall seal open, aead_ok 16 seal open -> aead_auth seal open -> aead_dist seal ->
  forall sizes c pre ch post off mask,
    Forall (okchunk 1024) pre -> okchunk 1024 ch ->
    off < sealed_frame_size 1024 16 -> mask <> 0%N ->
    exists rs,
      read_seq 1024 16 open c
        (xor_at (length pre * sealed_frame_size 1024 16 + off) mask
                (concat (sealed_seq 1024 seal (key c) (recvNonce c) (pre ++ ch :: post)))) sizes = Ok rs /\
      ((all_data rs /\ exists more, recvBuffer c ++ concat pre = deliv rs ++ more) \/
       (exists rs0, rs = rs0 ++ [RErrDecrypt] /\ all_data rs0 /\ deliv rs0 = recvBuffer c ++ concat pre)).
Proof.
  exact (fun seal open A Au D sizes c pre ch post off mask =>
           tamper_flip 1024 16 seal open Toy.M0_pos Toy.M0_u16 (proj1 A) (proj2 A) Au D sizes c pre ch post off mask).
Qed.
Print Assumptions c32_tamper_single_byte.

(* The two ends (ephemeral keys a <> b) sort the keys to the same pair - hence the same
   challenge and base nonce - and get crossed nonces: what one sends with, the other
   receives with; and the two directions use disjoint nonce sequences: no nonce of the
   form send_A + 2i equals one of the form send_B + 2j (with 2^192 wrap-around). *)
Theorem c32_nonce_sync :
  forall (h24 : bytes -> bytes) a b, length a = length b -> a <> b ->
    sort32 a b = sort32 b a /\
    forall lo hi, sort32 a b = (lo, hi) ->
      let A := gen_nonces h24 lo hi (bytes_lt a b) in
      let B := gen_nonces h24 lo hi (bytes_lt b a) in
      fst A = snd B /\ snd A = fst B /\
      forall i j, nonce_after i (snd A) <> nonce_after j (snd B).
Proof. exact handshake_nonces. Qed.
Print Assumptions c32_nonce_sync.

(* Each side learns the key the other side authenticated with: against ANY peer (any
   bytes received), if MakeSecretConnection succeeds then the stored remote key is the
   32-byte key decoded from the authentication message that came through the secret
   channel, and the signature that came with it verifies under that key over the
   challenge of this very key exchange; the connection's secret is the DH of the
   ephemeral key received.  (No hypothesis on any primitive.) *)
Theorem c32_auth :
  forall seal open dh h24 h32 sign verify loc_pub loc_priv lep lepriv inw sc rest out lo hi,
    handshake 1024 16 seal open dh h24 h32 sign verify loc_pub loc_priv lep lepriv inw = Ok (sc, rest, out) ->
    sort32 lep (fit 32 (firstn 32 inw)) = (lo, hi) ->
    exists buf sig,
      dec_auth auth_sig_msg_size buf = Some (remPub sc, sig) /\
      verify (remPub sc) (gen_challenge h32 lo hi) sig = true /\
      length (remPub sc) = 32 /\
      key sc = dh (fit 32 (firstn 32 inw)) lepriv.
Proof. exact (handshake_auth 1024 16). Qed.
Print Assumptions c32_auth.

(* the hypotheses on seal/open are satisfiable: the executable box used in the
   correspondence runs satisfies all three *)
Theorem c32_hypotheses_satisfiable :
  aead_ok 16 Run.toy_seal Run.toy_open /\ aead_auth Run.toy_seal Run.toy_open /\ aead_dist Run.toy_seal.
Proof. exact toy_aead. Qed.
Print Assumptions c32_hypotheses_satisfiable.

(* Two honest ends.  [keys_ok]: DH commutes (dh (eph_pub a) b = dh (eph_pub b) a), honest
   signatures verify (verify (pk k) m (sign k m) = true), public keys are 32 and signatures
   64 bytes (so the authentication message is the 100 bytes the code reads).  With different
   ephemeral public keys, the two runs of MakeSecretConnection - each fed exactly what the
   other one sends - both succeed and consume everything; each side's remote key is the
   other's public key; the secrets are equal; the nonces are crossed; nothing is buffered. *)
Theorem c32_handshake_honest :
  forall (seal : bytes -> bytes -> bytes -> bytes) (open : bytes -> bytes -> bytes -> option bytes)
         (dh : bytes -> bytes -> bytes) (h24 h32 : bytes -> bytes)
         (sign : bytes -> bytes -> bytes) (verify : bytes -> bytes -> bytes -> bool)
         (eph_pub pk : bytes -> bytes),
    aead_ok 16 seal open -> keys_ok dh sign verify eph_pub pk ->
    forall skA skB ea eb, eph_pub ea <> eph_pub eb ->
    exists outA outB scA scB,
      handshake 1024 16 seal open dh h24 h32 sign verify (pk skA) skA (eph_pub ea) ea outB = Ok (scA, [], outA) /\
      handshake 1024 16 seal open dh h24 h32 sign verify (pk skB) skB (eph_pub eb) eb outA = Ok (scB, [], outB) /\
      remPub scA = pk skB /\ remPub scB = pk skA /\ key scA = key scB /\
      sendNonce scA = recvNonce scB /\ sendNonce scB = recvNonce scA /\
      recvBuffer scA = [] /\ recvBuffer scB = [].
Proof. exact handshake_honest_full. Qed.
Print Assumptions c32_handshake_honest.

(* ... so c32_stream is a corollary of the handshake: after an honest handshake both
   directions are synced, and for EVERY interleaving of writes and reads in either
   direction the reader gets exactly a prefix of what the writer wrote
   ([stream_holds] is the conclusion of c32_stream for that link). *)
Theorem c32_stream_after_handshake :
  forall (seal : bytes -> bytes -> bytes -> bytes) (open : bytes -> bytes -> bytes -> option bytes)
         (dh : bytes -> bytes -> bytes) (h24 h32 : bytes -> bytes)
         (sign : bytes -> bytes -> bytes) (verify : bytes -> bytes -> bytes -> bool)
         (eph_pub pk : bytes -> bytes),
    aead_ok 16 seal open -> keys_ok dh sign verify eph_pub pk ->
    forall skA skB ea eb, eph_pub ea <> eph_pub eb ->
    exists outA outB scA scB,
      handshake 1024 16 seal open dh h24 h32 sign verify (pk skA) skA (eph_pub ea) ea outB = Ok (scA, [], outA) /\
      handshake 1024 16 seal open dh h24 h32 sign verify (pk skB) skB (eph_pub eb) eb outA = Ok (scB, [], outB) /\
      remPub scA = pk skB /\ remPub scB = pk skA /\
      synced (mkLink scA [] scB) /\ synced (mkLink scB [] scA) /\
      stream_holds seal open (mkLink scA [] scB) /\ stream_holds seal open (mkLink scB [] scA).
Proof. exact stream_after_handshake. Qed.
Print Assumptions c32_stream_after_handshake.

(* the hypotheses on the key agreement and the signatures are satisfiable (toy DH, toy
   signature scheme; Main.ex_honest_toy instantiates the whole chain with them) *)
Theorem c32_key_hypotheses_satisfiable :
  keys_ok toy_dh toy_sign toy_verify toy_eph_pub toy_pk.
Proof. exact toy_keys. Qed.
Print Assumptions c32_key_hypotheses_satisfiable.
