(* C32 — (1) the toy authenticated box of C32.Run satisfies every hypothesis the
   theorems make about seal/open, so the hypotheses are satisfiable (and the
   correspondence runs evaluate an instance the theorems apply to);
   (2) the geometry of the code (dataMaxSize 1024, overhead 16) satisfies the
   side conditions; (3) Examples: the theorems' premises hold for non-trivial
   values; (4) history: the pinned code (Read's buffered branch reporting n = 0)
   loses bytes - the witness of the defect that was repaired. *)
From Coq Require Import List ZArith NArith Arith Bool Lia.
From Verif Require Import Outcome Cmp.
From C32 Require Import Model Run Proofs.
Import ListNotations.

Lemma toy_tag_length k n m : length (toy_tag k n m) = 16.
Proof. unfold toy_tag. cbn [length]. rewrite fit_length. reflexivity. Qed.

Lemma toy_open_seal k n m : toy_open k n (toy_seal k n m) = Some m.
Proof.
  unfold toy_open, toy_seal.
  assert (L : Nat.ltb (length (toy_tag k n m ++ m)) 16 = false).
  { apply Nat.ltb_ge. rewrite app_length, toy_tag_length. lia. }
  rewrite L.
  rewrite (firstn_app_exact' 16) by (symmetry; apply toy_tag_length).
  rewrite (skipn_app_exact' 16) by (symmetry; apply toy_tag_length).
  assert (E : bytes_eqb (toy_tag k n m) (toy_tag k n m) = true) by (apply bytes_eqb_eq; reflexivity).
  rewrite E. reflexivity.
Qed.

Lemma toy_seal_len k n m : length (toy_seal k n m) = length m + OV0.
Proof. unfold toy_seal. rewrite app_length, toy_tag_length. unfold OV0. lia. Qed.

Lemma toy_open_auth k n c m : toy_open k n c = Some m -> c = toy_seal k n m.
Proof.
  unfold toy_open, toy_seal. destruct (Nat.ltb (length c) 16); [discriminate|].
  destruct (bytes_eqb (firstn 16 c) (toy_tag k n (skipn 16 c))) eqn:E; [|discriminate].
  intros H. apply bytes_eqb_eq in E. assert (Hm : skipn 16 c = m) by congruence. rewrite <- Hm, <- E. symmetry. apply firstn_skipn.
Qed.

Lemma sumN_app a b : sumN (a ++ b) = (sumN a + sumN b)%N.
Proof. unfold sumN. induction a; cbn [app fold_right]; [reflexivity|]. rewrite IHa. lia. Qed.

Lemma toy_seal_dist k n m m' : ~ one_apart (toy_seal k n m) (toy_seal k n m').
Proof.
  intros [p [x [y [q [E1 [E2 Hxy]]]]]]. unfold toy_seal, toy_tag in *. cbn [app] in *.
  destruct p as [|z p].
  - cbn [app] in *. injection E1 as X Q1. injection E2 as Y Q2.
    rewrite <- Q1 in Q2. apply app_inv_head in Q2. subst. apply Hxy. reflexivity.
  - cbn [app] in *. injection E1 as S1 T1. injection E2 as S2 T2.
    apply (f_equal sumN) in T1, T2. rewrite !sumN_app in T1, T2.
    unfold sumN in *. cbn [fold_right] in T1, T2.
    apply Hxy. lia.
Qed.

(* the geometry of the code *)
Lemma M0_pos : 1 <= M0.
Proof. unfold M0. lia. Qed.
Lemma M0_u16 : (N.of_nat M0 < 65536)%N.
Proof. reflexivity. Qed.

(* ---- Examples: premises are satisfiable by non-trivial values ------------------- *)
Definition ex_key : bytes := [1; 2; 3]%N.
Definition ex_nonce : bytes := repeat 255%N 24.      (* wraps around on the first frame *)
Definition ex_link : link := link0 ex_key ex_nonce.

Example ex_synced : synced ex_link.
Proof. unfold synced, ex_link, link0. cbn. auto. Qed.

(* a run with a write larger than a frame and reads smaller than a frame *)
Example ex_run :
  exists l rs,
    run M0 OV0 toy_seal toy_open ex_link
        [OWrite (pat_bytes 7 0 1500); ORead 5; ORead 2000; OWrite (pat_bytes 7 1500 3); ORead 600; ORead 3; ORead 9]
    = Ok (l, rs) /\
    delivered_all rs = pat_bytes 7 0 1503 /\
    map (fun r => match r with RObs (RData n _) => Some n | _ => None end) rs
    = [None; Some 5; Some 1019; None; Some 476; Some 3; None].
Proof. eexists; eexists. vm_compute. repeat split; reflexivity. Qed.

(* an okchunk list and a flipped byte for the tamper theorem *)
Example ex_tamper_premises :
  Forall (okchunk M0) [pat_bytes 1 0 1024; pat_bytes 1 1024 10] /\ okchunk M0 (pat_bytes 1 1034 1) /\
  17 < sealed_frame_size M0 OV0 /\ 4%N <> 0%N.
Proof.
  assert (T : forall c, Nat.leb 1 (length c) && Nat.leb (length c) M0 = true -> okchunk M0 c).
  { intros c H. apply andb_prop in H. destruct H as [H1 H2]. apply Nat.leb_le in H1, H2. split; assumption. }
  split; [|split; [|split]].
  - repeat constructor; apply T; vm_compute; reflexivity.
  - apply T; vm_compute; reflexivity.
  - apply Nat.ltb_lt. vm_compute. reflexivity.
  - discriminate.
Qed.

(* ---- history: the pinned code loses bytes (defect repaired in /repo) ------------- *)
(* write 10 bytes, read with a 4-byte buffer three times: the pinned Read reports
   n = 4, 0, 0 (the second call copies 4 bytes into the buffer, says 0) *)
Lemma pinned_read_loses_bytes :
  exists l rs,
    run_gen M0 OV0 toy_seal toy_open false ex_link [OWrite (pat_bytes 0 0 10); ORead 4; ORead 4; ORead 4]
    = Ok (l, rs) /\
    map (fun r => match r with RObs (RData n _) => Some n | _ => None end) rs = [None; Some 4; Some 0; Some 0] /\
    delivered_all rs = pat_bytes 0 0 4 /\
    recvBuffer (rx l) = [] /\ wire l = [].      (* nothing left to deliver: 6 bytes are gone *)
Proof. eexists; eexists. vm_compute. repeat split; reflexivity. Qed.

Lemma repaired_read_delivers :
  exists l rs,
    run M0 OV0 toy_seal toy_open ex_link [OWrite (pat_bytes 0 0 10); ORead 4; ORead 4; ORead 4]
    = Ok (l, rs) /\
    map (fun r => match r with RObs (RData n _) => Some n | _ => None end) rs = [None; Some 4; Some 4; Some 2] /\
    delivered_all rs = pat_bytes 0 0 10.
Proof. eexists; eexists. vm_compute. repeat split; reflexivity. Qed.
