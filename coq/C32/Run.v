(* C32 — helpers used by the generated case files.  No proofs here except that
   the toy box below is defined; its properties are proved in Proofs.v.

   The observables of the correspondence never include ciphertext, so the AEAD
   of the model is instantiated with a toy authenticated box:
     seal k n m = tag k n m ++ m,   tag k n m = (sum k + sum m) :: the 15 low-order bytes of n,
     open k n c = Some (skipn 16 c) iff the first 16 elements are that tag.
   It satisfies every hypothesis the theorems make about seal/open
   (lemmas toy_... in C32.Proofs), which also shows those hypotheses are satisfiable. *)
From Coq Require Import List ZArith NArith Bool Arith.
From Verif Require Import Outcome Cmp.
From C32 Require Import Model.
Import ListNotations.

(* ---- bytes written as one hexadecimal number ------------------------------ *)
Fixpoint pos_bits (p : positive) : list bool :=   (* least significant first *)
  match p with
  | xH => [true]
  | xO q => false :: pos_bits q
  | xI q => true :: pos_bits q
  end.
Definition N_bits (x : N) : list bool := match x with N0 => [] | Npos p => pos_bits p end.
Fixpoint byte_of (bits : list bool) : N :=
  match bits with
  | [] => 0
  | b :: r => ((if b then 1 else 0) + 2 * byte_of r)%N
  end.
Fixpoint bytes_le (k : nat) (bits : list bool) : list N :=
  match k with
  | O => []
  | S k' => byte_of (firstn 8 bits) :: bytes_le k' (skipn 8 bits)
  end.
Definition HB (len v : N) : bytes := rev (bytes_le (N.to_nat len) (N_bits v)).

(* ---- the toy box ------------------------------------------------------------ *)
Definition sumN (l : bytes) : N := fold_right N.add 0%N l.
Definition toy_tag (k n m : bytes) : bytes := (sumN k + sumN m)%N :: fit 15 (rev n).
Definition toy_seal (k n m : bytes) : bytes := toy_tag k n m ++ m.
Definition toy_open (k n c : bytes) : option bytes :=
  if Nat.ltb (length c) 16 then None
  else if bytes_eqb (firstn 16 c) (toy_tag k n (skipn 16 c)) then Some (skipn 16 c) else None.

Definition M0 : nat := 1024.   (* dataMaxSize *)
Definition OV0 : nat := 16.    (* secretbox.Overhead *)

(* ---- rows --------------------------------------------------------------------- *)
Definition row := (N * N * N * bytes * bytes)%type.
Definition row_eqb : row -> row -> bool :=
  pair_eqb (pair_eqb (pair_eqb (pair_eqb N.eqb N.eqb) N.eqb) bytes_eqb) bytes_eqb.
Definition rows_eqb : list row -> list row -> bool := list_eqb row_eqb.
Definition mkrow (a b c : N) (d e : bytes) : row := (a, b, c, d, e).

(* ---- stream cases ----------------------------------------------------------- *)
Inductive sop :=
| SW (seed p0 len : N)     (* write bytes p0 .. p0+len-1 of the pattern stream *)
| SR (buflen : N)
| ST (off mask : N).

Definition pat (seed p : N) : N := N.modulo (p * 7 + (N.div p 256) * 13 + seed) 256.
Fixpoint pat_bytes (seed p : N) (len : nat) : bytes :=
  match len with
  | O => []
  | S l => pat seed p :: pat_bytes seed (N.succ p) l
  end.

Definition to_op (o : sop) : op :=
  match o with
  | SW seed p0 len => OWrite (pat_bytes seed p0 (N.to_nat len))
  | SR b => ORead (N.to_nat b)
  | ST off mask => OTamper (N.to_nat off) mask
  end.

Definition obs_row (l : link) (r : obs) : row :=
  match r with
  | WObs n w => mkrow 0 (N.of_nat n) (N.of_nat w) [] (sendNonce (tx l))
  | RObs (RData n d) => mkrow 1 (N.of_nat n) (N.of_nat (length (recvBuffer (rx l)))) (firstn n d) (recvNonce (rx l))
  | RObs RBlock => mkrow 2 0 (N.of_nat (length (recvBuffer (rx l)))) [] (recvNonce (rx l))
  | RObs _ => mkrow 3 0 (N.of_nat (length (recvBuffer (rx l)))) [] (recvNonce (rx l))
  | TObs => mkrow 4 0 0 [] []
  end.

Fixpoint run_rows (fixed : bool) (l : link) (ops : list sop) : list row :=
  match ops with
  | [] => []
  | o :: ops' =>
    match step_gen M0 OV0 toy_seal toy_open fixed l (to_op o) with
    | Ok (l', r) => obs_row l' r :: run_rows fixed l' ops'
    | Err _ => [mkrow 9 0 0 [] []]
    | Panic _ => [mkrow 10 0 0 [] []]
    end
  end.

Definition link0 (k n : bytes) : link :=
  mkLink (mkConn [] [] n k []) [] (mkConn [] n [] k []).

Definition run_stream_gen (fixed : bool) (k n : bytes) (ops : list sop) : list row :=
  run_rows fixed (link0 k n) ops.
Definition run_stream := run_stream_gen true.

Definition run_incr2 (n : bytes) : list row := [mkrow 0 0 0 [] (incr2_nonce n)].

(* ---- handshake cases -------------------------------------------------------- *)
Definition peer_frame := (bytes * bytes * N * bytes)%type.   (* key, nonce, length field, chunk *)
Definition seal_peer_frame (f : peer_frame) : bytes :=
  match f with
  | (k, n, lenfld, chunk) =>
    toy_seal k n (fit (M0 + 2) ([N.div lenfld 256; N.modulo lenfld 256] ++ chunk))
  end.

Definition run_handshake (pubA ephA ephRem k : bytes) (t24 t32 : bytes * bytes) (sigA : bytes)
           (vt : bytes * bytes * bool) (frames : list peer_frame) (corrupt : option (N * N)) : list row :=
  let dh := fun rem (_ : bytes) => if bytes_eqb rem ephRem then k else [] in
  let h24 := fun x => if bytes_eqb x (fst t24) then snd t24 else [] in
  let h32 := fun x => if bytes_eqb x (fst t32) then snd t32 else [] in
  let sign := fun (_ : bytes) msg => if bytes_eqb msg (snd t32) then sigA else [] in
  let verify := fun pk msg sg =>
    bytes_eqb pk (fst (fst vt)) && bytes_eqb msg (snd t32) && bytes_eqb sg (snd (fst vt)) && snd vt in
  let sealed := concat (map seal_peer_frame frames) in
  let sealed' := match corrupt with Some (off, mask) => xor_at (N.to_nat off) mask sealed | None => sealed end in
  let inw := ephRem ++ sealed' in
  let (lo, hi) := sort32 ephA (fit 32 (firstn 32 inw)) in
  let auth := enc_auth pubA (sign [] (gen_challenge h32 lo hi)) in
  match handshake M0 OV0 toy_seal toy_open dh h24 h32 sign verify pubA [] ephA [] inw with
  | Ok (sc, _, _) =>
    [mkrow 0 0 (N.of_nat (length (recvBuffer sc))) (remPub sc) (recvNonce sc ++ sendNonce sc);
     mkrow 0 0 0 auth []]
  | Err _ => [mkrow 1 0 0 [] []; mkrow 0 0 0 auth []]
  | Panic _ => [mkrow 2 0 0 [] []; mkrow 0 0 0 auth []]
  end.
