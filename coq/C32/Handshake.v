(* C32 — two honest ends: the composition of two runs of MakeSecretConnection. *)
From Coq Require Import List ZArith NArith Arith Bool Lia.
From Coq Require Import ZifyBool ZifyN ZifyNat.
From Verif Require Import Outcome Cmp.
From C32 Require Import Model Proofs.
Import ListNotations.

(* ---- the go-wire encoding of authSigMessage round-trips ---------------------------- *)
Lemma dec_varint_1 x r :
  (1 <= x < 256)%N -> dec_varint (1%N :: x :: r) = Some (Z.of_N x, r, 2).
Proof.
  intros H. unfold dec_varint.
  change (N.eqb (N.shiftr 1 4) 15) with false. cbv iota.
  change (N.ltb 8 1) with false. change (N.eqb 1 0) with false. cbv iota.
  change (N.to_nat 1) with 1.
  change (Nat.ltb (length (x :: r)) 1) with false. cbv iota.
  cbn [firstn skipn be_val].
  replace (0 * 256 + x)%N with x by lia.
  assert (E : N.leb 9223372036854775808 x = false) by (apply N.leb_gt; lia).
  rewrite E. reflexivity.
Qed.

Lemma enc_varint_small x : (1 <= x < 256)%N -> enc_varint x = [1%N; x].
Proof.
  intros H. unfold enc_varint, uvarint_size.
  assert (E : N.eqb x 0 = false) by (apply N.eqb_neq; lia). rewrite E.
  assert (L : N.div (N.log2 x) 8 = 0%N).
  { apply N.div_small. assert (N.log2 x < 8)%N; [|lia]. apply N.log2_lt_pow2; [lia|]. cbn. lia. }
  rewrite L. cbn [N.to_nat be_n N.of_nat Pos.of_succ_nat].
  assert (Hm : N.modulo x 256 = x) by (apply N.mod_small; lia). rewrite Hm. reflexivity.
Qed.

Lemma dec_byteslice_small lmt n0 x b rest :
  (1 <= x < 256)%N -> length b = N.to_nat x -> n0 + 2 + length b <= lmt ->
  dec_byteslice lmt n0 (1%N :: x :: b ++ rest) = Some (b, rest, n0 + 2 + length b).
Proof.
  intros Hx Hl Hlim. unfold dec_byteslice. rewrite dec_varint_1 by exact Hx.
  assert (E1 : Z.ltb (Z.of_N x) 0 = false) by lia. rewrite E1.
  assert (E2 : Z.ltb (Z.of_nat lmt) (Z.max (Z.of_N x) (Z.of_nat (n0 + 2) + Z.of_N x)) = false) by lia.
  rewrite E2.
  assert (E3 : Z.to_nat (Z.of_N x) = length b) by lia. rewrite E3.
  assert (E4 : Nat.ltb (length (b ++ rest)) (length b) = false)
    by (apply Nat.ltb_ge; rewrite app_length; lia).
  rewrite E4. rewrite firstn_app_exact, skipn_app_exact. reflexivity.
Qed.

Lemma enc_auth_shape pub sig :
  length pub = 32 -> length sig = 64 ->
  enc_auth pub sig = 1%N :: 32%N :: pub ++ 1%N :: 64%N :: sig ++ [].
Proof.
  intros Hp Hs. unfold enc_auth, enc_byteslice. rewrite Hp, Hs.
  change (N.of_nat 32) with 32%N. change (N.of_nat 64) with 64%N.
  rewrite !enc_varint_small by lia. rewrite app_nil_r. reflexivity.
Qed.

Lemma enc_auth_length pub sig :
  length pub = 32 -> length sig = 64 -> length (enc_auth pub sig) = 100.
Proof.
  intros Hp Hs. rewrite enc_auth_shape by assumption.
  cbn [length]. rewrite app_length. cbn [length]. rewrite app_length. cbn [length]. lia.
Qed.

Lemma dec_enc_auth pub sig :
  length pub = 32 -> length sig = 64 ->
  dec_auth auth_sig_msg_size (enc_auth pub sig) = Some (pub, sig).
Proof.
  intros Hp Hs. rewrite enc_auth_shape by assumption. unfold dec_auth, auth_sig_msg_size.
  rewrite (dec_byteslice_small 100 0 32 pub) by (rewrite ?Hp; try lia; reflexivity).
  rewrite (dec_byteslice_small 100 (0 + 2 + length pub) 64 sig []) by (rewrite ?Hp, ?Hs; try lia; reflexivity).
  reflexivity.
Qed.

Lemma read_full_zero M OV open fuel c w acc :
  read_full M OV open fuel c w 0 acc = Ok (c, w, acc).
Proof. destruct fuel; reflexivity. Qed.

(* ============================================================================ *)
Section Honest.
  Variable M OV : nat.
  Variable seal : bytes -> bytes -> bytes -> bytes.
  Variable open : bytes -> bytes -> bytes -> option bytes.
  Variable dh : bytes -> bytes -> bytes.
  Variable h24 h32 : bytes -> bytes.
  Variable sign : bytes -> bytes -> bytes.
  Variable verify : bytes -> bytes -> bytes -> bool.
  Variable eph_pub pk : bytes -> bytes.

  Hypothesis M_fits : 100 <= M.                     (* the authentication message fits in one frame *)
  Hypothesis M_u16 : (N.of_nat M < 65536)%N.
  Hypothesis open_seal : forall k n m, open k n (seal k n m) = Some m.
  Hypothesis seal_len : forall k n m, length (seal k n m) = length m + OV.
  Hypothesis dh_comm : forall a b, dh (eph_pub a) b = dh (eph_pub b) a.
  Hypothesis eph_len : forall a, length (eph_pub a) = 32.
  Hypothesis verify_sign : forall sk m, verify (pk sk) m (sign sk m) = true.
  Hypothesis pk_len : forall sk, length (pk sk) = 32.
  Hypothesis sig_len : forall sk m, length (sign sk m) = 64.

  Notation handshake := (handshake M OV seal open dh h24 h32 sign verify).
  Notation mk_frame := (mk_frame M).

  Let M_pos : 1 <= M.
  Proof. lia. Qed.

  Lemma write_f_nil f k n : write_f M seal f k n [] = Some ([], n, 0).
  Proof. destruct f; reflexivity. Qed.

  (* Write of a non-empty message that fits in one frame *)
  Lemma write_single c data :
    1 <= length data <= M ->
    write M seal c data
    = Some (set_sendNonce c (incr2_nonce (sendNonce c)),
            seal (key c) (sendNonce c) (mk_frame data) ++ [], length data + 0).
  Proof.
    intros [H1 H2]. unfold Model.write.
    destruct data as [|x d]; [cbn in H1; lia|].
    change (length (x :: d)) with (S (length d)) at 1. cbn [write_f].
    assert (B : Nat.ltb M (length (x :: d)) = false) by (apply Nat.ltb_ge; exact H2).
    rewrite B. rewrite write_f_nil. reflexivity.
  Qed.

  (* one end, given what the other end sends *)
  Lemma handshake_side skX skY ex ey lo hi rn sn :
    sort32 (eph_pub ex) (eph_pub ey) = (lo, hi) ->
    gen_nonces h24 lo hi (bytes_lt (eph_pub ex) (eph_pub ey)) = (rn, sn) ->
    let k := dh (eph_pub ey) ex in
    let ch := gen_challenge h32 lo hi in
    handshake (pk skX) skX (eph_pub ex) ex
      (eph_pub ey ++ seal k rn (mk_frame (enc_auth (pk skY) (sign skY ch))))
    = Ok (mkConn [] (incr2_nonce rn) (incr2_nonce sn) k (pk skY), [],
          eph_pub ex ++ seal k sn (mk_frame (enc_auth (pk skX) (sign skX ch))) ++ []).
  Proof.
    intros Hs Hn k ch. unfold Model.handshake.
    rewrite (firstn_app_exact' 32) by (symmetry; apply eph_len).
    rewrite (skipn_app_exact' 32) by (symmetry; apply eph_len).
    rewrite fit_exact by apply eph_len.
    rewrite Hs, Hn. fold k. fold ch.
    assert (La : forall sk, length (enc_auth (pk sk) (sign sk ch)) = 100)
      by (intros; apply enc_auth_length; [apply pk_len|apply sig_len]).
    rewrite write_single by (rewrite La; cbn [recvBuffer]; lia).
    unfold set_sendNonce. cbn [key sendNonce recvBuffer recvNonce remPub].
    set (authY := enc_auth (pk skY) (sign skY ch)).
    set (frameY := seal k rn (mk_frame authY)).
    unfold auth_sig_msg_size at 2. cbn [read_full].
    pose proof (read_frame M OV seal open M_pos M_u16 open_seal seal_len
                  (mkConn [] rn (incr2_nonce sn) k []) authY [] 100 eq_refl) as R.
    cbn [key recvNonce recvBuffer set_recvBuffer set_recvNonce sendNonce remPub] in R.
    fold frameY in R. rewrite app_nil_r in R.
    unfold Model.read in R. unfold Model.read.
    rewrite R by (unfold okchunk, authY; rewrite La; lia).
    assert (Hlen : length authY = 100) by apply La. rewrite !Hlen.
    change (Nat.min 100 100) with 100. change (100 - 100) with 0.
    rewrite read_full_zero.
    assert (F : firstn 100 (firstn 100 authY) = authY).
    { rewrite firstn_firstn. change (Nat.min 100 100) with 100. apply firstn_all2. rewrite Hlen. lia. }
    cbn [app]. rewrite F.
    unfold authY. rewrite dec_enc_auth by (apply pk_len || apply sig_len).
    rewrite pk_len. change (negb (Nat.eqb 32 32)) with false. cbv iota.
    rewrite verify_sign.
    assert (Sk : skipn 100 (enc_auth (pk skY) (sign skY ch)) = []) by (apply skipn_all2; rewrite La; lia).
    rewrite Sk. reflexivity.
  Qed.

  (* both ends *)
  Lemma handshake_honest skA skB ea eb :
    eph_pub ea <> eph_pub eb ->
    exists outA outB scA scB,
      handshake (pk skA) skA (eph_pub ea) ea outB = Ok (scA, [], outA) /\
      handshake (pk skB) skB (eph_pub eb) eb outA = Ok (scB, [], outB) /\
      remPub scA = pk skB /\ remPub scB = pk skA /\ key scA = key scB /\
      sendNonce scA = recvNonce scB /\ sendNonce scB = recvNonce scA /\
      recvBuffer scA = [] /\ recvBuffer scB = [].
  Proof.
    intros Hne.
    assert (Hl : length (eph_pub ea) = length (eph_pub eb)) by (rewrite !eph_len; reflexivity).
    destruct (handshake_nonces h24 (eph_pub ea) (eph_pub eb) Hl Hne) as [Hsort Hcross].
    destruct (sort32 (eph_pub ea) (eph_pub eb)) as [lo hi] eqn:SA.
    specialize (Hcross lo hi eq_refl). cbn zeta in Hcross.
    destruct (gen_nonces h24 lo hi (bytes_lt (eph_pub ea) (eph_pub eb))) as [rnA snA] eqn:NA.
    destruct (gen_nonces h24 lo hi (bytes_lt (eph_pub eb) (eph_pub ea))) as [rnB snB] eqn:NB.
    cbn [fst snd] in Hcross. destruct Hcross as [C1 [C2 _]]. subst rnA snA.
    symmetry in Hsort.
    pose proof (handshake_side skA skB ea eb lo hi snB rnB SA NA) as HA.
    pose proof (handshake_side skB skA eb ea lo hi rnB snB Hsort NB) as HB.
    cbn zeta in HA, HB. rewrite (dh_comm ea eb) in HB.
    rewrite !app_nil_r in HA, HB.
    eexists; eexists; eexists; eexists.
    split; [exact HA|]. split; [exact HB|].
    cbn [remPub key sendNonce recvNonce recvBuffer]. repeat split; reflexivity.
  Qed.
End Honest.
