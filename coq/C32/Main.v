(* C32 — the property statements for the geometry of the code (dataMaxSize 1024,
   secretbox.Overhead 16), assembled from the generic lemmas of C32.Proofs. *)
From Coq Require Import List ZArith NArith Arith Bool Lia.
From Verif Require Import Outcome Cmp.
From C32 Require Import Model Run Proofs Toy.
Import ListNotations.

(* the idealised AEAD: what the theorems assume about secretbox with the shared key *)
Definition aead_ok (OV : nat) (seal : bytes -> bytes -> bytes -> bytes)
           (open : bytes -> bytes -> bytes -> option bytes) : Prop :=
  (forall k n m, open k n (seal k n m) = Some m) /\
  (forall k n m, length (seal k n m) = length m + OV).
(* deterministic box: whatever opens is the sealing of what it opens to *)
Definition aead_auth (seal : bytes -> bytes -> bytes -> bytes)
           (open : bytes -> bytes -> bytes -> option bytes) : Prop :=
  forall k n c m, open k n c = Some m -> c = seal k n m.
(* no two sealings under one key and nonce differ in exactly one byte (the
   authenticator of a different plaintext differs) *)
Definition aead_dist (seal : bytes -> bytes -> bytes -> bytes) : Prop :=
  forall k n m m', ~ one_apart (seal k n m) (seal k n m').

Lemma toy_aead : aead_ok 16 toy_seal toy_open /\ aead_auth toy_seal toy_open /\ aead_dist toy_seal.
Proof.
  repeat split.
  - exact toy_open_seal.
  - exact toy_seal_len.
  - exact toy_open_auth.
  - exact toy_seal_dist.
Qed.

Definition no_tamper (ops : list op) : Prop := forallb (fun o => negb (is_tamper o)) ops = true.

Section Top.
  Variable seal : bytes -> bytes -> bytes -> bytes.
  Variable open : bytes -> bytes -> bytes -> option bytes.
  Hypothesis A : aead_ok 16 seal open.

  Let open_seal := proj1 A.
  Let seal_len := proj2 A.

  Lemma run_app fixed : forall a b l l1 r1 l2 r2,
    run_gen 1024 16 seal open fixed l a = Ok (l1, r1) ->
    run_gen 1024 16 seal open fixed l1 b = Ok (l2, r2) ->
    run_gen 1024 16 seal open fixed l (a ++ b) = Ok (l2, r1 ++ r2).
  Proof.
    induction a as [|o a IH]; intros b l l1 r1 l2 r2 E1 E2.
    - cbn in E1. inversion E1; subst. exact E2.
    - cbn [run_gen app] in *.
      destruct (step_gen 1024 16 seal open fixed l o) as [[l' r]| |]; try discriminate.
      destruct (run_gen 1024 16 seal open fixed l' a) as [[l'' rs]| |] eqn:R; try discriminate.
      inversion E1; subst. rewrite (IH b l' l1 rs l2 r2 R E2). reflexivity.
  Qed.

  Lemma pending_empty_iff l cs :
    linked 1024 seal l cs -> (in_flight l cs = [] <-> wire l = [] /\ recvBuffer (rx l) = []).
  Proof.
    intros [K [W [Nn F]]]. unfold in_flight. split.
    - intros E. apply app_eq_nil in E. destruct E as [B C].
      destruct cs as [|c r].
      + cbn in W. auto.
      + exfalso. eapply (concat_nonempty_ok 1024) with (cs := c :: r); try exact M0_pos; try exact M0_u16; try exact F; try discriminate; exact C.
    - intros [Hw B]. rewrite B. cbn [app].
      destruct cs as [|c r]; [reflexivity|]. exfalso.
      apply (f_equal (@length N)) in Hw. rewrite W in Hw.
      rewrite (sealed_concat_length 1024 16 seal open M0_pos M0_u16 open_seal seal_len) in Hw by exact F.
      cbn in Hw. discriminate.
  Qed.

  (* c32_stream *)
  Lemma stream l ops :
    synced l -> no_tamper ops ->
    exists l' rs,
      run 1024 16 seal open l ops = Ok (l', rs) /\
      Forall good_obs rs /\ length rs = length ops /\
      exists pending,
        written ops = delivered_all rs ++ pending /\
        (pending = [] <-> wire l' = [] /\ recvBuffer (rx l') = []).
  Proof.
    intros S T. destruct (synced_linked 1024 seal l S) as [L I].
    destruct (run_linked 1024 16 seal open M0_pos M0_u16 open_seal seal_len ops l [] L T)
      as [l' [cs' [rs [E [L' [D [G Len]]]]]]].
    exists l', rs. repeat split; auto.
    exists (in_flight l' cs'). rewrite I in D. cbn [app] in D. split; [exact D|].
    apply pending_empty_iff. exact L'.
  Qed.

  (* c32_stream_complete *)
  Lemma stream_complete l ops sizes :
    synced l -> no_tamper ops ->
    Forall (fun b => 1 <= b) sizes -> length (written ops) <= length sizes ->
    exists l' rs,
      run 1024 16 seal open l (ops ++ map ORead sizes) = Ok (l', rs) /\
      delivered_all rs = written ops /\ wire l' = [] /\ recvBuffer (rx l') = [].
  Proof.
    intros S T Fb Len. destruct (synced_linked 1024 seal l S) as [L I].
    destruct (run_linked 1024 16 seal open M0_pos M0_u16 open_seal seal_len ops l [] L T)
      as [l1 [cs1 [rs1 [E1 [L1 [D1 _]]]]]].
    rewrite I in D1. cbn [app] in D1.
    assert (Len1 : length (in_flight l1 cs1) <= length sizes).
    { rewrite D1, app_length in Len. lia. }
    destruct (run_reads_drain 1024 16 seal open M0_pos M0_u16 open_seal seal_len sizes l1 cs1 L1 Fb Len1)
      as [l2 [rs2 [E2 [L2 [I2 D2]]]]].
    exists l2, (rs1 ++ rs2). split; [apply (run_app true _ _ _ _ _ _ _ E1 E2)|].
    split.
    - unfold delivered_all in *. rewrite map_app, concat_app, D2. symmetry. exact D1.
    - apply (pending_empty_iff l2 [] L2). exact I2.
  Qed.
End Top.

(* the full handshake statement for two honest ends: supported by the correspondence
   runs and the oracle (real/real handshakes), not proved here *)
Definition c32_handshake_honest_full : Prop :=
  forall (seal : bytes -> bytes -> bytes -> bytes) (open : bytes -> bytes -> bytes -> option bytes)
         (dh : bytes -> bytes -> bytes) (h24 h32 : bytes -> bytes)
         (sign : bytes -> bytes -> bytes) (verify : bytes -> bytes -> bytes -> bool)
         (eph_pub pk : bytes -> bytes),
    aead_ok 16 seal open ->
    (forall a b, dh (eph_pub a) b = dh (eph_pub b) a) -> (forall a, length (eph_pub a) = 32) ->
    (forall sk m, verify (pk sk) m (sign sk m) = true) ->
    (forall sk, length (pk sk) = 32) -> (forall sk m, length (sign sk m) = 64) ->
    forall skA skB ea eb, eph_pub ea <> eph_pub eb ->
    exists outA outB scA scB,
      handshake 1024 16 seal open dh h24 h32 sign verify (pk skA) skA (eph_pub ea) ea outB = Ok (scA, [], outA) /\
      handshake 1024 16 seal open dh h24 h32 sign verify (pk skB) skB (eph_pub eb) eb outA = Ok (scB, [], outB) /\
      remPub scA = pk skB /\ remPub scB = pk skA /\ key scA = key scB /\
      sendNonce scA = recvNonce scB /\ sendNonce scB = recvNonce scA /\
      recvBuffer scA = [] /\ recvBuffer scB = [].
