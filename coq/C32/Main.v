(* C32 — the property statements for the geometry of the code (dataMaxSize 1024,
   secretbox.Overhead 16), assembled from the generic lemmas of C32.Proofs. *)
From Coq Require Import List ZArith NArith Arith Bool Lia.
From Verif Require Import Outcome Cmp.
From C32 Require Import Model Run Proofs Toy Handshake.
Import ListNotations.

(* the idealised AEAD: what the theorems assume about secretbox with the shared key *)
Definition aead_ok (OV : nat) (seal : bytes -> bytes -> bytes -> bytes)
           (open : bytes -> bytes -> bytes -> option bytes) : Prop :=
  (forall k n m, open k n (seal k n m) = Some m) /\
  (forall k n m, length (seal k n m) = length m + OV).
(* deterministic box: whatever opens is the sealing of what it opens to *)
Definition aead_auth (seal : bytes -> bytes -> bytes -> bytes)
           (open : bytes -> bytes -> bytes -> option bytes) : Prop :=
  forall k n c m, open k n c = Some m -> c = seal k n m.
(* no two sealings under one key and nonce differ in exactly one byte (the
   authenticator of a different plaintext differs) *)
Definition aead_dist (seal : bytes -> bytes -> bytes -> bytes) : Prop :=
  forall k n m m', ~ one_apart (seal k n m) (seal k n m').

Lemma toy_aead : aead_ok 16 toy_seal toy_open /\ aead_auth toy_seal toy_open /\ aead_dist toy_seal.
Proof.
  repeat split.
  - exact toy_open_seal.
  - exact toy_seal_len.
  - exact toy_open_auth.
  - exact toy_seal_dist.
Qed.

Definition no_tamper (ops : list op) : Prop := forallb (fun o => negb (is_tamper o)) ops = true.

Section Top.
  Variable seal : bytes -> bytes -> bytes -> bytes.
  Variable open : bytes -> bytes -> bytes -> option bytes.
  Hypothesis A : aead_ok 16 seal open.

  Let open_seal := proj1 A.
  Let seal_len := proj2 A.

  Lemma run_app fixed : forall a b l l1 r1 l2 r2,
    run_gen 1024 16 seal open fixed l a = Ok (l1, r1) ->
    run_gen 1024 16 seal open fixed l1 b = Ok (l2, r2) ->
    run_gen 1024 16 seal open fixed l (a ++ b) = Ok (l2, r1 ++ r2).
  Proof.
    induction a as [|o a IH]; intros b l l1 r1 l2 r2 E1 E2.
    - cbn in E1. inversion E1; subst. exact E2.
    - cbn [run_gen app] in *.
      destruct (step_gen 1024 16 seal open fixed l o) as [[l' r]| |]; try discriminate.
      destruct (run_gen 1024 16 seal open fixed l' a) as [[l'' rs]| |] eqn:R; try discriminate.
      inversion E1; subst. rewrite (IH b l' l1 rs l2 r2 R E2). reflexivity.
  Qed.

  Lemma pending_empty_iff l cs :
    linked 1024 seal l cs -> (in_flight l cs = [] <-> wire l = [] /\ recvBuffer (rx l) = []).
  Proof.
    intros [K [W [Nn F]]]. unfold in_flight. split.
    - intros E. apply app_eq_nil in E. destruct E as [B C].
      destruct cs as [|c r].
      + cbn in W. auto.
      + exfalso. eapply (concat_nonempty_ok 1024) with (cs := c :: r); try exact M0_pos; try exact M0_u16; try exact F; try discriminate; exact C.
    - intros [Hw B]. rewrite B. cbn [app].
      destruct cs as [|c r]; [reflexivity|]. exfalso.
      apply (f_equal (@length N)) in Hw. rewrite W in Hw.
      rewrite (sealed_concat_length 1024 16 seal open M0_pos M0_u16 open_seal seal_len) in Hw by exact F.
      cbn in Hw. discriminate.
  Qed.

  (* c32_stream *)
  Lemma stream l ops :
    synced l -> no_tamper ops ->
    exists l' rs,
      run 1024 16 seal open l ops = Ok (l', rs) /\
      Forall good_obs rs /\ length rs = length ops /\
      exists pending,
        written ops = delivered_all rs ++ pending /\
        (pending = [] <-> wire l' = [] /\ recvBuffer (rx l') = []).
  Proof.
    intros S T. destruct (synced_linked 1024 seal l S) as [L I].
    destruct (run_linked 1024 16 seal open M0_pos M0_u16 open_seal seal_len ops l [] L T)
      as [l' [cs' [rs [E [L' [D [G Len]]]]]]].
    exists l', rs. repeat split; auto.
    exists (in_flight l' cs'). rewrite I in D. cbn [app] in D. split; [exact D|].
    apply pending_empty_iff. exact L'.
  Qed.

  (* c32_stream_complete *)
  Lemma stream_complete l ops sizes :
    synced l -> no_tamper ops ->
    Forall (fun b => 1 <= b) sizes -> length (written ops) <= length sizes ->
    exists l' rs,
      run 1024 16 seal open l (ops ++ map ORead sizes) = Ok (l', rs) /\
      delivered_all rs = written ops /\ wire l' = [] /\ recvBuffer (rx l') = [].
  Proof.
    intros S T Fb Len. destruct (synced_linked 1024 seal l S) as [L I].
    destruct (run_linked 1024 16 seal open M0_pos M0_u16 open_seal seal_len ops l [] L T)
      as [l1 [cs1 [rs1 [E1 [L1 [D1 _]]]]]].
    rewrite I in D1. cbn [app] in D1.
    assert (Len1 : length (in_flight l1 cs1) <= length sizes).
    { rewrite D1, app_length in Len. lia. }
    destruct (run_reads_drain 1024 16 seal open M0_pos M0_u16 open_seal seal_len sizes l1 cs1 L1 Fb Len1)
      as [l2 [rs2 [E2 [L2 [I2 D2]]]]].
    exists l2, (rs1 ++ rs2). split; [apply (run_app true _ _ _ _ _ _ _ E1 E2)|].
    split.
    - unfold delivered_all in *. rewrite map_app, concat_app, D2. symmetry. exact D1.
    - apply (pending_empty_iff l2 [] L2). exact I2.
  Qed.
End Top.

(* ---- two honest ends ------------------------------------------------------------- *)
(* what the theorems assume about the key agreement and the signature scheme:
   [eph_pub]/[pk] derive the public from the private key *)
Definition keys_ok (dh : bytes -> bytes -> bytes) (sign : bytes -> bytes -> bytes)
           (verify : bytes -> bytes -> bytes -> bool) (eph_pub pk : bytes -> bytes) : Prop :=
  (forall a b, dh (eph_pub a) b = dh (eph_pub b) a) /\     (* DH commutes *)
  (forall a, length (eph_pub a) = 32) /\
  (forall sk m, verify (pk sk) m (sign sk m) = true) /\     (* honest signatures verify *)
  (forall sk, length (pk sk) = 32) /\ (forall sk m, length (sign sk m) = 64).

Definition c32_handshake_honest_full : Prop :=
  forall (seal : bytes -> bytes -> bytes -> bytes) (open : bytes -> bytes -> bytes -> option bytes)
         (dh : bytes -> bytes -> bytes) (h24 h32 : bytes -> bytes)
         (sign : bytes -> bytes -> bytes) (verify : bytes -> bytes -> bytes -> bool)
         (eph_pub pk : bytes -> bytes),
    aead_ok 16 seal open -> keys_ok dh sign verify eph_pub pk ->
    forall skA skB ea eb, eph_pub ea <> eph_pub eb ->
    exists outA outB scA scB,
      handshake 1024 16 seal open dh h24 h32 sign verify (pk skA) skA (eph_pub ea) ea outB = Ok (scA, [], outA) /\
      handshake 1024 16 seal open dh h24 h32 sign verify (pk skB) skB (eph_pub eb) eb outA = Ok (scB, [], outB) /\
      remPub scA = pk skB /\ remPub scB = pk skA /\ key scA = key scB /\
      sendNonce scA = recvNonce scB /\ sendNonce scB = recvNonce scA /\
      recvBuffer scA = [] /\ recvBuffer scB = [].

Lemma M0_fits : 100 <= M0.
Proof. unfold M0. lia. Qed.

Lemma handshake_honest_full : c32_handshake_honest_full.
Proof.
  intros seal open dh h24 h32 sign verify eph_pub pk [OS SL] [DC [EL [VS [PL SGL]]]] skA skB ea eb Hne.
  exact (handshake_honest M0 OV0 seal open dh h24 h32 sign verify eph_pub pk
           M0_fits M0_u16 OS SL DC EL VS PL SGL skA skB ea eb Hne).
Qed.

(* ... and therefore both directions of the resulting pair of connections start synced,
   and the stream theorem applies to each *)
Definition stream_holds (seal : bytes -> bytes -> bytes -> bytes)
           (open : bytes -> bytes -> bytes -> option bytes) (l : link) : Prop :=
  forall ops, no_tamper ops ->
  exists l' rs,
    run 1024 16 seal open l ops = Ok (l', rs) /\
    Forall good_obs rs /\ length rs = length ops /\
    exists pending,
      written ops = delivered_all rs ++ pending /\
      (pending = [] <-> wire l' = [] /\ recvBuffer (rx l') = []).

Lemma stream_after_handshake :
  forall (seal : bytes -> bytes -> bytes -> bytes) (open : bytes -> bytes -> bytes -> option bytes)
         (dh : bytes -> bytes -> bytes) (h24 h32 : bytes -> bytes)
         (sign : bytes -> bytes -> bytes) (verify : bytes -> bytes -> bytes -> bool)
         (eph_pub pk : bytes -> bytes),
    aead_ok 16 seal open -> keys_ok dh sign verify eph_pub pk ->
    forall skA skB ea eb, eph_pub ea <> eph_pub eb ->
    exists outA outB scA scB,
      handshake 1024 16 seal open dh h24 h32 sign verify (pk skA) skA (eph_pub ea) ea outB = Ok (scA, [], outA) /\
      handshake 1024 16 seal open dh h24 h32 sign verify (pk skB) skB (eph_pub eb) eb outA = Ok (scB, [], outB) /\
      remPub scA = pk skB /\ remPub scB = pk skA /\
      synced (mkLink scA [] scB) /\ synced (mkLink scB [] scA) /\
      stream_holds seal open (mkLink scA [] scB) /\ stream_holds seal open (mkLink scB [] scA).
Proof.
  intros seal open dh h24 h32 sign verify eph_pub pk A K skA skB ea eb Hne.
  destruct (handshake_honest_full seal open dh h24 h32 sign verify eph_pub pk A K skA skB ea eb Hne)
    as [outA [outB [scA [scB [HA [HB [RA [RB [Kk [N1 [N2 [B1 B2]]]]]]]]]]]].
  assert (S1 : synced (mkLink scA [] scB)) by (unfold synced; cbn; auto).
  assert (S2 : synced (mkLink scB [] scA)) by (unfold synced; cbn; auto).
  exists outA, outB, scA, scB. repeat split; auto.
  - intros ops T. exact (stream seal open A _ ops S1 T).
  - intros ops T. exact (stream seal open A _ ops S2 T).
Qed.

(* ---- the hypotheses on keys are satisfiable: a toy DH and a toy signature scheme --- *)
Definition toy_eph_pub (a : bytes) : bytes := fit 32 a.
Definition toy_dh (p b : bytes) : bytes := [(sumN p + sumN (fit 32 b))%N].
Definition toy_pk (sk : bytes) : bytes := fit 32 sk.
Definition toy_sign (sk m : bytes) : bytes := fit 64 (fit 32 sk ++ m).
Definition toy_verify (p m s : bytes) : bool := bytes_eqb s (fit 64 (p ++ m)).

Lemma toy_keys : keys_ok toy_dh toy_sign toy_verify toy_eph_pub toy_pk.
Proof.
  unfold keys_ok, toy_dh, toy_sign, toy_verify, toy_eph_pub, toy_pk. repeat split; intros.
  - rewrite N.add_comm. reflexivity.
  - apply fit_length.
  - apply bytes_eqb_eq. reflexivity.
  - apply fit_length.
  - apply fit_length.
Qed.

(* the whole chain instantiated: toy box, toy DH, toy signatures, two different
   ephemeral keys - every hypothesis of the handshake theorems holds for them *)
Example ex_honest_toy :
  exists outA outB scA scB,
    handshake 1024 16 toy_seal toy_open toy_dh (fun x => x) (fun x => x) toy_sign toy_verify
              (toy_pk [7]%N) [7]%N (toy_eph_pub [1]%N) [1]%N outB = Ok (scA, [], outA) /\
    handshake 1024 16 toy_seal toy_open toy_dh (fun x => x) (fun x => x) toy_sign toy_verify
              (toy_pk [9]%N) [9]%N (toy_eph_pub [2]%N) [2]%N outA = Ok (scB, [], outB) /\
    remPub scA = toy_pk [9]%N /\ remPub scB = toy_pk [7]%N /\
    synced (mkLink scA [] scB) /\ synced (mkLink scB [] scA) /\
    stream_holds toy_seal toy_open (mkLink scA [] scB) /\ stream_holds toy_seal toy_open (mkLink scB [] scA).
Proof.
  apply (stream_after_handshake toy_seal toy_open toy_dh (fun x => x) (fun x => x) toy_sign toy_verify
           toy_eph_pub toy_pk (proj1 toy_aead) toy_keys [7]%N [9]%N [1]%N [2]%N).
  unfold toy_eph_pub. intros E. apply (f_equal (fun l => hd 0%N l)) in E. vm_compute in E. discriminate.
Qed.
