(* C32 — lemmas and proofs about C32.Model. *)
From Coq Require Import List ZArith NArith Arith Bool Lia.
From Coq Require Import ZifyBool ZifyN ZifyNat.
From Verif Require Import Outcome Cmp.
From C32 Require Import Model.
Import ListNotations.

Local Ltac Zify.zify_post_hook ::= Z.to_euclidean_division_equations.

(* ---- generic list facts ----------------------------------------------------- *)
Lemma firstn_app_exact {A} (a b : list A) : firstn (length a) (a ++ b) = a.
Proof. induction a; cbn; [destruct b|]; congruence. Qed.
Lemma skipn_app_exact {A} (a b : list A) : skipn (length a) (a ++ b) = b.
Proof. induction a; cbn; congruence. Qed.
Lemma firstn_app_exact' {A} n (a b : list A) : n = length a -> firstn n (a ++ b) = a.
Proof. intros ->. apply firstn_app_exact. Qed.
Lemma skipn_app_exact' {A} n (a b : list A) : n = length a -> skipn n (a ++ b) = b.
Proof. intros ->. apply skipn_app_exact. Qed.

Lemma fit_exact k l : length l = k -> fit k l = l.
Proof. intros <-. unfold fit. apply firstn_app_exact. Qed.
Lemma fit_length k l : length (fit k l) = k.
Proof.
  unfold fit. rewrite firstn_length, app_length, repeat_length. lia.
Qed.

(* ---- nonces ------------------------------------------------------------------- *)
Fixpoint nonce_after (j : nat) (n : bytes) : bytes :=
  match j with O => n | S j' => nonce_after j' (incr2_nonce n) end.

Lemma nonce_after_S j n : nonce_after (S j) n = incr2_nonce (nonce_after j n).
Proof.
  revert n; induction j; intros n; [reflexivity|].
  change (nonce_after (S (S j)) n) with (nonce_after (S j) (incr2_nonce n)).
  rewrite IHj. reflexivity.
Qed.
Lemma nonce_after_add i j n : nonce_after (i + j) n = nonce_after j (nonce_after i n).
Proof. revert n; induction i; intros; cbn; auto. Qed.

(* parity of the last byte *)
Definition last_odd (n : bytes) : bool :=
  match rev n with b :: _ => N.odd b | [] => false end.

Lemma incr_le_head b r : exists r', incr_le (b :: r) = N.modulo (b + 1) 256 :: r'.
Proof.
  cbn. destruct (N.eqb (N.modulo (b + 1) 256) 0) eqn:E.
  - apply N.eqb_eq in E. rewrite E. eauto.
  - eauto.
Qed.
Lemma incr_le_length l : length (incr_le l) = length l.
Proof. induction l; cbn; auto. destruct (N.eqb _ 0); cbn; auto. Qed.

Lemma odd_false_even x : N.odd x = false -> exists m, x = (2 * m)%N.
Proof.
  intros E. rewrite <- N.negb_even in E. apply negb_false_iff in E.
  apply N.even_spec in E. exact E.
Qed.
Lemma odd_true_odd x : N.odd x = true -> exists m, x = (2 * m + 1)%N.
Proof. intros E. apply N.odd_spec in E. exact E. Qed.

Lemma odd_succ_mod b : N.odd (N.modulo (b + 1) 256) = negb (N.odd b).
Proof.
  destruct (N.odd b) eqn:E1; destruct (N.odd (N.modulo (b + 1) 256)) eqn:E2; try reflexivity; exfalso.
  - apply odd_true_odd in E1, E2. destruct E1 as [m1 E1], E2 as [m2 E2]. lia.
  - apply odd_false_even in E1, E2. destruct E1 as [m1 E1], E2 as [m2 E2]. lia.
Qed.

Lemma last_odd_snoc l b : last_odd (l ++ [b]) = N.odd b.
Proof. unfold last_odd. rewrite rev_app_distr. reflexivity. Qed.

Lemma incr_nonce_snoc l b : exists l', incr_nonce (l ++ [b]) = l' ++ [N.modulo (b + 1) 256] /\ length l' = length l.
Proof.
  unfold incr_nonce. rewrite rev_app_distr. cbn [rev app].
  destruct (incr_le_head b (rev l)) as [r' E].
  pose proof (incr_le_length (b :: rev l)) as L. rewrite E in L. cbn in L.
  rewrite E. cbn [rev]. exists (rev r'). split; [reflexivity|].
  rewrite rev_length in *. lia.
Qed.

Lemma incr_nonce_length n : length (incr_nonce n) = length n.
Proof. unfold incr_nonce. rewrite rev_length, incr_le_length, rev_length. reflexivity. Qed.
Lemma incr2_nonce_length n : length (incr2_nonce n) = length n.
Proof. unfold incr2_nonce. rewrite !incr_nonce_length. reflexivity. Qed.
Lemma nonce_after_length j n : length (nonce_after j n) = length n.
Proof. revert n; induction j; intros; cbn; auto. rewrite IHj. apply incr2_nonce_length. Qed.

Lemma nonempty_snoc {A} (l : list A) : l <> [] -> exists l' x, l = l' ++ [x].
Proof. intros H. destruct (exists_last H) as [l' [x E]]. eauto. Qed.

Lemma incr_nonce_last_odd n : n <> [] -> last_odd (incr_nonce n) = negb (last_odd n).
Proof.
  intros H. destruct (nonempty_snoc n H) as [l [b ->]].
  destruct (incr_nonce_snoc l b) as [l' [E _]]. rewrite E, !last_odd_snoc. apply odd_succ_mod.
Qed.

Lemma incr2_nonce_last_odd n : last_odd (incr2_nonce n) = last_odd n.
Proof.
  destruct n as [|x n']; [reflexivity|]. unfold incr2_nonce.
  rewrite incr_nonce_last_odd.
  - rewrite incr_nonce_last_odd by discriminate. apply negb_involutive.
  - intros E. apply (f_equal (@length N)) in E. rewrite incr_nonce_length in E. discriminate.
Qed.

Lemma nonce_after_last_odd j n : last_odd (nonce_after j n) = last_odd n.
Proof. revert n; induction j; intros; cbn; auto. rewrite IHj. apply incr2_nonce_last_odd. Qed.

Lemma flip_last_snoc l b : flip_last (l ++ [b]) = l ++ [N.lxor b 1].
Proof.
  induction l as [|x l IH]; [reflexivity|].
  destruct l as [|y l']; [reflexivity|].
  change (flip_last ((x :: y :: l') ++ [b])) with (x :: flip_last ((y :: l') ++ [b])).
  rewrite IH. reflexivity.
Qed.

Lemma odd_lxor_1 b : N.odd (N.lxor b 1) = negb (N.odd b).
Proof.
  rewrite <- !N.bit0_odd, N.lxor_spec. rewrite N.bit0_odd. cbn. rewrite xorb_true_r. reflexivity.
Qed.

Lemma flip_last_last_odd n : n <> [] -> last_odd (flip_last n) = negb (last_odd n).
Proof.
  intros H. destruct (nonempty_snoc n H) as [l [b ->]].
  rewrite flip_last_snoc, !last_odd_snoc. apply odd_lxor_1.
Qed.

(* two nonce sequences that start with different last-byte parity never meet *)
Lemma nonce_sequences_disjoint a b i j :
  last_odd a <> last_odd b -> nonce_after i a <> nonce_after j b.
Proof.
  intros H E. apply H. rewrite <- (nonce_after_last_odd i a), <- (nonce_after_last_odd j b), E. reflexivity.
Qed.


(* ---- xor_at (the network flips bits of one byte) ---------------------------------- *)
Definition one_apart (a b : bytes) : Prop :=
  exists p x y q, a = p ++ x :: q /\ b = p ++ y :: q /\ x <> y.

Lemma lxor_same_zero b mask : N.lxor b mask = b -> mask = 0%N.
Proof.
  intros H. assert (E : N.lxor b (N.lxor b mask) = N.lxor b b) by (rewrite H; reflexivity).
  rewrite <- N.lxor_assoc, N.lxor_nilpotent, N.lxor_0_l in E. exact E.
Qed.

Lemma xor_at_length off mask l : length (xor_at off mask l) = length l.
Proof. revert off; induction l; intros [|o]; cbn; auto. Qed.

Lemma xor_at_one_apart off mask l :
  off < length l -> mask <> 0%N -> one_apart l (xor_at off mask l).
Proof.
  revert off; induction l as [|b l IH]; intros off H Hm; [cbn in H; lia|].
  destruct off as [|o].
  - exists [], b, (N.lxor b mask), l. cbn. repeat split; auto.
    intros E. apply Hm. apply (lxor_same_zero b). auto.
  - cbn in H. destruct (IH o) as [p [x [y [q [E1 [E2 Hxy]]]]]]; [lia|exact Hm|].
    exists (b :: p), x, y, q. cbn [xor_at app]. rewrite <- E1, <- E2. auto.
Qed.

Lemma xor_at_app_l off mask a b :
  off < length a -> xor_at off mask (a ++ b) = xor_at off mask a ++ b.
Proof.
  revert off; induction a as [|x a IH]; intros off H; [cbn in H; lia|].
  destruct off; cbn in *; [reflexivity|]. rewrite IH by lia. reflexivity.
Qed.
Lemma xor_at_app_r off mask a b :
  xor_at (length a + off) mask (a ++ b) = a ++ xor_at off mask b.
Proof. induction a; cbn; [reflexivity|]. rewrite IHa. reflexivity. Qed.

(* ============================================================================ *)
Section Stream.
  Variable M OV : nat.
  Variable seal : bytes -> bytes -> bytes -> bytes.
  Variable open : bytes -> bytes -> bytes -> option bytes.
  Hypothesis M_pos : 1 <= M.
  Hypothesis M_u16 : (N.of_nat M < 65536)%N.
  Hypothesis open_seal : forall k n m, open k n (seal k n m) = Some m.
  Hypothesis seal_len : forall k n m, length (seal k n m) = length m + OV.

  Notation mk_frame := (mk_frame M).
  Notation read := (read M OV open).
  Notation write := (write M seal).
  Notation step := (step M OV seal open).
  Notation run := (run M OV seal open).
  Notation S_ := (sealed_frame_size M OV).

  Definition okchunk (c : bytes) : Prop := 1 <= length c <= M.

  Fixpoint sealed_seq (k n : bytes) (cs : list bytes) : list bytes :=
    match cs with
    | [] => []
    | c :: r => seal k n (mk_frame c) :: sealed_seq k (incr2_nonce n) r
    end.

  Lemma sealed_seq_app k n a b :
    sealed_seq k n (a ++ b) = sealed_seq k n a ++ sealed_seq k (nonce_after (length a) n) b.
  Proof. revert n; induction a; intros; cbn; [reflexivity|]. rewrite IHa. reflexivity. Qed.

  Lemma be16_val len : (N.of_nat len < 65536)%N ->
    exists hi lo, be16 len = [hi; lo] /\ N.to_nat (hi * 256 + lo) = len.
  Proof.
    intros H. unfold be16. eexists; eexists; split; [reflexivity|].
    assert (E : N.modulo (N.of_nat len) 65536 = N.of_nat len) by (apply N.mod_small; exact H).
    rewrite E. lia.
  Qed.

  Lemma mk_frame_length c : length c <= M -> length (mk_frame c) = M + 2.
  Proof.
    intros H. unfold Model.mk_frame. rewrite !app_length, repeat_length. unfold be16. cbn [length]. lia.
  Qed.

  Lemma read_buffered c w b :
    recvBuffer c <> [] ->
    let m := Nat.min b (length (recvBuffer c)) in
    read c w b = Ok (set_recvBuffer c (skipn m (recvBuffer c)), w, RData m (firstn m (recvBuffer c))).
  Proof.
    intros H m. unfold Model.read, read_gen.
    destruct (recvBuffer c) eqn:E; [congruence|]. reflexivity.
  Qed.

  Lemma read_frame c ch rest b :
    recvBuffer c = [] -> okchunk ch ->
    let m := Nat.min b (length ch) in
    read c (seal (key c) (recvNonce c) (mk_frame ch) ++ rest) b
    = Ok (set_recvBuffer (set_recvNonce c (incr2_nonce (recvNonce c))) (skipn m ch), rest, RData m (firstn m ch)).
  Proof.
    intros Hb [H1 H2] m. unfold Model.read, read_gen. rewrite Hb. change (Nat.ltb 0 (@length N [])) with false. cbv iota.
    assert (L : length (seal (key c) (recvNonce c) (mk_frame ch)) = S_).
    { rewrite seal_len, mk_frame_length by lia. reflexivity. }
    assert (Hlt : Nat.ltb (length (seal (key c) (recvNonce c) (mk_frame ch) ++ rest)) S_ = false).
    { apply Nat.ltb_ge. rewrite app_length. lia. }
    rewrite Hlt.
    rewrite (firstn_app_exact' S_) by (symmetry; exact L).
    rewrite (skipn_app_exact' S_) by (symmetry; exact L).
    rewrite open_seal.
    unfold total_frame_size. rewrite fit_exact by (apply mk_frame_length; lia).
    unfold Model.mk_frame.
    destruct (be16_val (length ch)) as [hi [lo [E V]]]; [lia|].
    rewrite E. cbn [app]. rewrite V.
    assert (Hlt2 : Nat.ltb M (length ch) = false) by (apply Nat.ltb_ge; lia).
    rewrite Hlt2. rewrite firstn_app_exact. reflexivity.
  Qed.

  Lemma read_empty c b :
    recvBuffer c = [] -> read c [] b = Ok (c, [], RBlock).
  Proof.
    intros Hb. unfold Model.read, read_gen. rewrite Hb. change (Nat.ltb 0 (@length N [])) with false. cbv iota.
    assert (Hlt : Nat.ltb (@length N []) S_ = true) by (apply Nat.ltb_lt; unfold sealed_frame_size; cbn [length]; lia).
    rewrite Hlt. reflexivity.
  Qed.

  Lemma write_f_spec fuel : forall k n data, length data <= fuel ->
    exists cs, write_f M seal fuel k n data = Some (sealed_seq k n cs, nonce_after (length cs) n, length data)
               /\ concat cs = data /\ Forall okchunk cs.
  Proof.
    induction fuel as [|f IH]; intros k n data Hf.
    - destruct data; [|cbn in Hf; lia]. exists []. cbn. auto.
    - destruct data as [|x d]; [exists []; cbn; auto|].
      cbn [write_f].
      destruct (Nat.ltb M (length (x :: d))) eqn:B.
      + apply Nat.ltb_lt in B.
        destruct (IH k (incr2_nonce n) (skipn M (x :: d))) as [cs [E [C F]]].
        { rewrite skipn_length. cbn [length] in *. lia. }
        rewrite E. exists (firstn M (x :: d) :: cs). split; [|split].
        * assert (L : length (firstn M (x :: d)) + length (skipn M (x :: d)) = length (x :: d))
            by (rewrite firstn_length, skipn_length; lia).
          rewrite L. reflexivity.
        * cbn [concat]. rewrite C. apply firstn_skipn.
        * constructor; [|exact F]. unfold okchunk. rewrite firstn_length. lia.
      + apply Nat.ltb_ge in B.
        exists [x :: d]. split; [|split].
        * destruct f; cbn [write_f sealed_seq length nonce_after]; f_equal; f_equal; lia.
        * cbn. rewrite app_nil_r. reflexivity.
        * constructor; [|constructor]. unfold okchunk. cbn [length] in *. lia.
  Qed.

  (* ---- the invariant of one direction ---------------------------------------- *)
  (* [cs]: the chunks of the frames in flight *)
  Definition linked (l : link) (cs : list bytes) : Prop :=
    key (tx l) = key (rx l) /\
    wire l = concat (sealed_seq (key (rx l)) (recvNonce (rx l)) cs) /\
    sendNonce (tx l) = nonce_after (length cs) (recvNonce (rx l)) /\
    Forall okchunk cs.

  Definition in_flight (l : link) (cs : list bytes) : bytes := recvBuffer (rx l) ++ concat cs.

  Definition synced (l : link) : Prop :=
    key (tx l) = key (rx l) /\ sendNonce (tx l) = recvNonce (rx l) /\ wire l = [] /\ recvBuffer (rx l) = [].

  Lemma synced_linked l : synced l -> linked l [] /\ in_flight l [] = [].
  Proof.
    intros [K [N [W B]]]. unfold linked, in_flight. cbn. rewrite B. repeat split; auto.
  Qed.

  Definition is_tamper (o : op) : bool := match o with OTamper _ _ => true | _ => false end.

  (* what one step does, in full *)
  Definition step_post (l : link) (cs : list bytes) (o : op) (l' : link) (cs' : list bytes) (r : obs) : Prop :=
    linked l' cs' /\
    in_flight l cs ++ written_of o = delivered_of r ++ in_flight l' cs' /\
    match o, r with
    | OWrite d, WObs n w => n = length d /\ recvBuffer (rx l') = recvBuffer (rx l) /\ cs' <> cs ++ [[]]
    | ORead b, RObs (RData n d) =>
        n = length d /\ n <= b /\ in_flight l cs <> [] /\ (1 <= b -> 1 <= n)
    | ORead b, RObs RBlock => in_flight l cs = [] /\ l' = l
    | _, _ => False
    end.

  Lemma concat_nonempty_ok cs : Forall okchunk cs -> cs <> [] -> concat cs <> [].
  Proof.
    intros F H. destruct cs as [|c r]; [congruence|]. inversion F as [|? ? [H1 _] _]; subst.
    destruct c; cbn in *; [lia|discriminate].
  Qed.

  Lemma step_linked l cs o :
    linked l cs -> is_tamper o = false ->
    exists l' cs' r, step l o = Ok (l', r) /\ step_post l cs o l' cs' r.
  Proof.
    intros [K [W [N F]]] T. destruct o as [data|b|off mask]; [| |discriminate].
    - (* write *)
      unfold Model.step, step_gen, Model.write.
      destruct (write_f_spec (length data) (key (tx l)) (sendNonce (tx l)) data (le_n _)) as [ds [E [C FD]]].
      rewrite E. eexists; exists (cs ++ ds); eexists; split; [reflexivity|].
      unfold step_post, linked, in_flight. cbn [tx rx wire key recvNonce sendNonce recvBuffer set_sendNonce written_of delivered_of app].
      repeat split.
      + exact K.
      + rewrite W, sealed_seq_app, concat_app. rewrite <- N, K. reflexivity.
      + rewrite N, app_length, nonce_after_add. reflexivity.
      + apply Forall_app; split; assumption.
      + rewrite concat_app, C. rewrite app_assoc. reflexivity.
      + intros Hc. apply app_inv_head in Hc. subst ds. inversion FD as [|? ? [H1 _] _]; subst. cbn in H1. lia.
    - (* read *)
      unfold Model.step, step_gen.
      destruct (recvBuffer (rx l)) as [|x bf] eqn:B.
      + destruct cs as [|c cs'].
        * cbn in W. rewrite W. fold (Model.read M OV open). rewrite read_empty by exact B.
          eexists; exists []; eexists; split; [reflexivity|].
          unfold step_post, linked, in_flight. cbn [tx rx wire]. rewrite B. cbn.
          repeat split; auto. destruct l; cbn in *; subst; reflexivity.
        * inversion F as [|? ? Hc F']; subst.
          cbn [sealed_seq concat] in W. rewrite W. fold (Model.read M OV open).
          rewrite read_frame by assumption.
          eexists; exists cs'; eexists; split; [reflexivity|].
          unfold step_post, linked, in_flight.
          cbn [tx rx wire key recvNonce sendNonce recvBuffer set_recvBuffer set_recvNonce written_of delivered_of delivered].
          rewrite B. destruct Hc as [H1 H2].
          repeat split; auto.
          -- rewrite firstn_firstn, Nat.min_id, app_nil_r. cbn [concat app].
             rewrite app_assoc, firstn_skipn. reflexivity.
          -- rewrite firstn_length. lia.
          -- lia.
          -- cbn. destruct c; cbn in *; [lia|discriminate].
          -- lia.
      + fold (Model.read M OV open). rewrite read_buffered by (rewrite B; discriminate).
        rewrite B.
        eexists; exists cs; eexists; split; [reflexivity|].
        unfold step_post, linked, in_flight.
        cbn [tx rx wire key recvNonce sendNonce recvBuffer set_recvBuffer written_of delivered_of delivered].
        rewrite B.
        repeat split; auto.
        * rewrite firstn_firstn, Nat.min_id, app_nil_r.
          rewrite app_assoc, firstn_skipn. reflexivity.
        * rewrite firstn_length. lia.
        * lia.
        * discriminate.
        * cbn [length]. lia.
  Qed.

  Definition good_obs (r : obs) : Prop :=
    match r with
    | WObs _ _ => True
    | RObs (RData n d) => n = length d
    | RObs RBlock => True
    | _ => False
    end.

  Lemma step_post_good l cs o l' cs' r : step_post l cs o l' cs' r -> good_obs r.
  Proof.
    intros [_ [_ H]]. destruct o, r as [? ?|[? ?| | |]|]; cbn in *; tauto.
  Qed.

  Lemma run_linked ops : forall l cs,
    linked l cs -> forallb (fun o => negb (is_tamper o)) ops = true ->
    exists l' cs' rs, run l ops = Ok (l', rs) /\ linked l' cs' /\
      in_flight l cs ++ written ops = delivered_all rs ++ in_flight l' cs' /\
      Forall good_obs rs /\ length rs = length ops.
  Proof.
    induction ops as [|o ops IH]; intros l cs L T.
    - exists l, cs, []. cbn. unfold written, delivered_all. cbn. rewrite app_nil_r. auto.
    - cbn in T. apply andb_prop in T. destruct T as [T1 T2]. apply negb_true_iff in T1.
      destruct (step_linked l cs o L T1) as [l1 [cs1 [r [E P]]]].
      pose proof (step_post_good _ _ _ _ _ _ P) as G.
      destruct P as [L1 [D _]].
      destruct (IH l1 cs1 L1 T2) as [l2 [cs2 [rs [E2 [L2 [D2 [G2 Len]]]]]]].
      exists l2, cs2, (r :: rs). unfold Model.run in *. cbn [run_gen].
      unfold Model.step in E. rewrite E, E2.
      split; [reflexivity|]. split; [exact L2|]. split; [|split; [constructor; assumption|cbn; lia]].
      unfold written, delivered_all in *. cbn [map concat].
      rewrite (app_assoc (in_flight l cs)), D, <- (app_assoc (delivered_of r)), D2.
      rewrite (app_assoc (delivered_of r)). reflexivity.
  Qed.

  (* ---- everything is delivered once enough reads were issued ------------------ *)
  Lemma run_reads_drain sizes : forall l cs,
    linked l cs -> Forall (fun b => 1 <= b) sizes -> length (in_flight l cs) <= length sizes ->
    exists l' rs, run l (map ORead sizes) = Ok (l', rs) /\ linked l' [] /\ in_flight l' [] = [] /\
      delivered_all rs = in_flight l cs.
  Proof.
    induction sizes as [|b sizes IH]; intros l cs L Fb Len.
    - cbn in Len. assert (E : in_flight l cs = []) by (destruct (in_flight l cs); cbn in *; [auto|lia]).
      destruct L as [K [W [N F]]].
      assert (cs = []).
      { destruct cs as [|c r]; [reflexivity|]. exfalso.
        apply (concat_nonempty_ok (c :: r) F); [discriminate|].
        unfold in_flight in E. apply app_eq_nil in E. tauto. }
      subst cs. exists l, []. cbn. unfold delivered_all. cbn. rewrite E.
      split; [reflexivity|]. split; [unfold linked; auto|]. split; reflexivity.
    - inversion Fb as [|? ? Hb Fb']; subst.
      destruct (step_linked l cs (ORead b) L eq_refl) as [l1 [cs1 [r [E P]]]].
      destruct P as [L1 [D P]]. cbn [written_of] in D. rewrite app_nil_r in D.
      assert (Len1 : length (in_flight l1 cs1) <= length sizes).
      { destruct r as [? ?|[n d| | |]|]; cbn in P; try tauto.
        - destruct P as [Hn [_ [_ Hp]]]. specialize (Hp Hb).
          rewrite D in Len. cbn [delivered_of delivered] in Len. rewrite app_length, firstn_length in Len.
          cbn [length] in Len. lia.
        - destruct P as [E0 ->]. rewrite D in E0. cbn in E0. rewrite E0. cbn. lia. }
      destruct (IH l1 cs1 L1 Fb' Len1) as [l2 [rs [E2 [L2 [I2 D2]]]]].
      exists l2, (r :: rs). unfold Model.run in *. cbn [map run_gen].
      unfold Model.step in E. rewrite E, E2.
      split; [reflexivity|]. split; [exact L2|]. split; [exact I2|].
      unfold delivered_all in *. cbn [map concat]. rewrite D2, D. reflexivity.
  Qed.

  Lemma sealed_concat_length k n cs : Forall okchunk cs ->
    length (concat (sealed_seq k n cs)) = length cs * S_.
  Proof.
    revert n; induction cs as [|c cs IH]; intros n F; [reflexivity|].
    inversion F as [|? ? [H1 H2] F']; subst.
    cbn [sealed_seq concat length]. rewrite app_length, IH by assumption.
    rewrite seal_len, mk_frame_length by lia. unfold sealed_frame_size. lia.
  Qed.

  (* ---- tampering ----------------------------------------------------------------- *)
  Hypothesis open_auth : forall k n c m, open k n c = Some m -> c = seal k n m.

  Notation read_seq := (read_seq M OV open).

  Definition all_data (rs : list rres) : Prop :=
    Forall (fun r => exists n d, r = RData n d /\ n = length d) rs.
  Definition deliv (rs : list rres) : bytes := concat (map delivered rs).

  (* a read while honest frames (or buffered bytes) are ahead of an arbitrary tail *)
  Lemma read_ahead c pre tail b :
    Forall okchunk pre -> (recvBuffer c <> [] \/ pre <> []) ->
    exists c' pre' d,
      read c (concat (sealed_seq (key c) (recvNonce c) pre) ++ tail) b
      = Ok (c', concat (sealed_seq (key c') (recvNonce c') pre') ++ tail, RData (length d) d) /\
      key c' = key c /\
      nonce_after (length pre') (recvNonce c') = nonce_after (length pre) (recvNonce c) /\
      Forall okchunk pre' /\
      recvBuffer c ++ concat pre = d ++ recvBuffer c' ++ concat pre'.
  Proof.
    intros F H. destruct (recvBuffer c) as [|x bf] eqn:B.
    - destruct pre as [|ch pre']; [destruct H; congruence|].
      inversion F as [|? ? Hc F']; subst.
      cbn [sealed_seq concat]. rewrite <- app_assoc.
      rewrite read_frame by assumption.
      exists (set_recvBuffer (set_recvNonce c (incr2_nonce (recvNonce c))) (skipn (Nat.min b (length ch)) ch)),
             pre', (firstn (Nat.min b (length ch)) ch).
      assert (Hm : length (firstn (Nat.min b (length ch)) ch) = Nat.min b (length ch))
        by (rewrite firstn_length; lia).
      rewrite Hm.
      split; [reflexivity|]. cbn [key recvNonce recvBuffer set_recvBuffer set_recvNonce].
      repeat split; auto. cbn [concat app]. rewrite app_assoc, firstn_skipn. reflexivity.
    - rewrite read_buffered by (rewrite B; discriminate). rewrite B.
      exists (set_recvBuffer c (skipn (Nat.min b (length (x :: bf))) (x :: bf))),
             pre, (firstn (Nat.min b (length (x :: bf))) (x :: bf)).
      assert (Hm : length (firstn (Nat.min b (length (x :: bf))) (x :: bf)) = Nat.min b (length (x :: bf)))
        by (rewrite firstn_length; lia).
      rewrite Hm.
      split; [reflexivity|]. cbn [key recvNonce recvBuffer set_recvBuffer].
      repeat split; auto. rewrite app_assoc, firstn_skipn. reflexivity.
  Qed.

  Lemma tamper_reads sizes : forall c pre bad rest,
    Forall okchunk pre -> length bad = S_ ->
    (forall m, bad <> seal (key c) (nonce_after (length pre) (recvNonce c)) m) ->
    exists rs,
      read_seq c (concat (sealed_seq (key c) (recvNonce c) pre) ++ bad ++ rest) sizes = Ok rs /\
      ((all_data rs /\ exists more, recvBuffer c ++ concat pre = deliv rs ++ more) \/
       (exists rs0, rs = rs0 ++ [RErrDecrypt] /\ all_data rs0 /\ deliv rs0 = recvBuffer c ++ concat pre)).
  Proof.
    induction sizes as [|b sizes IH]; intros c pre bad rest F Lb Hbad.
    - exists []. split; [reflexivity|]. left. split; [constructor|]. eexists. reflexivity.
    - destruct (recvBuffer c) as [|x bf] eqn:B; [destruct pre as [|ch pre']|].
      + (* the corrupted frame is at the head *)
        cbn [sealed_seq concat app Model.read_seq].
        unfold Model.read, read_gen. rewrite B. change (Nat.ltb 0 (@length N [])) with false. cbv iota.
        assert (Hlt : Nat.ltb (length (bad ++ rest)) S_ = false) by (apply Nat.ltb_ge; rewrite app_length; lia).
        rewrite Hlt.
        rewrite (firstn_app_exact' S_) by (symmetry; exact Lb).
        destruct (open (key c) (recvNonce c) bad) as [m|] eqn:O.
        * exfalso. apply (Hbad m). cbn [length nonce_after]. apply open_auth. exact O.
        * exists [RErrDecrypt]. split; [reflexivity|]. right. exists []. split; [reflexivity|].
          split; [constructor|]. reflexivity.
      + destruct (read_ahead c (ch :: pre') (bad ++ rest) b F) as [c' [pre2 [d [E [K [Nn [F2 D]]]]]]].
        { right; discriminate. }
        cbn [Model.read_seq]. rewrite E.
        destruct (IH c' pre2 bad rest F2 Lb) as [rs [E2 R]].
        { intros m. rewrite K, Nn. apply Hbad. }
        rewrite E2. rewrite B in D.
        exists (RData (length d) d :: rs). split; [reflexivity|].
        destruct R as [[A [more Hm]]|[rs0 [-> [A Hd]]]].
        * left. split.
          -- constructor; [eauto|exact A].
          -- exists more. rewrite D. unfold deliv in *. cbn [map concat delivered].
             rewrite firstn_all, <- app_assoc, Hm. reflexivity.
        * right. exists (RData (length d) d :: rs0). split; [reflexivity|]. split.
          -- constructor; [eauto|exact A].
          -- rewrite D. unfold deliv in *. cbn [map concat delivered]. rewrite firstn_all, Hd. reflexivity.
      + destruct (read_ahead c pre (bad ++ rest) b F) as [c' [pre2 [d [E [K [Nn [F2 D]]]]]]].
        { left; rewrite B; discriminate. }
        cbn [Model.read_seq]. rewrite E.
        destruct (IH c' pre2 bad rest F2 Lb) as [rs [E2 R]].
        { intros m. rewrite K, Nn. apply Hbad. }
        rewrite E2.
        exists (RData (length d) d :: rs). split; [reflexivity|].
        rewrite <- B.
        destruct R as [[A [more Hm]]|[rs0 [-> [A Hd]]]].
        * left. split.
          -- constructor; [eauto|exact A].
          -- exists more. rewrite D. unfold deliv in *. cbn [map concat delivered].
             rewrite firstn_all, <- app_assoc, Hm. reflexivity.
        * right. exists (RData (length d) d :: rs0). split; [reflexivity|]. split.
          -- constructor; [eauto|exact A].
          -- rewrite D. unfold deliv in *. cbn [map concat delivered]. rewrite firstn_all, Hd. reflexivity.
  Qed.

  (* a sealed frame with one byte changed is not a sealed frame of anything, if
     no two sealings under one key and nonce differ in a single byte *)
  Hypothesis seal_dist : forall k n m m', ~ one_apart (seal k n m) (seal k n m').

  Lemma flipped_not_sealed k n m0 off mask :
    off < length (seal k n m0) -> mask <> 0%N ->
    forall m, xor_at off mask (seal k n m0) <> seal k n m.
  Proof.
    intros H Hm m E. apply (seal_dist k n m0 m). rewrite <- E. apply xor_at_one_apart; assumption.
  Qed.


  (* the property statement for one flipped byte anywhere in flight *)
  Lemma tamper_flip sizes c pre ch post off mask :
    Forall okchunk pre -> okchunk ch ->
    off < S_ -> mask <> 0%N ->
    let k := key c in
    let honest := concat (sealed_seq k (recvNonce c) (pre ++ ch :: post)) in
    exists rs,
      read_seq c (xor_at (length pre * S_ + off) mask honest) sizes = Ok rs /\
      ((all_data rs /\ exists more, recvBuffer c ++ concat pre = deliv rs ++ more) \/
       (exists rs0, rs = rs0 ++ [RErrDecrypt] /\ all_data rs0 /\ deliv rs0 = recvBuffer c ++ concat pre)).
  Proof.
    intros F Hc Hoff Hm k honest. subst honest k.
    rewrite sealed_seq_app, concat_app. cbn [sealed_seq concat].
    rewrite <- (sealed_concat_length (key c) (recvNonce c) pre F).
    rewrite xor_at_app_r.
    assert (L : length (seal (key c) (nonce_after (length pre) (recvNonce c)) (mk_frame ch)) = S_).
    { destruct Hc. rewrite seal_len, mk_frame_length by lia. reflexivity. }
    rewrite xor_at_app_l by lia.
    apply tamper_reads.
    - exact F.
    - rewrite xor_at_length. exact L.
    - apply flipped_not_sealed; [lia|exact Hm].
  Qed.
End Stream.

(* ============================================================================ *)
(* ---- handshake ------------------------------------------------------------------ *)
Lemma bytes_lt_total a : forall b, length a = length b -> a <> b -> bytes_lt a b = negb (bytes_lt b a).
Proof.
  induction a as [|x a IH]; intros [|y b] L Hne; cbn in *; try congruence; try lia.
  destruct (N.ltb x y) eqn:E1; destruct (N.ltb y x) eqn:E2; try reflexivity.
  - apply N.ltb_lt in E1, E2. lia.
  - apply N.ltb_ge in E1, E2. assert (x = y) by lia. subst y.
    apply IH; [lia|congruence].
Qed.

Section Handshake.
  Variable M OV : nat.
  Variable seal : bytes -> bytes -> bytes -> bytes.
  Variable open : bytes -> bytes -> bytes -> option bytes.
  Variable dh : bytes -> bytes -> bytes.
  Variable h24 h32 : bytes -> bytes.
  Variable sign : bytes -> bytes -> bytes.
  Variable verify : bytes -> bytes -> bytes -> bool.

  Notation handshake := (handshake M OV seal open dh h24 h32 sign verify).
  Notation read := (Model.read M OV open).

  Lemma read_key c w b c' w' r : read c w b = Ok (c', w', r) -> key c' = key c /\ sendNonce c' = sendNonce c.
  Proof.
    unfold Model.read, read_gen.
    destruct (Nat.ltb 0 (length (recvBuffer c))); [intros E; inversion E; subst; auto|].
    destruct (Nat.ltb (length w) (sealed_frame_size M OV)); [intros E; inversion E; subst; auto|].
    destruct (open (key c) (recvNonce c) (firstn (sealed_frame_size M OV) w)); [|intros E; inversion E; subst; auto].
    destruct (fit (total_frame_size M) b0) as [|hi [|lo body]]; try discriminate.
    destruct (Nat.ltb M (N.to_nat (hi * 256 + lo))); intros E; inversion E; subst; auto.
  Qed.

  Lemma read_full_key fuel : forall c w want acc c' w' buf,
    read_full M OV open fuel c w want acc = Ok (c', w', buf) -> key c' = key c /\ sendNonce c' = sendNonce c.
  Proof.
    induction fuel as [|f IH]; intros c w want acc c' w' buf E; destruct want; cbn in E;
      try (inversion E; subst; auto; fail); try discriminate.
    fold (Model.read M OV open) in E.
    destruct (read c w (S want)) as [[[c1 w1] [n d| | |]]| |] eqn:R; try discriminate.
    apply IH in E. apply read_key in R. destruct E, R. split; congruence.
  Qed.

  (* c32_auth: whatever the peer sends, a successful handshake stores exactly the key
     that came, through the secret channel, with a signature over the challenge of this
     very key exchange that verifies under it *)
  Lemma handshake_auth loc_pub loc_priv lep lepriv inw sc rest out lo hi :
    handshake loc_pub loc_priv lep lepriv inw = Ok (sc, rest, out) ->
    sort32 lep (fit 32 (firstn 32 inw)) = (lo, hi) ->
    exists buf sig,
      dec_auth auth_sig_msg_size buf = Some (remPub sc, sig) /\
      verify (remPub sc) (gen_challenge h32 lo hi) sig = true /\
      length (remPub sc) = 32 /\
      key sc = dh (fit 32 (firstn 32 inw)) lepriv.
  Proof.
    unfold Model.handshake. intros E S. rewrite S in E.
    destruct (gen_nonces h24 lo hi (bytes_lt lep (fit 32 (firstn 32 inw)))) as [rn sn].
    unfold Model.write in E.
    destruct (write_f M seal _ _ _ _) as [[[fs n'] cnt]|]; [|discriminate].
    destruct (read_full M OV open _ _ _ _ _) as [[[sc2 inw2] buf]| |] eqn:RF; try discriminate.
    destruct (dec_auth auth_sig_msg_size buf) as [[rp rs]|] eqn:D; [|discriminate].
    destruct (negb (Nat.eqb (length rp) 32)) eqn:L; [discriminate|].
    destruct (verify rp (gen_challenge h32 lo hi) rs) eqn:V; [|discriminate].
    inversion E; subst. cbn [remPub set_remPub key].
    exists buf, rs. repeat split; auto.
    - apply negb_false_iff, Nat.eqb_eq in L. exact L.
    - apply read_full_key in RF. destruct RF as [K _]. rewrite K. reflexivity.
  Qed.

  (* both ends derive the same ordered pair, hence the same challenge and base nonce,
     and crossed nonces whose sequences never meet *)
  Lemma handshake_nonces a b :
    length a = length b -> a <> b ->
    sort32 a b = sort32 b a /\
    forall lo hi, sort32 a b = (lo, hi) ->
      let A := gen_nonces h24 lo hi (bytes_lt a b) in
      let B := gen_nonces h24 lo hi (bytes_lt b a) in
      fst A = snd B /\ snd A = fst B /\
      forall i j, nonce_after i (snd A) <> nonce_after j (snd B).
  Proof.
    intros L Hne. pose proof (bytes_lt_total a b L Hne) as T.
    split.
    - unfold sort32. rewrite T. destruct (bytes_lt b a); reflexivity.
    - intros lo hi _. cbn zeta. unfold gen_nonces. rewrite T.
      assert (Hn : hash24 h24 (lo ++ hi) <> []).
      { intros E. apply (f_equal (@length N)) in E. unfold hash24 in E. rewrite fit_length in E. discriminate. }
      destruct (bytes_lt b a); cbn [negb fst snd]; repeat split; auto;
        intros i j; apply nonce_sequences_disjoint; rewrite flip_last_last_odd by exact Hn;
        destruct (last_odd (hash24 h24 (lo ++ hi))); discriminate.
  Qed.
End Handshake.
