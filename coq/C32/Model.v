(* C32 — executable model of /repo/p2p/connection/secret_connection.go
   (Write, Read, incrNonce/incr2Nonce, sort32, genNonces, genChallenge,
   shareEphPubKey, shareAuthSignature, MakeSecretConnection).  NO PROOFS HERE.

   Bytes are [N] values below 256.  The frame geometry is a parameter of the
   model: [M] = dataMaxSize (1024 in the code), [OV] = secretbox.Overhead (16),
   so totalFrameSize = M + 2 and sealedFrameSize = M + 2 + OV.  The theorems are
   proved for every geometry with 1 <= M < 65536 and then instantiated.

   Cryptography is a set of Section variables: [seal]/[open] (secretbox with
   the precomputed shared key), [dh] (box.Precompute of the remote ephemeral
   public key and the local ephemeral private key), [h24] (RIPEMD-160),
   [h32] (SHA-256), [sign]/[verify] (Ed25519 on chainkd keys).

   The connection under the secret connection is a reliable byte queue
   ([wire]): Write appends sealed frames, Read takes sealedFrameSize bytes from
   its head (io.ReadFull) and reports [RBlock] when fewer are available (the
   real call would wait, or return EOF on a closed connection).

   [read_gen fixed]: fixed = true is the code with the one-token repair of the
   buffered branch of Read (n_ -> n); fixed = false is the pinned code, where
   that branch copies the bytes but reports n = 0. *)
From Coq Require Import List ZArith NArith Arith Bool.
From Verif Require Import Outcome Cmp.
Import ListNotations.

(* ---- nonces: 24 bytes, big-endian increment with wrap-around -------------- *)
(* incrNonce walks from the last byte: nonce[i]++; stop unless it became 0 *)
Fixpoint incr_le (l : bytes) : bytes :=      (* on the reversed nonce *)
  match l with
  | [] => []
  | b :: r =>
    let b' := N.modulo (b + 1) 256 in
    if N.eqb b' 0 then 0%N :: incr_le r else b' :: r
  end.
Definition incr_nonce (n : bytes) : bytes := rev (incr_le (rev n)).
Definition incr2_nonce (n : bytes) : bytes := incr_nonce (incr_nonce n).

(* a fixed-size Go array filled by copy(): truncated or zero-padded *)
Definition fit (k : nat) (l : bytes) : bytes := firstn k (l ++ repeat 0%N k).

(* nonce2[len-1] ^= 0x01 *)
Fixpoint flip_last (l : bytes) : bytes :=
  match l with
  | [] => []
  | [b] => [N.lxor b 1]
  | b :: r => b :: flip_last r
  end.

(* bytes.Compare(a, b) < 0 *)
Fixpoint bytes_lt (a b : bytes) : bool :=
  match a, b with
  | [], [] => false
  | [], _ :: _ => true
  | _ :: _, [] => false
  | x :: a', y :: b' => if N.ltb x y then true else if N.ltb y x then false else bytes_lt a' b'
  end.

Inductive rres :=
| RData (n : nat) (copied : bytes)   (* err == nil: n and the bytes copied into the caller's buffer *)
| RBlock                             (* fewer than sealedFrameSize bytes available: ReadFull waits / EOF *)
| RErrDecrypt                        (* secretbox.Open failed *)
| RErrTooLong.                       (* chunkLength > dataMaxSize *)

Record conn := mkConn {
  recvBuffer : bytes;
  recvNonce : bytes;
  sendNonce : bytes;
  key : bytes;          (* shrSecret *)
  remPub : bytes        (* remPubKey *)
}.

Definition set_recvBuffer (c : conn) (b : bytes) : conn :=
  mkConn b (recvNonce c) (sendNonce c) (key c) (remPub c).
Definition set_recvNonce (c : conn) (n : bytes) : conn :=
  mkConn (recvBuffer c) n (sendNonce c) (key c) (remPub c).
Definition set_sendNonce (c : conn) (n : bytes) : conn :=
  mkConn (recvBuffer c) (recvNonce c) n (key c) (remPub c).
Definition set_remPub (c : conn) (p : bytes) : conn :=
  mkConn (recvBuffer c) (recvNonce c) (sendNonce c) (key c) p.

Inductive herr :=
| HRead            (* the read task of shareAuthSignature failed (EOF, decrypt, chunk length) *)
| HDecode          (* wire.ReadBinary reported an error *)
| HKeyLen          (* remote public key of the wrong length (repaired code: an error; the pinned code let ed25519.Verify panic) *)
| HVerify          (* "Challenge verification failed" *)
| HOutOfFuel.      (* model artefact; unreachable with the fuel the entry points pass *)

Section Model.
  Variable M : nat.      (* dataMaxSize *)
  Variable OV : nat.     (* secretbox.Overhead *)
  Variable seal : bytes -> bytes -> bytes -> bytes.          (* key nonce plaintext *)
  Variable open : bytes -> bytes -> bytes -> option bytes.   (* key nonce box *)

  Definition total_frame_size : nat := M + 2.
  Definition sealed_frame_size : nat := M + 2 + OV.

  (* binary.BigEndian.PutUint16(frame, uint16(len(chunk))) *)
  Definition be16 (len : nat) : bytes :=
    let x := N.modulo (N.of_nat len) 65536 in [N.div x 256; N.modulo x 256].

  (* frame := make([]byte, totalFrameSize); length; copy(frame[2:], chunk) *)
  Definition mk_frame (chunk : bytes) : bytes :=
    be16 (length chunk) ++ chunk ++ repeat 0%N (M - length chunk).

  (* ---- Write: the list of sealed frames put on the wire, the nonce after, n *)
  Fixpoint write_f (fuel : nat) (k nonce data : bytes) : option (list bytes * bytes * nat) :=
    match data with
    | [] => Some ([], nonce, 0)
    | _ :: _ =>
      match fuel with
      | O => None
      | S f =>
        let big := Nat.ltb M (length data) in
        let chunk := if big then firstn M data else data in
        let rest := if big then skipn M data else [] in
        let sealed := seal k nonce (mk_frame chunk) in
        match write_f f k (incr2_nonce nonce) rest with
        | None => None
        | Some (fs, nonce', n) => Some (sealed :: fs, nonce', length chunk + n)
        end
      end
    end.

  (* SecretConnection.Write on a connection that accepts every frame.
     Result: connection after, the bytes appended to the wire, n. *)
  Definition write (c : conn) (data : bytes) : option (conn * bytes * nat) :=
    match write_f (length data) (key c) (sendNonce c) data with
    | None => None
    | Some (fs, nonce', n) => Some (set_sendNonce c nonce', concat fs, n)
    end.

  (* ---- Read ------------------------------------------------------------------ *)
  Definition read_gen (fixed : bool) (c : conn) (wire : bytes) (buflen : nat)
    : outcome herr (conn * bytes * rres) :=
    if Nat.ltb 0 (length (recvBuffer c)) then
      let n_ := Nat.min buflen (length (recvBuffer c)) in
      Ok (set_recvBuffer c (skipn n_ (recvBuffer c)), wire,
          RData (if fixed then n_ else 0) (firstn n_ (recvBuffer c)))
    else if Nat.ltb (length wire) sealed_frame_size then
      Ok (c, wire, RBlock)
    else
      let sealed := firstn sealed_frame_size wire in
      let wire' := skipn sealed_frame_size wire in
      match open (key c) (recvNonce c) sealed with
      | None => Ok (c, wire', RErrDecrypt)
      | Some opened =>
        let c1 := set_recvNonce c (incr2_nonce (recvNonce c)) in
        match fit total_frame_size opened with
        | hi :: lo :: body =>
          let chunk_length := N.to_nat (hi * 256 + lo) in
          if Nat.ltb M chunk_length then Ok (c1, wire', RErrTooLong)
          else
            let chunk := firstn chunk_length body in
            let n := Nat.min buflen (length chunk) in
            Ok (set_recvBuffer c1 (skipn n chunk), wire', RData n (firstn n chunk))
        | _ => Panic IndexOOR
        end
      end.

  Definition read := read_gen true.

  (* what the caller gets: data[:n] *)
  Definition delivered (r : rres) : bytes :=
    match r with RData n d => firstn n d | _ => [] end.

  (* ---- one direction of an established connection ---------------------------- *)
  Record link := mkLink { tx : conn; wire : bytes; rx : conn }.

  Inductive op :=
  | OWrite (data : bytes)
  | ORead (buflen : nat)
  | OTamper (off : nat) (mask : N).   (* the network xors one byte of the queue *)

  Inductive obs :=
  | WObs (n : nat) (wirelen : nat)
  | RObs (r : rres)
  | TObs.

  Fixpoint xor_at (off : nat) (mask : N) (l : bytes) : bytes :=
    match l with
    | [] => []
    | b :: r => match off with O => N.lxor b mask :: r | S o => b :: xor_at o mask r end
    end.

  Definition step_gen (fixed : bool) (l : link) (o : op) : outcome herr (link * obs) :=
    match o with
    | OWrite data =>
      match write (tx l) data with
      | None => Err HOutOfFuel
      | Some (c', w, n) => Ok (mkLink c' (wire l ++ w) (rx l), WObs n (length w))
      end
    | ORead buflen =>
      match read_gen fixed (rx l) (wire l) buflen with
      | Ok (c', w', r) => Ok (mkLink (tx l) w' c', RObs r)
      | Err e => Err e
      | Panic p => Panic p
      end
    | OTamper off mask => Ok (mkLink (tx l) (xor_at off mask (wire l)) (rx l), TObs)
    end.

  Fixpoint run_gen (fixed : bool) (l : link) (ops : list op) : outcome herr (link * list obs) :=
    match ops with
    | [] => Ok (l, [])
    | o :: ops' =>
      match step_gen fixed l o with
      | Ok (l', r) =>
        match run_gen fixed l' ops' with
        | Ok (l'', rs) => Ok (l'', r :: rs)
        | Err e => Err e
        | Panic p => Panic p
        end
      | Err e => Err e
      | Panic p => Panic p
      end
    end.

  (* a caller that reads with the given buffer sizes and stops at the first error *)
  Fixpoint read_seq (c : conn) (w : bytes) (sizes : list nat) : outcome herr (list rres) :=
    match sizes with
    | [] => Ok []
    | b :: r =>
      match read c w b with
      | Ok (c', w', RData n d) =>
        match read_seq c' w' r with Ok rs => Ok (RData n d :: rs) | x => x end
      | Ok (c', w', RBlock) =>
        match read_seq c' w' r with Ok rs => Ok (RBlock :: rs) | x => x end
      | Ok (_, _, e) => Ok [e]
      | Err e => Err e
      | Panic p => Panic p
      end
    end.

  Definition step := step_gen true.
  Definition run := run_gen true.

  Definition written_of (o : op) : bytes := match o with OWrite d => d | _ => [] end.
  Definition delivered_of (r : obs) : bytes := match r with RObs r => delivered r | _ => [] end.
  Definition written (ops : list op) : bytes := concat (map written_of ops).
  Definition delivered_all (rs : list obs) : bytes := concat (map delivered_of rs).

  (* ---- handshake -------------------------------------------------------------- *)
  Variable dh : bytes -> bytes -> bytes.        (* remote eph. public, local eph. private *)
  Variable h24 : bytes -> bytes.                (* RIPEMD-160 *)
  Variable h32 : bytes -> bytes.                (* SHA-256 *)
  Variable sign : bytes -> bytes -> bytes.      (* private key, message *)
  Variable verify : bytes -> bytes -> bytes -> bool.   (* public key, message, signature *)

  Definition sort32 (foo bar : bytes) : bytes * bytes :=
    if bytes_lt foo bar then (foo, bar) else (bar, foo).

  (* hash24: 20 bytes of RIPEMD-160 copied into a zeroed [24]byte *)
  Definition hash24 (x : bytes) : bytes := fit 24 (h24 x).
  Definition hash32 (x : bytes) : bytes := fit 32 (h32 x).

  (* genNonces: (recvNonce, sendNonce) *)
  Definition gen_nonces (lo hi : bytes) (loc_is_lo : bool) : bytes * bytes :=
    let nonce1 := hash24 (lo ++ hi) in
    let nonce2 := flip_last nonce1 in
    if loc_is_lo then (nonce1, nonce2) else (nonce2, nonce1).

  Definition gen_challenge (lo hi : bytes) : bytes := hash32 (lo ++ hi).

  (* go-wire (amino 0.6.2) WriteVarint for a length, WriteByteSlice *)
  Fixpoint be_n (k : nat) (x : N) (acc : bytes) : bytes :=
    match k with
    | O => acc
    | S k' => be_n k' (N.div x 256) (N.modulo x 256 :: acc)
    end.
  Definition uvarint_size (x : N) : nat :=
    if N.eqb x 0 then 0 else S (N.to_nat (N.div (N.log2 x) 8)).
  Definition enc_varint (x : N) : bytes :=
    let s := uvarint_size x in N.of_nat s :: be_n s x [].
  Definition enc_byteslice (b : bytes) : bytes := enc_varint (N.of_nat (length b)) ++ b.
  (* wire.BinaryBytes(authSigMessage{pubKey, signature}) *)
  Definition enc_auth (pub sig : bytes) : bytes := enc_byteslice pub ++ enc_byteslice sig.

  (* ReadVarint: Some (value, rest, bytes consumed); None = *err set *)
  Fixpoint be_val (l : bytes) (acc : N) : N :=
    match l with [] => acc | b :: r => be_val r (acc * 256 + b) end.
  Definition dec_varint (buf : bytes) : option (Z * bytes * nat) :=
    match buf with
    | [] => None
    | s0 :: r =>
      let negate := N.eqb (N.shiftr s0 4) 15 in
      let s := if negate then N.land s0 15 else s0 in
      if N.ltb 8 s then None
      else if N.eqb s 0 then (if negate then None else Some (0%Z, r, 1))
      else
        let k := N.to_nat s in
        if Nat.ltb (length r) k then None
        else
          let v := be_val (firstn k r) 0 in
          let i := if N.leb 9223372036854775808 v then (Z.of_N v - 18446744073709551616)%Z else Z.of_N v in
          Some (if negate then Z.opp i else i, skipn k r, S k)
    end.
  (* ReadByteSlice with limit lmt and *n = n0 bytes read so far *)
  Definition dec_byteslice (lmt : nat) (n0 : nat) (buf : bytes) : option (bytes * bytes * nat) :=
    match dec_varint buf with
    | None => None
    | Some (len, r, used) =>
      if Z.ltb len 0 then None
      else
        let n1 := n0 + used in
        if Z.ltb (Z.of_nat lmt) (Z.max len (Z.of_nat n1 + len)) then None
        else
          let k := Z.to_nat len in
          if Nat.ltb (length r) k then None
          else Some (firstn k r, skipn k r, n1 + k)
    end.
  (* wire.ReadBinary(authSigMessage{}, bytes.NewBuffer(buf), lmt, &n, &err) *)
  Definition dec_auth (lmt : nat) (buf : bytes) : option (bytes * bytes) :=
    match dec_byteslice lmt 0 buf with
    | None => None
    | Some (k, r, n1) =>
      match dec_byteslice lmt n1 r with
      | None => None
      | Some (s, _, _) => Some (k, s)
      end
    end.

  Definition auth_sig_msg_size : nat := 100.

  (* io.ReadFull(sc, buf[want]) through SecretConnection.Read *)
  Fixpoint read_full (fuel : nat) (c : conn) (w : bytes) (want : nat) (acc : bytes)
    : outcome herr (conn * bytes * bytes) :=
    match want with
    | O => Ok (c, w, acc)
    | S _ =>
      match fuel with
      | O => Err HOutOfFuel
      | S f =>
        match read c w want with
        | Ok (c', w', RData n d) => read_full f c' w' (want - n) (acc ++ firstn n d)
        | Ok (_, _, _) => Err HRead
        | Err e => Err e
        | Panic p => Panic p
        end
      end
    end.

  (* MakeSecretConnection(conn, locPrivKey) with the ephemeral key pair drawn
     by genEphKeys as an input; [inw] = the bytes the peer sends (then EOF).
     Result: the connection, the unread rest of [inw], the bytes sent. *)
  Definition handshake (loc_pub loc_priv loc_eph_pub loc_eph_priv : bytes) (inw : bytes)
    : outcome herr (conn * bytes * bytes) :=
    (* shareEphPubKey: errors are dropped; a short read leaves zeros *)
    let rem_eph_pub := fit 32 (firstn 32 inw) in
    let inw1 := skipn 32 inw in
    let shr := dh rem_eph_pub loc_eph_priv in
    let (lo, hi) := sort32 loc_eph_pub rem_eph_pub in
    let loc_is_lo := bytes_lt loc_eph_pub rem_eph_pub in     (* locEphPub == loEphPub (pointers) *)
    let (rn, sn) := gen_nonces lo hi loc_is_lo in
    let challenge := gen_challenge lo hi in
    let sc := mkConn [] rn sn shr [] in
    let loc_sig := sign loc_priv challenge in
    match write sc (enc_auth loc_pub loc_sig) with
    | None => Err HOutOfFuel
    | Some (sc1, out, _) =>
      match read_full (S (length inw1 + auth_sig_msg_size)) sc1 inw1 auth_sig_msg_size [] with
      | Ok (sc2, inw2, buf) =>
        match dec_auth auth_sig_msg_size buf with
        | None => Err HDecode
        | Some (rem_pub, rem_sig) =>
          if negb (Nat.eqb (length rem_pub) 32) then Err HKeyLen   (* len(remPubKey) != ed25519.PublicKeySize *)
          else if verify rem_pub challenge rem_sig then Ok (set_remPub sc2 rem_pub, inw2, loc_eph_pub ++ out)
          else Err HVerify
        end
      | Err e => Err e
      | Panic p => Panic p
      end
    end.
End Model.
