(* Outcome of a modelled Go computation: a value, an error class, or a panic.
   [Panic] is produced exactly where the Go code would panic. *)
From Coq Require Import List ZArith.
Import ListNotations.

Inductive panicclass := DivZero | IndexOOR | NilDeref | ExplicitPanic | NilMapWrite.

Inductive outcome (E A : Type) :=
| Ok (a : A)
| Err (e : E)
| Panic (p : panicclass).
Arguments Ok {E A} a.
Arguments Err {E A} e.
Arguments Panic {E A} p.

Definition obind {E A B} (x : outcome E A) (f : A -> outcome E B) : outcome E B :=
  match x with
  | Ok a => f a
  | Err e => Err e
  | Panic p => Panic p
  end.

Definition is_panic {E A} (x : outcome E A) : bool :=
  match x with Panic _ => true | _ => false end.
Definition is_ok {E A} (x : outcome E A) : bool :=
  match x with Ok _ => true | _ => false end.

Declare Scope outcome_scope.
Notation "'do' x <- a ; b" := (obind a (fun x => b))
  (at level 200, x pattern, a at level 100, b at level 200) : outcome_scope.
