(* Running the VM model on harness cases: table-backed crypto oracles, a
   deterministic CheckOutput callback mirrored in harness/vmlib, traces. *)
From Coq Require Import List ZArith NArith Bool.
From Verif Require Import Cmp Sha3 VM.
Import ListNotations.
Open Scope Z_scope.

Definition tab := list (item * item).
Fixpoint tab_lookup (t : tab) (k : item) : item :=
  match t with
  | [] => []
  | (a, b) :: r => if bytes_eqb a k then b else tab_lookup r k
  end.
(* valid (pubkey, msg, sig) triples; everything else does not verify *)
Definition sigtab := list (item * item * item).
Fixpoint sig_lookup (t : sigtab) (pk msg sg : item) : bool :=
  match t with
  | [] => false
  | (a, b, c) :: r => (bytes_eqb a pk && bytes_eqb b msg && bytes_eqb c sg) || sig_lookup r pk msg sg
  end.

Definition mk_crypto (sha256t ripemdt : tab) (sigs : sigtab) : crypto :=
  {| h_sha256 := tab_lookup sha256t; h_sha3 := sha3_256;
     h_ripemd160 := tab_lookup ripemdt; sig_verify := sig_lookup sigs |}.

(* the harness's CheckOutput stand-in (harness/vmlib: testCheckOutput) *)
Definition test_checkoutput (idx amt : N) (asset : item) (vmv : N) (code : item)
  (alt : list item) (expansion : bool) : vmerr + bool :=
  if (5 <? idx)%N then inl ECallback
  else inr ((amt mod 2 =? 0)%N && (length asset =? 32)%nat && (vmv =? 1)%N
            && Nat.even (length code + length alt) && negb expansion).

Definition mk_context (code entryid : item) (txv bh : option N) (asset : option item)
  (amount destpos : option N) (spent sighash : option item) (hasco : bool) : context :=
  {| cx_vmversion := 1; cx_code := code; cx_entryid := entryid; cx_txversion := txv;
     cx_blockheight := bh; cx_assetid := asset; cx_amount := amount; cx_destpos := destpos;
     cx_spentoutputid := spent; cx_txsighash := sighash;
     cx_checkoutput := if hasco then Some test_checkoutput else None |}.

Section Trace.
  Variable cr : crypto.
  Variable cx : context.
  (* top-level run recording (pc, run limit) before every step *)
  Fixpoint run_tr (fuel : nat) (s : vmst) (acc : list (N * Z)) : res unit * list (N * Z) :=
    match fuel with
    | O => (RErr EOutOfFuel s, rev acc)
    | S f =>
        if (pc s <? N.of_nat (length (prog s)))%N then
          match step cr cx (fun c => match run cr cx f c with
                                     | ROk _ cs => (true, cs)
                                     | RErr _ cs => (false, cs)
                                     end) s with
          | RErr e s' =>
              (* the Go trace line is printed after ParseOp succeeded *)
              (RErr e s', match parse_op (prog s) (pc s) with
                          | inl _ => rev acc
                          | inr _ => rev ((pc s, runlimit s) :: acc)
                          end)
          | ROk _ s' => run_tr f s' ((pc s, runlimit s) :: acc)
          end
        else (ROk tt s, rev acc)
    end.
End Trace.

(* observed / computed record for one case *)
Record vmobs := {
  o_gas : Z;
  o_err : option vmerr;
  o_stack : option (list item);      (* final data stack, bottom first, on success or VM-level failure after a run *)
  o_trace : list (N * Z);            (* first 64 top-level steps: (pc, run limit before the step) *)
  o_steps : N                        (* number of top-level steps *)
}.

Definition vmobs_eqb (a b : vmobs) : bool :=
  Z.eqb (o_gas a) (o_gas b) && option_eqb vmerr_eqb (o_err a) (o_err b)
  && option_eqb (list_eqb bytes_eqb) (o_stack a) (o_stack b)
  && list_eqb (pair_eqb N.eqb Z.eqb) (o_trace a) (o_trace b) && N.eqb (o_steps a) (o_steps b).

Definition vm_case (cr : crypto) (cx : context) (vmversion : N) (statedata args : list item) (gas : Z) : vmobs :=
  let cx := {| cx_vmversion := vmversion; cx_code := cx_code cx; cx_entryid := cx_entryid cx;
               cx_txversion := cx_txversion cx; cx_blockheight := cx_blockheight cx;
               cx_assetid := cx_assetid cx; cx_amount := cx_amount cx; cx_destpos := cx_destpos cx;
               cx_spentoutputid := cx_spentoutputid cx; cx_txsighash := cx_txsighash cx;
               cx_checkoutput := cx_checkoutput cx |} in
  if negb (vmversion =? 1)%N then {| o_gas := gas; o_err := Some EUnsupportedVM; o_stack := None; o_trace := []; o_steps := 0%N |}
  else
    let s0 := {| prog := cx_code cx; pc := 0; nextpc := 0; runlimit := gas; deferred := 0;
                 expres := match cx_txversion cx with Some 1%N => true | _ => false end;
                 vdata := []; dstack := []; astack := [] |} in
    match (push_all push_alt statedata ;;; push_all push args) s0 with
    | RErr e s => {| o_gas := runlimit s; o_err := Some e; o_stack := None; o_trace := []; o_steps := 0%N |}
    | ROk _ s1 =>
        (* fuel: every step lowers the potential (limit + stack costs) by >= 1 except CHECKMULTISIG with
           zero keys, which costs 0 but advances the pc (C07): 2*potential + program length is ample for
           the generated cases; the proved bound is C07.fuel_bound *)
        let fuel := Z.to_nat (2 * (runlimit s1 + stack_cost (dstack s1) + stack_cost (astack s1))
                              + Z.of_nat (length (prog s1)) + 16) in
        match run_tr cr cx fuel s1 [] with
        | (RErr e s, tr) =>
            (* EUnexpected arises only from a recovered panic: Verify's named result gasLeft is then 0 *)
            {| o_gas := match e with EUnexpected => 0 | _ => runlimit s end;
               o_err := Some e; o_stack := None; o_trace := firstn 64 tr; o_steps := N.of_nat (length tr) |}
        | (ROk _ s, tr) =>
            {| o_gas := runlimit s; o_err := if false_result s then Some EFalseVMResult else None;
               o_stack := Some (rev (dstack s)); o_trace := firstn 64 tr; o_steps := N.of_nat (length tr) |}
        end
    end.
