(* Fixed-width Go integer arithmetic written out explicitly over Z.
   Used by the generated model of math/checked (translator T1) and by the
   hand-written models that mirror uint64/int64 computations. *)
From Coq Require Import ZArith Bool Lia.
Open Scope Z_scope.

Inductive ity := I32 | I64 | U32 | U64.

Definition width (t : ity) : Z :=
  match t with I32 | U32 => 32 | I64 | U64 => 64 end.
Definition signed (t : ity) : bool :=
  match t with I32 | I64 => true | _ => false end.
Definition tmin (t : ity) : Z :=
  match t with I32 => - 2^31 | I64 => - 2^63 | U32 | U64 => 0 end.
Definition tmax (t : ity) : Z :=
  match t with I32 => 2^31 - 1 | I64 => 2^63 - 1 | U32 => 2^32 - 1 | U64 => 2^64 - 1 end.

Definition in_range (t : ity) (x : Z) : bool := (tmin t <=? x) && (x <=? tmax t).

(* two's complement wrap-around of an exact result to the type *)
Definition wrap (t : ity) (x : Z) : Z :=
  match t with
  | U32 => x mod 2^32
  | U64 => x mod 2^64
  | I32 => (x + 2^31) mod 2^32 - 2^31
  | I64 => (x + 2^63) mod 2^64 - 2^63
  end.

(* The value of a Go expression: None = run-time panic (division by zero). *)
Definition gadd t (a b : Z) : option Z := Some (wrap t (a + b)).
Definition gsub t (a b : Z) : option Z := Some (wrap t (a - b)).
Definition gmul t (a b : Z) : option Z := Some (wrap t (a * b)).
Definition gneg t (a : Z) : option Z := Some (wrap t (- a)).
Definition gdiv t (a b : Z) : option Z :=
  if b =? 0 then None else Some (wrap t (Z.quot a b)).
Definition gmod t (a b : Z) : option Z :=
  if b =? 0 then None else Some (wrap t (Z.rem a b)).
(* shift counts are unsigned in the source (uint(b)); a count >= width gives 0
   for <<, and the sign fill for >> : both fall out of the formulas. *)
Definition gshl t (a n : Z) : option Z := Some (wrap t (a * 2 ^ n)).
Definition gshr (t : ity) (a n : Z) : option Z := Some (a / 2 ^ n).
(* conversion to the platform uint (64 bit) *)
Definition gtouint (a : Z) : option Z := Some (a mod 2^64).

Definition obind2 (x y : option Z) (f : Z -> Z -> option Z) : option Z :=
  match x with
  | None => None
  | Some a => match y with None => None | Some b => f a b end
  end.
Definition obind1 (x : option Z) (f : Z -> option Z) : option Z :=
  match x with None => None | Some a => f a end.

Definition ocmp (c : Z -> Z -> bool) (x y : option Z) : option bool :=
  match x with
  | None => None
  | Some a => match y with None => None | Some b => Some (c a b) end
  end.
(* short-circuit connectives and [if] are emitted by the translator as native
   [match]es, so that the right operand / the untaken branch is not evaluated
   (this matters under vm_compute: [2 ^ b] for a rejected shift count b). *)
Definition cres := option (Z * bool).
Definition oret (v : option Z) (ok : bool) : cres :=
  match v with None => None | Some z => Some (z, ok) end.

Lemma in_range_wrap t x : in_range t x = true -> wrap t x = x.
Proof.
  unfold in_range, wrap, tmin, tmax; destruct t; intros H;
    apply andb_prop in H; destruct H as [H1 H2];
    apply Z.leb_le in H1; apply Z.leb_le in H2.
  - replace ((x + 2^31) mod 2^32) with (x + 2^31); [lia|].
    symmetry; apply Z.mod_small; lia.
  - replace ((x + 2^63) mod 2^64) with (x + 2^63); [lia|].
    symmetry; apply Z.mod_small; lia.
  - apply Z.mod_small; lia.
  - apply Z.mod_small; lia.
Qed.

Lemma wrap_in_range t x : in_range t (wrap t x) = true.
Proof.
  unfold in_range, wrap, tmin, tmax; destruct t; apply andb_true_intro; split;
    apply Z.leb_le.
  all: try (pose proof (Z.mod_pos_bound (x + 2^31) (2^32) ltac:(lia)); lia).
  all: try (pose proof (Z.mod_pos_bound (x + 2^63) (2^64) ltac:(lia)); lia).
  all: try (pose proof (Z.mod_pos_bound x (2^32) ltac:(lia)); lia).
  all: try (pose proof (Z.mod_pos_bound x (2^64) ltac:(lia)); lia).
Qed.
