(* Boolean equalities used to compare model results with observed values. *)
From Coq Require Import List ZArith NArith Bool.
Import ListNotations.

Fixpoint list_eqb {A} (eqb : A -> A -> bool) (l1 l2 : list A) : bool :=
  match l1, l2 with
  | [], [] => true
  | x :: l1', y :: l2' => eqb x y && list_eqb eqb l1' l2'
  | _, _ => false
  end.

Definition option_eqb {A} (eqb : A -> A -> bool) (x y : option A) : bool :=
  match x, y with
  | Some a, Some b => eqb a b
  | None, None => true
  | _, _ => false
  end.

Definition pair_eqb {A B} (ea : A -> A -> bool) (eb : B -> B -> bool) (x y : A * B) : bool :=
  ea (fst x) (fst y) && eb (snd x) (snd y).

Definition bytes := list N.
Definition bytes_eqb : bytes -> bytes -> bool := list_eqb N.eqb.

Lemma list_eqb_eq {A} (eqb : A -> A -> bool) :
  (forall a b, eqb a b = true <-> a = b) ->
  forall l1 l2, list_eqb eqb l1 l2 = true <-> l1 = l2.
Proof.
  intros H l1; induction l1 as [|x l1 IH]; intros [|y l2]; cbn; split; intros E;
    try reflexivity; try discriminate.
  - apply andb_prop in E. destruct E as [E1 E2]. apply H in E1. apply IH in E2. subst. reflexivity.
  - inversion E; subst. apply andb_true_intro. split; [apply H | apply IH]; reflexivity.
Qed.

Lemma bytes_eqb_eq (a b : bytes) : bytes_eqb a b = true <-> a = b.
Proof. apply list_eqb_eq. intros; apply N.eqb_eq. Qed.
