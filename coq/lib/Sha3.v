(* SHA3-256 (FIPS 202) as an executable Gallina function over byte lists
   (bytes = list N, each < 256).  Used only to RUN models whose hash is a
   Section variable on the same inputs as the implementation; no theorem
   depends on any property of this function.  Checked against the Go
   implementation on every run of the properties that use it. *)
From Coq Require Import List Arith NArith.
Import ListNotations.
Open Scope N_scope.

Definition mask64 : N := 18446744073709551615.
Definition rotl64 (x : N) (n : N) : N :=
  if n =? 0 then x
  else N.lor (N.land (N.shiftl x n) mask64) (N.shiftr x (64 - n)).
Definition not64 (x : N) : N := N.lxor x mask64.

(* state: 25 lanes, index x + 5*y *)
Definition lane (s : list N) (i : nat) : N := nth i s 0.

Definition rc : list N :=
  [0x0000000000000001; 0x0000000000008082; 0x800000000000808A; 0x8000000080008000;
   0x000000000000808B; 0x0000000080000001; 0x8000000080008081; 0x8000000000008009;
   0x000000000000008A; 0x0000000000000088; 0x0000000080008009; 0x000000008000000A;
   0x000000008000808B; 0x800000000000008B; 0x8000000000008089; 0x8000000000008003;
   0x8000000000008002; 0x8000000000000080; 0x000000000000800A; 0x800000008000000A;
   0x8000000080008081; 0x8000000000008080; 0x0000000080000001; 0x8000000080008008].

(* rotation offsets r[x + 5y] *)
Definition rot : list N :=
  [0; 1; 62; 28; 27;
   36; 44; 6; 55; 20;
   3; 10; 43; 25; 39;
   41; 45; 15; 21; 8;
   18; 2; 61; 56; 14].

Definition idx (x y : nat) : nat := ((x mod 5) + 5 * (y mod 5))%nat.
Definition range5 : list nat := [0; 1; 2; 3; 4]%nat.
Definition range25 : list nat := seq 0%nat 25%nat.

Definition round (s : list N) (rcv : N) : list N :=
  (* theta *)
  let c := map (fun x => N.lxor (lane s (idx x 0)) (N.lxor (lane s (idx x 1))
             (N.lxor (lane s (idx x 2)) (N.lxor (lane s (idx x 3)) (lane s (idx x 4)))))) range5 in
  let d := map (fun x => N.lxor (nth ((x + 4) mod 5)%nat c 0) (rotl64 (nth ((x + 1) mod 5)%nat c 0) 1)) range5 in
  let s1 := map (fun i => N.lxor (lane s i) (nth (i mod 5)%nat d 0)) range25 in
  (* rho + pi: B[y, 2x+3y] = rot(A[x,y], r[x,y]) *)
  let b := map (fun j =>
             (* j = X + 5Y with X = y, Y = 2x+3y  =>  y = X, x = (Y - 3y) * 3 mod 5 (inverse of 2 is 3) *)
             let X := (j mod 5)%nat in let Y := (j / 5)%nat in
             let y := X in
             let x := ((3 * (Y + 5 * 3 - 3 * y)) mod 5)%nat in
             rotl64 (lane s1 (idx x y)) (nth (idx x y) rot 0)) range25 in
  (* chi *)
  let s2 := map (fun i =>
             let x := (i mod 5)%nat in let y := (i / 5)%nat in
             N.lxor (lane b i) (N.land (not64 (lane b (idx (x + 1)%nat y))) (lane b (idx (x + 2)%nat y)))) range25 in
  (* iota *)
  match s2 with
  | a0 :: rest => N.lxor a0 rcv :: rest
  | [] => []
  end.

Definition keccak_f (s : list N) : list N := fold_left round rc s.

(* little-endian bytes <-> lane *)
Fixpoint le_to_n (bs : list N) : N :=
  match bs with
  | [] => 0
  | b :: r => b + 256 * le_to_n r
  end.
Fixpoint n_to_le (k : nat) (x : N) : list N :=
  match k with
  | O => []
  | S k' => (x mod 256) :: n_to_le k' (x / 256)
  end.

Fixpoint chunks8 (k : nat) (bs : list N) : list N :=
  match k with
  | O => []
  | S k' => le_to_n (firstn 8%nat bs) :: chunks8 k' (skipn 8%nat bs)
  end.

Definition rate : nat := 136%nat.   (* bytes, SHA3-256 *)

Definition absorb_block (s : list N) (blk : list N) : list N :=
  let lanes := chunks8 17%nat blk in   (* 136 / 8 = 17 lanes *)
  keccak_f (map (fun i => N.lxor (lane s i) (nth i lanes 0)) range25).

(* pad10*1 with the SHA3 domain bits 01: first pad byte 0x06, last 0x80 *)
Definition pad (len : nat) : list N :=
  let r := (rate - len mod rate)%nat in
  if Nat.eqb r 1 then [0x86] else 0x06 :: repeat 0 (r - 2)%nat ++ [0x80].

Fixpoint absorb (fuel : nat) (s : list N) (bs : list N) : list N :=
  match fuel with
  | O => s
  | S f =>
      match bs with
      | [] => s
      | _ => absorb f (absorb_block s (firstn rate bs)) (skipn rate bs)
      end
  end.

Definition sha3_256 (msg : list N) : list N :=
  let padded := msg ++ pad (length msg) in
  let s := absorb (S (length padded / rate))%nat (repeat 0 25%nat) padded in
  firstn 32%nat (flat_map (n_to_le 8%nat) (firstn 4%nat s)).

(* test vectors (FIPS 202): SHA3-256("") and SHA3-256("abc") *)
Definition hex_of (bs : list N) : list N := bs.
Example sha3_empty :
  sha3_256 [] =
  [0xa7;0xff;0xc6;0xf8;0xbf;0x1e;0xd7;0x66;0x51;0xc1;0x47;0x56;0xa0;0x61;0xd6;0x62;
   0xf5;0x80;0xff;0x4d;0xe4;0x3b;0x49;0xfa;0x82;0xd8;0x0a;0x4b;0x80;0xf8;0x43;0x4a].
Proof. vm_compute. reflexivity. Qed.
Example sha3_abc :
  sha3_256 [0x61;0x62;0x63] =
  [0x3a;0x98;0x5d;0xa7;0x4f;0xe2;0x25;0xb2;0x04;0x5c;0x17;0x2d;0x6b;0xd3;0x90;0xbd;
   0x85;0x5f;0x08;0x6e;0x3e;0x9d;0x52;0x5b;0x46;0xbf;0xe2;0x45;0x11;0x43;0x15;0x32].
Proof. vm_compute. reflexivity. Qed.
