(* Run-time vocabulary of the Gallina emitted by translator T4 (tools/gofrag):
   small imperative integer functions / methods of /repo, statement by statement.

   Values.  A Go integer of type int32/int64/uint32/uint64 (int = int64, uint = uint64:
   64-bit platform) is a Z in the range of its type; a Go bool is a bool.  Arithmetic is the
   table of GoInt.v: [wrap t (exact result)] for + - * unary- and conversions T(x);
   [gdiv]/[gmod] ([None] = division by zero = run-time panic) for / and % ; [gshl]/[gshr]
   for shifts by an unsigned count.
   A term of type [option X] is a computation that may panic ([None]); statements that
   cannot panic are plain [let]s.  Conditionals, && and || are native [if]/[match]es so
   that the untaken branch is not evaluated (also under vm_compute's call by value).

   Results.  A function f(args) R becomes [args -> option R]; a method with a pointer
   receiver that assigns to its fields becomes [state -> args -> option (R * state)]
   (the receiver after the call, also when an error is returned).  A result of Go type
   [error] is [option tag] ([None] = nil, [Some E] = the sentinel error E of the package,
   however often it was wrapped by errors.Wrap / Wrapf / WithDetail...).

   Loops.  [for _, x := range l { body }] over a list: [range_loop body l s] threads the
   assigned locals [s] through the elements; the body answers [Next s'] (go on) or
   [Ret r] (a [return] inside the loop: the remaining elements are not visited). *)
From Coq Require Import ZArith Bool List Lia.
From Verif Require Import GoInt.
Import ListNotations.
Local Open Scope Z_scope.

Inductive lres (S R : Type) := Next (s : S) | Ret (r : R).
Arguments Next {S R} s.
Arguments Ret {S R} r.

Fixpoint range_loop {A S R : Type} (body : A -> S -> option (lres S R)) (l : list A) (s : S)
  : option (lres S R) :=
  match l with
  | [] => Some (Next s)
  | x :: l' =>
      match body x s with
      | None => None
      | Some (Next s') => range_loop body l' s'
      | Some (Ret r) => Some (Ret r)
      end
  end.

(* ---- generic facts used by the specification proofs ------------------------------- *)

(* a body that neither returns nor panics is a fold_left *)
Lemma range_loop_fold {A S R} (body : A -> S -> option (lres S R)) (f : S -> A -> S) :
  (forall x s, body x s = Some (Next (f s x))) ->
  forall l s, range_loop body l s = Some (Next (fold_left f l s)).
Proof.
  intros H l; induction l as [|x l IH]; intros s; cbn [range_loop fold_left].
  - reflexivity.
  - rewrite H. apply IH.
Qed.

(* the same under an invariant of the state and a predicate on the elements *)
Lemma range_loop_fold_inv {A S R} (body : A -> S -> option (lres S R)) (f : S -> A -> S)
      (P : A -> Prop) (I : S -> Prop) :
  (forall x s, P x -> I s -> body x s = Some (Next (f s x)) /\ I (f s x)) ->
  forall l s, Forall P l -> I s ->
    range_loop body l s = Some (Next (fold_left f l s)) /\ I (fold_left f l s).
Proof.
  intros H l; induction l as [|x l IH]; intros s HP HI; cbn [range_loop fold_left].
  - split; [reflexivity | exact HI].
  - inversion HP as [|? ? Hx Hl]; subst.
    destruct (H x s Hx HI) as [Hb Hi]. rewrite Hb. apply IH; assumption.
Qed.

(* a search loop: the state is never changed, the body returns [g x] at the first
   element with [p x = true] *)
Fixpoint first_match {A R} (p : A -> bool) (g : A -> R) (l : list A) : option R :=
  match l with
  | [] => None
  | x :: l' => if p x then Some (g x) else first_match p g l'
  end.

Lemma range_loop_search {A S R} (body : A -> S -> option (lres S R)) (p : A -> bool) (g : A -> R) :
  (forall x s, body x s = Some (if p x then Ret (g x) else Next s)) ->
  forall l s, range_loop body l s =
              Some (match first_match p g l with Some r => Ret r | None => Next s end).
Proof.
  intros H l; induction l as [|x l IH]; intros s; cbn [range_loop first_match].
  - reflexivity.
  - rewrite H. destruct (p x); [reflexivity | apply IH].
Qed.

Lemma range_loop_app {A S R} (body : A -> S -> option (lres S R)) l1 l2 s :
  range_loop body (l1 ++ l2) s =
  match range_loop body l1 s with
  | Some (Next s') => range_loop body l2 s'
  | r => r
  end.
Proof.
  revert s; induction l1 as [|x l1 IH]; intros s; cbn [range_loop app].
  - reflexivity.
  - destruct (body x s) as [[s'|r]|]; [apply IH | reflexivity | reflexivity].
Qed.

(* values of a type *)
Definition inr_ (t : ity) (x : Z) : Prop := in_range t x = true.

Lemma inr_bounds t x : inr_ t x <-> tmin t <= x <= tmax t.
Proof.
  unfold inr_, in_range. rewrite andb_true_iff, !Z.leb_le. tauto.
Qed.

Lemma wrap_id t x : tmin t <= x <= tmax t -> wrap t x = x.
Proof. intros H. apply in_range_wrap. apply inr_bounds. exact H. Qed.
