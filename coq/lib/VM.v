(* Executable model of the Bytom VM (protocol/vm), pure value semantics:
   stack items are byte strings (list N).  Mirrors the Go functions statement
   by statement: pop order, immediate vs deferred costs, refunds, error
   precedence, uint32 / int64 / uint256 arithmetic.  Cryptographic primitives
   and the transaction context are parameters.  No proofs in this file. *)
From Coq Require Import List ZArith NArith Bool.
From Verif Require Import Cmp.
Import ListNotations.
Open Scope Z_scope.

Inductive vmerr :=
| EAltStackUnderflow | EBadValue | EContext | EDataStackUnderflow | EDisallowedOpcode
| EDivZero | EFalseVMResult | ELongProgram | ERange | EReturn | ERunLimitExceeded
| EShortProgram | EUnexpected | EUnsupportedVM | EVerifyFailed | EOverflow | ECallback
| EOutOfFuel.   (* model artefact only: never produced when fuel is sufficient (C07) *)

Definition vmerr_eqb (a b : vmerr) : bool :=
  match a, b with
  | EAltStackUnderflow, EAltStackUnderflow | EBadValue, EBadValue | EContext, EContext
  | EDataStackUnderflow, EDataStackUnderflow | EDisallowedOpcode, EDisallowedOpcode
  | EDivZero, EDivZero | EFalseVMResult, EFalseVMResult | ELongProgram, ELongProgram
  | ERange, ERange | EReturn, EReturn | ERunLimitExceeded, ERunLimitExceeded
  | EShortProgram, EShortProgram | EUnexpected, EUnexpected | EUnsupportedVM, EUnsupportedVM
  | EVerifyFailed, EVerifyFailed | EOverflow, EOverflow | ECallback, ECallback
  | EOutOfFuel, EOutOfFuel => true
  | _, _ => false
  end.

(* ---------- bytes and numbers ---------- *)

Definition item := list N.

Fixpoint le_decode (b : list N) : N :=
  match b with
  | [] => 0%N
  | x :: r => (x + 256 * le_decode r)%N
  end.

(* minimal little-endian encoding (no trailing zero bytes; 0 is empty): BigIntBytes *)
Fixpoint le_encode_fuel (fuel : nat) (n : N) : list N :=
  match fuel with
  | O => []
  | S f => if (n =? 0)%N then [] else (n mod 256)%N :: le_encode_fuel f (n / 256)%N
  end.
Definition le_encode (n : N) : list N := le_encode_fuel 40 n.   (* values < 2^256 need 32 *)

Definition as_bool (b : item) : bool := existsb (fun x => negb (x =? 0)%N) b.
Definition bool_bytes (b : bool) : item := if b then [1%N] else [].

Definition two255 : N := (2 ^ 255)%N.
Definition two256 : N := (2 ^ 256)%N.
Definition two64 : N := (2 ^ 64)%N.
Definition two63 : N := (2 ^ 63)%N.

(* AsBigInt *)
Definition as_bigint (b : item) : vmerr + N :=
  if (32 <? length b)%nat then inl EBadValue
  else let n := le_decode b in
       if (two255 <=? n)%N then inl ERange else inr n.

(* bigIntInt64: value must be a uint64 below 2^63 *)
Definition bigint_int64 (n : N) : vmerr + Z :=
  if (two63 <=? n)%N then inl EBadValue else inr (Z.of_N n).

(* int64(n.Uint64()): low 64 bits reinterpreted as signed *)
Definition low64_signed (n : N) : Z :=
  let u := (n mod two64)%N in
  if (two63 <=? u)%N then Z.of_N u - 2 ^ 64 else Z.of_N u.

(* ---------- parameters: crypto and transaction context ---------- *)

Record crypto := {
  h_sha256 : item -> item;
  h_sha3 : item -> item;
  h_ripemd160 : item -> item;
  sig_verify : item -> item -> item -> bool   (* pubkey msg sig *)
}.

Record context := {
  cx_vmversion : N;
  cx_code : item;
  cx_entryid : item;
  cx_txversion : option N;
  cx_blockheight : option N;
  cx_assetid : option item;
  cx_amount : option N;
  cx_destpos : option N;
  cx_spentoutputid : option item;
  cx_txsighash : option item;
  (* CheckOutput index amount assetID vmVersion code altStack expansion: None = nil callback *)
  cx_checkoutput : option (N -> N -> item -> N -> item -> list item -> bool -> vmerr + bool)
}.

(* ---------- machine state ---------- *)

Record vmst := {
  prog : item;
  pc : N;
  nextpc : N;
  runlimit : Z;
  deferred : Z;
  expres : bool;           (* expansionReserved *)
  vdata : item;            (* data of the current instruction *)
  dstack : list item;      (* head = top *)
  astack : list item
}.

Definition set_runlimit s v := {| prog := prog s; pc := pc s; nextpc := nextpc s; runlimit := v;
  deferred := deferred s; expres := expres s; vdata := vdata s; dstack := dstack s; astack := astack s |}.
Definition set_deferred s v := {| prog := prog s; pc := pc s; nextpc := nextpc s; runlimit := runlimit s;
  deferred := v; expres := expres s; vdata := vdata s; dstack := dstack s; astack := astack s |}.
Definition set_dstack s v := {| prog := prog s; pc := pc s; nextpc := nextpc s; runlimit := runlimit s;
  deferred := deferred s; expres := expres s; vdata := vdata s; dstack := v; astack := astack s |}.
Definition set_astack s v := {| prog := prog s; pc := pc s; nextpc := nextpc s; runlimit := runlimit s;
  deferred := deferred s; expres := expres s; vdata := vdata s; dstack := dstack s; astack := v |}.
Definition set_nextpc s v := {| prog := prog s; pc := pc s; nextpc := v; runlimit := runlimit s;
  deferred := deferred s; expres := expres s; vdata := vdata s; dstack := dstack s; astack := astack s |}.
Definition set_pc s v := {| prog := prog s; pc := v; nextpc := nextpc s; runlimit := runlimit s;
  deferred := deferred s; expres := expres s; vdata := vdata s; dstack := dstack s; astack := astack s |}.
Definition set_vdata s v := {| prog := prog s; pc := pc s; nextpc := nextpc s; runlimit := runlimit s;
  deferred := deferred s; expres := expres s; vdata := v; dstack := dstack s; astack := astack s |}.

(* result of a step / an operation: the state is kept on error because Verify
   returns the run limit at the moment of failure *)
Inductive res (A : Type) :=
| ROk (a : A) (s : vmst)
| RErr (e : vmerr) (s : vmst).
Arguments ROk {A} a s.
Arguments RErr {A} e s.

Definition M (A : Type) := vmst -> res A.
Definition ret {A} (a : A) : M A := fun s => ROk a s.
Definition fail {A} (e : vmerr) : M A := fun s => RErr e s.
Definition bind {A B} (m : M A) (f : A -> M B) : M B :=
  fun s => match m s with
           | ROk a s' => f a s'
           | RErr e s' => RErr e s'
           end.
Notation "x <- m ;; f" := (bind m (fun x => f)) (at level 61, m at next level, right associativity).
Notation "m ;;; f" := (bind m (fun _ => f)) (at level 61, right associativity).

Definition lift {A} (x : vmerr + A) : M A :=
  match x with inl e => fail e | inr a => ret a end.

Definition get : M vmst := fun s => ROk s s.

(* applyCost: positive cost decreases the limit; failure zeroes it *)
Definition apply_cost (n : Z) : M unit :=
  fun s => if runlimit s <? n then RErr ERunLimitExceeded (set_runlimit s 0)
           else ROk tt (set_runlimit s (runlimit s - n)).
Definition defer_cost (n : Z) : M unit :=
  fun s => ROk tt (set_deferred s (deferred s + n)).

Definition item_cost (d : item) : Z := 8 + Z.of_nat (length d).

Definition push (d : item) (deferredp : bool) : M unit :=
  (if deferredp then defer_cost (item_cost d) else apply_cost (item_cost d)) ;;;
  (fun s => ROk tt (set_dstack s (d :: dstack s))).
Definition push_alt (d : item) (deferredp : bool) : M unit :=
  (if deferredp then defer_cost (item_cost d) else apply_cost (item_cost d)) ;;;
  (fun s => ROk tt (set_astack s (d :: astack s))).
Definition push_bool (b : bool) (d : bool) : M unit := push (bool_bytes b) d.
Definition push_bigint (n : N) (d : bool) : M unit := push (le_encode n) d.

Definition pop (deferredp : bool) : M item :=
  fun s => match dstack s with
           | [] => RErr EDataStackUnderflow s
           | x :: r =>
               let s1 := set_dstack s r in
               if deferredp then ROk x (set_deferred s1 (deferred s1 - item_cost x))
               else ROk x (set_runlimit s1 (runlimit s1 + item_cost x))
           end.
Definition pop_bigint (d : bool) : M N := b <- pop d ;; lift (as_bigint b).
Definition top : M item :=
  fun s => match dstack s with [] => RErr EDataStackUnderflow s | x :: _ => ROk x s end.

Definition stack_cost (st : list item) : Z :=
  fold_right (fun d acc => item_cost d + acc) 0 st.

(* ---------- instruction parsing (ops.go: ParseOp) ---------- *)

Record inst := { i_op : N; i_len : N; i_data : item }.

Definition two32 : N := (2 ^ 32)%N.
Definition add_u32 (a b : N) : option N := (* checked.AddUint32 *)
  if (two32 <=? a + b)%N then None else Some (a + b)%N.
Definition slice (b : item) (lo hi : N) : item :=
  firstn (N.to_nat (hi - lo)) (skipn (N.to_nat lo) b).
Definition byte_at (b : item) (i : N) : N := nth (N.to_nat i) b 0%N.

Definition OP_1 : N := 81. Definition OP_16 : N := 96.
Definition OP_DATA_1 : N := 1. Definition OP_DATA_75 : N := 75.
Definition OP_PUSHDATA1 : N := 76. Definition OP_PUSHDATA2 : N := 77. Definition OP_PUSHDATA4 : N := 78.
Definition OP_JUMP : N := 99. Definition OP_JUMPIF : N := 100.

Definition parse_op (p : item) (pcv : N) : vmerr + inst :=
  let l := N.of_nat (length p) in
  if (2147483647 <? l)%N then inl ELongProgram
  else if (l <=? pcv)%N then inl EShortProgram
  else
    let opc := byte_at p pcv in
    if ((OP_1 <=? opc) && (opc <=? OP_16))%N then
      inr {| i_op := opc; i_len := 1; i_data := [(opc - OP_1 + 1)%N] |}
    else if ((OP_DATA_1 <=? opc) && (opc <=? OP_DATA_75))%N then
      let len := (1 + (opc - OP_DATA_1 + 1))%N in
      match add_u32 pcv len with
      | None => inl EOverflow
      | Some e => if (l <? e)%N then inl EShortProgram
                  else inr {| i_op := opc; i_len := len; i_data := slice p (pcv + 1) e |}
      end
    else if (opc =? OP_PUSHDATA1)%N then
      if (pcv =? l - 1)%N then inl EShortProgram
      else
        let n := byte_at p (pcv + 1) in
        let len := (1 + n + 1)%N in
        match add_u32 pcv len with
        | None => inl EOverflow
        | Some e => if (l <? e)%N then inl EShortProgram
                    else inr {| i_op := opc; i_len := len; i_data := slice p (pcv + 2) e |}
        end
    else if (opc =? OP_PUSHDATA2)%N then
      if ((l <? 3) || (l - 3 <? pcv))%N then inl EShortProgram
      else
        let n := (byte_at p (pcv + 1) + 256 * byte_at p (pcv + 2))%N in
        let len := (1 + n + 2)%N in
        match add_u32 pcv len with
        | None => inl EOverflow
        | Some e => if (l <? e)%N then inl EShortProgram
                    else inr {| i_op := opc; i_len := len; i_data := slice p (pcv + 3) e |}
        end
    else if (opc =? OP_PUSHDATA4)%N then
      if ((l <? 5) || (l - 5 <? pcv))%N then inl EShortProgram
      else
        let n := le_decode (slice p (pcv + 1) (pcv + 5)) in
        match add_u32 5 n with
        | None => inl EOverflow
        | Some len =>
            match add_u32 pcv len with
            | None => inl EOverflow
            | Some e => if (l <? e)%N then inl EShortProgram
                        else inr {| i_op := opc; i_len := len; i_data := slice p (pcv + 5) e |}
            end
        end
    else if ((opc =? OP_JUMP) || (opc =? OP_JUMPIF))%N then
      match add_u32 pcv 5 with
      | None => inl EOverflow
      | Some e => if (l <? e)%N then inl EShortProgram
                  else inr {| i_op := opc; i_len := 5; i_data := slice p (pcv + 1) e |}
      end
    else inr {| i_op := opc; i_len := 1; i_data := [] |}.

(* PushDataBytes (pushdata.go) *)
Definition push_data_bytes (d : item) : item :=
  let l := N.of_nat (length d) in
  if (l =? 0)%N then [0%N]
  else if (l <=? 75)%N then (OP_DATA_1 + l - 1)%N :: d
  else if (l <? 256)%N then OP_PUSHDATA1 :: l :: d
  else if (l <? 65536)%N then OP_PUSHDATA2 :: (l mod 256)%N :: (l / 256)%N :: d
  else OP_PUSHDATA4 :: (l mod 256)%N :: ((l / 256) mod 256)%N :: ((l / 65536) mod 256)%N
         :: ((l / 16777216) mod 256)%N :: d.

(* ---------- the opcode table: which bytes are defined ---------- *)

Definition defined_ops : list N :=
  [0; 76; 77; 78; 97; 99; 100; 105; 106; 192;
   107; 108; 109; 110; 111; 112; 113; 114; 115; 116; 117; 118; 119; 120; 121; 122; 123; 124; 125;
   126; 127; 128; 129; 130; 137;
   131; 132; 133; 134; 135; 136;
   139; 140; 141; 142; 145; 146; 147; 148; 149; 150; 151; 152; 153; 154; 155; 156; 157; 158;
   159; 160; 161; 162; 163; 164; 165;
   168; 170; 171; 172; 173; 174;
   193; 194; 195; 196; 201; 202; 203; 205]%N.
Definition is_expansion (op : N) : bool :=
  negb (((1 <=? op) && (op <=? 75))%N || ((81 <=? op) && (op <=? 96))%N
        || existsb (N.eqb op) defined_ops).

(* ---------- stack helpers ---------- *)

Fixpoint popn (n : nat) (d : bool) : M (list item) :=   (* first popped first *)
  match n with
  | O => ret []
  | S k => x <- pop d ;; r <- popn k d ;; ret (x :: r)
  end.

Definition and_bytes (a b : item) : item :=
  map (fun p => N.land (fst p) (snd p)) (combine a b).
Fixpoint orx_bytes (f : N -> N -> N) (a b : item) {struct a} : item :=
  match a with
  | [] => map (f 0%N) b
  | x :: a' =>
      match b with
      | [] => f x 0%N :: orx_bytes f a' []
      | y :: b' => f x y :: orx_bytes f a' b'
      end
  end.

Definition nlen (d : item) : Z := Z.of_nat (length d).

Section WithParams.
  Variable cr : crypto.
  Variable cx : context.

  (* binary numeric op: cost c, pops y then x (both deferred), f gives result or error *)
  Definition num2 (c : Z) (f : N -> N -> vmerr + N) : M unit :=
    apply_cost c ;;; y <- pop_bigint true ;; x <- pop_bigint true ;;
    r <- lift (f x y) ;; push_bigint r true.
  Definition num1 (c : Z) (f : N -> vmerr + N) : M unit :=
    apply_cost c ;;; n <- pop_bigint true ;; r <- lift (f n) ;; push_bigint r true.
  Definition cmp2 (f : N -> N -> bool) : M unit :=
    apply_cost 2 ;;; y <- pop_bigint true ;; x <- pop_bigint true ;; push_bool (f x y) true.

  Definition range_chk (n : N) : vmerr + N := if (two255 <=? n)%N then inl ERange else inr n.

  Fixpoint n_dup_go (n k : nat) {struct k} : M unit :=
    match k with
    | O => ret tt
    | S k' => s' <- get ;; push (nth (n - 1) (dstack s') []) false ;;; n_dup_go n k'
    end.
  Definition n_dup (n : nat) : M unit :=
    apply_cost (Z.of_nat n) ;;;
    s <- get ;;
    if (length (dstack s) <? n)%nat then fail EDataStackUnderflow
    else n_dup_go n n.   (* n times: push dataStack[len-n] *)

  Definition rot_n (n : Z) : M unit :=
    if n <? 1 then fail EBadValue
    else s <- get ;;
      let st := dstack s in
      if Z.of_nat (length st) <? n then fail EDataStackUnderflow
      else
        let k := Z.to_nat (n - 1) in   (* index from the top *)
        fun s' => ROk tt (set_dstack s' (nth k st [] :: firstn k st ++ skipn (S k) st)).

  Definition do_equal : M bool :=
    apply_cost 1 ;;; b <- pop true ;; a <- pop true ;;
    apply_cost (Z.min (nlen a) (nlen b)) ;;; ret (bytes_eqb a b).

  Definition jump_target (d : item) : N := le_decode d.

  Definition do_hash (h : item -> item) : M unit :=
    x <- pop false ;; apply_cost (Z.max (nlen x) 64) ;;; push (h x) false.

  (* greedy scan of opCheckMultiSig *)
  Fixpoint multisig_scan (msg : item) (sigs pubkeys : list item) : bool :=
    match pubkeys with
    | [] => match sigs with [] => true | _ => false end
    | pk :: pks =>
        match sigs with
        | [] => true
        | sg :: sgs => if sig_verify cr pk msg sg then multisig_scan msg sgs pks
                       else multisig_scan msg sigs pks
        end
    end.

  (* run of a child VM is a parameter of exec_op so that recursion is on fuel *)
  Definition child_result := (bool * vmst)%type.  (* (childErr == nil, final child state) *)

  Definition exec_op (run_child : vmst -> child_result) (op : N) : M unit :=
    match op with
    | 0%N => apply_cost 1 ;;; push_bool false false
    | 76%N | 77%N | 78%N => apply_cost 1 ;;; s <- get ;; push (vdata s) false
    | 97%N => apply_cost 1
    | 99%N => apply_cost 1 ;;; s <- get ;; fun s' => ROk tt (set_nextpc s' (jump_target (vdata s)))
    | 100%N => apply_cost 1 ;;; p <- pop true ;;
             if as_bool p then s <- get ;; fun s' => ROk tt (set_nextpc s' (jump_target (vdata s)))
             else ret tt
    | 105%N => apply_cost 1 ;;; p <- pop true ;; if as_bool p then ret tt else fail EVerifyFailed
    | 106%N => apply_cost 1 ;;; fail EReturn
    | 192%N => (* CHECKPREDICATE *)
        apply_cost 256 ;;; defer_cost (-256 + 64) ;;;
        lb <- pop_bigint true ;; limit <- lift (bigint_int64 lb) ;;
        predicate <- pop true ;;
        nb <- pop_bigint true ;; n <- lift (bigint_int64 nb) ;;
        s <- get ;;
        let l := Z.of_nat (length (dstack s)) in
        let n := if n =? 0 then l else n in
        if l <? n then fail EDataStackUnderflow
        else
          let limit := if limit =? 0 then runlimit s else limit in
          apply_cost limit ;;;
          s1 <- get ;;
          let k := Z.to_nat n in
          let child := {| prog := predicate; pc := 0; nextpc := 0; runlimit := limit; deferred := 0;
                          expres := false; vdata := []; dstack := firstn k (dstack s1); astack := [] |} in
          (fun s' => ROk tt (set_dstack s' (skipn k (dstack s')))) ;;;
          let '(ok, cs) := run_child child in
          defer_cost (- runlimit cs) ;;; defer_cost (- stack_cost (dstack cs)) ;;;
          defer_cost (- stack_cost (astack cs)) ;;;
          push_bool (ok && negb (match dstack cs with [] => true | t :: _ => negb (as_bool t) end)) true
    | 107%N => apply_cost 2 ;;; s <- get ;;
             match dstack s with
             | [] => fail EDataStackUnderflow
             | x :: r => fun s' => ROk tt (set_astack (set_dstack s' r) (x :: astack s'))
             end
    | 108%N => apply_cost 2 ;;; s <- get ;;
             match astack s with
             | [] => fail EAltStackUnderflow
             | x :: r => fun s' => ROk tt (set_astack (set_dstack s' (x :: dstack s')) r)
             end
    | 109%N => apply_cost 2 ;;; pop false ;;; pop false ;;; ret tt
    | 110%N => n_dup 2
    | 111%N => n_dup 3
    | 112%N => apply_cost 2 ;;; s <- get ;;
             if (length (dstack s) <? 4)%nat then fail EDataStackUnderflow
             else (s1 <- get ;; push (nth 3 (dstack s1) []) false) ;;;
                  (s2 <- get ;; push (nth 3 (dstack s2) []) false)
    | 113%N => apply_cost 2 ;;; s <- get ;;
             match dstack s with
             | a :: b :: c :: d :: e :: f :: r => fun s' => ROk tt (set_dstack s' (e :: f :: a :: b :: c :: d :: r))
             | _ => fail EDataStackUnderflow
             end
    | 114%N => apply_cost 2 ;;; s <- get ;;
             match dstack s with
             | a :: b :: c :: d :: r => fun s' => ROk tt (set_dstack s' (c :: d :: a :: b :: r))
             | _ => fail EDataStackUnderflow
             end
    | 115%N => apply_cost 1 ;;; t <- top ;; if as_bool t then push t false else ret tt
    | 116%N => apply_cost 1 ;;; s <- get ;; push_bigint (N.of_nat (length (dstack s))) false
    | 117%N => apply_cost 1 ;;; pop false ;;; ret tt
    | 118%N => n_dup 1
    | 119%N => apply_cost 1 ;;; t <- top ;;
             (fun s => ROk tt (set_dstack s (tl (dstack s)))) ;;;
             pop false ;;; (fun s => ROk tt (set_dstack s (t :: dstack s)))
    | 120%N => apply_cost 1 ;;; s <- get ;;
             if (length (dstack s) <? 2)%nat then fail EDataStackUnderflow
             else push (nth 1 (dstack s) []) false
    | 121%N => apply_cost 2 ;;; n <- pop_bigint false ;;
             let a := low64_signed n in
             if a =? 2 ^ 63 - 1 then fail EBadValue   (* checked.AddInt64(a, 1) overflows *)
             else
               let off := a + 1 in
               s <- get ;;
               let sz := Z.of_nat (length (dstack s)) in
               if sz <? off then fail EDataStackUnderflow
               else if off <=? 0 then fail EUnexpected   (* index out of range panic, recovered by Verify *)
               else push (nth (Z.to_nat (off - 1)) (dstack s) []) false
    | 122%N => apply_cost 2 ;;; n <- pop_bigint false ;;
             let a := low64_signed n in
             if a =? 2 ^ 63 - 1 then fail EBadValue else rot_n (a + 1)
    | 123%N => apply_cost 2 ;;; rot_n 3
    | 124%N => apply_cost 1 ;;; s <- get ;;
             match dstack s with
             | a :: b :: r => fun s' => ROk tt (set_dstack s' (b :: a :: r))
             | _ => fail EDataStackUnderflow
             end
    | 125%N => apply_cost 1 ;;; s <- get ;;
             match dstack s with
             | a :: b :: r =>
                 (fun s' => ROk tt (set_dstack s' r)) ;;; push a false ;;;
                 (fun s' => ROk tt (set_dstack s' (a :: b :: dstack s')))
             | _ => fail EDataStackUnderflow
             end
    | 126%N => (* CAT *)
        apply_cost 4 ;;; b <- pop true ;; a <- pop true ;;
        let lens := nlen a + nlen b in
        apply_cost lens ;;; defer_cost (- lens) ;;; push (a ++ b) true
    | 127%N => (* SUBSTR *)
        apply_cost 4 ;;; sb <- pop_bigint true ;; size <- lift (bigint_int64 sb) ;;
        apply_cost size ;;; defer_cost (- size) ;;;
        ob <- pop_bigint true ;; offset <- lift (bigint_int64 ob) ;;
        str <- pop true ;;
        let e := offset + size in
        if (2 ^ 63 - 1 <? e) || (nlen str <? e) then fail EBadValue
        else push (firstn (Z.to_nat size) (skipn (Z.to_nat offset) str)) true
    | 128%N => (* LEFT *)
        apply_cost 4 ;;; sb <- pop_bigint true ;; size <- lift (bigint_int64 sb) ;;
        apply_cost size ;;; defer_cost (- size) ;;;
        str <- pop true ;;
        if nlen str <? size then fail EBadValue else push (firstn (Z.to_nat size) str) true
    | 129%N => (* RIGHT *)
        apply_cost 4 ;;; sb <- pop_bigint true ;; size <- lift (bigint_int64 sb) ;;
        apply_cost size ;;; defer_cost (- size) ;;;
        str <- pop true ;;
        if nlen str <? size then fail EBadValue
        else push (skipn (Z.to_nat (nlen str - size)) str) true
    | 130%N => apply_cost 1 ;;; t <- top ;; push_bigint (N.of_nat (length t)) true
    | 137%N => (* CATPUSHDATA *)
        apply_cost 4 ;;; b <- pop true ;; a <- pop true ;;
        let lens := nlen a + nlen b in
        apply_cost lens ;;; defer_cost (- lens) ;;; push (a ++ push_data_bytes b) true
    | 131%N => apply_cost 1 ;;; t <- top ;; apply_cost (nlen t) ;;;
             (fun s => ROk tt (set_dstack s (map (fun x => N.lxor x 255) t :: tl (dstack s))))
    | 132%N => apply_cost 1 ;;; b <- pop true ;; a <- pop true ;;
             apply_cost (Z.min (nlen a) (nlen b)) ;;; push (and_bytes a b) true
    | 133%N => apply_cost 1 ;;; b <- pop true ;; a <- pop true ;;
             apply_cost (Z.max (nlen a) (nlen b)) ;;; push (orx_bytes N.lor a b) true
    | 134%N => apply_cost 1 ;;; b <- pop true ;; a <- pop true ;;
             apply_cost (Z.max (nlen a) (nlen b)) ;;; push (orx_bytes N.lxor a b) true
    | 135%N => r <- do_equal ;; push_bool r true
    | 136%N => r <- do_equal ;; if r then ret tt else fail EVerifyFailed
    | 139%N => num1 2 (fun n => range_chk (n + 1))
    | 140%N => num1 2 (fun n => if (n =? 0)%N then inl ERange else inr (n - 1)%N)
    | 141%N => num1 2 (fun n => range_chk (2 * n))
    | 142%N => num1 2 (fun n => inr (n / 2)%N)
    | 145%N => apply_cost 2 ;;; n <- pop_bigint true ;; push_bool (n =? 0)%N true
    | 146%N => apply_cost 2 ;;; n <- pop_bigint true ;; push_bool (negb (n =? 0)%N) true
    | 147%N => num2 2 (fun x y => range_chk (x + y))
    | 148%N => num2 2 (fun x y => if (x <? y)%N then inl ERange else inr (x - y)%N)
    | 149%N => num2 8 (fun x y => if (two256 <=? x * y)%N then inl ERange else range_chk (x * y))
    | 150%N => num2 8 (fun x y => if (y =? 0)%N then inl EDivZero else inr (x / y)%N)
    | 151%N => num2 8 (fun x y => if (y =? 0)%N then inl EDivZero else inr (x mod y)%N)
    | 152%N => num2 8 (fun x y => if (y <? 256)%N then range_chk ((x * 2 ^ y) mod two256) else inr 0%N)
    | 153%N => num2 8 (fun x y => if (y <? 256)%N then inr (x / 2 ^ y)%N else inr 0%N)
    | 154%N => apply_cost 2 ;;; b <- pop true ;; a <- pop true ;; push_bool (as_bool a && as_bool b) true
    | 155%N => apply_cost 2 ;;; b <- pop true ;; a <- pop true ;; push_bool (as_bool a || as_bool b) true
    | 156%N => cmp2 N.eqb
    | 157%N => apply_cost 2 ;;; y <- pop_bigint true ;; x <- pop_bigint true ;;
             if (x =? y)%N then ret tt else fail EVerifyFailed
    | 158%N => cmp2 (fun x y => negb (x =? y)%N)
    | 159%N => cmp2 N.ltb
    | 160%N => cmp2 (fun x y => (y <? x)%N)
    | 161%N => cmp2 N.leb
    | 162%N => cmp2 (fun x y => (y <=? x)%N)
    | 163%N => num2 2 (fun x y => inr (if (y <? x)%N then y else x))
    | 164%N => num2 2 (fun x y => inr (if (x <? y)%N then y else x))
    | 165%N => apply_cost 4 ;;; mx <- pop_bigint true ;; mn <- pop_bigint true ;; x <- pop_bigint true ;;
             push_bool ((mn <=? x)%N && (x <? mx)%N) true
    | 168%N => do_hash (h_sha256 cr)
    | 170%N => do_hash (h_sha3 cr)
    | 171%N => x <- pop false ;; apply_cost (nlen x + 64) ;;; push (h_ripemd160 cr x) false
    | 172%N => (* CHECKSIG *)
        apply_cost 1024 ;;; pk <- pop true ;; msg <- pop true ;; sg <- pop true ;;
        if negb (length msg =? 32)%nat then fail EBadValue
        else if negb (length pk =? 32)%nat then push_bool false true
        else push_bool (sig_verify cr pk msg sg) true
    | 173%N => (* CHECKMULTISIG *)
        npb <- pop_bigint true ;; np <- lift (bigint_int64 npb) ;;
        (* checked.MulInt64(numPubkeys, 1024) *)
        (if 2 ^ 63 - 1 <? np * 1024 then fail EBadValue else ret tt) ;;;
        apply_cost (np * 1024) ;;;
        nsb <- pop_bigint true ;; ns <- lift (bigint_int64 nsb) ;;
        if (np <? ns) || ((0 <? np) && (ns =? 0)) then fail EBadValue
        else
          pks <- popn (Z.to_nat np) true ;;
          msg <- pop true ;;
          if negb (length msg =? 32)%nat then fail EBadValue
          else
            sigs <- popn (Z.to_nat ns) true ;;
            if existsb (fun p => negb (length p =? 32)%nat) pks then push_bool false true
            else push_bool (multisig_scan msg sigs pks) true
    | 174%N => apply_cost 256 ;;;
             match cx_txsighash cx with None => fail EContext | Some h => push h false end
    | 193%N => (* CHECKOUTPUT *)
        apply_cost 16 ;;; code <- pop true ;; vmv <- pop_bigint true ;; asset <- pop true ;;
        amt <- pop_bigint true ;;
        if (two64 <=? amt)%N then fail EBadValue
        else
          idx <- pop_bigint true ;;
          match cx_checkoutput cx with
          | None => fail EContext
          | Some f => s <- get ;;
              match f (idx mod two64)%N amt asset (vmv mod two64)%N code (astack s) (expres s) with
              | inl e => fail e
              | inr ok => push_bool ok true
              end
          end
    | 194%N => apply_cost 1 ;;; match cx_assetid cx with None => fail EContext | Some a => push a true end
    | 195%N => apply_cost 1 ;;; match cx_amount cx with None => fail EContext | Some a => push_bigint a true end
    | 196%N => apply_cost 1 ;;; push (cx_code cx) true
    | 201%N => apply_cost 1 ;;; match cx_destpos cx with None => fail EContext | Some a => push_bigint a true end
    | 202%N => apply_cost 1 ;;; push (cx_entryid cx) true
    | 203%N => apply_cost 1 ;;; match cx_spentoutputid cx with None => fail EContext | Some a => push a true end
    | 205%N => apply_cost 1 ;;; match cx_blockheight cx with None => fail EContext | Some a => push_bigint a true end
    | _ =>
        (* OP_1..OP_16 and OP_DATA_n share opPushdata *)
        apply_cost 1 ;;; s <- get ;; push (vdata s) false
    end.

  (* one step of virtualMachine.step *)
  Definition step (run_child : vmst -> child_result) : M unit :=
    fun s =>
      match parse_op (prog s) (pc s) with
      | inl e => RErr e s
      | inr i =>
          let s1 := set_nextpc s ((pc s + i_len i) mod two32)%N in
          if is_expansion (i_op i) then
            if expres s1 then RErr EDisallowedOpcode s1
            else apply_cost 1 (set_pc s1 (nextpc s1))
          else
            let s2 := set_vdata (set_deferred s1 0) (i_data i) in
            match exec_op run_child (i_op i) s2 with
            | RErr e s3 => RErr e s3
            | ROk _ s3 =>
                match apply_cost (deferred s3) s3 with
                | RErr e s4 =>
                    (* the deferred pushes were never paid for: the stacks are dropped *)
                    RErr e (set_astack (set_dstack s4 []) [])
                | ROk _ s4 => ROk tt (set_pc s4 (nextpc s4))
                end
            end
      end.

  (* virtualMachine.run with explicit fuel; a child VM gets the remaining fuel *)
  Fixpoint run (fuel : nat) (s : vmst) : res unit :=
    match fuel with
    | O => RErr EOutOfFuel s
    | S f =>
        if (pc s <? N.of_nat (length (prog s)))%N then
          match step (fun c => match run f c with
                               | ROk _ cs => (true, cs)
                               | RErr _ cs => (false, cs)
                               end) s with
          | RErr e s' => RErr e s'
          | ROk _ s' => run f s'
          end
        else ROk tt s
    end.

  Definition false_result (s : vmst) : bool :=
    match dstack s with [] => true | t :: _ => negb (as_bool t) end.

  Fixpoint push_all (f : item -> bool -> M unit) (l : list item) : M unit :=
    match l with
    | [] => ret tt
    | x :: r => f x false ;;; push_all f r
    end.

  (* vm.Verify: returns (gasLeft, None) on success or (gasLeft, Some err) *)
  Definition verify (fuel : nat) (statedata args : list item) (gas_limit : Z) : Z * option vmerr :=
    if negb (cx_vmversion cx =? 1)%N then (gas_limit, Some EUnsupportedVM)
    else
      let s0 := {| prog := cx_code cx; pc := 0; nextpc := 0; runlimit := gas_limit; deferred := 0;
                   expres := match cx_txversion cx with Some 1%N => true | _ => false end;
                   vdata := []; dstack := []; astack := [] |} in
      match (push_all push_alt statedata ;;; push_all push args) s0 with
      | RErr e s => (runlimit s, Some e)
      | ROk _ s1 =>
          match run fuel s1 with
          | RErr EUnexpected s => (0, Some EUnexpected)   (* recovered panic: named result stays 0 *)
          | RErr e s => (runlimit s, Some e)
          | ROk _ s => (runlimit s, if false_result s then Some EFalseVMResult else None)
          end
      end.
End WithParams.
