(* C24 / C25 — detachUtxos (repaired variant) undoes attachUtxos: if the database is the
   wallet's view of the utxo map AFTER a valid block, detaching the block gives the view
   of the map BEFORE it. *)
From Coq Require Import List NArith Bool Lia.
From C24 Require Import Model Maps Inv.
Import ListNotations.
Open Scope N_scope.

Definition oid (o : output) : N := o_id (out_rec o).

(* the utxo entry applyOutputUtxo stores for a result id, if any *)
Definition stored (first : bool) (H : N) (o : output) : option centry :=
  match o with
  | OOrig r => if N.eqb (o_amount r) 0 then None
               else Some (mkCE (if first then CCoinbase else CNormal) H r None)
  | OVote r v => Some (mkCE CVote H r (Some v))
  | OOther _ => None
  end.

Lemma stored_rec first H o e : stored first H o = Some e -> ce_rec e = out_rec o.
Proof.
  destruct o as [r|r v|r]; cbn [stored out_rec].
  - destruct (N.eqb (o_amount r) 0); [discriminate|]. intros E; inversion E; reflexivity.
  - intros E; inversion E; reflexivity.
  - discriminate.
Qed.

Lemma check_out_char P first H m m' o :
  check_out P first H m o = Some m' ->
  cget m (oid o) = None /\
  forall x, cget m' x = match stored first H o with
                        | Some e => if N.eqb x (oid o) then Some e else cget m x
                        | None => cget m x
                        end.
Proof.
  unfold check_out, oid.
  destruct (cget m (o_id (out_rec o))) eqn:G; cbn [is_none]; [discriminate|].
  intros C. split; [reflexivity|]. intros x.
  destruct o as [r|r v|r]; cbn [stored out_rec] in *.
  - destruct (N.eqb (o_amount r) 0); inversion C; subst; reflexivity.
  - destruct (first || N.eqb (o_amount r) 0 || negb (N.eqb (o_asset r) (btm P))); [discriminate|].
    inversion C; subst; reflexivity.
  - inversion C; subst; reflexivity.
Qed.

Lemma find_none_notin (outs : list output) x :
  ~ In x (map oid outs) -> find (fun o => N.eqb x (oid o)) outs = None.
Proof.
  induction outs as [|o outs IH]; cbn [find map In]; intros H; [reflexivity|].
  destruct (N.eqb x (oid o)) eqn:E.
  - apply N.eqb_eq in E. subst. tauto.
  - apply IH. tauto.
Qed.

Lemma outs_char P first H outs : forall m m',
  check_outs P first H m outs = Some m' -> NoDup (map oid outs) ->
  (forall o, In o outs -> cget m (oid o) = None) /\
  (forall x, cget m' x = match find (fun o => N.eqb x (oid o)) outs with
                         | Some o => stored first H o
                         | None => cget m x
                         end).
Proof.
  induction outs as [|o outs IH]; intros m m'; cbn [check_outs map].
  - intros C _. inversion C; subst. split; [intros ? []|reflexivity].
  - destruct (check_out P first H m o) as [m1|] eqn:C1; [|discriminate].
    intros C ND. inversion ND as [|? ? NI ND']; subst.
    destruct (check_out_char _ _ _ _ _ _ C1) as [Hn Hc].
    destruct (IH _ _ C ND') as [Hf Hx].
    assert (Hm1 : forall y, y <> oid o -> cget m1 y = cget m y).
    { intros y Hy. rewrite Hc. destruct (stored first H o); [|reflexivity].
      apply N.eqb_neq in Hy. rewrite Hy. reflexivity. }
    split.
    + intros o' [->|Hin]; [exact Hn|].
      rewrite <- Hm1; [apply Hf; exact Hin|].
      intros E. apply NI. rewrite <- E. apply in_map. exact Hin.
    + intros x. cbn [find]. destruct (N.eqb x (oid o)) eqn:E.
      * apply N.eqb_eq in E; subst x. rewrite Hx, (find_none_notin _ _ NI), Hc.
        destruct (stored first H o); [rewrite N.eqb_refl; reflexivity|exact Hn].
      * rewrite Hx. destruct (find (fun o0 => N.eqb x (oid o0)) outs); [reflexivity|].
        apply Hm1. apply N.eqb_neq. exact E.
Qed.

Lemma nodup_map_inj {A} (f : A -> N) l a b :
  NoDup (map f l) -> In a l -> In b l -> f a = f b -> a = b.
Proof.
  induction l as [|c l IH]; cbn [map In]; intros ND Ha Hb E; [tauto|].
  inversion ND as [|? ? NI ND']; subst.
  destruct Ha as [->|Ha], Hb as [->|Hb]; auto.
  - exfalso. apply NI. rewrite E. apply in_map; auto.
  - exfalso. apply NI. rewrite <- E. apply in_map; auto.
Qed.

(* ------------------------------------------------------------------ deleting the outputs *)

Lemma detach_del_repaired P d o :
  detach_del repaired P d o = ddel d (p2w P (o_prog (out_rec o)), oid o).
Proof. destruct o; reflexivity. Qed.

Lemma detach_outs_gen b P outs : forall d m,
  (forall o e, In o outs -> cget m (oid o) = Some e ->
     p2w P (o_prog (ce_rec e)) = p2w P (o_prog (out_rec o))) ->
  Inv b P d m ->
  Inv b P (fold_left (detach_del repaired P) outs d) (cdels m (map oid outs)).
Proof.
  induction outs as [|o outs IH]; intros d m Hs HI; cbn [fold_left map cdels].
  - exact HI.
  - fold (cdels (cdel m (oid o)) (map oid outs)). apply IH.
    + intros o' e Hin G. rewrite cget_cdel in G.
      destruct (N.eqb (oid o') (oid o)); [discriminate|]. apply Hs; auto. right; exact Hin.
    + rewrite detach_del_repaired. apply core_del; auto.
      intros e G. apply (Hs o e); auto. left; reflexivity.
Qed.

Lemma detach_outs b P first H outs d m1 m2 :
  check_outs P first H m1 outs = Some m2 -> NoDup (map oid outs) ->
  Inv b P d m2 -> Inv b P (fold_left (detach_del repaired P) outs d) m1.
Proof.
  intros C ND HI. destruct (outs_char _ _ _ _ _ _ C ND) as [Hf Hx].
  apply (Inv_meq b P _ (cdels m2 (map oid outs))).
  - intros x. rewrite cget_cdels. destruct (existsb (N.eqb x) (map oid outs)) eqn:E.
    + apply existsb_eqb_in in E. apply in_map_iff in E as [o [Eo Hin]]. subst x.
      symmetry. apply Hf. exact Hin.
    + rewrite Hx, find_none_notin; [reflexivity|].
      intros F. apply existsb_eqb_in in F. congruence.
  - apply detach_outs_gen; auto. intros o e Hin G. rewrite Hx in G.
    destruct (find (fun o0 => N.eqb (oid o) (oid o0)) outs) as [o'|] eqn:F.
    + apply find_some in F as [Hin' E]. apply N.eqb_eq in E.
      assert (o = o') by (eapply nodup_map_inj; eauto). subst o'.
      rewrite (stored_rec _ _ _ _ G). reflexivity.
    + rewrite (Hf o Hin) in G. discriminate.
Qed.

(* ------------------------------------------------------------------ restoring the inputs *)

Definition in_id (i : input) : option N :=
  match i with ISpend r => Some (o_id r) | IVeto r _ => Some (o_id r) | IOther => None end.

(* the (id, entry) pairs a valid input list removes, in order *)
Fixpoint ins_entries (m : cmap) (ins : list input) : list (N * centry) :=
  match ins with
  | [] => []
  | i :: l =>
    match in_id i with
    | None => ins_entries m l
    | Some x =>
      match cget m x with
      | Some e => (x, e) :: ins_entries (cdel m x) l
      | None => []
      end
    end
  end.

Lemma check_in_id P s m m' i x :
  check_in P s m i = Some m' -> in_id i = Some x ->
  exists e, cget m x = Some e /\ m' = cdel m x /\ unlocked P e s = true.
Proof.
  destruct i as [r|r v|]; cbn [check_in in_id]; intros C E; inversion E; subst x.
  - destruct (cget m (o_id r)) as [e|]; [|discriminate].
    destruct (orec_eqb (ce_rec e) r && optN_eqb (ce_vote e) None && unlocked P e s) eqn:B; [|discriminate].
    apply andb_true_iff in B as [_ B]. inversion C; subst. eauto.
  - destruct (cget m (o_id r)) as [e|]; [|discriminate].
    destruct (orec_eqb (ce_rec e) r && optN_eqb (ce_vote e) (Some v) && N.eqb (o_asset r) (btm P) && unlocked P e s) eqn:B; [|discriminate].
    apply andb_true_iff in B as [_ B]. inversion C; subst. eauto.
Qed.

Lemma ins_char P s ins : forall m m',
  check_ins P s m ins = Some m' ->
  NoDup (map fst (ins_entries m ins)) /\
  meq m' (cdels m (map fst (ins_entries m ins))) /\
  (forall x e, In (x, e) (ins_entries m ins) -> cget m x = Some e).
Proof.
  induction ins as [|i ins IH]; intros m m'; cbn [check_ins ins_entries].
  - intros C; inversion C; subst. cbn [map]. split; [constructor|]. split; [apply meq_refl|intros ? ? []].
  - destruct (check_in P s m i) as [m1|] eqn:C1; [|discriminate]. intros C.
    destruct (in_id i) as [x|] eqn:Ei.
    + destruct (check_in_id _ _ _ _ _ _ C1 Ei) as [e [G [-> _]]]. rewrite G.
      destruct (IH _ _ C) as [ND [ME HE]]. cbn [map fst]. split; [|split].
      * constructor; [|exact ND]. intros F. apply in_map_iff in F as [[y e'] [Ey Hin]].
        cbn [fst] in Ey; subst y. specialize (HE _ _ Hin). rewrite cget_cdel, N.eqb_refl in HE. discriminate.
      * exact ME.
      * intros y e' [Eq|Hin]; [inversion Eq; subst; exact G|].
        specialize (HE _ _ Hin). rewrite cget_cdel in HE.
        destruct (N.eqb y x); [discriminate|exact HE].
    + assert (m1 = m) by (destruct i; cbn in Ei, C1; try discriminate; inversion C1; reflexivity).
      subst m1. apply IH. exact C.
Qed.

Lemma unlocked_mono P e s s' :
  sched_mono P -> unlocked P e s = true -> s <= s' -> unlocked P e s' = true.
Proof.
  intros HM. unfold unlocked. destruct (ce_typ e); auto.
  - rewrite !N.leb_le. lia.
  - rewrite !N.leb_le. intros. eapply HM; eauto.
Qed.

Definition restore1 (P : params) (H : N) (d : db) (i : input) : db :=
  batch_save P d (filter_acct P (map (fun u => set_valid u H) (in_utxo P i))).

Lemma restored_fold P H ins : forall d,
  batch_save P d (filter_acct P (map (fun u => set_valid u H) (flat_map (in_utxo P) ins))) =
  fold_left (restore1 P H) ins d.
Proof.
  induction ins as [|i ins IH]; intros d; cbn [flat_map fold_left].
  - reflexivity.
  - rewrite map_app, filter_acct_app, batch_save_app. apply IH.
Qed.

Lemma restore_gen b P s ins : sched_ok b P -> forall mc mc' ma d,
  check_ins P s mc ins = Some mc' ->
  (forall x e, In (x, e) (ins_entries mc ins) -> cget ma x = None) ->
  Inv b P d ma ->
  Inv b P (fold_left (restore1 P s) ins d) (csets ma (ins_entries mc ins)).
Proof.
  intros HS. induction ins as [|i ins IH]; intros mc mc' ma d; cbn [check_ins ins_entries fold_left].
  - intros _ _ HI. exact HI.
  - destruct (check_in P s mc i) as [m1|] eqn:C1; [|discriminate]. intros C Hn HI.
    destruct (in_id i) as [x|] eqn:Ei.
    + destruct (check_in_id _ _ _ _ _ _ C1 Ei) as [e [G [-> HU]]]. rewrite G in *.
      cbn [csets fold_left fst snd]. fold (csets (cset ma x e) (ins_entries (cdel mc x) ins)).
      destruct (ins_char _ _ _ _ _ C) as [_ [_ HE]].
      eapply IH; eauto.
      * intros y e' Hin. rewrite cget_cset. specialize (HE _ _ Hin). rewrite cget_cdel in HE.
        destruct (N.eqb y x); [discriminate|]. apply (Hn y e'). right; exact Hin.
      * assert (Hx : cget ma x = None) by (apply (Hn x e); left; reflexivity).
        assert (HUL : b = true -> forall h, s <= h -> unlocked P e (h + 1) = true).
        { intros Hb h Hh. destruct (HS Hb) as [_ HM]. eapply unlocked_mono; eauto. lia. }
        unfold restore1.
        destruct i as [r|r v|]; cbn [in_id] in Ei; inversion Ei; subst x; cbn [check_in] in C1; rewrite G in C1.
        -- destruct (orec_eqb (ce_rec e) r && optN_eqb (ce_vote e) None && unlocked P e s) eqn:B; [|discriminate].
           apply andb_true_iff in B as [B _]. apply andb_true_iff in B as [B1 B2].
           apply orec_eqb_eq in B1. apply optN_eqb_eq in B2.
           cbn [in_utxo map filter_acct flat_map]. rewrite app_nil_r.
           match goal with |- Inv _ _ (batch_save _ _ (filter1 _ ?u)) _ =>
             change (o_id r) with (u_id u); apply (core_add b P d ma u e) end;
             cbn [set_valid u_id u_asset u_amount u_prog u_vote u_cp u_valid]; try (rewrite B1; reflexivity); auto.
        -- destruct (orec_eqb (ce_rec e) r && optN_eqb (ce_vote e) (Some v) && N.eqb (o_asset r) (btm P) && unlocked P e s) eqn:B; [|discriminate].
           apply andb_true_iff in B as [B _]. apply andb_true_iff in B as [B B3].
           apply andb_true_iff in B as [B1 B2].
           apply orec_eqb_eq in B1. apply optN_eqb_eq in B2.
           cbn [in_utxo]. rewrite B3. cbn [map filter_acct flat_map]. rewrite app_nil_r.
           match goal with |- Inv _ _ (batch_save _ _ (filter1 _ ?u)) _ =>
             change (o_id r) with (u_id u); apply (core_add b P d ma u e) end;
             cbn [set_valid u_id u_asset u_amount u_prog u_vote u_cp u_valid]; try (rewrite B1; reflexivity); auto.
    + assert (m1 = mc) by (destruct i; cbn in Ei, C1; try discriminate; inversion C1; reflexivity).
      subst m1. destruct i; cbn in Ei; try discriminate.
      unfold restore1 at 2. cbn [in_utxo map filter_acct flat_map batch_save fold_left].
      eapply IH; eauto.
Qed.

Lemma lookup_in l x e : lookup l x = Some e -> In (x, e) l.
Proof.
  unfold lookup. destruct (find (fun p => N.eqb x (fst p)) l) as [[y e']|] eqn:F; [|discriminate].
  intros E; inversion E; subst. apply find_some in F as [Hin Ey]. cbn [fst] in Ey.
  apply N.eqb_eq in Ey; subst. exact Hin.
Qed.

Lemma detach_ins b P s ins d m0 m1 :
  sched_ok b P -> check_ins P s m0 ins = Some m1 ->
  Inv b P d m1 -> Inv b P (fold_left (restore1 P s) ins d) m0.
Proof.
  intros HS C HI. destruct (ins_char _ _ _ _ _ C) as [ND [ME HE]].
  apply (Inv_meq b P _ (csets m1 (ins_entries m0 ins))).
  - intros x. rewrite (cget_csets _ ND).
    destruct (lookup (ins_entries m0 ins) x) as [e|] eqn:L.
    + apply lookup_in in L. symmetry. apply HE. exact L.
    + rewrite ME, cget_cdels. apply lookup_none_notin in L.
      destruct (existsb (N.eqb x) (map fst (ins_entries m0 ins))) eqn:E; [|reflexivity].
      apply existsb_eqb_in in E. contradiction.
  - eapply restore_gen; eauto. intros x e Hin. rewrite ME, cget_cdels.
    assert (E : existsb (N.eqb x) (map fst (ins_entries m0 ins)) = true).
    { apply existsb_eqb_in. apply in_map_iff. exists (x, e); auto. }
    rewrite E. reflexivity.
Qed.

(* ------------------------------------------------------------------ transactions, blocks *)

Lemma detach_tx_inv b P first H d m m' t :
  sched_ok b P -> check_tx P first H m t = Some m' ->
  Inv b P d m' -> Inv b P (detach_tx repaired P H d t) m.
Proof.
  intros HS. unfold check_tx, detach_tx, restored, tx_in_to_utxos.
  destruct (Bool.eqb (t_cb t) first && nodupb (out_ids t)) eqn:C; [|discriminate].
  apply andb_true_iff in C as [_ ND]. apply nodupb_NoDup in ND.
  destruct (check_ins P H m (t_ins t)) as [m1|] eqn:CI; [|discriminate].
  intros CO HI. cbn [restore_vh repaired]. rewrite restored_fold.
  eapply detach_ins; eauto. eapply detach_outs; eauto.
Qed.

Lemma detach_txs_inv b P H txs : sched_ok b P -> forall first d m m',
  check_txs P first H m txs = Some m' -> Inv b P d m' ->
  Inv b P (fold_left (detach_tx repaired P H) (rev txs) d) m.
Proof.
  intros HS. induction txs as [|t txs IH]; intros first d m m'; cbn [check_txs rev].
  - intros C HI; inversion C; subst. exact HI.
  - destruct (check_tx P first H m t) as [m1|] eqn:C1; [|discriminate]. intros C HI.
    rewrite fold_left_app. cbn [fold_left]. eapply detach_tx_inv; eauto.
Qed.

Lemma detach_block_inv b P d m m' blk :
  sched_ok b P -> check_block P m blk = Some m' ->
  Inv b P d m' -> Inv b P (detach_utxos repaired P d blk) m.
Proof.
  intros HS. unfold check_block, detach_utxos.
  destruct (small P (b_height blk)); [|discriminate].
  intros C HI. eapply detach_txs_inv; eauto.
Qed.
