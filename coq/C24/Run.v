(* C24 / C25 — helpers used by the generated case files.

   A case: the vote lock schedule, the genesis block and the trunk (given once in the
   header of the case file), then one entry per block delivery: [DNone] when the node's
   main chain did not change, [DStep k news] when the node detached its top k blocks and
   attached [news].  After every delivery the wallet is observed (when the node's best
   height exceeds the wallet's, after the updater has caught up):
     - whether the wallet's best block is the node's best block,
     - the node's best height,
     - for every output id 1..n of the case the record under the standard key and under
       the contract key, when present: asset, amount, program, vote key, account, program index, change
       flag, ValidHeight, the keeper's verdict "usable at the node's best height", and
       the consensus verdict for spending it at the next height on the chain the wallet
       is attached to (0 not an unspent output, 1 immature / locked, 2 spendable). *)
From Coq Require Import List NArith Bool.
From Verif Require Import Cmp.
From C24 Require Import Model.
Import ListNotations.
Open Scope N_scope.

(* the program vocabulary of the harness: 0 = OP_TRUE (not segwit); 1, 2 = addresses 1, 2
   of account 1; 3 = change address 1 of account 1; 4 = address 1 of account 2;
   5, 6 = segwit programs nobody registered; 10, 11 = address 1 of the multi-signature accounts
   3 (2-of-2) and 4 (2-of-3): P2WSH programs, standard key space ("msig" stream); 7..9 are the late
   programs of the "rescan" stream, which is not run through the model *)
Definition h_p2w (p : N) : bool := ((1 <=? p) && (p <=? 6)) || ((10 <=? p) && (p <=? 11)).
Definition h_owner (p : N) : option cp :=
  match p with
  | 1 => Some (mkCP 1 1 false)
  | 2 => Some (mkCP 1 2 false)
  | 3 => Some (mkCP 1 1 true)
  | 4 => Some (mkCP 2 1 false)
  | 10 => Some (mkCP 3 1 false)
  | 11 => Some (mkCP 4 1 false)
  | _ => None
  end.

(* consensus.VotePendingBlockNums over a table of (begin, end, num); defaultVotePendingNum *)
Fixpoint sched_fun (t : list (N * N * N)) (h : N) : N :=
  match t with
  | [] => 302400
  | (b, e, n) :: t' => if (b <=? h) && (h <? e) then n else sched_fun t' h
  end.

Definition PR (t : list (N * N * N)) : params := mkP h_p2w h_owner 0 10 (sched_fun t).

Inductive deliv := DNone | DStep (k : nat) (news : list block).

(* one present record: output id, key space (true = standard), asset, amount, program, vote,
   account, index, change, valid height, usable, spend status *)
Definition orecd := (N * bool * (N * N * N * option N * N * N * bool * N * bool * N))%type.

Definition spend_status (P : params) (wc : list block) (id h : N) : N :=
  match cscan P wc with
  | Some m =>
    match cget m id with
    | Some e => if unlocked P e (h + 1) then 2 else 1
    | None => 0
    end
  | None => 3
  end.

Definition proj_rec (P : params) (wc : list block) (h : N) (id : N) (sp : bool) (ou : option utxo) : list orecd :=
  match ou with
  | Some u =>
    let c := match u_cp u with Some c => c | None => mkCP 0 0 false end in
    [(id, sp, (u_asset u, u_amount u, u_prog u, u_vote u, cp_acct c, cp_idx c, cp_change c,
               u_valid u, usable u h, spend_status P wc (u_id u) h))]
  | None => []
  end.

(* the records present under the tracked ids, in the order of the ids, standard key first *)
Definition obs := (bool * N * list orecd)%type.

Definition observe (P : params) (s : sys) (ids : list N) : obs :=
  let h := tip_height (s_main s) in
  let wc := wchain (s_w s) in
  (N.eqb (tip_id (s_w s)) (match s_main s with b :: _ => b_id b | [] => 0 end), h,
   flat_map (fun id => proj_rec P wc h id true (dget (wdb (s_w s)) (true, id)) ++
                       proj_rec P wc h id false (dget (wdb (s_w s)) (false, id))) ids).

Fixpoint deliver_all (I : impl) (P : params) (s : sys) (ds : list deliv) (ids : list N) : list obs :=
  match ds with
  | [] => []
  | DNone :: r => observe P s ids :: deliver_all I P s r ids
  | DStep k news :: r =>
    let s' := deliver I P s k news in
    observe P s' ids :: deliver_all I P s' r ids
  end.

(* the node is fed genesis and the trunk block by block before the case starts *)
Definition start (I : impl) (P : params) (g : block) (trunk : list block) : sys :=
  fold_left (fun s b => deliver I P s 0 [b]) trunk (mkSys [g] (winit P g)).

(* ids 1..n *)
Definition ids_upto (n : N) : list N := map N.of_nat (seq 1 (N.to_nat n)).

Definition run_case (t : list (N * N * N)) (g : block) (trunk : list block)
           (ds : list deliv) (n : N) : list obs :=
  deliver_all repaired (PR t) (start repaired (PR t) g trunk) ds (ids_upto n).

(* C24 compares the records; C25 compares ValidHeight, the keeper's verdict and the
   consensus verdict *)
Definition c24_rec := (N * bool * (N * N * N * option N * N * N * bool * N))%type.
Definition c24_of (r : orecd) : c24_rec :=
  match r with
  | (id, sp, (a, am, p, v, ac, ix, ch, vh, _, _)) => (id, sp, (a, am, p, v, ac, ix, ch, vh))
  end.
Definition c24_obs := (bool * N * list c24_rec)%type.
Definition c24_project (o : obs) : c24_obs :=
  match o with (sy, h, l) => (sy, h, map c24_of l) end.

Definition run_c24 t g trunk ds n : list c24_obs := map c24_project (run_case t g trunk ds n).

Definition c24_rec_eqb : c24_rec -> c24_rec -> bool :=
  pair_eqb (pair_eqb N.eqb Bool.eqb)
    (pair_eqb (pair_eqb (pair_eqb (pair_eqb (pair_eqb (pair_eqb (pair_eqb
      N.eqb N.eqb) N.eqb) (option_eqb N.eqb)) N.eqb) N.eqb) Bool.eqb) N.eqb).

Definition c24_obs_eqb : c24_obs -> c24_obs -> bool :=
  pair_eqb (pair_eqb Bool.eqb N.eqb) (list_eqb c24_rec_eqb).

Definition c24_res := list c24_obs.
Definition c24_res_eqb : c24_res -> c24_res -> bool := list_eqb c24_obs_eqb.
