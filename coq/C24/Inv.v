(* C24 / C25 — the invariant between the wallet database and the consensus utxo map,
   and its preservation by attach_tx / detach_tx (repaired variant). *)
From Coq Require Import List NArith Bool Lia.
From C24 Require Import Model Maps.
Import ListNotations.
Open Scope N_scope.

(* what C24 compares: identity, asset, amount, program, vote key, owning account / program *)
Definition uproj := (N * N * N * N * option N * option cp)%type.

Definition proj (u : utxo) : uproj :=
  (u_id u, u_asset u, u_amount u, u_prog u, u_vote u, u_cp u).

(* the wallet's view of the consensus utxo map: the unspent outputs paying a segwit
   program of the wallet's table, under the standard key *)
Definition view (P : params) (m : cmap) (k : key) : option uproj :=
  match cget m (snd k) with
  | Some e =>
    let r := ce_rec e in
    if Bool.eqb (fst k) true && p2w P (o_prog r) then
      match owner P (o_prog r) with
      | Some c => Some (snd k, o_asset r, o_amount r, o_prog r, ce_vote e, Some c)
      | None => None
      end
    else None
  | None => None
  end.

Definition V (P : params) (d : db) (m : cmap) : Prop :=
  forall k, option_map proj (dget d k) = view P m k.

(* every record that is reported mature from height h on is unlocked at every later height *)
Definition Vh (P : params) (d : db) (m : cmap) : Prop :=
  forall k u e, dget d k = Some u -> cget m (snd k) = Some e ->
    forall h, u_valid u <= h -> unlocked P e (h + 1) = true.

(* [b]: also carry the maturity part (C25) *)
Definition Inv (b : bool) (P : params) (d : db) (m : cmap) : Prop :=
  V P d m /\ (b = true -> Vh P d m).

Lemma view_meq P m m' k : meq m m' -> view P m k = view P m' k.
Proof. intros H. unfold view. rewrite (H (snd k)). reflexivity. Qed.

Lemma Inv_meq b P d m m' : meq m m' -> Inv b P d m -> Inv b P d m'.
Proof.
  intros H [HV HH]. split.
  - intros k. rewrite <- (view_meq P m m' k H). apply HV.
  - intros Hb k u e G C. rewrite <- (H (snd k)) in C. exact (HH Hb k u e G C).
Qed.

(* ------------------------------------------------------------------ the two core steps *)

Lemma core_del b P d m sp x :
  (forall e, cget m x = Some e -> p2w P (o_prog (ce_rec e)) = sp) ->
  Inv b P d m -> Inv b P (ddel d (sp, x)) (cdel m x).
Proof.
  intros Hsp [HV HH]. split.
  - intros k. rewrite dget_ddel. unfold view. rewrite cget_cdel.
    destruct (key_eqb k (sp, x)) eqn:E.
    + apply key_eqb_eq in E; subst k. cbn [snd]. rewrite N.eqb_refl. reflexivity.
    + destruct (N.eqb (snd k) x) eqn:F.
      * apply N.eqb_eq in F. specialize (HV k). unfold view in HV. rewrite F in HV.
        rewrite HV. destruct (cget m x) as [e|] eqn:G; [|reflexivity].
        specialize (Hsp e eq_refl).
        destruct (Bool.eqb (fst k) true) eqn:K; cbn [andb]; [|reflexivity].
        destruct (p2w P (o_prog (ce_rec e))) eqn:W; [|reflexivity].
        exfalso. apply key_eqb_neq in E. apply E. apply eqb_prop in K.
        destruct k as [k1 k2]; cbn [fst snd] in *. subst. reflexivity.
      * exact (HV k).
  - intros Hb k u e G C. rewrite dget_ddel in G. rewrite cget_cdel in C.
    destruct (key_eqb k (sp, x)); [discriminate|].
    destruct (N.eqb (snd k) x); [discriminate|]. exact (HH Hb k u e G C).
Qed.

(* a new unspent output (attach), or a spent output coming back (detach) *)
Lemma core_add b P d m u e :
  cget m (u_id u) = None ->
  u_id u = o_id (ce_rec e) -> u_asset u = o_asset (ce_rec e) ->
  u_amount u = o_amount (ce_rec e) -> u_prog u = o_prog (ce_rec e) ->
  u_vote u = ce_vote e -> u_cp u = None ->
  (b = true -> forall h, u_valid u <= h -> unlocked P e (h + 1) = true) ->
  Inv b P d m -> Inv b P (batch_save P d (filter1 P u)) (cset m (u_id u) e).
Proof.
  intros Hn Hid Has Ham Hpr Hvo Hcp Hun [HV HH].
  assert (Hother : forall k, snd k = u_id u -> dget d k = None).
  { intros k Hk. specialize (HV k). unfold view in HV. rewrite Hk, Hn in HV.
    destruct (dget d k); [discriminate|reflexivity]. }
  unfold filter1. destruct (p2w P (u_prog u)) eqn:W.
  2:{ cbn [batch_save fold_left]. split.
      - intros k. unfold view. rewrite cget_cset.
        destruct (N.eqb (snd k) (u_id u)) eqn:F.
        + apply N.eqb_eq in F. rewrite (Hother k F). cbn [option_map].
          rewrite <- Hpr, W, andb_false_r. reflexivity.
        + exact (HV k).
      - intros Hb k u' e' G C. rewrite cget_cset in C.
        destruct (N.eqb (snd k) (u_id u)) eqn:F.
        + apply N.eqb_eq in F. rewrite (Hother k F) in G. discriminate.
        + exact (HH Hb k u' e' G C). }
  destruct (owner P (u_prog u)) as [c|] eqn:O.
  2:{ cbn [batch_save fold_left]. split.
      - intros k. unfold view. rewrite cget_cset.
        destruct (N.eqb (snd k) (u_id u)) eqn:F.
        + apply N.eqb_eq in F. rewrite (Hother k F). cbn [option_map].
          rewrite <- Hpr, O. destruct (Bool.eqb (fst k) true && p2w P (u_prog u)); reflexivity.
        + exact (HV k).
      - intros Hb k u' e' G C. rewrite cget_cset in C.
        destruct (N.eqb (snd k) (u_id u)) eqn:F.
        + apply N.eqb_eq in F. rewrite (Hother k F) in G. discriminate.
        + exact (HH Hb k u' e' G C). }
  cbn [batch_save fold_left]. unfold ukey. cbn [set_cp u_prog u_id]. rewrite W. split.
  - intros k. rewrite dget_dset. unfold view. rewrite cget_cset.
    destruct (key_eqb k (true, u_id u)) eqn:E.
    + apply key_eqb_eq in E; subst k. cbn [snd fst]. rewrite N.eqb_refl.
      cbn [option_map proj set_cp u_id u_asset u_amount u_prog u_vote u_cp Bool.eqb andb].
      rewrite <- Hpr, W, O, <- Has, <- Ham, <- Hvo. reflexivity.
    + destruct (N.eqb (snd k) (u_id u)) eqn:F.
      * apply N.eqb_eq in F. rewrite (Hother k F). cbn [option_map].
        destruct (Bool.eqb (fst k) true) eqn:K; cbn [andb]; [|reflexivity].
        exfalso. apply key_eqb_neq in E. apply E. apply eqb_prop in K.
        destruct k as [k1 k2]; cbn [fst snd] in *. subst. reflexivity.
      * exact (HV k).
  - intros Hb k u' e' G C. rewrite dget_dset in G. rewrite cget_cset in C.
    destruct (key_eqb k (true, u_id u)) eqn:E.
    + apply key_eqb_eq in E; subst k. cbn [snd] in C. rewrite N.eqb_refl in C.
      specialize (Hun Hb). inversion G; inversion C; subst u' e'. cbn [set_cp u_valid]. exact Hun.
    + destruct (N.eqb (snd k) (u_id u)) eqn:F.
      * apply N.eqb_eq in F. rewrite (Hother k F) in G. discriminate.
      * exact (HH Hb k u' e' G C).
Qed.

(* ------------------------------------------------------------------ schedule hypotheses (C25) *)

(* a vote output the wallet calls mature (creation height + lock at the creation
   height) is unlocked for consensus (lock at the spending height) from then on *)
Definition sched_create (P : params) : Prop :=
  forall H h, H + vote_pend P H < 18446744073709551616 -> H + vote_pend P H <= h ->
    wrap64 (H + vote_pend P (h + 1)) <= h + 1.

(* a vote output that could be vetoed at height s can be vetoed at every later height *)
Definition sched_mono (P : params) : Prop :=
  forall H s s', wrap64 (H + vote_pend P s) <= s -> s <= s' ->
    wrap64 (H + vote_pend P s') <= s'.

Definition sched_ok (b : bool) (P : params) : Prop := b = true -> sched_create P /\ sched_mono P.

(* ------------------------------------------------------------------ attach: inputs *)

Lemma batch_del_app P d l1 l2 : batch_del P d (l1 ++ l2) = batch_del P (batch_del P d l1) l2.
Proof. unfold batch_del. apply fold_left_app. Qed.

Lemma batch_save_app P d l1 l2 : batch_save P d (l1 ++ l2) = batch_save P (batch_save P d l1) l2.
Proof. unfold batch_save. apply fold_left_app. Qed.

Lemma filter_acct_app P l1 l2 : filter_acct P (l1 ++ l2) = filter_acct P l1 ++ filter_acct P l2.
Proof. unfold filter_acct. apply flat_map_app. Qed.

Lemma attach_in b P s d m m' i :
  check_in P s m i = Some m' -> Inv b P d m -> Inv b P (batch_del P d (in_utxo P i)) m'.
Proof.
  destruct i as [r|r v|]; cbn [check_in in_utxo].
  - destruct (cget m (o_id r)) as [e|] eqn:G; [|discriminate].
    destruct (orec_eqb (ce_rec e) r && optN_eqb (ce_vote e) None && unlocked P e s) eqn:C; [|discriminate].
    intros Hm HI; inversion Hm; subst m'; clear Hm.
    apply andb_true_iff in C as [C _]. apply andb_true_iff in C as [C _].
    apply orec_eqb_eq in C.
    cbn [batch_del fold_left]. unfold ukey; cbn [u_prog u_id].
    apply core_del; auto. intros e' G'. rewrite G in G'; inversion G'; subst e'. rewrite C. reflexivity.
  - destruct (cget m (o_id r)) as [e|] eqn:G; [|discriminate].
    destruct (orec_eqb (ce_rec e) r && optN_eqb (ce_vote e) (Some v) && N.eqb (o_asset r) (btm P) && unlocked P e s) eqn:C; [|discriminate].
    intros Hm HI; inversion Hm; subst m'; clear Hm.
    apply andb_true_iff in C as [C _]. apply andb_true_iff in C as [C A].
    apply andb_true_iff in C as [C _]. apply orec_eqb_eq in C.
    rewrite A. cbn [batch_del fold_left]. unfold ukey; cbn [u_prog u_id].
    apply core_del; auto. intros e' G'. rewrite G in G'; inversion G'; subst e'. rewrite C. reflexivity.
  - intros Hm HI; inversion Hm; subst. exact HI.
Qed.

Lemma attach_ins b P s ins : forall d m m',
  check_ins P s m ins = Some m' -> Inv b P d m ->
  Inv b P (batch_del P d (flat_map (in_utxo P) ins)) m'.
Proof.
  induction ins as [|i ins IH]; intros d m m'; cbn [check_ins flat_map].
  - intros Hm HI; inversion Hm; subst. exact HI.
  - destruct (check_in P s m i) as [m1|] eqn:C; [|discriminate].
    intros Hm HI. rewrite batch_del_app. eapply IH; eauto. eapply attach_in; eauto.
Qed.

(* ------------------------------------------------------------------ attach: outputs *)

Lemma wrap64_small x : x < 18446744073709551616 -> wrap64 x = x.
Proof. intros H. unfold wrap64. apply N.mod_small. exact H. Qed.

Lemma attach_out b P first H d m m' o :
  sched_ok b P -> small P H = true ->
  check_out P first H m o = Some m' -> Inv b P d m ->
  Inv b P (batch_save P d (filter_acct P (out_utxo P first H o))) m'.
Proof.
  intros HS Hsm. unfold check_out.
  destruct (is_none (cget m (o_id (out_rec o)))) eqn:N0; [|discriminate].
  assert (Hn : cget m (o_id (out_rec o)) = None) by (destruct (cget m (o_id (out_rec o))); [discriminate|reflexivity]).
  clear N0. unfold small in Hsm. apply andb_true_iff in Hsm as [Hs1 Hs2].
  apply N.ltb_lt in Hs1. apply N.ltb_lt in Hs2.
  destruct o as [r|r v|r]; cbn [out_rec] in Hn; cbn [out_utxo].
  - destruct (N.eqb (o_amount r) 0) eqn:Z.
    + intros Hm HI; inversion Hm; subst. exact HI.
    + intros Hm HI; inversion Hm; subst m'; clear Hm.
      cbn [filter_acct flat_map]. rewrite app_nil_r.
      match goal with |- Inv _ _ (batch_save _ _ (filter1 _ ?u)) (cset _ _ ?e) =>
        change (o_id r) with (u_id u); apply (core_add b P d m u e) end; auto.
      intros Hb h Hh. cbn [u_valid] in Hh. unfold unlocked; cbn [ce_typ ce_height].
      destruct first; [|reflexivity]. apply N.leb_le. lia.
  - destruct (first || N.eqb (o_amount r) 0 || negb (N.eqb (o_asset r) (btm P))) eqn:Z; [discriminate|].
    intros Hm HI; inversion Hm; subst m'; clear Hm.
    cbn [filter_acct flat_map]. rewrite app_nil_r.
    match goal with |- Inv _ _ (batch_save _ _ (filter1 _ ?u)) (cset _ _ ?e) =>
      change (o_id r) with (u_id u); apply (core_add b P d m u e) end; auto.
    intros Hb h Hh. cbn [u_valid] in Hh. unfold unlocked; cbn [ce_typ ce_height].
    destruct (HS Hb) as [HC _]. apply N.leb_le. rewrite (wrap64_small _ Hs2) in Hh.
    apply HC; auto.
  - intros Hm HI; inversion Hm; subst. exact HI.
Qed.

Lemma attach_outs b P first H outs : sched_ok b P -> small P H = true -> forall d m m',
  check_outs P first H m outs = Some m' -> Inv b P d m ->
  Inv b P (batch_save P d (filter_acct P (flat_map (out_utxo P first H) outs))) m'.
Proof.
  intros HS Hsm. induction outs as [|o outs IH]; intros d m m'; cbn [check_outs flat_map].
  - intros Hm HI; inversion Hm; subst. exact HI.
  - destruct (check_out P first H m o) as [m1|] eqn:C; [|discriminate].
    intros Hm HI. rewrite filter_acct_app, batch_save_app. eapply IH; eauto.
    eapply attach_out; eauto.
Qed.

Lemma attach_tx_inv b P first H d m m' t :
  sched_ok b P -> small P H = true ->
  check_tx P first H m t = Some m' -> Inv b P d m -> Inv b P (attach_tx P H d t) m'.
Proof.
  intros HS Hsm. unfold check_tx, attach_tx, tx_in_to_utxos, tx_out_to_utxos.
  destruct (Bool.eqb (t_cb t) first && nodupb (out_ids t)) eqn:C; [|discriminate].
  apply andb_true_iff in C as [C _]. apply eqb_prop in C. rewrite C.
  destruct (check_ins P H m (t_ins t)) as [m1|] eqn:CI; [|discriminate].
  intros CO HI. eapply attach_outs; eauto. eapply attach_ins; eauto.
Qed.

Lemma attach_txs_inv b P H txs : sched_ok b P -> small P H = true -> forall first d m m',
  check_txs P first H m txs = Some m' -> Inv b P d m ->
  Inv b P (fold_left (attach_tx P H) txs d) m'.
Proof.
  intros HS Hsm. induction txs as [|t txs IH]; intros first d m m'; cbn [check_txs fold_left].
  - intros Hm HI; inversion Hm; subst. exact HI.
  - destruct (check_tx P first H m t) as [m1|] eqn:C; [|discriminate].
    intros Hm HI. eapply IH; eauto. eapply attach_tx_inv; eauto.
Qed.

Lemma attach_block_inv b P d m m' blk :
  sched_ok b P -> check_block P m blk = Some m' -> Inv b P d m ->
  Inv b P (attach_utxos P d blk) m'.
Proof.
  intros HS. unfold check_block, attach_utxos.
  destruct (small P (b_height blk)) eqn:S; [|discriminate].
  intros C HI. eapply attach_txs_inv; eauto.
Qed.
