(* C24 / C25 — the wallet's UTXO bookkeeping.  EXECUTABLE MODEL, no proofs.

   Mirrors
     wallet/utxo.go            attachUtxos, detachUtxos, filterAccountUtxo, batchSaveUtxos,
                               txInToUtxos, txOutToUtxos
     wallet/wallet.go          AttachBlock, DetachBlock, walletUpdater (detach while the
                               wallet's best block is not in the main chain, then attach by
                               height; woken by Chain.BlockWaiter(WorkHeight+1) only)
     account/utxo_keeper.go    the maturity filter ValidHeight <= currentHeight
   and, as the SPECIFICATION side ("spendable by consensus"),
     protocol/state/utxo_view.go   applySpendUtxo / applyOutputUtxo: which outputs exist
                               unspent along a chain, their utxo type and creating height,
                               coinbase maturity and the vote lock.

   Hashes (block ids, output ids, programs, assets, vote keys) are labels.  A spent
   output is carried by the spending transaction (tx.Entries[prevout]) with its id,
   asset, amount and program; a veto input also carries the vote key.

   The wallet database is an association list (newest binding first): [dset]
   conses, [ddel] filters, [dget] returns the first binding.  A key is
   (key space, output id): account.StandardUTXOKey (true) / ContractUTXOKey (false).
   LevelDB batches apply their operations in order, so a batch is modelled by
   applying the operations directly.  filterAccountUtxo iterates a Go map of
   scripts: its result order is arbitrary, but the records it returns carry
   distinct output ids, so the order of the following batch.Set calls is immaterial;
   the model keeps list order.

   Two variants of detachUtxos ([impl]):
     pinned    the code at the pinned commit: outputs of a detached block are deleted
               only when tx.OriginalOutput(id) succeeds (vote outputs stay); restored
               inputs keep ValidHeight 0;
     repaired  the code in /repo's working tree: every output of a detached block is
               deleted; a restored input gets ValidHeight = height of the detached block.
*)
From Coq Require Import List NArith Bool.
Import ListNotations.
Open Scope N_scope.

(* ------------------------------------------------------------------ transactions, blocks *)

(* what an output id commits to (besides its position): id, asset, amount, control program *)
Record orec := mkO { o_id : N; o_asset : N; o_amount : N; o_prog : N }.

(* result entries: bc.OriginalOutput / bc.VoteOutput (vote key) / anything else (retirement) *)
Inductive output := OOrig (r : orec) | OVote (r : orec) (v : N) | OOther (r : orec).

(* input entries: bc.Spend / bc.VetoInput with the carried prevout; issuance, coinbase *)
Inductive input := ISpend (r : orec) | IVeto (r : orec) (v : N) | IOther.

(* t_cb: tx.Inputs[0].InputType() == CoinbaseInputType *)
Record tx := mkTx { t_cb : bool; t_ins : list input; t_outs : list output }.

Record block := mkB { b_id : N; b_prev : N; b_height : N; b_txs : list tx }.

Definition out_rec (o : output) : orec :=
  match o with OOrig r => r | OVote r _ => r | OOther r => r end.

(* ------------------------------------------------------------------ parameters *)

(* account.CtrlProgram as found under ContractKey(sha3(program)) *)
Record cp := mkCP { cp_acct : N; cp_idx : N; cp_change : bool }.

Record params := mkP {
  p2w : N -> bool;            (* segwit.IsP2WScript *)
  owner : N -> option cp;     (* the wallet's control-program table *)
  btm : N;                    (* consensus.BTMAssetID *)
  cb_pend : N;                (* consensus.CoinbasePendingBlockNumber *)
  vote_pend : N -> N          (* consensus.VotePendingBlockNums *)
}.

Record impl := mkI { del_all_kinds : bool; restore_vh : bool }.
Definition pinned : impl := mkI false false.
Definition repaired : impl := mkI true true.

Definition wrap64 (x : N) : N := x mod 18446744073709551616.

(* ------------------------------------------------------------------ wallet records, database *)

Record utxo := mkU {
  u_id : N; u_asset : N; u_amount : N; u_prog : N;
  u_vote : option N;          (* Vote *)
  u_cp : option cp;           (* AccountID, ControlProgramIndex, Change: set by filterAccountUtxo *)
  u_valid : N                 (* ValidHeight *)
}.

Definition key := (bool * N)%type.

Definition key_eqb (a b : key) : bool := Bool.eqb (fst a) (fst b) && N.eqb (snd a) (snd b).

Definition db := list (key * utxo).

Fixpoint dget (d : db) (k : key) : option utxo :=
  match d with
  | [] => None
  | (k', u) :: d' => if key_eqb k k' then Some u else dget d' k
  end.

Definition dset (d : db) (k : key) (u : utxo) : db := (k, u) :: d.

Definition ddel (d : db) (k : key) : db := filter (fun p => negb (key_eqb k (fst p))) d.

(* StandardUTXOKey when the program is a segwit script, ContractUTXOKey otherwise *)
Definition ukey (P : params) (u : utxo) : key := (p2w P (u_prog u), u_id u).

Definition set_cp (u : utxo) (c : cp) : utxo :=
  mkU (u_id u) (u_asset u) (u_amount u) (u_prog u) (u_vote u) (Some c) (u_valid u).

Definition set_valid (u : utxo) (h : N) : utxo :=
  mkU (u_id u) (u_asset u) (u_amount u) (u_prog u) (u_vote u) (u_cp u) h.

(* ------------------------------------------------------------------ wallet/utxo.go *)

(* txInToUtxos, one input *)
Definition in_utxo (P : params) (i : input) : list utxo :=
  match i with
  | ISpend r => [mkU (o_id r) (o_asset r) (o_amount r) (o_prog r) None None 0]
  | IVeto r v =>
    if N.eqb (o_asset r) (btm P)
    then [mkU (o_id r) (o_asset r) (o_amount r) (o_prog r) (Some v) None 0]
    else []
  | IOther => []
  end.

Definition tx_in_to_utxos (P : params) (t : tx) : list utxo := flat_map (in_utxo P) (t_ins t).

(* txOutToUtxos, one output *)
Definition out_utxo (P : params) (cb : bool) (H : N) (o : output) : list utxo :=
  match o with
  | OOrig r =>
    if N.eqb (o_amount r) 0 then []
    else [mkU (o_id r) (o_asset r) (o_amount r) (o_prog r) None None
              (if cb then wrap64 (H + cb_pend P) else 0)]
  | OVote r v =>
    [mkU (o_id r) (o_asset r) (o_amount r) (o_prog r) (Some v) None (wrap64 (H + vote_pend P H))]
  | OOther _ => []
  end.

Definition tx_out_to_utxos (P : params) (t : tx) (H : N) : list utxo :=
  flat_map (out_utxo P (t_cb t) H) (t_outs t).

(* filterAccountUtxo, one record *)
Definition filter1 (P : params) (u : utxo) : list utxo :=
  if p2w P (u_prog u)
  then match owner P (u_prog u) with Some c => [set_cp u c] | None => [] end
  else [].

Definition filter_acct (P : params) (us : list utxo) : list utxo := flat_map (filter1 P) us.

(* batchSaveUtxos *)
Definition batch_save (P : params) (d : db) (us : list utxo) : db :=
  fold_left (fun d u => dset d (ukey P u) u) us d.

Definition batch_del (P : params) (d : db) (us : list utxo) : db :=
  fold_left (fun d u => ddel d (ukey P u)) us d.

(* attachUtxos, one transaction: delete the inputs, save the wallet's outputs *)
Definition attach_tx (P : params) (H : N) (d : db) (t : tx) : db :=
  batch_save P (batch_del P d (tx_in_to_utxos P t)) (filter_acct P (tx_out_to_utxos P t H)).

Definition attach_utxos (P : params) (d : db) (b : block) : db :=
  fold_left (attach_tx P (b_height b)) (b_txs b) d.

(* detachUtxos, the deletion of one result id *)
Definition detach_del (I : impl) (P : params) (d : db) (o : output) : db :=
  match o with
  | OOrig r => ddel d (p2w P (o_prog r), o_id r)
  | OVote r _ | OOther r =>
    if del_all_kinds I then ddel d (p2w P (o_prog r), o_id r) else d
  end.

Definition restored (I : impl) (P : params) (H : N) (t : tx) : list utxo :=
  map (fun u => if restore_vh I then set_valid u H else u) (tx_in_to_utxos P t).

Definition detach_tx (I : impl) (P : params) (H : N) (d : db) (t : tx) : db :=
  batch_save P (fold_left (detach_del I P) (t_outs t) d) (filter_acct P (restored I P H t)).

(* for txIndex := len-1 .. 0 *)
Definition detach_utxos (I : impl) (P : params) (d : db) (b : block) : db :=
  fold_left (detach_tx I P (b_height b)) (rev (b_txs b)) d.

(* ------------------------------------------------------------------ wallet/wallet.go *)

(* the blocks the wallet has attached, tip first (status.WorkHash = status.BestHash = the
   tip: rescans, which move WorkHash alone, are not modelled), and the utxo records *)
Record wstate := mkW { wchain : list block; wdb : db }.

Definition tip_id (st : wstate) : N :=
  match wchain st with b :: _ => b_id b | [] => 0 end.   (* bc.Hash{} before genesis *)

Definition tip_height (c : list block) : N :=
  match c with b :: _ => b_height b | [] => 0 end.

(* loadWalletInfo on an empty database: AttachBlock(genesis) *)
Definition winit (P : params) (g : block) : wstate := mkW [g] (attach_utxos P [] g).

Inductive op := OAttach (b : block) | ODetach.

Definition wstep (I : impl) (P : params) (st : wstate) (o : op) : wstate :=
  match o with
  | OAttach b =>
    if N.eqb (b_prev b) (tip_id st)
    then mkW (b :: wchain st) (attach_utxos P (wdb st) b)
    else st                                  (* "skip attachBlock due to status hash ..." *)
  | ODetach =>                                (* DetachBlock(block of status.BestHash) *)
    match wchain st with
    | b :: ((_ :: _) as c) => mkW c (detach_utxos I P (wdb st) b)
    | _ => st                                 (* the genesis block is in every main chain *)
    end
  end.

Definition wrun (I : impl) (P : params) (st : wstate) (ops : list op) : wstate :=
  fold_left (wstep I P) ops st.

(* Chain.GetBlockByHeight / Chain.InMainChain over the main chain (tip first) *)
Definition block_at (main : list block) (h : N) : option block :=
  find (fun x => N.eqb (b_height x) h) main.

Definition in_main (main : list block) (b : block) : bool :=
  match block_at main (b_height b) with
  | Some x => N.eqb (b_id x) (b_id b)
  | None => false
  end.

(* one iteration of walletUpdater's loop *)
Definition walk_step (main : list block) (st : wstate) : option op :=
  match wchain st with
  | [] => None
  | t :: _ =>
    if in_main main t
    then match block_at main (b_height t + 1) with
         | Some b => Some (OAttach b)
         | None => None                      (* walletBlockWaiter *)
         end
    else Some ODetach
  end.

Fixpoint walk (I : impl) (P : params) (fuel : nat) (main : list block) (st : wstate) : wstate :=
  match fuel with
  | O => st
  | S f =>
    match walk_step main st with
    | Some o => walk I P f main (wstep I P st o)
    | None => st
    end
  end.

(* the node and its wallet: the main chain changes (reorganizeChain: the top k blocks
   leave, [news] enter bottom up); the updater is woken only when the best height
   exceeds the wallet's (BlockWaiter(WorkHeight + 1)) *)
Record sys := mkSys { s_main : list block; s_w : wstate }.

Definition new_main (main : list block) (k : nat) (news : list block) : list block :=
  rev news ++ skipn k main.

Definition deliver (I : impl) (P : params) (s : sys) (k : nat) (news : list block) : sys :=
  let main := new_main (s_main s) k news in
  if tip_height (wchain (s_w s)) <? tip_height main
  then mkSys main (walk I P (length main + length (wchain (s_w s)) + 1) main (s_w s))
  else mkSys main (s_w s).

(* the keeper's filter: u.ValidHeight > currentHeight means immature *)
Definition usable (u : utxo) (h : N) : bool := u_valid u <=? h.

(* ------------------------------------------------------------------ consensus side (specification) *)

Inductive ctyp := CNormal | CCoinbase | CVote.

(* storage.UtxoEntry of an unspent output, with what the output id commits to *)
Record centry := mkCE { ce_typ : ctyp; ce_height : N; ce_rec : orec; ce_vote : option N }.

Definition cmap := list (N * centry).

Fixpoint cget (m : cmap) (x : N) : option centry :=
  match m with
  | [] => None
  | (y, e) :: m' => if N.eqb x y then Some e else cget m' x
  end.

Definition cset (m : cmap) (x : N) (e : centry) : cmap := (x, e) :: m.
Definition cdel (m : cmap) (x : N) : cmap := filter (fun p => negb (N.eqb x (fst p))) m.

(* applySpendUtxo: BlockHeight + pending > block.Height means not spendable (uint64) *)
Definition unlocked (P : params) (e : centry) (s : N) : bool :=
  match ce_typ e with
  | CNormal => true
  | CCoinbase => wrap64 (ce_height e + cb_pend P) <=? s
  | CVote => wrap64 (ce_height e + vote_pend P s) <=? s
  end.

Definition orec_eqb (a b : orec) : bool :=
  N.eqb (o_id a) (o_id b) && N.eqb (o_asset a) (o_asset b) &&
  N.eqb (o_amount a) (o_amount b) && N.eqb (o_prog a) (o_prog b).

Definition optN_eqb (a b : option N) : bool :=
  match a, b with
  | Some x, Some y => N.eqb x y
  | None, None => true
  | _, _ => false
  end.

(* a valid input at height s: the output exists unspent, is what the transaction says
   it is (the id is a hash of it), a spend takes a plain output and a veto a BTM vote
   output, and coinbase maturity / the vote lock have passed *)
Definition check_in (P : params) (s : N) (m : cmap) (i : input) : option cmap :=
  match i with
  | IOther => Some m
  | ISpend r =>
    match cget m (o_id r) with
    | Some e =>
      if orec_eqb (ce_rec e) r && optN_eqb (ce_vote e) None && unlocked P e s
      then Some (cdel m (o_id r)) else None
    | None => None
    end
  | IVeto r v =>
    match cget m (o_id r) with
    | Some e =>
      if orec_eqb (ce_rec e) r && optN_eqb (ce_vote e) (Some v) && N.eqb (o_asset r) (btm P) &&
         unlocked P e s
      then Some (cdel m (o_id r)) else None
    | None => None
    end
  end.

Fixpoint check_ins (P : params) (s : N) (m : cmap) (l : list input) : option cmap :=
  match l with
  | [] => Some m
  | i :: l' => match check_in P s m i with Some m' => check_ins P s m' l' | None => None end
  end.

Definition is_none {A} (o : option A) : bool := match o with None => true | Some _ => false end.

(* applyOutputUtxo; [first]: the transaction is block.Transactions[0].  A new output id
   is not the id of an unspent output; a coinbase transaction has plain outputs only;
   a vote output holds a non-zero amount of BTM *)
Definition check_out (P : params) (first : bool) (H : N) (m : cmap) (o : output) : option cmap :=
  if is_none (cget m (o_id (out_rec o))) then
    match o with
    | OOrig r =>
      if N.eqb (o_amount r) 0 then Some m
      else Some (cset m (o_id r) (mkCE (if first then CCoinbase else CNormal) H r None))
    | OVote r v =>
      if first || N.eqb (o_amount r) 0 || negb (N.eqb (o_asset r) (btm P)) then None
      else Some (cset m (o_id r) (mkCE CVote H r (Some v)))
    | OOther _ => Some m
    end
  else None.

Fixpoint check_outs (P : params) (first : bool) (H : N) (m : cmap) (l : list output) : option cmap :=
  match l with
  | [] => Some m
  | o :: l' => match check_out P first H m o with Some m' => check_outs P first H m' l' | None => None end
  end.

Fixpoint nodupb (l : list N) : bool :=
  match l with
  | [] => true
  | x :: l' => negb (existsb (N.eqb x) l') && nodupb l'
  end.

Definition out_ids (t : tx) : list N := map (fun o => o_id (out_rec o)) (t_outs t).

(* the first transaction, and only it, starts with a coinbase input; the result ids of
   one transaction are distinct *)
Definition check_tx (P : params) (first : bool) (H : N) (m : cmap) (t : tx) : option cmap :=
  if Bool.eqb (t_cb t) first && nodupb (out_ids t) then
    match check_ins P H m (t_ins t) with
    | Some m1 => check_outs P first H m1 (t_outs t)
    | None => None
    end
  else None.

Fixpoint check_txs (P : params) (first : bool) (H : N) (m : cmap) (l : list tx) : option cmap :=
  match l with
  | [] => Some m
  | t :: l' => match check_tx P first H m t with Some m' => check_txs P false H m' l' | None => None end
  end.

Definition small (P : params) (H : N) : bool :=
  (H + cb_pend P <? 18446744073709551616) && (H + vote_pend P H <? 18446744073709551616).

Definition check_block (P : params) (m : cmap) (b : block) : option cmap :=
  if small P (b_height b) then check_txs P true (b_height b) m (b_txs b) else None.

(* the unspent outputs along a chain (tip first), [None] when the chain is not valid *)
Fixpoint cscan (P : params) (c : list block) : option cmap :=
  match c with
  | [] => Some []
  | b :: c' => match cscan P c' with Some m => check_block P m b | None => None end
  end.

(* the wallet a fresh scan of the chain builds: AttachBlock from genesis upwards *)
Fixpoint scan (P : params) (c : list block) : db :=
  match c with
  | [] => []
  | b :: c' => attach_utxos P (scan P c') b
  end.
