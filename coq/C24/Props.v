(* C24 — wallet UTXOs depend only on the main chain.  PROPERTY THEOREMS ONLY.

   Model (C24/Model.v): the wallet database is a map (key space, output id) -> record;
   [wstep] is AttachBlock / DetachBlock (attachUtxos / detachUtxos with txInToUtxos,
   txOutToUtxos, filterAccountUtxo, batchSaveUtxos); [walk] is walletUpdater's loop
   (DetachBlock while the wallet's best block is not in the main chain, then AttachBlock by
   height); [deliver] is one change of the node's main chain (the top k blocks leave,
   new blocks enter) followed by the walk when - and only when - the best height exceeds
   the wallet's (Chain.BlockWaiter(WorkHeight+1)); [sys_run] folds any list of such
   changes.  [scan P c] is the wallet a fresh scan of chain c builds (AttachBlock from
   genesis; Proofs.fresh_is_scan).  Blocks, transactions, ids, programs, the wallet's
   program table [owner P] and the segwit test [p2w P] are arbitrary.

   What is compared ([proj]): for every key, presence, and output id, asset, amount,
   control program, vote key, owning account / program index / change flag.

   Hypotheses:
     cscan P [g] <> None, op_ok / walk_ok / sys_ok
        every block the wallet attaches extends the wallet's chain to a VALID chain
        ([cscan]: every input spends an existing unspent output that is what the
        transaction says it is and is mature / unlocked; a new output id is not the id
        of an unspent output, result ids of one transaction are distinct; only the
        first transaction of a block starts with a coinbase input and it has plain
        outputs; vote outputs hold a non-zero amount of BTM; heights stay below 2^64 - 10).
        The node connected the block on top of the same ancestors (a hash fixes them).
   Example History.hist_xy_ok: the hypotheses hold for a history with a real
   reorganisation that un-spends a wallet output and drops a wallet-owned vote output.

   The code at the pinned commit VIOLATES the property (c24_pinned_refuted: detachUtxos
   left the vote outputs of a detached block in the wallet); the theorems are about the
   repaired detachUtxos in /repo's working tree, which is what the correspondence run
   ties the model to. *)
From Coq Require Import List NArith Bool.
From C24 Require Import Model Maps Inv Detach Proofs History.
Import ListNotations.

(* After ANY sequence of attaches and detaches (every reachable wallet state) the wallet
   equals the fresh scan of the chain it is attached to. *)
Theorem c24_wallet_eq_scan :
  forall P st, reach repaired P st ->
    forall k, option_map proj (dget (wdb st) k) = option_map proj (dget (scan P (wchain st)) k).
Proof. exact wallet_eq_scan. Qed.
Print Assumptions c24_wallet_eq_scan.

(* ... in particular after any sequence of reorganisations of the node's main chain, each
   followed (or, when the height did not grow, not followed) by the updater's walk. *)
Theorem c24_after_reorganisations :
  forall P g ds,
    cscan P [g] <> None ->
    sys_ok repaired P (mkSys [g] (winit P g)) ds ->
    let s := sys_run repaired P (mkSys [g] (winit P g)) ds in
    forall k, option_map proj (dget (wdb (s_w s)) k) =
              option_map proj (dget (scan P (wchain (s_w s))) k).
Proof. exact repaired_holds. Qed.
Print Assumptions c24_after_reorganisations.

(* What the wallet holds, in terms of the chain alone: exactly the unspent outputs of the
   chain that pay a segwit program of the wallet's table, under the standard key. *)
Theorem c24_wallet_is_view :
  forall P st, reach repaired P st ->
    exists m, cscan P (wchain st) = Some m /\
      forall k, option_map proj (dget (wdb st) k) = view P m k.
Proof. exact wallet_is_view. Qed.
Print Assumptions c24_wallet_is_view.

(* The scan is what a fresh wallet computes when it is fed the chain block by block. *)
Theorem c24_fresh_wallet_is_scan :
  forall I P c g, linked (c ++ [g]) ->
    wrun I P (winit P g) (map OAttach (rev c)) = mkW (c ++ [g]) (scan P (c ++ [g])).
Proof. exact fresh_is_scan. Qed.
Print Assumptions c24_fresh_wallet_is_scan.

(* The pinned code: a wallet-owned vote output of a detached block stays in the wallet. *)
Theorem c24_pinned_refuted : ~ c24_statement pinned.
Proof. exact pinned_refuted. Qed.
Print Assumptions c24_pinned_refuted.
