(* C24 — every wallet state reached by attaches and detaches is the wallet's view of the
   consensus utxo map of the chain it is attached to; hence equal (on the compared
   projection) to a fresh scan of that chain. *)
From Coq Require Import List NArith Bool Lia.
From C24 Require Import Model Maps Inv Detach.
Import ListNotations.
Open Scope N_scope.

(* an attach is legitimate when the block extends the wallet's chain to a valid chain
   (the node connected it on top of the same ancestors: a hash fixes the ancestors) *)
Definition op_ok (P : params) (st : wstate) (o : op) : Prop :=
  match o with
  | OAttach b => N.eqb (b_prev b) (tip_id st) = true -> cscan P (b :: wchain st) <> None
  | ODetach => True
  end.

(* all wallet states reachable by AttachBlock / DetachBlock from a fresh wallet *)
Inductive reach (I : impl) (P : params) : wstate -> Prop :=
| reach_init g : cscan P [g] <> None -> reach I P (winit P g)
| reach_step st o : reach I P st -> op_ok P st o -> reach I P (wstep I P st o).

Lemma Inv_empty b P : Inv b P [] [].
Proof.
  split.
  - intros k. reflexivity.
  - intros _ k u e G. discriminate.
Qed.

Theorem reach_inv b P st :
  sched_ok b P -> reach repaired P st ->
  exists m, cscan P (wchain st) = Some m /\ Inv b P (wdb st) m.
Proof.
  intros HS R. induction R as [g Hg|st o R IH Hok].
  - cbn [winit wchain wdb cscan] in *.
    destruct (check_block P [] g) as [m|] eqn:C; [|congruence].
    exists m. split; [reflexivity|]. eapply attach_block_inv; eauto. apply Inv_empty.
  - destruct IH as [m [Cm HI]]. destruct o as [blk|]; cbn [wstep].
    + destruct (N.eqb (b_prev blk) (tip_id st)) eqn:E.
      * cbn [op_ok] in Hok. specialize (Hok E). cbn [wchain wdb cscan] in *. rewrite Cm in *.
        destruct (check_block P m blk) as [m'|] eqn:C; [|congruence].
        exists m'. split; [reflexivity|]. eapply attach_block_inv; eauto.
      * exists m. auto.
    + destruct (wchain st) as [|blk [|b2 c]] eqn:W; try (exists m; rewrite ?W; auto; fail).
      rewrite ?W in Cm. cbn [cscan] in Cm.
      destruct (cscan P c) as [m0|] eqn:C0; [|discriminate].
      destruct (check_block P m0 b2) as [m1|] eqn:C1; [|discriminate].
      exists m1. split.
      * cbn [wchain cscan]. rewrite C0. exact C1.
      * cbn [wdb]. eapply detach_block_inv; eauto.
Qed.

Lemma scan_inv b P c : sched_ok b P -> forall m, cscan P c = Some m -> Inv b P (scan P c) m.
Proof.
  intros HS. induction c as [|blk c IH]; intros m; cbn [cscan scan].
  - intros E; inversion E; subst. apply Inv_empty.
  - destruct (cscan P c) as [m0|]; [|discriminate]. intros C.
    eapply attach_block_inv; eauto.
Qed.

Lemma sched_ok_false P : sched_ok false P.
Proof. intros H; discriminate. Qed.

(* C24: the compared projection of every record, and absence, agree with the fresh scan *)
Theorem wallet_eq_scan P st :
  reach repaired P st ->
  forall k, option_map proj (dget (wdb st) k) = option_map proj (dget (scan P (wchain st)) k).
Proof.
  intros R k. destruct (reach_inv false P st (sched_ok_false P) R) as [m [C [HV _]]].
  destruct (scan_inv false P _ (sched_ok_false P) m C) as [HV' _].
  rewrite HV, HV'. reflexivity.
Qed.

(* ... and what that is: exactly the unspent outputs of the chain that pay one of the
   wallet's segwit programs *)
Theorem wallet_is_view P st :
  reach repaired P st ->
  exists m, cscan P (wchain st) = Some m /\
    forall k, option_map proj (dget (wdb st) k) = view P m k.
Proof.
  intros R. destruct (reach_inv false P st (sched_ok_false P) R) as [m [C [HV _]]]. eauto.
Qed.

(* ------------------------------------------------------------------ histories of operations *)

Fixpoint hist_ok (I : impl) (P : params) (st : wstate) (ops : list op) : Prop :=
  match ops with
  | [] => True
  | o :: r => op_ok P st o /\ hist_ok I P (wstep I P st o) r
  end.

Lemma wrun_reach I P ops : forall st, reach I P st -> hist_ok I P st ops -> reach I P (wrun I P st ops).
Proof.
  unfold wrun. induction ops as [|o ops IH]; intros st R H; cbn [fold_left hist_ok] in *.
  - exact R.
  - destruct H as [H1 H2]. apply IH; auto. constructor; auto.
Qed.

(* ------------------------------------------------------------------ the updater's walk, the node *)

Fixpoint walk_ok (I : impl) (P : params) (fuel : nat) (main : list block) (st : wstate) : Prop :=
  match fuel with
  | O => True
  | S f =>
    match walk_step main st with
    | Some o => op_ok P st o /\ walk_ok I P f main (wstep I P st o)
    | None => True
    end
  end.

Lemma walk_reach I P fuel main : forall st,
  reach I P st -> walk_ok I P fuel main st -> reach I P (walk I P fuel main st).
Proof.
  induction fuel as [|f IH]; intros st R H; cbn [walk walk_ok] in *.
  - exact R.
  - destruct (walk_step main st) as [o|]; [|exact R].
    destruct H as [H1 H2]. apply IH; auto. constructor; auto.
Qed.

(* the walk only ever issues DetachBlock of the tip and AttachBlock of a main-chain block *)
Lemma walk_step_shape main st o :
  walk_step main st = Some o ->
  o = ODetach \/ exists b, o = OAttach b /\ In b main.
Proof.
  unfold walk_step. destruct (wchain st) as [|t c]; [discriminate|].
  destruct (in_main main t).
  - destruct (block_at main (b_height t + 1)) as [b|] eqn:F; [|discriminate].
    intros E; inversion E; subst. right. exists b. split; auto.
    unfold block_at in F. apply find_some in F. tauto.
  - intros E; inversion E; auto.
Qed.

Definition deliver_ok (I : impl) (P : params) (s : sys) (k : nat) (news : list block) : Prop :=
  let main := new_main (s_main s) k news in
  if tip_height (wchain (s_w s)) <? tip_height main
  then walk_ok I P (length main + length (wchain (s_w s)) + 1) main (s_w s)
  else True.

Fixpoint sys_run (I : impl) (P : params) (s : sys) (ds : list (nat * list block)) : sys :=
  match ds with
  | [] => s
  | (k, news) :: r => sys_run I P (deliver I P s k news) r
  end.

Fixpoint sys_ok (I : impl) (P : params) (s : sys) (ds : list (nat * list block)) : Prop :=
  match ds with
  | [] => True
  | (k, news) :: r => deliver_ok I P s k news /\ sys_ok I P (deliver I P s k news) r
  end.

Lemma deliver_reach I P s k news :
  reach I P (s_w s) -> deliver_ok I P s k news -> reach I P (s_w (deliver I P s k news)).
Proof.
  unfold deliver, deliver_ok. cbv zeta.
  destruct (tip_height (wchain (s_w s)) <? tip_height (new_main (s_main s) k news)); cbn [s_w]; intros R H.
  - apply walk_reach; auto.
  - exact R.
Qed.

Lemma sys_reach I P ds : forall s,
  reach I P (s_w s) -> sys_ok I P s ds -> reach I P (s_w (sys_run I P s ds)).
Proof.
  induction ds as [|[k news] ds IH]; intros s R H; cbn [sys_run sys_ok] in *.
  - exact R.
  - destruct H as [H1 H2]. apply IH; auto. apply deliver_reach; auto.
Qed.

(* C24 for the node + wallet system: after any sequence of reorganisations of the main
   chain (each followed, or not, by the updater's walk) the wallet equals the fresh
   scan of the chain it is attached to *)
Theorem system_eq_scan P g ds :
  cscan P [g] <> None ->
  let s := sys_run repaired P (mkSys [g] (winit P g)) ds in
  sys_ok repaired P (mkSys [g] (winit P g)) ds ->
  forall k, option_map proj (dget (wdb (s_w s)) k) =
            option_map proj (dget (scan P (wchain (s_w s))) k).
Proof.
  intros Hg s H. apply wallet_eq_scan. apply sys_reach; auto. constructor; auto.
Qed.

(* a fresh wallet fed the blocks of a chain in order IS the scan *)
Fixpoint linked (c : list block) : Prop :=
  match c with
  | b :: ((b' :: _) as c') => b_prev b = b_id b' /\ linked c'
  | _ => True
  end.

Lemma fresh_is_scan I P c : forall g, linked (c ++ [g]) ->
  wrun I P (winit P g) (map OAttach (rev c)) = mkW (c ++ [g]) (scan P (c ++ [g])).
Proof.
  induction c as [|b c IH]; intros g L.
  - reflexivity.
  - cbn [rev]. rewrite map_app. unfold wrun. rewrite fold_left_app. fold (wrun I P (winit P g) (map OAttach (rev c))).
    assert (L' : linked (c ++ [g])).
    { cbn [app] in L. destruct (c ++ [g]) eqn:E; [exact Logic.I|]. destruct L; auto. }
    rewrite (IH g L'). cbn [map fold_left wstep].
    assert (E : N.eqb (b_prev b) (tip_id (mkW (c ++ [g]) (scan P (c ++ [g])))) = true).
    { unfold tip_id. cbn [wchain]. cbn [app] in L. destruct (c ++ [g]) as [|b' c'] eqn:E.
      - destruct c; discriminate.
      - destruct L as [L _]. rewrite L. apply N.eqb_refl. }
    rewrite E. reflexivity.
Qed.

(* ------------------------------------------------------------------ boolean checkers of the hypotheses
   (used to show by computation that concrete histories satisfy them) *)

Definition op_okb (P : params) (st : wstate) (o : op) : bool :=
  match o with
  | OAttach b => negb (N.eqb (b_prev b) (tip_id st)) || negb (is_none (cscan P (b :: wchain st)))
  | ODetach => true
  end.

Lemma op_okb_ok P st o : op_okb P st o = true -> op_ok P st o.
Proof.
  destruct o as [b|]; cbn [op_okb op_ok]; auto.
  intros H E. rewrite E in H. cbn [negb orb] in H.
  destruct (cscan P (b :: wchain st)); [discriminate|discriminate].
Qed.

Fixpoint hist_okb (I : impl) (P : params) (st : wstate) (ops : list op) : bool :=
  match ops with
  | [] => true
  | o :: r => op_okb P st o && hist_okb I P (wstep I P st o) r
  end.

Lemma hist_okb_ok I P ops : forall st, hist_okb I P st ops = true -> hist_ok I P st ops.
Proof.
  induction ops as [|o ops IH]; intros st; cbn [hist_okb hist_ok]; auto.
  intros H. apply andb_true_iff in H as [H1 H2]. split; [apply op_okb_ok; exact H1|apply IH; exact H2].
Qed.

Fixpoint walk_okb (I : impl) (P : params) (fuel : nat) (main : list block) (st : wstate) : bool :=
  match fuel with
  | O => true
  | S f =>
    match walk_step main st with
    | Some o => op_okb P st o && walk_okb I P f main (wstep I P st o)
    | None => true
    end
  end.

Lemma walk_okb_ok I P fuel main : forall st, walk_okb I P fuel main st = true -> walk_ok I P fuel main st.
Proof.
  induction fuel as [|f IH]; intros st; cbn [walk_okb walk_ok]; auto.
  destruct (walk_step main st) as [o|]; auto.
  intros H. apply andb_true_iff in H as [H1 H2]. split; [apply op_okb_ok; exact H1|apply IH; exact H2].
Qed.

Definition deliver_okb (I : impl) (P : params) (s : sys) (k : nat) (news : list block) : bool :=
  let main := new_main (s_main s) k news in
  if tip_height (wchain (s_w s)) <? tip_height main
  then walk_okb I P (length main + length (wchain (s_w s)) + 1) main (s_w s)
  else true.

Fixpoint sys_okb (I : impl) (P : params) (s : sys) (ds : list (nat * list block)) : bool :=
  match ds with
  | [] => true
  | (k, news) :: r => deliver_okb I P s k news && sys_okb I P (deliver I P s k news) r
  end.

Lemma sys_okb_ok I P ds : forall s, sys_okb I P s ds = true -> sys_ok I P s ds.
Proof.
  induction ds as [|[k news] ds IH]; intros s; cbn [sys_okb sys_ok]; auto.
  intros H. apply andb_true_iff in H as [H1 H2]. split; [|apply IH; exact H2].
  unfold deliver_okb in H1. unfold deliver_ok. cbv zeta in *.
  destruct (tip_height (wchain (s_w s)) <? tip_height (new_main (s_main s) k news)); auto.
  apply walk_okb_ok. exact H1.
Qed.
