(* C24 — concrete histories: the hypotheses of the theorems are satisfiable by a history
   with real reorganisations, and the PINNED variant of detachUtxos (the code before the
   repair in /repo's working tree) violates the property. *)
From Coq Require Import List NArith Bool Lia.
From C24 Require Import Model Maps Inv Detach Proofs.
Import ListNotations.
Open Scope N_scope.

(* program 1: segwit, owned by account 1; program 2: segwit, nobody's; program 0: OP_TRUE *)
Definition P0 : params :=
  mkP (fun p => (1 <=? p) && (p <=? 2))
      (fun p => if N.eqb p 1 then Some (mkCP 1 1 false) else None)
      0 10 (fun _ => 3).

Definition cb (id : N) : tx := mkTx true [IOther] [OOrig (mkO id 0 0 0)].
Definition empty (id prev h : N) : block := mkB id prev h [cb (1000 + id)].

(* genesis pays the wallet a plain output (id 1, amount 50) through a non-coinbase
   transaction (so that it is spendable at once) *)
Definition g0 : block := mkB 1 0 0 [cb 1001; mkTx false [IOther] [OOrig (mkO 1 0 50 1)]].

(* branch X: block 2 (height 1) turns output 1 into a wallet-owned VOTE output (id 2) and a
   foreign output (id 3); block 3 (height 2) is empty *)
Definition x1 : block :=
  mkB 2 1 1 [cb 1002; mkTx false [ISpend (mkO 1 0 50 1)] [OVote (mkO 2 0 40 1) 7; OOrig (mkO 3 0 9 2)]].
Definition x2 : block := empty 3 2 2.
(* branch Y: blocks 4, 5, 6 (heights 1, 2, 3), Y2 pays the wallet output 4 *)
Definition y1 : block := empty 4 1 1.
Definition y2 : block := mkB 5 4 2 [cb 1005; mkTx false [IOther] [OOrig (mkO 4 0 20 1)]].
Definition y3 : block := empty 6 5 3.

(* the node: g0, X1, X2 delivered, then Y1, Y2 (no change of the main chain), then Y3:
   the node detaches X2, X1 and attaches Y1, Y2, Y3 *)
Definition ds_xy : list (nat * list block) :=
  [(0%nat, [x1]); (0%nat, [x2]); (2%nat, [y1; y2; y3])].

Definition s_xy (I : impl) : sys := sys_run I P0 (mkSys [g0] (winit P0 g0)) ds_xy.

(* the hypotheses of the theorems hold for this history (repaired variant) *)
Example hist_xy_ok : cscan P0 [g0] <> None /\ sys_ok repaired P0 (mkSys [g0] (winit P0 g0)) ds_xy.
Proof.
  split; [vm_compute; discriminate|].
  apply sys_okb_ok. vm_compute. reflexivity.
Qed.

(* ... it ends on branch Y, holding outputs 1 (un-spent by the reorganisation) and 4 *)
Example hist_xy_result :
  map b_id (wchain (s_w (s_xy repaired))) = [6; 5; 4; 1] /\
  option_map proj (dget (wdb (s_w (s_xy repaired))) (true, 1)) = Some (1, 0, 50, 1, None, Some (mkCP 1 1 false)) /\
  option_map proj (dget (wdb (s_w (s_xy repaired))) (true, 4)) = Some (4, 0, 20, 1, None, Some (mkCP 1 1 false)) /\
  dget (wdb (s_w (s_xy repaired))) (true, 2) = None.
Proof. vm_compute. repeat split. Qed.

(* The full statement, for an arbitrary variant of the code. *)
Definition c24_statement (I : impl) : Prop :=
  forall P g ds,
    cscan P [g] <> None ->
    sys_ok I P (mkSys [g] (winit P g)) ds ->
    let s := sys_run I P (mkSys [g] (winit P g)) ds in
    forall k, option_map proj (dget (wdb (s_w s)) k) =
              option_map proj (dget (scan P (wchain (s_w s))) k).

(* the pinned code keeps the vote output 2 of the detached block X1 *)
Lemma pinned_keeps_vote_output :
  option_map proj (dget (wdb (s_w (s_xy pinned))) (true, 2)) = Some (2, 0, 40, 1, Some 7, Some (mkCP 1 1 false)) /\
  dget (scan P0 (wchain (s_w (s_xy pinned)))) (true, 2) = None.
Proof. vm_compute. split; reflexivity. Qed.

Lemma pinned_hist_ok : cscan P0 [g0] <> None /\ sys_ok pinned P0 (mkSys [g0] (winit P0 g0)) ds_xy.
Proof.
  split; [vm_compute; discriminate|].
  apply sys_okb_ok. vm_compute. reflexivity.
Qed.

Theorem pinned_refuted : ~ c24_statement pinned.
Proof.
  intros H. destruct pinned_hist_ok as [Hg Hs].
  specialize (H P0 g0 ds_xy Hg Hs (true, 2)). cbv zeta in H.
  fold (s_xy pinned) in H.
  destruct pinned_keeps_vote_output as [A B]. rewrite A, B in H. discriminate.
Qed.

Theorem repaired_holds : c24_statement repaired.
Proof. intros P g ds Hg Hs. apply system_eq_scan; auto. Qed.
