(* C24 — lemmas about the two association lists (wallet database, consensus utxo map). *)
From Coq Require Import List NArith Bool Lia.
From C24 Require Import Model.
Import ListNotations.
Open Scope N_scope.

Lemma key_eqb_eq a b : key_eqb a b = true <-> a = b.
Proof.
  destruct a as [a1 a2], b as [b1 b2]; unfold key_eqb; cbn [fst snd].
  rewrite andb_true_iff, N.eqb_eq, eqb_true_iff. split.
  - intros [-> ->]; reflexivity.
  - intros H; inversion H; auto.
Qed.

Lemma key_eqb_refl a : key_eqb a a = true.
Proof. apply key_eqb_eq; reflexivity. Qed.

Lemma key_eqb_sym a b : key_eqb a b = key_eqb b a.
Proof.
  destruct (key_eqb a b) eqn:E, (key_eqb b a) eqn:F; auto.
  - apply key_eqb_eq in E; subst. rewrite key_eqb_refl in F; discriminate.
  - apply key_eqb_eq in F; subst. rewrite key_eqb_refl in E; discriminate.
Qed.

Lemma key_eqb_neq a b : key_eqb a b = false <-> a <> b.
Proof.
  split.
  - intros E ->. rewrite key_eqb_refl in E; discriminate.
  - intros N. destruct (key_eqb a b) eqn:E; auto. apply key_eqb_eq in E; contradiction.
Qed.

Lemma dget_dset d k u k' : dget (dset d k u) k' = if key_eqb k' k then Some u else dget d k'.
Proof. reflexivity. Qed.

Lemma dget_ddel d k k' : dget (ddel d k) k' = if key_eqb k' k then None else dget d k'.
Proof.
  unfold ddel. induction d as [|[k0 u0] d IH]; cbn [filter dget fst].
  - destruct (key_eqb k' k); reflexivity.
  - destruct (key_eqb k k0) eqn:E; cbn [negb].
    + apply key_eqb_eq in E; subst k0. rewrite IH.
      destruct (key_eqb k' k); reflexivity.
    + cbn [dget]. destruct (key_eqb k' k0) eqn:F.
      * apply key_eqb_eq in F; subst k0. rewrite key_eqb_sym, E. reflexivity.
      * exact IH.
Qed.

Lemma cget_cset m x e y : cget (cset m x e) y = if N.eqb y x then Some e else cget m y.
Proof. reflexivity. Qed.

Lemma cget_cdel m x y : cget (cdel m x) y = if N.eqb y x then None else cget m y.
Proof.
  unfold cdel. induction m as [|[x0 e0] m IH]; cbn [filter cget fst].
  - destruct (N.eqb y x); reflexivity.
  - destruct (N.eqb x x0) eqn:E; cbn [negb].
    + apply N.eqb_eq in E; subst x0. rewrite IH. destruct (N.eqb y x); reflexivity.
    + cbn [cget]. destruct (N.eqb y x0) eqn:F.
      * apply N.eqb_eq in F; subst x0. rewrite N.eqb_sym, E. reflexivity.
      * exact IH.
Qed.

(* pointwise equality of consensus maps *)
Definition meq (m m' : cmap) : Prop := forall x, cget m x = cget m' x.

Lemma meq_refl m : meq m m.
Proof. intro; reflexivity. Qed.

Lemma meq_sym m m' : meq m m' -> meq m' m.
Proof. intros H x; symmetry; apply H. Qed.

Lemma meq_trans m1 m2 m3 : meq m1 m2 -> meq m2 m3 -> meq m1 m3.
Proof. intros H1 H2 x; rewrite H1; apply H2. Qed.

(* deleting a list of ids *)
Definition cdels (m : cmap) (l : list N) : cmap := fold_left cdel l m.

Lemma cget_cdels l : forall m x,
  cget (cdels m l) x = if existsb (N.eqb x) l then None else cget m x.
Proof.
  induction l as [|y l IH]; intros m x; cbn [cdels fold_left existsb].
  - reflexivity.
  - fold (cdels (cdel m y) l). rewrite IH, cget_cdel.
    destruct (N.eqb x y); cbn [orb]; destruct (existsb (N.eqb x) l); reflexivity.
Qed.

(* adding a list of (id, entry) pairs with distinct ids *)
Definition csets (m : cmap) (l : list (N * centry)) : cmap :=
  fold_left (fun m p => cset m (fst p) (snd p)) l m.

Definition lookup (l : list (N * centry)) (x : N) : option centry :=
  match find (fun p => N.eqb x (fst p)) l with Some p => Some (snd p) | None => None end.

Lemma lookup_none_notin l x : lookup l x = None -> ~ In x (map fst l).
Proof.
  unfold lookup. induction l as [|[y e] l IH]; cbn [find map fst In]; intros H.
  - tauto.
  - destruct (N.eqb x y) eqn:E; [discriminate|].
    apply N.eqb_neq in E. intros [F|F]; [congruence|]. exact (IH H F).
Qed.

Lemma notin_lookup_none l x : ~ In x (map fst l) -> lookup l x = None.
Proof.
  unfold lookup. induction l as [|[y e] l IH]; cbn [find map fst In]; intros H.
  - reflexivity.
  - destruct (N.eqb x y) eqn:E.
    + apply N.eqb_eq in E. subst. tauto.
    + apply IH. tauto.
Qed.

Lemma in_lookup l x e : NoDup (map fst l) -> In (x, e) l -> lookup l x = Some e.
Proof.
  unfold lookup. induction l as [|[y e'] l IH]; cbn [find map fst In]; intros ND H.
  - tauto.
  - inversion ND as [|? ? NI ND']; subst.
    destruct H as [H|H].
    + inversion H; subst. rewrite N.eqb_refl. reflexivity.
    + destruct (N.eqb x y) eqn:E.
      * apply N.eqb_eq in E; subst. exfalso. apply NI. apply in_map_iff. exists (y, e); auto.
      * apply IH; auto.
Qed.

Lemma cget_csets l : NoDup (map fst l) -> forall m x,
  cget (csets m l) x = match lookup l x with Some e => Some e | None => cget m x end.
Proof.
  induction l as [|[y e] l IH]; intros ND m x; cbn [csets fold_left].
  - reflexivity.
  - inversion ND as [|? ? NI ND']; subst. fold (csets (cset m (fst (y, e)) (snd (y, e))) l).
    rewrite (IH ND'). cbn [fst snd]. unfold lookup at 2. cbn [find fst].
    destruct (N.eqb x y) eqn:E.
    + apply N.eqb_eq in E; subst y. rewrite (notin_lookup_none _ _ NI).
      rewrite cget_cset, N.eqb_refl. reflexivity.
    + fold (lookup l x). destruct (lookup l x); [reflexivity|].
      rewrite cget_cset, E. reflexivity.
Qed.

Lemma existsb_eqb_in x l : existsb (N.eqb x) l = true <-> In x l.
Proof.
  rewrite existsb_exists. split.
  - intros [y [H E]]. apply N.eqb_eq in E; subst; auto.
  - intros H. exists x. rewrite N.eqb_refl; auto.
Qed.

Lemma nodupb_NoDup l : nodupb l = true -> NoDup l.
Proof.
  induction l as [|x l IH]; cbn [nodupb]; intros H.
  - constructor.
  - apply andb_true_iff in H as [H1 H2]. constructor.
    + intros F. apply existsb_eqb_in in F. rewrite F in H1. discriminate.
    + auto.
Qed.

Lemma orec_eqb_eq a b : orec_eqb a b = true -> a = b.
Proof.
  destruct a, b; unfold orec_eqb; cbn.
  rewrite !andb_true_iff, !N.eqb_eq. intros [[[-> ->] ->] ->]. reflexivity.
Qed.

Lemma optN_eqb_eq a b : optN_eqb a b = true -> a = b.
Proof.
  destruct a, b; cbn; try discriminate; auto.
  rewrite N.eqb_eq. intros ->; reflexivity.
Qed.

Lemma fold_left_flat_map {A B C} (f : A -> C -> A) (g : B -> list C) l : forall a,
  fold_left f (flat_map g l) a = fold_left (fun a b => fold_left f (g b) a) l a.
Proof.
  induction l as [|b l IH]; intros a; cbn [flat_map fold_left].
  - reflexivity.
  - rewrite fold_left_app. apply IH.
Qed.
