(* C35 — the pinned p2p/trust/banscore.go before the repair: its table of
   precomputed decay factors is filled by an exported Init() that nothing
   calls, so every factor for dt < 64 s is 0.  That variant violates the decay
   rule: the witness below loses the whole transient part one second after the
   increment.  (Repaired in /repo's working tree: func init() { Init() }.) *)
From Coq Require Import Reals ZArith List Bool Lia Lra.
From Flocq Require Import Raux.
From C35 Require Import Model Proofs.
Open Scope Z_scope.

Definition pinned_factor (dt : Z) : R := if dt <? 64 then 0%R else decay dt.

Definition pinned_score (s : state) (now : Z) : Z :=
  let dt := now - last s in
  if Rltb (transient s) 1 || (dt <? 0) || (lifetime <? dt) then persistent s
  else wrap (persistent s + Zfloor (transient s * pinned_factor dt)).

Lemma pinned_trust_refuted :
  let s := fst (increase zero 0 100 1000) in      (* Increase(0, 100) at time 1000 *)
  pinned_score s 1001 = 0 /\ 50 <= score s 1001.
Proof.
  cbv zeta. rewrite (increase_pos zero 0 100 1000) by lia. cbn [fst].
  assert (C : carried zero 1000 = 0%R).
  { unfold carried. cbn [last zero transient].
    replace (lifetime <? 1000 - 0) with false by reflexivity.
    replace (Rltb 1 0) with false by (symmetry; apply Rltb_false; lra). reflexivity. }
  rewrite C, Rplus_0_l. change (wrap (persistent zero + 0)) with 0.
  assert (N1 : Rltb 100 1 = false) by (apply Rltb_false; lra).
  split.
  - unfold pinned_score. cbn [transient last persistent]. rewrite N1.
    replace (1001 - 1000) with 1 by lia. cbn [orb Z.ltb Z.compare].
    replace (lifetime <? 1) with false by reflexivity.
    unfold pinned_factor. replace (1 <? 64) with true by reflexivity.
    rewrite Rmult_0_r. change 0%R with (IZR 0). rewrite Zfloor_IZR. reflexivity.
  - unfold score. cbn [transient last persistent]. rewrite N1.
    replace (1001 - 1000) with 1 by lia. cbn [orb Z.ltb Z.compare].
    replace (lifetime <? 1) with false by reflexivity.
    assert (D : (/ 2 <= decay 1)%R) by (rewrite <- decay_60; apply decay_mono; lia).
    pose proof (decay_le_1 1 ltac:(lia)) as D1.
    assert (L : 50 <= Zfloor (100 * decay 1)) by (apply Zfloor_lub; simpl; lra).
    assert (U : Zfloor (100 * decay 1) <= 100).
    { replace 100 with (Zfloor (IZR 100)) at 2 by apply Zfloor_IZR. apply Zfloor_le. simpl. lra. }
    rewrite Z.add_0_l, wrap_small; [exact L|unfold two32; lia].
Qed.
