(* C35 — helpers used by the generated case files: run the fixed-point interval
   model on a history and test that every observed uint32 result of the Go code
   (float64 arithmetic) lies in the model's output enclosure. *)
From Coq Require Import ZArith List Bool.
From C35 Require Import Model.
Import ListNotations.
Open Scope Z_scope.

Fixpoint all_within (es : list oenc) (obs : list Z) : bool :=
  match es, obs with
  | [], [] => true
  | e :: es', o :: obs' => within e o && all_within es' obs'
  | _, _ => false
  end.

(* index (from 0) of the first output outside its enclosure, or -1 *)
Fixpoint first_bad (k : Z) (es : list oenc) (obs : list Z) : Z :=
  match es, obs with
  | [], [] => -1
  | e :: es', o :: obs' => if within e o then first_bad (k + 1) es' obs' else k
  | _, _ => k
  end.

Definition check_run (clock : Z) (evs : list event) (obs : list Z) : Z :=
  first_bad 0 (irun clock izero evs) obs.
