(* C35 — peer ban scores (p2p/security/banscore.go, p2p/trust/banscore.go).
   DEFINITIONS ONLY (no proofs).

   Part 1: the real-valued model of DynamicBanScore: state (persistent,
   transient, last), [increase] and [score] (= Go's increase / int) with the
   decay factor 2^(-dt/60), the 1800 s lifetime, and the branches
   `transient < 1`, `dt < 0`, `transient > 1 && dt > 0` exactly as in the code.
   The code computes the transient part in float64; this model computes it in R
   (the tie to the float code is the enclosure of Part 2, see Run.v).

   Integers: persistent is a uint32 (`+=` wraps, [wrap]); the result is
   `persistent + uint32(x)`, also a wrapping uint32 addition.  uint32(x) of a
   float x >= 2^32 is implementation-defined in Go; on amd64 it is the low 32
   bits of the truncation, which is what [wrap (P + Zfloor x)] gives (the
   repository's own tests rely on it).  The transient part is never negative
   (theorem c35_nonneg), so truncation is [Zfloor].

   Part 2: an executable ENCLOSURE of the transient part in fixed-point
   integers (scale SC = 2^70): an interval [ilo, ihi]/SC that contains the real
   transient score, with 2^(-dt/60) = 2^(-q) * c_r, q = dt / 60, r = dt mod 60
   and a table of 60 constants c_r = 2^(-r/60) rounded down (upper bound: +1). *)
From Coq Require Import Reals ZArith List Bool.
From Flocq Require Import Raux.
Import ListNotations.
Open Scope Z_scope.

Definition lifetime : Z := 1800.
Definition two32 : Z := 4294967296.
Definition wrap (z : Z) : Z := z mod two32.

(* ---------------------------------------------------------------- Part 1 *)

(* decayFactor(dt) = exp(-dt * ln 2 / 60) = 2^(-dt/60) *)
Definition decay (dt : Z) : R := Rpower 2 (- IZR dt / 60).

Record state := mk { persistent : Z; transient : R; last : Z }.
Definition zero : state := mk 0 0%R 0.     (* Go zero value; also Reset() *)

Definition Rltb (x y : R) : bool := if Rlt_dec x y then true else false.

(* func (s *DynamicBanScore) int(t time.Time) uint32 *)
Definition score (s : state) (now : Z) : Z :=
  let dt := now - last s in
  if Rltb (transient s) 1 || (dt <? 0) || (lifetime <? dt) then persistent s
  else wrap (persistent s + Zfloor (transient s * decay dt)).

(* the same before the final uint32 wrap-around: the quantity the property speaks about *)
Definition raw_score (s : state) (now : Z) : Z :=
  let dt := now - last s in
  if Rltb (transient s) 1 || (dt <? 0) || (lifetime <? dt) then persistent s
  else persistent s + Zfloor (transient s * decay dt).

(* func (s *DynamicBanScore) increase(persistent, transient uint32, t time.Time) uint32 *)
Definition increase (s : state) (p t now : Z) : state * Z :=
  let P := wrap (persistent s + p) in
  let dt := now - last s in
  let s' :=
    if 0 <? t then
      let T0 := if lifetime <? dt then 0%R
                else if Rltb 1 (transient s) && (0 <? dt) then (transient s * decay dt)%R
                else transient s in
      mk P (T0 + IZR t) now
    else mk P (transient s) (last s) in
  (s', wrap (P + Zfloor (transient s'))).

(* Histories: the clock moves by an arbitrary (possibly negative) step, then
   one call happens.  Outputs: the value returned by each Increase / Int. *)
Inductive event :=
| Inc (step p t : Z)     (* Increase(p, t) *)
| Query (step : Z)       (* Int() *)
| Reset (step : Z).      (* Reset() *)

Definition wf_event (e : event) : Prop :=
  match e with
  | Inc _ p t => 0 <= p < two32 /\ 0 <= t < two32      (* uint32 arguments *)
  | _ => True
  end.

Fixpoint run (clock : Z) (s : state) (evs : list event) : Z * state * list Z :=
  match evs with
  | [] => (clock, s, [])
  | Inc d p t :: r =>
      let now := clock + d in
      let '(s', o) := increase s p t now in
      let '(c, sf, os) := run now s' r in (c, sf, o :: os)
  | Query d :: r =>
      let now := clock + d in
      let '(c, sf, os) := run now s r in (c, sf, score s now :: os)
  | Reset d :: r => run (clock + d) zero r
  end.

(* The documented rule over a whole history (used by c35_history_ideal): the
   ideal transient score is the sum of all transient increments since the last
   forgetting, each decayed by its age.  [ideal] keeps (time, amount) pairs. *)
Definition contribution (now : Z) (c : Z * Z) : R := (IZR (snd c) * decay (now - fst c))%R.
Fixpoint ideal_sum (now : Z) (cs : list (Z * Z)) : R :=
  match cs with
  | [] => 0%R
  | c :: r => (contribution now c + ideal_sum now r)%R
  end.

Definition forward (e : event) : Prop :=
  match e with Inc d _ _ => 0 <= d | Query d => 0 <= d | Reset d => 0 <= d end.

(* the increments the documented rule still remembers after a history, newest
   first: everything is forgotten when more than [lifetime] seconds passed since
   the previous transient increment (time [lastc]), and on Reset *)
Fixpoint contribs (clock lastc : Z) (cs : list (Z * Z)) (evs : list event) : list (Z * Z) :=
  match evs with
  | [] => cs
  | Inc d p t :: r =>
      let now := clock + d in
      if 0 <? t then contribs now now ((now, t) :: (if lifetime <? now - lastc then [] else cs)) r
      else contribs now lastc cs r
  | Query d :: r => contribs (clock + d) lastc cs r
  | Reset d :: r => contribs (clock + d) 0 [] r
  end.
Definition contributions (clock : Z) (evs : list event) : list (Z * Z) := contribs clock 0 [] evs.

(* ---------------------------------------------------------------- Part 2 *)

Definition SC : Z := 1180591620717411303424.       (* 2^70 *)
Definition EPS : Z := 1125899906842624.            (* 2^50: branch tolerance 2^-20 *)
Definition INFL : Z := 1099511627776.              (* 2^40: relative inflation 2^-40 *)

(* floor (SC * 2^(-r/60)), r = 0..59 *)
Definition ctab : list Z :=
 [1180591620717411303424;
  1167031369390309751926;
  1153626870833960902020;
  1140376336075209908140;
  1127277996689011170493;
  1114330104562413170473;
  1101530931661254171457;
  1088878769799537648028;
  1076371930411456664328;
  1064008744326036775759;
  1051787561544367377732;
  1039706751019391770604;
  1027764700438226551454;
  1015959816006981280890;
  1004290522238049706784;
  992755261739844156686;
  981352495008945036722;
  970080700224637697121;
  958938373045809243118;
  947924026410178184961;
  937036190335830132064;
  926273411725033044143;
  915634254170305856380;
  905117297762714596417;
  894721138902370408242;
  884444390111104191921;
  874285679847292858603;
  864243652322812487391;
  854316967322093954528;
  844504300023256885946;
  834804340821298061590;
  825215795153310674135;
  815737383325711115744;
  806367840343450234424;
  797105915741186266434;
  787950373416396912936;
  778899991464408287954;
  769953562015318720464;
  761109891072795646387;
  752367798354724076190;
  743726117135685370951;
  735183694091245303995;
  726739389144030626681;
  718392075311573595624;
  710140638555904154584;
  701983977634869697489;
  693921003955162569631;
  685950641427035691998;
  678071826320686918986;
  670283507124292962451;
  662584644403673935228;
  654974210663569784838;
  647451190210510103262;
  640014579017259011284;
  632663384588817026133;
  625396625829962028950;
  618213332914311654005;
  611112547154889624645;
  604093320876178761674;
  597154717287643588273].

Definition clo (r : Z) : Z := nth (Z.to_nat r) ctab 0.
Definition chi (r : Z) : Z := clo r + 1.
Definition cdiv (a b : Z) : Z := - ((- a) / b).            (* ceiling division *)
Definition dlo (dt : Z) : Z := clo (dt mod 60) / 2 ^ (dt / 60).
Definition dhi (dt : Z) : Z := cdiv (chi (dt mod 60)) (2 ^ (dt / 60)).
Definition mul_dn (a b : Z) : Z := a * b / SC.
Definition mul_up (a b : Z) : Z := cdiv (a * b) SC.
Definition infl_dn (x : Z) : Z := Z.max 0 (x - x / INFL - 1).
Definition infl_up (x : Z) : Z := x + x / INFL + 1.

Record istate := imk { ipers : Z; ilo : Z; ihi : Z; ilast : Z }.
Definition izero : istate := imk 0 0 0 0.

(* an output enclosure (P, flo, fhi) stands for the values wrap (P + f), flo <= f <= fhi *)
Definition oenc := (Z * Z * Z)%type.
Definition within (e : oenc) (obs : Z) : bool :=
  let '(P, flo, fhi) := e in ((obs - P - flo) mod two32 <=? fhi - flo).

(* Float rounding: the Go code's float64 transient part is meant to stay inside
   the interval.  Whenever the carried part is a point interval (lo = hi: the
   value is an integer below 2^53, which float64 also holds exactly) nothing is
   widened and the branch tests are exact; otherwise the interval is widened by
   a relative 2^-40 per operation and the tests `transient < 1`,
   `transient > 1` take both branches within 2^-20 of 1. *)
Definition tol (s : istate) : Z := if ilo s =? ihi s then 0 else EPS.

Definition iscore (s : istate) (now : Z) : oenc :=
  let dt := now - ilast s in
  if (dt <? 0) || (lifetime <? dt) then (ipers s, 0, 0)
  else
    let eps := tol s in
    let plo := if dt =? 0 then ilo s else infl_dn (mul_dn (ilo s) (dlo dt)) in
    let phi := if dt =? 0 then ihi s else infl_up (mul_up (ihi s) (dhi dt)) in
    let flo := if SC + eps <=? ilo s then plo / SC else 0 in
    let fhi := if ihi s <? SC - eps then 0 else phi / SC in
    (ipers s, flo, fhi).

Definition iincrease (s : istate) (p t now : Z) : istate * oenc :=
  let P := wrap (ipers s + p) in
  let dt := now - ilast s in
  let eps := tol s in
  let s' :=
    if 0 <? t then
      let lo0 := if lifetime <? dt then 0
                 else if 0 <? dt then
                   (if ihi s <=? SC - eps then ilo s else mul_dn (ilo s) (dlo dt))
                 else ilo s in
      let hi0 := if lifetime <? dt then 0
                 else if 0 <? dt then
                   (if SC + eps <? ilo s then mul_up (ihi s) (dhi dt) else ihi s)
                 else ihi s in
      if lo0 =? hi0 then imk P (lo0 + t * SC) (hi0 + t * SC) now
      else imk P (infl_dn (lo0 + t * SC)) (infl_up (hi0 + t * SC)) now
    else imk P (ilo s) (ihi s) (ilast s) in
  (s', (P, ilo s' / SC, ihi s' / SC)).

Fixpoint irun (clock : Z) (s : istate) (evs : list event) : list oenc :=
  match evs with
  | [] => []
  | Inc d p t :: r =>
      let now := clock + d in
      let '(s', o) := iincrease s p t now in o :: irun now s' r
  | Query d :: r =>
      let now := clock + d in iscore s now :: irun now s r
  | Reset d :: r => irun (clock + d) izero r
  end.
