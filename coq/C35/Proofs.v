(* C35 — proofs about the real-valued ban score model (Model.v, Part 1). *)
From Coq Require Import Reals ZArith List Bool Lia Lra.
From Flocq Require Import Raux.
From C35 Require Import Model.
Import ListNotations.
Open Scope Z_scope.

(* ------------------------------------------------------------------ decay *)
Lemma decay_pos dt : (0 < decay dt)%R.
Proof. unfold decay, Rpower. apply exp_pos. Qed.

Lemma decay_0 : decay 0 = 1%R.
Proof.
  unfold decay. replace (- 0 / 60)%R with 0%R by field. apply Rpower_O. lra.
Qed.

Lemma decay_add a b : decay (a + b) = (decay a * decay b)%R.
Proof.
  unfold decay. rewrite <- Rpower_plus. f_equal. rewrite plus_IZR. field.
Qed.

Lemma decay_60 : decay 60 = (/ 2)%R.
Proof.
  unfold decay. replace (- (60) / 60)%R with (Ropp 1) by field.
  rewrite Rpower_Ropp, Rpower_1; lra.
Qed.

Lemma decay_mono a b : a <= b -> (decay b <= decay a)%R.
Proof.
  intros H. unfold decay. apply Rle_Rpower; [lra|].
  apply IZR_le in H. lra.
Qed.

Lemma decay_le_1 dt : 0 <= dt -> (decay dt <= 1)%R.
Proof. intros H. rewrite <- decay_0. now apply decay_mono. Qed.

Lemma decay_60k (k : nat) : decay (60 * Z.of_nat k) = (/ 2 ^ k)%R.
Proof.
  induction k as [|k IH].
  - simpl. rewrite decay_0. field.
  - replace (60 * Z.of_nat (S k)) with (60 + 60 * Z.of_nat k) by lia.
    rewrite decay_add, decay_60, IH. simpl. field. apply pow_nonzero. lra.
Qed.

Lemma decay_lifetime : decay lifetime = (/ 2 ^ 30)%R.
Proof. exact (decay_60k 30). Qed.

(* ------------------------------------------------------------------ floor *)
Lemma Zfloor_add_IZR x n : Zfloor (x + IZR n) = Zfloor x + n.
Proof.
  apply Zfloor_imp. rewrite !plus_IZR.
  pose proof (Zfloor_lb x). pose proof (Zfloor_ub x). simpl. lra.
Qed.

Lemma Zfloor_nonneg x : (0 <= x)%R -> 0 <= Zfloor x.
Proof. intros H. apply Zfloor_lub. exact H. Qed.

Lemma Zfloor_small x : (0 <= x < 1)%R -> Zfloor x = 0.
Proof. intros H. apply Zfloor_imp. simpl. lra. Qed.

Lemma Rltb_true x y : Rltb x y = true <-> (x < y)%R.
Proof. unfold Rltb. destruct (Rlt_dec x y); split; intros; try easy. Qed.
Lemma Rltb_false x y : Rltb x y = false <-> (y <= x)%R.
Proof. unfold Rltb. destruct (Rlt_dec x y); split; intros; try easy; lra. Qed.

Lemma wrap_range z : 0 <= wrap z < two32.
Proof. unfold wrap. apply Z.mod_pos_bound. reflexivity. Qed.
Lemma wrap_small z : 0 <= z < two32 -> wrap z = z.
Proof. unfold wrap. apply Z.mod_small. Qed.

(* ----------------------------------------------------------- invariant *)
Definition wf (s : state) : Prop :=
  0 <= persistent s < two32 /\ (0 <= transient s)%R.

Lemma wf_zero : wf zero.
Proof. split; simpl; [unfold two32; lia | lra]. Qed.

Lemma increase_wf s p t now :
  wf s -> 0 <= t -> wf (fst (increase s p t now)).
Proof.
  intros [HP HT] Ht. unfold increase. cbn [fst].
  destruct (0 <? t) eqn:E.
  - split; cbn [persistent transient]; [apply wrap_range|].
    assert (0 <= IZR t)%R by (apply IZR_le; lia).
    destruct (lifetime <? now - last s); [lra|].
    destruct (Rltb 1 (transient s) && (0 <? now - last s)); [|lra].
    pose proof (decay_pos (now - last s)). nra.
  - split; cbn [persistent transient]; [apply wrap_range|exact HT].
Qed.

(* after a transient increment the transient score is at least 1 *)
Definition settled (s : state) : Prop := (transient s = 0 \/ 1 <= transient s)%R.

Lemma increase_settled s p t now :
  wf s -> settled s -> 0 <= t -> settled (fst (increase s p t now)).
Proof.
  intros [HP HT] HS Ht. unfold increase, settled. cbn [fst].
  destruct (0 <? t) eqn:E; cbn [transient]; [|exact HS].
  right. assert (1 <= IZR t)%R by (apply IZR_le; lia).
  destruct (lifetime <? now - last s); [lra|].
  destruct (Rltb 1 (transient s) && (0 <? now - last s)); [|lra].
  pose proof (decay_pos (now - last s)). nra.
Qed.

Lemma run_inv clock s evs :
  wf s -> settled s -> Forall wf_event evs ->
  let '(_, sf, _) := run clock s evs in wf sf /\ settled sf.
Proof.
  revert clock s. induction evs as [|e r IH]; intros clock s W S F; cbn [run].
  - now split.
  - inversion F as [|e' r' We Fr]; subst. destruct e as [d p t|d|d].
    + destruct (increase s p t (clock + d)) as [s' o] eqn:EI.
      assert (W' : wf s') by (replace s' with (fst (increase s p t (clock + d))) by (now rewrite EI);
        apply increase_wf; [exact W | simpl in We; lia]).
      assert (S' : settled s') by (replace s' with (fst (increase s p t (clock + d))) by (now rewrite EI);
        apply increase_settled; [exact W | exact S | simpl in We; lia]).
      specialize (IH (clock + d) s' W' S' Fr).
      destruct (run (clock + d) s' r) as [[c sf] os]. exact IH.
    + specialize (IH (clock + d) s W S Fr).
      destruct (run (clock + d) s r) as [[c sf] os]. exact IH.
    + apply IH; [apply wf_zero | left; reflexivity | exact Fr].
Qed.

(* ----------------------------------------------------------- the formula *)
Lemma score_formula s now :
  wf s ->
  let dt := now - last s in
  (0 <= dt <= lifetime -> score s now = wrap (persistent s + Zfloor (transient s * decay dt))) /\
  (lifetime < dt -> score s now = persistent s) /\
  (dt < 0 -> score s now = persistent s).
Proof.
  intros [HP HT] dt. unfold score. fold dt.
  repeat split; intros H.
  - destruct (Rltb (transient s) 1) eqn:E1; cbn [orb].
    + apply Rltb_true in E1.
      rewrite Zfloor_small.
      * rewrite Z.add_0_r, wrap_small; [reflexivity|exact HP].
      * pose proof (decay_pos dt). pose proof (decay_le_1 dt ltac:(lia)). nra.
    + replace (dt <? 0) with false by (symmetry; apply Z.ltb_ge; lia).
      replace (lifetime <? dt) with false by (symmetry; apply Z.ltb_ge; lia).
      reflexivity.
  - replace (lifetime <? dt) with true by (symmetry; apply Z.ltb_lt; lia).
    now rewrite !orb_true_r.
  - replace (dt <? 0) with true by (symmetry; apply Z.ltb_lt; lia).
    now rewrite orb_true_r.
Qed.

Lemma score_raw s now : wf s -> score s now = wrap (raw_score s now).
Proof.
  intros [HP _]. unfold score, raw_score.
  destruct (_ || _ || _); [now rewrite wrap_small|reflexivity].
Qed.

Lemma raw_score_ge s now : wf s -> persistent s <= raw_score s now.
Proof.
  intros [HP HT]. unfold raw_score. destruct (_ || _ || _); [lia|].
  pose proof (decay_pos (now - last s)).
  assert (0 <= Zfloor (transient s * decay (now - last s))) by (apply Zfloor_nonneg; nra). lia.
Qed.

(* ----------------------------------------------------------- monotone *)
Definition carried (s : state) (now : Z) : R :=
  let dt := now - last s in
  if lifetime <? dt then 0%R
  else if Rltb 1 (transient s) && (0 <? dt) then (transient s * decay dt)%R
  else transient s.

Lemma increase_pos s p t now : 0 < t ->
  increase s p t now =
  (mk (wrap (persistent s + p)) (carried s now + IZR t) now,
   wrap (wrap (persistent s + p) + Zfloor (carried s now + IZR t))).
Proof.
  intros H. unfold increase, carried.
  replace (0 <? t) with true by (symmetry; apply Z.ltb_lt; lia). reflexivity.
Qed.

Lemma increase_zero s p now :
  increase s p 0 now =
  (mk (wrap (persistent s + p)) (transient s) (last s),
   wrap (wrap (persistent s + p) + Zfloor (transient s))).
Proof. reflexivity. Qed.

Lemma carried_nonneg s now : wf s -> (0 <= carried s now)%R.
Proof.
  intros [_ HT]. unfold carried.
  destruct (lifetime <? now - last s); [lra|].
  destruct (Rltb 1 (transient s) && (0 <? now - last s)); [|lra].
  pose proof (decay_pos (now - last s)). nra.
Qed.

(* the score before the call is at most persistent + floor(carried part) *)
Lemma raw_score_le_carried s now :
  wf s -> raw_score s now <= persistent s + Zfloor (carried s now).
Proof.
  intros W. pose proof (carried_nonneg s now W) as CN. destruct W as [HP HT].
  unfold raw_score, carried in *. set (dt := now - last s) in *.
  destruct (Rltb (transient s) 1 || (dt <? 0) || (lifetime <? dt)) eqn:C.
  - apply Zfloor_nonneg in CN. lia.
  - apply orb_false_elim in C. destruct C as [C C3]. apply orb_false_elim in C. destruct C as [C1 C2].
    apply Rltb_false in C1. apply Z.ltb_ge in C2. rewrite C3.
    pose proof (decay_le_1 dt C2) as D1. pose proof (decay_pos dt) as Dp.
    destruct (Rltb 1 (transient s) && (0 <? dt)); [lia|].
    assert (Zfloor (transient s * decay dt) <= Zfloor (transient s)) by (apply Zfloor_le; nra). lia.
Qed.

Lemma raw_score_le_transient s now :
  wf s -> raw_score s now <= persistent s + Zfloor (transient s).
Proof.
  intros [HP HT]. unfold raw_score. set (dt := now - last s).
  destruct (Rltb (transient s) 1 || (dt <? 0) || (lifetime <? dt)) eqn:C.
  - apply Zfloor_nonneg in HT. lia.
  - apply orb_false_elim in C. destruct C as [C C3]. apply orb_false_elim in C. destruct C as [C1 C2].
    apply Z.ltb_ge in C2.
    pose proof (decay_le_1 dt C2) as D1. pose proof (decay_pos dt) as Dp.
    assert (Zfloor (transient s * decay dt) <= Zfloor (transient s)) by (apply Zfloor_le; nra). lia.
Qed.

Lemma increase_monotone s p t now :
  wf s -> 0 <= p -> 0 <= t ->
  let s' := fst (increase s p t now) in
  let r := snd (increase s p t now) in
  persistent s + p + Zfloor (transient s') < two32 ->       (* no uint32 overflow *)
  score s now + p <= score s' now /\ score s' now <= r /\ (0 < t -> score s' now = r).
Proof.
  intros W Hp Ht s' r NO.
  assert (W' : wf s') by (apply increase_wf; assumption).
  pose proof (raw_score_ge s now W) as G.
  destruct W as [HP HT].
  assert (F' : 0 <= Zfloor (transient s')) by (apply Zfloor_nonneg, W').
  assert (Pw : wrap (persistent s + p) = persistent s + p) by (apply wrap_small; lia).
  rewrite (score_raw s now (conj HP HT)), (score_raw s' now W').
  destruct (Z.eq_dec t 0) as [->|Tn].
  - (* persistent only: the stored transient part and its time stamp are unchanged *)
    subst s' r. rewrite increase_zero in *. cbn [fst snd] in *. rewrite Pw in *. cbn [transient] in *.
    pose proof (raw_score_le_transient s now (conj HP HT)) as L.
    assert (E : raw_score (mk (persistent s + p) (transient s) (last s)) now = raw_score s now + p).
    { unfold raw_score. cbn [persistent transient last]. destruct (_ || _ || _); lia. }
    rewrite E. rewrite !wrap_small by lia. lia.
  - assert (Tp : 0 < t) by lia.
    subst s' r. rewrite (increase_pos s p t now Tp) in *. cbn [fst snd] in *. rewrite Pw in *.
    cbn [transient] in *.
    pose proof (raw_score_le_carried s now (conj HP HT)) as L.
    pose proof (carried_nonneg s now (conj HP HT)) as CN.
    assert (T1 : (1 <= IZR t)%R) by (apply IZR_le; lia).
    assert (E : raw_score (mk (persistent s + p) (carried s now + IZR t) now) now
                = persistent s + p + Zfloor (carried s now + IZR t)).
    { unfold raw_score. cbn [persistent transient last].
      replace (now - now) with 0 by lia. rewrite decay_0, Rmult_1_r.
      replace (Rltb (carried s now + IZR t) 1) with false by (symmetry; apply Rltb_false; lra).
      reflexivity. }
    rewrite E. rewrite Zfloor_add_IZR in *. rewrite !wrap_small by lia. lia.
Qed.

(* ----------------------------------------------------------- histories *)
Lemma score_range s now : wf s -> 0 <= score s now < two32.
Proof. intros W. rewrite score_raw by exact W. apply wrap_range. Qed.

Lemma increase_range s p t now : 0 <= snd (increase s p t now) < two32.
Proof. unfold increase. cbn [snd]. apply wrap_range. Qed.

Lemma run_outputs_range clock s evs :
  wf s -> Forall wf_event evs -> Forall (fun o => 0 <= o < two32) (snd (run clock s evs)).
Proof.
  revert clock s. induction evs as [|e r IH]; intros clock s W F; cbn [run].
  - constructor.
  - inversion F as [|e' r' We Fr]; subst. destruct e as [d p t|d|d].
    + pose proof (increase_wf s p t (clock + d) W ltac:(simpl in We; lia)) as W'.
      pose proof (increase_range s p t (clock + d)) as R.
      destruct (increase s p t (clock + d)) as [s' o]. cbn [fst snd] in *.
      specialize (IH (clock + d) s' W' Fr).
      destruct (run (clock + d) s' r) as [[c sf] os]. cbn [snd] in *. constructor; assumption.
    + specialize (IH (clock + d) s W Fr).
      destruct (run (clock + d) s r) as [[c sf] os]. cbn [snd] in *.
      constructor; [now apply score_range|assumption].
    + apply IH; [apply wf_zero|exact Fr].
Qed.

Lemma run_final_wf clock evs :
  Forall wf_event evs -> wf (snd (fst (run clock zero evs))) /\ settled (snd (fst (run clock zero evs))).
Proof.
  intros F. pose proof (run_inv clock zero evs wf_zero (or_introl eq_refl) F) as H.
  destruct (run clock zero evs) as [[c sf] os]. exact H.
Qed.

Lemma formula_all_histories clock evs :
  Forall wf_event evs ->
  let s := snd (fst (run clock zero evs)) in
  forall now, let dt := now - last s in
    (0 <= dt <= 1800 ->
       score s now = wrap (persistent s + Zfloor (transient s * Rpower 2 (- IZR dt / 60)))) /\
    (1800 < dt -> score s now = persistent s) /\
    (dt < 0 -> score s now = persistent s).
Proof.
  intros F s now. destruct (run_final_wf clock evs F) as [W _].
  exact (score_formula s now W).
Qed.

Lemma halflife_statement :
  decay 60 = (/ 2)%R /\ decay 0 = 1%R /\
  (forall a b, decay (a + b) = (decay a * decay b)%R) /\
  (forall k : nat, decay (60 * Z.of_nat k) = (/ 2 ^ k)%R) /\
  decay 1800 = (/ 2 ^ 30)%R /\
  (forall dt, (0 < decay dt)%R) /\ (forall dt, 0 <= dt -> (decay dt <= 1)%R) /\
  (forall a b, a <= b -> (decay b <= decay a)%R).
Proof.
  repeat split.
  - exact decay_60.
  - exact decay_0.
  - exact decay_add.
  - exact decay_60k.
  - exact decay_lifetime.
  - exact decay_pos.
  - exact decay_le_1.
  - exact decay_mono.
Qed.

Lemma monotone_all_histories clock evs :
  Forall wf_event evs ->
  let s := snd (fst (run clock zero evs)) in
  forall now p t, 0 <= p < two32 -> 0 <= t < two32 ->
    let s' := fst (increase s p t now) in
    let r := snd (increase s p t now) in
    persistent s + p + Zfloor (transient s') < two32 ->
    score s now + p <= score s' now /\ score s' now <= r /\ (0 < t -> score s' now = r).
Proof.
  intros F s now p t Hp Ht. destruct (run_final_wf clock evs F) as [W _].
  apply increase_monotone; [exact W|lia|lia].
Qed.

Lemma nonneg_all_histories clock evs :
  Forall wf_event evs ->
  let s := snd (fst (run clock zero evs)) in
  (0 <= transient s)%R /\ 0 <= persistent s < two32 /\
  Forall (fun o => 0 <= o < two32) (snd (run clock zero evs)) /\
  forall now, persistent s <= raw_score s now /\ score s now = wrap (raw_score s now) /\
              0 <= score s now < two32.
Proof.
  intros F s. destruct (run_final_wf clock evs F) as [W _]. pose proof W as [HP HT].
  split; [exact HT|]. split; [exact HP|]. split; [apply run_outputs_range; [apply wf_zero|exact F]|].
  intros now. split; [now apply raw_score_ge|]. split; [now apply score_raw|now apply score_range].
Qed.

(* the hypotheses are satisfiable by non-trivial values *)
Example monotone_premise_example :
  let evs := [Inc 100 3 50; Query 30; Inc 30 0 7] in
  Forall wf_event evs /\
  persistent zero + 5 + Zfloor (transient (fst (increase zero 5 9 5000))) < two32.
Proof.
  split.
  - repeat constructor; unfold two32; lia.
  - rewrite (increase_pos zero 5 9 5000) by lia. cbn [fst transient].
    unfold carried. cbn [last zero].
    replace (lifetime <? 5000 - 0) with true by reflexivity.
    rewrite Rplus_0_l, Zfloor_IZR. reflexivity.
Qed.
