(* C35 — the fixed-point interval model (Model.v, Part 2) encloses the
   real-valued model: every output of [run] lies in the corresponding output
   enclosure of [irun].  The 60 table constants are validated by exact integer
   arithmetic: clo r ^ 60 * 2^r <= SC^60 <= (clo r + 1)^60 * 2^r. *)
From Coq Require Import Reals ZArith List Bool Lia Lra.
From Flocq Require Import Raux.
From C35 Require Import Model Proofs.
Import ListNotations.
Open Scope Z_scope.

(* ------------------------------------------------------------ real helpers *)
Lemma pow_lt_strict (x y : R) (n : nat) : (0 <= y < x)%R -> (y ^ S n < x ^ S n)%R.
Proof.
  intros H. simpl.
  assert (y ^ n <= x ^ n)%R by (apply pow_incr; lra).
  assert (0 < x ^ n)%R by (apply pow_lt; lra).
  assert (0 <= y ^ n)%R by (apply pow_le; lra). nra.
Qed.

Lemma pow_le_inv (x y : R) (n : nat) : (0 <= x)%R -> (0 <= y)%R -> (x ^ S n <= y ^ S n)%R -> (x <= y)%R.
Proof.
  intros Hx Hy H. destruct (Rle_lt_dec x y) as [L|L]; [exact L|].
  pose proof (pow_lt_strict x y n (conj Hy L)). lra.
Qed.

Lemma SC_pos : (0 < IZR SC)%R.
Proof. apply IZR_lt. reflexivity. Qed.

Lemma zdiv_dn a b : 0 < b -> (IZR (a / b) * IZR b <= IZR a)%R.
Proof.
  intros H. rewrite <- mult_IZR. apply IZR_le. pose proof (Z.mul_div_le a b H). lia.
Qed.

Lemma zdiv_up a b : 0 < b -> (IZR a <= IZR (cdiv a b) * IZR b)%R.
Proof.
  intros H. rewrite <- mult_IZR. apply IZR_le. unfold cdiv.
  pose proof (Z.mul_div_le (- a) b H). lia.
Qed.

Lemma cdiv_nonneg a b : 0 <= a -> 0 < b -> 0 <= cdiv a b.
Proof.
  intros Ha Hb. unfold cdiv.
  assert ((- a) / b <= 0) by (apply Z.div_le_upper_bound; lia). lia.
Qed.

(* ------------------------------------------------------------ the table *)
Definition tab_check (r : Z) : bool :=
  (0 <? clo r) && (clo r ^ 60 * 2 ^ r <=? SC ^ 60) && (SC ^ 60 <=? chi r ^ 60 * 2 ^ r).

Lemma tab_all : forallb (fun n => tab_check (Z.of_nat n)) (seq 0 60) = true.
Proof. vm_compute. reflexivity. Qed.

Lemma tab_ok (n : nat) : (n < 60)%nat -> tab_check (Z.of_nat n) = true.
Proof.
  intros H. pose proof tab_all as A. rewrite forallb_forall in A.
  apply A. apply in_seq. lia.
Qed.

Lemma decay_pow60 (n : nat) : (decay (Z.of_nat n) ^ 60 = / 2 ^ n)%R.
Proof.
  unfold decay. rewrite <- Rpower_pow by (unfold Rpower; apply exp_pos).
  rewrite Rpower_mult.
  replace (- IZR (Z.of_nat n) / 60 * INR 60)%R with (- INR n)%R.
  - rewrite Rpower_Ropp, Rpower_pow by lra. reflexivity.
  - rewrite (INR_IZR_INZ 60), (INR_IZR_INZ n). simpl (Z.of_nat 60). field.
Qed.

Lemma tab_sound (n : nat) : (n < 60)%nat ->
  (0 < IZR (clo (Z.of_nat n)) <= decay (Z.of_nat n) * IZR SC)%R /\
  (decay (Z.of_nat n) * IZR SC <= IZR (chi (Z.of_nat n)))%R.
Proof.
  intros H. pose proof (tab_ok n H) as C. unfold tab_check in C.
  apply andb_prop in C. destruct C as [C C3]. apply andb_prop in C. destruct C as [C1 C2].
  apply Z.ltb_lt in C1. apply Z.leb_le in C2. apply Z.leb_le in C3.
  set (r := Z.of_nat n) in *.
  pose proof SC_pos as Sp. pose proof (decay_pos r) as Dp.
  assert (P2 : (0 < 2 ^ n)%R) by (apply pow_lt; lra).
  assert (E : ((decay r * IZR SC) ^ 60 * 2 ^ n = IZR SC ^ 60)%R).
  { rewrite Rpow_mult_distr. unfold r. rewrite decay_pow60. field. lra. }
  assert (I2 : IZR (2 ^ r) = (2 ^ n)%R) by (unfold r; now rewrite <- pow_IZR).
  apply IZR_le in C2. apply IZR_le in C3. apply IZR_lt in C1.
  rewrite mult_IZR in C2, C3. rewrite I2 in C2, C3.
  change 60 with (Z.of_nat 60) in C2, C3. rewrite <- !pow_IZR in C2, C3.
  repeat split.
  - exact C1.
  - apply (pow_le_inv _ _ 59); [lra|nra|].
    apply Rmult_le_reg_r with (2 ^ n)%R; [exact P2|]. rewrite E. exact C2.
  - apply (pow_le_inv _ _ 59); [nra| |].
    + unfold chi. rewrite plus_IZR. lra.
    + apply Rmult_le_reg_r with (2 ^ n)%R; [exact P2|]. rewrite E. exact C3.
Qed.

(* ------------------------------------------------------------ decay bounds *)
Lemma dbounds dt : 0 <= dt ->
  0 <= dlo dt /\ (IZR (dlo dt) <= decay dt * IZR SC <= IZR (dhi dt))%R.
Proof.
  intros H. unfold dlo, dhi.
  pose proof (Z.div_mod dt 60 ltac:(lia)) as DM.
  pose proof (Z.mod_pos_bound dt 60 ltac:(lia)) as MB.
  assert (Q0 : 0 <= dt / 60) by (apply Z.div_pos; lia).
  set (q := dt / 60) in *. set (r := dt mod 60) in *.
  destruct (tab_sound (Z.to_nat r) ltac:(lia)) as [[L0 L] U].
  rewrite Z2Nat.id in * by lia.
  assert (Dd : decay dt = (/ 2 ^ Z.to_nat q * decay r)%R).
  { rewrite DM, decay_add. f_equal. rewrite <- decay_60k. f_equal. rewrite Z2Nat.id; lia. }
  assert (P2 : (0 < 2 ^ Z.to_nat q)%R) by (apply pow_lt; lra).
  assert (I2 : IZR (2 ^ q) = (2 ^ Z.to_nat q)%R).
  { rewrite pow_IZR. rewrite Z2Nat.id by lia. reflexivity. }
  assert (Z2 : 0 < 2 ^ q) by (apply Z.pow_pos_nonneg; lia).
  pose proof (zdiv_dn (clo r) (2 ^ q) Z2) as A. pose proof (zdiv_up (chi r) (2 ^ q) Z2) as B.
  rewrite I2 in A, B. rewrite Dd.
  assert (C0 : 0 < clo r) by (apply lt_IZR; exact L0).
  split; [apply Z.div_pos; lia|].
  split.
  - apply Rmult_le_reg_r with (2 ^ Z.to_nat q)%R; [exact P2|].
    replace (/ 2 ^ Z.to_nat q * decay r * IZR SC * 2 ^ Z.to_nat q)%R with (decay r * IZR SC)%R by (field; lra).
    lra.
  - apply Rmult_le_reg_r with (2 ^ Z.to_nat q)%R; [exact P2|].
    replace (/ 2 ^ Z.to_nat q * decay r * IZR SC * 2 ^ Z.to_nat q)%R with (decay r * IZR SC)%R by (field; lra).
    lra.
Qed.

(* ------------------------------------------------------------ products *)
Lemma mul_dn_sound a b x y :
  0 <= a -> 0 <= b -> (IZR a <= x * IZR SC)%R -> (IZR b <= y * IZR SC)%R ->
  0 <= mul_dn a b /\ (IZR (mul_dn a b) <= x * y * IZR SC)%R.
Proof.
  intros Ha Hb Hx Hy. pose proof SC_pos as Sp. unfold mul_dn.
  split; [apply Z.div_pos; [lia|reflexivity]|].
  pose proof (zdiv_dn (a * b) SC ltac:(reflexivity)) as D. rewrite mult_IZR in D.
  apply IZR_le in Ha. apply IZR_le in Hb.
  apply Rmult_le_reg_r with (IZR SC); [exact Sp|].
  assert (IZR a * IZR b <= (x * IZR SC) * (y * IZR SC))%R by (apply Rmult_le_compat; lra).
  lra.
Qed.

Lemma mul_up_sound a b x y :
  (0 <= x)%R -> (0 <= y)%R -> (x * IZR SC <= IZR a)%R -> (y * IZR SC <= IZR b)%R ->
  (x * y * IZR SC <= IZR (mul_up a b))%R.
Proof.
  intros Hx Hy Ha Hb. pose proof SC_pos as Sp. unfold mul_up.
  pose proof (zdiv_up (a * b) SC ltac:(reflexivity)) as D. rewrite mult_IZR in D.
  apply Rmult_le_reg_r with (IZR SC); [exact Sp|].
  assert ((x * IZR SC) * (y * IZR SC) <= IZR a * IZR b)%R by (apply Rmult_le_compat; nra).
  lra.
Qed.

Lemma infl_dn_sound x : 0 <= infl_dn x /\ (0 <= x -> infl_dn x <= x).
Proof.
  unfold infl_dn. split; [lia|]. intros H.
  assert (0 <= x / INFL) by (apply Z.div_pos; [lia|reflexivity]). lia.
Qed.

Lemma infl_up_sound x : 0 <= x -> x <= infl_up x.
Proof.
  intros H. unfold infl_up.
  assert (0 <= x / INFL) by (apply Z.div_pos; [lia|reflexivity]). lia.
Qed.

Lemma floor_dn lo x : (IZR lo <= x * IZR SC)%R -> lo / SC <= Zfloor x.
Proof.
  intros H. rewrite <- (Zfloor_div lo SC) by discriminate. apply Zfloor_le.
  pose proof SC_pos. apply Rmult_le_reg_r with (IZR SC); [assumption|].
  replace (IZR lo / IZR SC * IZR SC)%R with (IZR lo) by (field; lra). exact H.
Qed.

Lemma floor_up hi x : (x * IZR SC <= IZR hi)%R -> Zfloor x <= hi / SC.
Proof.
  intros H. rewrite <- (Zfloor_div hi SC) by discriminate. apply Zfloor_le.
  pose proof SC_pos. apply Rmult_le_reg_r with (IZR SC); [assumption|].
  replace (IZR hi / IZR SC * IZR SC)%R with (IZR hi) by (field; lra). exact H.
Qed.

(* ------------------------------------------------------------ enclosure *)
Definition encl (i : istate) (s : state) : Prop :=
  ipers i = persistent s /\ ilast i = last s /\ 0 <= ilo i /\
  (IZR (ilo i) <= transient s * IZR SC <= IZR (ihi i))%R.

Lemma encl_zero : encl izero zero.
Proof. unfold encl, izero, zero; simpl. repeat split; try lia; lra. Qed.

(* an output enclosure contains a value *)
Lemma within_intro P flo fhi f :
  flo <= f <= fhi -> within (P, flo, fhi) (wrap (P + f)) = true.
Proof.
  intros H. unfold within, wrap. apply Z.leb_le.
  replace ((P + f) mod two32 - P - flo) with ((P + f) mod two32 - (P + flo)) by lia.
  rewrite Zminus_mod_idemp_l. replace (P + f - (P + flo)) with (f - flo) by lia.
  assert (0 < two32) by reflexivity.
  destruct (Z_lt_le_dec (f - flo) two32).
  - rewrite Z.mod_small; lia.
  - pose proof (Z.mod_pos_bound (f - flo) two32 ltac:(lia)). lia.
Qed.

Lemma within_exact P : 0 <= P < two32 -> within (P, 0, 0) P = true.
Proof.
  intros H. rewrite <- (wrap_small P H) at 2. replace P with (P + 0) at 2 by lia.
  apply within_intro. lia.
Qed.

Lemma tol_real i : (IZR (SC - tol i) <= IZR SC <= IZR (SC + tol i))%R.
Proof. unfold tol. destruct (ilo i =? ihi i); split; apply IZR_le; unfold SC, EPS; lia. Qed.

Lemma iscore_sound i s now :
  encl i s -> wf s -> within (iscore i now) (score s now) = true.
Proof.
  intros (EP & EL & L0 & Elo & Ehi) W. pose proof W as [HP HT].
  unfold iscore, score. rewrite EP, EL. set (dt := now - last s).
  pose proof SC_pos as Sp. pose proof (tol_real i) as [E1 E2].
  destruct (dt <? 0) eqn:C2; cbn [orb].
  { rewrite orb_true_r. cbn [orb]. now apply within_exact. }
  destruct (lifetime <? dt) eqn:C3; cbn [orb].
  { rewrite orb_true_r. now apply within_exact. }
  apply Z.ltb_ge in C2.
  destruct (dbounds dt C2) as (D0 & Dl & Dh).
  pose proof (decay_pos dt) as Dp.
  set (plo := if dt =? 0 then ilo i else infl_dn (mul_dn (ilo i) (dlo dt))).
  set (phi := if dt =? 0 then ihi i else infl_up (mul_up (ihi i) (dhi dt))).
  assert (TD : (0 <= transient s * decay dt)%R) by nra.
  assert (PB : (IZR plo <= transient s * decay dt * IZR SC <= IZR phi)%R /\ 0 <= phi).
  { unfold plo, phi. destruct (dt =? 0) eqn:Cz.
    - apply Z.eqb_eq in Cz. rewrite Cz, decay_0, Rmult_1_r.
      split; [lra|]. apply le_IZR. nra.
    - destruct (mul_dn_sound (ilo i) (dlo dt) (transient s) (decay dt) L0 D0 Elo Dl) as [M0 M].
      destruct (infl_dn_sound (mul_dn (ilo i) (dlo dt))) as [_ I].
      specialize (I M0). apply IZR_le in I.
      pose proof (mul_up_sound (ihi i) (dhi dt) (transient s) (decay dt) HT ltac:(lra) Ehi Dh) as MU.
      assert (H : 0 <= mul_up (ihi i) (dhi dt)) by (apply le_IZR; nra).
      pose proof (infl_up_sound _ H) as IU. split; [|lia]. apply IZR_le in IU. lra. }
  destruct PB as [[Pl Ph] P0].
  destruct (Rltb (transient s) 1) eqn:C1; cbn [orb].
  - apply Rltb_true in C1.
    replace (SC + tol i <=? ilo i) with false.
    2:{ symmetry. apply Z.leb_gt. apply lt_IZR. nra. }
    rewrite <- (wrap_small _ HP) at 2. replace (persistent s) with (persistent s + 0) at 2 by lia.
    apply within_intro. split; [lia|].
    destruct (ihi i <? SC - tol i); [lia|].
    apply Z.div_pos; [exact P0|reflexivity].
  - apply Rltb_false in C1.
    apply within_intro. split.
    + destruct (SC + tol i <=? ilo i).
      * apply floor_dn. exact Pl.
      * apply Zfloor_nonneg. exact TD.
    + replace (ihi i <? SC - tol i) with false.
      2:{ symmetry. apply Z.ltb_ge. apply le_IZR. nra. }
      apply floor_up. exact Ph.
Qed.

Lemma iincrease_sound i s p t now :
  encl i s -> wf s -> 0 <= t ->
  encl (fst (iincrease i p t now)) (fst (increase s p t now)) /\
  within (snd (iincrease i p t now)) (snd (increase s p t now)) = true.
Proof.
  intros (EP & EL & L0 & Elo & Ehi) W Ht. pose proof W as [HP HT].
  pose proof SC_pos as Sp. pose proof (tol_real i) as [E1 E2].
  assert (EN : encl (fst (iincrease i p t now)) (fst (increase s p t now))).
  { unfold iincrease, increase. cbn [fst]. rewrite EP, EL. set (dt := now - last s).
    destruct (0 <? t) eqn:Et.
    2:{ unfold encl; cbn. repeat split; try assumption; lia. }
    apply Z.ltb_lt in Et.
    set (lo0 := if lifetime <? dt then 0 else if 0 <? dt then (if ihi i <=? SC - tol i then ilo i else mul_dn (ilo i) (dlo dt)) else ilo i).
    set (hi0 := if lifetime <? dt then 0 else if 0 <? dt then (if SC + tol i <? ilo i then mul_up (ihi i) (dhi dt) else ihi i) else ihi i).
    set (T0 := if lifetime <? dt then 0%R else if Rltb 1 (transient s) && (0 <? dt) then (transient s * decay dt)%R else transient s).
    assert (B : 0 <= lo0 /\ (IZR lo0 <= T0 * IZR SC <= IZR hi0)%R).
    { unfold lo0, hi0, T0. destruct (lifetime <? dt); [simpl; split; [lia|lra]|].
      destruct (0 <? dt) eqn:Cd; [|rewrite andb_false_r; split; [lia|lra]].
      apply Z.ltb_lt in Cd. rewrite andb_true_r.
      destruct (dbounds dt ltac:(lia)) as (D0 & Dl & Dh).
      pose proof (decay_pos dt) as Dp. pose proof (decay_le_1 dt ltac:(lia)) as D1.
      destruct (mul_dn_sound (ilo i) (dlo dt) (transient s) (decay dt) L0 D0 Elo Dl) as [M0 M].
      pose proof (mul_up_sound (ihi i) (dhi dt) (transient s) (decay dt) HT ltac:(lra) Ehi Dh) as MU.
      assert (TS0 : (0 <= transient s * IZR SC)%R) by nra.
      assert (TSd : (transient s * decay dt * IZR SC <= transient s * IZR SC)%R) by nra.
      destruct (Rltb 1 (transient s)) eqn:C1.
      - apply Rltb_true in C1.
        replace (ihi i <=? SC - tol i) with false.
        2:{ symmetry. apply Z.leb_gt. apply lt_IZR. nra. }
        split; [exact M0|]. split; [lra|].
        destruct (SC + tol i <? ilo i); [lra|lra].
      - apply Rltb_false in C1.
        replace (SC + tol i <? ilo i) with false.
        2:{ symmetry. apply Z.ltb_ge. apply le_IZR. nra. }
        split; [destruct (ihi i <=? SC - tol i); lia|]. split; [|lra].
        destruct (ihi i <=? SC - tol i); [lra|lra]. }
    destruct B as (B0 & Bl & Bh).
    assert (TS : 0 <= t * SC) by (apply Z.mul_nonneg_nonneg; [lia|discriminate]).
    destruct (infl_dn_sound (lo0 + t * SC)) as [I0 I]. specialize (I ltac:(lia)).
    assert (H0 : 0 <= hi0 + t * SC).
    { pose proof (IZR_le _ _ B0). assert (0 <= hi0) by (apply le_IZR; lra). lia. }
    pose proof (infl_up_sound _ H0) as IU.
    apply IZR_le in I. apply IZR_le in IU. rewrite plus_IZR, mult_IZR in I, IU.
    fold T0.
    destruct (lo0 =? hi0); unfold encl; cbn [ipers ilo ihi ilast persistent transient last].
    - split; [reflexivity|]. split; [reflexivity|]. split; [lia|].
      rewrite !plus_IZR, !mult_IZR. lra.
    - split; [reflexivity|]. split; [reflexivity|]. split; [exact I0|]. lra. }
  split; [exact EN|].
  assert (W' : wf (fst (increase s p t now))) by (apply increase_wf; assumption).
  destruct EN as (EP' & EL' & L0' & Elo' & Ehi').
  assert (SO : snd (iincrease i p t now) =
               (ipers (fst (iincrease i p t now)), ilo (fst (iincrease i p t now)) / SC, ihi (fst (iincrease i p t now)) / SC)).
  { unfold iincrease. cbn [fst snd]. destruct (0 <? t); [|reflexivity].
    match goal with |- context [if ?c =? ?d then _ else _] => destruct (c =? d) end; reflexivity. }
  assert (SR : snd (increase s p t now) =
               wrap (persistent (fst (increase s p t now)) + Zfloor (transient (fst (increase s p t now))))).
  { unfold increase. cbn [fst snd]. destruct (0 <? t); reflexivity. }
  rewrite SO, SR, EP'. apply within_intro. split; [now apply floor_dn|now apply floor_up].
Qed.

Theorem irun_encloses clock i s evs :
  encl i s -> wf s -> Forall wf_event evs ->
  Forall2 (fun e o => within e o = true) (irun clock i evs) (snd (run clock s evs)).
Proof.
  revert clock i s. induction evs as [|e r IH]; intros clock i s E W F; cbn [irun run].
  - constructor.
  - inversion F as [|e' r' We Fr]; subst. destruct e as [d p t|d|d].
    + pose proof (iincrease_sound i s p t (clock + d) E W ltac:(simpl in We; lia)) as [E' O].
      pose proof (increase_wf s p t (clock + d) W ltac:(simpl in We; lia)) as W'.
      destruct (iincrease i p t (clock + d)) as [i' io]. destruct (increase s p t (clock + d)) as [s' o].
      cbn [fst snd] in *. specialize (IH (clock + d) i' s' E' W' Fr).
      destruct (run (clock + d) s' r) as [[c sf] os]. cbn [snd] in *. constructor; assumption.
    + specialize (IH (clock + d) i s E W Fr).
      destruct (run (clock + d) s r) as [[c sf] os]. cbn [snd] in *.
      constructor; [now apply iscore_sound|assumption].
    + apply IH; [apply encl_zero|apply wf_zero|exact Fr].
Qed.
