(* C35 — the model against the documented rule over whole histories: with a
   forward-moving clock the transient part equals the sum of the remembered
   increments, each decayed by its age, up to the +1 caused by the code's
   `transient > 1` guard (a transient part of exactly 1 is not decayed). *)
From Coq Require Import Reals ZArith List Bool Lia Lra.
From Flocq Require Import Raux.
From C35 Require Import Model Proofs.
Import ListNotations.
Open Scope Z_scope.

Lemma ideal_shift a d cs : ideal_sum (a + d) cs = (ideal_sum a cs * decay d)%R.
Proof.
  induction cs as [|c r IH]; cbn [ideal_sum]; [lra|].
  rewrite IH. unfold contribution.
  replace (a + d - fst c) with ((a - fst c) + d) by lia. rewrite decay_add. lra.
Qed.

Definition amounts_ok (cs : list (Z * Z)) : Prop := Forall (fun c => 0 <= snd c) cs.

Lemma ideal_nonneg now cs : amounts_ok cs -> (0 <= ideal_sum now cs)%R.
Proof.
  induction 1 as [|c r Hc Hr IH]; cbn [ideal_sum]; [lra|].
  unfold contribution. apply IZR_le in Hc. pose proof (decay_pos (now - fst c)). nra.
Qed.

Definition rel (s : state) (cs : list (Z * Z)) : Prop :=
  amounts_ok cs /\
  (ideal_sum (last s) cs <= transient s <= ideal_sum (last s) cs + 1)%R.

Lemma rel_zero : rel zero [].
Proof. split; [constructor|]. simpl. lra. Qed.

Lemma rel_increase s cs p t now :
  wf s -> rel s cs -> last s <= now -> 0 < t ->
  rel (fst (increase s p t now)) ((now, t) :: (if lifetime <? now - last s then [] else cs)).
Proof.
  intros [HP HT] [A [L U]] Hn Ht. rewrite (increase_pos s p t now Ht). cbn [fst].
  unfold rel. cbn [last transient ideal_sum]. unfold contribution at 1 2. cbn [fst snd].
  replace (now - now) with 0 by lia. rewrite decay_0, Rmult_1_r.
  unfold carried. set (dt := now - last s).
  destruct (lifetime <? dt) eqn:C.
  - split; [repeat constructor; simpl; lia|]. cbn [ideal_sum]. lra.
  - split; [constructor; [simpl; lia|exact A]|].
    assert (IS : ideal_sum now cs = (ideal_sum (last s) cs * decay dt)%R).
    { replace now with (last s + dt) by (unfold dt; lia). apply ideal_shift. }
    rewrite IS.
    pose proof (ideal_nonneg (last s) cs A) as I0.
    pose proof (decay_pos dt) as Dp. pose proof (decay_le_1 dt ltac:(unfold dt; lia)) as D1.
    destruct (Rltb 1 (transient s)) eqn:C1; cbn [andb].
    + destruct (0 <? dt) eqn:Cd.
      * split; nra.
      * assert (dt = 0) by (apply Z.ltb_ge in Cd; unfold dt in *; lia).
        rewrite H, decay_0. lra.
    + apply Rltb_false in C1. split; nra.
Qed.

Lemma run_state_inc clock s d p t r :
  snd (fst (run clock s (Inc d p t :: r))) =
  snd (fst (run (clock + d) (fst (increase s p t (clock + d))) r)).
Proof.
  cbn [run]. destruct (increase s p t (clock + d)) as [s' o]. cbn [fst].
  destruct (run (clock + d) s' r) as [[c sf] os]. reflexivity.
Qed.

Lemma run_state_query clock s d r :
  snd (fst (run clock s (Query d :: r))) = snd (fst (run (clock + d) s r)).
Proof. cbn [run]. destruct (run (clock + d) s r) as [[c sf] os]. reflexivity. Qed.

Lemma history_rel evs : forall clock s cs,
  0 <= clock -> wf s -> settled s -> rel s cs -> last s <= clock ->
  Forall wf_event evs -> Forall forward evs ->
  let sf := snd (fst (run clock s evs)) in
  wf sf /\ settled sf /\ rel sf (contribs clock (last s) cs evs).
Proof.
  induction evs as [|e r IH]; intros clock s cs C0 W S R L F G.
  - cbn. auto.
  - inversion F as [|e' r' We Fr]; subst. inversion G as [|e'' r'' Ge Gr]; subst.
    destruct e as [d p t|d|d]; simpl in Ge.
    + cbv zeta. rewrite run_state_inc. cbn [contribs]. simpl in We.
      set (now := clock + d).
      pose proof (increase_wf s p t now W ltac:(lia)) as W'.
      pose proof (increase_settled s p t now W S ltac:(lia)) as S'.
      destruct (0 <? t) eqn:Et.
      * apply Z.ltb_lt in Et.
        pose proof (rel_increase s cs p t now W R ltac:(unfold now; lia) Et) as R'.
        assert (L' : last (fst (increase s p t now)) = now) by (now rewrite (increase_pos s p t now Et)).
        pose proof (IH now (fst (increase s p t now)) _ ltac:(unfold now; lia) W' S' R' ltac:(lia) Fr Gr) as H.
        rewrite L' in H. exact H.
      * apply Z.ltb_ge in Et. assert (t = 0) by lia. subst t.
        assert (L' : last (fst (increase s p 0 now)) = last s) by (now rewrite increase_zero).
        assert (R' : rel (fst (increase s p 0 now)) cs).
        { rewrite increase_zero. cbn [fst]. exact R. }
        pose proof (IH now (fst (increase s p 0 now)) cs ltac:(unfold now; lia) W' S' R' ltac:(rewrite L'; unfold now; lia) Fr Gr) as H.
        rewrite L' in H. exact H.
    + cbv zeta. rewrite run_state_query. cbn [contribs].
      apply IH; try assumption; lia.
    + cbv zeta. cbn [run contribs].
      apply (IH (clock + d) zero []); try assumption; try lia.
      * apply wf_zero.
      * left; reflexivity.
      * apply rel_zero.
      * simpl. lia.
Qed.

Theorem history_ideal :
  forall clock evs, 0 <= clock -> Forall wf_event evs -> Forall forward evs ->
  let s := snd (fst (run clock zero evs)) in
  let cs := contributions clock evs in
  forall now, last s <= now <= last s + 1800 ->
    persistent s + Zfloor (ideal_sum now cs) <= raw_score s now
      <= persistent s + Zfloor (ideal_sum now cs) + 1.
Proof.
  intros clock evs C0 F G s cs now Hn.
  destruct (history_rel evs clock zero [] C0 wf_zero (or_introl eq_refl) rel_zero C0 F G)
    as ([HP HT] & S & A & L & U).
  fold s in HP, HT, S, L, U. change (contribs clock (last zero) [] evs) with cs in A, L, U.
  set (dt := now - last s).
  replace now with (last s + dt) by (unfold dt; lia). rewrite ideal_shift.
  pose proof (ideal_nonneg (last s) cs A) as I0.
  pose proof (decay_pos dt) as Dp. pose proof (decay_le_1 dt ltac:(unfold dt; lia)) as D1.
  unfold raw_score. replace (last s + dt - last s) with dt by lia.
  replace (dt <? 0) with false by (symmetry; apply Z.ltb_ge; unfold dt; lia).
  replace (lifetime <? dt) with false by (symmetry; apply Z.ltb_ge; unfold dt, lifetime; lia).
  destruct (Rltb (transient s) 1) eqn:C1; cbn [orb].
  - apply Rltb_true in C1. destruct S as [S|S]; [|lra].
    assert (E : ideal_sum (last s) cs = 0%R) by lra. rewrite E, Rmult_0_l.
    change 0%R with (IZR 0). rewrite Zfloor_IZR. lia.
  - apply Rltb_false in C1.
    assert (Zfloor (ideal_sum (last s) cs * decay dt) <= Zfloor (transient s * decay dt))
      by (apply Zfloor_le; nra).
    assert (Zfloor (transient s * decay dt) <= Zfloor (ideal_sum (last s) cs * decay dt + IZR 1)).
    { apply Zfloor_le. simpl. nra. }
    rewrite Zfloor_add_IZR in H0. lia.
Qed.
