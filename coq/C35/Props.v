(* C35 — peer ban scores follow the documented decay rule.  PROPERTY THEOREMS ONLY.

   Model (C35/Model.v): the real-valued state machine of DynamicBanScore
   (p2p/security/banscore.go and p2p/trust/banscore.go, identical up to the
   name of the table initialiser): state (persistent : uint32, transient : R,
   last : unix seconds); [increase s p t now] and [score s now] mirror
   increase / int with decay dt = 2^(-dt/60) = exp(-dt ln2 / 60), lifetime
   1800 s and the branches `transient < 1`, `dt < 0`, `transient > 1 && dt > 0`
   exactly as the code.  A history is any list of events
   Inc step p t | Query step | Reset step: the clock moves by [step] (any
   integer, also negative), then the call happens; [run clock zero evs] returns
   the final clock, the final state and the list of returned values.

   The code computes the transient part in float64; these theorems are about
   the model over R.  The tie is c35_enclosure plus the per-run comparison of
   the Go results with the executable enclosure (Run.v): [partial: float <-> real]. *)
From Coq Require Import Reals ZArith List.
From Flocq Require Import Raux.
From C35 Require Import Model Proofs Encl Ideal History.
Import ListNotations.
Open Scope Z_scope.

(* After ANY history the score read at time [now] is
   persistent + floor(transient * 2^(-dt/60)) for 0 <= dt <= 1800 (as a uint32),
   and the transient part is forgotten beyond 1800 s (and for dt < 0). *)
Theorem c35_formula :
  forall clock evs, Forall wf_event evs ->
  let s := snd (fst (run clock zero evs)) in
  forall now, let dt := now - last s in
    (0 <= dt <= 1800 ->
       score s now = wrap (persistent s + Zfloor (transient s * Rpower 2 (- IZR dt / 60)))) /\
    (1800 < dt -> score s now = persistent s) /\
    (dt < 0 -> score s now = persistent s).
Proof. exact formula_all_histories. Qed.
Print Assumptions c35_formula.

(* The decay factor: one half after 60 s, multiplicative in time, /2^k after
   60k s, 2^-30 at the lifetime, positive, at most 1 and non-increasing. *)
Theorem c35_halflife :
  decay 60 = (/ 2)%R /\ decay 0 = 1%R /\
  (forall a b, decay (a + b) = (decay a * decay b)%R) /\
  (forall k : nat, decay (60 * Z.of_nat k) = (/ 2 ^ k)%R) /\
  decay 1800 = (/ 2 ^ 30)%R /\
  (forall dt, (0 < decay dt)%R) /\ (forall dt, 0 <= dt -> (decay dt <= 1)%R) /\
  (forall a b, a <= b -> (decay b <= decay a)%R).
Proof. exact halflife_statement. Qed.
Print Assumptions c35_halflife.

(* After ANY history, any further Increase(p, t) at any time raises the score
   read at that time by at least p, and returns at least the new score (exactly
   it when t > 0), provided the uint32 result does not overflow. *)
Theorem c35_monotone :
  forall clock evs, Forall wf_event evs ->
  let s := snd (fst (run clock zero evs)) in
  forall now p t, 0 <= p < two32 -> 0 <= t < two32 ->
    let s' := fst (increase s p t now) in
    let r := snd (increase s p t now) in
    persistent s + p + Zfloor (transient s') < two32 ->
    score s now + p <= score s' now /\ score s' now <= r /\ (0 < t -> score s' now = r).
Proof. exact monotone_all_histories. Qed.
Print Assumptions c35_monotone.

(* After ANY history the transient part is non-negative, every returned value
   is a uint32, and the score before wrap-around is at least the persistent part. *)
Theorem c35_nonneg :
  forall clock evs, Forall wf_event evs ->
  let s := snd (fst (run clock zero evs)) in
  (0 <= transient s)%R /\ 0 <= persistent s < two32 /\
  Forall (fun o => 0 <= o < two32) (snd (run clock zero evs)) /\
  forall now, persistent s <= raw_score s now /\ score s now = wrap (raw_score s now) /\
              0 <= score s now < two32.
Proof. exact nonneg_all_histories. Qed.
Print Assumptions c35_nonneg.

(* The documented rule over whole histories with a forward-moving clock: the
   transient part is the sum of all transient increments since the last
   forgetting (gap > 1800 s between transient increments, or Reset), each
   decayed by its age - up to the +1 that the code's `transient > 1` guard can
   add (a transient part of exactly 1 is carried over undecayed). *)
Theorem c35_history_ideal :
  forall clock evs, 0 <= clock -> Forall wf_event evs -> Forall forward evs ->
  let s := snd (fst (run clock zero evs)) in
  let cs := contributions clock evs in
  forall now, last s <= now <= last s + 1800 ->
    persistent s + Zfloor (ideal_sum now cs) <= raw_score s now
      <= persistent s + Zfloor (ideal_sum now cs) + 1.
Proof. exact history_ideal. Qed.
Print Assumptions c35_history_ideal.

(* The executable fixed-point interval model encloses the real-valued model on
   ANY history: every returned value lies in the corresponding output enclosure. *)
Theorem c35_enclosure :
  forall clock evs, Forall wf_event evs ->
  Forall2 (fun e o => within e o = true) (irun clock izero evs) (snd (run clock zero evs)).
Proof. intros clock evs F. exact (irun_encloses clock izero zero evs encl_zero wf_zero F). Qed.
Print Assumptions c35_enclosure.

(* The 60 table constants of the interval model bound 2^(-r/60) * 2^70. *)
Theorem c35_table :
  forall n : nat, (n < 60)%nat ->
  (IZR (clo (Z.of_nat n)) <= Rpower 2 (- IZR (Z.of_nat n) / 60) * IZR SC <= IZR (clo (Z.of_nat n) + 1))%R.
Proof. intros n H. destruct (tab_sound n H) as [[_ L] U]. split; [exact L|exact U]. Qed.
Print Assumptions c35_table.

(* The pinned p2p/trust/banscore.go (decay table never initialised: factor 0
   for dt < 64 s) violates the rule: one second after Increase(0, 100) its
   score is 0 while the rule gives at least 50.  Repaired in /repo. *)
Theorem c35_pinned_trust_refuted :
  let s := fst (increase zero 0 100 1000) in
  pinned_score s 1001 = 0 /\ 50 <= score s 1001.
Proof. exact pinned_trust_refuted. Qed.
Print Assumptions c35_pinned_trust_refuted.
