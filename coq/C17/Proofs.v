(* C17 — the vote-counting invariant of the finality engine and its preservation. *)
From Coq Require Import List NArith Bool Lia PeanoNat.
From C16 Require Import Base Proofs.
From C17 Require Import Model Links.
Import ListNotations.
Open Scope N_scope.

Section Inv.

Variable n g : N.

(* every filled slot of the tree object's links is a verified signature of the validator of that slot *)
Definition tl_ok (c : ck) : Prop :=
  (forall l k x, In l (c_tl c) -> slot_get k (l_slots l) = Some x -> k < n /\ sig_ok k (l_src l) (c_id c) x = true) /\
  (forall l, In l (c_tl c) -> NoDup (map fst (l_slots l))).

Definition EJ (l : list ck) (c : ck) : Prop :=
  exists src sc, supermajority n (c_id c) src (c_tl c) = true /\ find_ck src l = Some sc /\ is_jf (c_st sc) = true.

Definition EF (l : list ck) (c : ck) : Prop :=
  exists b, In b l /\ c_par b = c_id c /\ In (c_id c) (c_anc b) /\ is_jf (c_st b) = true /\
            supermajority n (c_id b) (c_id c) (c_tl b) = true.

Record inv17 (l : list ck) : Prop := mk_inv17 {
  i_tl : forall c, In c l -> tl_ok c;
  i_j : forall c, In c l -> c_id c <> g -> is_jf (c_st c) = true -> EJ l c;
  i_f : forall c, In c l -> c_st c = Finalized -> EF l c
}.

Definition st_le (a b : status) : Prop :=
  (is_jf a = true -> is_jf b = true) /\ (a = Finalized -> b = Finalized).

Lemma st_le_refl : forall a, st_le a a.
Proof. intros a. split; auto. Qed.

(* how a checkpoint record may change *)
Definition rel (l' : list ck) (c c' : ck) : Prop :=
  skel c = skel c' /\ st_le (c_st c) (c_st c') /\
  (forall src, supermajority n (c_id c) src (c_tl c) = true -> supermajority n (c_id c) src (c_tl c') = true) /\
  (tl_ok c -> tl_ok c') /\
  (is_jf (c_st c) = false -> is_jf (c_st c') = true -> c_id c' <> g -> EJ l' c') /\
  (c_st c <> Finalized -> c_st c' = Finalized -> EF l' c').

Lemma rel_refl : forall l' c, rel l' c c.
Proof.
  intros l' c. split; [reflexivity|]. split; [apply st_le_refl|]. split; [auto|]. split; [auto|].
  split; [intros H1 H2; congruence|intros H1 H2; congruence].
Qed.

Lemma f2_refl : forall (R : ck -> ck -> Prop) l, (forall c, R c c) -> Forall2 R l l.
Proof. induction l; intros; constructor; auto. Qed.

Lemma f2_upd : forall (R : ck -> ck -> Prop) id f l c0, (forall c, R c c) ->
  find_ck id l = Some c0 -> R c0 (f c0) -> Forall2 R l (upd_ck id f l).
Proof.
  intros R id f. induction l as [|d l IH]; simpl; intros c0 Hr F H0; [discriminate|].
  destruct (c_id d =? id).
  - inversion F; subst. constructor; [assumption|now apply f2_refl].
  - constructor; [apply Hr|]. eapply IH; eauto.
Qed.

Lemma f2_in_r : forall (R : ck -> ck -> Prop) l l' c', Forall2 R l l' -> In c' l' -> exists c, In c l /\ R c c'.
Proof.
  intros R l l' c' H. induction H as [|a b l l' Hab H IH]; simpl; intros Hi; [contradiction|].
  destruct Hi as [<-|Hi]; [exists a; split; [now left|assumption]|].
  destruct (IH Hi) as (c & Hc & Hr). exists c. split; [now right|assumption].
Qed.

Lemma f2_in_l : forall (R : ck -> ck -> Prop) l l' c, Forall2 R l l' -> In c l -> exists c', In c' l' /\ R c c'.
Proof.
  intros R l l' c H. induction H as [|a b l l' Hab H IH]; simpl; intros Hi; [contradiction|].
  destruct Hi as [<-|Hi]; [exists b; split; [now left|assumption]|].
  destruct (IH Hi) as (c' & Hc & Hr). exists c'. split; [now right|assumption].
Qed.

Lemma f2_find : forall (R : ck -> ck -> Prop) l l' x c, (forall a b, R a b -> c_id a = c_id b) ->
  Forall2 R l l' -> find_ck x l = Some c -> exists c', find_ck x l' = Some c' /\ R c c'.
Proof.
  intros R l l' x c Hid H. induction H as [|a b l l' Hab H IH]; simpl; intros F; [discriminate|].
  rewrite <- (Hid a b Hab). destruct (c_id a =? x).
  - inversion F; subst. exists b. split; [reflexivity|assumption].
  - now apply IH.
Qed.

Lemma rel_id : forall l' a b, rel l' a b -> c_id a = c_id b.
Proof. intros l' a b (H & _). unfold skel in H. congruence. Qed.

(* the invariant moves along a pointwise change of the records *)
Lemma inv17_transfer : forall l l', inv17 l -> Forall2 (rel l') l l' -> inv17 l'.
Proof.
  intros l l' [I1 I2 I3] H. constructor.
  - intros c' Hc'. destruct (f2_in_r _ _ _ _ H Hc') as (c & Hc & Hr). destruct Hr as (_ & _ & _ & Ht & _).
    apply Ht. now apply I1.
  - intros c' Hc' Hg Hj. destruct (f2_in_r _ _ _ _ H Hc') as (c & Hc & Hr).
    pose proof (rel_id _ _ _ Hr) as Hid. destruct Hr as (Hs & Hst & Hsm & _ & Hnj & _).
    destruct (is_jf (c_st c)) eqn:Ej; [|now apply Hnj].
    destruct (I2 c Hc) as (src & sc & E1 & E2 & E3); [congruence|assumption|].
    destruct (f2_find _ _ _ _ _ (rel_id l') H E2) as (sc' & F' & Hr').
    exists src, sc'. split; [rewrite <- Hid; now apply Hsm|]. split; [assumption|].
    destruct Hr' as (_ & (Hjf & _) & _). now apply Hjf.
  - intros c' Hc' Hf. destruct (f2_in_r _ _ _ _ H Hc') as (c & Hc & Hr).
    pose proof (rel_id _ _ _ Hr) as Hid. destruct Hr as (Hs & Hst & Hsm & _ & _ & Hnf).
    destruct (status_eqb (c_st c) Finalized) eqn:Es.
    + assert (Hcf : c_st c = Finalized) by (destruct (c_st c); simpl in Es; congruence).
      destruct (I3 c Hc Hcf) as (b & Hb & B1 & B2 & B3 & B4).
      destruct (f2_in_l _ _ _ _ H Hb) as (b' & Hb' & Hrb).
      pose proof (rel_id _ _ _ Hrb) as Hidb. destruct Hrb as (Hsb & (Hjb & _) & Hsmb & _).
      exists b'. split; [assumption|]. unfold skel in Hsb.
      split; [congruence|]. split; [rewrite <- Hid; congruence|]. split; [now apply Hjb|].
      rewrite <- Hid, <- Hidb. now apply Hsmb.
    + apply Hnf; [|assumption]. intros Hcf. rewrite Hcf in Es. discriminate.
Qed.

Lemma in_upd_ck_l : forall id f l c, In c l -> In c (upd_ck id f l) \/ In (f c) (upd_ck id f l).
Proof.
  induction l as [|d l IH]; simpl; intros c H; [contradiction|].
  destruct (c_id d =? id).
  - destruct H as [<-|H]; [right; now left|left; now right].
  - destruct H as [<-|H]; [left; now left|]. destruct (IH c H); [left|right]; now right.
Qed.

(* a verified signature enters the tree object of checkpoint t *)
Lemma inv17_tl : forall l t tc src srch k x,
  inv17 l -> find_ck t l = Some tc -> sig_ok k src t x = true -> k < n ->
  inv17 (upd_ck t (set_tl (add_ver src srch k x (c_tl tc))) l).
Proof.
  intros l t tc src srch k x I F Hx Hk. eapply inv17_transfer; [exact I|].
  apply (f2_upd _ t _ l tc); [apply rel_refl|exact F|].
  assert (Hid : c_id tc = t) by (apply find_ck_some in F; tauto).
  split; [reflexivity|]. split; [apply st_le_refl|]. split.
  { intros src0 H. simpl. rewrite Hid. apply supermajority_add_ver; [assumption|]. now rewrite <- Hid. }
  split.
  { intros (T1 & T2). split; simpl.
    - intros l0 j y Hl Hs. destruct (add_ver_slot _ _ _ _ _ _ _ _ Hl Hs) as [(E1 & E2 & E3)|(l1 & H1 & H2 & H3)].
      + subst j y. rewrite E1, Hid. auto.
      + rewrite <- H2. now apply (T1 l1).
    - intros l0 Hl. eapply add_ver_nodup; [|exact Hl]. exact T2. }
  split; simpl; intros H1 H2; congruence.
Qed.

(* an Unjustified checkpoint with a supermajority link from a justified source becomes Justified *)
Lemma inv17_just : forall l t tc src sc,
  inv17 l -> find_ck t l = Some tc -> c_st tc = Unjustified ->
  supermajority n t src (c_tl tc) = true -> find_ck src l = Some sc -> is_jf (c_st sc) = true ->
  inv17 (upd_ck t (set_st Justified) l).
Proof.
  intros l t tc src sc I F Hst Hsm Fs Hjs. eapply inv17_transfer; [exact I|].
  apply (f2_upd _ t _ l tc); [apply rel_refl|exact F|].
  assert (Hid : c_id tc = t) by (apply find_ck_some in F; tauto).
  split; [reflexivity|]. split; [split; rewrite Hst; simpl; intros; congruence|].
  split; [auto|]. split; [auto|]. split; [|simpl; intros; congruence].
  intros _ _ _. exists src. destruct (N.eq_dec src t) as [->|Hne].
  - exists (set_st Justified tc). split; [simpl; now rewrite Hid|]. split; [|reflexivity].
    rewrite find_upd_same by apply keeps_set_st. now rewrite F.
  - exists sc. split; [simpl; now rewrite Hid|]. split; [|assumption].
    rewrite find_upd_other by (try apply keeps_set_st; assumption). assumption.
Qed.

(* a justified checkpoint with a direct child justified from it becomes Finalized *)
Lemma inv17_fin : forall l src sc b,
  inv17 l -> find_ck src l = Some sc -> is_jf (c_st sc) = true ->
  In b l -> c_par b = src -> In src (c_anc b) -> is_jf (c_st b) = true ->
  supermajority n (c_id b) src (c_tl b) = true ->
  inv17 (upd_ck src (set_st Finalized) l).
Proof.
  intros l src sc b I F Hj Hb Hp Ha Hjb Hsm. eapply inv17_transfer; [exact I|].
  apply (f2_upd _ src _ l sc); [apply rel_refl|exact F|].
  assert (Hid : c_id sc = src) by (apply find_ck_some in F; tauto).
  split; [reflexivity|]. split; [split; simpl; intros; reflexivity|].
  split; [auto|]. split; [auto|]. split; [intros H; congruence|].
  intros _ _. unfold EF. simpl. rewrite Hid.
  destruct (in_upd_ck_l src (set_st Finalized) l b Hb) as [Hb'|Hb'].
  - exists b. auto.
  - exists (set_st Finalized b). simpl. auto.
Qed.

End Inv.

(* ---- the engine's operations --------------------------------------------------------- *)

Section Steps17.

Variable fin : bool.
Variable V : variant.
Variable n E local g : N.
Hypothesis HV : src_must_be_justified V = true.

(* a verification that passed the signature check, by a validator *)
Definition vok (v : vmsg) : Prop := sig_ok (v_key v) (v_src v) (v_tgt v) (v_sig v) = true /\ v_key v < n.

Lemma status_eqb_eq : forall a b, status_eqb a b = true -> a = b.
Proof. intros a b H. destruct a, b; simpl in H; congruence. Qed.

Lemma admit_inv17 : forall s v, good fin s (v_tgt v) -> inv17 n g (cks s) -> vok v ->
  inv17 n g (cks (admit_ver V n s v)).
Proof.
  intros s v G I (Hsig & Hk). pose proof G as (W & Hb & Hne). unfold admit_ver.
  destruct (find_ck (v_tgt v) (cks s)) as [t|] eqn:Ft; [|exact I].
  destruct (find_ck (v_src v) (cks s)) as [src|] eqn:Fs; [|exact I].
  set (tl' := add_ver (v_src v) (v_srch v) (v_key v) (v_sig v) (c_tl t)).
  set (l1 := upd_ck (v_tgt v) (set_tl tl') (cks s)).
  assert (I1 : inv17 n g l1) by (apply (inv17_tl n g (cks s) (v_tgt v) t); assumption).
  assert (Ht : c_id t = v_tgt v) by (apply find_ck_some in Ft; tauto).
  assert (F1 : find_ck (v_tgt v) l1 = Some (set_tl tl' t)).
  { unfold l1. rewrite find_upd_same by apply keeps_set_tl. now rewrite Ft. }
  destruct (find_link_add_ver (v_src v) (v_srch v) (v_key v) (v_sig v) (c_tl t)) as (l & Fl & Hl & Hls).
  fold tl' in Fl, Hl. rewrite Fl.
  destruct (status_eqb (c_st t) Unjustified && is_majority n l && src_status_ok V (c_st src)) eqn:C; [|exact I1].
  apply andb_true_iff in C. destruct C as [C C3]. apply andb_true_iff in C. destruct C as [C1 C2].
  apply status_eqb_eq in C1. unfold src_status_ok in C3. rewrite HV in C3. apply status_eqb_eq in C3.
  (* the evidence: the link l of the tree object *)
  assert (Hsm : supermajority n (v_tgt v) (v_src v) tl' = true).
  { assert (Hin1 : In (set_tl tl' t) l1) by (apply find_ck_some in F1; tauto).
    destruct (i_tl n g l1 I1 _ Hin1) as (T1 & T2). simpl in T1, T2.
    apply (majority_supermajority n (v_tgt v) (v_src v) tl' l); auto.
    intros k x Hx. rewrite <- Ht. now apply (T1 l). }
  (* the source is another checkpoint (it is Justified, the target Unjustified) *)
  assert (Hst : v_src v <> v_tgt v).
  { intros E0. rewrite E0 in Fs. rewrite Ft in Fs. inversion Fs; subst src. congruence. }
  assert (Fs1 : find_ck (v_src v) l1 = Some src).
  { unfold l1. rewrite find_upd_other; [assumption|apply keeps_set_tl|assumption]. }
  set (l2 := upd_ck (v_tgt v) (set_st Justified) l1).
  assert (I2 : inv17 n g l2).
  { apply (inv17_just n g l1 (v_tgt v) (set_tl tl' t) (v_src v) src); auto. rewrite C3. reflexivity. }
  unfold set_justified. cbn [cks with_cks]. fold l1. rewrite F1. cbn [c_par set_tl].
  destruct (c_par t =? v_src v) eqn:Ep; [|exact I2].
  apply N.eqb_eq in Ep.
  assert (Hcks : cks (set_finalized (with_cks (mkst l1 (tree s) (root s) (vote_of v :: adm s) (posted s)) l2) (v_src v))
                 = upd_ck (v_src v) (set_st Finalized) l2).
  { unfold set_finalized. cbn [cks with_cks tree]. destruct (memN (v_src v) (tree s)); reflexivity. }
  fold l2. rewrite Hcks.
  assert (Fs2 : find_ck (v_src v) l2 = Some src).
  { unfold l2. rewrite find_upd_other; [assumption|apply keeps_set_st|assumption]. }
  assert (F2 : find_ck (v_tgt v) l2 = Some (set_st Justified (set_tl tl' t))).
  { unfold l2. rewrite find_upd_same by apply keeps_set_st. now rewrite F1. }
  destruct (proper_desc_par (cks s) (root s) (v_tgt v) t (w_sk fin s W) Ft Hne (w_desc fin s W _ Hb))
    as (pc & Fp & Ea & _).
  apply (inv17_fin n g l2 (v_src v) src (set_st Justified (set_tl tl' t))); auto.
  - rewrite C3. reflexivity.
  - apply find_ck_some in F2. tauto.
  - simpl. rewrite Ea, Ep. now left.
  - simpl. now rewrite Ht.
Qed.

Lemma fold_admit_inv17 : forall vs s b, (forall v, In v vs -> v_tgt v = b /\ vok v) ->
  good fin s b -> inv17 n g (cks s) -> inv17 n g (cks (fold_left (admit_ver V n) vs s)).
Proof.
  induction vs as [|v vs IH]; simpl; intros s b Hv G I; [assumption|].
  destruct (Hv v (or_introl eq_refl)) as (Ev & Hok).
  assert (G0 : good fin s (v_tgt v)) by now rewrite Ev.
  destruct (admit_good fin V n s v G0) as (G1 & _). rewrite Ev in G1.
  apply (IH _ b); [intros; apply Hv; now right|assumption|]. now apply admit_inv17.
Qed.

Lemma vers_of_slots_props : forall k b h src srch sl v, In v (vers_of_slots k b h src srch sl) ->
  v_tgt v = b /\ v_src v = src /\ (N.to_nat (v_key v) < k)%nat.
Proof.
  induction k as [|k IH]; simpl; intros b h src srch sl v H; [contradiction|].
  destruct (slot_get (N.of_nat k) sl).
  - apply in_app_or in H. destruct H as [H|[<-|[]]].
    + destruct (IH _ _ _ _ _ _ H) as (A & B & C). repeat split; auto; lia.
    + simpl. repeat split; auto. lia.
  - destruct (IH _ _ _ _ _ _ H) as (A & B & C). repeat split; auto; lia.
Qed.

Lemma verify_sig : forall s v, verify E s v = true -> sig_ok (v_key v) (v_src v) (v_tgt v) (v_sig v) = true.
Proof.
  intros s v H. unfold verify, valid_v in H. apply andb_true_iff in H. destruct H as [H _].
  apply andb_true_iff in H. destruct H as [H _]. apply andb_true_iff in H. tauto.
Qed.

Lemma apply_links_inv17 : forall ls b h s, good fin s b -> inv17 n g (cks s) ->
  inv17 n g (cks (fst (apply_links V n E b h s ls))).
Proof.
  induction ls as [|l ls IH]; simpl; intros b h s G I; [assumption|].
  unfold apply_link. destruct (link_src_ok s l); [|assumption].
  set (vs := filter (verify E s) (vers_of_link n b h l)).
  assert (Hvs : forall v, In v vs -> v_tgt v = b /\ vok v).
  { intros v Hv. apply filter_In in Hv. destruct Hv as [Hv Hver]. unfold vers_of_link in Hv.
    destruct (vers_of_slots_props _ _ _ _ _ _ _ Hv) as (A & B & C). split; [assumption|].
    split; [eapply verify_sig; eauto|lia]. }
  destruct (fold_admit_good fin V n vs s b) as (G1 & _); [intros v Hv; apply Hvs, Hv|assumption|].
  apply IH; [assumption|]. now apply (fold_admit_inv17 vs s b).
Qed.

Lemma f2_upd_any : forall (R : ck -> ck -> Prop) id f l, (forall c, R c c) -> (forall c, R c (f c)) ->
  Forall2 R l (upd_ck id f l).
Proof.
  intros R id f l Hr Hf. induction l as [|d l IH]; simpl; [constructor|].
  destruct (c_id d =? id); constructor; auto. now apply f2_refl.
Qed.

(* updates of header links / stored flag do not touch the invariant *)
Lemma inv17_benign : forall l id f, inv17 n g l ->
  (forall c, skel (f c) = skel c /\ c_st (f c) = c_st c /\ c_tl (f c) = c_tl c) ->
  inv17 n g (upd_ck id f l).
Proof.
  intros l id f I Hf. eapply inv17_transfer; [exact I|]. apply f2_upd_any; [apply rel_refl|].
  intros c. destruct (Hf c) as (H1 & H2 & H3). unfold rel. rewrite H2, H3.
  split; [now symmetry|]. split; [apply st_le_refl|]. split; [auto|]. split.
  - intros (T1 & T2). unfold tl_ok. rewrite H3.
    assert (Hid : c_id (f c) = c_id c) by (unfold skel in H1; congruence). rewrite Hid. split; assumption.
  - split; intros A B; congruence.
Qed.

Lemma inv17_add : forall l nb, inv17 n g l -> c_tl nb = [] -> c_st nb = Unjustified -> inv17 n g (l ++ [nb]).
Proof.
  intros l nb [I1 I2 I3] Htl Hst. constructor.
  - intros c Hc. apply in_app_or in Hc. destruct Hc as [Hc|[<-|[]]]; [now apply I1|].
    unfold tl_ok. rewrite Htl. split; [intros ? ? ? []|intros ? []].
  - intros c Hc Hg Hj. apply in_app_or in Hc. destruct Hc as [Hc|[<-|[]]]; [|rewrite Hst in Hj; discriminate].
    destruct (I2 c Hc Hg Hj) as (src & sc & E1 & E2 & E3). exists src, sc. split; [assumption|].
    split; [now apply find_ck_snoc_old|assumption].
  - intros c Hc Hf. apply in_app_or in Hc. destruct Hc as [Hc|[<-|[]]]; [|congruence].
    destruct (I3 c Hc Hf) as (b & Hb & B). exists b. split; [apply in_or_app; now left|assumption].
Qed.

Lemma apply_block_inv17 : forall s b p h links, wf fin s -> inv17 n g (cks s) ->
  inv17 n g (cks (fst (apply_block V n E local s b p h links))).
Proof.
  intros s b p h links W I. unfold apply_block.
  destruct (memN b (tree s)); [exact I|].
  destruct (in_cks b (cks s)) eqn:Hb; [exact I|].
  destruct (memN p (tree s)) eqn:Hp; [|exact I]. simpl.
  destruct (find_ck p (cks s)) as [pc|] eqn:Fp; [|exact I].
  destruct (c_hgt pc <? h); [|exact I]. simpl.
  destruct (precheck_links V && negb (forallb (link_src_ok s) (map norm_link links))); [exact I|].
  set (nb := mkck b p h (p :: c_anc pc) Unjustified false [] []).
  set (s1 := mkst (cks s ++ [nb]) (tree s ++ [b]) (root s) (adm s) (posted s)).
  assert (W1 : wf fin s1) by (apply wf_add; auto; discriminate).
  assert (Hbn : ~ In b (map c_id (cks s))) by (intros H; apply in_cks_true in H; congruence).
  assert (G1 : good fin s1 b).
  { split; [assumption|]. split.
    - simpl. rewrite memN_app. simpl. rewrite N.eqb_refl. apply orb_true_r.
    - simpl. intros ->. apply Hbn. apply in_cks_true. now apply (root_in_cks fin). }
  assert (I1 : inv17 n g (cks s1)) by (apply inv17_add; auto).
  assert (Hmain : forall s2 links2, good fin s2 b -> inv17 n g (cks s2) ->
            let '(s3, ok) := apply_links V n E b h s2 links2 in
            inv17 n g (cks (fst (if ok then (with_cks s3 (upd_ck b (fun c => set_db (set_hl links2 c)) (cks s3)), true)
                                 else (s3, false))))).
  { intros s2 links2 G2 I2. pose proof (apply_links_inv17 links2 b h s2 G2 I2) as I3.
    destruct (apply_links V n E b h s2 links2) as [s3 ok]. simpl in I3.
    destruct ok; simpl; [|assumption]. apply inv17_benign; [assumption|]. intros c. auto. }
  destruct (my_verification n E local s1 nb) as [v|].
  - specialize (Hmain (post s1 v) (add_ver (v_src v) (v_srch v) (v_key v) (v_sig v) (map norm_link links))).
    destruct (apply_links V n E b h (post s1 v) _) as [s3 ok]. apply Hmain; [|exact I1].
    apply (good_same fin s1); auto.
  - specialize (Hmain s1 (map norm_link links)).
    destruct (apply_links V n E b h s1 _) as [s3 ok]. now apply Hmain.
Qed.

Lemma auth_inv17 : forall dup s pub src tgt x, wf fin s -> memN tgt (tree s) = true -> inv17 n g (cks s) ->
  inv17 n g (cks (fst (auth V n E dup s pub src tgt x))).
Proof.
  intros dup s pub src tgt x W Ht I. unfold auth.
  destruct (find_ck src (cks s)) as [sc|]; [|exact I].
  destruct (negb (c_db sc)); [exact I|].
  destruct (find_ck tgt (cks s)) as [t|]; [|exact I].
  destruct (tgt =? root s) eqn:Er; [exact I|]. apply N.eqb_neq in Er.
  destruct (negb (pub <? n)) eqn:Hpub; [exact I|]. apply negb_false_iff in Hpub. apply N.ltb_lt in Hpub.
  destruct (dup && contains_ver pub src (c_tl t)); [exact I|].
  set (v := mkvmsg pub src (c_hgt sc) tgt (c_hgt t) x).
  destruct (negb (verify E s v)) eqn:Hver; [exact I|]. apply negb_false_iff in Hver.
  assert (G : good fin s (v_tgt v)) by (split; [assumption|split; assumption]).
  assert (I1 : inv17 n g (cks (admit_ver V n s v))).
  { apply admit_inv17; auto. split; [eapply verify_sig; eauto|exact Hpub]. }
  destruct (c_db t); cbn [fst]; [|exact I1].
  cbn [cks with_cks post]. apply inv17_benign; [exact I1|]. intros c. auto.
Qed.

Lemma step_inv17 : forall s e, is_restart e = false -> wf fin s -> inv17 n g (cks s) ->
  inv17 n g (cks (fst (step V n E local s e))).
Proof.
  intros s e He W I. destruct e as [b p h links|pub src tgt x|pub src tgt x|r]; simpl in *; try discriminate.
  - now apply apply_block_inv17.
  - unfold auth_verification. destruct (memN tgt (tree s)) eqn:Ht; [now apply auth_inv17|exact I].
  - unfold auth_cached. destruct (memN tgt (tree s)) eqn:Ht; [now apply auth_inv17|exact I].
Qed.

Lemma steps_inv17 : forall evs s, restart_free evs = true -> wf fin s -> inv17 n g (cks s) ->
  inv17 n g (cks (fold_left (fun s e => fst (step V n E local s e)) evs s)).
Proof.
  induction evs as [|e evs IH]; simpl; intros s Hr W I; [assumption|].
  apply andb_true_iff in Hr. destruct Hr as [He Hr]. apply negb_true_iff in He.
  destruct (step_ok fin V n E local s e He W) as (W1 & _).
  apply IH; [assumption|assumption|]. now apply step_inv17.
Qed.

End Steps17.

(* ---- histories -------------------------------------------------------------------------- *)

Lemma init_inv17 : forall n g, inv17 n g (cks (init g)).
Proof.
  intros n g. unfold init. simpl. constructor.
  - intros c [<-|[]]. split; simpl; [intros ? ? ? []|intros ? []].
  - intros c [<-|[]] H. simpl in H. congruence.
  - intros c [<-|[]] H. simpl in H. discriminate.
Qed.

Lemma run_inv17 : forall V n E local g evs, src_must_be_justified V = true -> restart_free evs = true ->
  inv17 n g (cks (run V n E local g evs)).
Proof.
  intros V n E local g evs HV Hr. unfold run.
  apply (steps_inv17 false V n E local g HV evs (init g) Hr (init_wf false g) (init_inv17 n g)).
Qed.

Lemma justified_needs_votes_holds : forall V n E local g evs,
  src_must_be_justified V = true -> restart_free evs = true ->
  justified_needs_votes n g (run V n E local g evs).
Proof.
  intros V n E local g evs HV Hr c Hc Hg Hj.
  exact (i_j n g _ (run_inv17 V n E local g evs HV Hr) c Hc Hg Hj).
Qed.

Lemma finalized_needs_child_holds : forall V n E local g evs,
  src_must_be_justified V = true -> restart_free evs = true ->
  finalized_needs_child n (run V n E local g evs).
Proof.
  intros V n E local g evs HV Hr c Hc Hf.
  exact (i_f n g _ (run_inv17 V n E local g evs HV Hr) c Hc Hf).
Qed.

(* every filled slot of a tree object is a verified signature of the validator who owns the slot *)
Lemma tree_links_verified : forall V n E local g evs,
  src_must_be_justified V = true -> restart_free evs = true ->
  forall c l k x, In c (cks (run V n E local g evs)) -> In l (c_tl c) -> slot_get k (l_slots l) = Some x ->
    k < n /\ sig_ok k (l_src l) (c_id c) x = true.
Proof.
  intros V n E local g evs HV Hr c l k x Hc Hl Hs.
  destruct (i_tl n g _ (run_inv17 V n E local g evs HV Hr) c Hc) as (T1 & _). now apply (T1 l).
Qed.

(* ---- refutations ---------------------------------------------------------------------- *)

(* a supermajority needs a link with that source *)
Lemma supermajority_src : forall n t src ls, supermajority n t src ls = true -> In src (map l_src ls).
Proof.
  intros n t src ls H. unfold supermajority, go_is_majority in H. apply N.ltb_lt in H.
  destruct (valid_voters n t src ls) as [|k r] eqn:Ev; [simpl in H; lia|].
  assert (Hk : In k (valid_voters n t src ls)) by (rewrite Ev; now left).
  unfold valid_voters in Hk. apply filter_In in Hk. destruct Hk as [_ Hk].
  apply existsb_exists in Hk. destruct Hk as (l & Hl & Hc). apply andb_true_iff in Hc. destruct Hc as [Hc _].
  apply N.eqb_eq in Hc. rewrite <- Hc. now apply in_map.
Qed.

Definition has_evidence (n : N) (c : ck) : bool :=
  existsb (fun src => supermajority n (c_id c) src (c_tl c)) (map l_src (c_tl c)).

Lemma no_evidence : forall n g s c, In c (cks s) -> c_id c <> g -> is_jf (c_st c) = true ->
  has_evidence n c = false -> ~ justified_needs_votes n g s.
Proof.
  intros n g s c Hc Hg Hj He H. destruct (H c Hc Hg Hj) as (src & sc & E1 & _).
  assert (has_evidence n c = true); [|congruence].
  unfold has_evidence. apply existsb_exists. exists src. split; [eapply supermajority_src; eauto|assumption].
Qed.

Definition bad_ck (n g : N) (s : state) : bool :=
  existsb (fun c => negb (c_id c =? g) && is_jf (c_st c) && negb (has_evidence n c)) (cks s).

Lemma bad_ck_refutes : forall n g s, bad_ck n g s = true -> ~ justified_needs_votes n g s.
Proof.
  intros n g s H. unfold bad_ck in H. apply existsb_exists in H. destruct H as (c & Hc & H).
  apply andb_true_iff in H. destruct H as [H He]. apply andb_true_iff in H. destruct H as [Hg Hj].
  apply negb_true_iff in Hg. apply N.eqb_neq in Hg. apply negb_true_iff in He.
  now apply (no_evidence n g s c).
Qed.

(* the full statement, restarts included: every Restart names a checkpoint the node has stored as finalized *)
Definition C17_full : Prop :=
  forall V n E local g evs, src_must_be_justified V = true ->
    legit V n E local g (init g) evs = true ->
    justified_needs_votes n g (run V n E local g evs) /\ finalized_needs_child n (run V n E local g evs).

(* witness (replayed on the node by the harness): block 4 arrives with garbage in slot 1 and validator 3's
   signature in slot 2 of the link 0 -> 4; the node (key 0) adds its own vote; after a restart the header's links
   are the checkpoint's links; validator 3's valid vote makes four filled slots: Justified with two valid votes *)
Definition wit_forged : list event :=
  [Ckpt 4 0 4 [mklink 0 0 [(1, mksig 999 0 0); (2, mksig 3 0 4)]]; Restart 0; Vote 3 0 4 (mksig 3 0 4)].

Lemma restart_refuted_forged : ~ C17_full.
Proof.
  intros H. destruct (H (mkvar true true) 4 4 0 0 wit_forged eq_refl eq_refl) as (HJ & _).
  revert HJ. apply bad_ck_refutes. vm_compute. reflexivity.
Qed.

(* the pinned code (a sup link justifies from every source that is not Finalized): validators 1,2,3 vote 4 -> 8
   while checkpoint 4 was never justified: 8 becomes Justified and 4 Finalized *)
Definition wit_unjustified_source : list event :=
  [Ckpt 4 0 4 []; Ckpt 8 4 8 []; Vote 1 4 8 (mksig 1 4 8); Vote 2 4 8 (mksig 2 4 8); Vote 3 4 8 (mksig 3 4 8)].

Lemma pinned_refuted_unjustified_source :
  ~ justified_needs_votes 4 0 (run (mkvar false true) 4 4 0 0 wit_unjustified_source).
Proof.
  apply bad_ck_refutes. vm_compute. reflexivity.
Qed.

(* the repaired code on the same history: nothing is justified *)
Example repaired_unjustified_source :
  map (fun c => (c_id c, c_st c)) (cks (run (mkvar true true) 4 4 0 0 wit_unjustified_source))
  = [(0, Justified); (4, Unjustified); (8, Unjustified)].
Proof. reflexivity. Qed.

(* an honest history: both checkpoints justified, 4 finalized *)
Example honest_history :
  map (fun c => (c_id c, c_st c))
      (cks (run (mkvar true true) 4 4 0 0
             [Ckpt 4 0 4 []; Vote 1 0 4 (mksig 1 0 4); Vote 2 0 4 (mksig 2 0 4);
              Ckpt 8 4 8 []; Vote 1 4 8 (mksig 1 4 8); Vote 2 4 8 (mksig 2 4 8)]))
  = [(0, Finalized); (4, Finalized); (8, Justified)].
Proof. reflexivity. Qed.
