(* C17 — justification needs a supermajority of distinct valid validator votes.  PROPERTY THEOREMS ONLY.

   Engine model: C16/Model.v (shared with C16 and C18; mirrors package protocol/casper at checkpoint granularity,
   tied to the node by the correspondence run of harness c17).  A history is ANY list of events (epoch-closing
   block with ANY sup links in its header - valid, forged, foreign, in unused slots -, verification message with
   ANY signature and key, replay of a cached message, restart), any number of validators n, epoch length E, own
   key, genesis label g.  Signatures are an oracle: sig_ok k s t x = "x verifies for validator k on the link s->t".

   supermajority n t src ls: MORE THAN 2n/3 distinct validators k < n have, in the sup links ls, a signature in
   their own slot that verifies for the link src -> t (C17/Model.v; the threshold is the integer test of
   SupLink.IsMajority).  c_tl c = the sup links of the checkpoint object in casper's tree.
   V with src_must_be_justified V = true: addVerificationToCheckpoint as repaired in /repo's working tree. *)
From Coq Require Import List NArith Bool.
From C16 Require Import Base Proofs.
From C17 Require Import Model Links Proofs.
Import ListNotations.
Open Scope N_scope.

(* 1. The integer threshold: k > n*2/3 (integer division) is 3k > 2n, for every n. *)
Theorem c17_majority_arith :
  forall k n : N, go_is_majority k n = true <-> 3 * k > 2 * n.
Proof. exact majority_arith. Qed.
Print Assumptions c17_majority_arith.

(* 2. Every checkpoint that is Justified or Finalized (genesis apart) has more than 2n/3 distinct validators
   with a VERIFYING signature, each in its own slot, on one link to it, and the source of that link is Justified
   or Finalized - for every history without a restart. *)
Theorem c17_justified_needs_votes :
  forall (V : variant) (n E local g : N) (evs : list event),
    src_must_be_justified V = true -> restart_free evs = true ->
    forall c, In c (cks (run V n E local g evs)) -> c_id c <> g -> is_jf (c_st c) = true ->
      exists src sc, supermajority n (c_id c) src (c_tl c) = true /\
                     find_ck src (cks (run V n E local g evs)) = Some sc /\ is_jf (c_st sc) = true.
Proof. exact justified_needs_votes_holds. Qed.
Print Assumptions c17_justified_needs_votes.

(* 3. Every Finalized checkpoint has a direct child checkpoint that is Justified (or Finalized) through a
   supermajority link from it. *)
Theorem c17_finalized_needs_child :
  forall (V : variant) (n E local g : N) (evs : list event),
    src_must_be_justified V = true -> restart_free evs = true ->
    forall c, In c (cks (run V n E local g evs)) -> c_st c = Finalized ->
      exists b, In b (cks (run V n E local g evs)) /\ c_par b = c_id c /\ In (c_id c) (c_anc b) /\
                is_jf (c_st b) = true /\ supermajority n (c_id b) (c_id c) (c_tl b) = true.
Proof. exact finalized_needs_child_holds. Qed.
Print Assumptions c17_finalized_needs_child.

(* 4. Invalid signatures and signatures in foreign or unused slots never enter a checkpoint object: every filled
   slot k of every link of every tree object holds a signature that verifies for validator k < n on that link. *)
Theorem c17_only_verified_signatures_count :
  forall (V : variant) (n E local g : N) (evs : list event),
    src_must_be_justified V = true -> restart_free evs = true ->
    forall c l k x, In c (cks (run V n E local g evs)) -> In l (c_tl c) -> slot_get k (l_slots l) = Some x ->
      k < n /\ sig_ok k (l_src l) (c_id c) x = true.
Proof. exact tree_links_verified. Qed.
Print Assumptions c17_only_verified_signatures_count.

(* 5. Across restarts the full statement (Proofs.C17_full: all histories whose Restart events name a checkpoint
   stored as finalized) is REFUTED: the reloaded checkpoint takes the unverified sup links of the stored block
   header and IsMajority counts them. *)
Theorem c17_restart_refuted_forged : ~ C17_full.
Proof. exact restart_refuted_forged. Qed.
Print Assumptions c17_restart_refuted_forged.

(* 6. The pinned addVerificationToCheckpoint (justify from every source that is not Finalized) violated
   statement 2 without any restart: the repair in /repo is what theorem 2 is about. *)
Theorem c17_pinned_refuted_unjustified_source :
  ~ justified_needs_votes 4 0 (run (mkvar false true) 4 4 0 0 wit_unjustified_source).
Proof. exact pinned_refuted_unjustified_source. Qed.
Print Assumptions c17_pinned_refuted_unjustified_source.

(* ---- The threshold of the model is the threshold of the code (translator tools/gofrag) ----------------------

   VerifGen.FragTypes.SupLink_IsMajority is GENERATED from protocol/bc/types/sup_link.go (SupLink.IsMajority) on
   every run: a function of the lengths of s.Signatures and of numOfValidators (int64 arithmetic of the code).
   [count_nonempty lens] = the number of non-empty signatures (C17/Tie.v). *)
From Coq Require Import ZArith.
From Verif Require Import GoInt.
From VerifGen Require Import FragTypes.
From C17 Require Import Tie.
Local Open Scope Z_scope.

(* 7. For all inputs: the generated function answers  count > wrap64(2n) quot 3  and never panics. *)
Theorem c17_code_IsMajority_exact : forall lens n,
  Z.of_nat (length lens) <= 2 ^ 63 - 1 -> in_range I64 n = true ->
  SupLink_IsMajority lens n = Some (count_nonempty lens >? Z.quot (wrap I64 (n * 2)) 3).
Proof. exact IsMajority_exact. Qed.
Print Assumptions c17_code_IsMajority_exact.

(* 8. Below 2^62 validators (the protocol allows 10) it is the supermajority test 3 * count > 2 * n. *)
Theorem c17_code_IsMajority_spec : forall lens n,
  Z.of_nat (length lens) <= 2 ^ 63 - 1 -> 0 <= n < 2 ^ 62 ->
  exists b, SupLink_IsMajority lens n = Some b /\ (b = true <-> 3 * count_nonempty lens > 2 * n).
Proof. exact IsMajority_spec. Qed.
Print Assumptions c17_code_IsMajority_spec.

(* 9. The exact condition for wrap-around: from 2^62 on, numOfValidators*2 is negative and one signature is enough. *)
Theorem c17_code_IsMajority_wraps : forall lens n,
  Z.of_nat (length lens) <= 2 ^ 63 - 1 -> 2 ^ 62 <= n <= 2 ^ 63 - 1 ->
  SupLink_IsMajority lens n = Some (count_nonempty lens >? Z.quot (2 * n - 2 ^ 64) 3) /\
  (1 <= count_nonempty lens -> SupLink_IsMajority lens n = Some true).
Proof. exact IsMajority_wraps. Qed.
Print Assumptions c17_code_IsMajority_wraps.

(* 10. TIE: the generated function is the hand-written threshold of theorems 1-4 ... *)
Theorem c17_tie_go_is_majority : forall lens n,
  Z.of_nat (length lens) <= 2 ^ 63 - 1 -> 0 <= n < 2 ^ 62 ->
  SupLink_IsMajority lens n = Some (go_is_majority (Z.to_N (count_nonempty lens)) (Z.to_N n)).
Proof. exact tie_go_is_majority. Qed.
Print Assumptions c17_tie_go_is_majority.

(* 11. ... and the threshold of the engine model C16/Model.v (a link has one slot per non-empty signature). *)
Theorem c17_tie_engine_is_majority : forall lens (n : N) (l : link),
  Z.of_nat (length lens) <= 2 ^ 63 - 1 -> (n < 2 ^ 62)%N ->
  count_nonempty lens = Z.of_nat (length (l_slots l)) ->
  SupLink_IsMajority lens (Z.of_N n) = Some (is_majority n l).
Proof. exact tie_is_majority. Qed.
Print Assumptions c17_tie_engine_is_majority.
Close Scope Z_scope.
