(* C17 — justification needs a supermajority of distinct valid validator votes.
   The engine model is C16/Model.v (shared by C16, C17, C18); this file adds the vocabulary of the property:
   which validators validly signed a link, the supermajority test on verified signatures, the integer
   threshold of SupLink.IsMajority. *)
From Coq Require Import List NArith Bool.
From C16 Require Export Model.
Import ListNotations.
Open Scope N_scope.

(* SupLink.IsMajority: numOfSignatures > numOfValidators*2/3 (integer division) *)
Definition go_is_majority (k n : N) : bool := n * 2 / 3 <? k.

(* the validator slots 0 .. n-1 *)
Definition seqN (n : N) : list N := map N.of_nat (seq 0 (N.to_nat n)).

(* slot k of link l holds a signature that verifies for validator k on the link (l_src l) -> t *)
Definition slot_valid (t : N) (l : link) (k : N) : bool :=
  match slot_get k (l_slots l) with
  | Some x => sig_ok k (l_src l) t x
  | None => false
  end.

(* the validators that validly signed the link src -> t in the sup links ls *)
Definition valid_voters (n t src : N) (ls : list link) : list N :=
  filter (fun k => existsb (fun l => (l_src l =? src) && slot_valid t l k) ls) (seqN n).

(* more than 2n/3 distinct validators validly signed src -> t *)
Definition supermajority (n t src : N) (ls : list link) : bool :=
  go_is_majority (N.of_nat (length (valid_voters n t src ls))) n.

Definition is_jf (x : status) : bool :=
  match x with Justified | Finalized => true | _ => false end.

(* every checkpoint that is Justified or Finalized (genesis apart) has a supermajority of valid signatures on
   a link from a checkpoint that is Justified or Finalized *)
Definition justified_needs_votes (n g : N) (s : state) : Prop :=
  forall c, In c (cks s) -> c_id c <> g -> is_jf (c_st c) = true ->
    exists src sc, supermajority n (c_id c) src (c_tl c) = true /\
                   find_ck src (cks s) = Some sc /\ is_jf (c_st sc) = true.

(* every Finalized checkpoint has a direct child that is justified through a supermajority link from it *)
Definition finalized_needs_child (n : N) (s : state) : Prop :=
  forall c, In c (cks s) -> c_st c = Finalized ->
    exists b, In b (cks s) /\ c_par b = c_id c /\ In (c_id c) (c_anc b) /\ is_jf (c_st b) = true /\
              supermajority n (c_id b) (c_id c) (c_tl b) = true.
