(* C17 — lemmas about signature slots, sup links and the supermajority test. *)
From Coq Require Import List ZArith NArith Bool Lia PeanoNat ZifyBool ZifyN ZifyNat.
From C16 Require Import Base.
From C17 Require Import Model.
Import ListNotations.
Open Scope N_scope.

(* ---- arithmetic of IsMajority -------------------------------------------------------- *)

Local Ltac Zify.zify_post_hook ::= Z.to_euclidean_division_equations.

Lemma majority_arith : forall k n, go_is_majority k n = true <-> 3 * k > 2 * n.
Proof. intros k n. unfold go_is_majority. rewrite N.ltb_lt. split; intros H; lia. Qed.

(* ---- slots ------------------------------------------------------------------------------ *)

Lemma slot_get_del : forall j k sl, slot_get j (slot_del k sl) = if j =? k then None else slot_get j sl.
Proof.
  induction sl as [|[i x] sl IH]; simpl.
  - now destruct (j =? k).
  - destruct (N.eqb_spec i k) as [->|Hik]; simpl.
    + rewrite IH. destruct (N.eqb_spec j k) as [->|Hjk]; [reflexivity|].
      destruct (N.eqb_spec k j); [congruence|reflexivity].
    + destruct (N.eqb_spec i j) as [->|Hij].
      * destruct (N.eqb_spec j k); [congruence|reflexivity].
      * exact IH.
Qed.

Lemma slot_get_set : forall j k x sl, slot_get j (slot_set k x sl) = if j =? k then Some x else slot_get j sl.
Proof.
  intros j k x sl. unfold slot_set. simpl. rewrite slot_get_del.
  rewrite (N.eqb_sym k j). now destruct (j =? k).
Qed.

Lemma slot_del_keys : forall k sl j, In j (map fst (slot_del k sl)) -> In j (map fst sl) /\ j <> k.
Proof.
  induction sl as [|[i x] sl IH]; simpl; intros j H; [contradiction|].
  destruct (i =? k) eqn:E.
  - destruct (IH j H). split; [now right|assumption].
  - simpl in H. destruct H as [<-|H]; [split; [now left|now apply N.eqb_neq]|].
    destruct (IH j H). split; [now right|assumption].
Qed.

Lemma slot_del_nodup : forall k sl, NoDup (map fst sl) -> NoDup (map fst (slot_del k sl)).
Proof.
  induction sl as [|[i x] sl IH]; simpl; intros N; [constructor|].
  inversion N as [|a b Hn N']; subst. destruct (i =? k); [now apply IH|].
  simpl. constructor; [|now apply IH]. intros H. apply slot_del_keys in H. tauto.
Qed.

Lemma slot_set_nodup : forall k x sl, NoDup (map fst sl) -> NoDup (map fst (slot_set k x sl)).
Proof.
  intros k x sl N. unfold slot_set. simpl. constructor; [|now apply slot_del_nodup].
  intros H. apply slot_del_keys in H. tauto.
Qed.

Lemma slot_get_in : forall k sl, In k (map fst sl) -> exists x, slot_get k sl = Some x.
Proof.
  induction sl as [|[i x] sl IH]; simpl; intros H; [contradiction|].
  destruct (i =? k) eqn:E; [now exists x|]. destruct H as [H|H]; [apply N.eqb_neq in E; contradiction|now apply IH].
Qed.

(* ---- add_ver ------------------------------------------------------------------------------ *)

(* a slot of a link after add_ver: the new signature, or a slot that was there *)
Lemma add_ver_slot : forall src srch k x ls l j y,
  In l (add_ver src srch k x ls) -> slot_get j (l_slots l) = Some y ->
  (l_src l = src /\ j = k /\ y = x) \/
  (exists l0, In l0 ls /\ l_src l0 = l_src l /\ slot_get j (l_slots l0) = Some y).
Proof.
  induction ls as [|l0 ls IH]; simpl; intros l j y Hl Hs.
  - destruct Hl as [<-|[]]. simpl in Hs. destruct (k =? j) eqn:E; [|discriminate].
    apply N.eqb_eq in E. inversion Hs. left. auto.
  - destruct (l_src l0 =? src) eqn:E.
    + destruct Hl as [<-|Hl].
      * cbn [l_slots] in Hs. rewrite slot_get_set in Hs. destruct (j =? k) eqn:Ej.
        -- apply N.eqb_eq in Ej. inversion Hs. left. apply N.eqb_eq in E. simpl. auto.
        -- right. exists l0. split; [now left|]. split; [reflexivity|assumption].
      * right. exists l. split; [now right|]. auto.
    + destruct Hl as [<-|Hl].
      * right. exists l0. split; [now left|auto].
      * destruct (IH l j y Hl Hs) as [H|(l1 & H1 & H2)]; [now left|]. right. exists l1. split; [now right|assumption].
Qed.

Lemma add_ver_nodup : forall src srch k x ls l,
  (forall l0, In l0 ls -> NoDup (map fst (l_slots l0))) ->
  In l (add_ver src srch k x ls) -> NoDup (map fst (l_slots l)).
Proof.
  induction ls as [|l0 ls IH]; simpl; intros l Hn Hl.
  - destruct Hl as [<-|[]]. simpl. constructor; [intros []|constructor].
  - destruct (l_src l0 =? src).
    + destruct Hl as [<-|Hl]; [cbn [l_slots]; apply slot_set_nodup; apply Hn; now left|apply Hn; now right].
    + destruct Hl as [<-|Hl]; [apply Hn; now left|]. apply IH; [|assumption]. intros l1 H1. apply Hn. now right.
Qed.

(* the link that find_link returns after add_ver holds the new signature *)
Lemma find_link_add_ver : forall src srch k x ls,
  exists l, find_link src (add_ver src srch k x ls) = Some l /\ In l (add_ver src srch k x ls) /\ l_src l = src.
Proof.
  induction ls as [|l0 ls IH]; simpl.
  - rewrite N.eqb_refl. eexists. split; [reflexivity|]. split; [now left|reflexivity].
  - destruct (l_src l0 =? src) eqn:E; simpl.
    + rewrite E. eexists. split; [reflexivity|]. split; [now left|]. simpl. now apply N.eqb_eq.
    + rewrite E. destruct IH as (l & H1 & H2 & H3). exists l. split; [assumption|]. split; [now right|assumption].
Qed.

Lemma find_link_in : forall src ls l, find_link src ls = Some l -> In l ls /\ l_src l = src.
Proof.
  induction ls as [|l0 ls IH]; simpl; intros l H; [discriminate|].
  destruct (l_src l0 =? src) eqn:E.
  - inversion H; subst. split; [now left|now apply N.eqb_eq].
  - destruct (IH l H). split; [now right|assumption].
Qed.

(* a valid new signature never removes a valid voter *)
Lemma add_ver_valid_mono : forall t src srch k x src0 k0 ls,
  sig_ok k src t x = true ->
  existsb (fun l => (l_src l =? src0) && slot_valid t l k0) ls = true ->
  existsb (fun l => (l_src l =? src0) && slot_valid t l k0) (add_ver src srch k x ls) = true.
Proof.
  intros t src srch k x src0 k0 ls Hx. induction ls as [|l0 ls IH]; simpl; intros H; [discriminate|].
  destruct (l_src l0 =? src) eqn:E; simpl.
  - apply orb_true_iff in H. apply orb_true_iff. destruct H as [H|H]; [left|now right].
    apply andb_true_iff in H. destruct H as [H1 H2]. rewrite H1. simpl.
    unfold slot_valid in *. cbn [l_slots l_src]. rewrite slot_get_set. destruct (k0 =? k) eqn:Ek; [|exact H2].
    apply N.eqb_eq in Ek. subst k0. apply N.eqb_eq in E. rewrite E. exact Hx.
  - apply orb_true_iff in H. apply orb_true_iff. destruct H as [H|H]; [now left|right; now apply IH].
Qed.

Lemma filter_length_mono : forall (f g : N -> bool) l, (forall x, f x = true -> g x = true) ->
  (length (filter f l) <= length (filter g l))%nat.
Proof.
  induction l as [|a l IH]; simpl; intros H; [lia|]. specialize (IH H).
  destruct (f a) eqn:Ef; [rewrite (H a Ef); simpl; lia|]. destruct (g a); simpl; lia.
Qed.

Lemma supermajority_add_ver : forall n t src srch k x src0 ls,
  sig_ok k src t x = true ->
  supermajority n t src0 ls = true -> supermajority n t src0 (add_ver src srch k x ls) = true.
Proof.
  intros n t src srch k x src0 ls Hx H. unfold supermajority, go_is_majority in *. apply N.ltb_lt in H. apply N.ltb_lt.
  unfold valid_voters in *.
  pose proof (filter_length_mono
    (fun k1 => existsb (fun l => (l_src l =? src0) && slot_valid t l k1) ls)
    (fun k1 => existsb (fun l => (l_src l =? src0) && slot_valid t l k1) (add_ver src srch k x ls)) (seqN n)
    (fun k1 => add_ver_valid_mono t src srch k x src0 k1 ls Hx)) as Hle.
  cbv beta in Hle. lia.
Qed.

Lemma seqN_in : forall n k, In k (seqN n) <-> k < n.
Proof.
  intros n k. unfold seqN. rewrite in_map_iff. split.
  - intros (i & <- & Hi). apply in_seq in Hi. lia.
  - intros H. exists (N.to_nat k). split; [apply N2Nat.id|]. apply in_seq. lia.
Qed.

(* a link all of whose filled slots are valid validator signatures: its slots are valid voters *)
Lemma majority_supermajority : forall n t src ls l,
  In l ls -> l_src l = src ->
  NoDup (map fst (l_slots l)) ->
  (forall k x, slot_get k (l_slots l) = Some x -> k < n /\ sig_ok k (l_src l) t x = true) ->
  is_majority n l = true -> supermajority n t src ls = true.
Proof.
  intros n t src ls l Hl Hs Hn Hv Hm. subst src. unfold supermajority, go_is_majority, is_majority in *.
  apply N.ltb_lt in Hm. apply N.ltb_lt.
  assert (Hinc : incl (map fst (l_slots l)) (valid_voters n t (l_src l) ls)).
  { intros k Hk. destruct (slot_get_in k _ Hk) as (x & Hx). destruct (Hv k x Hx) as [Hlt Hok].
    unfold valid_voters. apply filter_In. split; [now apply seqN_in|].
    apply existsb_exists. exists l. split; [assumption|]. rewrite N.eqb_refl. simpl.
    unfold slot_valid. now rewrite Hx. }
  pose proof (NoDup_incl_length Hn Hinc) as Hlen. rewrite map_length in Hlen. lia.
Qed.
