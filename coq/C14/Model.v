(* C14 — coinbase rewards are exact and create no extra money.
   EXECUTABLE MODEL ONLY (no proofs).

   Mirrors
     /repo/protocol/state/reward.go      applyValidatorReward (accumulation; the float
                                         formula validatorReward is the parameter [subsidy],
                                         its exact-rational specification is [subsidy_spec])
     /repo/protocol/state/checkpoint.go  NewCheckpoint, Increase (Height / Votes / Rewards)
     /repo/protocol/validation/block.go  checkCoinbaseAmount, checkoutRewardCoinbase
     /repo/proposal/proposal.go          createCoinbaseTx (output list)
     /repo/protocol/bc/types/transaction.go  TxData.Fee
     /repo/protocol/bc/types/map.go + validation/tx.go (Mux case)  BTM value balance of a
                                         transaction, in closed form ([value_ok])
     /repo/protocol/state/utxo_view.go   ApplyTransaction (spend / create), BTM entries only
   and the way protocol/block.go + casper/apply_block.go process a block on the tip
   (ValidateBlock with the checkpoint of the previous epoch boundary, then a child
   checkpoint when height % BlocksOfEpoch == 1, then Increase).

   Conventions: uint64 values are [N] with explicit wrap-around ([w64]); a control
   program is an opaque label ([prog] = N, only equality is observed); a Go
   map[string]uint64 is an association list with first-match lookup ([rmap]); the
   vote tally is C15's model ([V.apply_votes]).  Every other validity rule of the
   node (signatures, VM, maturity, ...) is the parameter [extra_ok]: it can only
   reject more. *)
From Coq Require Import List NArith Bool.
From Verif Require Import Outcome.
From C15 Require Model.
Import ListNotations.
Open Scope N_scope.

Module V := C15.Model.

(* ---- uint64 ---------------------------------------------------------------- *)

Definition two64 : N := 18446744073709551616.
Definition maxint64 : N := 9223372036854775807.
Definition w64 (x : N) : N := x mod two64.

(* exact sum, and the sum a Go loop [s += x] computes *)
Definition sumN (l : list N) : N := fold_right N.add 0 l.
Definition sum64 (l : list N) : N := fold_left (fun a x => w64 (a + x)) l 0.

(* ---- transactions and blocks ---------------------------------------------- *)

Definition prog := N.

(* a spend / veto input: spent output id, its amount, asset = BTM? *)
Record inp := { i_id : N; i_amt : N; i_btm : bool }.

(* an output: id, control program, amount, asset = BTM?, OutputType = Original?,
   enters the utxo set? (false for an unspendable program = retirement) *)
Record out := { o_id : N; o_prog : prog; o_amt : N; o_btm : bool; o_orig : bool; o_stored : bool }.

(* [t_cb]: the transaction has a coinbase input; [t_vote]: its projection for the tally *)
Record tx := { t_cb : bool; t_ins : list inp; t_outs : list out; t_vote : V.tx }.

Record block := { b_height : N; b_txs : list tx }.

Definition btm_in (t : tx) : list N := map i_amt (filter i_btm (t_ins t)).
Definition btm_out (t : tx) : list N := map o_amt (filter o_btm (t_outs t)).

(* TxData.Fee: uint64 sums, 0 unless inputs exceed outputs (a coinbase input has no asset) *)
Definition tx_fee (t : tx) : N :=
  let i := sum64 (btm_in t) in
  let o := sum64 (btm_out t) in
  if o <? i then i - o else 0.

(* ---- map[string]uint64 ------------------------------------------------------ *)

Definition rmap := list (prog * N).

Fixpoint rget (p : prog) (m : rmap) : option N :=
  match m with
  | [] => None
  | (q, v) :: r => if p =? q then Some v else rget p r
  end.

(* m[p] with the zero default *)
Definition rget0 (p : prog) (m : rmap) : N :=
  match rget p m with Some v => v | None => 0 end.

(* m[p] += v   (creates the key, wraps) *)
Fixpoint radd (p : prog) (v : N) (m : rmap) : rmap :=
  match m with
  | [] => [(p, w64 v)]
  | (q, x) :: r => if p =? q then (q, w64 (x + v)) :: r else (q, x) :: radd p v r
  end.

(* ---- checkpoints ------------------------------------------------------------- *)

Record cpt := { c_height : N; c_votes : V.vmap; c_rewards : rmap }.

(* NewCheckpoint(parent): non-zero votes copied, empty reward table *)
Definition new_checkpoint (p : cpt) : cpt :=
  {| c_height := c_height p;
     c_votes := filter (fun e => negb (snd e =? 0)) (c_votes p);
     c_rewards := [] |}.

(* pledgeRate: [for _, vote := range c.Votes { totalVotes += vote }] *)
Definition total_votes (m : V.vmap) : N := sum64 (map snd m).

(* ---- the exact-rational specification of validatorReward ------------------- *)

Definition BlockReward : N := 570776255.
Definition InitBTMSupply : N := 169290771678579170.

(* totalSupply := c.Height*BlockReward/2 + InitBTMSupply   (uint64) *)
Definition total_supply (h : N) : N := w64 (w64 (h * BlockReward) / 2 + InitBTMSupply).

(* rate = total/supply; rate <= 1/2 ? floor((rate + 1/2) * BlockReward) : BlockReward.
   A zero supply makes the float quotient +Inf or NaN: the comparison fails. *)
Definition subsidy_spec (total h : N) : N :=
  let s := total_supply h in
  if s =? 0 then BlockReward
  else if 2 * total <=? s then (BlockReward * (2 * total + s)) / (2 * s)
  else BlockReward.

Inductive err := EBadCoinbase | ERejected.

(* ---- validation/block.go ----------------------------------------------------- *)

(* [output.OutputType() != OriginalOutputType || *output.AssetId != *BTMAssetID] *)
Definition plain (o : out) : bool := o_orig o && o_btm o.

(* outputMap of checkoutRewardCoinbase: a zero first output is skipped *)
Definition out_map (outs : list out) : rmap :=
  match outs with
  | [] => []
  | o0 :: r =>
      fold_left (fun m o => radd (o_prog o) (o_amt o) m)
                (if o_amt o0 =? 0 then r else outs) []
  end.

Definition checkout_reward_coinbase (outs : list out) (rewards : rmap) : outcome err unit :=
  let m := out_map outs in
  if negb (Nat.eqb (length m) (length rewards)) then Err EBadCoinbase
  else if forallb (fun e => rget0 (fst e) m =? snd e) rewards then Ok tt
  else Err EBadCoinbase.

Definition check_coinbase_amount (E h : N) (txs : list tx) (rewards : rmap) : outcome err unit :=
  match txs with
  | [] => Err EBadCoinbase
  | t0 :: _ =>
      if negb (forallb plain (t_outs t0)) then Err EBadCoinbase
      else if E =? 0 then Panic DivZero
      else if negb (h mod E =? 1) then
        match t_outs t0 with
        | [o] => if o_amt o =? 0 then Ok tt else Err EBadCoinbase
        | _ => Err EBadCoinbase
        end
      else checkout_reward_coinbase (t_outs t0) rewards
  end.

(* ---- proposal.go: createCoinbaseTx ------------------------------------------- *)

Definition mk_out (p : prog) (a : N) : out :=
  {| o_id := 0; o_prog := p; o_amt := a; o_btm := true; o_orig := true; o_stored := true |}.

(* [iter] = checkpoint.Rewards in the order [range] yields it *)
Definition create_coinbase (E h : N) (script : prog) (iter : rmap) : list out :=
  if (h mod E =? 1) && negb (h =? 1) then
    mk_out script (fold_left (fun a e => if fst e =? script then snd e else a) iter 0)
      :: map (fun e => mk_out (fst e) (snd e)) (filter (fun e => negb (fst e =? script)) iter)
  else [mk_out script 0].

(* ---- value balance of one transaction (Mux case of validation/tx.go) -------- *)

(* The BTM sources are the coinbase source (MapTx: the uint64 total of the outputs)
   and the spent amounts; every source and running sum must fit int64, every
   destination is subtracted with an int64 underflow check and the remainder
   (the gas value) must not be negative.  Closed form: *)
Definition value_ok (t : tx) : bool :=
  let outs := sumN (btm_out t) in
  let src := (if t_cb t then w64 outs else 0) + sumN (btm_in t) in
  (src <=? maxint64) && (outs <=? src).

Definition is_nil {A} (l : list A) : bool := match l with [] => true | _ => false end.

(* ErrEmptyResults + value balance *)
Definition tx_ok (t : tx) : bool := negb (is_nil (t_outs t)) && value_ok t.

(* a coinbase input is only valid in the first transaction of a block *)
Definition cb_position_ok (txs : list tx) : bool :=
  match txs with [] => true | _ :: r => forallb (fun t => negb (t_cb t)) r end.

(* ---- utxo set (BTM entries: id, amount) ---------------------------------------- *)

Definition utxo := list (N * N).

(* the id of an output commits to its amount: a spend names both *)
Fixpoint spend1 (u : utxo) (id amt : N) : option utxo :=
  match u with
  | [] => None
  | (i, a) :: r =>
      if (i =? id) && (a =? amt) then Some r
      else match spend1 r id amt with Some r' => Some ((i, a) :: r') | None => None end
  end.

Fixpoint spend_all (u : utxo) (ins : list inp) : option utxo :=
  match ins with
  | [] => Some u
  | i :: r =>
      if i_btm i then
        match spend1 u (i_id i) (i_amt i) with
        | Some u' => spend_all u' r
        | None => None
        end
      else spend_all u r
  end.

(* applyOutputUtxo: retirements and zero amounts are not stored *)
Definition created (t : tx) : utxo :=
  map (fun o => (o_id o, o_amt o))
      (filter (fun o => o_btm o && o_stored o && negb (o_amt o =? 0)) (t_outs t)).

Definition apply_tx (u : utxo) (t : tx) : option utxo :=
  match spend_all u (t_ins t) with
  | Some u' => Some (u' ++ created t)
  | None => None
  end.

Fixpoint apply_txs (u : utxo) (txs : list tx) : option utxo :=
  match txs with
  | [] => Some u
  | t :: r => match apply_tx u t with Some u' => apply_txs u' r | None => None end
  end.

Definition btm_total (u : utxo) : N := sumN (map snd u).

(* ---- the chain tip ------------------------------------------------------------- *)

Record state := { s_height : N; s_cp : cpt; s_utxo : utxo }.

Section Chain.
  (* validatorReward as a function of (totalVotes, Height) *)
  Variable subsidy : N -> N -> N.
  (* all other validity rules of the node *)
  Variable extra_ok : state -> block -> bool.

  (* Checkpoint.Increase: Height, applyVotes, applyValidatorReward
     (block.Transactions[0].Outputs[0] panics when absent) *)
  Definition increase (c : cpt) (b : block) : outcome err cpt :=
    let votes := V.apply_votes (c_votes c) (map t_vote (b_txs b)) in
    match b_txs b with
    | [] => Panic IndexOOR
    | t0 :: _ =>
        match t_outs t0 with
        | [] => Panic IndexOOR
        | o0 :: _ =>
            let p := o_prog o0 in
            let r1 := fold_left (fun m t => radd p (tx_fee t) m) (b_txs b) (c_rewards c) in
            Ok {| c_height := b_height b;
                  c_votes := votes;
                  c_rewards := radd p (subsidy (total_votes votes) (b_height b)) r1 |}
        end
    end.

  (* casper.applyBlockToCheckpoint *)
  Definition grow (E : N) (c : cpt) (b : block) : outcome err cpt :=
    increase (if b_height b mod E =? 1 then new_checkpoint c else c) b.

  (* Chain.saveBlock + connectBlock on the tip.  [s_cp] is the checkpoint at the
     parent block: for the first block of an epoch the finished checkpoint of the
     previous epoch (the one ValidateBlock receives); its table is not read otherwise. *)
  Definition process_block (E : N) (st : state) (b : block) : outcome err state :=
    if E =? 0 then Panic DivZero
    else if negb (b_height b =? s_height st + 1) then Err ERejected
    else if negb (extra_ok st b) then Err ERejected
    else if negb (forallb tx_ok (b_txs b) && cb_position_ok (b_txs b)) then Err ERejected
    else
      match check_coinbase_amount E (b_height b) (b_txs b) (c_rewards (s_cp st)) with
      | Ok _ =>
          match grow E (s_cp st) b with
          | Ok cp' =>
              match apply_txs (s_utxo st) (b_txs b) with
              | Some u' => Ok {| s_height := b_height b; s_cp := cp'; s_utxo := u' |}
              | None => Err ERejected
              end
          | Err e => Err e
          | Panic p => Panic p
          end
      | Err e => Err e
      | Panic p => Panic p
      end.

  Fixpoint run (E : N) (st : state) (bs : list block) : outcome err state :=
    match bs with
    | [] => Ok st
    | b :: r =>
        match process_block E st b with
        | Ok st' => run E st' r
        | Err e => Err e
        | Panic p => Panic p
        end
    end.
End Chain.
