(* C14 — the property statements, proved from Check.v and Chain.v, and examples
   showing that their hypotheses are satisfiable. *)
From Coq Require Import List NArith Bool Lia Permutation.
From Verif Require Import Outcome.
From C14 Require Import Model Maps Check Chain.
Import ListNotations.
Open Scope N_scope.

(* the first transaction pays exactly the table given by the credited blocks [cr]:
   per program the amounts add up to the table entry, and nothing (except a zero
   first output) goes to a program outside the table *)
Definition pays_table (txs : list tx) (cr : credits) : Prop :=
  exists t0 rest,
    txs = t0 :: rest /\ forallb plain (t_outs t0) = true /\
    (forall p, paid_to p (pay_outs (t_outs t0)) = table_of cr p) /\
    (forall o, In o (pay_outs (t_outs t0)) -> In (o_prog o) (map fst cr)).

Lemma pays_table_exact txs m cr : tab_ok m cr -> (exact_payout txs m <-> pays_table txs cr).
Proof.
  intros [_ Hkeys Hget _ _]. unfold exact_payout, pays_table, exact_outs. split.
  - intros [t0 [rest [H1 [H2 [H3 H4]]]]]. exists t0, rest. repeat split; try assumption.
    + intro p. rewrite H3. apply Hget.
    + intros o Ho. apply Hkeys, H4, Ho.
  - intros [t0 [rest [H1 [H2 [H3 H4]]]]]. exists t0, rest. repeat split; try assumption.
    + intro p. rewrite H3. symmetry. apply Hget.
    + intros o Ho. apply Hkeys, H4, Ho.
Qed.

Section Statements.
  Variable subsidy : N -> N -> N.
  Variable extra_ok : state -> block -> bool.
  Variable E : N.
  Hypothesis HE : E <> 0.
  Hypothesis sub_pos : forall t h, 0 < subsidy t h.
  Hypothesis sub_le : forall t h, subsidy t h <= BlockReward.

  Let run := run subsidy extra_ok E.
  Let account := account subsidy extra_ok E.

  Lemma account_n bs : forall st a st',
    run st bs = Ok st' -> a_n (account st a bs) = a_n a + N.of_nat (length bs).
  Proof.
    subst run account.
    induction bs as [|b r IH]; intros st a st' H; cbn [Model.run Chain.account length] in *.
    - cbn. lia.
    - destruct (process_block subsidy extra_ok E st b) as [st1|e|p]; [|discriminate|discriminate].
      rewrite (IH _ _ _ H), acct_step_n, Nat2N.inj_succ. lia.
  Qed.

  Lemma chain_inv st0 bs st :
    c_rewards (s_cp st0) = [] -> run st0 bs = Ok st ->
    btm_total (s_utxo st0) + N.of_nat (length bs) * BlockReward < two64 ->
    inv (btm_total (s_utxo st0)) st (account st0 acct0 bs).
  Proof.
    intros H0 Hrun Hb. subst run account.
    apply (run_inv subsidy extra_ok E HE sub_pos sub_le _ bs st0 acct0 st);
      [apply inv0; assumption| |assumption].
    cbn [acct0 a_n]. rewrite N.add_0_l. assumption.
  Qed.

  Lemma inv_bound u0 st a : inv u0 st a -> cr_total (a_cur a) <= u0 + a_n a * BlockReward.
  Proof. intros [_ Hcur Hpaid Hmint Hutxo Hfees Hsubs]. lia. Qed.

  (* ---- exactness ---- *)

  Theorem exact_thm st0 pre st :
    c_rewards (s_cp st0) = [] -> run st0 pre = Ok st ->
    btm_total (s_utxo st0) + N.of_nat (length pre) * BlockReward < two64 ->
    let cr := a_cur (account st0 acct0 pre) in
    forall h txs,
      (h mod E = 1 -> out_total (first_outs txs) < two64 ->
       (check_coinbase_amount E h txs (c_rewards (s_cp st)) = Ok tt <-> pays_table txs cr))
      /\
      (h mod E <> 1 ->
       (check_coinbase_amount E h txs (c_rewards (s_cp st)) = Ok tt <-> zero_payout txs)).
  Proof.
    intros H0 Hrun Hb cr h txs.
    pose proof (chain_inv _ _ _ H0 Hrun Hb) as Hinv. destruct Hinv as [Htab _ _ _ _ _ _].
    fold cr in Htab. split.
    - intros Hh Hs. rewrite <- (pays_table_exact txs _ _ Htab).
      apply check_first_iff; [assumption|assumption|eapply tab_ok_wf; eassumption|assumption].
    - intro Hh. apply check_other_iff; assumption.
  Qed.

  (* ---- the proposer's coinbase on an accepted chain ---- *)

  Theorem proposer_chain st0 pre st h script iter :
    c_rewards (s_cp st0) = [] -> run st0 pre = Ok st ->
    btm_total (s_utxo st0) + N.of_nat (length pre) * BlockReward <= maxint64 ->
    (h = 1 -> pre = []) ->
    Permutation iter (c_rewards (s_cp st)) ->
    let t := cb_tx (create_coinbase E h script iter) in
    tx_ok t = true /\ check_coinbase_amount E h [t] (c_rewards (s_cp st)) = Ok tt.
  Proof.
    intros H0 Hrun Hb H1 HP. pose proof maxint64_lt as Hm.
    assert (Hb' : btm_total (s_utxo st0) + N.of_nat (length pre) * BlockReward < two64) by lia.
    pose proof (chain_inv _ _ _ H0 Hrun Hb') as Hinv.
    pose proof (inv_bound _ _ _ Hinv) as Hbd.
    rewrite (account_n pre st0 acct0 st Hrun) in Hbd. cbn [acct0 a_n] in Hbd. rewrite N.add_0_l in Hbd.
    destruct Hinv as [Htab _ _ _ _ _ _].
    apply proposer_agrees; try assumption.
    - eapply tab_ok_wf; eassumption.
    - rewrite (to_sum _ _ Htab). lia.
    - intro Hh. specialize (H1 Hh). subst pre. subst run. cbn [Model.run] in Hrun.
      inversion Hrun; subst. assumption.
  Qed.

  (* ---- supply ---- *)

  Theorem supply_thm st0 bs st :
    c_rewards (s_cp st0) = [] -> run st0 bs = Ok st ->
    btm_total (s_utxo st0) + N.of_nat (length bs) * BlockReward < two64 ->
    let a := account st0 acct0 bs in
    (* what the first transactions paid = fees + subsidies of the blocks of the epochs paid out *)
    sumN (map paid_out bs) = a_duef a + a_dues a /\
    (* nothing else is minted *)
    sumN (map minted bs) <= sumN (map paid_out bs) /\
    (* the ledger: unspent BTM plus all fees never exceeds the initial supply plus what was minted *)
    btm_total (s_utxo st) + sumN (map (block_fees) bs)
      <= btm_total (s_utxo st0) + sumN (map minted bs) /\
    btm_total (s_utxo st) <= btm_total (s_utxo st0) + sumN (map paid_out bs) /\
    (* and the subsidies paid are at most BlockReward per block *)
    btm_total (s_utxo st) <= btm_total (s_utxo st0) + N.of_nat (length bs) * BlockReward.
  Proof.
    intros H0 Hrun Hb a.
    pose proof (chain_inv _ _ _ H0 Hrun Hb) as Hinv. fold a in Hinv.
    destruct (account_sums subsidy extra_ok E HE bs st0 acct0 st Hrun) as [Hf [Hp Hm]].
    fold account in Hf, Hp, Hm. fold a in Hf, Hp, Hm. cbn [acct0 a_fees a_paid a_mint] in Hf, Hp, Hm.
    rewrite N.add_0_l in Hf, Hp, Hm.
    pose proof (account_n bs st0 acct0 st Hrun) as Hn. fold a in Hn. cbn [acct0 a_n] in Hn.
    rewrite N.add_0_l in Hn.
    destruct Hinv as [_ Hcur Hpaid Hmint Hutxo Hfees Hsubs].
    rewrite <- Hf, <- Hp, <- Hm, <- Hn. repeat split; try lia.
  Qed.
End Statements.

(* ---- the exact-rational subsidy --------------------------------------------------------- *)

Theorem subsidy_spec_bounds total h :
  BlockReward / 2 <= subsidy_spec total h <= BlockReward.
Proof.
  unfold subsidy_spec. set (s := total_supply h).
  assert (Hhalf : BlockReward / 2 <= BlockReward) by (apply N.div_le_upper_bound; lia).
  destruct (N.eqb_spec s 0) as [Hs|Hs]; [lia|].
  destruct (N.leb_spec (2 * total) s) as [Hle|Hgt]; [|lia].
  split.
  - rewrite <- (N.div_mul_cancel_r BlockReward 2 s) by lia.
    apply N.div_le_mono; nia.
  - apply N.div_le_upper_bound; nia.
Qed.

(* ---- examples: the hypotheses are satisfiable by a non-trivial chain ---------------- *)

Module Ex.
  Definition sub (_ _ : N) : N := 5.
  Definition all_ok (_ : state) (_ : block) : bool := true.
  Definition novote : V.tx := {| V.tx_ins := []; V.tx_outs := [] |}.
  Definition cb (outs : list out) : tx := {| t_cb := true; t_ins := []; t_outs := outs; t_vote := novote |}.
  Definition o (id p a : N) : out :=
    {| o_id := id; o_prog := p; o_amt := a; o_btm := true; o_orig := true; o_stored := true |}.
  Definition st0 : state :=
    {| s_height := 0; s_cp := {| c_height := 0; c_votes := []; c_rewards := [] |}; s_utxo := [(1, 1000)] |}.
  (* epochs of 2 blocks: heights 1-2, 3-4; block 2 carries a transaction with fee 100 *)
  Definition pay : tx :=
    {| t_cb := false; t_ins := [{| i_id := 1; i_amt := 1000; i_btm := true |}];
       t_outs := [o 12 9 900]; t_vote := novote |}.
  Definition chain : list block :=
    [ {| b_height := 1; b_txs := [cb [o 10 7 0]] |};
      {| b_height := 2; b_txs := [cb [o 11 8 0]; pay] |};
      {| b_height := 3; b_txs := [cb [o 13 7 5; o 14 8 105]] |} ].

  Example chain_accepted :
    match run sub all_ok 2 st0 chain with
    | Ok st => btm_total (s_utxo st) = 1010 /\ c_rewards (s_cp st) = [(7, 5)]
    | _ => False
    end.
  Proof. vm_compute. split; reflexivity. Qed.

  Example chain_bound :
    btm_total (s_utxo st0) + N.of_nat (length chain) * BlockReward < two64.
  Proof. vm_compute. reflexivity. Qed.

  Example sub_hyps : (forall t h, 0 < sub t h) /\ (forall t h, sub t h <= BlockReward).
  Proof. split; intros; unfold sub; vm_compute; [reflexivity|discriminate]. Qed.

  (* one unit more than the table is refused *)
  Example overpay_rejected :
    match run sub all_ok 2 st0
              (firstn 2 chain ++ [ {| b_height := 3; b_txs := [cb [o 13 7 5; o 14 8 106]] |} ]) with
    | Err EBadCoinbase => True
    | _ => False
    end.
  Proof. vm_compute. exact Logic.I. Qed.

  (* amounts that wrap around to the table entry are refused by the value balance *)
  Example wrap_rejected :
    match run sub all_ok 2 st0
              (firstn 2 chain ++
               [ {| b_height := 3;
                    b_txs := [cb [o 13 7 5; o 14 8 9223372036854775807;
                                  o 15 8 9223372036854775807; o 16 8 107]] |} ]) with
    | Err ERejected => True
    | _ => False
    end.
  Proof. vm_compute. exact Logic.I. Qed.

  Example spec_values :
    subsidy_spec 0 100 = 285388127 /\ subsidy_spec two64 100 = BlockReward /\
    BlockReward / 2 < subsidy_spec 40000000000000000 100 < BlockReward.
  Proof. vm_compute. repeat split; reflexivity. Qed.
End Ex.
