(* C14 — Coinbase rewards are exact and create no extra money.
   PROPERTY THEOREMS ONLY.

   The model (C14/Model.v) mirrors protocol/state/reward.go (applyValidatorReward),
   protocol/state/checkpoint.go (NewCheckpoint, Increase), protocol/validation/block.go
   (checkCoinbaseAmount, checkoutRewardCoinbase), proposal/proposal.go (createCoinbaseTx),
   TxData.Fee, the BTM value balance of a transaction (Mux case of validation/tx.go, in
   closed form) and the BTM part of the utxo set, with uint64 wrap-around written out.
   [process_block] is what the node does with a block on its tip: every rule of the
   node that is not about rewards (signatures, VM, maturity, ...) is the arbitrary
   parameter [extra_ok] - it can only reject more; [run] feeds a list of blocks.

   The float formula validatorReward is the arbitrary parameter [subsidy] (a function of
   the checkpoint's total votes and height) with 0 < subsidy <= BlockReward; its
   exact-rational specification is [subsidy_spec] (the harness checks on every run that
   the implementation's float value is within one unit of it).

   Vocabulary (Check.v, Chain.v, Proofs.v):
   [proposer b]       control program of output 0 of the block's first transaction;
   [block_fees b]     sum of TxData.Fee over the block's transactions;
   [block_subsidy c b] subsidy (total votes after the block's own votes, height);
   [account]          bookkeeping along an accepted chain: [a_cur] = the list of
                      (proposer b, block_fees b + block_subsidy b) of the blocks of the tip's
                      epoch (reset at every block with height mod E = 1), [a_duef]/[a_dues] =
                      fees / subsidies of the blocks of all epochs already paid out;
   [table_of cr p]    sum of the credits of program p;
   [pay_outs outs]    the outputs that count (a zero-amount first output is skipped);
   [paid_to p outs]   exact sum of the amounts paid to program p;
   [paid_out b]       sum of the outputs of the block's first transaction;
   [minted b]         the coinbase sources of the block (what the block creates from nothing).
   The size hypothesis [initial supply + (number of blocks) * BlockReward < 2^64] is what
   excludes uint64 wrap-around of the tables (about 1.6e10 blocks on the real supply). *)
From Coq Require Import List NArith Bool Permutation.
From Verif Require Import Outcome.
From C14 Require Import Model Maps Check Chain Proofs.
Import ListNotations.
Open Scope N_scope.

(* On the tip of ANY accepted chain (from a state with an empty table, e.g. genesis):
   a block at a height with h mod E = 1 passes checkCoinbaseAmount iff its first
   transaction has only plain BTM outputs which, grouped by program, equal the table
   "for each block of the finished epoch, fees + subsidy, credited to its proposer"
   and pay no program outside that table; at every other height iff the first
   transaction has a single plain output of amount zero. *)
Theorem c14_exact :
  forall (subsidy : N -> N -> N) (extra_ok : state -> block -> bool) (E : N),
    E <> 0 ->
    (forall t h, 0 < subsidy t h) -> (forall t h, subsidy t h <= BlockReward) ->
    forall st0 pre st,
      c_rewards (s_cp st0) = [] ->
      run subsidy extra_ok E st0 pre = Ok st ->
      btm_total (s_utxo st0) + N.of_nat (length pre) * BlockReward < two64 ->
      let cr := a_cur (account subsidy extra_ok E st0 acct0 pre) in
      forall h txs,
        (h mod E = 1 -> out_total (first_outs txs) < two64 ->
         (check_coinbase_amount E h txs (c_rewards (s_cp st)) = Ok tt <-> pays_table txs cr))
        /\
        (h mod E <> 1 ->
         (check_coinbase_amount E h txs (c_rewards (s_cp st)) = Ok tt <-> zero_payout txs)).
Proof. exact exact_thm. Qed.
Print Assumptions c14_exact.

(* The reward table itself: processing a block adds fees + subsidy under the proposer's
   program (a fresh table at the first block of an epoch), exactly, as long as the table
   total stays below 2^64. *)
Theorem c14_table_step :
  forall (subsidy : N -> N -> N) (extra_ok : state -> block -> bool) (E : N),
    E <> 0 ->
    (forall t h, 0 < subsidy t h) -> (forall t h, subsidy t h <= BlockReward) ->
    forall u0 st a b st',
      inv u0 st a -> u0 + (a_n a + 1) * BlockReward < two64 ->
      process_block subsidy extra_ok E st b = Ok st' ->
      inv u0 st' (acct_step subsidy E (s_cp st) a b).
Proof. exact inv_step. Qed.
Print Assumptions c14_table_step.

(* The proposer's createCoinbaseTx passes the validator's check (and the value balance),
   whatever order the map iteration yields, on the tip of any accepted chain. *)
Theorem c14_proposer_agrees :
  forall (subsidy : N -> N -> N) (extra_ok : state -> block -> bool) (E : N),
    E <> 0 ->
    (forall t h, 0 < subsidy t h) -> (forall t h, subsidy t h <= BlockReward) ->
    forall st0 pre st h script iter,
      c_rewards (s_cp st0) = [] ->
      run subsidy extra_ok E st0 pre = Ok st ->
      btm_total (s_utxo st0) + N.of_nat (length pre) * BlockReward <= maxint64 ->
      (h = 1 -> pre = []) ->
      Permutation iter (c_rewards (s_cp st)) ->
      let t := cb_tx (create_coinbase E h script iter) in
      tx_ok t = true /\ check_coinbase_amount E h [t] (c_rewards (s_cp st)) = Ok tt.
Proof. exact proposer_chain. Qed.
Print Assumptions c14_proposer_agrees.

(* The same for any well-formed table (distinct keys, no zero entry, total within int64). *)
Theorem c14_proposer_agrees_table :
  forall E h script (rw iter : rmap),
    E <> 0 -> table_wf rw -> rsum rw <= maxint64 -> (h = 1 -> rw = []) ->
    Permutation iter rw ->
    let t := cb_tx (create_coinbase E h script iter) in
    tx_ok t = true /\ check_coinbase_amount E h [t] rw = Ok tt.
Proof. exact proposer_agrees. Qed.
Print Assumptions c14_proposer_agrees_table.

(* Along ANY accepted chain: what the first transactions paid equals the fees plus
   subsidies of the blocks of the epochs paid out; nothing else is minted; the BTM in
   unspent outputs plus all fees never exceeds the initial supply plus what was minted,
   hence never exceeds the initial supply plus the rewards paid, hence never exceeds the
   initial supply plus BlockReward per block. *)
Theorem c14_supply :
  forall (subsidy : N -> N -> N) (extra_ok : state -> block -> bool) (E : N),
    E <> 0 ->
    (forall t h, 0 < subsidy t h) -> (forall t h, subsidy t h <= BlockReward) ->
    forall st0 bs st,
      c_rewards (s_cp st0) = [] ->
      run subsidy extra_ok E st0 bs = Ok st ->
      btm_total (s_utxo st0) + N.of_nat (length bs) * BlockReward < two64 ->
      let a := account subsidy extra_ok E st0 acct0 bs in
      sumN (map paid_out bs) = a_duef a + a_dues a /\
      sumN (map minted bs) <= sumN (map paid_out bs) /\
      btm_total (s_utxo st) + sumN (map block_fees bs)
        <= btm_total (s_utxo st0) + sumN (map minted bs) /\
      btm_total (s_utxo st) <= btm_total (s_utxo st0) + sumN (map paid_out bs) /\
      btm_total (s_utxo st) <= btm_total (s_utxo st0) + N.of_nat (length bs) * BlockReward.
Proof. exact supply_thm. Qed.
Print Assumptions c14_supply.

(* The subsidy specification lies between half the block reward and the block reward,
   for every total of votes and every height (including wrapped supplies). *)
Theorem c14_subsidy_bounds :
  forall total h, BlockReward / 2 <= subsidy_spec total h <= BlockReward.
Proof. exact subsidy_spec_bounds. Qed.
Print Assumptions c14_subsidy_bounds.

(* No block, accepted or not, makes the reward code panic (BlocksOfEpoch <> 0): the index
   expression Transactions[0].Outputs[0] is only reached for blocks that passed the checks. *)
Theorem c14_no_panic :
  forall (subsidy : N -> N -> N) (extra_ok : state -> block -> bool) (E : N),
    E <> 0 ->
    forall st b p, process_block subsidy extra_ok E st b <> Panic p.
Proof. exact process_block_no_panic. Qed.
Print Assumptions c14_no_panic.

(* ---- The reward constants of the model are the code's (translator tools/gofrag) ----------------
   consensus_BlockReward, consensus_InitBTMSupply: read from consensus/general.go on every run.
   (validatorReward / pledgeRate are float64 code: outside the translator's fragment.) *)
From Coq Require Import ZArith.
From VerifGen Require Import FragConsensus.
From C14 Require Import Tie.

Theorem c14_tie_BlockReward : Z.of_N BlockReward = consensus_BlockReward.
Proof. exact tie_BlockReward. Qed.
Print Assumptions c14_tie_BlockReward.

Theorem c14_tie_InitBTMSupply : Z.of_N InitBTMSupply = consensus_InitBTMSupply.
Proof. exact tie_InitBTMSupply. Qed.
Print Assumptions c14_tie_InitBTMSupply.
