(* C14 — accumulation of the reward table, the ledger, and the invariant kept by
   every accepted chain. *)
From Coq Require Import List NArith Bool Lia Permutation.
From Verif Require Import Outcome.
From C14 Require Import Model Maps Check.
Import ListNotations.
Open Scope N_scope.

(* ---- m[p] += f(t) for every t, then m[p] += s ------------------------------------ *)

Definition addfees {A} (p : prog) (f : A -> N) (l : list A) (m : rmap) : rmap :=
  fold_left (fun m t => radd p (f t) m) l m.

Lemma addfees_get_p {A} p (f : A -> N) l : forall m,
  w64 (rget0 p (addfees p f l m)) = w64 (rget0 p m + sumN (map f l)).
Proof.
  unfold addfees. induction l as [|t l IH]; intro m; cbn [fold_left map].
  - unfold sumN; cbn [fold_right]. f_equal; lia.
  - rewrite IH, rget0_radd, N.eqb_refl, w64_add_l, sumN_cons. f_equal; lia.
Qed.

Lemma addfees_get_other {A} p q (f : A -> N) l : forall m,
  q <> p -> rget0 q (addfees p f l m) = rget0 q m.
Proof.
  unfold addfees. induction l as [|t l IH]; intros m H; cbn [fold_left]; [reflexivity|].
  rewrite IH by assumption. rewrite rget0_radd. destruct (N.eqb_spec q p); [contradiction|reflexivity].
Qed.

Lemma addfees_keys {A} p (f : A -> N) l : forall m k,
  In k (keys (addfees p f l m)) -> k = p \/ In k (keys m).
Proof.
  unfold addfees. induction l as [|t l IH]; intros m k; cbn [fold_left]; [auto|].
  intro H. apply IH in H. destruct H as [H|H]; [auto|]. apply keys_radd in H. assumption.
Qed.

Lemma addfees_keys_mono {A} p (f : A -> N) l : forall m k,
  In k (keys m) -> In k (keys (addfees p f l m)).
Proof.
  unfold addfees. induction l as [|t l IH]; intros m k H; cbn [fold_left]; [assumption|].
  apply IH. apply keys_radd. auto.
Qed.

Lemma addfees_nodup {A} p (f : A -> N) l : forall m,
  NoDup (keys m) -> NoDup (keys (addfees p f l m)).
Proof.
  unfold addfees. induction l as [|t l IH]; intros m H; cbn [fold_left]; [assumption|].
  apply IH, NoDup_keys_radd, H.
Qed.

Lemma addfees_rsum {A} p (f : A -> N) l : forall m,
  rsum m + sumN (map f l) < two64 -> rsum (addfees p f l m) = rsum m + sumN (map f l).
Proof.
  unfold addfees. induction l as [|t l IH]; intros m H; cbn [fold_left map] in *.
  - unfold sumN; cbn [fold_right]. lia.
  - rewrite sumN_cons in *. rewrite IH; rewrite rsum_radd; lia.
Qed.

Definition credit_map {A} (p : prog) (f : A -> N) (l : list A) (s : N) (m : rmap) : rmap :=
  radd p s (addfees p f l m).

Lemma credit_keys {A} p (f : A -> N) l s m k :
  In k (keys (credit_map p f l s m)) <-> k = p \/ In k (keys m).
Proof.
  unfold credit_map. rewrite keys_radd. split.
  - intros [H|H]; [auto|]. apply addfees_keys in H. assumption.
  - intros [H|H]; [auto|]. right. apply addfees_keys_mono. assumption.
Qed.

Lemma credit_nodup {A} p (f : A -> N) l s m :
  NoDup (keys m) -> NoDup (keys (credit_map p f l s m)).
Proof. intro H. apply NoDup_keys_radd, addfees_nodup, H. Qed.

Lemma credit_rsum {A} p (f : A -> N) l s m :
  rsum m + sumN (map f l) + s < two64 ->
  rsum (credit_map p f l s m) = rsum m + sumN (map f l) + s.
Proof.
  intro H. unfold credit_map. rewrite rsum_radd; rewrite addfees_rsum; lia.
Qed.

Lemma credit_get {A} p (f : A -> N) l s m q :
  rsum m + sumN (map f l) + s < two64 ->
  rget0 q (credit_map p f l s m) =
  if q =? p then rget0 p m + sumN (map f l) + s else rget0 q m.
Proof.
  intro H. unfold credit_map. rewrite rget0_radd.
  destruct (N.eqb_spec q p) as [->|Hne].
  - rewrite <- w64_add_l, addfees_get_p, w64_add_l. apply w64_small.
    eapply N.le_lt_trans; [|exact H]. apply N.add_le_mono_r, N.add_le_mono_r, rget0_le_rsum.
  - apply addfees_get_other. assumption.
Qed.

(* ---- the table as a function of the credited blocks ----------------------------- *)

Definition credits := list (prog * N).

Definition table_of (cr : credits) (p : prog) : N :=
  sumN (map snd (filter (fun e => fst e =? p) cr)).

Definition cr_total (cr : credits) : N := sumN (map snd cr).

Lemma table_of_app cr p q c :
  table_of (cr ++ [(q, c)]) p = table_of cr p + (if q =? p then c else 0).
Proof.
  unfold table_of. rewrite filter_app, map_app, sumN_app. cbn [filter fst].
  destruct (q =? p); cbn [map snd]; rewrite ?sumN_cons; change (sumN []) with 0;
    rewrite ?N.add_0_r; reflexivity.
Qed.

Lemma cr_total_app cr q c : cr_total (cr ++ [(q, c)]) = cr_total cr + c.
Proof. unfold cr_total. rewrite map_app, sumN_app. unfold sumN; cbn [map snd fold_right]. lia. Qed.

Record tab_ok (m : rmap) (cr : credits) : Prop := {
  to_nodup : NoDup (keys m);
  to_keys : forall k, In k (keys m) <-> In k (map fst cr);
  to_get : forall p, rget0 p m = table_of cr p;
  to_sum : rsum m = cr_total cr;
  to_pos : forall e, In e cr -> 0 < snd e }.

Lemma tab_ok_nil : tab_ok [] [].
Proof.
  constructor.
  - constructor.
  - intro k. reflexivity.
  - intro p. reflexivity.
  - reflexivity.
  - intros e [].
Qed.

Lemma table_of_pos cr k : (forall e, In e cr -> 0 < snd e) -> In k (map fst cr) -> 0 < table_of cr k.
Proof.
  intros Hpos Hin. apply in_map_iff in Hin. destruct Hin as [[k' v] [Hk Hin]]. cbn [fst] in Hk. subst k'.
  unfold table_of.
  assert (In v (map snd (filter (fun e => fst e =? k) cr))).
  { apply in_map_iff. exists (k, v). split; [reflexivity|]. apply filter_In. split; [assumption|].
    cbn [fst]. apply N.eqb_refl. }
  apply sumN_In_le in H. specialize (Hpos _ Hin). cbn [snd] in Hpos.
  eapply N.lt_le_trans; eassumption.
Qed.

Lemma tab_ok_wf m cr : tab_ok m cr -> table_wf m.
Proof.
  intros [Hnd Hkeys Hget _ Hpos]. split; [assumption|].
  intros k v Hin.
  assert (Hv : rget0 k m = v) by (unfold rget0; rewrite (rget_In_pair _ _ _ Hnd Hin); reflexivity).
  assert (Hk : In k (map fst cr)).
  { apply Hkeys. unfold keys. change k with (fst (k, v)). apply in_map. assumption. }
  pose proof (table_of_pos cr k Hpos Hk). rewrite <- Hget, Hv in H. lia.
Qed.

Lemma tab_ok_step {A} m cr p (f : A -> N) l s :
  tab_ok m cr -> cr_total cr + (sumN (map f l) + s) < two64 -> 0 < sumN (map f l) + s ->
  tab_ok (credit_map p f l s m) (cr ++ [(p, sumN (map f l) + s)]).
Proof.
  intros [Hnd Hkeys Hget Hsum Hpos] Hlt Hc.
  assert (Hlt' : rsum m + sumN (map f l) + s < two64) by lia.
  constructor.
  - apply credit_nodup. assumption.
  - intro k. rewrite credit_keys, map_app, in_app_iff, Hkeys. cbn [map fst In]. intuition.
  - intro q. rewrite credit_get by assumption. rewrite table_of_app, <- !Hget.
    rewrite (N.eqb_sym p q). destruct (N.eqb_spec q p) as [->|]; lia.
  - rewrite credit_rsum by assumption. rewrite cr_total_app. lia.
  - intros e He. apply in_app_iff in He. destruct He as [He|[<-|[]]]; [auto|]. cbn [snd]. assumption.
Qed.

(* ---- ledger ------------------------------------------------------------------------- *)

Lemma btm_total_app u v : btm_total (u ++ v) = btm_total u + btm_total v.
Proof. unfold btm_total. rewrite map_app, sumN_app. reflexivity. Qed.

Lemma spend1_total u id amt u' : spend1 u id amt = Some u' -> btm_total u = amt + btm_total u'.
Proof.
  revert u'. induction u as [|[i a] r IH]; intros u' H; cbn [spend1] in H; [discriminate|].
  destruct ((i =? id) && (a =? amt)) eqn:Hm.
  - inversion H; subst. apply andb_true_iff in Hm. destruct Hm as [_ Ha]. apply N.eqb_eq in Ha. subst.
    unfold btm_total. cbn [map snd]. rewrite sumN_cons. reflexivity.
  - destruct (spend1 r id amt) as [r'|] eqn:Hr; [|discriminate]. inversion H; subst.
    specialize (IH _ eq_refl). unfold btm_total in *. cbn [map snd]. rewrite !sumN_cons. lia.
Qed.

Lemma spend_all_total ins : forall u u',
  spend_all u ins = Some u' -> btm_total u = btm_total u' + sumN (map i_amt (filter i_btm ins)).
Proof.
  induction ins as [|i r IH]; intros u u' H; cbn [spend_all filter] in *.
  - inversion H; subst. unfold sumN; cbn [map fold_right]. lia.
  - destruct (i_btm i).
    + destruct (spend1 u (i_id i) (i_amt i)) as [u1|] eqn:H1; [|discriminate].
      apply spend1_total in H1. apply IH in H. cbn [map]. rewrite sumN_cons. lia.
    + apply IH. assumption.
Qed.

Lemma created_le t : btm_total (created t) <= sumN (btm_out t).
Proof.
  unfold created, btm_out, btm_total. rewrite map_map. cbn [snd].
  induction (t_outs t) as [|o l IH]; [reflexivity|]. cbn [filter].
  destruct (o_btm o); cbn [andb].
  - destruct (o_stored o && negb (o_amt o =? 0)); cbn [map]; rewrite ?sumN_cons; lia.
  - assumption.
Qed.

Definition mint (t : tx) : N := if t_cb t then sumN (btm_out t) else 0.

Lemma value_ok_facts t :
  value_ok t = true ->
  sumN (btm_out t) <= maxint64 /\
  tx_fee t + sumN (btm_out t) <= sumN (btm_in t) + mint t.
Proof.
  unfold value_ok, mint, tx_fee. intro H. apply andb_true_iff in H. destruct H as [H1 H2].
  apply N.leb_le in H1. apply N.leb_le in H2. pose proof maxint64_lt as Hm.
  rewrite !sum64_eq.
  destruct (t_cb t).
  - pose proof (w64_le (sumN (btm_out t))).
    assert (sumN (btm_out t) < two64) by lia.
    rewrite (w64_small (sumN (btm_out t))) in * by assumption.
    rewrite (w64_small (sumN (btm_in t))) by lia.
    split; [lia|]. destruct (N.ltb_spec (sumN (btm_out t)) (sumN (btm_in t))); lia.
  - rewrite N.add_0_l in *.
    rewrite (w64_small (sumN (btm_out t))) by lia.
    rewrite (w64_small (sumN (btm_in t))) by lia.
    split; [lia|]. destruct (N.ltb_spec (sumN (btm_out t)) (sumN (btm_in t))); lia.
Qed.

Lemma apply_tx_total u t u' :
  apply_tx u t = Some u' -> value_ok t = true ->
  btm_total u' + tx_fee t <= btm_total u + mint t.
Proof.
  unfold apply_tx. intros H Hv. destruct (spend_all u (t_ins t)) as [u1|] eqn:Hs; [|discriminate].
  inversion H; subst. apply spend_all_total in Hs. rewrite btm_total_app.
  pose proof (created_le t). destruct (value_ok_facts t Hv) as [_ Hf].
  unfold btm_in in Hf. lia.
Qed.

Lemma apply_txs_total txs : forall u u',
  apply_txs u txs = Some u' -> forallb tx_ok txs = true ->
  btm_total u' + sumN (map tx_fee txs) <= btm_total u + sumN (map mint txs).
Proof.
  induction txs as [|t r IH]; intros u u' H Hok; cbn [apply_txs forallb map] in *.
  - inversion H; subst. lia.
  - destruct (apply_tx u t) as [u1|] eqn:H1; [|discriminate].
    apply andb_true_iff in Hok. destruct Hok as [Ht Hr].
    unfold tx_ok in Ht. apply andb_true_iff in Ht. destruct Ht as [_ Hv].
    pose proof (apply_tx_total _ _ _ H1 Hv). specialize (IH _ _ H Hr).
    rewrite !sumN_cons. lia.
Qed.

Lemma plain_btm_out t : forallb plain (t_outs t) = true -> sumN (btm_out t) = out_total (t_outs t).
Proof.
  unfold btm_out, out_total. induction (t_outs t) as [|o l IH]; [reflexivity|].
  cbn [forallb filter]. intro H. apply andb_true_iff in H. destruct H as [Ho Hl].
  unfold plain in Ho. apply andb_true_iff in Ho. destruct Ho as [_ Ho]. rewrite Ho.
  cbn [map]. rewrite !sumN_cons, IH by assumption. reflexivity.
Qed.

Lemma mint_rest_zero r : forallb (fun t => negb (t_cb t)) r = true -> sumN (map mint r) = 0.
Proof.
  induction r as [|t r IH]; [reflexivity|]. cbn [forallb map]. intro H.
  apply andb_true_iff in H. destruct H as [Ht Hr]. rewrite sumN_cons, IH by assumption.
  unfold mint. destruct (t_cb t); [discriminate|reflexivity].
Qed.

(* ---- the chain ------------------------------------------------------------------------ *)

Section Chain.
  Variable subsidy : N -> N -> N.
  Variable extra_ok : state -> block -> bool.
  Variable E : N.
  Hypothesis HE : E <> 0.
  Hypothesis sub_pos : forall t h, 0 < subsidy t h.
  Hypothesis sub_le : forall t h, subsidy t h <= BlockReward.

  (* the proposer of a block: the control program of output 0 of its first transaction *)
  Definition proposer (b : block) : prog :=
    match first_outs (b_txs b) with o0 :: _ => o_prog o0 | [] => 0 end.

  Definition block_fees (b : block) : N := sumN (map tx_fee (b_txs b)).

  (* the subsidy of block b on the checkpoint c of its parent: the pledge rate is that of
     the tally after the block's own votes and vetoes *)
  Definition block_subsidy (c : cpt) (b : block) : N :=
    subsidy (total_votes (V.apply_votes
                            (c_votes (if b_height b mod E =? 1 then new_checkpoint c else c))
                            (map t_vote (b_txs b))))
            (b_height b).

  (* what the first transaction of the block pays; what the block mints *)
  Definition paid_out (b : block) : N := out_total (first_outs (b_txs b)).
  Definition minted (b : block) : N := sumN (map mint (b_txs b)).

  Lemma grow_rewards c b c' :
    grow subsidy E c b = Ok c' ->
    c_rewards c' =
    credit_map (proposer b) tx_fee (b_txs b) (block_subsidy c b)
               (if b_height b mod E =? 1 then [] else c_rewards c)
    /\ first_outs (b_txs b) <> [].
  Proof.
    unfold grow, increase, proposer, block_subsidy, credit_map, addfees.
    destruct (b_txs b) as [|t0 rest] eqn:Htx; [discriminate|]. cbn [first_outs].
    destruct (t_outs t0) as [|o0 outs] eqn:Ho; [discriminate|].
    intro H. inversion H; subst. cbn [c_rewards]. split; [|discriminate].
    destruct (b_height b mod E =? 1); reflexivity.
  Qed.

  (* ---- bookkeeping along a chain (ghost) ---- *)

  Record acct := {
    a_cur : credits;  (* (proposer, fees + subsidy) of the blocks of the tip's epoch, oldest first *)
    a_curf : N;       (* their fees *)
    a_curs : N;       (* their subsidies *)
    a_duef : N;       (* fees of the blocks of the epochs already paid out *)
    a_dues : N;       (* subsidies of the blocks of the epochs already paid out *)
    a_fees : N;       (* fees of all blocks *)
    a_paid : N;       (* outputs of the first transactions of all blocks *)
    a_mint : N;       (* coinbase sources of all blocks *)
    a_n : N }.        (* number of blocks *)

  Definition acct0 : acct :=
    {| a_cur := []; a_curf := 0; a_curs := 0; a_duef := 0; a_dues := 0;
       a_fees := 0; a_paid := 0; a_mint := 0; a_n := 0 |}.

  Definition acct_step (c : cpt) (a : acct) (b : block) : acct :=
    let f := block_fees b in
    let s := block_subsidy c b in
    if b_height b mod E =? 1 then
      {| a_cur := [(proposer b, f + s)]; a_curf := f; a_curs := s;
         a_duef := a_duef a + a_curf a; a_dues := a_dues a + a_curs a;
         a_fees := a_fees a + f; a_paid := a_paid a + paid_out b;
         a_mint := a_mint a + minted b; a_n := a_n a + 1 |}
    else
      {| a_cur := a_cur a ++ [(proposer b, f + s)]; a_curf := a_curf a + f; a_curs := a_curs a + s;
         a_duef := a_duef a; a_dues := a_dues a;
         a_fees := a_fees a + f; a_paid := a_paid a + paid_out b;
         a_mint := a_mint a + minted b; a_n := a_n a + 1 |}.

  Fixpoint account (st : state) (a : acct) (bs : list block) : acct :=
    match bs with
    | [] => a
    | b :: r =>
        match process_block subsidy extra_ok E st b with
        | Ok st' => account st' (acct_step (s_cp st) a b) r
        | _ => a
        end
    end.

  Record inv (u0 : N) (st : state) (a : acct) : Prop := {
    i_tab : tab_ok (c_rewards (s_cp st)) (a_cur a);
    i_cur : cr_total (a_cur a) = a_curf a + a_curs a;
    i_paid : a_paid a = a_duef a + a_dues a;
    i_mint : a_mint a <= a_paid a;
    i_utxo : btm_total (s_utxo st) + a_fees a <= u0 + a_mint a;
    i_fees : a_fees a = a_duef a + a_curf a;
    i_subs : a_dues a + a_curs a <= a_n a * BlockReward }.

  Lemma inv0 st : c_rewards (s_cp st) = [] -> inv (btm_total (s_utxo st)) st acct0.
  Proof.
    intro H. constructor; cbn [acct0 a_cur a_curf a_curs a_duef a_dues a_fees a_paid a_mint a_n];
      try reflexivity; try lia.
    rewrite H. apply tab_ok_nil.
  Qed.

  (* what acceptance of a block gives *)
  Lemma process_block_facts st b st' :
    process_block subsidy extra_ok E st b = Ok st' ->
    b_height b = s_height st + 1 /\ s_height st' = b_height b /\
    forallb tx_ok (b_txs b) = true /\ cb_position_ok (b_txs b) = true /\
    check_coinbase_amount E (b_height b) (b_txs b) (c_rewards (s_cp st)) = Ok tt /\
    grow subsidy E (s_cp st) b = Ok (s_cp st') /\
    apply_txs (s_utxo st) (b_txs b) = Some (s_utxo st').
  Proof.
    unfold process_block. destruct (N.eqb_spec E 0); [discriminate|].
    destruct (N.eqb_spec (b_height b) (s_height st + 1)) as [Hh|]; [|discriminate]. cbn [negb].
    destruct (extra_ok st b); [|discriminate]. cbn [negb].
    destruct (forallb tx_ok (b_txs b) && cb_position_ok (b_txs b)) eqn:Hok; [|discriminate]. cbn [negb].
    apply andb_true_iff in Hok. destruct Hok as [Hok Hpos].
    destruct (check_coinbase_amount E (b_height b) (b_txs b) (c_rewards (s_cp st))) as [[]|e|p] eqn:Hc;
      [|discriminate|discriminate].
    destruct (grow subsidy E (s_cp st) b) as [cp'|e|p] eqn:Hg; [|discriminate|discriminate].
    destruct (apply_txs (s_utxo st) (b_txs b)) as [u'|] eqn:Hu; [|discriminate].
    intro H. inversion H; subst. cbn [s_height s_cp s_utxo]. auto 10.
  Qed.

  Lemma check_ok_plain h txs rw :
    check_coinbase_amount E h txs rw = Ok tt -> forallb plain (first_outs txs) = true.
  Proof.
    unfold check_coinbase_amount. destruct txs as [|t0 rest]; [discriminate|]. cbn [first_outs].
    destruct (forallb plain (t_outs t0)); [reflexivity|discriminate].
  Qed.

  Lemma minted_le_paid b :
    forallb tx_ok (b_txs b) = true -> cb_position_ok (b_txs b) = true ->
    forallb plain (first_outs (b_txs b)) = true ->
    minted b <= paid_out b /\ paid_out b <= maxint64.
  Proof.
    unfold minted, paid_out. destruct (b_txs b) as [|t0 rest]; cbn [first_outs forallb map cb_position_ok].
    - intros _ _ _. unfold out_total, sumN; cbn [map fold_right]. pose proof maxint64_lt. lia.
    - intros Hok Hpos Hpl. apply andb_true_iff in Hok. destruct Hok as [Ht _].
      unfold tx_ok in Ht. apply andb_true_iff in Ht. destruct Ht as [_ Hv].
      destruct (value_ok_facts t0 Hv) as [Hmax _].
      rewrite sumN_cons, (mint_rest_zero rest Hpos), N.add_0_r.
      rewrite <- (plain_btm_out t0 Hpl). unfold mint. destruct (t_cb t0); lia.
  Qed.

  Lemma inv_step u0 st a b st' :
    inv u0 st a -> u0 + (a_n a + 1) * BlockReward < two64 ->
    process_block subsidy extra_ok E st b = Ok st' ->
    inv u0 st' (acct_step (s_cp st) a b).
  Proof.
    intros [Htab Hcur Hpaid Hmint Hutxo Hfees Hsubs] Hbound Hp.
    destruct (process_block_facts _ _ _ Hp) as [Hh [Hh' [Hok [Hpos [Hc [Hg Hu]]]]]].
    pose proof (check_ok_plain _ _ _ Hc) as Hpl.
    destruct (minted_le_paid b Hok Hpos Hpl) as [Hml Hpmax].
    pose proof (apply_txs_total _ _ _ Hu Hok) as Hled.
    fold (block_fees b) in Hled. fold (minted b) in Hled.
    destruct (grow_rewards _ _ _ Hg) as [Hrw Hne].
    pose proof (sub_pos (total_votes (V.apply_votes
                 (c_votes (if b_height b mod E =? 1 then new_checkpoint (s_cp st) else s_cp st))
                 (map t_vote (b_txs b)))) (b_height b)) as Hsp.
    pose proof (sub_le (total_votes (V.apply_votes
                 (c_votes (if b_height b mod E =? 1 then new_checkpoint (s_cp st) else s_cp st))
                 (map t_vote (b_txs b)))) (b_height b)) as Hsl.
    fold (block_subsidy (s_cp st) b) in Hsp, Hsl.
    pose proof maxint64_lt as Hmax.
    unfold acct_step. fold (block_fees b) in Hrw |- *.
    destruct (N.eqb_spec (b_height b mod E) 1) as [Hfirst|Hother].
    - (* first block of an epoch: the previous table is paid *)
      assert (Hpo : paid_out b = cr_total (a_cur a)).
      { pose proof (tab_ok_wf _ _ Htab) as Hwf.
        assert (Hs : out_total (first_outs (b_txs b)) < two64) by (unfold paid_out in Hpmax; lia).
        destruct (check_ok_nonempty _ _ _ _ Hc) as [t0 [rest Htx]].
        unfold check_coinbase_amount in Hc. rewrite Htx in Hc, Hpl, Hs. cbn [first_outs] in Hpl, Hs.
        rewrite Hpl in Hc. cbn [negb] in Hc. destruct (N.eqb_spec E 0); [contradiction|].
        rewrite Hfirst in Hc. cbn [N.eqb Pos.eqb negb] in Hc.
        destruct (checkout_fwd _ _ Hwf Hs Hc) as [_ Ht].
        unfold paid_out. rewrite Htx. cbn [first_outs]. rewrite Ht. apply (to_sum _ _ Htab). }
      constructor; cbn [a_cur a_curf a_curs a_duef a_dues a_fees a_paid a_mint a_n]; try lia.
      + rewrite Hrw. unfold block_fees.
        change [(proposer b, sumN (map tx_fee (b_txs b)) + block_subsidy (s_cp st) b)]
          with ([] ++ [(proposer b, sumN (map tx_fee (b_txs b)) + block_subsidy (s_cp st) b)]).
        apply tab_ok_step; [apply tab_ok_nil| |lia].
        unfold cr_total at 1, sumN at 1. cbn [map fold_right]. unfold block_fees in *. lia.
      + unfold cr_total, sumN. cbn [map snd fold_right]. lia.
    - (* any other block pays nothing *)
      assert (Hpo : paid_out b = 0).
      { apply (check_other_iff E (b_height b) (b_txs b) _ HE Hother) in Hc.
        destruct Hc as [t0 [rest [o [Htx [Ho [_ Hz]]]]]].
        unfold paid_out. rewrite Htx. cbn [first_outs]. rewrite Ho.
        unfold out_total, sumN. cbn [map fold_right]. lia. }
      constructor; cbn [a_cur a_curf a_curs a_duef a_dues a_fees a_paid a_mint a_n]; try lia.
      + rewrite Hrw. unfold block_fees. apply tab_ok_step; [assumption| |lia].
        unfold block_fees in *. lia.
      + rewrite cr_total_app. lia.
  Qed.

  Lemma acct_step_n c a b : a_n (acct_step c a b) = a_n a + 1.
  Proof. unfold acct_step. destruct (b_height b mod E =? 1); reflexivity. Qed.

  Lemma run_inv u0 bs : forall st a st',
    inv u0 st a -> u0 + (a_n a + N.of_nat (length bs)) * BlockReward < two64 ->
    run subsidy extra_ok E st bs = Ok st' ->
    inv u0 st' (account st a bs).
  Proof.
    induction bs as [|b r IH]; intros st a st' Hinv Hb Hrun; cbn [run account] in *.
    - inversion Hrun; subst. assumption.
    - destruct (process_block subsidy extra_ok E st b) as [st1|e|p] eqn:Hp; [|discriminate|discriminate].
      cbn [length] in Hb. rewrite Nat2N.inj_succ in Hb.
      apply (IH st1 _ st'); [| |assumption].
      + apply (inv_step u0 st a b st1); [assumption| |assumption]. nia.
      + rewrite acct_step_n. nia.
  Qed.

  (* the bookkeeping totals are plain sums over the blocks *)
  Lemma account_sums bs : forall st a st',
    run subsidy extra_ok E st bs = Ok st' ->
    a_fees (account st a bs) = a_fees a + sumN (map block_fees bs) /\
    a_paid (account st a bs) = a_paid a + sumN (map paid_out bs) /\
    a_mint (account st a bs) = a_mint a + sumN (map minted bs).
  Proof.
    induction bs as [|b r IH]; intros st a st' Hrun; cbn [run account map] in *.
    - unfold sumN; cbn [fold_right]. lia.
    - destruct (process_block subsidy extra_ok E st b) as [st1|e|p] eqn:Hp; [|discriminate|discriminate].
      destruct (IH st1 (acct_step (s_cp st) a b) st' Hrun) as [H1 [H2 H3]].
      rewrite H1, H2, H3, !sumN_cons. unfold acct_step.
      destruct (b_height b mod E =? 1); cbn [a_fees a_paid a_mint]; lia.
  Qed.

  (* no accepted or rejected block makes the node panic (BlocksOfEpoch <> 0) *)
  Lemma process_block_no_panic st b p : process_block subsidy extra_ok E st b <> Panic p.
  Proof.
    unfold process_block. destruct (N.eqb_spec E 0); [contradiction|].
    destruct (negb (b_height b =? s_height st + 1)); [discriminate|].
    destruct (negb (extra_ok st b)); [discriminate|].
    destruct (forallb tx_ok (b_txs b) && cb_position_ok (b_txs b)) eqn:Hok; [|discriminate]. cbn [negb].
    apply andb_true_iff in Hok. destruct Hok as [Hok _].
    destruct (check_coinbase_amount E (b_height b) (b_txs b) (c_rewards (s_cp st))) as [[]|e|q] eqn:Hc.
    - unfold grow, increase.
      destruct (check_ok_nonempty _ _ _ _ Hc) as [t0 [rest Htx]]. rewrite Htx in *.
      cbn [forallb] in Hok. apply andb_true_iff in Hok. destruct Hok as [Ht _].
      unfold tx_ok in Ht. apply andb_true_iff in Ht. destruct Ht as [Hn _].
      destruct (t_outs t0) as [|o0 outs]; [discriminate|].
      destruct (apply_txs (s_utxo st) (t0 :: rest)); discriminate.
    - discriminate.
    - exfalso. unfold check_coinbase_amount in Hc.
      destruct (b_txs b) as [|t0 rest]; [discriminate|].
      destruct (negb (forallb plain (t_outs t0))); [discriminate|].
      destruct (N.eqb_spec E 0); [contradiction|].
      destruct (negb (b_height b mod E =? 1)).
      + destruct (t_outs t0) as [|o [|o' l]]; try discriminate. destruct (o_amt o =? 0); discriminate.
      + unfold checkout_reward_coinbase in Hc.
        destruct (negb (Nat.eqb (length (out_map (t_outs t0))) (length (c_rewards (s_cp st))))); [discriminate|].
        match type of Hc with context [if ?c then _ else _] => destruct c end; discriminate.
  Qed.
End Chain.
