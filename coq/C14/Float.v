(* C14 — bit-exact executable model of validatorReward / pledgeRate
   (/repo/protocol/state/reward.go) with Flocq binary64 (IEEE754.BinarySingleNaN,
   precision 53, emax 1024, round to nearest even).  DEFINITIONS ONLY; used by the
   correspondence (Run.v) to compare the implementation's subsidy bit for bit.  The
   theorems of Props.v do not depend on this file: they hold for every subsidy
   function with 0 < subsidy <= BlockReward.

     totalSupply := c.Height*BlockReward/2 + InitBTMSupply          (uint64, Model.total_supply)
     pledgeRate  := float64(totalVotes) / float64(totalSupply)
     if pledgeRate <= 0.5 { return uint64((pledgeRate + 0.5) * float64(BlockReward)) }
     return BlockReward

   float64(x) of a uint64 rounds to nearest even; x/0 is +Inf (or NaN for 0/0) and both
   fail the comparison; uint64(f) truncates (f is finite, non-negative and below 2^30 here). *)
From Coq Require Import ZArith NArith Lia.
From Flocq Require Import Core.Zaux Core.FLX IEEE754.BinarySingleNaN.
From C14 Require Import Model.
Open Scope Z_scope.

Definition prec : Z := 53.
Definition emax : Z := 1024.
Lemma Hprec : Prec_gt_0 prec. Proof. unfold Prec_gt_0, prec. lia. Qed.
Lemma Hmax : Prec_lt_emax prec emax. Proof. unfold Prec_lt_emax, prec, emax. lia. Qed.

Definition f64 := binary_float prec emax.
Definition of_Z (z : Z) : f64 := @binary_normalize prec emax Hprec Hmax mode_NE z 0 false.
Definition fdiv : f64 -> f64 -> f64 := @Bdiv prec emax Hprec Hmax mode_NE.
Definition fadd : f64 -> f64 -> f64 := @Bplus prec emax Hprec Hmax mode_NE.
Definition fmul : f64 -> f64 -> f64 := @Bmult prec emax Hprec Hmax mode_NE.
Definition half : f64 := fdiv (of_Z 1) (of_Z 2).

(* uint64(x) for finite x: truncation toward zero *)
Definition trunc (x : f64) : Z :=
  match x with
  | B754_finite s m e _ =>
      let v := if 0 <=? e then Zpos m * 2 ^ e else Zpos m / 2 ^ (- e) in
      if s then - v else v
  | _ => 0
  end.

Definition reward (total supply : Z) : Z :=
  let rate := fdiv (of_Z total) (of_Z supply) in
  if Bleb rate half then trunc (fmul (fadd rate half) (of_Z (Z.of_N BlockReward)))
  else Z.of_N BlockReward.

Definition validator_reward (total h : N) : N :=
  Z.to_N (reward (Z.of_N total) (Z.of_N (total_supply h))).
