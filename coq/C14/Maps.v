(* C14 — lemmas about uint64 sums and the association-list maps of the model. *)
From Coq Require Import List NArith Bool Lia Permutation.
From C14 Require Import Model.
Import ListNotations.
Open Scope N_scope.

(* ---- uint64 ------------------------------------------------------------------ *)

Lemma two64_pos : two64 <> 0.
Proof. discriminate. Qed.

Lemma w64_small x : x < two64 -> w64 x = x.
Proof. intro; unfold w64; apply N.mod_small; assumption. Qed.

Lemma w64_lt x : w64 x < two64.
Proof. unfold w64; apply N.mod_lt, two64_pos. Qed.

Lemma w64_le x : w64 x <= x.
Proof. unfold w64; apply N.mod_le, two64_pos. Qed.

Lemma w64_add_l a b : w64 (w64 a + b) = w64 (a + b).
Proof. unfold w64; apply N.add_mod_idemp_l, two64_pos. Qed.

Lemma w64_idem a : w64 (w64 a) = w64 a.
Proof. unfold w64; apply N.mod_mod, two64_pos. Qed.

Global Opaque w64 two64 maxint64 BlockReward InitBTMSupply.

Lemma maxint64_lt : maxint64 < two64.
Proof. Transparent two64 maxint64. unfold maxint64, two64. lia. Opaque two64 maxint64. Qed.

(* ---- sums ---------------------------------------------------------------------- *)

Lemma sumN_app l1 l2 : sumN (l1 ++ l2) = sumN l1 + sumN l2.
Proof. induction l1; cbn [sumN fold_right app] in *; [reflexivity|]. unfold sumN in *; lia. Qed.

Lemma sumN_perm l1 l2 : Permutation l1 l2 -> sumN l1 = sumN l2.
Proof. induction 1; cbn [sumN fold_right] in *; unfold sumN in *; lia. Qed.

Lemma sumN_cons x l : sumN (x :: l) = x + sumN l.
Proof. reflexivity. Qed.

Lemma sumN_In_le x l : In x l -> x <= sumN l.
Proof.
  induction l as [|y l IH]; [intros []|]. rewrite sumN_cons. intros [->|H]; [lia|].
  specialize (IH H). lia.
Qed.

Lemma sum64_fold l a : fold_left (fun a x => w64 (a + x)) l (w64 a) = w64 (a + sumN l).
Proof.
  revert a. induction l as [|x l IH]; intro a; cbn [fold_left].
  - rewrite sumN_cons || idtac. unfold sumN; cbn [fold_right]. f_equal; lia.
  - rewrite w64_add_l, IH, sumN_cons. f_equal; lia.
Qed.

Lemma sum64_eq l : sum64 l = w64 (sumN l).
Proof.
  unfold sum64. replace 0 with (w64 0) at 1 by (apply w64_small; reflexivity).
  rewrite sum64_fold. reflexivity.
Qed.

(* ---- maps ---------------------------------------------------------------------- *)

Definition keys (m : rmap) : list prog := map fst m.
Definition rsum (m : rmap) : N := sumN (map snd m).

Lemma rget_radd p q v m :
  rget p (radd q v m) = if p =? q then Some (w64 (rget0 q m + v)) else rget p m.
Proof.
  unfold rget0. induction m as [|[k x] r IH]; cbn [radd rget].
  - destruct (N.eqb_spec p q); reflexivity.
  - destruct (N.eqb_spec q k) as [->|Hqk]; cbn [rget].
    + destruct (N.eqb_spec p k); reflexivity.
    + destruct (N.eqb_spec p k) as [->|Hpk].
      * destruct (N.eqb_spec k q); [congruence|reflexivity].
      * rewrite IH. destruct (N.eqb_spec p q); reflexivity.
Qed.

Lemma rget0_radd p q v m :
  rget0 p (radd q v m) = if p =? q then w64 (rget0 q m + v) else rget0 p m.
Proof. unfold rget0 at 1. rewrite rget_radd. destruct (p =? q); reflexivity. Qed.

Lemma keys_radd k p v m : In k (keys (radd p v m)) <-> k = p \/ In k (keys m).
Proof.
  unfold keys. induction m as [|[q x] r IH]; cbn [radd map fst In].
  - intuition.
  - destruct (N.eqb_spec p q) as [->|Hpq]; cbn [map fst In]; intuition.
Qed.

Lemma NoDup_keys_radd p v m : NoDup (keys m) -> NoDup (keys (radd p v m)).
Proof.
  unfold keys. induction m as [|[q x] r IH]; cbn [radd map fst]; intro H.
  - constructor; [intros []|constructor].
  - destruct (N.eqb_spec p q) as [->|Hpq]; cbn [map fst]; [assumption|].
    inversion H as [|? ? Hn Hr]; subst. constructor; [|auto].
    intro Hin. apply (keys_radd q p v r) in Hin. destruct Hin; [congruence|contradiction].
Qed.

Lemma rget_In p m v : rget p m = Some v -> In p (keys m).
Proof.
  unfold keys. induction m as [|[q x] r IH]; cbn [rget map fst In]; [discriminate|].
  destruct (N.eqb_spec p q); [auto|]. intro; right; auto.
Qed.

Lemma rget_notin p m : ~ In p (keys m) -> rget p m = None.
Proof.
  unfold keys. induction m as [|[q x] r IH]; cbn [rget map fst In]; [reflexivity|].
  intro H. destruct (N.eqb_spec p q); [subst; exfalso; auto|]. apply IH; intuition.
Qed.

Lemma rget0_notin p m : ~ In p (keys m) -> rget0 p m = 0.
Proof. intro H. unfold rget0. rewrite rget_notin; auto. Qed.

Lemma rget0_nonzero_In p m : rget0 p m <> 0 -> In p (keys m).
Proof.
  intro H. destruct (in_dec N.eq_dec p (keys m)); [assumption|].
  exfalso. apply H. apply rget0_notin. assumption.
Qed.

Lemma rget_In_pair k v m : NoDup (keys m) -> In (k, v) m -> rget k m = Some v.
Proof.
  unfold keys. induction m as [|[q x] r IH]; cbn [rget map fst In]; [intros _ []|].
  intros Hnd [Heq|Hin].
  - inversion Heq; subst. rewrite N.eqb_refl. reflexivity.
  - inversion Hnd as [|? ? Hn Hr]; subst.
    destruct (N.eqb_spec k q) as [->|]; [|auto].
    exfalso. apply Hn. change q with (fst (q, v)). apply in_map. assumption.
Qed.

Lemma rsum_keys m : NoDup (keys m) -> sumN (map (fun k => rget0 k m) (keys m)) = rsum m.
Proof.
  unfold keys, rsum. induction m as [|[q x] r IH]; [reflexivity|].
  cbn [map fst snd]. intro H. inversion H as [|? ? Hn Hr]; subst.
  rewrite !sumN_cons. unfold rget0 at 1; cbn [rget]. rewrite N.eqb_refl. f_equal.
  rewrite <- IH by assumption. f_equal. apply map_ext_in. intros k Hk.
  unfold rget0; cbn [rget]. destruct (N.eqb_spec k q); [subst; contradiction|reflexivity].
Qed.

Lemma rsum_radd p v m : rsum m + v < two64 -> rsum (radd p v m) = rsum m + v.
Proof.
  unfold rsum. induction m as [|[q x] r IH]; cbn [radd map snd]; intro H.
  - unfold sumN in *. cbn [fold_right map snd] in *. rewrite w64_small by lia. lia.
  - rewrite sumN_cons in H. destruct (N.eqb_spec p q) as [->|Hpq]; cbn [map snd]; rewrite !sumN_cons.
    + rewrite w64_small by lia. lia.
    + rewrite IH by lia. lia.
Qed.

Lemma rget0_le_rsum p m : rget0 p m <= rsum m.
Proof.
  unfold rget0, rsum. induction m as [|[q x] r IH]; cbn [rget map snd]; [reflexivity|].
  rewrite sumN_cons. destruct (p =? q); lia.
Qed.

(* values stored by [radd] are uint64 *)
Definition small (m : rmap) : Prop := forall p, rget0 p m < two64.

Lemma small_nil : small [].
Proof. intro p. unfold rget0; cbn [rget]. pose proof maxint64_lt. lia. Qed.

Lemma small_radd p v m : small m -> small (radd p v m).
Proof. intros H q. rewrite rget0_radd. destruct (q =? p); [apply w64_lt|apply H]. Qed.
