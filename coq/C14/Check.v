(* C14 — what checkCoinbaseAmount / checkoutRewardCoinbase accept, and that the
   proposer's createCoinbaseTx passes for every map iteration order. *)
From Coq Require Import List NArith Bool Lia Permutation PeanoNat.
From Verif Require Import Outcome.
From C14 Require Import Model Maps.
Import ListNotations.
Open Scope N_scope.

(* ---- payout described on the outputs -------------------------------------------- *)

(* the outputs that count: a zero first output is skipped *)
Definition pay_outs (outs : list out) : list out :=
  match outs with
  | [] => []
  | o0 :: r => if o_amt o0 =? 0 then r else outs
  end.

(* exact amount paid to program p *)
Definition paid_to (p : prog) (outs : list out) : N :=
  sumN (map o_amt (filter (fun o => o_prog o =? p) outs)).

Definition out_total (outs : list out) : N := sumN (map o_amt outs).

Lemma out_map_fold outs :
  out_map outs = fold_left (fun m o => radd (o_prog o) (o_amt o) m) (pay_outs outs) [].
Proof. destruct outs as [|o0 r]; reflexivity. Qed.

Lemma out_total_pay outs : out_total (pay_outs outs) = out_total outs.
Proof.
  destruct outs as [|o0 r]; [reflexivity|]. cbn [pay_outs].
  destruct (N.eqb_spec (o_amt o0) 0) as [H|H]; [|reflexivity].
  unfold out_total. cbn [map]. rewrite sumN_cons, H. reflexivity.
Qed.

Lemma paid_to_cons p o l :
  paid_to p (o :: l) = (if o_prog o =? p then o_amt o else 0) + paid_to p l.
Proof.
  unfold paid_to. cbn [filter]. destruct (o_prog o =? p); cbn [map]; [rewrite sumN_cons|]; lia.
Qed.

Lemma paid_to_le p l : paid_to p l <= out_total l.
Proof.
  induction l as [|o l IH]; [reflexivity|]. rewrite paid_to_cons.
  unfold out_total in *. cbn [map]. rewrite sumN_cons. destruct (o_prog o =? p); lia.
Qed.

Lemma paid_to_notin p l : ~ In p (map o_prog l) -> paid_to p l = 0.
Proof.
  induction l as [|o l IH]; [reflexivity|]. cbn [map In]. intro H. rewrite paid_to_cons.
  destruct (N.eqb_spec (o_prog o) p); [exfalso; auto|]. rewrite IH; auto.
Qed.

(* ---- the map built by the loop ---------------------------------------------------- *)

Definition addouts (l : list out) (m : rmap) : rmap :=
  fold_left (fun m o => radd (o_prog o) (o_amt o) m) l m.

Lemma addouts_get l : forall m p,
  w64 (rget0 p (addouts l m)) = w64 (rget0 p m + paid_to p l).
Proof.
  unfold addouts. induction l as [|o l IH]; intros m p; cbn [fold_left].
  - unfold paid_to; cbn. f_equal; lia.
  - rewrite IH, rget0_radd, paid_to_cons. rewrite (N.eqb_sym p).
    destruct (N.eqb_spec (o_prog o) p) as [->|Hn].
    + rewrite w64_add_l. f_equal; lia.
    + f_equal; lia.
Qed.

Lemma addouts_small l : forall m, small m -> small (addouts l m).
Proof.
  unfold addouts. induction l as [|o l IH]; intros m H; cbn [fold_left]; [assumption|].
  apply IH, small_radd, H.
Qed.

Lemma addouts_keys l : forall m k,
  In k (keys (addouts l m)) <-> In k (keys m) \/ In k (map o_prog l).
Proof.
  unfold addouts. induction l as [|o l IH]; intros m k; cbn [fold_left map In].
  - intuition.
  - rewrite IH, keys_radd. intuition.
Qed.

Lemma addouts_nodup l : forall m, NoDup (keys m) -> NoDup (keys (addouts l m)).
Proof.
  unfold addouts. induction l as [|o l IH]; intros m H; cbn [fold_left]; [assumption|].
  apply IH, NoDup_keys_radd, H.
Qed.

Lemma addouts_rsum l : forall m,
  rsum m + out_total l < two64 -> rsum (addouts l m) = rsum m + out_total l.
Proof.
  unfold addouts, out_total. induction l as [|o l IH]; intros m H; cbn [fold_left map].
  - unfold sumN; cbn. lia.
  - cbn [map] in H. rewrite sumN_cons in *. rewrite IH; rewrite rsum_radd; lia.
Qed.

(* the map of checkoutRewardCoinbase, when the amounts do not wrap *)
Lemma out_map_get outs p :
  out_total outs < two64 -> rget0 p (out_map outs) = paid_to p (pay_outs outs).
Proof.
  intro H. rewrite out_map_fold.
  pose proof (addouts_get (pay_outs outs) [] p) as G.
  assert (S : small (addouts (pay_outs outs) [])) by (apply addouts_small, small_nil).
  rewrite w64_small in G by apply S.
  fold (addouts (pay_outs outs) []). rewrite G.
  replace (rget0 p []) with 0 by reflexivity. rewrite N.add_0_l. apply w64_small.
  pose proof (paid_to_le p (pay_outs outs)). rewrite out_total_pay in *. lia.
Qed.

Lemma out_map_keys outs k : In k (keys (out_map outs)) <-> In k (map o_prog (pay_outs outs)).
Proof.
  rewrite out_map_fold. fold (addouts (pay_outs outs) []). rewrite addouts_keys.
  cbn [keys map In]. intuition.
Qed.

Lemma out_map_nodup outs : NoDup (keys (out_map outs)).
Proof. rewrite out_map_fold. apply addouts_nodup. constructor. Qed.

Lemma out_map_rsum outs : out_total outs < two64 -> rsum (out_map outs) = out_total outs.
Proof.
  intro H. rewrite out_map_fold. fold (addouts (pay_outs outs) []).
  rewrite addouts_rsum; rewrite out_total_pay; unfold rsum; cbn; lia.
Qed.

(* ---- checkoutRewardCoinbase --------------------------------------------------------- *)

(* a well-formed reward table: a Go map (distinct keys) without zero entries *)
Definition table_wf (rw : rmap) : Prop :=
  NoDup (keys rw) /\ forall k v, In (k, v) rw -> v <> 0.

Definition exact_outs (outs : list out) (rw : rmap) : Prop :=
  (forall p, paid_to p (pay_outs outs) = rget0 p rw) /\
  (forall o, In o (pay_outs outs) -> In (o_prog o) (keys rw)).

Lemma checkout_unfold outs rw :
  checkout_reward_coinbase outs rw = Ok tt <->
  length (out_map outs) = length rw /\
  forall k v, In (k, v) rw -> rget0 k (out_map outs) = v.
Proof.
  unfold checkout_reward_coinbase.
  destruct (Nat.eqb_spec (length (out_map outs)) (length rw)) as [Hl|Hl]; cbn [negb].
  - destruct (forallb (fun e => rget0 (fst e) (out_map outs) =? snd e) rw) eqn:Hf.
    + split; [|reflexivity]. intros _. split; [assumption|]. intros k v Hin.
      rewrite forallb_forall in Hf. apply Hf in Hin. cbn [fst snd] in Hin.
      apply N.eqb_eq; assumption.
    + split; [discriminate|]. intros [_ H]. exfalso.
      assert (forallb (fun e => rget0 (fst e) (out_map outs) =? snd e) rw = true); [|congruence].
      apply forallb_forall. intros [k v] Hin. cbn [fst snd]. apply N.eqb_eq, H, Hin.
  - split; [discriminate|]. intros [H _]. contradiction.
Qed.

Lemma In_keys_pair k (m : rmap) : In k (keys m) -> exists v, In (k, v) m.
Proof.
  unfold keys. rewrite in_map_iff. intros [[k' v] [<- H]]. exists v. assumption.
Qed.

Lemma checkout_fwd outs rw :
  table_wf rw -> out_total outs < two64 ->
  checkout_reward_coinbase outs rw = Ok tt -> exact_outs outs rw /\ out_total outs = rsum rw.
Proof.
  intros [Hnd Hnz] Hsmall Hc. apply checkout_unfold in Hc. destruct Hc as [Hlen Hval].
  set (m := out_map outs) in *.
  assert (Hincl : incl (keys rw) (keys m)).
  { intros k Hk. apply In_keys_pair in Hk. destruct Hk as [v Hin].
    apply rget0_nonzero_In. rewrite (Hval _ _ Hin). eapply Hnz; eassumption. }
  assert (Hlen' : (length (keys m) <= length (keys rw))%nat).
  { unfold keys. rewrite !map_length, Hlen. apply le_n. }
  assert (Hincl' : incl (keys m) (keys rw)) by (apply NoDup_length_incl; assumption).
  assert (Hget : forall p, rget0 p m = rget0 p rw).
  { intro p. destruct (in_dec N.eq_dec p (keys rw)) as [Hin|Hnin].
    - apply In_keys_pair in Hin. destruct Hin as [v Hin].
      rewrite (Hval _ _ Hin). unfold rget0. rewrite (rget_In_pair _ _ _ Hnd Hin). reflexivity.
    - rewrite (rget0_notin p rw Hnin). apply rget0_notin. intro Hk. apply Hnin, Hincl', Hk. }
  split; [split|].
  - intro p. rewrite <- Hget. symmetry. apply out_map_get. assumption.
  - intros o Ho. apply Hincl'. apply out_map_keys. apply in_map. assumption.
  - rewrite <- (out_map_rsum outs Hsmall). fold m.
    rewrite <- (rsum_keys m) by apply out_map_nodup.
    rewrite <- (rsum_keys rw) by assumption.
    assert (HP : Permutation (keys rw) (keys m)) by (apply NoDup_Permutation_bis; assumption).
    rewrite (sumN_perm _ _ (Permutation_map (fun k => rget0 k m) (Permutation_sym HP))).
    f_equal. apply map_ext. intro k. apply Hget.
Qed.

Lemma paid_to_nonzero_In p l : paid_to p l <> 0 -> In p (map o_prog l).
Proof.
  intro H. destruct (in_dec N.eq_dec p (map o_prog l)); [assumption|].
  exfalso. apply H, paid_to_notin. assumption.
Qed.

Lemma checkout_bwd outs rw :
  table_wf rw -> out_total outs < two64 ->
  exact_outs outs rw -> checkout_reward_coinbase outs rw = Ok tt.
Proof.
  intros [Hnd Hnz] Hsmall [Hpaid Hprog]. apply checkout_unfold.
  set (m := out_map outs).
  assert (Hval : forall k v, In (k, v) rw -> rget0 k m = v).
  { intros k v Hin. unfold m. rewrite out_map_get by assumption. rewrite Hpaid.
    unfold rget0. rewrite (rget_In_pair _ _ _ Hnd Hin). reflexivity. }
  split; [|assumption].
  assert (H1 : incl (keys m) (keys rw)).
  { intros k Hk. apply out_map_keys in Hk. apply in_map_iff in Hk.
    destruct Hk as [o [<- Ho]]. apply Hprog, Ho. }
  assert (H2 : incl (keys rw) (keys m)).
  { intros k Hk. apply In_keys_pair in Hk. destruct Hk as [v Hin].
    apply rget0_nonzero_In. rewrite (Hval _ _ Hin). eapply Hnz; eassumption. }
  pose proof (NoDup_incl_length (out_map_nodup outs) H1) as L1.
  pose proof (NoDup_incl_length Hnd H2) as L2.
  unfold keys in L1, L2. rewrite !map_length in L1, L2. fold m in L1. lia.
Qed.

Theorem checkout_iff outs rw :
  table_wf rw -> out_total outs < two64 ->
  (checkout_reward_coinbase outs rw = Ok tt <-> exact_outs outs rw).
Proof.
  intros Hwf Hs. split.
  - intro H. apply (checkout_fwd outs rw Hwf Hs H).
  - apply checkout_bwd; assumption.
Qed.

(* ---- checkCoinbaseAmount ---------------------------------------------------------- *)

(* first block of an epoch: the first transaction pays exactly the table *)
Definition exact_payout (txs : list tx) (rw : rmap) : Prop :=
  exists t0 rest, txs = t0 :: rest /\ forallb plain (t_outs t0) = true /\ exact_outs (t_outs t0) rw.

(* every other block: a single BTM output of amount zero *)
Definition zero_payout (txs : list tx) : Prop :=
  exists t0 rest o, txs = t0 :: rest /\ t_outs t0 = [o] /\ plain o = true /\ o_amt o = 0.

Definition first_outs (txs : list tx) : list out :=
  match txs with t0 :: _ => t_outs t0 | [] => [] end.

Theorem check_first_iff E h txs rw :
  E <> 0 -> h mod E = 1 -> table_wf rw -> out_total (first_outs txs) < two64 ->
  (check_coinbase_amount E h txs rw = Ok tt <-> exact_payout txs rw).
Proof.
  intros HE Hh Hwf Hs. unfold check_coinbase_amount, exact_payout.
  destruct txs as [|t0 rest].
  - split; [discriminate|]. intros [? [? [H _]]]. discriminate.
  - cbn [first_outs] in Hs.
    destruct (forallb plain (t_outs t0)) eqn:Hp; cbn [negb].
    + destruct (N.eqb_spec E 0); [contradiction|].
      rewrite Hh. cbn [N.eqb Pos.eqb negb].
      rewrite (checkout_iff _ _ Hwf Hs). split.
      * intro H. exists t0, rest. auto.
      * intros [t [r [Heq [_ H]]]]. inversion Heq; subst. assumption.
    + split; [discriminate|]. intros [t [r [Heq [H _]]]]. inversion Heq; subst. congruence.
Qed.

Theorem check_other_iff E h txs rw :
  E <> 0 -> h mod E <> 1 ->
  (check_coinbase_amount E h txs rw = Ok tt <-> zero_payout txs).
Proof.
  intros HE Hh. unfold check_coinbase_amount, zero_payout.
  destruct txs as [|t0 rest].
  - split; [discriminate|]. intros [? [? [? [H _]]]]. discriminate.
  - destruct (N.eqb_spec E 0); [contradiction|].
    destruct (N.eqb_spec (h mod E) 1); [contradiction|]. cbn [negb].
    destruct (t_outs t0) as [|o [|o' l]] eqn:Ho.
    + cbn [forallb negb]. split; [discriminate|].
      intros [t [r [o [Heq [H _]]]]]. inversion Heq; subst. congruence.
    + cbn [forallb]. rewrite andb_true_r.
      destruct (plain o) eqn:Hp; cbn [negb].
      * destruct (N.eqb_spec (o_amt o) 0) as [Hz|Hz].
        -- split; [|reflexivity]. intros _. exists t0, rest, o. auto.
        -- split; [discriminate|]. intros [t [r [o1 [Heq [H1 [_ H2]]]]]].
           inversion Heq; subst. rewrite Ho in H1. inversion H1; subst. contradiction.
      * split; [discriminate|]. intros [t [r [o1 [Heq [H1 [H2 _]]]]]].
        inversion Heq; subst. rewrite Ho in H1. inversion H1; subst. congruence.
    + destruct (forallb plain (o :: o' :: l)); cbn [negb]; (split; [discriminate|]);
        intros [t [r [o1 [Heq [H1 _]]]]]; inversion Heq; subst; rewrite Ho in H1; discriminate.
Qed.

(* an accepted block never makes Increase panic, and tells how much its first transaction pays *)
Lemma check_ok_nonempty E h txs rw :
  check_coinbase_amount E h txs rw = Ok tt -> exists t0 rest, txs = t0 :: rest.
Proof. destruct txs as [|t0 rest]; [discriminate|]. eauto. Qed.

(* ---- createCoinbaseTx ---------------------------------------------------------------- *)

Definition cb_tx (outs : list out) : tx :=
  {| t_cb := true; t_ins := []; t_outs := outs; t_vote := {| V.tx_ins := []; V.tx_outs := [] |} |}.

Lemma plain_mk p a : plain (mk_out p a) = true.
Proof. reflexivity. Qed.

Lemma fold_script_notin script (iter : rmap) a :
  ~ In script (keys iter) ->
  fold_left (fun a e => if fst e =? script then snd e else a) iter a = a.
Proof.
  revert a. induction iter as [|[k v] r IH]; intros a H; cbn [fold_left fst snd]; [reflexivity|].
  cbn [keys map fst In] in H. destruct (N.eqb_spec k script); [exfalso; auto|]. apply IH. intuition.
Qed.

Lemma fold_script_get script (iter : rmap) a :
  NoDup (keys iter) ->
  fold_left (fun a e => if fst e =? script then snd e else a) iter a =
  match rget script iter with Some v => v | None => a end.
Proof.
  revert a. induction iter as [|[k v] r IH]; intros a H; cbn [fold_left fst snd rget]; [reflexivity|].
  inversion H as [|? ? Hn Hr]; subst. rewrite (N.eqb_sym script k).
  destruct (N.eqb_spec k script) as [->|Hne].
  - rewrite fold_script_notin by assumption. reflexivity.
  - apply IH; assumption.
Qed.

Lemma paid_to_map_mk p (l : rmap) :
  paid_to p (map (fun e => mk_out (fst e) (snd e)) l) =
  sumN (map snd (filter (fun e => fst e =? p) l)).
Proof.
  induction l as [|[k v] r IH]; [reflexivity|]. cbn [map fst snd filter].
  rewrite paid_to_cons. cbn [mk_out o_prog o_amt].
  destruct (k =? p); cbn [map snd]; [rewrite sumN_cons|]; rewrite IH; lia.
Qed.

Lemma sum_filter_key p (l : rmap) :
  NoDup (keys l) -> sumN (map snd (filter (fun e => fst e =? p) l)) = rget0 p l.
Proof.
  unfold rget0. induction l as [|[k v] r IH]; [reflexivity|]. cbn [filter fst rget keys map].
  intro H. inversion H as [|? ? Hn Hr]; subst. rewrite (N.eqb_sym p k).
  destruct (N.eqb_spec k p) as [->|Hne].
  - cbn [map snd]. rewrite sumN_cons. fold (keys r) in *. rewrite IH by assumption.
    rewrite rget_notin by assumption. lia.
  - apply IH; assumption.
Qed.

Lemma perm_keys (a b : rmap) : Permutation a b -> Permutation (keys a) (keys b).
Proof. apply Permutation_map. Qed.

Lemma perm_rget0 (a b : rmap) p :
  NoDup (keys a) -> Permutation a b -> rget0 p a = rget0 p b.
Proof.
  intros Hnd HP.
  assert (Hnd' : NoDup (keys b)) by (eapply Permutation_NoDup; [apply perm_keys; eassumption|assumption]).
  unfold rget0. destruct (rget p a) as [v|] eqn:Ha.
  - assert (In (p, v) a).
    { clear - Ha. induction a as [|[k x] r IH]; cbn [rget] in Ha; [discriminate|].
      destruct (N.eqb_spec p k) as [->|]; [inversion Ha; left; reflexivity|right; auto]. }
    rewrite (rget_In_pair p v b Hnd'); [reflexivity|]. eapply Permutation_in; eassumption.
  - destruct (rget p b) as [w|] eqn:Hb; [|reflexivity]. exfalso.
    apply rget_In in Hb. apply (Permutation_in _ (Permutation_sym (perm_keys _ _ HP))) in Hb.
    destruct (In_keys_pair _ _ Hb) as [x Hx]. rewrite (rget_In_pair _ _ _ Hnd Hx) in Ha. discriminate.
Qed.

Lemma filter_others_sum p script (iter : rmap) :
  sumN (map snd (filter (fun e => fst e =? p) (filter (fun e => negb (fst e =? script)) iter))) =
  if p =? script then 0 else sumN (map snd (filter (fun e => fst e =? p) iter)).
Proof.
  induction iter as [|[k v] r IH]; cbn [filter fst].
  - destruct (p =? script); reflexivity.
  - destruct (N.eqb_spec k script) as [Hks|Hks]; cbn [negb filter fst].
    + destruct (N.eqb_spec k p) as [Hkp|Hkp].
      * destruct (N.eqb_spec p script) as [Hps|Hps]; [exact IH|congruence].
      * exact IH.
    + destruct (N.eqb_spec k p) as [Hkp|Hkp]; cbn [map snd].
      * destruct (N.eqb_spec p script) as [Hps|Hps]; [congruence|].
        rewrite !sumN_cons. f_equal. exact IH.
      * exact IH.
Qed.

(* the output list of createCoinbaseTx pays exactly the table, whatever the order of [range] *)
Lemma create_exact script (rw iter : rmap) :
  table_wf rw -> Permutation iter rw ->
  exact_outs (mk_out script (fold_left (fun a e => if fst e =? script then snd e else a) iter 0)
                :: map (fun e => mk_out (fst e) (snd e))
                       (filter (fun e => negb (fst e =? script)) iter)) rw.
Proof.
  intros [Hnd Hnz] HP.
  assert (Hndi : NoDup (keys iter)).
  { eapply Permutation_NoDup; [apply Permutation_sym, perm_keys; eassumption|assumption]. }
  rewrite fold_script_get by assumption.
  set (others := filter (fun e => negb (fst e =? script)) iter).
  assert (Hoth : forall p, paid_to p (map (fun e => mk_out (fst e) (snd e)) others) =
                           if p =? script then 0 else rget0 p rw).
  { intro p. rewrite paid_to_map_mk. unfold others.
    rewrite <- (perm_rget0 iter rw p Hndi HP).
    rewrite <- (sum_filter_key p iter Hndi).
    apply filter_others_sum. }
  assert (Hoprog : forall o, In o (map (fun e => mk_out (fst e) (snd e)) others) ->
                             In (o_prog o) (keys rw)).
  { intros o Ho. apply in_map_iff in Ho. destruct Ho as [[k v] [<- Hin]].
    cbn [mk_out o_prog fst]. unfold others in Hin. apply filter_In in Hin. destruct Hin as [Hin _].
    apply (Permutation_in _ (perm_keys _ _ HP)). change k with (fst (k, v)). apply in_map, Hin. }
  assert (Hscript : match rget script iter with Some v => v | None => 0 end = rget0 script rw).
  { rewrite <- (perm_rget0 iter rw script Hndi HP). reflexivity. }
  rewrite Hscript. unfold exact_outs, pay_outs. cbn [mk_out o_amt].
  destruct (N.eqb_spec (rget0 script rw) 0) as [Hz|Hz].
  - split.
    + intro p. rewrite Hoth. destruct (N.eqb_spec p script) as [->|]; [symmetry; assumption|reflexivity].
    + assumption.
  - split.
    + intro p. rewrite paid_to_cons. cbn [mk_out o_prog o_amt]. rewrite Hoth.
      rewrite (N.eqb_sym script p). destruct (N.eqb_spec p script) as [->|]; lia.
    + intros o [<-|Ho]; [|auto]. cbn [mk_out o_prog]. apply rget0_nonzero_In. assumption.
Qed.

Lemma create_total script (rw iter : rmap) :
  table_wf rw -> Permutation iter rw ->
  out_total (mk_out script (fold_left (fun a e => if fst e =? script then snd e else a) iter 0)
                :: map (fun e => mk_out (fst e) (snd e))
                       (filter (fun e => negb (fst e =? script)) iter)) = rsum rw.
Proof.
  intros [Hnd Hnz] HP.
  assert (Hndi : NoDup (keys iter)).
  { eapply Permutation_NoDup; [apply Permutation_sym, perm_keys; eassumption|assumption]. }
  rewrite fold_script_get by assumption.
  unfold rsum. rewrite <- (sumN_perm _ _ (Permutation_map snd HP)).
  unfold out_total. cbn [map mk_out o_amt]. rewrite sumN_cons.
  clear HP Hnd Hnz. induction iter as [|[k v] r IH]; [reflexivity|].
  inversion Hndi as [|? ? Hn Hr]; subst. cbn [rget filter fst map snd]. rewrite sumN_cons.
  rewrite (N.eqb_sym script k). destruct (N.eqb_spec k script) as [->|Hne]; cbn [negb].
  - specialize (IH Hr). rewrite rget_notin in IH by assumption. lia.
  - cbn [map mk_out o_amt fst snd]. rewrite sumN_cons. specialize (IH Hr). lia.
Qed.

Lemma forallb_plain_map (l : rmap) :
  forallb plain (map (fun e => mk_out (fst e) (snd e)) l) = true.
Proof. induction l; [reflexivity|]. cbn [map forallb]. rewrite plain_mk. assumption. Qed.

Theorem proposer_agrees E h script (rw iter : rmap) :
  E <> 0 -> table_wf rw -> rsum rw <= maxint64 -> (h = 1 -> rw = []) ->
  Permutation iter rw ->
  let t := cb_tx (create_coinbase E h script iter) in
  tx_ok t = true /\ check_coinbase_amount E h [t] rw = Ok tt.
Proof.
  intros HE Hwf Hsum H1 HP t. subst t. unfold create_coinbase.
  pose proof maxint64_lt as Hmax.
  destruct (N.eqb_spec (h mod E) 1) as [Hm|Hm]; cbn [andb].
  - destruct (N.eqb_spec h 1) as [Hh|Hh]; cbn [negb].
    + (* height 1: the genesis checkpoint has no rewards *)
      specialize (H1 Hh). subst rw. split.
      * unfold tx_ok, value_ok, btm_out, btm_in. cbn. rewrite w64_small by (cbn; lia).
        cbn. destruct (0 <=? maxint64) eqn:Hx; [reflexivity|]. apply N.leb_gt in Hx. lia.
      * apply check_first_iff;
          [exact HE|exact Hm|split; [constructor|intros ? ? []]
          |unfold out_total; cbn [first_outs cb_tx t_outs map mk_out o_amt]; unfold sumN; cbn [fold_right]; lia|].
        exists (cb_tx [mk_out script 0]), []. split; [reflexivity|]. split; [reflexivity|].
        split; [intro p; reflexivity|intros o []].
    + set (outs := _ :: _).
      assert (Htot : out_total outs = rsum rw) by (apply create_total; assumption).
      assert (Hpl : forallb plain outs = true).
      { unfold outs. cbn [forallb]. rewrite plain_mk, forallb_plain_map. reflexivity. }
      split.
      * unfold tx_ok. cbn [cb_tx t_outs is_nil negb andb outs].
        unfold value_ok, btm_in, btm_out. cbn [cb_tx t_cb t_ins t_outs filter map].
        assert (Hf : filter o_btm outs = outs).
        { clear - Hpl. induction outs as [|o l IH]; [reflexivity|]. cbn [forallb filter] in *.
          apply andb_true_iff in Hpl. destruct Hpl as [Ho Hl]. unfold plain in Ho.
          apply andb_true_iff in Ho. destruct Ho as [_ Ho]. rewrite Ho. f_equal. auto. }
        fold outs. rewrite Hf. fold (out_total outs). rewrite Htot.
        rewrite w64_small by lia. unfold sumN at 1; cbn [fold_right]. rewrite N.add_0_r.
        apply andb_true_iff; split; apply N.leb_le; lia.
      * apply check_first_iff; [exact HE|exact Hm|exact Hwf| |].
        -- cbn [first_outs cb_tx t_outs]. fold outs. lia.
        -- exists (cb_tx outs), []. split; [reflexivity|]. split; [exact Hpl|].
           apply create_exact; assumption.
  - split.
    + unfold tx_ok, value_ok, btm_out, btm_in. cbn. rewrite w64_small by (cbn; lia).
      cbn. destruct (0 <=? maxint64) eqn:Hx; [reflexivity|]. apply N.leb_gt in Hx. lia.
    + apply check_other_iff; [exact HE|exact Hm|].
      exists (cb_tx [mk_out script 0]), [], (mk_out script 0). repeat split; reflexivity.
Qed.
