(* C14 — helpers used by the generated case files: constructors, running the model on
   one case, comparing with the projected observables of the implementation. *)
From Coq Require Import List NArith Bool.
From Verif Require Import Outcome Cmp.
From C14 Require Import Model Float.
Import ListNotations.
Open Scope N_scope.

(* ---- short constructors ------------------------------------------------------ *)

Definition I (id amt : N) (btm : bool) : inp := {| i_id := id; i_amt := amt; i_btm := btm |}.
(* O id prog amt btm orig stored *)
Definition O (id p amt : N) (btm orig stored : bool) : out :=
  {| o_id := id; o_prog := p; o_amt := amt; o_btm := btm; o_orig := orig; o_stored := stored |}.
(* vote projection (C15's transaction): vetoes [(pubkey bytes, amount)], votes [(pubkey bytes, amount)] *)
Definition VT (vetoes votes : list (list N * N)) : V.tx :=
  {| V.tx_ins := map (fun e => V.IVeto (fst e) (snd e)) vetoes;
     V.tx_outs := map (fun e => V.OVote (fst e) (snd e)) votes |}.
Definition T (cb : bool) (ins : list inp) (outs : list out) (vetoes votes : list (list N * N)) : tx :=
  {| t_cb := cb; t_ins := ins; t_outs := outs; t_vote := VT vetoes votes |}.
Definition B (h : N) (txs : list tx) : block := {| b_height := h; b_txs := txs |}.

(* ---- subsidy supplied as a finite table (totalVotes, height, value) --------- *)

Definition subtab := list (N * N * N).

Fixpoint sub_lookup (tab : subtab) (t h : N) : N :=
  match tab with
  | [] => 0
  | (t', h', v) :: r => if (t =? t') && (h =? h') then v else sub_lookup r t h
  end.

(* the value of the implementation's float formula: equal, bit for bit, to the Flocq
   binary64 model [validator_reward]; within one unit of the exact-rational
   specification; within the bounds *)
Definition sub_entry_ok (e : N * N * N) : bool :=
  match e with
  | (t, h, v) =>
      let s := subsidy_spec t h in
      (validator_reward t h =? v)
      && (s <=? v + 1) && (v <=? s + 1) && (BlockReward / 2 <=? v) && (v <=? BlockReward)
  end.

(* ---- canonical dump of a reward table: sorted by program label -------------- *)

Fixpoint ins_sorted (e : prog * N) (l : rmap) : rmap :=
  match l with
  | [] => [e]
  | x :: r => if fst x <? fst e then x :: ins_sorted e r else e :: l
  end.
Definition rsort (m : rmap) : rmap := fold_right ins_sorted [] m.

(* ---- results ------------------------------------------------------------------ *)

(* RC classes tables total ok:
     classes: per step 0 = accepted, 1 = rejected, 2 = panic
     tables:  (height, sorted reward table) after every advancing block whose height is a multiple of E
     total:   BTM in the utxo set at the end
     ok:      every supplied subsidy value passes [sub_entry_ok]
   RK classes: a list of result classes (direct calls of checkCoinbaseAmount)
   RS ok: subsidy entries only
   RO outs: the (program, amount) output lists of createCoinbaseTx *)
Inductive res :=
| RC (classes : list N) (tables : list (N * rmap)) (total : N) (ok : bool)
| RK (classes : list N)
| RS (ok : bool)
| RO (outs : list (list (prog * N))).

Definition class_of {A} (r : outcome err A) : N :=
  match r with Ok _ => 0 | Err _ => 1 | Panic _ => 2 end.

Definition genesis_state (u0 : utxo) : state :=
  {| s_height := 0; s_cp := {| c_height := 0; c_votes := []; c_rewards := [] |}; s_utxo := u0 |}.

Definition no_extra (_ : state) (_ : block) : bool := true.

(* steps: (advance?, block).  A block with advance = false is only validated on the tip. *)
Fixpoint run_steps (sub : N -> N -> N) (E : N) (st : state) (steps : list (bool * block))
         (cls : list N) (tabs : list (N * rmap)) : list N * list (N * rmap) * N :=
  match steps with
  | [] => (rev cls, rev tabs, btm_total (s_utxo st))
  | (adv, b) :: r =>
      let o := process_block sub no_extra E st b in
      match o with
      | Ok st' =>
          if adv then
            run_steps sub E st' r (0 :: cls)
                      (if b_height b mod E =? 0
                       then (b_height b, rsort (c_rewards (s_cp st'))) :: tabs else tabs)
          else run_steps sub E st r (0 :: cls) tabs
      | _ => run_steps sub E st r (class_of o :: cls) tabs
      end
  end.

Definition run_case (E : N) (tab : subtab) (u0 : utxo) (steps : list (bool * block)) : res :=
  match run_steps (sub_lookup tab) E (genesis_state u0) steps [] [] with
  | (cls, tabs, total) => RC cls tabs total (forallb sub_entry_ok tab)
  end.

(* direct calls: (E, height, transactions, reward table of the checkpoint) *)
Definition run_checks (cs : list (N * N * list tx * rmap)) : res :=
  RK (map (fun c => match c with (E, h, txs, rw) => class_of (check_coinbase_amount E h txs rw) end) cs).

Definition run_subs (tab : subtab) : res := RS (forallb sub_entry_ok tab).

(* the proposer's coinbase: (E, height, own program, the reward table in iteration order) *)
Definition run_creates (cs : list (N * N * prog * rmap)) : res :=
  RO (map (fun c => match c with
                    | (E, h, script, iter) =>
                        map (fun o => (o_prog o, o_amt o)) (create_coinbase E h script iter)
                    end) cs).

(* ---- equality of results -------------------------------------------------------- *)

Definition pair_eqb (a b : prog * N) : bool := (fst a =? fst b) && (snd a =? snd b).
Definition tab_eqb (a b : N * rmap) : bool := (fst a =? fst b) && list_eqb pair_eqb (snd a) (snd b).

Definition res_eqb (x y : res) : bool :=
  match x, y with
  | RC c1 t1 n1 o1, RC c2 t2 n2 o2 =>
      list_eqb N.eqb c1 c2 && list_eqb tab_eqb t1 t2 && (n1 =? n2) && Bool.eqb o1 o2
  | RK c1, RK c2 => list_eqb N.eqb c1 c2
  | RS a, RS b => Bool.eqb a b
  | RO a, RO b => list_eqb (list_eqb pair_eqb) a b
  | _, _ => false
  end.
