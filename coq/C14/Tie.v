(* C14 — the reward constants of the model are the constants of the CODE.

   VerifGen.FragConsensus.consensus_BlockReward / consensus_InitBTMSupply are read by tools/gofrag
   from the const block of consensus/general.go (working tree of /repo) before every build.  The
   reward function itself (state/reward.go validatorReward, pledgeRate) is float64 arithmetic and
   a map iteration: outside the translator's fragment; C14/Float.v models it by hand. *)
From Coq Require Import ZArith NArith.
From VerifGen Require Import FragConsensus.
From C14 Require Import Model.

Lemma tie_BlockReward : Z.of_N BlockReward = consensus_BlockReward.
Proof. reflexivity. Qed.

Lemma tie_InitBTMSupply : Z.of_N InitBTMSupply = consensus_InitBTMSupply.
Proof. reflexivity. Qed.
