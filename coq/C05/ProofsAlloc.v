(* C05 — proofs, part 2: the allocation meter is linear in the input length.

   Shape of the argument.  For every reader p with meter cost_p:
     (ok)   p buf = Ok (a, r)  ->  cost_p buf + K * |r| <= K * |buf|
            (what a successful read allocates is paid for by the bytes it consumed)
     (any)  cost_p buf <= K * |buf| + F_p
            (a failing read allocates at most that plus a constant)
   with K = 512 nominal bytes per input byte.  Loops: every iteration that succeeds consumes
   at least one byte, at most one iteration fails, so the per-iteration charges add up to
   (ok)/(any) of the loop with the element's constants. *)
From Coq Require Import List NArith Arith Bool Lia.
From Verif Require Import Outcome Cmp.
From C04 Require Import Model.
From C05 Require Import Model ProofsNoPanic.
Import ListNotations.
Open Scope N_scope.

Ltac unfold_consts :=
  cbv [c_reader c_strelem c_ptrelem c_txinput c_typed_in c_assetid c_txoutput c_typed_out
       c_suplink c_tx c_map_fixed c_map_in c_map_out] in *.

(* -------------------------------------------------------------- progress *)

Lemma len_cons {A} (x : A) l : len (x :: l) = len l + 1.
Proof. unfold len. cbn [length]. lia. Qed.

Lemma prog_read_uv : forall n s x buf v r, read_uv n s x buf = Ok (v, r) -> len r + 1 <= len buf.
Proof.
  induction n as [|n IH]; intros s x buf v r H; cbn [read_uv] in H; [discriminate|].
  destruct buf as [|b rest]; [discriminate|]. rewrite len_cons.
  destruct (b <? 128).
  - destruct n; [destruct (1 <? b); [discriminate|]|]; inversion H; subst; lia.
  - apply IH in H. lia.
Qed.

Lemma prog_varint31 buf v r : read_varint31 buf = Ok (v, r) -> len r + 1 <= len buf.
Proof.
  unfold read_varint31, read_uvarint. intros H.
  destruct (read_uv 10 0 0 buf) as [[v' r']|e|q] eqn:E; try discriminate.
  destruct (max_int31 <? v'); [discriminate|]. inversion H; subst. eapply prog_read_uv; eassumption.
Qed.
Lemma prog_varint63 buf v r : read_varint63 buf = Ok (v, r) -> len r + 1 <= len buf.
Proof.
  unfold read_varint63, read_uvarint. intros H.
  destruct (read_uv 10 0 0 buf) as [[v' r']|e|q] eqn:E; try discriminate.
  destruct (max_int63 <? v'); [discriminate|]. inversion H; subst. eapply prog_read_uv; eassumption.
Qed.
Lemma prog_byte buf v r : read_byte buf = Ok (v, r) -> len r + 1 = len buf.
Proof.
  unfold read_byte. destruct buf; [discriminate|]. intros H; inversion H; subst. rewrite len_cons. reflexivity.
Qed.
Lemma prog_hash buf v r : read_hash buf = Ok (v, r) -> len r + 32 = len buf.
Proof.
  unfold read_hash. destruct (Nat.ltb (length buf) 32) eqn:E; [discriminate|].
  apply Nat.ltb_ge in E. intros H. assert (Hr : r = skipn 32 buf) by congruence. subst r.
  unfold len. rewrite skipn_length. lia.
Qed.
Lemma prog_varstr31 buf s r : read_varstr31 buf = Ok (s, r) -> len s + len r + 1 <= len buf.
Proof.
  unfold read_varstr31. intros H.
  destruct (read_varint31 buf) as [[l r']|e|q] eqn:E; try discriminate.
  apply prog_varint31 in E.
  destruct (l =? 0); [inversion H; subst; unfold len in *; cbn [length]; lia|].
  destruct (len r' <? l) eqn:El; [discriminate|]. apply N.ltb_ge in El.
  assert (Hs : s = firstn (N.to_nat l) r') by congruence.
  assert (Hr : r = skipn (N.to_nat l) r') by congruence. subst s r.
  unfold len in *. rewrite firstn_length, skipn_length. lia.
Qed.

(* ------------------------------------------------------------------ loops *)

Section Many.
  Context {A : Type} (p : parser A) (cost_elem : bytes -> N) (K F : N).
  Hypothesis elem_ok : forall b a r, p b = Ok (a, r) -> cost_elem b + K * len r <= K * len b.
  Hypothesis elem_prog : forall b a r, p b = Ok (a, r) -> len r + 1 <= len b.

  Lemma many_ok : forall fuel n buf l r,
    read_many p fuel n buf = Ok (l, r) ->
    cost_many cost_elem p fuel n buf + K * len r <= K * len buf /\ len r + n <= len buf /\ len l = n.
  Proof.
    induction fuel as [|f IH]; intros n buf l r H; cbn [read_many cost_many] in *.
    - destruct (n =? 0) eqn:En; [|discriminate]. apply N.eqb_eq in En. inversion H; subst.
      unfold len at 5. cbn [length]. lia.
    - destruct (n =? 0) eqn:En.
      + apply N.eqb_eq in En. inversion H; subst. unfold len at 5. cbn [length]. lia.
      + apply N.eqb_neq in En.
        destruct (p buf) as [[a r1]|e|q] eqn:E; try discriminate.
        destruct (read_many p f (n - 1) r1) as [[l' r']|e|q] eqn:E2; try discriminate.
        inversion H; subst. apply IH in E2. destruct E2 as (C1 & C2 & C3).
        pose proof (elem_ok _ _ _ E). pose proof (elem_prog _ _ _ E).
        rewrite len_cons. lia.
  Qed.

  Hypothesis elem_any : forall b, cost_elem b <= K * len b + F.

  Lemma many_any : forall fuel n buf, cost_many cost_elem p fuel n buf <= K * len buf + F.
  Proof.
    induction fuel as [|f IH]; intros n buf; cbn [cost_many].
    - destruct (n =? 0); lia.
    - destruct (n =? 0); [lia|].
      pose proof (elem_any buf).
      destruct (p buf) as [[a r1]|e|q] eqn:E; [|lia|lia].
      pose proof (elem_ok _ _ _ E). pose proof (IH (n - 1) r1). lia.
  Qed.
End Many.

(* ------------------------------------------------------- generic stepping *)

(* expose and destruct the next scrutinee shared by the reader (in H) and the meter (goal) *)
Ltac destruct_scrutinee x :=
  lazymatch x with
  | context [match _ with _ => _ end] => fail
  | _ => tryif is_var x then destruct x else (let E := fresh "E" in destruct x eqn:E)
  end.

Ltac step_in H :=
  match type of H with
  | context [match ?x with _ => _ end] => destruct_scrutinee x
  end; try discriminate H; cbv beta iota in *.

Ltac step_goal :=
  match goal with
  | |- context [match ?x with _ => _ end] => destruct_scrutinee x
  end; cbv beta iota in *.

(* facts about the successful steps *)
Ltac basic_facts :=
  repeat match goal with
  | E : read_varint63 _ = Ok (_, _) |- _ => apply prog_varint63 in E
  | E : read_varint31 _ = Ok (_, _) |- _ => apply prog_varint31 in E
  | E : read_byte _ = Ok (_, _) |- _ => apply prog_byte in E
  | E : read_hash _ = Ok (_, _) |- _ => apply prog_hash in E
  | E : read_varstr31 _ = Ok (_, _) |- _ => apply prog_varstr31 in E
  end.

(* ----------------------------------------------------------- varstr lists *)

Lemma ok_varstr_list buf l r :
  read_varstr_list buf = Ok (l, r) -> cost_varstr_list buf + 512 * len r <= 512 * len buf.
Proof.
  unfold read_varstr_list, cost_varstr_list, then_, read_list. intros H.
  destruct (read_varint31 buf) as [[n r1]|e|q] eqn:E; try discriminate.
  apply (many_ok read_varstr31 (fun _ => c_strelem) 512) in H.
  - apply prog_varint31 in E. lia.
  - intros b a r0 Hb. apply prog_varstr31 in Hb. unfold_consts. lia.
  - intros b a r0 Hb. apply prog_varstr31 in Hb. lia.
Qed.

Lemma any_varstr_list buf : cost_varstr_list buf <= 512 * len buf + 48.
Proof.
  unfold cost_varstr_list, then_.
  destruct (read_varint31 buf) as [[n r1]|e|q] eqn:E; [|lia|lia].
  apply prog_varint31 in E.
  pose proof (many_any read_varstr31 (fun _ => c_strelem) 512 48) as M.
  specialize (M ltac:(intros b a r0 Hb; apply prog_varstr31 in Hb; unfold_consts; lia)
                ltac:(intros b; unfold_consts; lia) (S (length r1)) n r1).
  lia.
Qed.

(* ------------------------------------------------------ spend commitment *)

Lemma ok_sc_contents s sc r :
  read_sc_contents s = Ok (sc, r) -> cost_sc_contents s + 512 * len r <= 512 * len s.
Proof.
  unfold read_sc_contents, cost_sc_contents, then_. intros H.
  repeat step_in H.
  match goal with E : read_varstr_list _ = Ok _ |- _ => apply ok_varstr_list in E end.
  basic_facts. inversion H; subst. unfold_consts. lia.
Qed.

Lemma any_sc_contents s : cost_sc_contents s <= 512 * len s + 48.
Proof.
  unfold cost_sc_contents, then_.
  repeat (step_goal; try (basic_facts; unfold_consts; lia)).
  match goal with |- context [cost_varstr_list ?b] => pose proof (any_varstr_list b) end.
  basic_facts. unfold_consts. lia.
Qed.

Lemma ok_sc buf v r : read_sc buf = Ok (v, r) -> cost_sc buf + 512 * len r <= 512 * len buf.
Proof.
  unfold read_sc, read_ext, cost_sc, then_. intros H.
  repeat step_in H.
  match goal with E : read_sc_contents _ = Ok _ |- _ => apply ok_sc_contents in E end.
  basic_facts. inversion H; subst. unfold_consts. lia.
Qed.

Lemma any_sc buf : cost_sc buf <= 512 * len buf + 96.
Proof.
  unfold cost_sc, then_.
  destruct (read_varstr31 buf) as [[s r]|e|q] eqn:E; [|unfold_consts; lia|unfold_consts; lia].
  pose proof (any_sc_contents s). basic_facts. unfold_consts. lia.
Qed.

(* ------------------------------------------------------------------ inputs *)

Ltac bool_simpl := cbn [orb andb negb] in *.

Lemma ok_in_commit s c r :
  read_in_commit s = Ok (c, r) -> cost_in_commit s + 512 * len r <= 512 * len s.
Proof.
  unfold read_in_commit, cost_in_commit, then_. intros H.
  repeat (step_in H; bool_simpl);
    repeat match goal with E : read_sc _ = Ok _ |- _ => apply ok_sc in E end;
    basic_facts; inversion H; subst; unfold_consts; try lia.
  all: repeat match goal with E : (_ =? _) = true |- _ => apply N.eqb_eq in E; subst end;
       cbn [N.eqb Pos.eqb IssuanceInputType SpendInputType CoinbaseInputType VetoInputType orb] in *;
       lia.
Qed.

Lemma any_in_commit s : cost_in_commit s <= 512 * len s + 288.
Proof.
  unfold cost_in_commit, then_.
  destruct (read_byte s) as [[ty s1]|e|q] eqn:E; [|lia|lia].
  pose proof (any_sc s1). basic_facts.
  destruct ((ty =? IssuanceInputType) || (ty =? CoinbaseInputType)); [unfold_consts; lia|].
  destruct ((ty =? SpendInputType) || (ty =? VetoInputType)); unfold_consts; lia.
Qed.

Section WithAssetID.
  Variable aid : bytes -> N -> bytes -> bytes.
  Variable nv : nat.

  Lemma ok_in_witness c s ti r :
    read_in_witness aid c s = Ok (ti, r) -> cost_in_witness c s + 512 * len r <= 512 * len s.
  Proof.
    unfold read_in_witness, cost_in_witness, then_. intros H. destruct c.
    all: repeat step_in H;
      repeat match goal with E : read_varstr_list _ = Ok _ |- _ => apply ok_varstr_list in E end;
      basic_facts; inversion H; subst; lia.
  Qed.

  Lemma any_in_witness c s : cost_in_witness c s <= 512 * len s + 48.
  Proof.
    unfold cost_in_witness, then_. destruct c.
    - repeat (step_goal; try (basic_facts; lia)).
      match goal with |- context [cost_varstr_list ?b] => pose proof (any_varstr_list b) end.
      basic_facts. lia.
    - apply any_varstr_list.
    - lia.
    - apply any_varstr_list.
  Qed.

  Lemma ok_input buf i r :
    read_input aid buf = Ok (i, r) -> cost_input buf + 512 * len r <= 512 * len buf.
  Proof.
    unfold read_input, read_ext, cost_input, then_. intros H.
    repeat step_in H;
      repeat match goal with
             | E : read_in_commit _ = Ok _ |- _ => apply ok_in_commit in E
             | E : read_in_witness _ _ _ = Ok _ |- _ => apply ok_in_witness in E
             end;
      basic_facts; inversion H; subst; unfold_consts; lia.
  Qed.

  Lemma any_input buf : cost_input buf <= 512 * len buf + 480.
  Proof.
    unfold cost_input, then_.
    destruct (read_varint63 buf) as [[av r1]|e|q] eqn:E; [|unfold_consts; lia|unfold_consts; lia].
    destruct (av =? 1).
    - destruct (read_varstr31 r1) as [[s r2]|e|q] eqn:E1; [|basic_facts; unfold_consts; lia|basic_facts; unfold_consts; lia].
      pose proof (any_in_commit s).
      destruct (read_in_commit s) as [[c csfx]|e|q] eqn:E2; [|basic_facts; unfold_consts; lia|basic_facts; unfold_consts; lia].
      apply ok_in_commit in E2.
      destruct (read_varstr31 r2) as [[w r3]|e|q] eqn:E3; [|basic_facts; unfold_consts; lia|basic_facts; unfold_consts; lia].
      pose proof (any_in_witness c w). basic_facts. unfold_consts. lia.
    - destruct (read_varstr31 r1) as [[s r2]|e|q] eqn:E1; basic_facts; unfold_consts; lia.
  Qed.

  Lemma prog_input buf i r : read_input aid buf = Ok (i, r) -> len r + 1 <= len buf.
  Proof. intros H. apply ok_input in H. unfold cost_input in H. unfold_consts. lia. Qed.

  (* ----------------------------------------------------------------- outputs *)

  Lemma ok_out_body av ty s v r :
    read_out_body av ty s = Ok (v, r) -> cost_out_body av ty s + 512 * len r <= 512 * len s + c_typed_out.
  Proof.
    unfold read_out_body, read_oc, cost_out_body, then_. intros H.
    repeat step_in H;
      repeat match goal with E : read_varstr_list _ = Ok _ |- _ => apply ok_varstr_list in E end;
      basic_facts; inversion H; subst; unfold_consts; lia.
  Qed.

  Lemma any_out_body av ty s : cost_out_body av ty s <= 512 * len s + 128.
  Proof.
    unfold cost_out_body, then_.
    repeat (step_goal; try (basic_facts; unfold_consts; lia)).
    all: try (match goal with |- context [cost_varstr_list ?b] => pose proof (any_varstr_list b) end;
              basic_facts; unfold_consts; lia).
  Qed.

  Lemma ok_output buf o r :
    read_output buf = Ok (o, r) -> cost_output buf + 512 * len r <= 512 * len buf.
  Proof.
    unfold read_output, read_ext, cost_output, then_. intros H.
    repeat step_in H;
      repeat match goal with E : read_out_body _ _ _ = Ok _ |- _ => apply ok_out_body in E end;
      basic_facts; inversion H; subst; unfold_consts; lia.
  Qed.

  Lemma any_output buf : cost_output buf <= 512 * len buf + 480.
  Proof.
    unfold cost_output, then_.
    destruct (read_varint63 buf) as [[av r1]|e|q] eqn:E; [|unfold_consts; lia|unfold_consts; lia].
    destruct (read_byte r1) as [[ty r2]|e|q] eqn:E1; [|basic_facts; unfold_consts; lia|basic_facts; unfold_consts; lia].
    destruct (negb _); [basic_facts; unfold_consts; lia|].
    destruct (read_varstr31 r2) as [[s r3]|e|q] eqn:E2; [|basic_facts; unfold_consts; lia|basic_facts; unfold_consts; lia].
    pose proof (any_out_body av ty s). basic_facts. unfold_consts. lia.
  Qed.

  Lemma prog_output buf o r : read_output buf = Ok (o, r) -> len r + 1 <= len buf.
  Proof. intros H. apply ok_output in H. unfold cost_output in H. unfold_consts. lia. Qed.

  (* ------------------------------------------------------------ transactions *)

  Lemma ok_txdata buf t r :
    read_txdata aid buf = Ok (t, r) ->
    cost_txdata aid buf + 512 * len r <= 512 * len buf /\
    len (tx_inputs t) + len (tx_outputs t) + len r + 5 <= len buf.
  Proof.
    unfold read_txdata, cost_txdata, then_. intros H.
    repeat step_in H.
    repeat match goal with
    | E : read_list (read_input aid) _ _ = Ok _ |- _ =>
      unfold read_list in E;
      apply (many_ok (read_input aid) cost_input 512 ok_input prog_input) in E
    | E : read_list read_output _ _ = Ok _ |- _ =>
      unfold read_list in E;
      apply (many_ok read_output cost_output 512 ok_output prog_output) in E
    end.
    basic_facts. inversion H; subst. cbn [tx_inputs tx_outputs]. lia.
  Qed.

  Lemma any_txdata buf : cost_txdata aid buf <= 512 * len buf + 480.
  Proof.
    unfold cost_txdata, then_.
    destruct (read_byte buf) as [[fl r1]|e|q] eqn:E0; [|lia|lia].
    destruct (negb _); [lia|].
    destruct (read_varint63 r1) as [[ver r2]|e|q] eqn:E1; [|lia|lia].
    destruct (read_varint63 r2) as [[tr r3]|e|q] eqn:E2; [|lia|lia].
    destruct (read_varint31 r3) as [[nin r4]|e|q] eqn:E3; [|lia|lia].
    pose proof (many_any (read_input aid) cost_input 512 480 ok_input any_input (S (length r4)) nin r4) as Min.
    destruct (read_list (read_input aid) nin r4) as [[ins r5]|e|q] eqn:E4; [|basic_facts; lia|basic_facts; lia].
    unfold read_list in E4.
    apply (many_ok (read_input aid) cost_input 512 ok_input prog_input) in E4.
    destruct (read_varint31 r5) as [[nout r6]|e|q] eqn:E5; [|basic_facts; lia|basic_facts; lia].
    pose proof (many_any read_output cost_output 512 480 ok_output any_output (S (length r6)) nout r6) as Mout.
    basic_facts. lia.
  Qed.

  (* hex *)
  Lemma hex_len : forall text b, hex_decode text = Ok b -> 2 * len b = len text.
  Proof.
    fix IH 1. intros text b H. destruct text as [|p [|c r]]; cbn [hex_decode] in H.
    - inversion H; subst. reflexivity.
    - discriminate.
    - destruct (from_hex_char p); [|discriminate]. destruct (from_hex_char c); [|discriminate].
      destruct (hex_decode r) as [t|e|x] eqn:E; try discriminate.
      apply IH in E. inversion H; subst. rewrite !len_cons. lia.
  Qed.

  Lemma cost_hex_le text : cost_hex text <= len text.
  Proof. unfold cost_hex. apply N.div_le_upper_bound; lia. Qed.

  (* Tx.UnmarshalText *)
  Lemma alloc_tx_linear text : alloc_tx aid text <= 1536 * len text + 16384.
  Proof.
    unfold alloc_tx. pose proof (cost_hex_le text).
    destruct (hex_decode text) as [b|e|x] eqn:E; [|lia|lia].
    pose proof (hex_len _ _ E). pose proof (any_txdata b).
    unfold unmarshal_tx5, unmarshal_tx. rewrite E. cbn [lift].
    destruct (read_txdata aid b) as [[t r]|e|x] eqn:E1; cbn [lift]; [|lia|lia].
    apply ok_txdata in E1. destruct E1 as [C1 C2].
    destruct r; cbn [lift]; [|lia].
    destruct (check_mappable t) as [[]|e|x]; [|lia|lia].
    destruct (map_tx t) as [[]|e|x]; [|lia|lia].
    unfold cost_map. unfold_consts. lia.
  Qed.

  (* ----------------------------------------------------------------- headers *)

  Lemma prog_sigs : forall k buf l r, read_sigs k buf = Ok (l, r) -> len r <= len buf.
  Proof.
    induction k as [|k IH]; intros buf l r H; cbn [read_sigs] in H.
    - inversion H; subst. lia.
    - destruct (read_varstr31 buf) as [[s r1]|e|q] eqn:E; try discriminate.
      destruct (read_sigs k r1) as [[l' r']|e|q] eqn:E2; try discriminate.
      inversion H; subst. apply IH in E2. apply prog_varstr31 in E. lia.
  Qed.

  Lemma prog_suplink buf s r : read_suplink nv buf = Ok (s, r) -> len r + 1 <= len buf.
  Proof.
    unfold read_suplink. intros H. repeat step_in H.
    match goal with E : read_sigs _ _ = Ok _ |- _ => apply prog_sigs in E end.
    basic_facts. inversion H; subst. lia.
  Qed.

  Lemma ok_suplink_elem b a r :
    read_suplink nv b = Ok (a, r) -> (fun _ : bytes => c_suplink) b + 512 * len r <= 512 * len b.
  Proof. intros H. apply prog_suplink in H. unfold_consts. lia. Qed.

  Lemma ok_suplinks s l r :
    read_suplinks nv s = Ok (l, r) -> cost_suplinks nv s + 1024 * len r <= 1024 * len s.
  Proof.
    unfold read_suplinks, cost_suplinks, then_. intros H.
    destruct (read_varint31 s) as [[n r1]|e|q] eqn:E; try discriminate.
    destruct (len r1 <? n) eqn:G; [discriminate|]. apply N.ltb_ge in G.
    unfold read_list in H.
    apply (many_ok (read_suplink nv) (fun _ => c_suplink) 512 ok_suplink_elem prog_suplink) in H.
    basic_facts. lia.
  Qed.

  Lemma any_suplinks s : cost_suplinks nv s <= 1024 * len s + 288.
  Proof.
    unfold cost_suplinks, then_.
    destruct (read_varint31 s) as [[n r1]|e|q] eqn:E; [|lia|lia].
    destruct (len r1 <? n) eqn:G; [lia|]. apply N.ltb_ge in G.
    pose proof (many_any (read_suplink nv) (fun _ => c_suplink) 512 288 ok_suplink_elem
                  ltac:(intros b; unfold_consts; lia) (S (length r1)) n r1).
    basic_facts. lia.
  Qed.

  Lemma ok_header buf v r :
    read_header nv buf = Ok (v, r) -> cost_header nv buf + 1024 * len r <= 1024 * len buf.
  Proof.
    unfold read_header, cost_header, then_. intros H.
    destruct (read_byte buf) as [[flag r1]|e|q] eqn:E0; try discriminate.
    destruct (flag =? SerBlockTransactions); [basic_facts; inversion H; subst; lia|].
    destruct (negb _); [discriminate|].
    destruct (read_varint63 r1) as [[ver r2]|e|q] eqn:E1; try discriminate.
    destruct (read_varint63 r2) as [[hg r3]|e|q] eqn:E2; try discriminate.
    destruct (read_hash r3) as [[pv r4]|e|q] eqn:E3; try discriminate.
    destruct (read_varint63 r4) as [[ts r5]|e|q] eqn:E4; try discriminate.
    destruct (read_ext read_hash r5) as [[[root s1] r6]|e|q] eqn:E5; try discriminate.
    destruct (read_ext read_varstr31 r6) as [[[wit s2] r7]|e|q] eqn:E6; try discriminate.
    unfold read_ext in E5, E6, H.
    destruct (read_varstr31 r5) as [[x5 y5]|e|q] eqn:F5; try discriminate.
    destruct (read_hash x5) as [[a5 b5]|e|q] eqn:G5; try discriminate.
    destruct (read_varstr31 r6) as [[x6 y6]|e|q] eqn:F6; try discriminate.
    destruct (read_varstr31 x6) as [[a6 b6]|e|q] eqn:G6; try discriminate.
    destruct (read_varstr31 r7) as [[x7 y7]|e|q] eqn:F7; try discriminate.
    destruct (read_suplinks nv x7) as [[a7 b7]|e|q] eqn:G7; try discriminate.
    apply ok_suplinks in G7.
    basic_facts. inversion E5; inversion E6; inversion H; subst. unfold_consts. lia.
  Qed.

  Lemma any_header buf : cost_header nv buf <= 1024 * len buf + 480.
  Proof.
    unfold cost_header, then_.
    destruct (read_byte buf) as [[flag r1]|e|q] eqn:E0; [|lia|lia].
    destruct (flag =? SerBlockTransactions); [lia|].
    destruct (negb _); [lia|].
    destruct (read_varint63 r1) as [[ver r2]|e|q] eqn:E1; [|lia|lia].
    destruct (read_varint63 r2) as [[hg r3]|e|q] eqn:E2; [|lia|lia].
    destruct (read_hash r3) as [[pv r4]|e|q] eqn:E3; [|lia|lia].
    destruct (read_varint63 r4) as [[ts r5]|e|q] eqn:E4; [|lia|lia].
    destruct (read_ext read_hash r5) as [[[root s1] r6]|e|q] eqn:E5; [|unfold_consts; lia|unfold_consts; lia].
    destruct (read_ext read_varstr31 r6) as [[[wit s2] r7]|e|q] eqn:E6; [|unfold_consts; lia|unfold_consts; lia].
    unfold read_ext in E5, E6.
    destruct (read_varstr31 r5) as [[x5 y5]|e|q] eqn:F5; try discriminate.
    destruct (read_hash x5) as [[a5 b5]|e|q] eqn:G5; try discriminate.
    destruct (read_varstr31 r6) as [[x6 y6]|e|q] eqn:F6; try discriminate.
    destruct (read_varstr31 x6) as [[a6 b6]|e|q] eqn:G6; try discriminate.
    inversion E5; inversion E6; subst.
    destruct (read_varstr31 r7) as [[x7 y7]|e|q] eqn:F7; [|basic_facts; unfold_consts; lia|basic_facts; unfold_consts; lia].
    pose proof (any_suplinks x7). basic_facts. unfold_consts. lia.
  Qed.

  Lemma alloc_header_linear text : alloc_header nv text <= 1536 * len text + 16384.
  Proof.
    unfold alloc_header. pose proof (cost_hex_le text).
    destruct (hex_decode text) as [b|e|x] eqn:E; [|lia|lia].
    pose proof (hex_len _ _ E). pose proof (any_header b). lia.
  Qed.

  (* ------------------------------------------------------------------ blocks *)

  Lemma ok_tx_mapped buf t r :
    read_tx_mapped aid buf = Ok (t, r) -> cost_tx_mapped aid buf + 4096 * len r <= 4096 * len buf /\ len r + 1 <= len buf.
  Proof.
    unfold cost_tx_mapped. intros H. rewrite H. unfold read_tx_mapped in H.
    destruct (read_txdata aid buf) as [[t' r']|e|x] eqn:E; cbn [lift] in H; try discriminate.
    destruct (check_mappable t') as [[]|e|x]; try discriminate.
    destruct (map_tx t') as [[]|e|x]; try discriminate.
    inversion H; subst. apply ok_txdata in E. destruct E as [C1 C2].
    unfold cost_map. unfold_consts. lia.
  Qed.

  Lemma any_tx_mapped buf : cost_tx_mapped aid buf <= 4096 * len buf + 16384.
  Proof.
    pose proof (any_txdata buf) as Htx.
    destruct (read_tx_mapped aid buf) as [[t r]|e|x] eqn:Hm.
    - apply ok_tx_mapped in Hm. lia.
    - unfold cost_tx_mapped. rewrite Hm. unfold_consts. lia.
    - unfold cost_tx_mapped. rewrite Hm. unfold_consts. lia.
  Qed.

  Lemma any_txs_mapped : forall fuel n buf, cost_txs_mapped aid fuel n buf <= 4096 * len buf + 16384.
  Proof.
    induction fuel as [|f IH]; intros n buf; cbn [cost_txs_mapped].
    - destruct (n =? 0); lia.
    - destruct (n =? 0); [lia|].
      pose proof (any_tx_mapped buf).
      destruct (read_tx_mapped aid buf) as [[t r]|e|x] eqn:E; [|lia|lia].
      apply ok_tx_mapped in E. pose proof (IH (n - 1) r). lia.
  Qed.

  Lemma any_block buf : cost_block aid nv buf <= 4096 * len buf + 16384.
  Proof.
    unfold cost_block, then_. pose proof (any_header buf).
    destruct (read_header nv buf) as [[[flag h] r1]|e|q] eqn:E; [|lia|lia].
    apply ok_header in E. cbn [fst].
    destruct (flag =? SerBlockHeader); [lia|].
    destruct (read_varint31 r1) as [[n r2]|e|q] eqn:E1; [|lia|lia].
    pose proof (any_txs_mapped (S (length r2)) n r2). basic_facts. lia.
  Qed.

  Lemma alloc_block_linear text : alloc_block aid nv text <= 2560 * len text + 16384.
  Proof.
    unfold alloc_block. pose proof (cost_hex_le text).
    destruct (hex_decode text) as [b|e|x] eqn:E; [|lia|lia].
    pose proof (hex_len _ _ E). pose proof (any_block b). lia.
  Qed.
End WithAssetID.
