(* C05 — the statements exported to Props.v, and examples: the historical witnesses are
   errors now, and the model's Panic is not vacuous (MapTx on the witness, unguarded). *)
From Coq Require Import List NArith Arith Bool Lia.
From Verif Require Import Outcome Cmp.
From C04 Require Import Model.
From C05 Require Import Model ProofsNoPanic ProofsAlloc.
Import ListNotations.
Open Scope N_scope.

Lemma no_panic_tx : forall aid text q, unmarshal_tx5 aid text <> Panic q.
Proof. exact np_tx5. Qed.

Lemma no_panic_block : forall aid nv text q, unmarshal_block5 aid nv text <> Panic q.
Proof. exact np_block5. Qed.

Lemma no_panic_header : forall nv text q, unmarshal_header5 nv text <> Panic q.
Proof. exact np_header5. Qed.

Lemma no_panic_txdata : forall aid text q, unmarshal_tx aid text <> Panic q.
Proof. exact np_unmarshal_tx. Qed.

Lemma map_guarded : forall t, check_mappable t = Ok tt -> map_tx t = Ok tt.
Proof. exact map_after_check. Qed.

Lemma no_panic_message : forall aid nv wire registered unquote,
  (forall t b q, wire t b <> Panic q) ->
  (forall b q, unquote b <> Panic q) ->
  forall bz q,
  decode_message wire registered bz <> Panic q /\
  receive aid nv wire registered unquote bz <> Panic q.
Proof.
  intros aid nv wire registered unquote Hw Hu bz q. split.
  - apply np_decode_message. assumption.
  - apply np_receive; assumption.
Qed.

Lemma alloc_linear : forall aid nv text,
  alloc_tx aid text <= 1536 * len text + 16384 /\
  alloc_header nv text <= 1536 * len text + 16384 /\
  alloc_block aid nv text <= 2560 * len text + 16384.
Proof.
  intros aid nv text. split; [apply alloc_tx_linear|]. split; [apply alloc_header_linear|apply alloc_block_linear].
Qed.

(* sup links: the slice is made only for a count the unread bytes can back *)
Lemma suplinks_guard : forall nv buf n r,
  read_varint31 buf = Ok (n, r) -> len r < n ->
  read_suplinks nv buf = Err EEOF /\ cost_suplinks nv buf = 0.
Proof.
  intros nv buf n r H Hlt. unfold read_suplinks, cost_suplinks, then_. rewrite H.
  replace (len r <? n) with true by (symmetry; apply N.ltb_lt; assumption). split; reflexivity.
Qed.

(* ------------------------------------------------------------------ examples *)

Definition ex_aid (p : bytes) (v : N) (d : bytes) : bytes := repeat 7 32.

(* tx bytes 07 01 00 01 02 00 00 00: one input with asset version 2 *)
Definition witness_raw : bytes := [7; 1; 0; 1; 2; 0; 0; 0].

Example witness_decodes_as_txdata :
  unmarshal_tx ex_aid (hex_encode witness_raw) = Ok (mkTx 1 8 0 [mkIn 2 None [] []] []).
Proof. vm_compute. reflexivity. Qed.

(* MapTx on it is the panic of the pinned tree ... *)
Example witness_map_panics : map_tx (mkTx 1 8 0 [mkIn 2 None [] []] []) = Panic ExplicitPanic.
Proof. reflexivity. Qed.

(* ... which Tx.UnmarshalText now reports as an error *)
Example witness_is_an_error : unmarshal_tx5 ex_aid (hex_encode witness_raw) = Err EUnmappable.
Proof. vm_compute. reflexivity. Qed.

(* an empty message *)
Example empty_message_is_an_error :
  decode_message (fun _ _ => Ok POther) (fun _ => true) [] = Err EEmpty.
Proof. reflexivity. Qed.

(* a header whose sup link count is 2^24 with no bytes behind it: refused, nothing charged *)
Example huge_suplink_count : cost_suplinks 10 [128; 128; 128; 8] = 0.
Proof. vm_compute. reflexivity. Qed.

(* a well-formed transaction is accepted: the theorems are not about an always-failing decoder *)
Example accepts_valid :
  exists t, unmarshal_tx5 ex_aid (hex_encode [7; 1; 0; 1; 1; 4; 2; 2; 1; 9; 0; 0]) = Ok t.
Proof. eexists. vm_compute. reflexivity. Qed.
