(* C05 — Decoding untrusted bytes never crashes and uses bounded memory.  PROPERTY THEOREMS ONLY.

   Model.  The byte-level decoders are those of C04/Model.v (Go's uvarint, encoding/blockchain,
   readFrom of TxInput / TxOutput / TxData / SupLinks / BlockHeader / Block, encoding/hex):
   total functions  bytes -> Ok value | Err _ | Panic _ .  C05/Model.v adds the entry points:
     unmarshal_tx5      Tx.UnmarshalText = TxData.UnmarshalText; checkMappable; MapTx, whose
                        type switch panics on an input without typed body (map_tx = Panic);
     unmarshal_block5   Block.UnmarshalText (per transaction: readFrom, checkMappable, NewTx);
     unmarshal_header5  BlockHeader.UnmarshalText;
     decode_message     decodeMessage of netsync/chainmgr and netsync/consensusmgr: length check,
                        bz[0], go-wire's ReadBinary;  receive = decodeMessage followed by the
                        payload accessor of the handler (GetBlock, GetMineBlock, GetProposeBlock,
                        GetTransaction(s), GetHeaders, GetBlocks);
     alloc_tx / alloc_header / alloc_block
                        the allocation meter: nominal bytes charged where the mirrored code
                        allocates (hex buffer, new(T) per loop iteration before the element is
                        read, append growth, Reader+closure per extensible string,
                        make([]*SupLink, size) before any element is read, MapTx per input/output).
   All theorems quantify over ALL byte strings: arbitrary length, arbitrary content (unknown
   asset versions, input/output types and serialization flags, every length prefix and count up
   to 2^64-1, truncation at any offset), and over every asset-id function [aid] and every
   number of validators [nv].  [len] is the length as an N.

   [partial] Network messages: go-wire (vendored third-party reflection reader) and
   encoding/json's tokenizer are parameters [wire], [unquote] assumed to return a value or an
   error; only the first-byte dispatch around go-wire and the accessors behind it are modelled.
   go-wire itself allocates a declared byte-slice length (up to its 21 MiB limit) before reading
   it; that allocation is outside the meter. *)
From Coq Require Import List NArith Bool.
From Verif Require Import Outcome Cmp.
From C04 Require Import Model.
From C05 Require Import Model ProofsNoPanic ProofsAlloc Proofs.
Import ListNotations.
Open Scope N_scope.

(* Tx.UnmarshalText (P2P transaction messages, RPC payloads, stored records) *)
Theorem c05_no_panic_tx : forall aid text q, unmarshal_tx5 aid text <> Panic q.
Proof. exact no_panic_tx. Qed.
Print Assumptions c05_no_panic_tx.

(* TxData.UnmarshalText *)
Theorem c05_no_panic_txdata : forall aid text q, unmarshal_tx aid text <> Panic q.
Proof. exact no_panic_txdata. Qed.
Print Assumptions c05_no_panic_txdata.

(* Block.UnmarshalText, including NewTx/MapTx on every transaction *)
Theorem c05_no_panic_block : forall aid nv text q, unmarshal_block5 aid nv text <> Panic q.
Proof. exact no_panic_block. Qed.
Print Assumptions c05_no_panic_block.

(* BlockHeader.UnmarshalText *)
Theorem c05_no_panic_header : forall nv text q, unmarshal_header5 nv text <> Panic q.
Proof. exact no_panic_header. Qed.
Print Assumptions c05_no_panic_header.

(* why MapTx cannot panic behind checkMappable *)
Theorem c05_map_guarded : forall t, check_mappable t = Ok tt -> map_tx t = Ok tt.
Proof. exact map_guarded. Qed.
Print Assumptions c05_map_guarded.

(* chain messages and consensus messages (both reactors are instances: [registered] is the set
   of registered type bytes, [wire] go-wire's reader for them).  Full statement: *)
Definition c05_no_panic_message_full : Prop :=
  forall aid nv wire registered unquote bz q,
  decode_message wire registered bz <> Panic q /\
  receive aid nv wire registered unquote bz <> Panic q.

(* proved for every reader [wire] / tokenizer [unquote] that itself returns a value or an error *)
Theorem c05_no_panic_message_partial : forall aid nv wire registered unquote,
  (forall t b q, wire t b <> Panic q) ->
  (forall b q, unquote b <> Panic q) ->
  forall bz q,
  decode_message wire registered bz <> Panic q /\
  receive aid nv wire registered unquote bz <> Panic q.
Proof. exact no_panic_message. Qed.
Print Assumptions c05_no_panic_message_partial.

(* memory: the meter is at most linear in the length of the text, with explicit constants *)
Theorem c05_alloc_linear : forall aid nv text,
  alloc_tx aid text <= 1536 * len text + 16384 /\
  alloc_header nv text <= 1536 * len text + 16384 /\
  alloc_block aid nv text <= 2560 * len text + 16384.
Proof. exact alloc_linear. Qed.
Print Assumptions c05_alloc_linear.

(* the attacker-chosen sup link count: above the number of unread bytes nothing is allocated *)
Theorem c05_suplinks_guard : forall nv buf n r,
  read_varint31 buf = Ok (n, r) -> len r < n ->
  read_suplinks nv buf = Err EEOF /\ cost_suplinks nv buf = 0.
Proof. exact suplinks_guard. Qed.
Print Assumptions c05_suplinks_guard.
