(* C05 — decoding untrusted bytes: the entry points and the allocation meter.  NO PROOFS HERE.

   The byte-level decoders are those of C04/Model.v (total functions to Ok / Err / Panic).
   This file adds what the entry points do around them:

     Tx.UnmarshalText        = TxData.UnmarshalText, then checkMappable, then MapTx.
                               MapTx's type switch over the inputs panics on an input without
                               typed body ([map_tx] returns Panic there); checkMappable (the
                               repair) turns such a transaction into an error first.
     Block.UnmarshalText     = header, then per transaction readFrom, checkMappable, NewTx
                               (= MapTx).
     BlockHeader.UnmarshalText as in C04.
     decodeMessage           (netsync/chainmgr and netsync/consensusmgr): the (repaired) length
                               check, bz[0] as message type, then go-wire's ReadBinary.  go-wire is
                               third-party reflection code: its reader is the Section variable
                               [wire]; only the first-byte dispatch around it is modelled.
     payload accessors       GetBlock / GetMineBlock / GetProposeBlock (Block.UnmarshalText),
                               GetTransaction(s) (Tx.UnmarshalText), GetHeaders / GetBlocks
                               (encoding/json on a TextUnmarshaler: a JSON string holding the hex
                               text; the JSON tokenizer is the Section variable [unquote]).

   Allocation meter.  [cost_*] follow the decoders step by step and charge, at the point where
   the Go code allocates, a nominal number of bytes: the hex buffer, every new(T) of a loop
   iteration (charged when the iteration starts, before the element is read), append growth
   per element, the Reader and closure of every extensible string, make([]*SupLink, size)
   (charged before any element is read, after the repaired check against the unread length),
   and MapTx's entries per input and output.  The constants are nominal 64-bit sizes, doubled
   where append growth amortises; the harness checks the measured allocation of every case
   against the meter. *)
From Coq Require Import List NArith Bool.
From Verif Require Import Outcome Cmp.
From C04 Require Import Model.
Import ListNotations.
Open Scope N_scope.

Inductive err5 :=
| E4 (e : err)        (* an error of the byte-level decoders *)
| EUnmappable         (* checkMappable: input with unknown asset version *)
| EEmpty              (* decodeMessage: empty message *)
| EWire               (* go-wire: unknown type byte / malformed payload / over the limit *)
| EJson.              (* encoding/json *)

Definition res5 (A : Type) := outcome err5 A.

Definition lift {A} (r : res A) : res5 A :=
  match r with
  | Ok a => Ok a
  | Err e => Err (E4 e)
  | Panic p => Panic p
  end.

(* ------------------------------------------------------------- transactions *)

Definition typed (i : tx_input) : bool :=
  match in_typed i with Some _ => true | None => false end.

(* MapTx: mapInputs' type switch ends in  default: panic("fail on handle transaction input") *)
Definition map_tx (t : tx_data) : res5 unit :=
  if forallb typed (tx_inputs t) then Ok tt else Panic ExplicitPanic.

(* TxData.checkMappable (repair) *)
Definition check_mappable (t : tx_data) : res5 unit :=
  if forallb typed (tx_inputs t) then Ok tt else Err EUnmappable.

Section Decoders.
  Variable aid : bytes -> N -> bytes -> bytes.
  Variable nv : nat.

  (* Tx.UnmarshalText *)
  Definition unmarshal_tx5 (text : bytes) : res5 tx_data :=
    match lift (unmarshal_tx aid text) with
    | Ok t =>
      match check_mappable t with
      | Ok _ =>
        match map_tx t with
        | Ok _ => Ok t
        | Err e => Err e
        | Panic p => Panic p
        end
      | Err e => Err e
      | Panic p => Panic p
      end
    | Err e => Err e
    | Panic p => Panic p
    end.

  (* one iteration of Block.readFrom's loop: readFrom, checkMappable, NewTx *)
  Definition read_tx_mapped : bytes -> res5 (tx_data * bytes) := fun buf =>
    match lift (read_txdata aid buf) with
    | Ok (t, r) =>
      match check_mappable t with
      | Ok _ =>
        match map_tx t with
        | Ok _ => Ok (t, r)
        | Err e => Err e
        | Panic p => Panic p
        end
      | Err e => Err e
      | Panic p => Panic p
      end
    | Err e => Err e
    | Panic p => Panic p
    end.

  Fixpoint read_txs_mapped (fuel : nat) (n : N) (buf : bytes) : res5 (list tx_data * bytes) :=
    if n =? 0 then Ok ([], buf)
    else
      match fuel with
      | O => Err (E4 EEOF)
      | S f =>
        match read_tx_mapped buf with
        | Ok (t, r) =>
          match read_txs_mapped f (n - 1) r with
          | Ok (l, r') => Ok (t :: l, r')
          | Err e => Err e
          | Panic q => Panic q
          end
        | Err e => Err e
        | Panic q => Panic q
        end
      end.

  (* Block.readFrom *)
  Definition read_block5 : bytes -> res5 (block * bytes) := fun buf =>
    match lift (read_header nv buf) with
    | Ok ((flag, h), r1) =>
      if flag =? SerBlockHeader then Ok (mkBlock h [], r1)
      else
        match lift (read_varint31 r1) with
        | Ok (n, r2) =>
          match read_txs_mapped (S (length r2)) n r2 with
          | Ok (txs, r3) => Ok (mkBlock h txs, r3)
          | Err e => Err e
          | Panic p => Panic p
          end
        | Err e => Err e
        | Panic p => Panic p
        end
    | Err e => Err e
    | Panic p => Panic p
    end.

  (* Block.UnmarshalText *)
  Definition unmarshal_block5 (text : bytes) : res5 block :=
    match lift (hex_decode text) with
    | Ok bs =>
      match read_block5 bs with
      | Ok (b, r) => match r with [] => Ok b | _ => Err (E4 ETrailing) end
      | Err e => Err e
      | Panic p => Panic p
      end
    | Err e => Err e
    | Panic p => Panic p
    end.

  (* BlockHeader.UnmarshalText *)
  Definition unmarshal_header5 (text : bytes) : res5 block_header := lift (unmarshal_header nv text).

  (* ------------------------------------------------------- network messages *)

  (* the payload of a decoded message as far as it carries ledger values *)
  Inductive payload :=
  | PBlock (raw : bytes)              (* BlockMessage / MineBlockMessage / BlockProposeMsg *)
  | PBlocks (raws : list bytes)       (* BlocksMessage: JSON *)
  | PHeaders (raws : list bytes)      (* HeadersMessage: JSON *)
  | PTx (raw : bytes)                 (* TransactionMessage *)
  | PTxs (raws : list bytes)          (* TransactionsMessage *)
  | POther.                           (* requests, status, filters, votes: no ledger payload *)

  (* go-wire's ReadBinary for the registered struct selected by the type byte (third party) *)
  Variable wire : N -> bytes -> res5 payload.
  (* the registered type bytes *)
  Variable registered : N -> bool.

  (* decodeMessage: (message type, message); a nil message for type byte 0 *)
  Definition decode_message (bz : bytes) : res5 (N * option payload) :=
    match bz with
    | [] => Err EEmpty                      (* repaired; the pinned tree indexed bz[0]: Panic IndexOOR *)
    | t :: rest =>
      if t =? 0 then Ok (t, None)
      else if registered t then
        match wire t rest with
        | Ok m => Ok (t, Some m)
        | Err e => Err e
        | Panic p => Panic p
        end
      else Err EWire
    end.

  (* encoding/json on a TextUnmarshaler: Some text for a JSON string, None for null *)
  Variable unquote : bytes -> res5 (option bytes).

  Definition json_header (data : bytes) : res5 block_header :=
    match unquote data with
    | Ok (Some text) => unmarshal_header5 text
    | Ok None => Ok zero_header
    | Err e => Err e
    | Panic p => Panic p
    end.

  Definition json_block (data : bytes) : res5 block :=
    match unquote data with
    | Ok (Some text) => unmarshal_block5 text
    | Ok None => Ok (mkBlock zero_header [])
    | Err e => Err e
    | Panic p => Panic p
    end.

  Fixpoint all_ok {A B} (f : A -> res5 B) (l : list A) : res5 (list B) :=
    match l with
    | [] => Ok []
    | a :: t =>
      match f a with
      | Ok b =>
        match all_ok f t with
        | Ok bs => Ok (b :: bs)
        | Err e => Err e
        | Panic p => Panic p
        end
      | Err e => Err e
      | Panic p => Panic p
      end
    end.

  (* what the handlers extract from a message: number of ledger values obtained *)
  Definition access (m : payload) : res5 N :=
    match m with
    | PBlock raw => match unmarshal_block5 raw with Ok _ => Ok 1 | Err e => Err e | Panic p => Panic p end
    | PBlocks raws => match all_ok json_block raws with Ok l => Ok (len l) | Err e => Err e | Panic p => Panic p end
    | PHeaders raws => match all_ok json_header raws with Ok l => Ok (len l) | Err e => Err e | Panic p => Panic p end
    | PTx raw => match unmarshal_tx5 raw with Ok _ => Ok 1 | Err e => Err e | Panic p => Panic p end
    | PTxs raws => match all_ok unmarshal_tx5 raws with Ok l => Ok (len l) | Err e => Err e | Panic p => Panic p end
    | POther => Ok 0
    end.

  (* Receive: decodeMessage, then the payload accessor of the handler *)
  Definition receive (bz : bytes) : res5 N :=
    match decode_message bz with
    | Ok (_, Some m) => access m
    | Ok (_, None) => Ok 0
    | Err e => Err e
    | Panic p => Panic p
    end.

  (* ----------------------------------------------------- allocation meter *)

  (* nominal sizes *)
  Definition c_reader : N := 48.       (* ReadExtensibleString: &Reader{} + closure *)
  Definition c_strelem : N := 48.      (* [][]byte append: 24-byte slice header, growth x2 *)
  Definition c_ptrelem : N := 16.      (* []*T append: 8-byte pointer, growth x2 *)
  Definition c_txinput : N := 80.      (* new(TxInput) *)
  Definition c_typed_in : N := 192.    (* largest typed input body (VetoInput) *)
  Definition c_assetid : N := 32.      (* AssetAmount.ReadFrom: escaping AssetID *)
  Definition c_txoutput : N := 128.    (* new(TxOutput) *)
  Definition c_typed_out : N := 24.    (* &VoteOutput{} *)
  Definition c_suplink : N := 288.     (* &SupLink{} *)
  Definition c_tx : N := 128.          (* TxData{} + &Tx{} *)
  Definition c_map_fixed : N := 8192.  (* MapTx: helper, mux, header entry, maps *)
  Definition c_map_in : N := 2048.     (* MapTx: entries and ids per input *)
  Definition c_map_out : N := 1024.    (* MapTx: entries and ids per output *)

  Definition then_ {A} (p : parser A) (buf : bytes) (k : A -> bytes -> N) : N :=
    match p buf with
    | Ok (a, r) => k a r
    | _ => 0
    end.

  (* a loop "for ; n > 0; n--": [cost_elem] is charged when the iteration starts *)
  Fixpoint cost_many {A} (cost_elem : bytes -> N) (p : parser A) (fuel : nat) (n : N) (buf : bytes) : N :=
    if n =? 0 then 0
    else
      match fuel with
      | O => 0
      | S f =>
        cost_elem buf +
        match p buf with
        | Ok (_, r) => cost_many cost_elem p f (n - 1) r
        | _ => 0
        end
      end.

  (* ReadVarstrList: append per element read *)
  Definition cost_varstr_list (buf : bytes) : N :=
    then_ read_varint31 buf (fun n r =>
      cost_many (fun _ => c_strelem) read_varstr31 (S (length r)) n r).

  (* SpendCommitment.readFrom: one extensible string *)
  Definition cost_sc_contents (s : bytes) : N :=
    then_ read_hash s (fun _ s1 =>
    then_ read_hash s1 (fun _ s2 =>
    c_assetid +
    then_ read_varint63 s2 (fun _ s3 =>
    then_ read_varint63 s3 (fun _ s4 =>
    then_ read_varint63 s4 (fun vmv s5 =>
    if negb (vmv =? 1) then 0 else
    then_ read_varstr31 s5 (fun _ s6 => cost_varstr_list s6)))))).
  Definition cost_sc (buf : bytes) : N :=
    c_reader + then_ read_varstr31 buf (fun s _ => cost_sc_contents s).

  (* parseTypedInput + readCommitment *)
  Definition cost_in_commit (s : bytes) : N :=
    then_ read_byte s (fun ty s1 =>
      if (ty =? IssuanceInputType) || (ty =? CoinbaseInputType) then c_typed_in
      else if (ty =? SpendInputType) || (ty =? VetoInputType) then c_typed_in + cost_sc s1
      else 0).

  (* readWitness *)
  Definition cost_in_witness (c : in_commit) (s : bytes) : N :=
    match c with
    | CIssuance _ _ _ =>
      then_ read_varstr31 s (fun _ s1 =>
      then_ read_varint63 s1 (fun _ s2 =>
      then_ read_varstr31 s2 (fun _ s3 => cost_varstr_list s3)))
    | CSpend _ _ => cost_varstr_list s
    | CCoinbase _ => 0
    | CVeto _ _ _ => cost_varstr_list s
    end.

  (* one iteration of the input loop: new(TxInput), readFrom, append *)
  Definition cost_input (buf : bytes) : N :=
    c_txinput + c_ptrelem +
    then_ read_varint63 buf (fun av r1 =>
      if av =? 1 then
        c_reader +
        then_ read_varstr31 r1 (fun s r2 =>
          cost_in_commit s +
          match read_in_commit s with
          | Ok (c, _) =>
            c_reader + then_ read_varstr31 r2 (fun w _ => cost_in_witness c w)
          | _ => 0
          end)
      else
        c_reader + then_ read_varstr31 r1 (fun _ _ => c_reader)).

  (* one iteration of the output loop *)
  Definition cost_out_body (av ty : N) (s : bytes) : N :=
    c_typed_out +
    (if ty =? VoteOutputType then
       then_ read_varstr31 s (fun _ s1 =>
         if av =? 1 then then_ read_hash s1 (fun _ s2 => c_assetid +
           then_ read_varint63 s2 (fun _ s3 => then_ read_varint63 s3 (fun vmv s4 =>
           if negb (vmv =? 1) then 0 else then_ read_varstr31 s4 (fun _ s5 => cost_varstr_list s5))))
         else 0)
     else
       if av =? 1 then then_ read_hash s (fun _ s2 => c_assetid +
         then_ read_varint63 s2 (fun _ s3 => then_ read_varint63 s3 (fun vmv s4 =>
         if negb (vmv =? 1) then 0 else then_ read_varstr31 s4 (fun _ s5 => cost_varstr_list s5))))
       else 0).

  Definition cost_output (buf : bytes) : N :=
    c_txoutput + c_ptrelem +
    then_ read_varint63 buf (fun av r1 =>
    then_ read_byte r1 (fun ty r2 =>
      if negb ((ty =? OriginalOutputType) || (ty =? VoteOutputType)) then 0
      else c_reader + then_ read_varstr31 r2 (fun s _ => cost_out_body av ty s))).

  (* TxData.readFrom *)
  Definition cost_txdata (buf : bytes) : N :=
    then_ read_byte buf (fun flags r1 =>
      if negb (flags =? serRequired) then 0 else
      then_ read_varint63 r1 (fun _ r2 =>
      then_ read_varint63 r2 (fun _ r3 =>
      then_ read_varint31 r3 (fun nin r4 =>
        cost_many cost_input (read_input aid) (S (length r4)) nin r4 +
        then_ (read_list (read_input aid) nin) r4 (fun _ r5 =>
        then_ read_varint31 r5 (fun nout r6 =>
          cost_many cost_output read_output (S (length r6)) nout r6)))))).

  (* MapTx on a decoded transaction *)
  Definition cost_map (t : tx_data) : N :=
    c_map_fixed + c_map_in * len (tx_inputs t) + c_map_out * len (tx_outputs t).

  (* hex.DecodedLen(len(text)) bytes *)
  Definition cost_hex (text : bytes) : N := len text / 2.

  (* TxData.UnmarshalText / Tx.UnmarshalText *)
  Definition alloc_tx (text : bytes) : N :=
    cost_hex text +
    match hex_decode text with
    | Ok b =>
      cost_txdata b +
      match unmarshal_tx5 text with
      | Ok t => cost_map t
      | _ => 0
      end
    | _ => 0
    end.

  (* SupLink.readFrom within the loop: &SupLink{} *)
  Definition cost_suplinks (buf : bytes) : N :=
    then_ read_varint31 buf (fun n r =>
      if len r <? n then 0
      else 8 * n + cost_many (fun _ => c_suplink) (read_suplink nv) (S (length r)) n r).

  (* BlockHeader.readFrom: three extensible strings; only the sup links allocate per element *)
  Definition cost_header (buf : bytes) : N :=
    then_ read_byte buf (fun flag r1 =>
      if flag =? SerBlockTransactions then 0
      else if negb ((flag =? SerBlockHeader) || (flag =? SerBlockFull)) then 0
      else
        then_ read_varint63 r1 (fun _ r2 =>
        then_ read_varint63 r2 (fun _ r3 =>
        then_ read_hash r3 (fun _ r4 =>
        then_ read_varint63 r4 (fun _ r5 =>
        c_reader +
        then_ (read_ext read_hash) r5 (fun _ r6 =>
        c_reader +
        then_ (read_ext read_varstr31) r6 (fun _ r7 =>
        c_reader +
        then_ read_varstr31 r7 (fun s _ => cost_suplinks s)))))))).

  Definition alloc_header (text : bytes) : N :=
    cost_hex text +
    match hex_decode text with
    | Ok b => cost_header b
    | _ => 0
    end.

  (* one iteration of Block.readFrom's loop: TxData{}, readFrom, NewTx, append *)
  Definition cost_tx_mapped (buf : bytes) : N :=
    c_tx + c_ptrelem + cost_txdata buf +
    match read_tx_mapped buf with
    | Ok (t, _) => cost_map t
    | _ => 0
    end.

  Fixpoint cost_txs_mapped (fuel : nat) (n : N) (buf : bytes) : N :=
    if n =? 0 then 0
    else
      match fuel with
      | O => 0
      | S f =>
        cost_tx_mapped buf +
        match read_tx_mapped buf with
        | Ok (_, r) => cost_txs_mapped f (n - 1) r
        | _ => 0
        end
      end.

  Definition cost_block (buf : bytes) : N :=
    cost_header buf +
    then_ (read_header nv) buf (fun fh r1 =>
      if fst fh =? SerBlockHeader then 0
      else then_ read_varint31 r1 (fun n r2 => cost_txs_mapped (S (length r2)) n r2)).

  Definition alloc_block (text : bytes) : N :=
    cost_hex text +
    match hex_decode text with
    | Ok b => cost_block b
    | _ => 0
    end.
End Decoders.
