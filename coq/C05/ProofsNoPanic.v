(* C05 — proofs, part 1: no decoder and no entry point panics. *)
From Coq Require Import List NArith Arith Bool Lia.
From Verif Require Import Outcome Cmp.
From C04 Require Import Model.
From C05 Require Import Model.
Import ListNotations.
Open Scope N_scope.

Create HintDb np discriminated.

(* destruct the innermost scrutinee of some match in the goal *)
Ltac destruct_match :=
  match goal with
  | |- context [match ?x with _ => _ end] =>
    lazymatch x with
    | context [match _ with _ => _ end] => fail
    | _ => let E := fresh "E" in destruct x eqn:E
    end
  end.

Ltac np_finish :=
  try congruence;
  try (exfalso;
       match goal with
       | E : _ = Panic _ |- _ => solve [eapply (ltac:(eauto with np)); exact E]
       end).

Ltac np_close :=
  match goal with
  | |- Ok _ <> Panic _ => discriminate
  | |- Err _ <> Panic _ => discriminate
  | E : ?x = Panic ?p |- Panic _ <> Panic _ =>
    exfalso; assert (Hnp : x <> Panic p) by (auto with np); exact (Hnp E)
  end.

Ltac np_auto := intros; repeat destruct_match; try np_close.

Lemma np_read_uv : forall n s x buf q, read_uv n s x buf <> Panic q.
Proof.
  induction n as [|n IH]; intros s x buf q; cbn [read_uv]; [discriminate|].
  destruct buf as [|b rest]; [discriminate|].
  destruct (b <? 128); [destruct n; [destruct (1 <? b)|]; discriminate | apply IH].
Qed.
Lemma np_uvarint buf q : read_uvarint buf <> Panic q.
Proof. apply np_read_uv. Qed.
#[export] Hint Resolve np_uvarint : np.

Lemma np_varint31 buf q : read_varint31 buf <> Panic q.
Proof. unfold read_varint31. np_auto. Qed.
Lemma np_varint63 buf q : read_varint63 buf <> Panic q.
Proof. unfold read_varint63. np_auto. Qed.
#[export] Hint Resolve np_varint31 np_varint63 : np.

Lemma np_byte buf q : read_byte buf <> Panic q.
Proof. unfold read_byte. np_auto. Qed.
Lemma np_hash buf q : read_hash buf <> Panic q.
Proof. unfold read_hash. np_auto. Qed.
Lemma np_varstr31 buf q : read_varstr31 buf <> Panic q.
Proof. unfold read_varstr31. np_auto. Qed.
#[export] Hint Resolve np_byte np_hash np_varstr31 : np.

Lemma np_many {A} (p : parser A) :
  (forall buf q, p buf <> Panic q) -> forall fuel n buf q, read_many p fuel n buf <> Panic q.
Proof.
  intros Hp. induction fuel as [|f IH]; intros n buf q; cbn [read_many].
  - destruct (n =? 0); discriminate.
  - destruct (n =? 0); [discriminate|].
    destruct (p buf) as [[a r]|e|x] eqn:E; [|discriminate|exfalso; eapply Hp; eassumption].
    destruct (read_many p f (n - 1) r) as [[l r']|e|x] eqn:E2; [discriminate|discriminate|].
    exfalso. eapply IH. eassumption.
Qed.
Lemma np_list {A} (p : parser A) :
  (forall buf q, p buf <> Panic q) -> forall n buf q, read_list p n buf <> Panic q.
Proof. intros Hp n buf q. apply np_many. assumption. Qed.

Lemma np_varstr_list buf q : read_varstr_list buf <> Panic q.
Proof.
  unfold read_varstr_list. destruct (read_varint31 buf) as [[n r]|e|x] eqn:E.
  - apply np_list. intros; apply np_varstr31.
  - discriminate.
  - exfalso. eapply np_varint31. eassumption.
Qed.
#[export] Hint Resolve np_varstr_list : np.

Lemma np_ext {A} (f : parser A) :
  (forall buf q, f buf <> Panic q) -> forall buf q, read_ext f buf <> Panic q.
Proof.
  intros Hf buf q. unfold read_ext.
  destruct (read_varstr31 buf) as [[s r]|e|x] eqn:E; [|discriminate|exfalso; eapply np_varstr31; eassumption].
  destruct (f s) as [[a sfx]|e|x] eqn:E2; [discriminate|discriminate|exfalso; eapply Hf; eassumption].
Qed.

Lemma np_sc_contents buf q : read_sc_contents buf <> Panic q.
Proof. unfold read_sc_contents. np_auto. Qed.
#[export] Hint Resolve np_sc_contents : np.
Lemma np_sc buf q : read_sc buf <> Panic q.
Proof. apply np_ext. intros; apply np_sc_contents. Qed.
#[export] Hint Resolve np_sc : np.

Lemma np_in_commit buf q : read_in_commit buf <> Panic q.
Proof. unfold read_in_commit. np_auto. Qed.
#[export] Hint Resolve np_in_commit : np.

Section WithAssetID.
  Variable aid : bytes -> N -> bytes -> bytes.
  Variable nv : nat.

  Lemma np_in_witness c buf q : read_in_witness aid c buf <> Panic q.
  Proof. unfold read_in_witness. np_auto. Qed.

  Lemma np_input buf q : read_input aid buf <> Panic q.
  Proof.
    unfold read_input.
    destruct (read_varint63 buf) as [[av r1]|e|x] eqn:E; [|discriminate|exfalso; eapply np_varint63; eassumption].
    destruct (av =? 1).
    - destruct (read_ext read_in_commit r1) as [[[c csfx] r2]|e|x] eqn:E2;
        [|discriminate|exfalso; eapply (np_ext read_in_commit np_in_commit); eassumption].
      destruct (read_ext (read_in_witness aid c) r2) as [[[ti wsfx] r3]|e|x] eqn:E3;
        [discriminate|discriminate|exfalso; eapply (np_ext _ (np_in_witness c)); eassumption].
    - np_auto.
  Qed.

  Lemma np_oc buf q : read_oc buf <> Panic q.
  Proof. unfold read_oc. np_auto. Qed.
  Hint Resolve np_oc : np.

  Lemma np_out_body av ty buf q : read_out_body av ty buf <> Panic q.
  Proof. unfold read_out_body. np_auto. Qed.

  Lemma np_output buf q : read_output buf <> Panic q.
  Proof.
    unfold read_output.
    destruct (read_varint63 buf) as [[av r1]|e|x] eqn:E; [|discriminate|exfalso; eapply np_varint63; eassumption].
    destruct (read_byte r1) as [[ty r2]|e|x] eqn:E1; [|discriminate|exfalso; eapply np_byte; eassumption].
    destruct (negb _); [discriminate|].
    destruct (read_ext (read_out_body av ty) r2) as [[[[t oc] sfx] r3]|e|x] eqn:E2;
      [|discriminate|exfalso; eapply (np_ext _ (np_out_body av ty)); eassumption].
    np_auto.
  Qed.

  Lemma np_txdata buf q : read_txdata aid buf <> Panic q.
  Proof.
    unfold read_txdata.
    destruct (read_byte buf) as [[fl r1]|e|x] eqn:E0; [|discriminate|exfalso; eapply np_byte; eassumption].
    destruct (negb _); [discriminate|].
    destruct (read_varint63 r1) as [[ver r2]|e|x] eqn:E1; [|discriminate|exfalso; eapply np_varint63; eassumption].
    destruct (read_varint63 r2) as [[tr r3]|e|x] eqn:E2; [|discriminate|exfalso; eapply np_varint63; eassumption].
    destruct (read_varint31 r3) as [[nin r4]|e|x] eqn:E3; [|discriminate|exfalso; eapply np_varint31; eassumption].
    destruct (read_list (read_input aid) nin r4) as [[ins r5]|e|x] eqn:E4;
      [|discriminate|exfalso; eapply (np_list _ np_input); eassumption].
    destruct (read_varint31 r5) as [[nout r6]|e|x] eqn:E5; [|discriminate|exfalso; eapply np_varint31; eassumption].
    destruct (read_list read_output nout r6) as [[outs r7]|e|x] eqn:E6;
      [discriminate|discriminate|exfalso; eapply (np_list _ np_output); eassumption].
  Qed.

  Lemma np_sigs k buf q : read_sigs k buf <> Panic q.
  Proof.
    revert buf q. induction k as [|k IH]; intros buf q; cbn [read_sigs]; [discriminate|].
    destruct (read_varstr31 buf) as [[s r]|e|x] eqn:E; [|discriminate|exfalso; eapply np_varstr31; eassumption].
    destruct (read_sigs k r) as [[l r']|e|x] eqn:E2; [discriminate|discriminate|exfalso; eapply IH; eassumption].
  Qed.

  Lemma np_suplink buf q : read_suplink nv buf <> Panic q.
  Proof.
    unfold read_suplink.
    destruct (read_varint63 buf) as [[h r1]|e|x] eqn:E; [|discriminate|exfalso; eapply np_varint63; eassumption].
    destruct (read_hash r1) as [[hs r2]|e|x] eqn:E1; [|discriminate|exfalso; eapply np_hash; eassumption].
    destruct (read_sigs nv r2) as [[l r3]|e|x] eqn:E2; [discriminate|discriminate|exfalso; eapply np_sigs; eassumption].
  Qed.

  Lemma np_suplinks buf q : read_suplinks nv buf <> Panic q.
  Proof.
    unfold read_suplinks.
    destruct (read_varint31 buf) as [[n r]|e|x] eqn:E; [|discriminate|exfalso; eapply np_varint31; eassumption].
    destruct (len r <? n); [discriminate|]. apply np_list. apply np_suplink.
  Qed.

  Lemma np_header buf q : read_header nv buf <> Panic q.
  Proof.
    unfold read_header.
    destruct (read_byte buf) as [[fl r1]|e|x] eqn:E0; [|discriminate|exfalso; eapply np_byte; eassumption].
    destruct (fl =? SerBlockTransactions); [discriminate|].
    destruct (negb _); [discriminate|].
    destruct (read_varint63 r1) as [[ver r2]|e|x] eqn:E1; [|discriminate|exfalso; eapply np_varint63; eassumption].
    destruct (read_varint63 r2) as [[hg r3]|e|x] eqn:E2; [|discriminate|exfalso; eapply np_varint63; eassumption].
    destruct (read_hash r3) as [[pv r4]|e|x] eqn:E3; [|discriminate|exfalso; eapply np_hash; eassumption].
    destruct (read_varint63 r4) as [[ts r5]|e|x] eqn:E4; [|discriminate|exfalso; eapply np_varint63; eassumption].
    destruct (read_ext read_hash r5) as [[[root s1] r6]|e|x] eqn:E5;
      [|discriminate|exfalso; eapply (np_ext _ np_hash); eassumption].
    destruct (read_ext read_varstr31 r6) as [[[wit s2] r7]|e|x] eqn:E6;
      [|discriminate|exfalso; eapply (np_ext _ np_varstr31); eassumption].
    destruct (read_ext (read_suplinks nv) r7) as [[[sls s3] r8]|e|x] eqn:E7;
      [discriminate|discriminate|exfalso; eapply (np_ext _ np_suplinks); eassumption].
  Qed.

  Lemma np_hex s q : hex_decode s <> Panic q.
  Proof.
    revert s q. fix IH 1. intros s q. destruct s as [|p [|c r]]; cbn [hex_decode]; try discriminate.
    destruct (from_hex_char p); [|discriminate]. destruct (from_hex_char c); [|discriminate].
    destruct (hex_decode r) as [t|e|x] eqn:E; [discriminate|discriminate|].
    exfalso. eapply IH. eassumption.
  Qed.

  Lemma np_unmarshal_tx text q : unmarshal_tx aid text <> Panic q.
  Proof.
    unfold unmarshal_tx.
    destruct (hex_decode text) as [b|e|x] eqn:E; [|discriminate|exfalso; eapply np_hex; eassumption].
    destruct (read_txdata aid b) as [[t r]|e|x] eqn:E1; [|discriminate|exfalso; eapply np_txdata; eassumption].
    destruct r; discriminate.
  Qed.

  Lemma np_unmarshal_header text q : unmarshal_header nv text <> Panic q.
  Proof.
    unfold unmarshal_header.
    destruct (hex_decode text) as [b|e|x] eqn:E; [|discriminate|exfalso; eapply np_hex; eassumption].
    destruct (read_header nv b) as [[[fl h] r]|e|x] eqn:E1; [|discriminate|exfalso; eapply np_header; eassumption].
    destruct (fl =? SerBlockTransactions); discriminate.
  Qed.

  Lemma lift_panic {A} (r : res A) q : lift r = Panic q -> r = Panic q.
  Proof. destruct r; cbn; congruence. Qed.

  (* checkMappable passed => MapTx's type switch never reaches its default case *)
  Lemma map_after_check t : check_mappable t = Ok tt -> map_tx t = Ok tt.
  Proof.
    unfold check_mappable, map_tx. destruct (forallb typed (tx_inputs t)); [reflexivity|discriminate].
  Qed.

  Lemma np_check t q : check_mappable t <> Panic q.
  Proof. unfold check_mappable. destruct (forallb _ _); discriminate. Qed.

  (* Tx.UnmarshalText *)
  Lemma np_tx5 text q : unmarshal_tx5 aid text <> Panic q.
  Proof.
    unfold unmarshal_tx5.
    destruct (lift (unmarshal_tx aid text)) as [t|e|x] eqn:E;
      [|discriminate|exfalso; apply lift_panic in E; eapply np_unmarshal_tx; eassumption].
    destruct (check_mappable t) as [[]|e|x] eqn:E1; [|discriminate|exfalso; eapply np_check; eassumption].
    rewrite (map_after_check t E1). discriminate.
  Qed.

  Lemma np_tx_mapped buf q : read_tx_mapped aid buf <> Panic q.
  Proof.
    unfold read_tx_mapped.
    destruct (lift (read_txdata aid buf)) as [[t r]|e|x] eqn:E;
      [|discriminate|exfalso; apply lift_panic in E; eapply np_txdata; eassumption].
    destruct (check_mappable t) as [[]|e|x] eqn:E1; [|discriminate|exfalso; eapply np_check; eassumption].
    rewrite (map_after_check t E1). discriminate.
  Qed.

  Lemma np_txs_mapped fuel n buf q : read_txs_mapped aid fuel n buf <> Panic q.
  Proof.
    revert n buf q. induction fuel as [|f IH]; intros n buf q; cbn [read_txs_mapped].
    - destruct (n =? 0); discriminate.
    - destruct (n =? 0); [discriminate|].
      destruct (read_tx_mapped aid buf) as [[t r]|e|x] eqn:E; [|discriminate|exfalso; eapply np_tx_mapped; eassumption].
      destruct (read_txs_mapped aid f (n - 1) r) as [[l r']|e|x] eqn:E2; [discriminate|discriminate|].
      exfalso. eapply IH. eassumption.
  Qed.

  Lemma np_block5_raw buf q : read_block5 aid nv buf <> Panic q.
  Proof.
    unfold read_block5.
    destruct (lift (read_header nv buf)) as [[[fl h] r1]|e|x] eqn:E;
      [|discriminate|exfalso; apply lift_panic in E; eapply np_header; eassumption].
    destruct (fl =? SerBlockHeader); [discriminate|].
    destruct (lift (read_varint31 r1)) as [[n r2]|e|x] eqn:E1;
      [|discriminate|exfalso; apply lift_panic in E1; eapply np_varint31; eassumption].
    destruct (read_txs_mapped aid (S (length r2)) n r2) as [[txs r3]|e|x] eqn:E2;
      [discriminate|discriminate|exfalso; eapply np_txs_mapped; eassumption].
  Qed.

  (* Block.UnmarshalText *)
  Lemma np_block5 text q : unmarshal_block5 aid nv text <> Panic q.
  Proof.
    unfold unmarshal_block5.
    destruct (lift (hex_decode text)) as [b|e|x] eqn:E;
      [|discriminate|exfalso; apply lift_panic in E; eapply np_hex; eassumption].
    destruct (read_block5 aid nv b) as [[bl r]|e|x] eqn:E1; [|discriminate|exfalso; eapply np_block5_raw; eassumption].
    destruct r; discriminate.
  Qed.

  (* BlockHeader.UnmarshalText *)
  Lemma np_header5 text q : unmarshal_header5 nv text <> Panic q.
  Proof.
    unfold unmarshal_header5. intros H. apply lift_panic in H. eapply np_unmarshal_header. eassumption.
  Qed.

  (* ---------------------------------------------------------- messages *)

  Variable wire : N -> bytes -> res5 payload.
  Variable registered : N -> bool.
  Variable unquote : bytes -> res5 (option bytes).
  (* the third-party readers return a value or an error *)
  Hypothesis wire_no_panic : forall t b q, wire t b <> Panic q.
  Hypothesis unquote_no_panic : forall b q, unquote b <> Panic q.

  Lemma np_decode_message bz q : decode_message wire registered bz <> Panic q.
  Proof.
    unfold decode_message. destruct bz as [|t rest]; [discriminate|].
    destruct (t =? 0); [discriminate|]. destruct (registered t); [|discriminate].
    destruct (wire t rest) as [m|e|x] eqn:E; [discriminate|discriminate|].
    exfalso. eapply wire_no_panic. eassumption.
  Qed.

  Lemma np_all_ok {A B} (f : A -> res5 B) :
    (forall a q, f a <> Panic q) -> forall l q, all_ok f l <> Panic q.
  Proof.
    intros Hf. induction l as [|a l IH]; intros q; cbn [all_ok]; [discriminate|].
    destruct (f a) as [b|e|x] eqn:E; [|discriminate|exfalso; eapply Hf; eassumption].
    destruct (all_ok f l) as [bs|e|x] eqn:E2; [discriminate|discriminate|].
    exfalso. exact (IH x eq_refl).
  Qed.

  Lemma np_json_header data q : json_header nv unquote data <> Panic q.
  Proof.
    unfold json_header. destruct (unquote data) as [[text|]|e|x] eqn:E;
      [apply np_header5|discriminate|discriminate|exfalso; eapply unquote_no_panic; eassumption].
  Qed.

  Lemma np_json_block data q : json_block aid nv unquote data <> Panic q.
  Proof.
    unfold json_block. destruct (unquote data) as [[text|]|e|x] eqn:E;
      [apply np_block5|discriminate|discriminate|exfalso; eapply unquote_no_panic; eassumption].
  Qed.

  Lemma np_access m q : access aid nv unquote m <> Panic q.
  Proof.
    destruct m as [raw|raws|raws|raw|raws|]; cbn [access].
    - destruct (unmarshal_block5 aid nv raw) eqn:E; [discriminate|discriminate|exfalso; eapply np_block5; eassumption].
    - destruct (all_ok (json_block aid nv unquote) raws) eqn:E; [discriminate|discriminate|].
      exfalso. eapply (np_all_ok _ np_json_block). eassumption.
    - destruct (all_ok (json_header nv unquote) raws) eqn:E; [discriminate|discriminate|].
      exfalso. eapply (np_all_ok _ np_json_header). eassumption.
    - destruct (unmarshal_tx5 aid raw) eqn:E; [discriminate|discriminate|exfalso; eapply np_tx5; eassumption].
    - destruct (all_ok (unmarshal_tx5 aid) raws) eqn:E; [discriminate|discriminate|].
      exfalso. eapply (np_all_ok _ np_tx5). eassumption.
    - discriminate.
  Qed.

  Lemma np_receive bz q : receive aid nv wire registered unquote bz <> Panic q.
  Proof.
    unfold receive.
    destruct (decode_message wire registered bz) as [[t [m|]]|e|x] eqn:E;
      [apply np_access|discriminate|discriminate|exfalso; eapply np_decode_message; eassumption].
  Qed.
End WithAssetID.
