(* C05 — running the model on the correspondence cases.  No proofs here. *)
From Coq Require Import List NArith Bool Uint63.
From Verif Require Import Outcome Cmp.
From C04 Require Import Model Run.
From C05 Require Import Model.
Import ListNotations.
Open Scope N_scope.

(* observable: (class, numbers, measured allocation dominated by the meter)
   class 0 = value, 1 = error, 3 = panic *)
Definition obs := (nat * list N * bool)%type.
Definition obs_eqb (a b : obs) : bool :=
  Nat.eqb (fst (fst a)) (fst (fst b)) && list_eqb N.eqb (snd (fst a)) (snd (fst b)) &&
  Bool.eqb (snd a) (snd b).

Definition class {A} (r : res5 A) : nat :=
  match r with Ok _ => 0%nat | Err _ => 1%nat | Panic _ => 3%nat end.

(* the measured TotalAlloc delta must stay below 8 x meter + 64 KiB *)
Definition dominated (measured meter : N) : bool := measured <=? 8 * meter + 65536.

(* Tx.UnmarshalText on the text *)
Definition run_tx5_text (text : bytes) (measured : N) : obs :=
  let aid := real_aid in
  match unmarshal_tx5 aid text with
  | Ok t => (0%nat, [len (tx_inputs t); len (tx_outputs t); tx_size t], dominated measured (alloc_tx aid text))
  | Err _ => (1%nat, [], dominated measured (alloc_tx aid text))
  | Panic _ => (3%nat, [], true)
  end.
Definition run_tx5 (raw : bytes) (measured : N) : obs := run_tx5_text (hex_encode raw) measured.

(* TxData.UnmarshalText *)
Definition run_txdata_text (text : bytes) : obs :=
  match lift (unmarshal_tx real_aid text) with
  | Ok t => (0%nat, [len (tx_inputs t); len (tx_outputs t); tx_size t], true)
  | Err _ => (1%nat, [], true)
  | Panic _ => (3%nat, [], true)
  end.
Definition run_txdata (raw : bytes) : obs := run_txdata_text (hex_encode raw).

Definition run_header5_text (nv : nat) (text : bytes) (measured : N) : obs :=
  match unmarshal_header5 nv text with
  | Ok h => (0%nat, [len (bh_suplinks h); bh_height h], dominated measured (alloc_header nv text))
  | Err _ => (1%nat, [], dominated measured (alloc_header nv text))
  | Panic _ => (3%nat, [], true)
  end.
Definition run_header5 (nv : nat) (raw : bytes) (measured : N) : obs :=
  run_header5_text nv (hex_encode raw) measured.

Definition run_block5_text (nv : nat) (text : bytes) (measured : N) : obs :=
  let aid := real_aid in
  match unmarshal_block5 aid nv text with
  | Ok b => (0%nat, [len (b_txs b); len (bh_suplinks (b_header b))], dominated measured (alloc_block aid nv text))
  | Err _ => (1%nat, [], dominated measured (alloc_block aid nv text))
  | Panic _ => (3%nat, [], true)
  end.
Definition run_block5 (nv : nat) (raw : bytes) (measured : N) : obs :=
  run_block5_text nv (hex_encode raw) measured.

(* encoding/json on a TextUnmarshaler, the forms the harness generates: optional white space,
   null, or a string without escapes *)
Definition is_ws (c : N) : bool := (c =? 32) || (c =? 9) || (c =? 10) || (c =? 13).
Fixpoint drop_ws (s : bytes) : bytes :=
  match s with
  | c :: t => if is_ws c then drop_ws t else s
  | [] => []
  end.
Definition trim (s : bytes) : bytes := rev (drop_ws (rev (drop_ws s))).
Definition simple_unquote (data : bytes) : res5 (option bytes) :=
  let s := trim data in
  if bytes_eqb s [110; 117; 108; 108] then Ok None
  else
    match s with
    | 34 :: t =>
      match rev t with
      | 34 :: inner_rev =>
        let inner := rev inner_rev in
        if forallb (fun c => negb ((c =? 34) || (c =? 92) || (c <? 32))) inner then Ok (Some inner)
        else Err EJson
      | _ => Err EJson
      end
    | _ => Err EJson
    end.

(* a network message: [regs] the registered type bytes, [w] what go-wire's reader returned for
   this message (supplied by the harness: the reader is third-party) *)
Definition run_msg (nv : nat) (regs : list N) (bz : bytes) (w : res5 payload) : obs :=
  let registered := fun t => existsb (N.eqb t) regs in
  let wire := fun (_ : N) (_ : bytes) => w in
  match decode_message wire registered bz with
  | Ok (t, m) =>
    match m with
    | Some pl =>
      match access real_aid nv simple_unquote pl with
      | Ok n => (0%nat, [t; 0; n], true)
      | Err _ => (0%nat, [t; 1], true)
      | Panic _ => (0%nat, [t; 3], true)
      end
    | None => (0%nat, [t; 0; 0], true)
    end
  | Err _ => (1%nat, [], true)
  | Panic _ => (3%nat, [], true)
  end.
