(* C09 - tie between the opcode names of protocol/vm/ops.go (translated on every run by
   tools/optable into VerifGen.OpTable) and the name table of the hand-written model
   C09/Model.v ([name_early], [op_name]).  Finite sweep over the 256 opcode bytes. *)
From Coq Require Import NArith List String Bool Lia.
From C09 Require Import Model.
From VerifGen Require Import OpTable.
Import ListNotations.
Open Scope string_scope.
Open Scope N_scope.

Fixpoint assoc_gen (b : N) (t : list (N * (string * string))) : option string :=
  match t with
  | [] => None
  | (k, (n, _)) :: r => if k =? b then Some n else assoc_gen b r
  end.

(* ops[b].name when the first two loops of init() and its assignments are done, from the
   translated table: "DATA_%d" of b, "%d" of i+1 (the translator checks these two format strings
   literally), "" for the bytes the last loop will name NOPx%02x *)
Definition gen_name_early (b : N) : string :=
  match assoc_gen b op_table with
  | Some n => n
  | None =>
      if (data_lo <=? b) && (b <=? data_hi) then String.append "DATA_" (dec2 b)
      else if (small_base + small_lo <=? b) && (b <=? small_base + small_hi) then dec2 (b - small_base + 1)
      else EmptyString
  end.

Definition bytes256 : list N := map N.of_nat (seq 0 256).

Lemma bytes256_complete b : b < 256 -> In b bytes256.
Proof.
  intros H. unfold bytes256. apply in_map_iff. exists (N.to_nat b). split; [apply Nnat.N2Nat.id|].
  apply in_seq. lia.
Qed.

Lemma names_sweep : forallb (fun b => String.eqb (name_early b) (gen_name_early b)) bytes256 = true.
Proof. vm_compute. reflexivity. Qed.

Lemma optable_names_lemma b : b < 256 -> name_early b = gen_name_early b.
Proof.
  intros H. pose proof names_sweep as S. rewrite forallb_forall in S.
  apply String.eqb_eq. apply S. apply bytes256_complete. exact H.
Qed.

(* every literal name is non-empty (the last loop of init() tests name == "") and none collides
   with a generated DATA_n / decimal / NOPx name pattern's first characters in a way that would make
   opsByName ambiguous: all 256 final names are pairwise distinct *)
Fixpoint distinct (l : list string) : bool :=
  match l with
  | [] => true
  | x :: r => negb (existsb (String.eqb x) r) && distinct r
  end.

Lemma final_names_distinct : distinct (map op_name bytes256) = true.
Proof. vm_compute. reflexivity. Qed.
