(* C09 — Program parsing and assembly are consistent.  PROPERTY THEOREMS ONLY.
   Model: C09/Model.v (parse_program = ParseProgram with checked indexing; disassemble /
   assemble at token level, variant [repaired] = the code in /repo's working tree;
   recognisers, extractors, builders).  [tiles], [inst_at], [shape] are defined in
   C09/ProofsParse.v, [byte] in C09/ProofsAsm.v, [no_panic] / [recognised] in Proofs. *)
From Coq Require Import String.
From Coq Require Import List NArith Bool.
From Verif Require Import Outcome VM.
From C09 Require Import Proofs.
From C09 Require OpTie.
Import ListNotations.
Open Scope N_scope.

(* ParseOp with every index / slice expression checked is VM.parse_op: no index is ever
   out of range (an out-of-range access would be [Panic IndexOOR]) *)
Theorem c09_parse_op_checked : forall p pcv,
  parse_op_chk p pcv = match parse_op p pcv with inl e => Err e | inr i => Ok i end.
Proof. exact parse_op_chk_eq. Qed.
Print Assumptions c09_parse_op_checked.

(* ParseProgram never panics and never runs out of the model's fuel, on any byte string *)
Theorem c09_parse_total : forall p, no_panic (parse_program p).
Proof. exact parse_program_total. Qed.
Print Assumptions c09_parse_total.

(* Parsing fails or yields instructions that tile the program: consecutive offsets from 0
   to len(p), each instruction sits at its offset (opcode byte, length >= 1, within the
   program), its data is the corresponding slice of the program (OP_1..OP_16 carry the
   synthetic byte n), and the lengths add up to len(p) *)
Theorem c09_tiling : forall p is,
  parse_program p = Ok is -> tiles p 0 is /\ total_len is = lenN p.
Proof. exact tiling. Qed.
Print Assumptions c09_tiling.

(* parse_program is exactly left-to-right decoding (for programs the VM accepts by size) *)
Theorem c09_parse_is_decoding : forall p is, lenN p <= 2147483647 ->
  (parse_program p = Ok is <-> parses p is).
Proof. exact parse_program_parses. Qed.
Print Assumptions c09_parse_is_decoding.

(* Disassembling a parsable program and assembling the tokens gives a program that
   parses to the same instruction sequence ([same_insts]: pushes by data, jumps by opcode
   and relocated target, everything else by opcode), for ALL parsable byte strings whose
   re-assembly fits the VM's size limit (2 * len <= MaxInt32) *)
Theorem c09_roundtrip : forall p is,
  Forall byte p -> 2 * lenN p <= 2147483647 -> parse_program p = Ok is ->
  exists toks p' is',
    disassemble repaired p = Ok toks /\ assemble repaired toks = Some p'
    /\ parse_program p' = Ok is' /\ same_insts is is' = true.
Proof. exact roundtrip_repaired. Qed.
Print Assumptions c09_roundtrip.

(* recognisers agree with builders, for every hash / contract *)
Theorem c09_recognisers : forall h,
  is_p2wpkh (p2wpkh_program h) = (lenN h =? 20)
  /\ is_p2wsh (p2wsh_program h) = (lenN h =? 32)
  /\ is_call_contract (call_contract_program h) = (lenN h =? 32)
  /\ (lenN (register_program h) <= 2147483647 -> (is_bcrp (register_program h) = true <-> h <> [])).
Proof.
  intros h. split; [apply is_p2wpkh_builder|]. split; [apply is_p2wsh_builder|].
  split; [apply is_call_contract_builder|apply is_bcrp_builder].
Qed.
Print Assumptions c09_recognisers.

(* extractor after builder is the identity *)
Theorem c09_extractors : forall h,
  (lenN (p2wpkh_program h) <= 2147483647 -> get_hash (p2wpkh_program h) = Ok h)
  /\ (lenN (register_program h) <= 2147483647 -> parse_contract (register_program h) = Ok h)
  /\ (lenN h = 32 -> parse_contract_hash (call_contract_program h) = Ok h).
Proof.
  intros h. split; [apply get_hash_builder|]. split; [apply parse_contract_builder|apply parse_contract_hash_builder].
Qed.
Print Assumptions c09_extractors.

(* at most one of P2WPKH, P2WSH, straightforward, BCRP, call-contract recognises a program *)
Theorem c09_recognisers_exclusive : forall p,
  (List.length (filter (fun b => b) (recognised p)) <= 1)%nat.
Proof. exact exclusive. Qed.
Print Assumptions c09_recognisers_exclusive.

(* converse: a recognised pay-to-witness program IS the builder's output for the hash
   the extractor returns; a BCRP program yields a non-empty contract *)
Theorem c09_recognisers_shape : forall p,
  (is_p2wpkh p = true -> exists h, lenN h = 20 /\ p = p2wpkh_program h /\ get_hash p = Ok h)
  /\ (is_p2wsh p = true -> exists h, lenN h = 32 /\ p = p2wsh_program h /\ get_hash p = Ok h)
  /\ (is_bcrp p = true -> exists c, parse_contract p = Ok c /\ c <> []).
Proof.
  intros p. split; [apply is_p2wpkh_shape|]. split; [apply is_p2wsh_shape|apply is_bcrp_contract].
Qed.
Print Assumptions c09_recognisers_shape.

(* converse for call-contract programs: a recognised program IS the builder's output
   04 "bcrp" 20 <32 bytes> for the 32-byte hash it carries *)
Theorem c09_call_contract_shape : forall p,
  is_call_contract p = true -> exists h, lenN h = 32 /\ p = call_contract_program h.
Proof. exact is_call_contract_shape. Qed.
Print Assumptions c09_call_contract_shape.

(* ---- tie to the source: the name table of the model equals the table translated from
        protocol/vm/ops.go on this run (tools/optable -> VerifGen.OpTable), for all 256 bytes;
        the 256 printed names are pairwise distinct (so Assemble's lookup by name is unambiguous) ---- *)
Theorem c09_names_tied_to_source : forall b, b < 256 -> Model.name_early b = C09.OpTie.gen_name_early b.
Proof. exact C09.OpTie.optable_names_lemma. Qed.
Print Assumptions c09_names_tied_to_source.

Theorem c09_names_distinct : C09.OpTie.distinct (map Model.op_name C09.OpTie.bytes256) = true.
Proof. exact C09.OpTie.final_names_distinct. Qed.
Print Assumptions c09_names_distinct.
