(* C09 — executable model of program parsing, (dis)assembly at token level,
   recognisers and builders.  Mirrors protocol/vm/{ops,assemble,pushdata}.go,
   consensus/segwit/segwit.go, consensus/bcrp/bcrp.go, protocol/vm/vmutil/script.go.
   [parse_op], [push_data_bytes], [add_u32], [slice] are the ones of Verif.VM (tied to the
   Go code by the C08 correspondence as well); here [parse_op_chk] restates ParseOp with
   every index / slice expression checked ([Panic IndexOOR] when out of range) and
   C09/Proofs.v proves the two coincide.  No proofs in this file. *)
From Coq Require Import String Ascii.
From Coq Require Import List NArith Bool.
From Verif Require Import Outcome Cmp VM.
Import ListNotations.
Open Scope N_scope.
Open Scope outcome_scope.

Definition lenN {A} (l : list A) : N := N.of_nat (List.length l).

(* ---------- checked indexing ---------- *)

Definition idx (p : item) (i : N) : outcome vmerr N :=            (* p[i] *)
  match nth_error p (N.to_nat i) with
  | Some b => Ok b
  | None => Panic IndexOOR
  end.
Definition slice_chk (p : item) (lo hi : N) : outcome vmerr item := (* p[lo:hi] *)
  if (lo <=? hi) && (hi <=? lenN p) then Ok (slice p lo hi) else Panic IndexOOR.
Definition le_u16 (b : item) : outcome vmerr N :=       (* binary.LittleEndian.Uint16 *)
  match b with
  | b0 :: b1 :: _ => Ok (b0 + 256 * b1)
  | _ => Panic IndexOOR
  end.
Definition le_u32 (b : item) : outcome vmerr N :=       (* binary.LittleEndian.Uint32 *)
  match b with
  | b0 :: b1 :: b2 :: b3 :: _ => Ok (le_decode [b0; b1; b2; b3])
  | _ => Panic IndexOOR
  end.

Definition mk (op len : N) (d : item) : inst := {| i_op := op; i_len := len; i_data := d |}.

(* ---------- ParseOp with checked index expressions ---------- *)

Definition parse_op_chk (p : item) (pcv : N) : outcome vmerr inst :=
  let l := lenN p in
  if 2147483647 <? l then Err ELongProgram
  else if l <=? pcv then Err EShortProgram
  else
    do opc <- idx p pcv ;
    if (OP_1 <=? opc) && (opc <=? OP_16) then Ok (mk opc 1 [opc - OP_1 + 1])
    else if (OP_DATA_1 <=? opc) && (opc <=? OP_DATA_75) then
      let len := 1 + (opc - OP_DATA_1 + 1) in
      match add_u32 pcv len with
      | None => Err EOverflow
      | Some e => if l <? e then Err EShortProgram
                  else do d <- slice_chk p (pcv + 1) e ; Ok (mk opc len d)
      end
    else if opc =? OP_PUSHDATA1 then
      if pcv =? l - 1 then Err EShortProgram
      else
        do n <- idx p (pcv + 1) ;
        let len := 1 + n + 1 in
        match add_u32 pcv len with
        | None => Err EOverflow
        | Some e => if l <? e then Err EShortProgram
                    else do d <- slice_chk p (pcv + 2) e ; Ok (mk opc len d)
        end
    else if opc =? OP_PUSHDATA2 then
      if (l <? 3) || (l - 3 <? pcv) then Err EShortProgram
      else
        do s <- slice_chk p (pcv + 1) (pcv + 3) ;
        do n <- le_u16 s ;
        let len := 1 + n + 2 in
        match add_u32 pcv len with
        | None => Err EOverflow
        | Some e => if l <? e then Err EShortProgram
                    else do d <- slice_chk p (pcv + 3) e ; Ok (mk opc len d)
        end
    else if opc =? OP_PUSHDATA4 then
      if (l <? 5) || (l - 5 <? pcv) then Err EShortProgram
      else
        do s <- slice_chk p (pcv + 1) (pcv + 5) ;
        do n <- le_u32 s ;
        match add_u32 5 n with
        | None => Err EOverflow
        | Some len =>
            match add_u32 pcv len with
            | None => Err EOverflow
            | Some e => if l <? e then Err EShortProgram
                        else do d <- slice_chk p (pcv + 5) e ; Ok (mk opc len d)
            end
        end
    else if (opc =? OP_JUMP) || (opc =? OP_JUMPIF) then
      match add_u32 pcv 5 with
      | None => Err EOverflow
      | Some e => if l <? e then Err EShortProgram
                  else do d <- slice_chk p (pcv + 1) e ; Ok (mk opc 5 d)
      end
    else Ok (mk opc 1 []).

(* ---------- ParseProgram ---------- *)
(* for pc := 0; pc < len(prog); { inst := ParseOp(prog, pc); result = append(result, inst);
   pc, ok = AddUint32(pc, inst.Len) }.  Fuel: every iteration advances pc by Len >= 1, so
   S (length p) iterations suffice; [EOutOfFuel] is proved unreachable. *)
Fixpoint parse_loop (fuel : nat) (p : item) (pcv : N) : outcome vmerr (list inst) :=
  match fuel with
  | O => Err EOutOfFuel
  | S f =>
      if pcv <? lenN p then
        match parse_op_chk p pcv with
        | Ok i =>
            match add_u32 pcv (i_len i) with
            | None => Err EOverflow
            | Some pc' =>
                match parse_loop f p pc' with
                | Ok r => Ok (i :: r)
                | Err e => Err e
                | Panic x => Panic x
                end
            end
        | Err e => Err e
        | Panic x => Panic x
        end
      else Ok []
  end.
Definition parse_program (p : item) : outcome vmerr (list inst) :=
  parse_loop (S (List.length p)) p 0.

(* ---------- the name table (ops.go: ops[..].name after init) ---------- *)

Definition base_names : list (N * string) :=
 [(0, "FALSE"); (76, "PUSHDATA1"); (77, "PUSHDATA2"); (78, "PUSHDATA4"); (97, "NOP"); (99, "JUMP");
  (100, "JUMPIF"); (105, "VERIFY"); (106, "FAIL"); (107, "TOALTSTACK"); (108, "FROMALTSTACK");
  (109, "2DROP"); (110, "2DUP"); (111, "3DUP"); (112, "2OVER"); (113, "2ROT"); (114, "2SWAP");
  (115, "IFDUP"); (116, "DEPTH"); (117, "DROP"); (118, "DUP"); (119, "NIP"); (120, "OVER");
  (121, "PICK"); (122, "ROLL"); (123, "ROT"); (124, "SWAP"); (125, "TUCK"); (126, "CAT");
  (127, "SUBSTR"); (128, "LEFT"); (129, "RIGHT"); (130, "SIZE"); (137, "CATPUSHDATA");
  (131, "INVERT"); (132, "AND"); (133, "OR"); (134, "XOR"); (135, "EQUAL"); (136, "EQUALVERIFY");
  (139, "1ADD"); (140, "1SUB"); (141, "2MUL"); (142, "2DIV"); (145, "NOT"); (146, "0NOTEQUAL");
  (147, "ADD"); (148, "SUB"); (149, "MUL"); (150, "DIV"); (151, "MOD"); (152, "LSHIFT");
  (153, "RSHIFT"); (154, "BOOLAND"); (155, "BOOLOR"); (156, "NUMEQUAL"); (157, "NUMEQUALVERIFY");
  (158, "NUMNOTEQUAL"); (159, "LESSTHAN"); (160, "GREATERTHAN"); (161, "LESSTHANOREQUAL");
  (162, "GREATERTHANOREQUAL"); (163, "MIN"); (164, "MAX"); (165, "WITHIN"); (168, "SHA256");
  (170, "SHA3"); (171, "HASH160"); (172, "CHECKSIG"); (173, "CHECKMULTISIG"); (174, "TXSIGHASH");
  (193, "CHECKOUTPUT"); (194, "ASSET"); (195, "AMOUNT"); (196, "PROGRAM"); (201, "INDEX");
  (202, "ENTRYID"); (203, "OUTPUTID"); (205, "BLOCKHEIGHT"); (192, "CHECKPREDICATE")]%string.

Fixpoint assoc_name (b : N) (t : list (N * string)) : option string :=
  match t with
  | [] => None
  | (k, s) :: r => if k =? b then Some s else assoc_name b r
  end.

Definition digit (d : N) : string := String (ascii_of_N (48 + d)) EmptyString.
Definition dec2 (n : N) : string :=        (* %d for n < 100 *)
  if n <? 10 then digit n else String.append (digit (n / 10)) (digit (n mod 10)).
Definition hexdigit (d : N) : string :=
  String (ascii_of_N (if d <? 10 then 48 + d else 87 + d)) EmptyString.
Definition hex2 (n : N) : string := String.append (hexdigit (n / 16)) (hexdigit (n mod 16)). (* %02x *)

(* the names present when the first two loops of init() and CHECKPREDICATE are done:
   "" for the bytes that will become NOPx.. *)
Definition name_early (b : N) : string :=
  if (1 <=? b) && (b <=? 75) then String.append "DATA_" (dec2 b)
  else if (81 <=? b) && (b <=? 96) then dec2 (b - 80)
  else match assoc_name b base_names with Some s => s | None => EmptyString end.
(* Op.String(): the final table *)
Definition op_name (b : N) : string :=
  let s := name_early b in
  if String.eqb s EmptyString then String.append "NOPx" (hex2 b) else s.

Definition all_ops : list N := map N.of_nat (seq 0 256).

(* Variants.  [repaired] is the code in /repo's working tree; [pinned] is the pinned commit
   (kept as history: the three round-trip defects are replayed on it in Proofs.v).
   v_names_late     : opsByName is filled after the NOPx names are assigned
   v_numeric_jumps  : Disassemble prints a jump whose target is not an instruction
                      boundary as JUMP:<n> (otherwise always JUMP:$label)
   v_empty_push_hex : Disassemble prints an empty PUSHDATA1/2/4 as "0x" (otherwise the mnemonic) *)
Record variant := { v_names_late : bool; v_numeric_jumps : bool; v_empty_push_hex : bool }.
Definition repaired := {| v_names_late := true; v_numeric_jumps := true; v_empty_push_hex := true |}.
Definition pinned := {| v_names_late := false; v_numeric_jumps := false; v_empty_push_hex := false |}.

(* opsByName: for _, info := range ops { opsByName[info.name] = info } (later entries
   overwrite), then the aliases "0" and "TRUE". *)
Definition ops_by_name (v : variant) (s : string) : option N :=
  if String.eqb s "0" then Some 0
  else if String.eqb s "TRUE" then Some 81
  else fold_left (fun acc b =>
                    if String.eqb (if v_names_late v then op_name b else name_early b) s
                    then Some b else acc) all_ops None.

(* ---------- tokens ---------- *)
(* The text is a space-separated list of tokens; the harness splits it.  Labels are
   identified by numbers (Disassemble: the address the label stands for); the comparison
   with the Go text renames labels canonically by first occurrence on both sides. *)
Inductive token :=
| TName (s : string)              (* a mnemonic *)
| THex (d : item)                 (* 0x<hex> *)
| TJumpL (jif : bool) (lab : N)   (* JUMP:$lab / JUMPIF:$lab *)
| TJumpN (jif : bool) (addr : N)  (* JUMP:<n> / JUMPIF:<n> *)
| TLabel (lab : N).               (* $lab *)

Definition jump_op (jif : bool) : N := if jif then OP_JUMPIF else OP_JUMP.
Definition is_jump (op : N) : bool := (op =? OP_JUMP) || (op =? OP_JUMPIF).

(* ---------- Disassemble ---------- *)

Definition target_chk (i : inst) : outcome vmerr N := le_u32 (i_data i).
Definition target (i : inst) : N := le_decode (firstn 4 (i_data i)).

(* program locations where an instruction starts *)
Fixpoint inst_starts (off : N) (is : list inst) : list N :=
  match is with
  | [] => []
  | i :: r => off :: inst_starts (off + i_len i) r
  end.
Definition memN (x : N) (l : list N) : bool := existsb (N.eqb x) l.
(* labels[addr] exists: addr is the target of some jump *)
Definition labelled (is : list inst) (a : N) : bool :=
  existsb (fun i => is_jump (i_op i) && (target i =? a)) is.

Definition label_tok (all : list inst) (loc : N) : list token :=
  if labelled all loc then [TLabel loc] else [].

Fixpoint dis_emit (v : variant) (all : list inst) (starts : list N) (loc : N) (is : list inst)
  : outcome vmerr (list token) :=
  match is with
  | [] => Ok (label_tok all loc)
  | i :: r =>
      do tok <- (if is_jump (i_op i) then
                   do a <- target_chk i ;
                   if negb (v_numeric_jumps v) || memN a starts
                   then Ok (TJumpL (i_op i =? OP_JUMPIF) a)
                   else Ok (TJumpN (i_op i =? OP_JUMPIF) a)
                 else if (0 <? lenN (i_data i))
                         || (v_empty_push_hex v && (OP_PUSHDATA1 <=? i_op i) && (i_op i <=? OP_PUSHDATA4))
                 then Ok (THex (i_data i))
                 else Ok (TName (op_name (i_op i)))) ;
      do rest <- dis_emit v all starts (loc + i_len i) r ;
      Ok (label_tok all loc ++ tok :: rest)
  end.

(* first pass = the loop of ParseProgram (i += inst.Len cannot wrap: ParseOp checked
   pc + Len <= len(prog)); starts = {len(prog)} + every instruction start *)
Definition disassemble (v : variant) (p : item) : outcome vmerr (list token) :=
  do is <- parse_program p ;
  dis_emit v is (lenN p :: inst_starts 0 is) 0 is.

(* ---------- Assemble (token kinds Disassemble can print) ---------- *)

Record astate := { a_res : item; a_locs : list (N * N); a_unres : list (N * N) }.

Fixpoint lookup (k : N) (m : list (N * N)) : option N :=
  match m with
  | [] => None
  | (k', x) :: r => if k' =? k then Some x else lookup k r
  end.

Definition le32 (x : N) : item :=
  [x mod 256; (x / 256) mod 256; (x / 65536) mod 256; (x / 16777216) mod 256].
(* binary.LittleEndian.PutUint32(res[pos:], x) *)
Definition patch (r : item) (pos x : N) : item :=
  firstn (N.to_nat pos) r ++ le32 x ++ skipn (N.to_nat pos + 4) r.

Definition asm_tok (v : variant) (st : astate) (t : token) : option astate :=
  match t with
  | TName s =>
      match ops_by_name v s with
      | Some b =>
          if String.prefix "PUSHDATA" s || String.prefix "JUMP" s then None
          else Some {| a_res := a_res st ++ [b]; a_locs := a_locs st; a_unres := a_unres st |}
      | None => None     (* numbers and quoted strings are not modelled *)
      end
  | TJumpL jif lab =>
      Some {| a_res := a_res st ++ jump_op jif :: [0; 0; 0; 0]; a_locs := a_locs st;
              a_unres := a_unres st ++ [(lab, lenN (a_res st) + 1)] |}
  | TJumpN jif addr =>
      if addr <? 4294967296
      then Some {| a_res := a_res st ++ jump_op jif :: le32 addr; a_locs := a_locs st;
                   a_unres := a_unres st |}
      else None
  | TLabel lab =>
      match lookup lab (a_locs st) with
      | Some _ => None                                  (* label redefined *)
      | None =>
          if 2147483647 <? lenN (a_res st) then None    (* program too long *)
          else Some {| a_res := a_res st; a_locs := a_locs st ++ [(lab, lenN (a_res st))];
                       a_unres := a_unres st |}
      end
  | THex d =>
      Some {| a_res := a_res st ++ push_data_bytes d; a_locs := a_locs st; a_unres := a_unres st |}
  end.

Fixpoint asm_fold (v : variant) (st : astate) (toks : list token) : option astate :=
  match toks with
  | [] => Some st
  | t :: r => match asm_tok v st t with
              | Some st' => asm_fold v st' r
              | None => None
              end
  end.

(* the final loop over [unresolved]; the Go map's iteration order is not observable: an
   undefined label is an error whatever the order, otherwise the placeholders filled are
   pairwise disjoint *)
Fixpoint resolve (r : item) (uses locs : list (N * N)) : option item :=
  match uses with
  | [] => Some r
  | (lab, pos) :: us =>
      match lookup lab locs with
      | None => None                                    (* undefined label *)
      | Some x => resolve (patch r pos x) us locs
      end
  end.

Definition assemble (v : variant) (toks : list token) : option item :=
  match asm_fold v {| a_res := []; a_locs := []; a_unres := [] |} toks with
  | None => None
  | Some st => resolve (a_res st) (a_unres st) (a_locs st)
  end.

(* ---------- "the same instruction sequence" ---------- *)
(* pushes are identified by their data, other instructions by their opcode, jumps by
   opcode and target, where a target that is the k-th instruction boundary of the
   original program corresponds to the k-th boundary of the re-assembled one and any
   other target is kept literally *)

Definition is_push (op : N) : bool :=        (* Instruction.IsPushdata *)
  (op <=? OP_PUSHDATA4) || ((OP_1 <=? op) && (op <=? OP_16)).

Fixpoint offsets (off : N) (is : list inst) : list N :=   (* all boundaries, including the end *)
  off :: match is with
         | [] => []
         | i :: r => offsets (off + i_len i) r
         end.

Fixpoint reloc (b b' : list N) (t : N) : N :=
  match b, b' with
  | x :: r, y :: r' => if x =? t then y else reloc r r' t
  | _, _ => t
  end.

Definition inst_equiv (b b' : list N) (i i' : inst) : bool :=
  if is_jump (i_op i) then (i_op i' =? i_op i) && (target i' =? reloc b b' (target i))
  else if is_push (i_op i) then is_push (i_op i') && list_eqb N.eqb (i_data i') (i_data i)
  else (i_op i' =? i_op i) && (lenN (i_data i') =? 0).

Fixpoint forall2b {A} (f : A -> A -> bool) (l l' : list A) : bool :=
  match l, l' with
  | [], [] => true
  | x :: r, y :: r' => f x y && forall2b f r r'
  | _, _ => false
  end.

Definition same_insts (is is' : list inst) : bool :=
  forall2b (inst_equiv (offsets 0 is) (offsets 0 is')) is is'.

(* ---------- builders (pushdata.go, vmutil/script.go, vmutil/builder.go) ---------- *)

Definition push_data_uint64 (n : N) : item :=
  if n =? 0 then [0]
  else if n <=? 16 then [OP_1 + n - 1]
  else push_data_bytes (le_encode n).

Definition bcrp_tag : item := [98; 99; 114; 112].   (* "bcrp" *)
Definition bcrp_version : item := [1].
Definition OP_FAIL : N := 106.

Definition p2wpkh_program (h : item) : item := push_data_uint64 0 ++ push_data_bytes h.
Definition p2wsh_program (h : item) : item := push_data_uint64 0 ++ push_data_bytes h.
Definition register_program (c : item) : item :=
  [OP_FAIL] ++ push_data_bytes bcrp_tag ++ push_data_bytes bcrp_version ++ push_data_bytes c.
Definition call_contract_program (h : item) : item :=
  push_data_bytes bcrp_tag ++ push_data_bytes h.
Definition default_coinbase_program : item := [OP_1].
Definition retire_program (comment : item) : item :=
  [OP_FAIL] ++ (if lenN comment =? 0 then [] else push_data_bytes comment).

(* ---------- recognisers and extractors (segwit.go, bcrp.go) ---------- *)

Definition is_straightforward (p : item) : bool :=
  match parse_program p with
  | Ok [i] => (i_op i =? OP_1) || (i_op i =? OP_FAIL)
  | _ => false
  end.
Definition is_p2wpkh (p : item) : bool :=
  match parse_program p with
  | Ok [i0; i1] => (i_op i0 =? 0) && ((i_op i1 =? 20) && (lenN (i_data i1) =? 20))
  | _ => false
  end.
Definition is_p2wsh (p : item) : bool :=
  match parse_program p with
  | Ok [i0; i1] => (i_op i0 =? 0) && ((i_op i1 =? 32) && (lenN (i_data i1) =? 32))
  | _ => false
  end.
Definition is_p2w (p : item) : bool := is_p2wpkh p || is_p2wsh p || is_straightforward p.
Definition is_bcrp (p : item) : bool :=
  match parse_program p with
  | Ok [i0; i1; i2; i3] =>
      (i_op i0 =? OP_FAIL)
      && ((i_op i1 =? 4) && list_eqb N.eqb (i_data i1) bcrp_tag)
      && ((i_op i2 =? 1) && list_eqb N.eqb (i_data i2) bcrp_version)
      && (0 <? lenN (i_data i3))
  | _ => false
  end.
Definition is_call_contract (p : item) : bool :=
  match parse_program p with
  | Ok [i0; i1] =>
      ((i_op i0 =? 4) && list_eqb N.eqb (i_data i0) bcrp_tag)
      && ((i_op i1 =? 32) && (lenN (i_data i1) =? 32))
  | _ => false
  end.

(* GetHashFromStandardProg: insts[1].Data — panics on a program with fewer than two
   instructions; every caller guards with IsP2W*Script *)
Definition get_hash (p : item) : outcome vmerr item :=
  do is <- parse_program p ;
  match nth_error is 1 with
  | Some i => Ok (i_data i)
  | None => Panic IndexOOR
  end.
(* ParseContract *)
Definition parse_contract (p : item) : outcome vmerr item :=
  do is <- parse_program p ;
  match is with
  | [_; _; _; i3] => Ok (i_data i3)
  | _ => Err EUnexpected         (* "unsupport program" *)
  end.
(* ParseContractHash: copy(hash[:], insts[1].Data) into a [32]byte *)
Definition parse_contract_hash (p : item) : outcome vmerr item :=
  do is <- parse_program p ;
  match is with
  | [_; i1] => Ok (firstn 32 (i_data i1 ++ repeat 0 32))
  | _ => Err EUnexpected
  end.
