(* C09 — helpers used by the generated case files: run the model on a case and compare
   with the observed value.  Labels are renamed canonically (first occurrence) on both
   sides, so label names are not compared. *)
From Coq Require Import String Ascii.
From Coq Require Import List NArith Bool.
From Verif Require Import Outcome Cmp VM.
From C09 Require Import Model.
Import ListNotations.
Open Scope N_scope.

Definition token_eqb (a b : token) : bool :=
  match a, b with
  | TName s, TName s' => String.eqb s s'
  | THex d, THex d' => list_eqb N.eqb d d'
  | TJumpL j l, TJumpL j' l' => Bool.eqb j j' && (l =? l')
  | TJumpN j l, TJumpN j' l' => Bool.eqb j j' && (l =? l')
  | TLabel l, TLabel l' => l =? l'
  | _, _ => false
  end.

Fixpoint canon (m : list (N * N)) (next : N) (toks : list token) : list token :=
  match toks with
  | [] => []
  | TJumpL j l :: r =>
      match lookup l m with
      | Some k => TJumpL j k :: canon m next r
      | None => TJumpL j next :: canon ((l, next) :: m) (next + 1) r
      end
  | TLabel l :: r =>
      match lookup l m with
      | Some k => TLabel k :: canon m next r
      | None => TLabel next :: canon ((l, next) :: m) (next + 1) r
      end
  | t :: r => t :: canon m next r
  end.

Inductive obs :=
| OProg (pcode : N) (insts : list (N * N * item)) (dis : option (list token))
        (asm : option item) (recs : list bool) (ext : list (N * item))
| OAsm (r : option item)
| OBuild (b : item).

Definition err_code (e : vmerr) : N :=
  match e with
  | EShortProgram => 1
  | ELongProgram => 2
  | EOverflow => 3
  | _ => 8
  end.
Definition ext_obs (x : outcome vmerr item) : N * item :=
  match x with
  | Ok d => (0, d)
  | Err _ => (1, [])
  | Panic _ => (2, [])
  end.

Definition recs (p : item) : list bool :=
  [is_p2wpkh p; is_p2wsh p; is_straightforward p; is_p2w p; is_bcrp p; is_call_contract p].

Definition run_prog (p : item) : obs :=
  let pr := parse_program p in
  let dis := disassemble repaired p in
  OProg (match pr with Ok _ => 0 | Err e => err_code e | Panic _ => 9 end)
        (match pr with Ok is => map (fun i => (i_op i, i_len i, i_data i)) is | _ => [] end)
        (match dis with Ok t => Some (canon [] 0 t) | _ => None end)
        (match dis with Ok t => assemble repaired t | _ => None end)
        (recs p)
        [ext_obs (get_hash p); ext_obs (parse_contract p); ext_obs (parse_contract_hash p)].

Definition run_asm (toks : list token) : obs := OAsm (assemble repaired toks).

Definition inst3_eqb (a b : N * N * item) : bool :=
  (fst (fst a) =? fst (fst b)) && (snd (fst a) =? snd (fst b)) && list_eqb N.eqb (snd a) (snd b).
Definition ext_eqb (a b : N * item) : bool := (fst a =? fst b) && list_eqb N.eqb (snd a) (snd b).

Definition obs_eqb (x y : obs) : bool :=
  match x, y with
  | OProg c i d a r e, OProg c' i' d' a' r' e' =>
      (c =? c') && list_eqb inst3_eqb i i' && option_eqb (list_eqb token_eqb) d d'
      && option_eqb (list_eqb N.eqb) a a' && list_eqb Bool.eqb r r' && list_eqb ext_eqb e e'
  | OAsm a, OAsm a' => option_eqb (list_eqb N.eqb) a a'
  | OBuild b, OBuild b' => list_eqb N.eqb b b'
  | _, _ => false
  end.
