(* C09 — collected results used by Props.v, examples that the hypotheses are satisfiable,
   and the replay of the three round-trip defects on the PINNED variant of the model
   (history: the code in /repo's working tree is the repaired variant). *)
From Coq Require Import String Ascii.
From Coq Require Import List NArith Bool Lia.
From Verif Require Import Outcome Cmp VM.
From C09 Require Export Model ProofsParse ProofsAsm ProofsRecog.
Import ListNotations.
Open Scope N_scope.

Definition no_panic {A} (x : outcome vmerr A) : Prop :=
  (exists a, x = Ok a) \/ (exists e, x = Err e /\ e <> EOutOfFuel).

(* the full statement of the round trip *)
Definition roundtrip_stmt (v : variant) : Prop :=
  forall (p : item) (is : list inst),
    Forall byte p -> 2 * lenN p <= 2147483647 -> parse_program p = Ok is ->
    exists toks p' is',
      disassemble v p = Ok toks /\ assemble v toks = Some p'
      /\ parse_program p' = Ok is' /\ same_insts is is' = true.

Lemma roundtrip_repaired : roundtrip_stmt repaired.
Proof. exact roundtrip. Qed.

(* the hypotheses are satisfiable by a non-trivial program: small pushes, a non-minimal
   push, an empty PUSHDATA1, an expansion opcode, a jump to a boundary, a jump into the
   middle of an instruction, a jump past the end *)
Definition sample_prog : item :=
  [81; 76; 1; 170; 0; 80; 99; 5; 0; 0; 0; 100; 3; 0; 0; 0; 99; 200; 0; 0; 0; 76; 0; 2; 7; 8].
Example sample_hyps :
  Forall byte sample_prog /\ 2 * lenN sample_prog <= 2147483647
  /\ exists is, parse_program sample_prog = Ok is /\ List.length is = 9%nat.
Proof.
  split; [unfold byte; repeat constructor|]. split; [vm_compute; discriminate|].
  eexists. split; [vm_compute; reflexivity|reflexivity].
Qed.
Example sample_roundtrip :
  match disassemble repaired sample_prog with
  | Ok t => assemble repaired t
  | _ => None
  end = Some [1; 1; 1; 170; 0; 80; 99; 5; 0; 0; 0; 100; 3; 0; 0; 0; 99; 200; 0; 0; 0; 0; 2; 7; 8].
Proof. vm_compute. reflexivity. Qed.

(* ---- history: the pinned commit fails the round trip in three ways ---- *)
Definition roundtrip_fails (v : variant) (p : item) : Prop :=
  (exists is, parse_program p = Ok is)
  /\ match disassemble v p with Ok t => assemble v t | _ => None end = None.

Example pinned_fails_empty_pushdata : roundtrip_fails pinned [76; 0].
Proof. split; [eexists; vm_compute; reflexivity|vm_compute; reflexivity]. Qed.
Example pinned_fails_expansion_opcode : roundtrip_fails pinned [80].
Proof. split; [eexists; vm_compute; reflexivity|vm_compute; reflexivity]. Qed.
Example pinned_fails_jump_into_instruction : roundtrip_fails pinned [99; 2; 0; 0; 0].
Proof. split; [eexists; vm_compute; reflexivity|vm_compute; reflexivity]. Qed.
Lemma pinned_refuted : ~ roundtrip_stmt pinned.
Proof.
  intros H. destruct (H [80] [mk 80 1 []]) as (t & p' & is' & D & A & _).
  - unfold byte. repeat constructor.
  - vm_compute. discriminate.
  - vm_compute. reflexivity.
  - vm_compute in D. injection D as <-. vm_compute in A. discriminate.
Qed.

(* the builders of the recognised shapes produce bytes: recognisers on real inputs *)
Example builders_sample :
  is_p2wpkh (p2wpkh_program (repeat 7 20)) = true /\ is_p2wsh (p2wsh_program (repeat 7 32)) = true
  /\ is_bcrp (register_program [81]) = true /\ is_call_contract (call_contract_program (repeat 9 32)) = true
  /\ is_straightforward default_coinbase_program = true /\ is_straightforward (retire_program []) = true.
Proof. vm_compute. repeat split. Qed.
