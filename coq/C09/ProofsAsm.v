(* C09 — proofs about Disassemble / Assemble: the round trip. *)
From Coq Require Import String Ascii.
From Coq Require Import List ZArith NArith Bool Lia ZifyBool ZifyN ZifyNat.
From Verif Require Import Outcome Cmp VM.
From C09 Require Import Model ProofsParse.
Import ListNotations.
Open Scope N_scope.

Ltac Zify.zify_post_hook ::= Z.to_euclidean_division_equations.

Definition byte (b : N) : Prop := b < 256.

(* ---------- little-endian 32-bit ---------- *)

Lemma le_decode_le32 (x : N) : x < 4294967296 -> le_decode (le32 x) = x.
Proof. intros H. unfold le32. cbn [le_decode]. lia. Qed.

Lemma le_decode4_bound a b c d : byte a -> byte b -> byte c -> byte d ->
  le_decode [a; b; c; d] < 4294967296.
Proof. unfold byte. cbn [le_decode]. lia. Qed.

Lemma lenN_le32 x : lenN (le32 x) = 4.
Proof. reflexivity. Qed.

(* ---------- the canonical push ---------- *)

Definition pinst (d : item) : inst :=
  let l := lenN d in
  if l =? 0 then mk 0 1 []
  else if l <=? 75 then mk l (1 + l) d
  else if l <? 256 then mk 76 (2 + l) d
  else if l <? 65536 then mk 77 (3 + l) d
  else mk 78 (5 + l) d.

Lemma firstn_app_exact {A} (a b : list A) n : n = List.length a -> firstn n (a ++ b) = a.
Proof.
  intros ->. rewrite firstn_app, Nat.sub_diag, firstn_all. cbn. apply app_nil_r.
Qed.
Lemma skipn_app_exact {A} (a b : list A) n : n = List.length a -> skipn n (a ++ b) = b.
Proof.
  intros ->. rewrite skipn_app, Nat.sub_diag, skipn_all. reflexivity.
Qed.

Lemma mk_eq op l l' d : l = l' -> mk op l d = mk op l' d.
Proof. intros ->. reflexivity. Qed.

Lemma dec_push (d rest : item) : lenN d < 4294967296 ->
  dec (push_data_bytes d ++ rest) = Some (pinst d)
  /\ lenN (push_data_bytes d) = i_len (pinst d).
Proof.
  intros HL. unfold push_data_bytes, pinst. fold (lenN d). set (l := lenN d) in *.
  destruct (l =? 0) eqn:E0; [split; reflexivity|].
  assert (TN : N.to_nat l = List.length d) by (subst l; unfold lenN; lia).
  destruct (l <=? 75) eqn:E1.
  { change OP_DATA_1 with 1. replace (1 + l - 1) with l by lia.
    split; [|rewrite lenN_cons; fold l; reflexivity].
    cbn [app dec]. change OP_1 with 81. change OP_16 with 96.
    change OP_DATA_1 with 1. change OP_DATA_75 with 75.
    destruct ((81 <=? l) && (l <=? 96)) eqn:A1; [lia|].
    destruct ((1 <=? l) && (l <=? 75)) eqn:A2; [|lia].
    rewrite lenN_app. fold l. destruct (l + lenN rest <? l) eqn:A3; [lia|].
    rewrite firstn_app_exact by lia. f_equal. apply mk_eq. lia. }
  destruct (l <? 256) eqn:E2.
  { split; [|rewrite !lenN_cons; fold l; cbn [i_len mk]; lia].
    cbn [app dec]. change (76 =? 76) with true. cbv iota.
    cbn -[N.add N.ltb lenN firstn N.to_nat].
    rewrite lenN_app. fold l. destruct (l + lenN rest <? l) eqn:A3; [lia|].
    rewrite firstn_app_exact by lia. f_equal. apply mk_eq. lia. }
  destruct (l <? 65536) eqn:E3.
  { split; [|rewrite !lenN_cons; fold l; cbn [i_len mk]; lia].
    cbn [app dec].
    cbn -[N.add N.mul N.ltb N.div N.modulo lenN firstn N.to_nat].
    replace (l mod 256 + 256 * (l / 256)) with l by lia.
    rewrite lenN_app. fold l. destruct (l + lenN rest <? l) eqn:A3; [lia|].
    rewrite firstn_app_exact by lia. f_equal. apply mk_eq. lia. }
  split; [|rewrite !lenN_cons; fold l; cbn [i_len mk]; lia].
  cbn [app dec].
  cbn -[N.add N.mul N.ltb N.div N.modulo lenN firstn N.to_nat le_decode].
  change [l mod 256; (l / 256) mod 256; (l / 65536) mod 256; (l / 16777216) mod 256] with (le32 l).
  rewrite le_decode_le32 by lia.
  rewrite lenN_app. fold l. destruct (l + lenN rest <? l) eqn:A3; [lia|].
  rewrite firstn_app_exact by lia. reflexivity.
Qed.

(* ---------- re-encoding of one parsed instruction ---------- *)

Definition hex_case (i : inst) : bool :=
  (0 <? lenN (i_data i)) || (true && (OP_PUSHDATA1 <=? i_op i) && (i_op i <=? OP_PUSHDATA4)).

(* what Assemble emits for the token Disassemble printed, jumps going to [f target] *)
Definition renc (f : N -> N) (i : inst) : item :=
  if is_jump (i_op i) then i_op i :: le32 (f (target i))
  else if hex_case i then push_data_bytes (i_data i)
  else [i_op i].
(* ... and how that parses *)
Definition rinst (f : N -> N) (i : inst) : inst :=
  if is_jump (i_op i) then mk (i_op i) 5 (le32 (f (target i)))
  else if hex_case i then pinst (i_data i)
  else mk (i_op i) 1 [].
Definition rlen (i : inst) : N :=
  if is_jump (i_op i) then 5
  else if hex_case i then i_len (pinst (i_data i))
  else 1.

Lemma rinst_len f i : i_len (rinst f i) = rlen i.
Proof. unfold rinst, rlen. destruct (is_jump (i_op i)); [reflexivity|]. destruct (hex_case i); reflexivity. Qed.

Lemma is_jump_cases op : is_jump op = true -> op = 99 \/ op = 100.
Proof. unfold is_jump. change OP_JUMP with 99. change OP_JUMPIF with 100. lia. Qed.

(* when Disassemble prints a mnemonic: an "other" opcode *)
Lemma name_case (i : inst) : shape i -> is_jump (i_op i) = false -> hex_case i = false ->
  i_len i = 1 /\ i_data i = []
  /\ (OP_1 <=? i_op i) && (i_op i <=? OP_16) = false
  /\ (OP_DATA_1 <=? i_op i) && (i_op i <=? OP_DATA_75) = false
  /\ (i_op i =? OP_PUSHDATA1) = false /\ (i_op i =? OP_PUSHDATA2) = false
  /\ (i_op i =? OP_PUSHDATA4) = false.
Proof.
  unfold shape, hex_case. intros SH J HX. rewrite J in SH.
  change OP_PUSHDATA1 with 76 in *. change OP_PUSHDATA2 with 77 in *. change OP_PUSHDATA4 with 78 in *.
  change OP_DATA_1 with 1 in *. change OP_DATA_75 with 75 in *.
  destruct ((OP_1 <=? i_op i) && (i_op i <=? OP_16)) eqn:E1.
  { destruct SH as [_ D]. rewrite D in HX. cbn in HX. discriminate. }
  destruct ((1 <=? i_op i) && (i_op i <=? 75)) eqn:E2; [lia|].
  destruct (i_op i =? 76) eqn:E3; [lia|].
  destruct (i_op i =? 77) eqn:E4; [lia|].
  destruct (i_op i =? 78) eqn:E5; [lia|].
  tauto.
Qed.

Lemma dec_renc (f : N -> N) (i : inst) (rest : item) :
  shape i -> lenN (i_data i) < 4294967296 ->
  dec (renc f i ++ rest) = Some (rinst f i) /\ lenN (renc f i) = rlen i.
Proof.
  intros SH HD. unfold renc, rinst, rlen.
  destruct (is_jump (i_op i)) eqn:J.
  { split; [|reflexivity].
    set (x := f (target i)). unfold le32.
    destruct (is_jump_cases _ J) as [-> | ->]; cbn [app dec];
      cbn -[N.ltb lenN firstn N.div N.modulo]; rewrite !lenN_cons;
      (destruct (_ <? 4) eqn:A; [lia|reflexivity]). }
  destruct (hex_case i) eqn:HX.
  { apply dec_push. exact HD. }
  split; [|reflexivity].
  destruct (name_case i SH J HX) as (_ & _ & E1 & E2 & E3 & E4 & E5).
  cbn [app dec]. fold (is_jump (i_op i)). rewrite E1, E2, E3, E4, E5, J. reflexivity.
Qed.

Lemma parses_app (e rest : item) (i : inst) (r : list inst) :
  dec (e ++ rest) = Some i -> i_len i = lenN e -> parses rest r -> parses (e ++ rest) (i :: r).
Proof.
  intros D L P. apply parses_cons; [exact D|].
  rewrite skipn_app_exact; [exact P|]. rewrite L. unfold lenN. lia.
Qed.

Definition total_rlen (is : list inst) : N := fold_right (fun i a => rlen i + a) 0 is.

Lemma lenN_concat_renc f (is : list inst) :
  Forall (fun i => shape i /\ lenN (i_data i) < 4294967296) is ->
  lenN (concat (map (renc f) is)) = total_rlen is.
Proof.
  induction 1 as [|i r [SH HD] _ IH]; [reflexivity|].
  cbn [map concat total_rlen fold_right]. rewrite lenN_app, IH.
  destruct (dec_renc f i [] SH HD) as [_ L]. rewrite L. reflexivity.
Qed.

Lemma parses_concat f (is : list inst) :
  Forall (fun i => shape i /\ lenN (i_data i) < 4294967296) is ->
  parses (concat (map (renc f) is)) (map (rinst f) is).
Proof.
  induction 1 as [|i r [SH HD] _ IH]; [constructor|].
  cbn [map concat].
  destruct (dec_renc f i (concat (map (renc f) r)) SH HD) as [D L].
  apply parses_app; [exact D| |exact IH]. rewrite rinst_len. symmetry. exact L.
Qed.

(* ---------- Disassemble as a pure function on well-shaped instructions ---------- *)

Definition tok_of (S : list N) (i : inst) : token :=
  if is_jump (i_op i) then
    if memN (target i) S then TJumpL (i_op i =? OP_JUMPIF) (target i)
    else TJumpN (i_op i =? OP_JUMPIF) (target i)
  else if hex_case i then THex (i_data i)
  else TName (op_name (i_op i)).

Fixpoint dis_toks (all : list inst) (S : list N) (loc : N) (is : list inst) : list token :=
  match is with
  | [] => label_tok all loc
  | i :: r => label_tok all loc ++ tok_of S i :: dis_toks all S (loc + i_len i) r
  end.

Lemma shape_jump (i : inst) : shape i -> is_jump (i_op i) = true ->
  i_len i = 5 /\ lenN (i_data i) = 4.
Proof.
  intros SH J. destruct (is_jump_cases _ J) as [E|E]; unfold shape in SH; rewrite E in SH; exact SH.
Qed.

Lemma target_chk_ok (i : inst) : lenN (i_data i) = 4 -> target_chk i = Ok (target i).
Proof.
  unfold target_chk, target. destruct (i_data i) as [|a [|b [|c [|d [|e t]]]]]; intros H;
    try (unfold lenN in H; cbn [List.length] in H; lia).
  reflexivity.
Qed.

Lemma dis_emit_ok : forall is all S loc, Forall shape is ->
  dis_emit repaired all S loc is = Ok (dis_toks all S loc is).
Proof.
  induction is as [|i r IH]; intros all S loc HF; cbn [dis_emit dis_toks]; [reflexivity|].
  inversion HF as [|? ? SH HR]; subst.
  rewrite (IH all S (loc + i_len i) HR).
  change (v_numeric_jumps repaired) with true. change (v_empty_push_hex repaired) with true.
  cbn [negb orb]. fold (hex_case i). unfold tok_of.
  destruct (is_jump (i_op i)) eqn:J.
  - destruct (shape_jump i SH J) as [_ L4]. rewrite (target_chk_ok i L4). cbn [obind].
    destruct (memN (target i) S); reflexivity.
  - destruct (hex_case i); reflexivity.
Qed.

(* ---------- the name table: every mnemonic Disassemble prints is known to Assemble ---------- *)

Definition name_ok (b : N) : bool :=
  if ((OP_PUSHDATA1 <=? b) && (b <=? OP_PUSHDATA4)) || is_jump b then true
  else match ops_by_name repaired (op_name b) with
       | Some b' => (b' =? b) && negb (String.prefix "PUSHDATA" (op_name b) || String.prefix "JUMP" (op_name b))
       | None => false
       end.

Lemma names_ok_all : forallb name_ok all_ops = true.
Proof. vm_compute. reflexivity. Qed.

Lemma in_all_ops (b : N) : b < 256 -> In b all_ops.
Proof.
  intros H. unfold all_ops. apply in_map_iff. exists (N.to_nat b). split; [lia|].
  apply in_seq. lia.
Qed.

Lemma name_lookup (b : N) : b < 256 -> is_jump b = false ->
  (b =? OP_PUSHDATA1) = false -> (b =? OP_PUSHDATA2) = false -> (b =? OP_PUSHDATA4) = false ->
  ops_by_name repaired (op_name b) = Some b
  /\ String.prefix "PUSHDATA" (op_name b) || String.prefix "JUMP" (op_name b) = false.
Proof.
  intros HB J E1 E2 E3.
  pose proof (proj1 (forallb_forall name_ok all_ops) names_ok_all b (in_all_ops b HB)) as H.
  unfold name_ok in H. rewrite J in H.
  change OP_PUSHDATA1 with 76 in *. change OP_PUSHDATA2 with 77 in *. change OP_PUSHDATA4 with 78 in *.
  destruct (((76 <=? b) && (b <=? 78)) || false) eqn:E; [lia|].
  destruct (ops_by_name repaired (op_name b)) as [b'|]; [|discriminate].
  apply andb_prop in H. destruct H as [H1 H2]. apply N.eqb_eq in H1. subst b'.
  split; [reflexivity|]. apply negb_true_iff in H2. exact H2.
Qed.

(* ---------- Assemble, first phase ---------- *)

Definition mkst (r : item) (l u : list (N * N)) : astate := {| a_res := r; a_locs := l; a_unres := u |}.

Definition renc0 (S : list N) (i : inst) : item :=
  if is_jump (i_op i) then
    if memN (target i) S then i_op i :: [0; 0; 0; 0] else i_op i :: le32 (target i)
  else if hex_case i then push_data_bytes (i_data i)
  else [i_op i].
Definition uses1 (S : list N) (noff : N) (i : inst) : list (N * N) :=
  if is_jump (i_op i) && memN (target i) S then [(target i, noff + 1)] else [].
Definition lab1 (all : list inst) (loc noff : N) : list (N * N) :=
  if labelled all loc then [(loc, noff)] else [].

Fixpoint locs_of (all : list inst) (loc noff : N) (is : list inst) : list (N * N) :=
  lab1 all loc noff ++ match is with
                       | [] => []
                       | i :: r => locs_of all (loc + i_len i) (noff + rlen i) r
                       end.
Fixpoint uses_of (S : list N) (noff : N) (is : list inst) : list (N * N) :=
  match is with
  | [] => []
  | i :: r => uses1 S noff i ++ uses_of S (noff + rlen i) r
  end.

Definition good (i : inst) : Prop :=
  shape i /\ 1 <= i_len i /\ i_op i < 256 /\ lenN (i_data i) < 4294967296
  /\ (is_jump (i_op i) = true -> target i < 4294967296).

Definition keys_below (locs : list (N * N)) (loc : N) : Prop :=
  forall k x, In (k, x) locs -> k < loc.

Lemma lookup_none locs loc : keys_below locs loc -> lookup loc locs = None.
Proof.
  induction locs as [|[k x] r IH]; intros H; [reflexivity|]. cbn [lookup].
  pose proof (H k x (or_introl eq_refl)).
  destruct (k =? loc) eqn:E; [lia|]. apply IH. intros k' x' HI. apply (H k' x'). right. exact HI.
Qed.

Lemma asm_fold_app v : forall a st b,
  asm_fold v st (a ++ b) = match asm_fold v st a with Some st' => asm_fold v st' b | None => None end.
Proof.
  induction a as [|t a IH]; intros st b; [reflexivity|]. cbn [app asm_fold].
  destruct (asm_tok v st t); [apply IH|reflexivity].
Qed.

Lemma asm_label all loc res locs un : keys_below locs loc -> lenN res <= 2147483647 ->
  asm_fold repaired (mkst res locs un) (label_tok all loc)
  = Some (mkst res (locs ++ lab1 all loc (lenN res)) un).
Proof.
  intros K L. unfold label_tok, lab1. destruct (labelled all loc).
  - cbn [asm_fold asm_tok mkst a_res a_locs a_unres]. rewrite (lookup_none _ _ K).
    destruct (2147483647 <? lenN res) eqn:E; [lia|]. reflexivity.
  - cbn [asm_fold]. rewrite app_nil_r. reflexivity.
Qed.

Lemma jump_op_eq op : is_jump op = true -> jump_op (op =? OP_JUMPIF) = op.
Proof. intros J. destruct (is_jump_cases _ J) as [-> | ->]; reflexivity. Qed.

Lemma asm_tok_of S i res locs un : good i ->
  asm_tok repaired (mkst res locs un) (tok_of S i)
  = Some (mkst (res ++ renc0 S i) locs (un ++ uses1 S (lenN res) i)).
Proof.
  intros (SH & L1 & OB & DB & TB). unfold tok_of, renc0, uses1.
  destruct (is_jump (i_op i)) eqn:J.
  - cbn [andb]. destruct (memN (target i) S).
    + cbn [asm_tok mkst a_res a_locs a_unres]. rewrite (jump_op_eq _ J). reflexivity.
    + cbn [asm_tok mkst a_res a_locs a_unres]. rewrite (jump_op_eq _ J).
      destruct (target i <? 4294967296) eqn:E; [|specialize (TB eq_refl); lia].
      rewrite app_nil_r. reflexivity.
  - cbn [andb]. rewrite app_nil_r. destruct (hex_case i) eqn:HX.
    + reflexivity.
    + destruct (name_case i SH J HX) as (_ & _ & _ & _ & E3 & E4 & E5).
      destruct (name_lookup (i_op i) OB J E3 E4 E5) as [NL NP].
      cbn [asm_tok mkst a_res a_locs a_unres]. rewrite NL, NP. reflexivity.
Qed.

Lemma lenN_renc0 S f i : good i -> lenN (renc0 S i) = rlen i /\ lenN (renc f i) = rlen i.
Proof.
  intros (SH & L1 & OB & DB & TB). split; [|apply (dec_renc f i [] SH DB)].
  destruct (dec_renc f i [] SH DB) as [_ L]. unfold renc0, renc, rlen in *.
  destruct (is_jump (i_op i)); [destruct (memN _ _); reflexivity|]. exact L.
Qed.

Lemma asm_fold_dis : forall is all S loc res locs un,
  Forall good is -> keys_below locs loc -> lenN res + total_rlen is <= 2147483647 ->
  asm_fold repaired (mkst res locs un) (dis_toks all S loc is)
  = Some (mkst (res ++ concat (map (renc0 S) is))
               (locs ++ locs_of all loc (lenN res) is)
               (un ++ uses_of S (lenN res) is)).
Proof.
  induction is as [|i r IH]; intros all S loc res locs un HF K HL;
    cbn [dis_toks map concat locs_of uses_of total_rlen fold_right] in *.
  - rewrite asm_label by (assumption || lia). rewrite !app_nil_r. reflexivity.
  - inversion HF as [|? ? G GR]; subst. fold (total_rlen r) in HL.
    rewrite asm_fold_app, asm_label by (assumption || lia).
    cbn [asm_fold]. rewrite (asm_tok_of S i _ _ _ G).
    destruct (lenN_renc0 S (fun x => x) i G) as [LR _].
    destruct G as (SH & L1 & _).
    rewrite IH; [| exact GR | | rewrite lenN_app, LR; lia].
    + rewrite lenN_app, LR, <- !app_assoc. reflexivity.
    + intros k x HI. apply in_app_or in HI. destruct HI as [HI|HI].
      * specialize (K k x HI). lia.
      * unfold lab1 in HI. destruct (labelled all loc); [|destruct HI].
        destruct HI as [HI|[]]. inversion HI; subst. lia.
Qed.

(* ---------- Assemble, second phase: back-patching ---------- *)

Lemma patch_placeholder (pre rest : item) (op x : N) :
  patch (pre ++ (op :: [0; 0; 0; 0]) ++ rest) (lenN pre + 1) x = pre ++ (op :: le32 x) ++ rest.
Proof.
  unfold patch.
  replace (N.to_nat (lenN pre + 1)) with (List.length pre + 1)%nat by (unfold lenN; lia).
  rewrite firstn_app_2, skipn_app, skipn_all2 by lia.
  replace (List.length pre + 1 + 4 - List.length pre)%nat with 5%nat by lia.
  cbn [firstn skipn app]. rewrite <- app_assoc. reflexivity.
Qed.

Lemma resolve_spec : forall is S locs f pre,
  Forall good is ->
  (forall i, In i is -> is_jump (i_op i) = true -> memN (target i) S = true ->
             lookup (target i) locs = Some (f (target i))) ->
  (forall i, In i is -> is_jump (i_op i) = true -> memN (target i) S = false ->
             f (target i) = target i) ->
  resolve (pre ++ concat (map (renc0 S) is)) (uses_of S (lenN pre) is) locs
  = Some (pre ++ concat (map (renc f) is)).
Proof.
  induction is as [|i r IH]; intros S locs f pre HF H1 H2; cbn [map concat uses_of].
  - reflexivity.
  - inversion HF as [|? ? G GR]; subst.
    destruct (lenN_renc0 S f i G) as [L0 L1].
    assert (IH' : forall pre', lenN pre' = lenN pre + rlen i ->
              resolve (pre' ++ concat (map (renc0 S) r)) (uses_of S (lenN pre + rlen i) r) locs
              = Some (pre' ++ concat (map (renc f) r))).
    { intros pre' E. rewrite <- E. apply IH; [exact GR| |].
      - intros j HJ. apply H1. right. exact HJ.
      - intros j HJ. apply H2. right. exact HJ. }
    destruct (is_jump (i_op i) && memN (target i) S) eqn:JM.
    + apply andb_prop in JM. destruct JM as [J M].
      assert (E0 : renc0 S i = (i_op i :: [0; 0; 0; 0])) by (unfold renc0; rewrite J, M; reflexivity).
      assert (E1 : renc f i = (i_op i :: le32 (f (target i)))) by (unfold renc; rewrite J; reflexivity).
      assert (EU : uses1 S (lenN pre) i = [(target i, lenN pre + 1)]) by (unfold uses1; rewrite J, M; reflexivity).
      rewrite EU, E0. cbn [app resolve]. rewrite (H1 i (or_introl eq_refl) J M).
      change (pre ++ i_op i :: 0 :: 0 :: 0 :: 0 :: concat (map (renc0 S) r))
        with (pre ++ (i_op i :: [0; 0; 0; 0]) ++ concat (map (renc0 S) r)).
      rewrite patch_placeholder. rewrite app_assoc. rewrite IH'.
      * rewrite E1, <- app_assoc. reflexivity.
      * rewrite lenN_app. rewrite <- E1. rewrite L1. reflexivity.
    + assert (EU : uses1 S (lenN pre) i = []) by (unfold uses1; rewrite JM; reflexivity).
      assert (E0 : renc0 S i = renc f i).
      { unfold renc0, renc. destruct (is_jump (i_op i)) eqn:J; [|reflexivity].
        cbn [andb] in JM. rewrite JM. rewrite (H2 i (or_introl eq_refl) J JM). reflexivity. }
      rewrite EU, E0. cbn [app]. rewrite (app_assoc pre). rewrite IH'.
      * rewrite <- app_assoc. reflexivity.
      * rewrite lenN_app, L1. reflexivity.
Qed.

(* ---------- labels: where Assemble puts them = relocation of boundaries ---------- *)

Fixpoint noffs (noff : N) (is : list inst) : list N :=      (* boundaries of the re-assembled program *)
  noff :: match is with
          | [] => []
          | i :: r => noffs (noff + rlen i) r
          end.

Lemma offsets_map f : forall is noff, offsets noff (map (rinst f) is) = noffs noff is.
Proof.
  induction is as [|i r IH]; intros noff; cbn [map offsets noffs]; [reflexivity|].
  rewrite rinst_len, IH. reflexivity.
Qed.

Lemma lookup_locs : forall is all loc noff t, labelled all t = true -> In t (offsets loc is) ->
  lookup t (locs_of all loc noff is) = Some (reloc (offsets loc is) (noffs noff is) t).
Proof.
  induction is as [|i r IH]; intros all loc noff t LB HI.
  - cbn [offsets] in HI. destruct HI as [<-|[]].
    cbn [locs_of offsets noffs reloc]. unfold lab1. rewrite LB. cbn [app lookup].
    rewrite N.eqb_refl. reflexivity.
  - cbn [locs_of]. change (offsets loc (i :: r)) with (loc :: offsets (loc + i_len i) r) in *.
    change (noffs noff (i :: r)) with (noff :: noffs (noff + rlen i) r).
    cbn [reloc]. destruct (loc =? t) eqn:E.
    + apply N.eqb_eq in E. subst t. unfold lab1. rewrite LB. cbn [app lookup].
      rewrite N.eqb_refl. reflexivity.
    + destruct HI as [HI|HI]; [lia|].
      unfold lab1. destruct (labelled all loc); cbn [app lookup]; [rewrite E|]; apply IH; assumption.
Qed.

Lemma reloc_notin : forall b b' t, ~ In t b -> reloc b b' t = t.
Proof.
  induction b as [|x b IH]; intros b' t H; [reflexivity|]. destruct b' as [|y b']; [reflexivity|].
  cbn [reloc]. destruct (x =? t) eqn:E.
  - apply N.eqb_eq in E. exfalso. apply H. left. exact E.
  - apply IH. intros HI. apply H. right. exact HI.
Qed.

Lemma reloc_range : forall b b' t, reloc b b' t = t \/ In (reloc b b' t) b'.
Proof.
  induction b as [|x b IH]; intros b' t; [left; reflexivity|]. destruct b' as [|y b']; [left; reflexivity|].
  cbn [reloc]. destruct (x =? t).
  - right. left. reflexivity.
  - destruct (IH b' t) as [H|H]; [left; exact H|right; right; exact H].
Qed.

Lemma noffs_bound : forall is noff x, In x (noffs noff is) -> x <= noff + total_rlen is.
Proof.
  induction is as [|i r IH]; intros noff x H; cbn [noffs total_rlen fold_right] in *.
  - destruct H as [<-|[]]. lia.
  - fold (total_rlen r). destruct H as [<-|H]; [lia|]. apply IH in H. lia.
Qed.

Lemma offsets_starts : forall is off, offsets off is = inst_starts off is ++ [off + total_len is].
Proof.
  induction is as [|i r IH]; intros off; cbn [offsets inst_starts total_len fold_right app].
  - f_equal. lia.
  - fold (total_len r). rewrite IH. do 2 f_equal. f_equal. lia.
Qed.

Lemma memN_In x l : memN x l = true <-> In x l.
Proof.
  unfold memN. rewrite existsb_exists. split.
  - intros [y [HI E]]. apply N.eqb_eq in E. subst. exact HI.
  - intros HI. exists x. split; [exact HI|apply N.eqb_refl].
Qed.

Lemma mem_starts (p : item) (is : list inst) (t : N) : total_len is = lenN p ->
  (memN t (lenN p :: inst_starts 0 is) = true <-> In t (offsets 0 is)).
Proof.
  intros HT. rewrite memN_In, offsets_starts, HT. cbn [In]. rewrite in_app_iff. cbn [In].
  replace (0 + lenN p) with (lenN p) by lia. tauto.
Qed.

Lemma labelled_self (is : list inst) (i : inst) : In i is -> is_jump (i_op i) = true ->
  labelled is (target i) = true.
Proof.
  intros HI J. unfold labelled. apply existsb_exists. exists i. split; [exact HI|].
  rewrite J, N.eqb_refl. reflexivity.
Qed.

(* ---------- every parsed instruction of a byte string is "good" ---------- *)

Lemma Forall_skipn' {A} (P : A -> Prop) n (l : list A) : Forall P l -> Forall P (skipn n l).
Proof. intros H. rewrite <- (firstn_skipn n l) in H. apply Forall_app in H. tauto. Qed.
Lemma Forall_firstn' {A} (P : A -> Prop) n (l : list A) : Forall P l -> Forall P (firstn n l).
Proof. intros H. rewrite <- (firstn_skipn n l) in H. apply Forall_app in H. tauto. Qed.

Lemma parses_good : forall s is, parses s is -> Forall byte s -> lenN s <= 2147483647 ->
  Forall good is.
Proof.
  induction 1 as [|s i r D P IH]; intros HB HL; [constructor|].
  destruct (dec_spec s i D) as (SH & L1 & L2 & NT & DT).
  constructor.
  - unfold good. split; [exact SH|]. split; [exact L1|].
    split.
    { apply nth_error_In in NT. rewrite Forall_forall in HB. apply HB. exact NT. }
    split.
    { destruct ((OP_1 <=? i_op i) && (i_op i <=? OP_16)) eqn:E1.
      - unfold shape in SH. rewrite E1 in SH. destruct SH as [_ ->]. reflexivity.
      - destruct (DT eq_refl) as [DL _]. lia. }
    intros J. destruct (shape_jump i SH J) as [_ L4].
    assert (E1 : (OP_1 <=? i_op i) && (i_op i <=? OP_16) = false)
      by (destruct (is_jump_cases _ J) as [-> | ->]; reflexivity).
    destruct (DT E1) as [_ DS].
    assert (FB : Forall byte (i_data i)).
    { rewrite DS. unfold slice. apply Forall_firstn', Forall_skipn'. exact HB. }
    unfold target. destruct (i_data i) as [|a [|b [|c [|d [|e t]]]]];
      try (unfold lenN in L4; cbn [List.length] in L4; lia).
    cbn [firstn].
    inversion FB as [|? ? Ba FB1]; subst. inversion FB1 as [|? ? Bb FB2]; subst.
    inversion FB2 as [|? ? Bc FB3]; subst. inversion FB3 as [|? ? Bd _]; subst.
    apply le_decode4_bound; assumption.
  - apply IH; [apply Forall_skipn'; exact HB|]. rewrite lenN_skipn. lia.
Qed.

Lemma pinst_len_bound (d : item) : i_len (pinst d) <= 5 + lenN d /\ (lenN d <= 75 -> i_len (pinst d) <= 1 + lenN d).
Proof.
  unfold pinst. set (l := lenN d).
  destruct (l =? 0) eqn:E0; [cbn [i_len mk]; lia|].
  destruct (l <=? 75) eqn:E1; [cbn [i_len mk]; lia|].
  destruct (l <? 256) eqn:E2; [cbn [i_len mk]; lia|].
  destruct (l <? 65536) eqn:E3; cbn [i_len mk]; lia.
Qed.

Lemma rlen_bound (i : inst) : shape i -> rlen i <= 2 * i_len i.
Proof.
  intros SH. unfold rlen.
  destruct (is_jump (i_op i)) eqn:J; [destruct (shape_jump i SH J); lia|].
  destruct (hex_case i) eqn:HX.
  2:{ destruct (name_case i SH J HX) as [L _]. lia. }
  destruct (pinst_len_bound (i_data i)) as [B1 B2].
  unfold shape in SH. rewrite J in SH.
  change OP_DATA_1 with 1 in *. change OP_DATA_75 with 75 in *.
  destruct ((OP_1 <=? i_op i) && (i_op i <=? OP_16)).
  { destruct SH as [L D]. rewrite D in *. change (lenN [i_op i - OP_1 + 1]) with 1 in *. lia. }
  destruct ((1 <=? i_op i) && (i_op i <=? 75)) eqn:E2; [lia|].
  destruct (i_op i =? OP_PUSHDATA1); [lia|].
  destruct (i_op i =? OP_PUSHDATA2); [lia|].
  destruct (i_op i =? OP_PUSHDATA4); [lia|].
  destruct SH as [L D]. rewrite D in *. change (lenN []) with 0 in *. lia.
Qed.

Lemma total_rlen_bound (is : list inst) : Forall good is -> total_rlen is <= 2 * total_len is.
Proof.
  induction 1 as [|i r G _ IH]; cbn [total_rlen total_len fold_right]; [lia|].
  fold (total_rlen r). fold (total_len r). destruct G as (SH & _). pose proof (rlen_bound i SH). lia.
Qed.

(* ---------- the re-parsed instructions are "the same" ---------- *)

Lemma forall2b_map {A} (g : A -> A -> bool) (h : A -> A) : forall l,
  (forall x, In x l -> g x (h x) = true) -> forall2b g l (map h l) = true.
Proof.
  induction l as [|x l IH]; intros H; [reflexivity|]. cbn [map forall2b].
  rewrite (H x (or_introl eq_refl)). apply IH. intros y HY. apply H. right. exact HY.
Qed.

Lemma pinst_data d : i_data (pinst d) = d.
Proof.
  unfold pinst. destruct (lenN d =? 0) eqn:E0.
  - apply N.eqb_eq in E0. apply lenN_0 in E0. subst. reflexivity.
  - destruct (lenN d <=? 75); [reflexivity|]. destruct (lenN d <? 256); [reflexivity|].
    destruct (lenN d <? 65536); reflexivity.
Qed.
Lemma pinst_push d : is_push (i_op (pinst d)) = true.
Proof.
  unfold pinst. destruct (lenN d =? 0); [reflexivity|].
  destruct (lenN d <=? 75) eqn:E; [|destruct (lenN d <? 256); [reflexivity|destruct (lenN d <? 65536); reflexivity]].
  cbn [i_op mk]. unfold is_push. change OP_PUSHDATA4 with 78. lia.
Qed.
Lemma bytes_eqb_refl (d : item) : list_eqb N.eqb d d = true.
Proof. apply (list_eqb_eq N.eqb N.eqb_eq). reflexivity. Qed.

Lemma inst_equiv_rinst b b' f i : good i ->
  f (target i) = reloc b b' (target i) ->
  (is_jump (i_op i) = true -> f (target i) < 4294967296) ->
  inst_equiv b b' i (rinst f i) = true.
Proof.
  intros (SH & L1 & OB & DB & TB) HF HT. unfold inst_equiv, rinst.
  destruct (is_jump (i_op i)) eqn:J.
  - cbn [i_op mk]. rewrite N.eqb_refl. cbn [andb].
    unfold target at 1. cbn [i_data mk].
    change (firstn 4 (le32 (f (target i)))) with (le32 (f (target i))).
    rewrite le_decode_le32 by (apply HT; reflexivity). rewrite HF. apply N.eqb_refl.
  - destruct (hex_case i) eqn:HX.
    + assert (PU : is_push (i_op i) = true).
      { unfold shape in SH. rewrite J in SH. unfold hex_case in HX. unfold is_push.
        change OP_PUSHDATA1 with 76 in *. change OP_PUSHDATA2 with 77 in *. change OP_PUSHDATA4 with 78 in *.
        change OP_DATA_1 with 1 in *. change OP_DATA_75 with 75 in *.
        destruct ((OP_1 <=? i_op i) && (i_op i <=? OP_16)) eqn:E1; [rewrite orb_true_r; reflexivity|].
        destruct ((1 <=? i_op i) && (i_op i <=? 75)) eqn:E2; [lia|].
        destruct (i_op i =? 76) eqn:E3; [lia|]. destruct (i_op i =? 77) eqn:E4; [lia|].
        destruct (i_op i =? 78) eqn:E5; [lia|].
        destruct SH as [_ D]. rewrite D in HX. change (lenN []) with 0 in HX. lia. }
      rewrite PU, pinst_push, pinst_data, bytes_eqb_refl. reflexivity.
    + destruct (name_case i SH J HX) as (_ & D & _).
      cbn [i_op i_data mk]. rewrite D.
      destruct (is_push (i_op i)); [reflexivity|]. rewrite N.eqb_refl. reflexivity.
Qed.

(* ---------- the round trip ---------- *)

Theorem roundtrip (p : item) (is : list inst) :
  Forall byte p -> 2 * lenN p <= 2147483647 -> parse_program p = Ok is ->
  exists toks p' is',
    disassemble repaired p = Ok toks /\ assemble repaired toks = Some p'
    /\ parse_program p' = Ok is' /\ same_insts is is' = true.
Proof.
  intros HB H2 HP.
  assert (HL : lenN p <= 2147483647) by lia.
  destruct (tiling p is HP) as [_ TL].
  pose proof (proj1 (parse_program_parses p is HL) HP) as PS.
  pose proof (parses_good p is PS HB HL) as G.
  pose proof (total_rlen_bound is G) as RB.
  assert (GS : Forall shape is).
  { eapply Forall_impl; [|exact G]. intros i (SH & _). exact SH. }
  assert (GD : Forall (fun i => shape i /\ lenN (i_data i) < 4294967296) is).
  { eapply Forall_impl; [|exact G]. intros i (SH & _ & _ & DB & _). split; assumption. }
  set (S := lenN p :: inst_starts 0 is).
  set (f := reloc (offsets 0 is) (noffs 0 is)).
  exists (dis_toks is S 0 is), (concat (map (renc f) is)), (map (rinst f) is).
  split; [|split; [|split]].
  - unfold disassemble. rewrite HP. cbn [obind]. apply dis_emit_ok. exact GS.
  - unfold assemble.
    pose proof (asm_fold_dis is is S 0 [] [] [] G) as AF.
    change (lenN (@nil N)) with 0 in AF. cbn [app] in AF. unfold mkst in AF.
    rewrite AF; [|intros k x []|lia].
    cbn [a_res a_unres a_locs].
    apply (resolve_spec is S (locs_of is 0 0 is) f [] G).
    + intros i HI J M. unfold f. apply lookup_locs.
      * apply labelled_self; assumption.
      * apply (mem_starts p is _ TL). exact M.
    + intros i HI J M. unfold f. apply reloc_notin. intros HIn.
      apply (mem_starts p is _ TL) in HIn. unfold S in M. congruence.
  - apply parse_program_parses.
    + rewrite (lenN_concat_renc f is GD). lia.
    + apply parses_concat. exact GD.
  - unfold same_insts. rewrite offsets_map. apply forall2b_map.
    intros i HI. rewrite Forall_forall in G. pose proof (G i HI) as Gi.
    apply inst_equiv_rinst; [exact Gi|reflexivity|].
    intros J. unfold f. destruct (reloc_range (offsets 0 is) (noffs 0 is) (target i)) as [E|E].
    + rewrite E. destruct Gi as (_ & _ & _ & _ & TB). apply TB. exact J.
    + apply noffs_bound in E. lia.
Qed.
