(* C09 — recognisers agree with builders. *)
From Coq Require Import String Ascii.
From Coq Require Import List ZArith NArith Bool Lia ZifyBool ZifyN ZifyNat.
From Verif Require Import Outcome Cmp VM.
From C09 Require Import Model ProofsParse ProofsAsm.
Import ListNotations.
Open Scope N_scope.

Lemma lenN_push_ge (d : item) : lenN d < lenN (push_data_bytes d).
Proof.
  unfold push_data_bytes. fold (lenN d).
  destruct (lenN d =? 0) eqn:E0; [rewrite lenN_cons; lia|].
  destruct (lenN d <=? 75); [rewrite lenN_cons; lia|].
  destruct (lenN d <? 256); [rewrite !lenN_cons; lia|].
  destruct (lenN d <? 65536); rewrite !lenN_cons; lia.
Qed.

Lemma parses_push (d rest : item) (r : list inst) : lenN d < 4294967296 ->
  parses rest r -> parses (push_data_bytes d ++ rest) (pinst d :: r).
Proof.
  intros HD P. destruct (dec_push d rest HD) as [D L].
  apply parses_app; [exact D|symmetry; exact L|exact P].
Qed.

Lemma parses_single (op : N) (rest : item) (r : list inst) :
  dec (op :: rest) = Some (mk op 1 []) -> parses rest r -> parses (op :: rest) (mk op 1 [] :: r).
Proof. intros D P. apply (parses_app [op] rest _ r D eq_refl P). Qed.

(* pinst: opcode of the canonical push *)
Lemma pinst_op_data (d : item) (n : N) : 1 <= n -> n <= 75 ->
  (i_op (pinst d) =? n) && (lenN (i_data (pinst d)) =? n) = (lenN d =? n).
Proof.
  intros H1 H2. rewrite pinst_data. unfold pinst.
  destruct (lenN d =? 0) eqn:E0; [cbn [i_op mk]; lia|].
  destruct (lenN d <=? 75) eqn:E1; [cbn [i_op mk]; lia|].
  destruct (lenN d <? 256); [cbn [i_op mk]; lia|].
  destruct (lenN d <? 65536); cbn [i_op mk]; lia.
Qed.

(* ---------- [0] ++ push h : P2WPKH / P2WSH ---------- *)

Lemma parse_p2w (h : item) : lenN (p2wpkh_program h) <= 2147483647 ->
  parse_program (p2wpkh_program h) = Ok [mk 0 1 []; pinst h].
Proof.
  intros HL. apply parse_program_parses; [exact HL|].
  unfold p2wpkh_program in *. change (push_data_uint64 0) with [0] in *.
  rewrite lenN_app in HL. pose proof (lenN_push_ge h).
  cbn [app]. apply parses_single; [reflexivity|].
  rewrite <- (app_nil_r (push_data_bytes h)). apply parses_push; [lia|constructor].
Qed.

Lemma p2w_long (h : item) : 2147483647 < lenN (p2wpkh_program h) -> 75 < lenN h.
Proof.
  unfold p2wpkh_program. change (push_data_uint64 0) with [0]. rewrite lenN_app.
  unfold push_data_bytes. fold (lenN h).
  destruct (lenN h =? 0) eqn:E0; [cbn; lia|].
  destruct (lenN h <=? 75) eqn:E1; [rewrite !lenN_cons; change (lenN (@nil N)) with 0; lia|].
  lia.
Qed.

Lemma is_p2wpkh_builder (h : item) : is_p2wpkh (p2wpkh_program h) = (lenN h =? 20).
Proof.
  destruct (2147483647 <? lenN (p2wpkh_program h)) eqn:E.
  - unfold is_p2wpkh. rewrite parse_program_long by lia. pose proof (p2w_long h). lia.
  - unfold is_p2wpkh. rewrite parse_p2w by lia. cbn [i_op mk]. change (0 =? 0) with true.
    cbn [andb]. apply pinst_op_data; lia.
Qed.
Lemma is_p2wsh_builder (h : item) : is_p2wsh (p2wsh_program h) = (lenN h =? 32).
Proof.
  change (p2wsh_program h) with (p2wpkh_program h).
  destruct (2147483647 <? lenN (p2wpkh_program h)) eqn:E.
  - unfold is_p2wsh. rewrite parse_program_long by lia. pose proof (p2w_long h). lia.
  - unfold is_p2wsh. rewrite parse_p2w by lia. cbn [i_op mk]. change (0 =? 0) with true.
    cbn [andb]. apply pinst_op_data; lia.
Qed.

Lemma get_hash_builder (h : item) : lenN (p2wpkh_program h) <= 2147483647 ->
  get_hash (p2wpkh_program h) = Ok h.
Proof.
  intros HL. unfold get_hash. rewrite parse_p2w by exact HL. cbn [obind nth_error].
  rewrite pinst_data. reflexivity.
Qed.

(* ---------- BCRP ---------- *)

Lemma parse_register (c : item) : lenN (register_program c) <= 2147483647 ->
  parse_program (register_program c)
  = Ok [mk OP_FAIL 1 []; pinst bcrp_tag; pinst bcrp_version; pinst c].
Proof.
  intros HL. apply parse_program_parses; [exact HL|].
  unfold register_program in *. rewrite !lenN_app in HL. pose proof (lenN_push_ge c).
  cbn [app]. apply parses_single; [reflexivity|].
  apply (parses_push bcrp_tag); [reflexivity|].
  apply (parses_push bcrp_version); [reflexivity|].
  rewrite <- (app_nil_r (push_data_bytes c)). apply parses_push; [lia|constructor].
Qed.

Lemma is_bcrp_builder (c : item) : lenN (register_program c) <= 2147483647 ->
  (is_bcrp (register_program c) = true <-> c <> []).
Proof.
  intros HL. unfold is_bcrp. rewrite (parse_register c HL).
  change (pinst bcrp_tag) with (mk 4 5 bcrp_tag). change (pinst bcrp_version) with (mk 1 2 bcrp_version).
  cbn [i_op i_data mk]. change (OP_FAIL =? OP_FAIL) with true. change (4 =? 4) with true.
  change (1 =? 1) with true. rewrite !bytes_eqb_refl. cbn [andb]. rewrite pinst_data.
  split.
  - intros H E. subst c. discriminate.
  - intros H. destruct c; [congruence|]. rewrite lenN_cons. lia.
Qed.

Lemma parse_contract_builder (c : item) : lenN (register_program c) <= 2147483647 ->
  parse_contract (register_program c) = Ok c.
Proof.
  intros HL. unfold parse_contract. rewrite (parse_register c HL). cbn [obind].
  rewrite pinst_data. reflexivity.
Qed.

Lemma parse_call (h : item) : lenN (call_contract_program h) <= 2147483647 ->
  parse_program (call_contract_program h) = Ok [pinst bcrp_tag; pinst h].
Proof.
  intros HL. apply parse_program_parses; [exact HL|].
  unfold call_contract_program in *. rewrite lenN_app in HL. pose proof (lenN_push_ge h).
  apply (parses_push bcrp_tag); [reflexivity|].
  rewrite <- (app_nil_r (push_data_bytes h)). apply parses_push; [lia|constructor].
Qed.

Lemma call_long (h : item) : 2147483647 < lenN (call_contract_program h) -> 75 < lenN h.
Proof.
  unfold call_contract_program. rewrite lenN_app. change (lenN (push_data_bytes bcrp_tag)) with 5.
  unfold push_data_bytes. fold (lenN h).
  destruct (lenN h =? 0) eqn:E0; [cbn; lia|].
  destruct (lenN h <=? 75) eqn:E1; [rewrite !lenN_cons; lia|].
  lia.
Qed.

Lemma is_call_contract_builder (h : item) :
  is_call_contract (call_contract_program h) = (lenN h =? 32).
Proof.
  destruct (2147483647 <? lenN (call_contract_program h)) eqn:E.
  - unfold is_call_contract. rewrite parse_program_long by lia. pose proof (call_long h). lia.
  - unfold is_call_contract. rewrite parse_call by lia.
    change (pinst bcrp_tag) with (mk 4 5 bcrp_tag). cbn [i_op i_data mk].
    change (4 =? 4) with true. rewrite bytes_eqb_refl. cbn [andb]. apply pinst_op_data; lia.
Qed.

Lemma parse_contract_hash_builder (h : item) : lenN h = 32 ->
  parse_contract_hash (call_contract_program h) = Ok h.
Proof.
  intros H32.
  assert (HL : lenN (call_contract_program h) <= 2147483647).
  { destruct (2147483647 <? lenN (call_contract_program h)) eqn:E; [|lia].
    pose proof (call_long h). lia. }
  unfold parse_contract_hash. rewrite (parse_call h HL). cbn [obind]. rewrite pinst_data.
  rewrite firstn_app_exact; [reflexivity|]. unfold lenN in H32. lia.
Qed.

(* ---------- the recognisers exclude each other ---------- *)

Definition recognised (p : item) : list bool :=
  [is_p2wpkh p; is_p2wsh p; is_straightforward p; is_bcrp p; is_call_contract p].

Lemma exclusive (p : item) : (List.length (filter (fun b => b) (recognised p)) <= 1)%nat.
Proof.
  unfold recognised, is_p2wpkh, is_p2wsh, is_straightforward, is_bcrp, is_call_contract.
  destruct (parse_program p) as [[|i0 [|i1 [|i2 [|i3 [|i4 r]]]]]| |]; cbn [filter List.length]; try lia.
  - destruct ((i_op i0 =? OP_1) || (i_op i0 =? OP_FAIL)); cbn [filter List.length]; lia.
  - destruct (i_op i0 =? 0) eqn:A0, (i_op i0 =? 4) eqn:A4, (i_op i1 =? 20) eqn:B20,
             (i_op i1 =? 32) eqn:B32, (lenN (i_data i1) =? 20), (lenN (i_data i1) =? 32),
             (list_eqb N.eqb (i_data i0) bcrp_tag); cbn [andb filter List.length]; lia.
  - destruct (_ && _); cbn [filter List.length]; lia.
Qed.

(* ---------- converse: what a recognised P2W program looks like ---------- *)

Lemma two_inst_shape (p : item) (i0 i1 : inst) (n : N) : parses p [i0; i1] ->
  i_op i0 = 0 -> i_op i1 = n -> 1 <= n -> n <= 75 ->
  lenN (i_data i1) = n /\ p = 0 :: n :: i_data i1.
Proof.
  intros P E0 E1 N1 N2.
  inversion P as [|s a r D0 P1]; subst s a r. inversion P1 as [|s b r D1 P2]; subst s b r.
  inversion P2 as [H|]; clear P P1 P2.
  destruct (dec_spec _ _ D0) as (SH0 & _ & L0 & NT0 & _).
  destruct (dec_spec _ _ D1) as (SH1 & _ & L1 & NT1 & DT1).
  unfold shape in SH0. rewrite E0 in SH0. change (i_len i0 = 1 /\ i_data i0 = []) in SH0.
  destruct SH0 as [LEN0 _]. rewrite LEN0 in *.
  destruct p as [|x t]; [discriminate|]. cbn [nth_error] in NT0. rewrite E0 in NT0.
  injection NT0 as ->. change (skipn (N.to_nat 1) (0 :: t)) with t in *.
  assert (C1 : (OP_1 <=? i_op i1) && (i_op i1 <=? OP_16) = false)
    by (rewrite E1; change OP_1 with 81; change OP_16 with 96; lia).
  assert (C2 : (OP_DATA_1 <=? i_op i1) && (i_op i1 <=? OP_DATA_75) = true)
    by (rewrite E1; change OP_DATA_1 with 1; change OP_DATA_75 with 75; lia).
  unfold shape in SH1. rewrite C1, C2 in SH1. destruct SH1 as [LEN1 LD1].
  destruct (DT1 C1) as [_ DS]. rewrite E1 in *.
  destruct t as [|y u]; [discriminate|]. cbn [nth_error] in NT1. injection NT1 as ->.
  assert (HU : lenN u = n).
  { apply (f_equal lenN) in H. rewrite lenN_skipn, lenN_nil, LEN1 in H. rewrite lenN_cons in *. lia. }
  split; [exact LD1|]. do 2 f_equal.
  rewrite DS. unfold hdr. change OP_PUSHDATA1 with 76. change OP_PUSHDATA2 with 77. change OP_PUSHDATA4 with 78.
  destruct (n =? 76) eqn:?; [lia|]. destruct (n =? 77) eqn:?; [lia|]. destruct (n =? 78) eqn:?; [lia|].
  rewrite LEN1, slice_1. symmetry. apply firstn_all2. unfold lenN in HU. lia.
Qed.

Lemma is_p2wpkh_shape (p : item) : is_p2wpkh p = true ->
  exists h, lenN h = 20 /\ p = p2wpkh_program h /\ get_hash p = Ok h.
Proof.
  unfold is_p2wpkh, get_hash. intros H.
  destruct (parse_program p) as [[|i0 [|i1 [|]]]| |] eqn:PP; try discriminate.
  pose proof (parse_program_ok_short _ _ PP) as HL.
  apply parse_program_parses in PP; [|exact HL].
  destruct (two_inst_shape p i0 i1 20 PP) as [LD EP]; try lia.
  exists (i_data i1). split; [exact LD|]. split; [|reflexivity].
  rewrite EP. unfold p2wpkh_program, push_data_bytes. fold (lenN (i_data i1)). rewrite LD. reflexivity.
Qed.
Lemma is_p2wsh_shape (p : item) : is_p2wsh p = true ->
  exists h, lenN h = 32 /\ p = p2wsh_program h /\ get_hash p = Ok h.
Proof.
  unfold is_p2wsh, get_hash. intros H.
  destruct (parse_program p) as [[|i0 [|i1 [|]]]| |] eqn:PP; try discriminate.
  pose proof (parse_program_ok_short _ _ PP) as HL.
  apply parse_program_parses in PP; [|exact HL].
  destruct (two_inst_shape p i0 i1 32 PP) as [LD EP]; try lia.
  exists (i_data i1). split; [exact LD|]. split; [|reflexivity].
  rewrite EP. unfold p2wsh_program, push_data_bytes. fold (lenN (i_data i1)). rewrite LD. reflexivity.
Qed.

(* a BCRP program yields a non-empty contract; its fourth instruction need not be a push *)
Lemma is_bcrp_contract (p : item) : is_bcrp p = true ->
  exists c, parse_contract p = Ok c /\ c <> [].
Proof.
  unfold is_bcrp, parse_contract. intros H.
  destruct (parse_program p) as [[|i0 [|i1 [|i2 [|i3 [|]]]]]| |]; try discriminate.
  exists (i_data i3). split; [reflexivity|]. intros E. rewrite E in H.
  change (lenN []) with 0 in H. rewrite andb_false_r in H. discriminate.
Qed.
Example bcrp_fourth_may_be_jump :
  let p := [106; 4; 98; 99; 114; 112; 1; 1; 99; 0; 0; 0; 0] in
  is_bcrp p = true /\ parse_contract p = Ok [0; 0; 0; 0] /\ register_program [0; 0; 0; 0] <> p.
Proof. vm_compute. repeat split. discriminate. Qed.

(* ---------- converse for call-contract programs ---------- *)

(* a decoded direct data push (opcode 1..75) is its opcode byte followed by its data *)
Lemma dec_data_push (s : item) (i : inst) : dec s = Some i -> 1 <= i_op i -> i_op i <= 75 ->
  lenN (i_data i) = i_op i
  /\ s = i_op i :: i_data i ++ skipn (N.to_nat (i_len i)) s.
Proof.
  intros D H1 H2. destruct (dec_spec _ _ D) as (_ & _ & _ & NT & _).
  destruct s as [|opc t]; [discriminate|]. cbn [nth_error] in NT. apply some_inj in NT.
  rewrite <- NT in *. clear NT. cbn [dec] in D.
  change OP_1 with 81 in D. change OP_16 with 96 in D.
  change OP_DATA_1 with 1 in D. change OP_DATA_75 with 75 in D.
  destruct ((81 <=? opc) && (opc <=? 96)) eqn:A1; [lia|].
  destruct ((1 <=? opc) && (opc <=? 75)) eqn:A2; [|lia].
  destruct (lenN t <? opc) eqn:A3; [discriminate|].
  apply some_inj in D. subst i. cbn [i_op i_len i_data mk].
  split; [rewrite lenN_firstn; lia|]. f_equal.
  replace (N.to_nat (1 + (opc - 1 + 1))) with (S (N.to_nat opc)) by lia.
  cbn [skipn]. symmetry. apply firstn_skipn.
Qed.

(* generalisation of [two_inst_shape]: both instructions are direct data pushes *)
Lemma two_push_shape (p : item) (i0 i1 : inst) (n0 n : N) : parses p [i0; i1] ->
  i_op i0 = n0 -> 1 <= n0 -> n0 <= 75 -> i_op i1 = n -> 1 <= n -> n <= 75 ->
  lenN (i_data i0) = n0 /\ lenN (i_data i1) = n /\ p = n0 :: i_data i0 ++ n :: i_data i1.
Proof.
  intros P E0 A1 A2 E1 B1 B2.
  inversion P as [|s a r D0 P1]; subst s a r. inversion P1 as [|s b r D1 P2]; subst s b r.
  inversion P2 as [H|]; clear P P1 P2.
  destruct (dec_data_push _ _ D0) as [L0 S0]; [lia|lia|].
  destruct (dec_data_push _ _ D1) as [L1 S1]; [lia|lia|].
  rewrite <- H, app_nil_r in S1. rewrite S1 in S0. rewrite E0 in *. rewrite E1 in *.
  split; [exact L0|]. split; [exact L1|exact S0].
Qed.

Lemma is_call_contract_shape (p : item) : is_call_contract p = true ->
  exists h, lenN h = 32 /\ p = call_contract_program h.
Proof.
  unfold is_call_contract. intros H.
  destruct (parse_program p) as [[|i0 [|i1 [|]]]| |] eqn:PP; try discriminate.
  pose proof (parse_program_ok_short _ _ PP) as HL.
  apply parse_program_parses in PP; [|exact HL].
  apply andb_prop in H. destruct H as [H0 H1].
  apply andb_prop in H0. destruct H0 as [E0 T0]. apply andb_prop in H1. destruct H1 as [E1 _].
  apply (list_eqb_eq N.eqb N.eqb_eq) in T0.
  destruct (two_push_shape p i0 i1 4 32 PP) as (_ & LD & EP); try lia.
  exists (i_data i1). split; [exact LD|].
  rewrite EP, T0. unfold call_contract_program, push_data_bytes at 2. fold (lenN (i_data i1)).
  rewrite LD. reflexivity.
Qed.

Example call_contract_recognised :
  let h := repeat 7 32 in
  is_call_contract (4 :: 98 :: 99 :: 114 :: 112 :: 32 :: h) = true
  /\ lenN h = 32 /\ 4 :: 98 :: 99 :: 114 :: 112 :: 32 :: h = call_contract_program h.
Proof. vm_compute. repeat split. Qed.

(* ---------- converse for registration programs with a minimal contract push ---------- *)


(* over BYTES, an instruction that decodes to the canonical push of its data is encoded as
   PushdataBytes encodes it (length prefixes are determined by the length) *)
Lemma dec_pinst (s d : item) : Forall byte s -> dec s = Some (pinst d) ->
  s = push_data_bytes d ++ skipn (N.to_nat (i_len (pinst d))) s.
Proof.
  intros HB D. destruct (dec_spec _ _ D) as (_ & _ & _ & NT & _).
  destruct s as [|opc t]; [discriminate|]. cbn [nth_error] in NT. apply some_inj in NT.
  revert D NT. unfold pinst, push_data_bytes. fold (lenN d). set (l := lenN d).
  destruct (l =? 0) eqn:E0.
  { cbn [i_op i_len mk]. intros _ ->. reflexivity. }
  destruct (l <=? 75) eqn:E1.
  { cbn [i_op i_len mk]. intros D ->. cbn [dec] in D.
    change OP_1 with 81 in D. change OP_16 with 96 in D.
    change OP_DATA_1 with 1 in *. change OP_DATA_75 with 75 in D.
    destruct ((81 <=? l) && (l <=? 96)) eqn:A1; [lia|].
    destruct ((1 <=? l) && (l <=? 75)) eqn:A2; [|lia].
    destruct (lenN t <? l) eqn:A3; [discriminate|].
    apply some_inj in D. apply (f_equal i_data) in D. cbn [i_data mk] in D.
    replace (1 + l - 1) with l by lia. cbn [app]. f_equal.
    replace (N.to_nat (1 + l)) with (S (N.to_nat l)) by lia. cbn [skipn].
    rewrite <- D. symmetry. apply firstn_skipn. }
  destruct (l <? 256) eqn:E2.
  { cbn [i_op i_len mk]. intros D ->. change OP_PUSHDATA1 with 76.
    cbn [dec] in D. change ((OP_1 <=? 76) && (76 <=? OP_16)) with false in D.
    change ((OP_DATA_1 <=? 76) && (76 <=? OP_DATA_75)) with false in D.
    change (76 =? OP_PUSHDATA1) with true in D. cbv iota in D.
    destruct t as [|n u]; [discriminate|]. destruct (lenN u <? n) eqn:A3; [discriminate|].
    apply some_inj in D. pose proof (f_equal i_len D) as DL. pose proof (f_equal i_data D) as DD.
    cbn [i_len i_data mk] in DL, DD. clear D.
    assert (n = l) by lia. subst n. cbn [app]. do 2 f_equal.
    replace (N.to_nat (2 + l)) with (S (S (N.to_nat l))) by lia. cbn [skipn].
    rewrite <- DD. symmetry. apply firstn_skipn. }
  destruct (l <? 65536) eqn:E3.
  { cbn [i_op i_len mk]. intros D ->. change OP_PUSHDATA2 with 77.
    cbn [dec] in D. change ((OP_1 <=? 77) && (77 <=? OP_16)) with false in D.
    change ((OP_DATA_1 <=? 77) && (77 <=? OP_DATA_75)) with false in D.
    change (77 =? OP_PUSHDATA1) with false in D. change (77 =? OP_PUSHDATA2) with true in D.
    cbv iota zeta in D.
    destruct t as [|n0 [|n1 u]]; try discriminate.
    destruct (lenN u <? n0 + 256 * n1) eqn:A3; [discriminate|].
    apply some_inj in D. pose proof (f_equal i_len D) as DL. pose proof (f_equal i_data D) as DD.
    cbn [i_len i_data mk] in DL, DD. clear D.
    pose proof (Forall_inv (Forall_inv_tail HB)) as B0.
    pose proof (Forall_inv (Forall_inv_tail (Forall_inv_tail HB))) as B1. unfold byte in B0, B1.
    assert (N0 : l mod 256 = n0) by lia. assert (N1 : l / 256 = n1) by lia.
    assert (NL : n0 + 256 * n1 = l) by lia.
    rewrite N0, N1. cbn [app]. do 3 f_equal.
    replace (N.to_nat (3 + l)) with (S (S (S (N.to_nat l)))) by lia. cbn [skipn].
    rewrite <- DD, NL. symmetry. apply firstn_skipn. }
  cbn [i_op i_len mk]. intros D ->. change OP_PUSHDATA4 with 78.
  cbn [dec] in D. change ((OP_1 <=? 78) && (78 <=? OP_16)) with false in D.
  change ((OP_DATA_1 <=? 78) && (78 <=? OP_DATA_75)) with false in D.
  change (78 =? OP_PUSHDATA1) with false in D. change (78 =? OP_PUSHDATA2) with false in D.
  change (78 =? OP_PUSHDATA4) with true in D. cbv iota zeta in D.
  destruct t as [|b0 [|b1 [|b2 [|b3 u]]]]; try discriminate.
  destruct (lenN u <? le_decode [b0; b1; b2; b3]) eqn:A3; [discriminate|].
  apply some_inj in D. pose proof (f_equal i_len D) as DL. pose proof (f_equal i_data D) as DD.
    cbn [i_len i_data mk] in DL, DD. clear D.
  pose proof (Forall_inv (Forall_inv_tail HB)) as B0.
  pose proof (Forall_inv (Forall_inv_tail (Forall_inv_tail HB))) as B1.
  pose proof (Forall_inv (Forall_inv_tail (Forall_inv_tail (Forall_inv_tail HB)))) as B2.
  pose proof (Forall_inv (Forall_inv_tail (Forall_inv_tail (Forall_inv_tail (Forall_inv_tail HB))))) as B3.
  unfold byte in B0, B1, B2, B3.
  assert (NL : le_decode [b0; b1; b2; b3] = l) by lia.
  assert (NE : l = b0 + 256 * (b1 + 256 * (b2 + 256 * b3))) by (rewrite <- NL; cbn [le_decode]; lia).
  assert (N0 : l mod 256 = b0) by lia. assert (N1 : (l / 256) mod 256 = b1) by lia.
  assert (N2 : (l / 65536) mod 256 = b2) by lia. assert (N3 : (l / 16777216) mod 256 = b3) by lia.
  rewrite N0, N1, N2, N3. cbn [app]. do 5 f_equal.
  replace (N.to_nat (5 + l)) with (S (S (S (S (S (N.to_nat l)))))) by lia. cbn [skipn].
  rewrite <- DD, NL. symmetry. apply firstn_skipn.
Qed.

(* an instruction without data (here: FAIL) is its opcode byte *)
Lemma dec_fail (s : item) (i : inst) : dec s = Some i -> i_op i = OP_FAIL ->
  s = OP_FAIL :: skipn (N.to_nat (i_len i)) s.
Proof.
  intros D E. destruct (dec_spec _ _ D) as (SH & _ & _ & NT & _).
  unfold shape in SH. rewrite E in SH. change (i_len i = 1 /\ i_data i = []) in SH.
  destruct SH as [-> _]. destruct s as [|x t]; [discriminate|].
  cbn [nth_error] in NT. apply some_inj in NT. rewrite NT, E. reflexivity.
Qed.

(* a recognised registration program OVER BYTES whose fourth instruction is the minimal
   push of its data is the builder's output for that contract (without the minimality
   hypothesis this fails: [bcrp_fourth_may_be_jump]; over unbounded "bytes" a PUSHDATA2
   length prefix such as 300,0 would be a second encoding) *)
Lemma is_bcrp_shape (p : item) (i0 i1 i2 i3 : inst) : Forall byte p ->
  parse_program p = Ok [i0; i1; i2; i3] -> is_bcrp p = true -> i3 = pinst (i_data i3) ->
  i_data i3 <> [] /\ p = register_program (i_data i3) /\ parse_contract p = Ok (i_data i3).
Proof.
  intros HB PP H M. unfold is_bcrp, parse_contract in *. rewrite PP in *. cbn [obind].
  pose proof (parse_program_ok_short _ _ PP) as HL.
  apply parse_program_parses in PP; [|exact HL].
  repeat (apply andb_prop in H; let X := fresh "X" in destruct H as [H X]).
  apply andb_prop in X1. destruct X1 as [E1 T1]. apply andb_prop in X0. destruct X0 as [E2 T2].
  apply (list_eqb_eq N.eqb N.eqb_eq) in T1. apply (list_eqb_eq N.eqb N.eqb_eq) in T2.
  split; [intros E; rewrite E in X; discriminate|]. split; [|reflexivity].
  inversion PP as [|s a r D0 P1]; subst s a r. inversion P1 as [|s a r D1 P2]; subst s a r.
  inversion P2 as [|s a r D2 P3]; subst s a r. inversion P3 as [|s a r D3 P4]; subst s a r.
  inversion P4 as [HN|]; clear PP P1 P2 P3 P4.
  pose proof (dec_fail _ _ D0 ltac:(lia)) as S0.
  destruct (dec_data_push _ _ D1) as [_ S1]; [lia|lia|].
  destruct (dec_data_push _ _ D2) as [_ S2]; [lia|lia|].
  set (s3 := skipn _ (skipn _ (skipn _ p))) in *.
  assert (EP : p = [106; 4; 98; 99; 114; 112; 1; 1] ++ s3).
  { rewrite S0 at 1. rewrite S1 at 1. rewrite S2 at 1. rewrite T1, T2.
    replace (i_op i1) with 4 by lia. replace (i_op i2) with 1 by lia. reflexivity. }
  assert (HB3 : Forall byte s3) by (rewrite EP in HB; apply Forall_app in HB; apply HB).
  rewrite M in D3, HN. pose proof (dec_pinst _ _ HB3 D3) as S3.
  rewrite <- HN, app_nil_r in S3. rewrite EP at 1. rewrite S3. reflexivity.
Qed.

Example bcrp_minimal_recognised :
  let c := [81; 118] in
  let p := [106; 4; 98; 99; 114; 112; 1; 1; 2; 81; 118] in
  Forall byte p /\ parse_program p = Ok [mk 106 1 []; mk 4 5 bcrp_tag; mk 1 2 bcrp_version; pinst c]
  /\ is_bcrp p = true /\ p = register_program c.
Proof.
  cbv zeta. split; [repeat constructor|]. vm_compute. repeat split.
Qed.
(* the fourth instruction may also be OP_1..OP_16, which the builder never emits *)
Example bcrp_fourth_may_be_small_int :
  let p := [106; 4; 98; 99; 114; 112; 1; 1; 81] in
  is_bcrp p = true /\ parse_contract p = Ok [1] /\ register_program [1] <> p.
Proof. vm_compute. repeat split. discriminate. Qed.
