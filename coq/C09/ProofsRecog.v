(* C09 — recognisers agree with builders. *)
From Coq Require Import String Ascii.
From Coq Require Import List ZArith NArith Bool Lia ZifyBool ZifyN ZifyNat.
From Verif Require Import Outcome Cmp VM.
From C09 Require Import Model ProofsParse ProofsAsm.
Import ListNotations.
Open Scope N_scope.

Lemma lenN_push_ge (d : item) : lenN d < lenN (push_data_bytes d).
Proof.
  unfold push_data_bytes. fold (lenN d).
  destruct (lenN d =? 0) eqn:E0; [rewrite lenN_cons; lia|].
  destruct (lenN d <=? 75); [rewrite lenN_cons; lia|].
  destruct (lenN d <? 256); [rewrite !lenN_cons; lia|].
  destruct (lenN d <? 65536); rewrite !lenN_cons; lia.
Qed.

Lemma parses_push (d rest : item) (r : list inst) : lenN d < 4294967296 ->
  parses rest r -> parses (push_data_bytes d ++ rest) (pinst d :: r).
Proof.
  intros HD P. destruct (dec_push d rest HD) as [D L].
  apply parses_app; [exact D|symmetry; exact L|exact P].
Qed.

Lemma parses_single (op : N) (rest : item) (r : list inst) :
  dec (op :: rest) = Some (mk op 1 []) -> parses rest r -> parses (op :: rest) (mk op 1 [] :: r).
Proof. intros D P. apply (parses_app [op] rest _ r D eq_refl P). Qed.

(* pinst: opcode of the canonical push *)
Lemma pinst_op_data (d : item) (n : N) : 1 <= n -> n <= 75 ->
  (i_op (pinst d) =? n) && (lenN (i_data (pinst d)) =? n) = (lenN d =? n).
Proof.
  intros H1 H2. rewrite pinst_data. unfold pinst.
  destruct (lenN d =? 0) eqn:E0; [cbn [i_op mk]; lia|].
  destruct (lenN d <=? 75) eqn:E1; [cbn [i_op mk]; lia|].
  destruct (lenN d <? 256); [cbn [i_op mk]; lia|].
  destruct (lenN d <? 65536); cbn [i_op mk]; lia.
Qed.

(* ---------- [0] ++ push h : P2WPKH / P2WSH ---------- *)

Lemma parse_p2w (h : item) : lenN (p2wpkh_program h) <= 2147483647 ->
  parse_program (p2wpkh_program h) = Ok [mk 0 1 []; pinst h].
Proof.
  intros HL. apply parse_program_parses; [exact HL|].
  unfold p2wpkh_program in *. change (push_data_uint64 0) with [0] in *.
  rewrite lenN_app in HL. pose proof (lenN_push_ge h).
  cbn [app]. apply parses_single; [reflexivity|].
  rewrite <- (app_nil_r (push_data_bytes h)). apply parses_push; [lia|constructor].
Qed.

Lemma p2w_long (h : item) : 2147483647 < lenN (p2wpkh_program h) -> 75 < lenN h.
Proof.
  unfold p2wpkh_program. change (push_data_uint64 0) with [0]. rewrite lenN_app.
  unfold push_data_bytes. fold (lenN h).
  destruct (lenN h =? 0) eqn:E0; [cbn; lia|].
  destruct (lenN h <=? 75) eqn:E1; [rewrite !lenN_cons; change (lenN (@nil N)) with 0; lia|].
  lia.
Qed.

Lemma is_p2wpkh_builder (h : item) : is_p2wpkh (p2wpkh_program h) = (lenN h =? 20).
Proof.
  destruct (2147483647 <? lenN (p2wpkh_program h)) eqn:E.
  - unfold is_p2wpkh. rewrite parse_program_long by lia. pose proof (p2w_long h). lia.
  - unfold is_p2wpkh. rewrite parse_p2w by lia. cbn [i_op mk]. change (0 =? 0) with true.
    cbn [andb]. apply pinst_op_data; lia.
Qed.
Lemma is_p2wsh_builder (h : item) : is_p2wsh (p2wsh_program h) = (lenN h =? 32).
Proof.
  change (p2wsh_program h) with (p2wpkh_program h).
  destruct (2147483647 <? lenN (p2wpkh_program h)) eqn:E.
  - unfold is_p2wsh. rewrite parse_program_long by lia. pose proof (p2w_long h). lia.
  - unfold is_p2wsh. rewrite parse_p2w by lia. cbn [i_op mk]. change (0 =? 0) with true.
    cbn [andb]. apply pinst_op_data; lia.
Qed.

Lemma get_hash_builder (h : item) : lenN (p2wpkh_program h) <= 2147483647 ->
  get_hash (p2wpkh_program h) = Ok h.
Proof.
  intros HL. unfold get_hash. rewrite parse_p2w by exact HL. cbn [obind nth_error].
  rewrite pinst_data. reflexivity.
Qed.

(* ---------- BCRP ---------- *)

Lemma parse_register (c : item) : lenN (register_program c) <= 2147483647 ->
  parse_program (register_program c)
  = Ok [mk OP_FAIL 1 []; pinst bcrp_tag; pinst bcrp_version; pinst c].
Proof.
  intros HL. apply parse_program_parses; [exact HL|].
  unfold register_program in *. rewrite !lenN_app in HL. pose proof (lenN_push_ge c).
  cbn [app]. apply parses_single; [reflexivity|].
  apply (parses_push bcrp_tag); [reflexivity|].
  apply (parses_push bcrp_version); [reflexivity|].
  rewrite <- (app_nil_r (push_data_bytes c)). apply parses_push; [lia|constructor].
Qed.

Lemma is_bcrp_builder (c : item) : lenN (register_program c) <= 2147483647 ->
  (is_bcrp (register_program c) = true <-> c <> []).
Proof.
  intros HL. unfold is_bcrp. rewrite (parse_register c HL).
  change (pinst bcrp_tag) with (mk 4 5 bcrp_tag). change (pinst bcrp_version) with (mk 1 2 bcrp_version).
  cbn [i_op i_data mk]. change (OP_FAIL =? OP_FAIL) with true. change (4 =? 4) with true.
  change (1 =? 1) with true. rewrite !bytes_eqb_refl. cbn [andb]. rewrite pinst_data.
  split.
  - intros H E. subst c. discriminate.
  - intros H. destruct c; [congruence|]. rewrite lenN_cons. lia.
Qed.

Lemma parse_contract_builder (c : item) : lenN (register_program c) <= 2147483647 ->
  parse_contract (register_program c) = Ok c.
Proof.
  intros HL. unfold parse_contract. rewrite (parse_register c HL). cbn [obind].
  rewrite pinst_data. reflexivity.
Qed.

Lemma parse_call (h : item) : lenN (call_contract_program h) <= 2147483647 ->
  parse_program (call_contract_program h) = Ok [pinst bcrp_tag; pinst h].
Proof.
  intros HL. apply parse_program_parses; [exact HL|].
  unfold call_contract_program in *. rewrite lenN_app in HL. pose proof (lenN_push_ge h).
  apply (parses_push bcrp_tag); [reflexivity|].
  rewrite <- (app_nil_r (push_data_bytes h)). apply parses_push; [lia|constructor].
Qed.

Lemma call_long (h : item) : 2147483647 < lenN (call_contract_program h) -> 75 < lenN h.
Proof.
  unfold call_contract_program. rewrite lenN_app. change (lenN (push_data_bytes bcrp_tag)) with 5.
  unfold push_data_bytes. fold (lenN h).
  destruct (lenN h =? 0) eqn:E0; [cbn; lia|].
  destruct (lenN h <=? 75) eqn:E1; [rewrite !lenN_cons; lia|].
  lia.
Qed.

Lemma is_call_contract_builder (h : item) :
  is_call_contract (call_contract_program h) = (lenN h =? 32).
Proof.
  destruct (2147483647 <? lenN (call_contract_program h)) eqn:E.
  - unfold is_call_contract. rewrite parse_program_long by lia. pose proof (call_long h). lia.
  - unfold is_call_contract. rewrite parse_call by lia.
    change (pinst bcrp_tag) with (mk 4 5 bcrp_tag). cbn [i_op i_data mk].
    change (4 =? 4) with true. rewrite bytes_eqb_refl. cbn [andb]. apply pinst_op_data; lia.
Qed.

Lemma parse_contract_hash_builder (h : item) : lenN h = 32 ->
  parse_contract_hash (call_contract_program h) = Ok h.
Proof.
  intros H32.
  assert (HL : lenN (call_contract_program h) <= 2147483647).
  { destruct (2147483647 <? lenN (call_contract_program h)) eqn:E; [|lia].
    pose proof (call_long h). lia. }
  unfold parse_contract_hash. rewrite (parse_call h HL). cbn [obind]. rewrite pinst_data.
  rewrite firstn_app_exact; [reflexivity|]. unfold lenN in H32. lia.
Qed.

(* ---------- the recognisers exclude each other ---------- *)

Definition recognised (p : item) : list bool :=
  [is_p2wpkh p; is_p2wsh p; is_straightforward p; is_bcrp p; is_call_contract p].

Lemma exclusive (p : item) : (List.length (filter (fun b => b) (recognised p)) <= 1)%nat.
Proof.
  unfold recognised, is_p2wpkh, is_p2wsh, is_straightforward, is_bcrp, is_call_contract.
  destruct (parse_program p) as [[|i0 [|i1 [|i2 [|i3 [|i4 r]]]]]| |]; cbn [filter List.length]; try lia.
  - destruct ((i_op i0 =? OP_1) || (i_op i0 =? OP_FAIL)); cbn [filter List.length]; lia.
  - destruct (i_op i0 =? 0) eqn:A0, (i_op i0 =? 4) eqn:A4, (i_op i1 =? 20) eqn:B20,
             (i_op i1 =? 32) eqn:B32, (lenN (i_data i1) =? 20), (lenN (i_data i1) =? 32),
             (list_eqb N.eqb (i_data i0) bcrp_tag); cbn [andb filter List.length]; lia.
  - destruct (_ && _); cbn [filter List.length]; lia.
Qed.

(* ---------- converse: what a recognised P2W program looks like ---------- *)

Lemma two_inst_shape (p : item) (i0 i1 : inst) (n : N) : parses p [i0; i1] ->
  i_op i0 = 0 -> i_op i1 = n -> 1 <= n -> n <= 75 ->
  lenN (i_data i1) = n /\ p = 0 :: n :: i_data i1.
Proof.
  intros P E0 E1 N1 N2.
  inversion P as [|s a r D0 P1]; subst s a r. inversion P1 as [|s b r D1 P2]; subst s b r.
  inversion P2 as [H|]; clear P P1 P2.
  destruct (dec_spec _ _ D0) as (SH0 & _ & L0 & NT0 & _).
  destruct (dec_spec _ _ D1) as (SH1 & _ & L1 & NT1 & DT1).
  unfold shape in SH0. rewrite E0 in SH0. change (i_len i0 = 1 /\ i_data i0 = []) in SH0.
  destruct SH0 as [LEN0 _]. rewrite LEN0 in *.
  destruct p as [|x t]; [discriminate|]. cbn [nth_error] in NT0. rewrite E0 in NT0.
  injection NT0 as ->. change (skipn (N.to_nat 1) (0 :: t)) with t in *.
  assert (C1 : (OP_1 <=? i_op i1) && (i_op i1 <=? OP_16) = false)
    by (rewrite E1; change OP_1 with 81; change OP_16 with 96; lia).
  assert (C2 : (OP_DATA_1 <=? i_op i1) && (i_op i1 <=? OP_DATA_75) = true)
    by (rewrite E1; change OP_DATA_1 with 1; change OP_DATA_75 with 75; lia).
  unfold shape in SH1. rewrite C1, C2 in SH1. destruct SH1 as [LEN1 LD1].
  destruct (DT1 C1) as [_ DS]. rewrite E1 in *.
  destruct t as [|y u]; [discriminate|]. cbn [nth_error] in NT1. injection NT1 as ->.
  assert (HU : lenN u = n).
  { apply (f_equal lenN) in H. rewrite lenN_skipn, lenN_nil, LEN1 in H. rewrite lenN_cons in *. lia. }
  split; [exact LD1|]. do 2 f_equal.
  rewrite DS. unfold hdr. change OP_PUSHDATA1 with 76. change OP_PUSHDATA2 with 77. change OP_PUSHDATA4 with 78.
  destruct (n =? 76) eqn:?; [lia|]. destruct (n =? 77) eqn:?; [lia|]. destruct (n =? 78) eqn:?; [lia|].
  rewrite LEN1, slice_1. symmetry. apply firstn_all2. unfold lenN in HU. lia.
Qed.

Lemma is_p2wpkh_shape (p : item) : is_p2wpkh p = true ->
  exists h, lenN h = 20 /\ p = p2wpkh_program h /\ get_hash p = Ok h.
Proof.
  unfold is_p2wpkh, get_hash. intros H.
  destruct (parse_program p) as [[|i0 [|i1 [|]]]| |] eqn:PP; try discriminate.
  pose proof (parse_program_ok_short _ _ PP) as HL.
  apply parse_program_parses in PP; [|exact HL].
  destruct (two_inst_shape p i0 i1 20 PP) as [LD EP]; try lia.
  exists (i_data i1). split; [exact LD|]. split; [|reflexivity].
  rewrite EP. unfold p2wpkh_program, push_data_bytes. fold (lenN (i_data i1)). rewrite LD. reflexivity.
Qed.
Lemma is_p2wsh_shape (p : item) : is_p2wsh p = true ->
  exists h, lenN h = 32 /\ p = p2wsh_program h /\ get_hash p = Ok h.
Proof.
  unfold is_p2wsh, get_hash. intros H.
  destruct (parse_program p) as [[|i0 [|i1 [|]]]| |] eqn:PP; try discriminate.
  pose proof (parse_program_ok_short _ _ PP) as HL.
  apply parse_program_parses in PP; [|exact HL].
  destruct (two_inst_shape p i0 i1 32 PP) as [LD EP]; try lia.
  exists (i_data i1). split; [exact LD|]. split; [|reflexivity].
  rewrite EP. unfold p2wsh_program, push_data_bytes. fold (lenN (i_data i1)). rewrite LD. reflexivity.
Qed.

(* a BCRP program yields a non-empty contract; its fourth instruction need not be a push *)
Lemma is_bcrp_contract (p : item) : is_bcrp p = true ->
  exists c, parse_contract p = Ok c /\ c <> [].
Proof.
  unfold is_bcrp, parse_contract. intros H.
  destruct (parse_program p) as [[|i0 [|i1 [|i2 [|i3 [|]]]]]| |]; try discriminate.
  exists (i_data i3). split; [reflexivity|]. intros E. rewrite E in H.
  change (lenN []) with 0 in H. rewrite andb_false_r in H. discriminate.
Qed.
Example bcrp_fourth_may_be_jump :
  let p := [106; 4; 98; 99; 114; 112; 1; 1; 99; 0; 0; 0; 0] in
  is_bcrp p = true /\ parse_contract p = Ok [0; 0; 0; 0] /\ register_program [0; 0; 0; 0] <> p.
Proof. vm_compute. repeat split. discriminate. Qed.
