(* C09 — proofs about parsing: the checked ParseOp never panics and equals VM.parse_op;
   ParseProgram is a left-to-right decoding of the byte string (tiling); totality. *)
From Coq Require Import String Ascii.
From Coq Require Import List NArith Bool Lia ZifyBool ZifyN ZifyNat.
From Verif Require Import Outcome Cmp VM.
From C09 Require Import Model.
Import ListNotations.
Open Scope N_scope.

Ltac n32 := change two32 with 4294967296 in *.

(* ---------- list helpers ---------- *)

Lemma lenN_app {A} (a b : list A) : lenN (a ++ b) = lenN a + lenN b.
Proof. unfold lenN. rewrite app_length. lia. Qed.
Lemma lenN_cons {A} (x : A) (l : list A) : lenN (x :: l) = 1 + lenN l.
Proof. unfold lenN. cbn [List.length]. lia. Qed.
Lemma lenN_nil {A} : lenN (@nil A) = 0.
Proof. reflexivity. Qed.
Lemma lenN_firstn {A} (n : nat) (l : list A) : N.of_nat n <= lenN l -> lenN (firstn n l) = N.of_nat n.
Proof. unfold lenN. intros H. rewrite firstn_length_le; lia. Qed.
Lemma lenN_skipn {A} (n : nat) (l : list A) : lenN (skipn n l) = lenN l - N.of_nat n.
Proof. unfold lenN. rewrite skipn_length. lia. Qed.
Lemma lenN_0 {A} (l : list A) : lenN l = 0 -> l = [].
Proof. destruct l; [reflexivity|]. rewrite lenN_cons. lia. Qed.

Lemma skipn_nth {A} (d : A) : forall (l : list A) (n : nat), (n < List.length l)%nat ->
  skipn n l = nth n l d :: skipn (S n) l.
Proof.
  induction l as [|x l IH]; intros n H; cbn [List.length] in H; [lia|].
  destruct n as [|n]; [reflexivity|].
  cbn [skipn nth]. rewrite (IH n) by lia. reflexivity.
Qed.

Lemma byte_at_app (pre s : item) (k : N) : byte_at (pre ++ s) (lenN pre + k) = byte_at s k.
Proof.
  unfold byte_at, lenN. rewrite app_nth2 by lia. f_equal. lia.
Qed.
Lemma byte_at_app0 (pre s : item) : byte_at (pre ++ s) (lenN pre) = byte_at s 0.
Proof. rewrite <- (byte_at_app pre s 0). f_equal. lia. Qed.

Lemma slice_app (pre s : item) (a b : N) :
  slice (pre ++ s) (lenN pre + a) (lenN pre + b) = slice s a b.
Proof.
  unfold slice, lenN. rewrite skipn_app.
  rewrite skipn_all2 by lia. cbn [app].
  f_equal; [lia|]. f_equal. lia.
Qed.
Lemma slice_app0 (pre s : item) (b : N) :
  slice (pre ++ s) (lenN pre) (lenN pre + b) = slice s 0 b.
Proof. rewrite <- (slice_app pre s 0 b). f_equal. lia. Qed.

Lemma slice_cons (p : item) (a hi : N) : a < hi -> hi <= lenN p ->
  slice p a hi = byte_at p a :: slice p (a + 1) hi.
Proof.
  unfold slice, byte_at, lenN. intros H1 H2.
  rewrite (skipn_nth 0 p (N.to_nat a)) by lia.
  replace (N.to_nat (hi - a)) with (S (N.to_nat (hi - (a + 1)))) by lia.
  cbn [firstn]. do 3 f_equal. lia.
Qed.
Lemma slice_empty (p : item) (a : N) : slice p a a = [].
Proof. unfold slice. rewrite N.sub_diag. reflexivity. Qed.

(* ---------- checked ParseOp = VM.parse_op, in particular no panic ---------- *)

Definition lift {A} (x : vmerr + A) : outcome vmerr A :=
  match x with inl e => Err e | inr a => Ok a end.

Lemma idx_ok (p : item) (i : N) : i < lenN p -> idx p i = Ok (byte_at p i).
Proof.
  unfold idx, byte_at, lenN. intros H.
  destruct (nth_error p (N.to_nat i)) eqn:E.
  - rewrite (nth_error_nth _ _ _ E). reflexivity.
  - apply nth_error_None in E. lia.
Qed.
Lemma slice_chk_ok (p : item) (lo hi : N) : lo <= hi -> hi <= lenN p ->
  slice_chk p lo hi = Ok (slice p lo hi).
Proof.
  unfold slice_chk. intros H1 H2.
  destruct (lo <=? hi) eqn:E1; [|lia]. destruct (hi <=? lenN p) eqn:E2; [|lia]. reflexivity.
Qed.

Lemma parse_op_chk_eq (p : item) (pcv : N) : parse_op_chk p pcv = lift (parse_op p pcv).
Proof.
  unfold parse_op_chk, parse_op. fold (lenN p). set (l := lenN p).
  destruct (2147483647 <? l) eqn:EL; [reflexivity|].
  destruct (l <=? pcv) eqn:EP; [reflexivity|].
  rewrite idx_ok by (subst l; lia). cbn [obind].
  set (opc := byte_at p pcv).
  destruct ((OP_1 <=? opc) && (opc <=? OP_16)) eqn:E1; [reflexivity|].
  destruct ((OP_DATA_1 <=? opc) && (opc <=? OP_DATA_75)) eqn:E2.
  { unfold add_u32. n32. destruct (4294967296 <=? pcv + (1 + (opc - OP_DATA_1 + 1))) eqn:EO; [reflexivity|].
    destruct (l <? pcv + (1 + (opc - OP_DATA_1 + 1))) eqn:ES; [reflexivity|].
    rewrite slice_chk_ok by (subst l; lia). reflexivity. }
  destruct (opc =? OP_PUSHDATA1) eqn:E3.
  { destruct (pcv =? l - 1) eqn:E31; [reflexivity|].
    rewrite idx_ok by (subst l; lia). cbn [obind].
    set (n := byte_at p (pcv + 1)).
    unfold add_u32. n32. destruct (4294967296 <=? pcv + (1 + n + 1)) eqn:EO; [reflexivity|].
    destruct (l <? pcv + (1 + n + 1)) eqn:ES; [reflexivity|].
    rewrite slice_chk_ok by (subst l; lia). reflexivity. }
  destruct (opc =? OP_PUSHDATA2) eqn:E4.
  { destruct ((l <? 3) || (l - 3 <? pcv)) eqn:E41; [reflexivity|].
    rewrite slice_chk_ok by (subst l; lia). cbn [obind].
    rewrite (slice_cons p (pcv + 1) (pcv + 3)) by (subst l; lia).
    rewrite (slice_cons p (pcv + 1 + 1) (pcv + 3)) by (subst l; lia).
    cbn [le_u16 obind].
    replace (pcv + 1 + 1) with (pcv + 2) by lia.
    set (n := byte_at p (pcv + 1) + 256 * byte_at p (pcv + 2)).
    unfold add_u32. n32. destruct (4294967296 <=? pcv + (1 + n + 2)) eqn:EO; [reflexivity|].
    destruct (l <? pcv + (1 + n + 2)) eqn:ES; [reflexivity|].
    rewrite slice_chk_ok by (subst l; lia). reflexivity. }
  destruct (opc =? OP_PUSHDATA4) eqn:E5.
  { destruct ((l <? 5) || (l - 5 <? pcv)) eqn:E51; [reflexivity|].
    rewrite slice_chk_ok by (subst l; lia). cbn [obind].
    rewrite (slice_cons p (pcv + 1) (pcv + 5)) by (subst l; lia).
    rewrite (slice_cons p (pcv + 1 + 1) (pcv + 5)) by (subst l; lia).
    rewrite (slice_cons p (pcv + 1 + 1 + 1) (pcv + 5)) by (subst l; lia).
    rewrite (slice_cons p (pcv + 1 + 1 + 1 + 1) (pcv + 5)) by (subst l; lia).
    replace (pcv + 1 + 1 + 1 + 1 + 1) with (pcv + 5) by lia. rewrite slice_empty.
    cbn [le_u32 obind].
    set (n := le_decode _).
    unfold add_u32. n32. destruct (4294967296 <=? 5 + n) eqn:EO1; [reflexivity|].
    destruct (4294967296 <=? pcv + (5 + n)) eqn:EO; [reflexivity|].
    destruct (l <? pcv + (5 + n)) eqn:ES; [reflexivity|].
    rewrite slice_chk_ok by (subst l; lia). reflexivity. }
  destruct ((opc =? OP_JUMP) || (opc =? OP_JUMPIF)) eqn:E6; [|reflexivity].
  unfold add_u32. n32. destruct (4294967296 <=? pcv + 5) eqn:EO; [reflexivity|].
  destruct (l <? pcv + 5) eqn:ES; [reflexivity|].
  rewrite slice_chk_ok by (subst l; lia). reflexivity.
Qed.

Lemma parse_op_chk_no_panic (p : item) (pcv : N) x : parse_op_chk p pcv <> Panic x.
Proof. rewrite parse_op_chk_eq. destruct (parse_op p pcv); discriminate. Qed.

(* ---------- position-independent decoding of one instruction ---------- *)

Definition opt {A} (x : vmerr + A) : option A := match x with inl _ => None | inr a => Some a end.

Definition dec (s : item) : option inst :=
  match s with
  | [] => None
  | opc :: t =>
    if (OP_1 <=? opc) && (opc <=? OP_16) then Some (mk opc 1 [opc - OP_1 + 1])
    else if (OP_DATA_1 <=? opc) && (opc <=? OP_DATA_75) then
      if lenN t <? opc then None
      else Some (mk opc (1 + (opc - OP_DATA_1 + 1)) (firstn (N.to_nat opc) t))
    else if opc =? OP_PUSHDATA1 then
      match t with
      | n :: u => if lenN u <? n then None else Some (mk opc (1 + n + 1) (firstn (N.to_nat n) u))
      | _ => None
      end
    else if opc =? OP_PUSHDATA2 then
      match t with
      | n0 :: n1 :: u =>
          let n := n0 + 256 * n1 in
          if lenN u <? n then None else Some (mk opc (1 + n + 2) (firstn (N.to_nat n) u))
      | _ => None
      end
    else if opc =? OP_PUSHDATA4 then
      match t with
      | b0 :: b1 :: b2 :: b3 :: u =>
          let n := le_decode [b0; b1; b2; b3] in
          if lenN u <? n then None else Some (mk opc (5 + n) (firstn (N.to_nat n) u))
      | _ => None
      end
    else if (opc =? OP_JUMP) || (opc =? OP_JUMPIF) then
      if lenN t <? 4 then None else Some (mk opc 5 (firstn 4 t))
    else Some (mk opc 1 [])
  end.

Lemma slice_1 x (t : item) m : slice (x :: t) 1 (1 + m) = firstn (N.to_nat m) t.
Proof. unfold slice. replace (1 + m - 1) with m by lia. reflexivity. Qed.
Lemma slice_2 x y (t : item) m : slice (x :: y :: t) 2 (2 + m) = firstn (N.to_nat m) t.
Proof. unfold slice. replace (2 + m - 2) with m by lia. reflexivity. Qed.
Lemma slice_3 x y z (t : item) m : slice (x :: y :: z :: t) 3 (3 + m) = firstn (N.to_nat m) t.
Proof. unfold slice. replace (3 + m - 3) with m by lia. reflexivity. Qed.
Lemma slice_5 a b c d e (t : item) m : slice (a :: b :: c :: d :: e :: t) 5 (5 + m) = firstn (N.to_nat m) t.
Proof. unfold slice. replace (5 + m - 5) with m by lia. reflexivity. Qed.

Lemma bridge (pre s : item) : lenN (pre ++ s) <= 2147483647 -> s <> [] ->
  opt (parse_op (pre ++ s) (lenN pre)) = dec s.
Proof.
  intros HL HS. destruct s as [|opc t]; [congruence|]. clear HS.
  unfold parse_op. fold (lenN (pre ++ opc :: t)).
  assert (L : lenN (pre ++ opc :: t) = lenN pre + 1 + lenN t) by (rewrite lenN_app, lenN_cons; lia).
  set (l := lenN (pre ++ opc :: t)) in *.
  destruct (2147483647 <? l) eqn:EL; [lia|].
  destruct (l <=? lenN pre) eqn:EP; [lia|].
  rewrite byte_at_app0. change (byte_at (opc :: t) 0) with opc.
  cbn [dec].
  destruct ((OP_1 <=? opc) && (opc <=? OP_16)) eqn:E1; [reflexivity|].
  destruct ((OP_DATA_1 <=? opc) && (opc <=? OP_DATA_75)) eqn:E2.
  { unfold add_u32. n32. change OP_DATA_1 with 1 in *. change OP_DATA_75 with 75 in *.
    destruct (4294967296 <=? lenN pre + (1 + (opc - 1 + 1))) eqn:EO.
    { destruct (lenN t <? opc) eqn:ET; [reflexivity|lia]. }
    destruct (l <? lenN pre + (1 + (opc - 1 + 1))) eqn:ES.
    { destruct (lenN t <? opc) eqn:ET; [reflexivity|lia]. }
    destruct (lenN t <? opc) eqn:ET; [lia|].
    cbn [opt]. rewrite slice_app.
    replace (1 + (opc - 1 + 1)) with (1 + opc) by lia. rewrite slice_1. reflexivity. }
  destruct (opc =? OP_PUSHDATA1) eqn:E3.
  { destruct t as [|n u].
    { destruct (lenN pre =? l - 1) eqn:E31; [reflexivity|]. rewrite lenN_nil in L. lia. }
    rewrite lenN_cons in L.
    destruct (lenN pre =? l - 1) eqn:E31; [lia|].
    rewrite byte_at_app. change (byte_at (opc :: n :: u) 1) with n.
    unfold add_u32. n32.
    destruct (4294967296 <=? lenN pre + (1 + n + 1)) eqn:EO.
    { destruct (lenN u <? n) eqn:ET; [reflexivity|lia]. }
    destruct (l <? lenN pre + (1 + n + 1)) eqn:ES.
    { destruct (lenN u <? n) eqn:ET; [reflexivity|lia]. }
    destruct (lenN u <? n) eqn:ET; [lia|].
    cbn [opt]. rewrite slice_app.
    replace (1 + n + 1) with (2 + n) at 2 by lia. rewrite slice_2. reflexivity. }
  destruct (opc =? OP_PUSHDATA2) eqn:E4.
  { destruct t as [|n0 [|n1 u]].
    { rewrite lenN_nil in L. destruct ((l <? 3) || (l - 3 <? lenN pre)) eqn:E41; [reflexivity|lia]. }
    { rewrite lenN_cons, lenN_nil in L. destruct ((l <? 3) || (l - 3 <? lenN pre)) eqn:E41; [reflexivity|lia]. }
    rewrite !lenN_cons in L.
    destruct ((l <? 3) || (l - 3 <? lenN pre)) eqn:E41; [lia|].
    rewrite !byte_at_app. change (byte_at (opc :: n0 :: n1 :: u) 1) with n0.
    change (byte_at (opc :: n0 :: n1 :: u) 2) with n1.
    cbv zeta. set (n := n0 + 256 * n1).
    unfold add_u32. n32.
    destruct (4294967296 <=? lenN pre + (1 + n + 2)) eqn:EO.
    { destruct (lenN u <? n) eqn:ET; [reflexivity|lia]. }
    destruct (l <? lenN pre + (1 + n + 2)) eqn:ES.
    { destruct (lenN u <? n) eqn:ET; [reflexivity|lia]. }
    destruct (lenN u <? n) eqn:ET; [lia|].
    cbn [opt]. rewrite slice_app.
    replace (1 + n + 2) with (3 + n) at 2 by lia. rewrite slice_3. reflexivity. }
  destruct (opc =? OP_PUSHDATA4) eqn:E5.
  { destruct t as [|b0 [|b1 [|b2 [|b3 u]]]];
      try (repeat rewrite lenN_cons in L; try rewrite lenN_nil in L;
           destruct ((l <? 5) || (l - 5 <? lenN pre)) eqn:E51; [reflexivity|lia]).
    rewrite !lenN_cons in L.
    destruct ((l <? 5) || (l - 5 <? lenN pre)) eqn:E51; [lia|].
    rewrite slice_app.
    change (slice (opc :: b0 :: b1 :: b2 :: b3 :: u) 1 5) with [b0; b1; b2; b3].
    cbv zeta. set (n := le_decode [b0; b1; b2; b3]).
    unfold add_u32. n32.
    destruct (4294967296 <=? 5 + n) eqn:EO1.
    { destruct (lenN u <? n) eqn:ET; [reflexivity|lia]. }
    destruct (4294967296 <=? lenN pre + (5 + n)) eqn:EO.
    { destruct (lenN u <? n) eqn:ET; [reflexivity|lia]. }
    destruct (l <? lenN pre + (5 + n)) eqn:ES.
    { destruct (lenN u <? n) eqn:ET; [reflexivity|lia]. }
    destruct (lenN u <? n) eqn:ET; [lia|].
    cbn [opt]. rewrite slice_app. rewrite slice_5. reflexivity. }
  destruct ((opc =? OP_JUMP) || (opc =? OP_JUMPIF)) eqn:E6; [|reflexivity].
  unfold add_u32. n32.
  destruct (4294967296 <=? lenN pre + 5) eqn:EO.
  { destruct (lenN t <? 4) eqn:ET; [reflexivity|lia]. }
  destruct (l <? lenN pre + 5) eqn:ES.
  { destruct (lenN t <? 4) eqn:ET; [reflexivity|lia]. }
  destruct (lenN t <? 4) eqn:ET; [lia|].
  cbn [opt]. rewrite slice_app.
  change 5 with (1 + 4) at 2. rewrite slice_1. reflexivity.
Qed.

Lemma parse_op_dec (p : item) (pcv : N) : lenN p <= 2147483647 -> pcv < lenN p ->
  opt (parse_op p pcv) = dec (skipn (N.to_nat pcv) p).
Proof.
  intros HL HP.
  pose proof (bridge (firstn (N.to_nat pcv) p) (skipn (N.to_nat pcv) p)) as B.
  rewrite firstn_skipn in B. rewrite lenN_firstn in B by lia.
  rewrite N2Nat.id in B. apply B; [exact HL|].
  intros E. apply (f_equal lenN) in E. rewrite lenN_skipn, lenN_nil in E. lia.
Qed.

(* ---------- facts about one decoded instruction ---------- *)

(* the shape of a parsed instruction, by opcode class *)
Definition shape (i : inst) : Prop :=
  let op := i_op i in
  if (OP_1 <=? op) && (op <=? OP_16) then i_len i = 1 /\ i_data i = [op - OP_1 + 1]
  else if (OP_DATA_1 <=? op) && (op <=? OP_DATA_75) then i_len i = 1 + op /\ lenN (i_data i) = op
  else if op =? OP_PUSHDATA1 then i_len i = 2 + lenN (i_data i)
  else if op =? OP_PUSHDATA2 then i_len i = 3 + lenN (i_data i)
  else if op =? OP_PUSHDATA4 then i_len i = 5 + lenN (i_data i)
  else if is_jump op then i_len i = 5 /\ lenN (i_data i) = 4
  else i_len i = 1 /\ i_data i = [].

(* header length: opcode byte plus the length prefix *)
Definition hdr (op : N) : N :=
  if op =? OP_PUSHDATA1 then 2 else if op =? OP_PUSHDATA2 then 3
  else if op =? OP_PUSHDATA4 then 5 else 1.

Lemma some_inj {A} (a b : A) : Some a = Some b -> a = b.
Proof. congruence. Qed.

Lemma dec_spec (s : item) (i : inst) : dec s = Some i ->
  shape i /\ 1 <= i_len i /\ i_len i <= lenN s /\ nth_error s 0 = Some (i_op i)
  /\ ((OP_1 <=? i_op i) && (i_op i <=? OP_16) = false ->
      i_len i = hdr (i_op i) + lenN (i_data i) /\ i_data i = slice s (hdr (i_op i)) (i_len i)).
Proof.
  destruct s as [|opc t]; [discriminate|]. cbn [dec]. unfold shape, hdr, is_jump.
  destruct ((OP_1 <=? opc) && (opc <=? OP_16)) eqn:E1.
  { intros H; apply some_inj in H; subst i. cbn [i_op i_len i_data mk]. rewrite E1, lenN_cons.
    repeat split; try lia; try congruence. }
  destruct ((OP_DATA_1 <=? opc) && (opc <=? OP_DATA_75)) eqn:E2.
  { destruct (lenN t <? opc) eqn:ET; [discriminate|].
    intros H; apply some_inj in H; subst i. cbn [i_op i_len i_data mk]. rewrite E1, E2, lenN_cons.
    change OP_DATA_1 with 1 in *. change OP_DATA_75 with 75 in *. change OP_PUSHDATA1 with 76.
    change OP_PUSHDATA2 with 77. change OP_PUSHDATA4 with 78.
    assert (LF : lenN (firstn (N.to_nat opc) t) = opc) by (rewrite lenN_firstn; lia).
    destruct (opc =? 76) eqn:?; [lia|]. destruct (opc =? 77) eqn:?; [lia|].
    destruct (opc =? 78) eqn:?; [lia|].
    repeat split; try lia.
    rewrite ?LF. replace (1 + (opc - 1 + 1)) with (1 + opc) by lia.
    rewrite slice_1. reflexivity. }
  destruct (opc =? OP_PUSHDATA1) eqn:E3.
  { destruct t as [|n u]; [discriminate|].
    destruct (lenN u <? n) eqn:ET; [discriminate|].
    intros H; apply some_inj in H; subst i. cbn [i_op i_len i_data mk]. rewrite E1, E2, E3, !lenN_cons.
    assert (LF : lenN (firstn (N.to_nat n) u) = n) by (rewrite lenN_firstn; lia).
    repeat split; try lia.
    rewrite ?LF. replace (1 + n + 1) with (2 + n) by lia. rewrite slice_2. reflexivity. }
  destruct (opc =? OP_PUSHDATA2) eqn:E4.
  { destruct t as [|n0 [|n1 u]]; try discriminate. cbv zeta.
    destruct (lenN u <? n0 + 256 * n1) eqn:ET; [discriminate|].
    intros H; apply some_inj in H; subst i. cbn [i_op i_len i_data mk]. rewrite E1, E2, E3, E4, !lenN_cons.
    assert (LF : lenN (firstn (N.to_nat (n0 + 256 * n1)) u) = n0 + 256 * n1) by (rewrite lenN_firstn; lia).
    repeat split; try lia.
    rewrite ?LF. replace (1 + (n0 + 256 * n1) + 2) with (3 + (n0 + 256 * n1)) by lia.
    rewrite slice_3. reflexivity. }
  destruct (opc =? OP_PUSHDATA4) eqn:E5.
  { destruct t as [|b0 [|b1 [|b2 [|b3 u]]]]; try discriminate. cbv zeta.
    set (n := le_decode [b0; b1; b2; b3]).
    destruct (lenN u <? n) eqn:ET; [discriminate|].
    intros H; apply some_inj in H; subst i. cbn [i_op i_len i_data mk]. rewrite E1, E2, E3, E4, E5, !lenN_cons.
    assert (LF : lenN (firstn (N.to_nat n) u) = n) by (rewrite lenN_firstn; lia).
    repeat split; try lia.
    rewrite ?LF. rewrite slice_5. reflexivity. }
  destruct ((opc =? OP_JUMP) || (opc =? OP_JUMPIF)) eqn:E6.
  { destruct (lenN t <? 4) eqn:ET; [discriminate|].
    intros H; apply some_inj in H; subst i. cbn [i_op i_len i_data mk]. rewrite E1, E2, E3, E4, E5, E6, lenN_cons.
    assert (LF : lenN (firstn 4 t) = 4) by (rewrite (lenN_firstn 4); lia).
    repeat split; try lia. }
  intros H; apply some_inj in H; subst i. cbn [i_op i_len i_data mk]. rewrite E1, E2, E3, E4, E5, E6, lenN_cons.
  repeat split; try lia.
Qed.

(* ---------- ParseProgram as iterated decoding ---------- *)

Inductive parses : item -> list inst -> Prop :=
| parses_nil : parses [] []
| parses_cons s i r : dec s = Some i -> parses (skipn (N.to_nat (i_len i)) s) r -> parses s (i :: r).

Lemma split_at (pre s : item) (k : N) : k <= lenN s ->
  pre ++ s = (pre ++ firstn (N.to_nat k) s) ++ skipn (N.to_nat k) s
  /\ lenN (pre ++ firstn (N.to_nat k) s) = lenN pre + k.
Proof.
  intros H. split.
  - rewrite <- app_assoc, firstn_skipn. reflexivity.
  - rewrite lenN_app, lenN_firstn; lia.
Qed.

Lemma parse_loop_parses : forall f pre s is, lenN (pre ++ s) <= 2147483647 ->
  parse_loop f (pre ++ s) (lenN pre) = Ok is -> parses s is.
Proof.
  induction f as [|f IH]; intros pre s is HL H; cbn [parse_loop] in H; [discriminate|].
  destruct (lenN pre <? lenN (pre ++ s)) eqn:EP.
  - rewrite lenN_app in EP.
    assert (HS : s <> []) by (intros ->; rewrite lenN_nil in EP; lia).
    rewrite parse_op_chk_eq in H. pose proof (bridge pre s HL HS) as B.
    destruct (parse_op (pre ++ s) (lenN pre)) as [e|i]; cbn [lift opt] in *; [discriminate|].
    symmetry in B. destruct (dec_spec s i B) as (_ & L1 & L2 & _).
    unfold add_u32 in H. n32. destruct (4294967296 <=? lenN pre + i_len i); [discriminate|].
    destruct (split_at pre s (i_len i) L2) as [S1 S2].
    rewrite S1, <- S2 in H. rewrite S1 in HL.
    destruct (parse_loop f _ _) as [r| |] eqn:ER; try discriminate.
    inversion H; subst. apply parses_cons; [exact B|].
    eapply IH; eauto.
  - rewrite lenN_app in EP. inversion H; subst.
    assert (s = []) by (apply lenN_0; lia). subst. constructor.
Qed.

Lemma parses_parse_loop : forall s is, parses s is -> forall f pre,
  lenN (pre ++ s) <= 2147483647 -> (List.length s < f)%nat ->
  parse_loop f (pre ++ s) (lenN pre) = Ok is.
Proof.
  induction 1 as [|s i r D P IH]; intros f pre HL HF.
  - destruct f; [lia|]. cbn [parse_loop]. rewrite app_nil_r.
    rewrite N.ltb_irrefl. reflexivity.
  - destruct f; [lia|]. cbn [parse_loop].
    destruct (dec_spec s i D) as (_ & L1 & L2 & _).
    assert (HS : s <> []) by (intros ->; discriminate).
    destruct (lenN pre <? lenN (pre ++ s)) eqn:EP; [|rewrite lenN_app in EP; lia].
    rewrite parse_op_chk_eq. pose proof (bridge pre s HL HS) as B. rewrite D in B.
    destruct (parse_op (pre ++ s) (lenN pre)) as [e|i']; cbn [lift opt] in *; [discriminate|].
    inversion B; subst i'.
    rewrite lenN_app in HL.
    unfold add_u32. n32. destruct (4294967296 <=? lenN pre + i_len i) eqn:EO; [lia|].
    destruct (split_at pre s (i_len i) L2) as [S1 S2].
    rewrite S1, <- S2. rewrite IH; [reflexivity| |].
    + rewrite <- S1, lenN_app. lia.
    + rewrite skipn_length. unfold lenN in *. lia.
Qed.

Lemma parse_program_parses (p : item) (is : list inst) : lenN p <= 2147483647 ->
  (parse_program p = Ok is <-> parses p is).
Proof.
  intros HL. unfold parse_program. split; intros H.
  - apply (parse_loop_parses (S (List.length p)) [] p is HL H).
  - apply (parses_parse_loop p is H (S (List.length p)) [] HL). lia.
Qed.

Lemma parse_program_long (p : item) : 2147483647 < lenN p -> parse_program p = Err ELongProgram.
Proof.
  intros H. unfold parse_program. cbn [parse_loop].
  destruct (0 <? lenN p) eqn:E; [|lia].
  unfold parse_op_chk. destruct (2147483647 <? lenN p) eqn:E2; [reflexivity|lia].
Qed.

Lemma parse_program_ok_short (p : item) (is : list inst) : parse_program p = Ok is -> lenN p <= 2147483647.
Proof.
  intros H. destruct (2147483647 <? lenN p) eqn:E; [|lia].
  rewrite parse_program_long in H by lia. discriminate.
Qed.

(* ---------- tiling ---------- *)

Definition inst_at (p : item) (off : N) (i : inst) : Prop :=
  shape i /\ 1 <= i_len i /\ off + i_len i <= lenN p
  /\ nth_error p (N.to_nat off) = Some (i_op i)
  /\ ((OP_1 <=? i_op i) && (i_op i <=? OP_16) = false ->
      i_len i = hdr (i_op i) + lenN (i_data i)
      /\ i_data i = slice p (off + hdr (i_op i)) (off + i_len i)).

Fixpoint tiles (p : item) (off : N) (is : list inst) : Prop :=
  match is with
  | [] => off = lenN p
  | i :: r => inst_at p off i /\ tiles p (off + i_len i) r
  end.

Definition total_len (is : list inst) : N := fold_right (fun i a => i_len i + a) 0 is.

Lemma parses_tiles : forall s is, parses s is -> forall pre, tiles (pre ++ s) (lenN pre) is.
Proof.
  induction 1 as [|s i r D P IH]; intros pre; cbn [tiles].
  - rewrite app_nil_r. reflexivity.
  - destruct (dec_spec s i D) as (SH & L1 & L2 & NT & DT). split.
    + unfold inst_at. split; [exact SH|]. split; [exact L1|].
      split; [rewrite lenN_app; lia|]. split.
      * unfold lenN. rewrite nth_error_app2 by lia.
        replace (N.to_nat (N.of_nat (List.length pre)) - List.length pre)%nat with 0%nat by lia.
        exact NT.
      * intros H. destruct (DT H) as [D1 D2]. split; [exact D1|].
        rewrite slice_app. exact D2.
    + destruct (split_at pre s (i_len i) L2) as [S1 S2].
      rewrite S1, <- S2. apply IH.
Qed.

Lemma tiles_total : forall is p off, tiles p off is -> off + total_len is = lenN p.
Proof.
  induction is as [|i r IH]; intros p off H; cbn [tiles total_len fold_right] in *.
  - lia.
  - destruct H as [_ H]. apply IH in H. fold (total_len r). lia.
Qed.

Lemma tiling (p : item) (is : list inst) :
  parse_program p = Ok is -> tiles p 0 is /\ total_len is = lenN p.
Proof.
  intros H. pose proof (parse_program_ok_short p is H) as HL.
  apply parse_program_parses in H; [|exact HL].
  pose proof (parses_tiles p is H []) as T. cbn [app] in T. change (lenN []) with 0 in T.
  split; [exact T|]. apply tiles_total in T. lia.
Qed.

(* ---------- totality: no panic, fuel suffices ---------- *)

Lemma parse_op_err (p : item) (pcv : N) (e : vmerr) : parse_op p pcv = inl e ->
  e = ELongProgram \/ e = EShortProgram \/ e = EOverflow.
Proof.
  unfold parse_op.
  repeat match goal with
         | |- context [match add_u32 ?a ?b with _ => _ end] => destruct (add_u32 a b)
         | |- context [if ?c then _ else _] => destruct c
         end; intros H; inversion H; auto.
Qed.

Lemma parse_op_len (p : item) (pcv : N) (i : inst) : parse_op p pcv = inr i ->
  1 <= i_len i /\ pcv + i_len i <= lenN p.
Proof.
  intros H.
  destruct (2147483647 <? lenN p) eqn:EL.
  { unfold parse_op in H. fold (lenN p) in H. rewrite EL in H. discriminate. }
  destruct (lenN p <=? pcv) eqn:EP.
  { unfold parse_op in H. fold (lenN p) in H. rewrite EL, EP in H. discriminate. }
  pose proof (parse_op_dec p pcv ltac:(lia) ltac:(lia)) as B. rewrite H in B. cbn [opt] in B.
  symmetry in B. destruct (dec_spec _ _ B) as (_ & L1 & L2 & _).
  rewrite lenN_skipn in L2. lia.
Qed.

Lemma parse_loop_total : forall f p pcv, lenN p - pcv < N.of_nat f ->
  (exists is, parse_loop f p pcv = Ok is)
  \/ (exists e, parse_loop f p pcv = Err e /\ e <> EOutOfFuel).
Proof.
  induction f as [|f IH]; intros p pcv HF; [lia|]. cbn [parse_loop].
  destruct (pcv <? lenN p) eqn:EP; [|left; eexists; reflexivity].
  rewrite parse_op_chk_eq.
  destruct (parse_op p pcv) as [e|i] eqn:EO; cbn [lift].
  - right. exists e. split; [reflexivity|].
    destruct (parse_op_err _ _ _ EO) as [->|[->| ->]]; discriminate.
  - destruct (parse_op_len _ _ _ EO) as [L1 L2].
    unfold add_u32. n32. destruct (4294967296 <=? pcv + i_len i).
    + right. exists EOverflow. split; [reflexivity|discriminate].
    + destruct (IH p (pcv + i_len i) ltac:(lia)) as [[is E]|[e [E NE]]]; rewrite E.
      * left. eexists; reflexivity.
      * right. exists e. split; [reflexivity|exact NE].
Qed.

Lemma parse_program_total (p : item) :
  (exists is, parse_program p = Ok is)
  \/ (exists e, parse_program p = Err e /\ e <> EOutOfFuel).
Proof. unfold parse_program. apply parse_loop_total. unfold lenN. lia. Qed.
