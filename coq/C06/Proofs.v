(* C06 — the property-level lemmas: simulation (layout independence),
   caller's buffers unchanged, no cross-item effect.  All are consequences of
   one fact proved in ProofsOps/ProofsRun: an instruction only ever extends
   the heap ([prefix]): every write goes to a buffer the instruction itself
   allocated. *)
From Coq Require Import List ZArith NArith Bool Arith Lia.
From Verif Require Import Cmp VM.
From C06 Require Import VMmem ProofsHeap ProofsSim ProofsOps ProofsRun.
Import ListNotations.
Open Scope Z_scope.

Definition final {A} (r : mres A) : mst := match r with MOk _ s => s | MErr _ s => s end.

(* agreement of a memory-level result with a pure result: same verdict, same error class, and the
   memory state denotes exactly the pure state (stacks, gas, pc, …) *)
Definition agree (r : mres unit) (r' : res unit) : Prop :=
  match r, r' with
  | MOk _ ms', ROk _ s' => proj ms' = s'
  | MErr e ms', RErr e' s' => e = e' /\ proj ms' = s'
  | _, _ => False
  end.

Section Top.
  Variable growcap : nat -> nat -> nat.
  Variable cr : crypto.
  Variable mcx : mcontext.
  Variable cx : context.

  Lemma rsim_agree ms r r' : rsim mcx cx ms r r' -> agree r r' /\ wf mcx cx (final r) /\ prefix (m_heap ms) (m_heap (final r)).
  Proof.
    unfold rsim, agree, final. destruct r, r'; try contradiction.
    - intros (A & B & C). auto.
    - intros (A & B & C & D). auto.
  Qed.

  Lemma child_sim_run f : child_sim mcx cx (mchild growcap cr mcx f) (pchild cr cx f).
  Proof.
    intros cms Wc. pose proof (sim_run growcap cr mcx cx f cms Wc) as IH. unfold mchild, pchild, rsim in *.
    destruct (mrun growcap cr mcx f cms), (run cr cx f (proj cms)); cbn [fst snd]; try contradiction.
    - destruct IH as (X1 & X2 & X3). auto.
    - destruct IH as (X0 & X1 & X2 & X3). auto.
  Qed.

  (* --- simulation --- *)
  Lemma run_agrees fuel ms : wf mcx cx ms -> agree (mrun growcap cr mcx fuel ms) (run cr cx fuel (proj ms)).
  Proof. intros W. apply (rsim_agree ms). now apply sim_run. Qed.

  Lemma step_agrees f ms : wf mcx cx ms ->
    agree (mstep growcap cr mcx (mchild growcap cr mcx f) ms) (step cr cx (pchild cr cx f) (proj ms)).
  Proof. intros W. apply (rsim_agree ms). apply sim_step; [apply child_sim_run|exact W]. Qed.

  Lemma verify_agrees fuel h sd ad gas : wfcx mcx cx h -> Forall (wfd h) sd -> Forall (wfd h) ad ->
    fst (mverify growcap cr mcx fuel h sd ad gas) = verify cr cx fuel (map (val h) sd) (map (val h) ad) gas.
  Proof. intros A B C. exact (proj1 (sim_verify growcap cr mcx cx fuel h sd ad gas A B C)). Qed.

  (* --- caller's buffers --- *)
  Lemma run_keeps_buffers fuel ms : wf mcx cx ms ->
    forall id, (id < length (m_heap ms))%nat ->
    nth_error (m_heap (final (mrun growcap cr mcx fuel ms))) id = nth_error (m_heap ms) id.
  Proof.
    intros W. apply prefix_unchanged. apply (rsim_agree ms _ (run cr cx fuel (proj ms))). now apply sim_run.
  Qed.

  Lemma verify_keeps_buffers fuel h sd ad gas : wfcx mcx cx h -> Forall (wfd h) sd -> Forall (wfd h) ad ->
    forall id, (id < length h)%nat ->
    nth_error (m_heap (snd (mverify growcap cr mcx fuel h sd ad gas))) id = nth_error h id.
  Proof.
    intros A B C. apply prefix_unchanged.
    exact (proj2 (proj2 (sim_verify growcap cr mcx cx fuel h sd ad gas A B C))).
  Qed.

  (* --- no cross-item effect --- *)
  Lemma step_keeps_values f ms : wf mcx cx ms ->
    forall d, wfd (m_heap ms) d ->
    val (m_heap (final (mstep growcap cr mcx (mchild growcap cr mcx f) ms))) d = val (m_heap ms) d.
  Proof.
    intros W d Wd. apply val_mono; [|exact Wd].
    apply (rsim_agree ms _ (step cr cx (pchild cr cx f) (proj ms))). apply sim_step; [apply child_sim_run|exact W].
  Qed.

  Lemma step_keeps_stack_items f ms : wf mcx cx ms ->
    forall d, In d (m_dstack ms ++ m_astack ms) ->
    val (m_heap (final (mstep growcap cr mcx (mchild growcap cr mcx f) ms))) d = val (m_heap ms) d.
  Proof.
    intros W d Hin. apply step_keeps_values; [exact W|].
    destruct W as [_ (_ & _ & C & D)]. apply in_app_or in Hin.
    destruct Hin as [Hin|Hin]; [revert d Hin; now apply Forall_forall|revert d Hin; now apply Forall_forall].
  Qed.

  Lemma run_keeps_values fuel ms : wf mcx cx ms ->
    forall d, wfd (m_heap ms) d -> val (m_heap (final (mrun growcap cr mcx fuel ms))) d = val (m_heap ms) d.
  Proof.
    intros W d Wd. apply val_mono; [|exact Wd].
    apply (rsim_agree ms _ (run cr cx fuel (proj ms))). now apply sim_run.
  Qed.
End Top.

(* the result of Verify depends only on the denoted values, not on the layout *)
Lemma verify_layout_independent gc1 gc2 cr mcx1 mcx2 cx fuel h1 h2 sd1 sd2 ad1 ad2 gas :
  wfcx mcx1 cx h1 -> wfcx mcx2 cx h2 ->
  Forall (wfd h1) sd1 -> Forall (wfd h1) ad1 -> Forall (wfd h2) sd2 -> Forall (wfd h2) ad2 ->
  map (val h1) sd1 = map (val h2) sd2 -> map (val h1) ad1 = map (val h2) ad2 ->
  fst (mverify gc1 cr mcx1 fuel h1 sd1 ad1 gas) = fst (mverify gc2 cr mcx2 fuel h2 sd2 ad2 gas).
Proof.
  intros. rewrite (verify_agrees gc1 cr mcx1 cx), (verify_agrees gc2 cr mcx2 cx) by assumption. congruence.
Qed.

(* ---------- the hypotheses are satisfiable by a non-trivial layout ----------
   one transaction buffer [p0 p1 | a0 a1 | b0 b1 b2] decoded the ReadVarstr31 way: every slice's capacity
   runs to the end of the buffer, so the program's and a's spare capacity overlap the following data;
   trueBytes is buffer 0. *)
Definition ex_heap : heap := [[1]; [118; 126; 10; 11; 20; 21; 22]]%N.
Definition ex_code : desc := {| d_buf := 1; d_off := 0; d_len := 2; d_cap := 7 |}.
Definition ex_a : desc := {| d_buf := 1; d_off := 2; d_len := 2; d_cap := 5 |}.
Definition ex_b : desc := {| d_buf := 1; d_off := 4; d_len := 3; d_cap := 3 |}.
Definition ex_mcx : mcontext :=
  {| mc_vmversion := 1; mc_code := ex_code; mc_entryid := ex_b; mc_txversion := Some 1%N; mc_blockheight := None;
     mc_assetid := Some ex_a; mc_amount := None; mc_destpos := None; mc_spentoutputid := None; mc_txsighash := None;
     mc_checkoutput := None; mc_true := {| d_buf := 0; d_off := 0; d_len := 1; d_cap := 1 |} |}.

Example ex_layout_wf : wfcx ex_mcx (proj_cx ex_heap ex_mcx) ex_heap /\ Forall (wfd ex_heap) [ex_a; ex_b].
Proof.
  unfold wfcx, wfd, ritem, wfd. cbn. repeat split; try lia; try reflexivity; repeat constructor; cbn; lia.
Qed.

(* ---------- the three historical witnesses, on the Go-slice layer with the OLD opCat ---------- *)

(* global constant: TRUE 0 LEFT <00> CAT rewrote trueBytes *)
Example old_cat_rewrites_true :
  let h := [[1]; [0]]%N in
  let t := {| d_buf := 0; d_off := 0; d_len := 1; d_cap := 1 |} in
  let z := {| d_buf := 1; d_off := 0; d_len := 1; d_cap := 1 |} in
  val (fst (go_cat_inplace (fun _ n => n) h (go_slice t 0 0) z)) t = [0%N]
  /\ val (fst (go_cat (fun _ n => n) h (go_slice t 0 0) z)) t = [1%N].
Proof. vm_compute. auto. Qed.

(* caller buffer: a's spare capacity is b's bytes; a <X> CAT overwrote b *)
Example old_cat_rewrites_neighbour :
  let h := ex_heap ++ [[99]%N] in
  let x := {| d_buf := 2; d_off := 0; d_len := 1; d_cap := 1 |} in
  val (fst (go_cat_inplace (fun _ n => n) h ex_a x)) ex_b = [99; 21; 22]%N
  /\ val (fst (go_cat (fun _ n => n) h ex_a x)) ex_b = [20; 21; 22]%N.
Proof. vm_compute. auto. Qed.
