(* C06 — running the memory-level model on harness cases. *)
From Coq Require Import List ZArith NArith Bool.
From Verif Require Import Cmp Sha3 VM VMRun.
From C06 Require Import VMmem.
Import ListNotations.
Open Scope Z_scope.

Definition D (buf off len cap : nat) : desc := {| d_buf := buf; d_off := off; d_len := len; d_cap := cap |}.

(* the Go runtime's growth policy is not observable: exact fit *)
Definition gc_exact (_ n : nat) : nat := n.

Definition mk_mcontext (vmv : N) (code entryid : desc) (txv bh : option N) (asset : option desc)
  (amount destpos : option N) (spent sighash : option desc) (hasco : bool) (tru : desc) : mcontext :=
  {| mc_vmversion := vmv; mc_code := code; mc_entryid := entryid; mc_txversion := txv; mc_blockheight := bh;
     mc_assetid := asset; mc_amount := amount; mc_destpos := destpos; mc_spentoutputid := spent;
     mc_txsighash := sighash; mc_checkoutput := if hasco then Some test_checkoutput else None; mc_true := tru |}.

Section Trace.
  Variable cr : crypto.
  Variable mcx : mcontext.
  Fixpoint mrun_tr (fuel : nat) (s : mst) (acc : list (N * Z)) : mres unit * list (N * Z) :=
    match fuel with
    | O => (MErr EOutOfFuel s, rev acc)
    | S f =>
        if (m_pc s <? N.of_nat (d_len (m_prog s)))%N then
          match mstep gc_exact cr mcx (fun c => match mrun gc_exact cr mcx f c with
                                                | MOk _ cs => (true, cs)
                                                | MErr _ cs => (false, cs)
                                                end) s with
          | MErr e s' =>
              (MErr e s', match parse_op (val (m_heap s) (m_prog s)) (m_pc s) with
                          | inl _ => rev acc
                          | inr _ => rev ((m_pc s, m_runlimit s) :: acc)
                          end)
          | MOk _ s' => mrun_tr f s' ((m_pc s, m_runlimit s) :: acc)
          end
        else (MOk tt s, rev acc)
    end.
End Trace.

Record memobs := {
  mo_gas : Z;
  mo_err : option vmerr;
  mo_stack : option (list item);   (* final data stack VALUES, bottom first *)
  mo_trace : list (N * Z);
  mo_steps : N;
  mo_caller : list (list N)        (* the buffers that existed before the run, after the run *)
}.

Definition memobs_eqb (a b : memobs) : bool :=
  Z.eqb (mo_gas a) (mo_gas b) && option_eqb vmerr_eqb (mo_err a) (mo_err b)
  && option_eqb (list_eqb bytes_eqb) (mo_stack a) (mo_stack b)
  && list_eqb (pair_eqb N.eqb Z.eqb) (mo_trace a) (mo_trace b) && N.eqb (mo_steps a) (mo_steps b)
  && list_eqb bytes_eqb (mo_caller a) (mo_caller b).

Definition mem_case (cr : crypto) (mcx : mcontext) (h : heap) (statedata args : list desc) (gas : Z) : memobs :=
  let keep (hf : heap) := firstn (length h) hf in
  if negb (mc_vmversion mcx =? 1)%N then
    {| mo_gas := gas; mo_err := Some EUnsupportedVM; mo_stack := None; mo_trace := []; mo_steps := 0%N; mo_caller := h |}
  else
    match (mpush_all mpush_alt statedata ;;~ mpush_all mpush args) (minit mcx h gas) with
    | MErr e s => {| mo_gas := m_runlimit s; mo_err := Some e; mo_stack := None; mo_trace := []; mo_steps := 0%N;
                     mo_caller := keep (m_heap s) |}
    | MOk _ s1 =>
        let fuel := Z.to_nat (m_runlimit s1 + mstack_cost (m_dstack s1) + mstack_cost (m_astack s1) + 2) in
        match mrun_tr cr mcx fuel s1 [] with
        | (MErr e s, tr) =>
            {| mo_gas := match e with EUnexpected => 0 | _ => m_runlimit s end;
               mo_err := Some e; mo_stack := None; mo_trace := firstn 64 tr; mo_steps := N.of_nat (length tr);
               mo_caller := keep (m_heap s) |}
        | (MOk _ s, tr) =>
            {| mo_gas := m_runlimit s; mo_err := if false_result (proj s) then Some EFalseVMResult else None;
               mo_stack := Some (rev (map (val (m_heap s)) (m_dstack s)));
               mo_trace := firstn 64 tr; mo_steps := N.of_nat (length tr); mo_caller := keep (m_heap s) |}
        end
    end.
