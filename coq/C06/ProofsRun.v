(* C06 — step, run and Verify of the memory-level VM simulate the pure VM;
   heaps only grow (no existing buffer is ever written). *)
From Coq Require Import List ZArith NArith Bool Arith Lia ZifyN ZifyNat ZifyBool.
From Verif Require Import Cmp VM.
From C06 Require Import VMmem ProofsHeap ProofsSim ProofsOps.
Import ListNotations.
Open Scope Z_scope.

Lemma is_expansion_big op : (256 <= op)%N -> is_expansion op = true.
Proof.
  intros H. unfold is_expansion.
  destruct (N.leb_spec op 75); [lia|]. destruct (N.leb_spec op 96); [lia|].
  rewrite !andb_false_r. cbn [orb].
  destruct (existsb (N.eqb op) defined_ops) eqn:E; [|reflexivity].
  apply existsb_exists in E. destruct E as (x & Hin & Heq). apply N.eqb_eq in Heq. subst x.
  unfold defined_ops in Hin. cbn [In] in Hin.
  repeat (destruct Hin as [Hin|Hin]; [lia|]). contradiction.
Qed.

Lemma inr_inj {A B} (x y : B) : @inr A B x = inr y -> x = y.
Proof. congruence. Qed.

Section Run.
  Variable growcap : nat -> nat -> nat.
  Variable cr : crypto.
  Variable mcx : mcontext.
  Variable cx : context.

  Notation MSIM := (msim mcx cx).
  Notation WF := (wf mcx cx).

  Section Step.
  Variable mrc : mst -> bool * mst.
  Variable rc : vmst -> child_result.
  Hypothesis Hrc : child_sim mcx cx mrc rc.

  Notation mex := (mexec_op growcap cr mcx mrc).
  Notation ex := (exec_op cr cx rc).

  Lemma sim_exec_table h0 :
    Forall (fun op => is_expansion op = false -> MSIM h0 req (mex op) (ex op)) (map N.of_nat (seq 0 256)).
  Proof.
    cbv [seq map N.of_nat Pos.of_succ_nat Pos.succ].
    constructor; [intros _; exact (sim_op_0 growcap cr mcx cx mrc rc h0)|].
    constructor; [intros _; exact (sim_op_default growcap cr mcx cx mrc rc h0)|].
    constructor; [intros _; exact (sim_op_default growcap cr mcx cx mrc rc h0)|].
    constructor; [intros _; exact (sim_op_default growcap cr mcx cx mrc rc h0)|].
    constructor; [intros _; exact (sim_op_default growcap cr mcx cx mrc rc h0)|].
    constructor; [intros _; exact (sim_op_default growcap cr mcx cx mrc rc h0)|].
    constructor; [intros _; exact (sim_op_default growcap cr mcx cx mrc rc h0)|].
    constructor; [intros _; exact (sim_op_default growcap cr mcx cx mrc rc h0)|].
    constructor; [intros _; exact (sim_op_default growcap cr mcx cx mrc rc h0)|].
    constructor; [intros _; exact (sim_op_default growcap cr mcx cx mrc rc h0)|].
    constructor; [intros _; exact (sim_op_default growcap cr mcx cx mrc rc h0)|].
    constructor; [intros _; exact (sim_op_default growcap cr mcx cx mrc rc h0)|].
    constructor; [intros _; exact (sim_op_default growcap cr mcx cx mrc rc h0)|].
    constructor; [intros _; exact (sim_op_default growcap cr mcx cx mrc rc h0)|].
    constructor; [intros _; exact (sim_op_default growcap cr mcx cx mrc rc h0)|].
    constructor; [intros _; exact (sim_op_default growcap cr mcx cx mrc rc h0)|].
    constructor; [intros _; exact (sim_op_default growcap cr mcx cx mrc rc h0)|].
    constructor; [intros _; exact (sim_op_default growcap cr mcx cx mrc rc h0)|].
    constructor; [intros _; exact (sim_op_default growcap cr mcx cx mrc rc h0)|].
    constructor; [intros _; exact (sim_op_default growcap cr mcx cx mrc rc h0)|].
    constructor; [intros _; exact (sim_op_default growcap cr mcx cx mrc rc h0)|].
    constructor; [intros _; exact (sim_op_default growcap cr mcx cx mrc rc h0)|].
    constructor; [intros _; exact (sim_op_default growcap cr mcx cx mrc rc h0)|].
    constructor; [intros _; exact (sim_op_default growcap cr mcx cx mrc rc h0)|].
    constructor; [intros _; exact (sim_op_default growcap cr mcx cx mrc rc h0)|].
    constructor; [intros _; exact (sim_op_default growcap cr mcx cx mrc rc h0)|].
    constructor; [intros _; exact (sim_op_default growcap cr mcx cx mrc rc h0)|].
    constructor; [intros _; exact (sim_op_default growcap cr mcx cx mrc rc h0)|].
    constructor; [intros _; exact (sim_op_default growcap cr mcx cx mrc rc h0)|].
    constructor; [intros _; exact (sim_op_default growcap cr mcx cx mrc rc h0)|].
    constructor; [intros _; exact (sim_op_default growcap cr mcx cx mrc rc h0)|].
    constructor; [intros _; exact (sim_op_default growcap cr mcx cx mrc rc h0)|].
    constructor; [intros _; exact (sim_op_default growcap cr mcx cx mrc rc h0)|].
    constructor; [intros _; exact (sim_op_default growcap cr mcx cx mrc rc h0)|].
    constructor; [intros _; exact (sim_op_default growcap cr mcx cx mrc rc h0)|].
    constructor; [intros _; exact (sim_op_default growcap cr mcx cx mrc rc h0)|].
    constructor; [intros _; exact (sim_op_default growcap cr mcx cx mrc rc h0)|].
    constructor; [intros _; exact (sim_op_default growcap cr mcx cx mrc rc h0)|].
    constructor; [intros _; exact (sim_op_default growcap cr mcx cx mrc rc h0)|].
    constructor; [intros _; exact (sim_op_default growcap cr mcx cx mrc rc h0)|].
    constructor; [intros _; exact (sim_op_default growcap cr mcx cx mrc rc h0)|].
    constructor; [intros _; exact (sim_op_default growcap cr mcx cx mrc rc h0)|].
    constructor; [intros _; exact (sim_op_default growcap cr mcx cx mrc rc h0)|].
    constructor; [intros _; exact (sim_op_default growcap cr mcx cx mrc rc h0)|].
    constructor; [intros _; exact (sim_op_default growcap cr mcx cx mrc rc h0)|].
    constructor; [intros _; exact (sim_op_default growcap cr mcx cx mrc rc h0)|].
    constructor; [intros _; exact (sim_op_default growcap cr mcx cx mrc rc h0)|].
    constructor; [intros _; exact (sim_op_default growcap cr mcx cx mrc rc h0)|].
    constructor; [intros _; exact (sim_op_default growcap cr mcx cx mrc rc h0)|].
    constructor; [intros _; exact (sim_op_default growcap cr mcx cx mrc rc h0)|].
    constructor; [intros _; exact (sim_op_default growcap cr mcx cx mrc rc h0)|].
    constructor; [intros _; exact (sim_op_default growcap cr mcx cx mrc rc h0)|].
    constructor; [intros _; exact (sim_op_default growcap cr mcx cx mrc rc h0)|].
    constructor; [intros _; exact (sim_op_default growcap cr mcx cx mrc rc h0)|].
    constructor; [intros _; exact (sim_op_default growcap cr mcx cx mrc rc h0)|].
    constructor; [intros _; exact (sim_op_default growcap cr mcx cx mrc rc h0)|].
    constructor; [intros _; exact (sim_op_default growcap cr mcx cx mrc rc h0)|].
    constructor; [intros _; exact (sim_op_default growcap cr mcx cx mrc rc h0)|].
    constructor; [intros _; exact (sim_op_default growcap cr mcx cx mrc rc h0)|].
    constructor; [intros _; exact (sim_op_default growcap cr mcx cx mrc rc h0)|].
    constructor; [intros _; exact (sim_op_default growcap cr mcx cx mrc rc h0)|].
    constructor; [intros _; exact (sim_op_default growcap cr mcx cx mrc rc h0)|].
    constructor; [intros _; exact (sim_op_default growcap cr mcx cx mrc rc h0)|].
    constructor; [intros _; exact (sim_op_default growcap cr mcx cx mrc rc h0)|].
    constructor; [intros _; exact (sim_op_default growcap cr mcx cx mrc rc h0)|].
    constructor; [intros _; exact (sim_op_default growcap cr mcx cx mrc rc h0)|].
    constructor; [intros _; exact (sim_op_default growcap cr mcx cx mrc rc h0)|].
    constructor; [intros _; exact (sim_op_default growcap cr mcx cx mrc rc h0)|].
    constructor; [intros _; exact (sim_op_default growcap cr mcx cx mrc rc h0)|].
    constructor; [intros _; exact (sim_op_default growcap cr mcx cx mrc rc h0)|].
    constructor; [intros _; exact (sim_op_default growcap cr mcx cx mrc rc h0)|].
    constructor; [intros _; exact (sim_op_default growcap cr mcx cx mrc rc h0)|].
    constructor; [intros _; exact (sim_op_default growcap cr mcx cx mrc rc h0)|].
    constructor; [intros _; exact (sim_op_default growcap cr mcx cx mrc rc h0)|].
    constructor; [intros _; exact (sim_op_default growcap cr mcx cx mrc rc h0)|].
    constructor; [intros _; exact (sim_op_default growcap cr mcx cx mrc rc h0)|].
    constructor; [intros _; exact (sim_op_76 growcap cr mcx cx mrc rc h0)|].
    constructor; [intros _; exact (sim_op_77 growcap cr mcx cx mrc rc h0)|].
    constructor; [intros _; exact (sim_op_78 growcap cr mcx cx mrc rc h0)|].
    constructor; [intros H; discriminate H|].
    constructor; [intros H; discriminate H|].
    constructor; [intros _; exact (sim_op_default growcap cr mcx cx mrc rc h0)|].
    constructor; [intros _; exact (sim_op_default growcap cr mcx cx mrc rc h0)|].
    constructor; [intros _; exact (sim_op_default growcap cr mcx cx mrc rc h0)|].
    constructor; [intros _; exact (sim_op_default growcap cr mcx cx mrc rc h0)|].
    constructor; [intros _; exact (sim_op_default growcap cr mcx cx mrc rc h0)|].
    constructor; [intros _; exact (sim_op_default growcap cr mcx cx mrc rc h0)|].
    constructor; [intros _; exact (sim_op_default growcap cr mcx cx mrc rc h0)|].
    constructor; [intros _; exact (sim_op_default growcap cr mcx cx mrc rc h0)|].
    constructor; [intros _; exact (sim_op_default growcap cr mcx cx mrc rc h0)|].
    constructor; [intros _; exact (sim_op_default growcap cr mcx cx mrc rc h0)|].
    constructor; [intros _; exact (sim_op_default growcap cr mcx cx mrc rc h0)|].
    constructor; [intros _; exact (sim_op_default growcap cr mcx cx mrc rc h0)|].
    constructor; [intros _; exact (sim_op_default growcap cr mcx cx mrc rc h0)|].
    constructor; [intros _; exact (sim_op_default growcap cr mcx cx mrc rc h0)|].
    constructor; [intros _; exact (sim_op_default growcap cr mcx cx mrc rc h0)|].
    constructor; [intros _; exact (sim_op_default growcap cr mcx cx mrc rc h0)|].
    constructor; [intros _; exact (sim_op_97 growcap cr mcx cx mrc rc h0)|].
    constructor; [intros H; discriminate H|].
    constructor; [intros _; exact (sim_op_99 growcap cr mcx cx mrc rc h0)|].
    constructor; [intros _; exact (sim_op_100 growcap cr mcx cx mrc rc h0)|].
    constructor; [intros H; discriminate H|].
    constructor; [intros H; discriminate H|].
    constructor; [intros H; discriminate H|].
    constructor; [intros H; discriminate H|].
    constructor; [intros _; exact (sim_op_105 growcap cr mcx cx mrc rc h0)|].
    constructor; [intros _; exact (sim_op_106 growcap cr mcx cx mrc rc h0)|].
    constructor; [intros _; exact (sim_op_107 growcap cr mcx cx mrc rc h0)|].
    constructor; [intros _; exact (sim_op_108 growcap cr mcx cx mrc rc h0)|].
    constructor; [intros _; exact (sim_op_109 growcap cr mcx cx mrc rc h0)|].
    constructor; [intros _; exact (sim_op_110 growcap cr mcx cx mrc rc h0)|].
    constructor; [intros _; exact (sim_op_111 growcap cr mcx cx mrc rc h0)|].
    constructor; [intros _; exact (sim_op_112 growcap cr mcx cx mrc rc h0)|].
    constructor; [intros _; exact (sim_op_113 growcap cr mcx cx mrc rc h0)|].
    constructor; [intros _; exact (sim_op_114 growcap cr mcx cx mrc rc h0)|].
    constructor; [intros _; exact (sim_op_115 growcap cr mcx cx mrc rc h0)|].
    constructor; [intros _; exact (sim_op_116 growcap cr mcx cx mrc rc h0)|].
    constructor; [intros _; exact (sim_op_117 growcap cr mcx cx mrc rc h0)|].
    constructor; [intros _; exact (sim_op_118 growcap cr mcx cx mrc rc h0)|].
    constructor; [intros _; exact (sim_op_119 growcap cr mcx cx mrc rc h0)|].
    constructor; [intros _; exact (sim_op_120 growcap cr mcx cx mrc rc h0)|].
    constructor; [intros _; exact (sim_op_121 growcap cr mcx cx mrc rc h0)|].
    constructor; [intros _; exact (sim_op_122 growcap cr mcx cx mrc rc h0)|].
    constructor; [intros _; exact (sim_op_123 growcap cr mcx cx mrc rc h0)|].
    constructor; [intros _; exact (sim_op_124 growcap cr mcx cx mrc rc h0)|].
    constructor; [intros _; exact (sim_op_125 growcap cr mcx cx mrc rc h0)|].
    constructor; [intros _; exact (sim_op_126 growcap cr mcx cx mrc rc h0)|].
    constructor; [intros _; exact (sim_op_127 growcap cr mcx cx mrc rc h0)|].
    constructor; [intros _; exact (sim_op_128 growcap cr mcx cx mrc rc h0)|].
    constructor; [intros _; exact (sim_op_129 growcap cr mcx cx mrc rc h0)|].
    constructor; [intros _; exact (sim_op_130 growcap cr mcx cx mrc rc h0)|].
    constructor; [intros _; exact (sim_op_131 growcap cr mcx cx mrc rc h0)|].
    constructor; [intros _; exact (sim_op_132 growcap cr mcx cx mrc rc h0)|].
    constructor; [intros _; exact (sim_op_133 growcap cr mcx cx mrc rc h0)|].
    constructor; [intros _; exact (sim_op_134 growcap cr mcx cx mrc rc h0)|].
    constructor; [intros _; exact (sim_op_135 growcap cr mcx cx mrc rc h0)|].
    constructor; [intros _; exact (sim_op_136 growcap cr mcx cx mrc rc h0)|].
    constructor; [intros _; exact (sim_op_137 growcap cr mcx cx mrc rc h0)|].
    constructor; [intros H; discriminate H|].
    constructor; [intros _; exact (sim_op_139 growcap cr mcx cx mrc rc h0)|].
    constructor; [intros _; exact (sim_op_140 growcap cr mcx cx mrc rc h0)|].
    constructor; [intros _; exact (sim_op_141 growcap cr mcx cx mrc rc h0)|].
    constructor; [intros _; exact (sim_op_142 growcap cr mcx cx mrc rc h0)|].
    constructor; [intros H; discriminate H|].
    constructor; [intros H; discriminate H|].
    constructor; [intros _; exact (sim_op_145 growcap cr mcx cx mrc rc h0)|].
    constructor; [intros _; exact (sim_op_146 growcap cr mcx cx mrc rc h0)|].
    constructor; [intros _; exact (sim_op_147 growcap cr mcx cx mrc rc h0)|].
    constructor; [intros _; exact (sim_op_148 growcap cr mcx cx mrc rc h0)|].
    constructor; [intros _; exact (sim_op_149 growcap cr mcx cx mrc rc h0)|].
    constructor; [intros _; exact (sim_op_150 growcap cr mcx cx mrc rc h0)|].
    constructor; [intros _; exact (sim_op_151 growcap cr mcx cx mrc rc h0)|].
    constructor; [intros _; exact (sim_op_152 growcap cr mcx cx mrc rc h0)|].
    constructor; [intros _; exact (sim_op_153 growcap cr mcx cx mrc rc h0)|].
    constructor; [intros _; exact (sim_op_154 growcap cr mcx cx mrc rc h0)|].
    constructor; [intros _; exact (sim_op_155 growcap cr mcx cx mrc rc h0)|].
    constructor; [intros _; exact (sim_op_156 growcap cr mcx cx mrc rc h0)|].
    constructor; [intros _; exact (sim_op_157 growcap cr mcx cx mrc rc h0)|].
    constructor; [intros _; exact (sim_op_158 growcap cr mcx cx mrc rc h0)|].
    constructor; [intros _; exact (sim_op_159 growcap cr mcx cx mrc rc h0)|].
    constructor; [intros _; exact (sim_op_160 growcap cr mcx cx mrc rc h0)|].
    constructor; [intros _; exact (sim_op_161 growcap cr mcx cx mrc rc h0)|].
    constructor; [intros _; exact (sim_op_162 growcap cr mcx cx mrc rc h0)|].
    constructor; [intros _; exact (sim_op_163 growcap cr mcx cx mrc rc h0)|].
    constructor; [intros _; exact (sim_op_164 growcap cr mcx cx mrc rc h0)|].
    constructor; [intros _; exact (sim_op_165 growcap cr mcx cx mrc rc h0)|].
    constructor; [intros H; discriminate H|].
    constructor; [intros H; discriminate H|].
    constructor; [intros _; exact (sim_op_168 growcap cr mcx cx mrc rc h0)|].
    constructor; [intros H; discriminate H|].
    constructor; [intros _; exact (sim_op_170 growcap cr mcx cx mrc rc h0)|].
    constructor; [intros _; exact (sim_op_171 growcap cr mcx cx mrc rc h0)|].
    constructor; [intros _; exact (sim_op_172 growcap cr mcx cx mrc rc h0)|].
    constructor; [intros _; exact (sim_op_173 growcap cr mcx cx mrc rc h0)|].
    constructor; [intros _; exact (sim_op_174 growcap cr mcx cx mrc rc h0)|].
    constructor; [intros H; discriminate H|].
    constructor; [intros H; discriminate H|].
    constructor; [intros H; discriminate H|].
    constructor; [intros H; discriminate H|].
    constructor; [intros H; discriminate H|].
    constructor; [intros H; discriminate H|].
    constructor; [intros H; discriminate H|].
    constructor; [intros H; discriminate H|].
    constructor; [intros H; discriminate H|].
    constructor; [intros H; discriminate H|].
    constructor; [intros H; discriminate H|].
    constructor; [intros H; discriminate H|].
    constructor; [intros H; discriminate H|].
    constructor; [intros H; discriminate H|].
    constructor; [intros H; discriminate H|].
    constructor; [intros H; discriminate H|].
    constructor; [intros H; discriminate H|].
    constructor; [intros _; exact (sim_op_192 growcap cr mcx cx mrc rc h0 Hrc)|].
    constructor; [intros _; exact (sim_op_193 growcap cr mcx cx mrc rc h0)|].
    constructor; [intros _; exact (sim_op_194 growcap cr mcx cx mrc rc h0)|].
    constructor; [intros _; exact (sim_op_195 growcap cr mcx cx mrc rc h0)|].
    constructor; [intros _; exact (sim_op_196 growcap cr mcx cx mrc rc h0)|].
    constructor; [intros H; discriminate H|].
    constructor; [intros H; discriminate H|].
    constructor; [intros H; discriminate H|].
    constructor; [intros H; discriminate H|].
    constructor; [intros _; exact (sim_op_201 growcap cr mcx cx mrc rc h0)|].
    constructor; [intros _; exact (sim_op_202 growcap cr mcx cx mrc rc h0)|].
    constructor; [intros _; exact (sim_op_203 growcap cr mcx cx mrc rc h0)|].
    constructor; [intros H; discriminate H|].
    constructor; [intros _; exact (sim_op_205 growcap cr mcx cx mrc rc h0)|].
    constructor; [intros H; discriminate H|].
    constructor; [intros H; discriminate H|].
    constructor; [intros H; discriminate H|].
    constructor; [intros H; discriminate H|].
    constructor; [intros H; discriminate H|].
    constructor; [intros H; discriminate H|].
    constructor; [intros H; discriminate H|].
    constructor; [intros H; discriminate H|].
    constructor; [intros H; discriminate H|].
    constructor; [intros H; discriminate H|].
    constructor; [intros H; discriminate H|].
    constructor; [intros H; discriminate H|].
    constructor; [intros H; discriminate H|].
    constructor; [intros H; discriminate H|].
    constructor; [intros H; discriminate H|].
    constructor; [intros H; discriminate H|].
    constructor; [intros H; discriminate H|].
    constructor; [intros H; discriminate H|].
    constructor; [intros H; discriminate H|].
    constructor; [intros H; discriminate H|].
    constructor; [intros H; discriminate H|].
    constructor; [intros H; discriminate H|].
    constructor; [intros H; discriminate H|].
    constructor; [intros H; discriminate H|].
    constructor; [intros H; discriminate H|].
    constructor; [intros H; discriminate H|].
    constructor; [intros H; discriminate H|].
    constructor; [intros H; discriminate H|].
    constructor; [intros H; discriminate H|].
    constructor; [intros H; discriminate H|].
    constructor; [intros H; discriminate H|].
    constructor; [intros H; discriminate H|].
    constructor; [intros H; discriminate H|].
    constructor; [intros H; discriminate H|].
    constructor; [intros H; discriminate H|].
    constructor; [intros H; discriminate H|].
    constructor; [intros H; discriminate H|].
    constructor; [intros H; discriminate H|].
    constructor; [intros H; discriminate H|].
    constructor; [intros H; discriminate H|].
    constructor; [intros H; discriminate H|].
    constructor; [intros H; discriminate H|].
    constructor; [intros H; discriminate H|].
    constructor; [intros H; discriminate H|].
    constructor; [intros H; discriminate H|].
    constructor; [intros H; discriminate H|].
    constructor; [intros H; discriminate H|].
    constructor; [intros H; discriminate H|].
    constructor; [intros H; discriminate H|].
    constructor; [intros H; discriminate H|].
    constructor.
  Qed.

  Lemma sim_exec_op h0 op : is_expansion op = false -> MSIM h0 req (mex op) (ex op).
  Proof.
    intros H. destruct (N.ltb_spec op 256) as [L|L].
    - pose proof (sim_exec_table h0) as T. rewrite Forall_forall in T. apply T; [|exact H].
      replace op with (N.of_nat (N.to_nat op)) by lia. apply in_map. apply in_seq. lia.
    - rewrite is_expansion_big in H by lia. discriminate.
  Qed.

  (* inst.Data: a fresh literal or a window of the program *)
  Lemma slice_window h p v lo hi : ritem h p v -> (lo <= hi)%N -> (hi <= N.of_nat (length v))%N ->
    forall hdr, N.to_nat lo = hdr ->
    ritem h (go_slice p hdr (N.to_nat hi)) (slice v lo hi).
  Proof.
    intros Hp A B hdr <-. unfold slice.
    replace (N.to_nat (hi - lo)) with (N.to_nat hi - N.to_nat lo)%nat by lia.
    apply go_slice_ok; auto; try lia. rewrite <- (ritem_length _ _ _ Hp). lia.
  Qed.

  Lemma add_u32_some a b e : add_u32 a b = Some e -> e = (a + b)%N.
  Proof. unfold add_u32. destruct (two32 <=? a + b)%N; congruence. Qed.

  Lemma inst_data_ok h p v pcv i : ritem h p v -> parse_op v pcv = inr i ->
    alloc_ok h (inst_data h p pcv i) (i_data i).
  Proof.
    intros Hp. unfold parse_op.
    set (l := N.of_nat (length v)). set (opc := byte_at v pcv).
    assert (NA : forall d w, ritem h d w -> alloc_ok h (h, d) w).
    { intros d w [W V]. split; [apply prefix_refl|]. now split. }
    destruct (2147483647 <? l)%N; [discriminate|].
    destruct (l <=? pcv)%N eqn:E0; [discriminate|].
    unfold inst_data.
    destruct ((OP_1 <=? opc) && (opc <=? OP_16))%N eqn:E1.
    { intros H; apply inr_inj in H; subst i; cbv beta iota delta [i_op i_len i_data]. rewrite E1. apply go_lit_ok. }
    destruct ((OP_DATA_1 <=? opc) && (opc <=? OP_DATA_75))%N eqn:E2.
    { destruct (add_u32 _ _) as [e|] eqn:Ea; [|discriminate]. apply add_u32_some in Ea.
      destruct (l <? e)%N eqn:El; [discriminate|]. intros H; apply inr_inj in H; subst i; cbv beta iota delta [i_op i_len i_data].
      rewrite E1, E2. apply NA.
      replace (N.to_nat pcv + N.to_nat (1 + (opc - OP_DATA_1 + 1)))%nat with (N.to_nat e) by lia.
      apply slice_window; auto; unfold l in *; lia. }
    destruct (opc =? OP_PUSHDATA1)%N eqn:E3.
    { destruct (pcv =? l - 1)%N; [discriminate|].
      destruct (add_u32 _ _) as [e|] eqn:Ea; [|discriminate]. apply add_u32_some in Ea.
      destruct (l <? e)%N eqn:El; [discriminate|]. intros H; apply inr_inj in H; subst i; cbv beta iota delta [i_op i_len i_data].
      rewrite E1, E2, E3. apply NA.
      replace (N.to_nat pcv + N.to_nat (1 + byte_at v (pcv + 1) + 1))%nat with (N.to_nat e) by lia.
      apply slice_window; auto; unfold l in *; lia. }
    destruct (opc =? OP_PUSHDATA2)%N eqn:E4.
    { destruct ((l <? 3) || (l - 3 <? pcv))%N; [discriminate|].
      destruct (add_u32 _ _) as [e|] eqn:Ea; [|discriminate]. apply add_u32_some in Ea.
      destruct (l <? e)%N eqn:El; [discriminate|]. intros H; apply inr_inj in H; subst i; cbv beta iota delta [i_op i_len i_data].
      rewrite E1, E2, E3, E4. apply NA.
      match goal with |- ritem _ (go_slice _ _ (N.to_nat pcv + N.to_nat ?len)%nat) _ =>
        replace (N.to_nat pcv + N.to_nat len)%nat with (N.to_nat e) by lia end.
      apply slice_window; auto; unfold l in *; lia. }
    destruct (opc =? OP_PUSHDATA4)%N eqn:E5.
    { destruct ((l <? 5) || (l - 5 <? pcv))%N; [discriminate|].
      destruct (add_u32 5 _) as [len|] eqn:Ea5; [|discriminate]. apply add_u32_some in Ea5.
      destruct (add_u32 pcv len) as [e|] eqn:Ea; [|discriminate]. apply add_u32_some in Ea.
      destruct (l <? e)%N eqn:El; [discriminate|]. intros H; apply inr_inj in H; subst i; cbv beta iota delta [i_op i_len i_data].
      rewrite E1, E2, E3, E4, E5. apply NA.
      replace (N.to_nat pcv + N.to_nat len)%nat with (N.to_nat e) by lia.
      apply slice_window; auto; unfold l in *; lia. }
    destruct ((opc =? OP_JUMP) || (opc =? OP_JUMPIF))%N eqn:E6.
    { destruct (add_u32 _ _) as [e|] eqn:Ea; [|discriminate]. apply add_u32_some in Ea.
      destruct (l <? e)%N eqn:El; [discriminate|]. intros H; apply inr_inj in H; subst i; cbv beta iota delta [i_op i_len i_data].
      rewrite E1, E2, E3, E4, E5, E6. apply NA.
      replace (N.to_nat pcv + N.to_nat 5)%nat with (N.to_nat e) by lia.
      apply slice_window; auto; unfold l in *; lia. }
    intros H; apply inr_inj in H; subst i; cbv beta iota delta [i_op i_len i_data].
    rewrite E1, E2, E3, E4, E5, E6. apply NA. apply ritem_dnil.
  Qed.

  Definition rsim (ms : mst) (r : mres unit) (r' : res unit) : Prop :=
    match r, r' with
    | MOk _ ms', ROk _ s' => WF ms' /\ prefix (m_heap ms) (m_heap ms') /\ proj ms' = s'
    | MErr e ms', RErr e' s' => e = e' /\ WF ms' /\ prefix (m_heap ms) (m_heap ms') /\ proj ms' = s'
    | _, _ => False
    end.

  Lemma sim_step ms : WF ms -> rsim ms (mstep growcap cr mcx mrc ms) (step cr cx rc (proj ms)).
  Proof.
    intros Hwf. pose proof Hwf as [Hc (A & B & C & D)]. unfold mstep, step, rsim.
    change (prog (proj ms)) with (val (m_heap ms) (m_prog ms)). change (pc (proj ms)) with (m_pc ms).
    destruct (parse_op (val (m_heap ms) (m_prog ms)) (m_pc ms)) as [e|i] eqn:Ep.
    { split; [reflexivity|]. split; [exact Hwf|]. split; [apply prefix_refl|reflexivity]. }
    destruct (is_expansion (i_op i)) eqn:Ex.
    - change (expres (set_nextpc (proj ms) ((m_pc ms + i_len i) mod two32)%N)) with (m_expres ms).
      cbn [m_expres mset_nextpc]. destruct (m_expres ms).
      + split; [reflexivity|]. split; [exact Hwf|]. split; [apply prefix_refl|reflexivity].
      + set (ms1 := mset_pc (mset_nextpc ms ((m_pc ms + i_len i) mod two32)%N)
                      (m_nextpc (mset_nextpc ms ((m_pc ms + i_len i) mod two32)%N))).
        pose proof (sim_apply_cost mcx cx (m_heap ms) 1 ms1 Hwf (prefix_refl _)) as S.
        change (proj ms1) with (set_pc (set_nextpc (proj ms) ((m_pc ms + i_len i) mod two32)%N)
                                  (nextpc (set_nextpc (proj ms) ((m_pc ms + i_len i) mod two32)%N))) in S.
        destruct (mapply_cost 1 ms1), (apply_cost 1 _); try contradiction.
        * destruct S as (X1 & X2 & X3 & X4). auto.
        * destruct S as (X1 & X2 & X3 & X4). auto.
    - cbn [m_heap m_prog m_pc mset_nextpc].
      pose proof (inst_data_ok (m_heap ms) (m_prog ms) _ (m_pc ms) i (conj A eq_refl) Ep) as (P1 & W1 & V1).
      destruct (inst_data (m_heap ms) (m_prog ms) (m_pc ms) i) as [h' dd]. cbn [fst snd] in *.
      set (ms2 := mset_heap (mset_vdata (mset_deferred (mset_nextpc ms ((m_pc ms + i_len i) mod two32)%N) 0) dd) h').
      assert (W2 : WF ms2).
      { split; [eapply wfcx_mono; eauto|]. unfold wfH. cbn.
        split; [eapply wfd_mono; eauto|]. split; [exact W1|].
        split; eapply Forall_wfd_mono; eauto. }
      assert (P2 : proj ms2 = set_vdata (set_deferred (set_nextpc (proj ms) ((m_pc ms + i_len i) mod two32)%N) 0) (i_data i)).
      { unfold proj, projH. cbn. rewrite V1, (val_mono _ _ _ P1 A), (map_val_mono _ _ _ P1 C), (map_val_mono _ _ _ P1 D).
        reflexivity. }
      pose proof (sim_exec_op (m_heap ms2) (i_op i) Ex ms2 W2 (prefix_refl _)) as S. rewrite P2 in S.
      fold ms2.
      assert (P12 : prefix (m_heap ms) (m_heap ms2)) by exact P1.
      destruct (mexec_op growcap cr mcx mrc (i_op i) ms2) as [[] ms3|e ms3],
               (exec_op cr cx rc (i_op i) _) as [[] s3|e' s3]; try contradiction.
      + destruct S as (W3 & P3 & E3 & _). subst s3.
        pose proof (sim_apply_cost mcx cx (m_heap ms3) (m_deferred ms3) ms3 W3 (prefix_refl _)) as S2.
        change (deferred (proj ms3)) with (m_deferred ms3).
        destruct (mapply_cost (m_deferred ms3) ms3) as [[] ms4|e ms4],
                 (apply_cost (m_deferred ms3) (proj ms3)) as [[] s4|e' s4]; try contradiction.
        * destruct S2 as (W4 & P4 & E4 & _). subst s4.
          split; [exact W4|]. split; [|reflexivity]. eauto using prefix_trans.
        * destruct S2 as (-> & W4 & P4 & E4). subst s4.
          split; [reflexivity|]. split; [|split; [eauto using prefix_trans|reflexivity]].
          destruct W4 as [Hc4 (A4 & B4 & C4 & D4)]. split; [exact Hc4|]. unfold wfH. cbn. auto.
      + destruct S as (-> & W3 & P3 & E3). subst s3.
        split; [reflexivity|]. split; [exact W3|]. split; [eauto using prefix_trans|reflexivity].
  Qed.

  End Step.

  Definition mchild (f : nat) : mst -> bool * mst :=
    fun c => match mrun growcap cr mcx f c with MOk _ cs => (true, cs) | MErr _ cs => (false, cs) end.
  Definition pchild (f : nat) : vmst -> child_result :=
    fun c => match run cr cx f c with ROk _ cs => (true, cs) | RErr _ cs => (false, cs) end.

  Lemma mrun_S f ms : mrun growcap cr mcx (S f) ms =
    if (m_pc ms <? N.of_nat (d_len (m_prog ms)))%N then
      match mstep growcap cr mcx (mchild f) ms with
      | MErr e s' => MErr e s'
      | MOk _ s' => mrun growcap cr mcx f s'
      end
    else MOk tt ms.
  Proof. reflexivity. Qed.
  Lemma run_S f s : run cr cx (S f) s =
    if (pc s <? N.of_nat (length (prog s)))%N then
      match step cr cx (pchild f) s with
      | RErr e s' => RErr e s'
      | ROk _ s' => run cr cx f s'
      end
    else ROk tt s.
  Proof. reflexivity. Qed.

  Lemma rsim_trans ms ms' r r' : prefix (m_heap ms) (m_heap ms') -> rsim ms' r r' -> rsim ms r r'.
  Proof.
    intros P. unfold rsim. destruct r, r'; auto.
    - intros (A & B & C). eauto using prefix_trans.
    - intros (A & B & C & D). eauto 6 using prefix_trans.
  Qed.

  Lemma sim_run fuel : forall ms, WF ms -> rsim ms (mrun growcap cr mcx fuel ms) (run cr cx fuel (proj ms)).
  Proof.
    induction fuel as [|f IH]; intros ms Hwf.
    - cbn. split; [reflexivity|]. split; [exact Hwf|]. split; [apply prefix_refl|reflexivity].
    - rewrite mrun_S, run_S.
      assert (Hrc : child_sim mcx cx (mchild f) (pchild f)).
      { intros cms Wc. specialize (IH cms Wc). unfold mchild, pchild, rsim in *.
        destruct (mrun growcap cr mcx f cms), (run cr cx f (proj cms)); cbn [fst snd]; try contradiction.
        - destruct IH as (X1 & X2 & X3). auto.
        - destruct IH as (X0 & X1 & X2 & X3). auto. }
      change (pc (proj ms)) with (m_pc ms). change (prog (proj ms)) with (val (m_heap ms) (m_prog ms)).
      rewrite val_length by apply Hwf.
      destruct (m_pc ms <? N.of_nat (d_len (m_prog ms)))%N.
      + pose proof (sim_step (mchild f) (pchild f) Hrc ms Hwf) as S. unfold rsim in S.
        destruct (mstep growcap cr mcx (mchild f) ms) as [[] ms'|e ms'],
                 (step cr cx (pchild f) (proj ms)) as [[] s'|e' s']; try contradiction.
        * destruct S as (W & P & E). subst s'. eapply rsim_trans; [exact P|]. now apply IH.
        * exact S.
      + split; [exact Hwf|]. split; [apply prefix_refl|reflexivity].
  Qed.

  Lemma sim_push_all_alt h0 l vs : Forall2 (ritem h0) l vs ->
    MSIM h0 req (mpush_all mpush_alt l) (push_all push_alt vs).
  Proof.
    intros H. revert h0 vs H. induction l as [|d l IH]; intros h0 vs H; inversion H; subst; cbn [mpush_all push_all].
    - apply sim_ret_eq.
    - eapply msim_bind; [now apply sim_push_alt|]. intros h1 [] [] P _. apply IH. eapply ritems_mono; eauto.
  Qed.
  Lemma sim_push_all h0 l vs : Forall2 (ritem h0) l vs ->
    MSIM h0 req (mpush_all mpush l) (push_all push vs).
  Proof.
    intros H. revert h0 vs H. induction l as [|d l IH]; intros h0 vs H; inversion H; subst; cbn [mpush_all push_all].
    - apply sim_ret_eq.
    - eapply msim_bind; [now apply sim_push|]. intros h1 [] [] P _. apply IH. eapply ritems_mono; eauto.
  Qed.

  Lemma wf_minit h gas : wfcx mcx cx h -> WF (minit mcx h gas) /\
    proj (minit mcx h gas) = {| prog := cx_code cx; pc := 0; nextpc := 0; runlimit := gas; deferred := 0;
                                expres := match cx_txversion cx with Some 1%N => true | _ => false end;
                                vdata := []; dstack := []; astack := [] |}.
  Proof.
    intros Hc. pose proof Hc as (A & B & _). split.
    - split; [exact Hc|]. unfold wfH, minit. cbn. split; [exact B|]. split; [apply wfd_dnil|]. split; constructor.
    - unfold proj, projH, minit. cbn. rewrite val_dnil, <- A. reflexivity.
  Qed.

  (* Verify on any layout gives the result of the pure VM on the denoted values *)
  Lemma sim_verify fuel h sd ad gas : wfcx mcx cx h -> Forall (wfd h) sd -> Forall (wfd h) ad ->
    fst (mverify growcap cr mcx fuel h sd ad gas) = verify cr cx fuel (map (val h) sd) (map (val h) ad) gas
    /\ WF (snd (mverify growcap cr mcx fuel h sd ad gas))
    /\ prefix h (m_heap (snd (mverify growcap cr mcx fuel h sd ad gas))).
  Proof.
    intros Hc Hs Ha. unfold mverify, verify.
    destruct (wf_minit h gas Hc) as [W0 P0].
    assert (Ev : cx_vmversion cx = mc_vmversion mcx) by (rewrite <- (proj1 Hc); reflexivity).
    rewrite Ev. destruct (negb (mc_vmversion mcx =? 1)%N).
    { cbn [fst snd]. split; [reflexivity|]. split; [exact W0|apply prefix_refl]. }
    assert (S : MSIM h req (mpush_all mpush_alt sd;;~ mpush_all mpush ad)
                          (push_all push_alt (map (val h) sd);;; push_all push (map (val h) ad))).
    { eapply msim_bind; [apply sim_push_all_alt, ritems_of_wfd, Hs|].
      intros h1 [] [] P _. apply sim_push_all. eapply ritems_mono; [exact P|]. apply ritems_of_wfd, Ha. }
    specialize (S (minit mcx h gas) W0 (prefix_refl _)). rewrite P0 in S.
    destruct ((mpush_all mpush_alt sd;;~ mpush_all mpush ad) (minit mcx h gas)) as [[] ms1|e ms1],
             ((push_all push_alt (map (val h) sd);;; push_all push (map (val h) ad)) _) as [[] s1|e' s1];
      try contradiction.
    - destruct S as (W1 & P1 & E1 & _). subst s1.
      pose proof (sim_run fuel ms1 W1) as R. unfold rsim in R.
      destruct (mrun growcap cr mcx fuel ms1) as [[] ms2|e ms2], (run cr cx fuel (proj ms1)) as [[] s2|e' s2];
        try contradiction.
      + destruct R as (W2 & P2 & E2). subst s2. cbn [fst snd].
        split; [reflexivity|]. split; [exact W2|]. eapply prefix_trans; [exact P1|exact P2].
      + destruct R as (-> & W2 & P2 & E2). subst s2.
        destruct e'; cbn [fst snd]; (split; [reflexivity|]; split; [exact W2|]; eapply prefix_trans; [exact P1|exact P2]).
    - destruct S as (-> & W1 & P1 & E1). subst s1. cbn [fst snd].
      split; [reflexivity|]. split; [exact W1|exact P1].
  Qed.
End Run.
