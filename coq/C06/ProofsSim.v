(* C06 — the simulation between the memory-level VM (VMmem.v) and the pure
   value VM (lib/VM.v): Kripke-style relation indexed by the heap, which only
   ever grows by [prefix] (new buffers; existing buffers untouched). *)
From Coq Require Import List ZArith NArith Bool Arith Lia.
From Verif Require Import Cmp VM.
From C06 Require Import VMmem ProofsHeap.
Import ListNotations.
Open Scope Z_scope.

Definition owfd (h : heap) (od : option desc) : Prop :=
  match od with None => True | Some d => wfd h d end.

Definition wfH (h : heap) (s : mst) : Prop :=
  wfd h (m_prog s) /\ wfd h (m_vdata s) /\ Forall (wfd h) (m_dstack s) /\ Forall (wfd h) (m_astack s).

Lemma Forall_wfd_mono h h' l : prefix h h' -> Forall (wfd h) l -> Forall (wfd h') l.
Proof. intros P H. eapply Forall_impl; [|exact H]. intros d. now apply wfd_mono. Qed.

Lemma map_val_mono h h' l : prefix h h' -> Forall (wfd h) l -> map (val h') l = map (val h) l.
Proof.
  intros P H. induction H as [|d l Hd _ IH]; cbn; [reflexivity|].
  now rewrite IH, (val_mono _ _ _ P Hd).
Qed.

Lemma wfH_mono h h' s : prefix h h' -> wfH h s -> wfH h' s.
Proof.
  intros P (A & B & C & D). unfold wfH. eauto 10 using wfd_mono, Forall_wfd_mono.
Qed.
Lemma projH_mono h h' s : prefix h h' -> wfH h s -> projH h' s = projH h s.
Proof.
  intros P (A & B & C & D). unfold projH.
  now rewrite (val_mono _ _ _ P A), (val_mono _ _ _ P B), (map_val_mono _ _ _ P C), (map_val_mono _ _ _ P D).
Qed.

Lemma ritems_mono h h' l vs : prefix h h' -> Forall2 (ritem h) l vs -> Forall2 (ritem h') l vs.
Proof. intros P H. induction H; constructor; eauto using ritem_mono. Qed.

Lemma ritems_of_wfd h l : Forall (wfd h) l -> Forall2 (ritem h) l (map (val h) l).
Proof. intros H. induction H; cbn; constructor; auto. now split. Qed.
Lemma ritems_wfd h l vs : Forall2 (ritem h) l vs -> Forall (wfd h) l.
Proof. intros H. induction H; constructor; auto. apply H. Qed.
Lemma ritems_val h l vs : Forall2 (ritem h) l vs -> map (val h) l = vs.
Proof. intros H. induction H as [|d v l vs [_ E] _ IH]; cbn; [reflexivity|]. now rewrite E, IH. Qed.
Lemma ritems_length h l vs : Forall2 (ritem h) l vs -> length vs = length l.
Proof. intros H. induction H; cbn; auto. Qed.

Lemma ritem_nth h l vs k : Forall2 (ritem h) l vs -> ritem h (nth k l dnil) (nth k vs []).
Proof.
  intros H. revert k. induction H; intros [|k]; cbn; auto using ritem_dnil.
Qed.
Lemma ritems_firstn h l vs k : Forall2 (ritem h) l vs -> Forall2 (ritem h) (firstn k l) (firstn k vs).
Proof. intros H. revert k. induction H; intros [|k]; cbn; constructor; auto. Qed.
Lemma ritems_skipn h l vs k : Forall2 (ritem h) l vs -> Forall2 (ritem h) (skipn k l) (skipn k vs).
Proof. intros H. revert k. induction H; intros [|k]; cbn; try constructor; auto. Qed.
Lemma ritems_app h l vs l2 vs2 : Forall2 (ritem h) l vs -> Forall2 (ritem h) l2 vs2 -> Forall2 (ritem h) (l ++ l2) (vs ++ vs2).
Proof. intros H. induction H; cbn; auto. Qed.
Lemma ritems_tl h l vs : Forall2 (ritem h) l vs -> Forall2 (ritem h) (tl l) (tl vs).
Proof. intros H. destruct H; cbn; auto. Qed.

Lemma mstack_cost_eq h l vs : Forall2 (ritem h) l vs -> mstack_cost l = stack_cost vs.
Proof.
  intros H. unfold mstack_cost, stack_cost. induction H as [|d v l vs Hd _ IH]; cbn [fold_right]; [reflexivity|].
  rewrite IH. unfold ditem_cost, dlen, item_cost. rewrite (ritem_length _ _ _ Hd). reflexivity.
Qed.

Ltac split4 := refine (conj _ (conj _ (conj _ _))).

Section Sim.
  Variable growcap : nat -> nat -> nat.
  Variable cr : crypto.
  Variable mcx : mcontext.
  Variable cx : context.

  (* the layout of the context: its descriptors are well-formed, denote the pure context cx, and the
     process-wide trueBytes holds [1] *)
  Definition wfcx (h : heap) : Prop :=
    proj_cx h mcx = cx /\ wfd h (mc_code mcx) /\ wfd h (mc_entryid mcx) /\ owfd h (mc_assetid mcx)
    /\ owfd h (mc_spentoutputid mcx) /\ owfd h (mc_txsighash mcx) /\ ritem h (mc_true mcx) [1%N].

  Lemma wfcx_mono h h' : prefix h h' -> wfcx h -> wfcx h'.
  Proof.
    intros P (A & B & C & D & E & F & G). unfold wfcx.
    assert (O : forall od, owfd h od -> owfd h' od /\ option_map (val h') od = option_map (val h) od).
    { intros [d|]; cbn; [|auto]. intros W. split; [eapply wfd_mono; eauto|]. now rewrite (val_mono _ _ _ P W). }
    split.
    { rewrite <- A. unfold proj_cx.
      rewrite (val_mono _ _ _ P B), (val_mono _ _ _ P C).
      rewrite (proj2 (O _ D)), (proj2 (O _ E)), (proj2 (O _ F)). reflexivity. }
    split; [eapply wfd_mono; eauto|]. split; [eapply wfd_mono; eauto|].
    split; [apply O; auto|]. split; [apply O; auto|]. split; [apply O; auto|].
    eapply ritem_mono; eauto.
  Qed.

  Definition wf (s : mst) : Prop := wfcx (m_heap s) /\ wfH (m_heap s) s.

  Definition req {A} (_ : heap) (a b : A) : Prop := a = b.
  Definition rstate (h : heap) (ms : mst) (s : vmst) : Prop := s = projH h ms /\ wfH h ms.

  Definition msim {A B} (h0 : heap) (R : heap -> A -> B -> Prop) (mm : MM A) (m : M B) : Prop :=
    forall ms, wf ms -> prefix h0 (m_heap ms) ->
      match mm ms, m (proj ms) with
      | MOk a ms', ROk b s' => wf ms' /\ prefix (m_heap ms) (m_heap ms') /\ proj ms' = s' /\ R (m_heap ms') a b
      | MErr e ms', RErr e' s' => e = e' /\ wf ms' /\ prefix (m_heap ms) (m_heap ms') /\ proj ms' = s'
      | _, _ => False
      end.

  Lemma msim_bind {A B A' B'} h0 (RA : heap -> A -> B -> Prop) (RB : heap -> A' -> B' -> Prop)
        mm m (f : A -> MM A') (g : B -> M B') :
    msim h0 RA mm m ->
    (forall h1 a b, prefix h0 h1 -> RA h1 a b -> msim h1 RB (f a) (g b)) ->
    msim h0 RB (mbind mm f) (bind m g).
  Proof.
    intros H1 H2 ms Hwf Hp. specialize (H1 ms Hwf Hp). unfold mbind, bind.
    destruct (mm ms) as [a ms'|e ms'], (m (proj ms)) as [b s'|e' s']; try contradiction.
    - destruct H1 as (Hwf' & Hp' & Hproj & HR). subst s'.
      specialize (H2 (m_heap ms') a b (prefix_trans _ _ _ Hp Hp') HR ms' Hwf' (prefix_refl _)).
      destruct (f a ms'), (g b (proj ms')); try contradiction.
      + destruct H2 as (X1 & X2 & X3 & X4). split4; eauto using prefix_trans.
      + destruct H2 as (X1 & X2 & X3 & X4). split4; eauto using prefix_trans.
    - exact H1.
  Qed.

  (* steps that exist only on the memory side: reading bytes, allocating *)
  Lemma msim_read {A B} h0 (R : heap -> A -> B -> Prop) d v (k : item -> MM A) (m : M B) :
    ritem h0 d v -> msim h0 R (k v) m -> msim h0 R (mbind (mread d) k) m.
  Proof.
    intros Hd H ms Hwf Hp. unfold mbind, mread.
    destruct (ritem_mono _ _ _ _ Hp Hd) as [_ ->]. exact (H ms Hwf Hp).
  Qed.
  Lemma msim_readl {A B} h0 (R : heap -> A -> B -> Prop) l vs (k : list item -> MM A) (m : M B) :
    Forall2 (ritem h0) l vs -> msim h0 R (k vs) m -> msim h0 R (mbind (mreadl l) k) m.
  Proof.
    intros Hd H ms Hwf Hp. unfold mbind, mreadl.
    rewrite (ritems_val _ _ _ (ritems_mono _ _ _ _ Hp Hd)). exact (H ms Hwf Hp).
  Qed.

  Lemma wf_set_heap ms h' : wf ms -> prefix (m_heap ms) h' -> wf (mset_heap ms h') /\ proj (mset_heap ms h') = proj ms.
  Proof.
    intros [A B] P. split.
    - split; cbn; [eapply wfcx_mono; eauto|]. exact (wfH_mono _ _ _ P B).
    - unfold proj. cbn [m_heap mset_heap]. exact (projH_mono _ _ ms P B).
  Qed.

  Lemma msim_alloc {A B} h0 (R : heap -> A -> B -> Prop) f v (k : desc -> MM A) (m : M B) :
    (forall h, prefix h0 h -> alloc_ok h (f h) v) ->
    (forall h1 r, prefix h0 h1 -> ritem h1 r v -> msim h1 R (k r) m) ->
    msim h0 R (mbind (malloc f) k) m.
  Proof.
    intros Hf H ms Hwf Hp. unfold mbind, malloc.
    specialize (Hf _ Hp). destruct (f (m_heap ms)) as [h' r]. destruct Hf as (P & W & V). cbn [fst snd] in *.
    destruct (wf_set_heap ms h' Hwf P) as [Hwf' Hproj].
    specialize (H h' r (prefix_trans _ _ _ Hp P) (conj W V) (mset_heap ms h') Hwf' (prefix_refl _)).
    rewrite Hproj in H.
    destruct (k r (mset_heap ms h')), (m (proj ms)); try contradiction.
    - destruct H as (X1 & X2 & X3 & X4). split4; eauto using prefix_trans.
    - destruct H as (X1 & X2 & X3 & X4). split4; eauto using prefix_trans.
  Qed.

  (* access to the context facts *)
  Lemma msim_wfcx {A B} h0 (R : heap -> A -> B -> Prop) (mm : MM A) (m : M B) :
    (forall h, prefix h0 h -> wfcx h -> msim h R mm m) -> msim h0 R mm m.
  Proof. intros H ms Hwf Hp. exact (H (m_heap ms) Hp (proj1 Hwf) ms Hwf (prefix_refl _)). Qed.

  Lemma msim_weaken {A B} h0 h1 (R : heap -> A -> B -> Prop) (mm : MM A) (m : M B) :
    prefix h0 h1 -> msim h0 R mm m -> msim h1 R mm m.
  Proof. intros P H ms Hwf Hp. exact (H ms Hwf (prefix_trans _ _ _ P Hp)). Qed.

  (* ---------- leaves ---------- *)

  Ltac leaf_start := let ms := fresh "ms" in let Hwf := fresh "Hwf" in let Hp := fresh "Hp" in
    intros ms Hwf Hp.

  Lemma sim_ret {A B} h0 (R : heap -> A -> B -> Prop) a b :
    (forall h, prefix h0 h -> R h a b) -> msim h0 R (mret a) (ret b).
  Proof. intros H ms Hwf Hp. cbn. split4; auto using prefix_refl. Qed.
  Lemma sim_ret_eq {A} h0 (a : A) : msim h0 req (mret a) (ret a).
  Proof. apply sim_ret. reflexivity. Qed.
  Lemma sim_fail {A B} h0 (R : heap -> A -> B -> Prop) e : msim h0 R (mfail e) (fail e).
  Proof. intros ms Hwf Hp. cbn. split4; auto using prefix_refl. Qed.
  Lemma sim_lift {A} h0 (x : vmerr + A) : msim h0 req (mlift x) (lift x).
  Proof. destruct x; [apply sim_fail|apply sim_ret_eq]. Qed.
  Lemma sim_get h0 : msim h0 rstate mget get.
  Proof. intros ms Hwf Hp. cbn. split4; auto using prefix_refl. split; [reflexivity|apply Hwf]. Qed.

  Lemma sim_apply_cost h0 n : msim h0 req (mapply_cost n) (apply_cost n).
  Proof.
    intros ms Hwf Hp. unfold mapply_cost, apply_cost. change (runlimit (proj ms)) with (m_runlimit ms).
    destruct (m_runlimit ms <? n); split4; auto using prefix_refl; try reflexivity; exact Hwf.
  Qed.
  Lemma sim_defer_cost h0 n : msim h0 req (mdefer_cost n) (defer_cost n).
  Proof. intros ms Hwf Hp. cbn. split4; auto using prefix_refl; try reflexivity; exact Hwf. Qed.

  (* raw updates of the data stack *)
  Lemma sim_upd_dstack h0 (F' : list desc -> list desc) (F : list item -> list item) :
    (forall h l vs, prefix h0 h -> Forall2 (ritem h) l vs -> Forall2 (ritem h) (F' l) (F vs)) ->
    msim h0 req (fun s => MOk tt (mset_dstack s (F' (m_dstack s)))) (fun s => ROk tt (set_dstack s (F (dstack s)))).
  Proof.
    intros HF ms [Hc (A & B & C & D)] Hp.
    specialize (HF _ _ _ Hp (ritems_of_wfd _ _ C)).
    split4; auto using prefix_refl; try reflexivity.
    - split; [exact Hc|]. unfold wfH. cbn. pose proof (ritems_wfd _ _ _ HF). auto.
    - unfold proj, projH. cbn. rewrite (ritems_val _ _ _ HF). reflexivity.
  Qed.

  Lemma sim_set_dstack h0 l vs : Forall2 (ritem h0) l vs ->
    msim h0 req (fun s => MOk tt (mset_dstack s l)) (fun s => ROk tt (set_dstack s vs)).
  Proof.
    intros H. apply (sim_upd_dstack h0 (fun _ => l) (fun _ => vs)).
    intros h _ _ P _. eapply ritems_mono; eauto.
  Qed.
  Lemma sim_dstack_tl h0 :
    msim h0 req (fun s => MOk tt (mset_dstack s (tl (m_dstack s)))) (fun s => ROk tt (set_dstack s (tl (dstack s)))).
  Proof. apply (sim_upd_dstack h0 (@tl desc) (@tl item)). intros; now apply ritems_tl. Qed.
  Lemma sim_dstack_cons h0 d v : ritem h0 d v ->
    msim h0 req (fun s => MOk tt (mset_dstack s (d :: m_dstack s))) (fun s => ROk tt (set_dstack s (v :: dstack s))).
  Proof.
    intros H. apply (sim_upd_dstack h0 (cons d) (cons v)). intros h l vs P Hl. constructor; eauto using ritem_mono.
  Qed.
  Lemma sim_dstack_cons2 h0 d v d2 v2 : ritem h0 d v -> ritem h0 d2 v2 ->
    msim h0 req (fun s => MOk tt (mset_dstack s (d :: d2 :: m_dstack s)))
                (fun s => ROk tt (set_dstack s (v :: v2 :: dstack s))).
  Proof.
    intros H H2. apply (sim_upd_dstack h0 (fun l => d :: d2 :: l) (fun l => v :: v2 :: l)).
    intros h l vs P Hl. constructor; [|constructor]; eauto using ritem_mono.
  Qed.
  Lemma sim_dstack_settop h0 d v : ritem h0 d v ->
    msim h0 req (fun s => MOk tt (mset_dstack s (d :: tl (m_dstack s))))
                (fun s => ROk tt (set_dstack s (v :: tl (dstack s)))).
  Proof.
    intros H. apply (sim_upd_dstack h0 (fun l => d :: tl l) (fun l => v :: tl l)).
    intros h l vs P Hl. constructor; eauto using ritem_mono, ritems_tl.
  Qed.

  Lemma sim_to_alt h0 x vx r vr : ritem h0 x vx -> Forall2 (ritem h0) r vr ->
    msim h0 req (fun s' => MOk tt (mset_astack (mset_dstack s' r) (x :: m_astack s')))
                (fun s' => ROk tt (set_astack (set_dstack s' vr) (vx :: astack s'))).
  Proof.
    intros Hx Hr ms [Hc (A & B & C & D)] Hp.
    pose proof (ritem_mono _ _ _ _ Hp Hx) as [Wx Vx]. pose proof (ritems_mono _ _ _ _ Hp Hr) as Hr'.
    pose proof (ritems_wfd _ _ _ Hr') as Wr.
    (split4; auto using prefix_refl; try reflexivity;
     [split; [exact Hc|]; unfold wfH; cbn; auto 10
     |unfold proj, projH; cbn; rewrite (ritems_val _ _ _ Hr'), Vx; reflexivity]).
  Qed.
  Lemma sim_from_alt h0 x vx r vr : ritem h0 x vx -> Forall2 (ritem h0) r vr ->
    msim h0 req (fun s' => MOk tt (mset_astack (mset_dstack s' (x :: m_dstack s')) r))
                (fun s' => ROk tt (set_astack (set_dstack s' (vx :: dstack s')) vr)).
  Proof.
    intros Hx Hr ms [Hc (A & B & C & D)] Hp.
    pose proof (ritem_mono _ _ _ _ Hp Hx) as [Wx Vx]. pose proof (ritems_mono _ _ _ _ Hp Hr) as Hr'.
    pose proof (ritems_wfd _ _ _ Hr') as Wr.
    (split4; auto using prefix_refl; try reflexivity;
     [split; [exact Hc|]; unfold wfH; cbn; auto 10
     |unfold proj, projH; cbn; rewrite (ritems_val _ _ _ Hr'), Vx; reflexivity]).
  Qed.

  Lemma sim_set_nextpc h0 v : msim h0 req (mset_nextpc_op v) (fun s' => ROk tt (set_nextpc s' v)).
  Proof. intros ms Hwf Hp. cbn. split4; auto using prefix_refl; try reflexivity; exact Hwf. Qed.

  Lemma sim_push h0 d v df : ritem h0 d v -> msim h0 req (mpush d df) (push v df).
  Proof.
    intros Hd. unfold mpush, push.
    assert (E : ditem_cost d = item_cost v).
    { unfold ditem_cost, dlen, item_cost. now rewrite (ritem_length _ _ _ Hd). }
    rewrite E. eapply msim_bind.
    - destruct df; [apply sim_defer_cost|apply sim_apply_cost].
    - intros h1 [] [] P _. apply sim_dstack_cons. eapply ritem_mono; eauto.
  Qed.
  Lemma sim_push_alt h0 d v df : ritem h0 d v -> msim h0 req (mpush_alt d df) (push_alt v df).
  Proof.
    intros Hd. unfold mpush_alt, push_alt.
    assert (E : ditem_cost d = item_cost v).
    { unfold ditem_cost, dlen, item_cost. now rewrite (ritem_length _ _ _ Hd). }
    rewrite E. eapply msim_bind.
    - destruct df; [apply sim_defer_cost|apply sim_apply_cost].
    - intros h1 [] [] P _ ms [Hc (A & B & C & D)] Hp.
      pose proof (ritem_mono _ _ _ _ (prefix_trans _ _ _ P Hp) Hd) as [Wx Vx].
      split4; auto using prefix_refl; try reflexivity.
      + split; [exact Hc|]. unfold wfH. cbn. auto.
      + unfold proj, projH. cbn. rewrite Vx. reflexivity.
  Qed.

  Lemma sim_pop h0 df : msim h0 ritem (mpop df) (pop df).
  Proof.
    intros ms [Hc (A & B & C & D)] Hp. unfold mpop, pop.
    change (dstack (proj ms)) with (map (val (m_heap ms)) (m_dstack ms)).
    destruct (m_dstack ms) as [|x r] eqn:E; cbn [map].
    - split4; auto using prefix_refl.
      all: try (split; [exact Hc|]; unfold wfH; rewrite E; auto).
      all: try (unfold proj, projH; now rewrite E).
    - inversion C as [|? ? Wx Wr]; subst.
      assert (Ec : ditem_cost x = item_cost (val (m_heap ms) x)).
      { unfold ditem_cost, dlen, item_cost. now rewrite val_length. }
      destruct df; split4; auto using prefix_refl.
      all: try (split; [exact Hc|]; unfold wfH; cbn; now auto).
      all: try (rewrite Ec; reflexivity).
      all: try (now split).
  Qed.
  Lemma sim_top h0 : msim h0 ritem mtop top.
  Proof.
    intros ms [Hc (A & B & C & D)] Hp. unfold mtop, top.
    change (dstack (proj ms)) with (map (val (m_heap ms)) (m_dstack ms)).
    destruct (m_dstack ms) as [|x r] eqn:E; cbn [map].
    - split4; auto using prefix_refl.
      all: try (split; [exact Hc|]; unfold wfH; rewrite E; auto).
      all: try (unfold proj, projH; now rewrite E).
    - inversion C as [|? ? Wx Wr]; subst.
      split4; auto using prefix_refl.
      all: try (split; [exact Hc|]; unfold wfH; rewrite E; auto).
      all: try (unfold proj, projH; now rewrite E).
      all: try (now split).
  Qed.

  Lemma sim_push_bool h0 b df : msim h0 req (mpush_bool mcx b df) (push_bool b df).
  Proof.
    apply msim_wfcx. intros h P Hc. unfold mpush_bool, push_bool, bool_bytes. destruct b.
    - apply sim_push. apply Hc.
    - eapply msim_alloc; [intros; apply go_lit_ok|]. intros h1 r P1 Hr. now apply sim_push.
  Qed.
  Lemma sim_push_bigint h0 n df : msim h0 req (mpush_bigint n df) (push_bigint n df).
  Proof.
    unfold mpush_bigint, push_bigint.
    eapply msim_alloc; [intros; apply go_bigint_bytes_ok|]. intros h1 r P1 Hr. now apply sim_push.
  Qed.

  Lemma sim_as_bigint h0 d v : ritem h0 d v -> msim h0 req (mas_bigint d) (lift (as_bigint v)).
  Proof.
    intros Hd. unfold mas_bigint, as_bigint. rewrite (ritem_length _ _ _ Hd).
    destruct (32 <? d_len d)%nat; [apply sim_fail|].
    eapply msim_alloc; [intros h P; apply go_reverse_ok; eapply ritem_mono; eauto|].
    intros h1 r P1 Hr. eapply msim_read; [exact Hr|]. rewrite rev_involutive.
    destruct (two255 <=? le_decode v)%N; [apply sim_fail|apply sim_ret_eq].
  Qed.
  Lemma sim_pop_bigint h0 df : msim h0 req (mpop_bigint df) (pop_bigint df).
  Proof.
    unfold mpop_bigint, pop_bigint. eapply msim_bind; [apply sim_pop|].
    intros h1 d v P H. now apply sim_as_bigint.
  Qed.

  Lemma sim_popn h0 n df : msim h0 (fun h => Forall2 (ritem h)) (mpopn n df) (popn n df).
  Proof.
    revert h0. induction n as [|n IH]; intros h0; cbn [mpopn popn].
    - apply sim_ret. constructor.
    - eapply msim_bind; [apply sim_pop|]. intros h1 d v P1 Hd.
      eapply msim_bind; [apply IH|]. intros h2 l vs P2 Hl.
      apply sim_ret. intros h P. constructor.
      + eapply ritem_mono; [|exact Hd]. eapply prefix_trans; eauto.
      + eapply ritems_mono; eauto.
  Qed.

  Lemma rstate_facts h ms s : rstate h ms s ->
    s = projH h ms /\ ritem h (m_vdata ms) (val h (m_vdata ms)) /\
    Forall2 (ritem h) (m_dstack ms) (map (val h) (m_dstack ms)) /\
    Forall2 (ritem h) (m_astack ms) (map (val h) (m_astack ms)).
  Proof.
    intros [-> (A & B & C & D)]. split4; auto using ritems_of_wfd. now split.
  Qed.
End Sim.
