(* C06 — lemmas about the heap / Go-slice layer of VMmem.v:
   every allocating fragment returns a heap that EXTENDS the old one (no
   existing buffer is touched: all writes go to the buffer just allocated)
   and a well-formed descriptor with the expected value. *)
From Coq Require Import List ZArith NArith Bool Arith Lia.
From Verif Require Import Cmp VM.
From C06 Require Import VMmem.
Import ListNotations.

(* well-formed descriptor: the capacity window lies inside its buffer.  A descriptor
   whose buffer does not exist must be empty (Go's nil / zero-size slices). *)
Definition wfd (h : heap) (d : desc) : Prop :=
  (d_len d <= d_cap d)%nat /\
  match nth_error h (d_buf d) with
  | Some b => (d_off d + d_cap d <= length b)%nat
  | None => d_cap d = 0%nat /\ d_off d = 0%nat
  end.

(* h' has all the buffers of h, unchanged, and possibly more *)
Definition prefix (h h' : heap) : Prop := exists t, h' = h ++ t.

Definition ritem (h : heap) (d : desc) (v : item) : Prop := wfd h d /\ val h d = v.

Lemma prefix_refl h : prefix h h.
Proof. exists []. now rewrite app_nil_r. Qed.
Lemma prefix_trans a b c : prefix a b -> prefix b c -> prefix a c.
Proof. intros [t ->] [u ->]. exists (t ++ u). now rewrite app_assoc. Qed.
Lemma prefix_app h t : prefix h (h ++ t).
Proof. now exists t. Qed.
Lemma prefix_length a b : prefix a b -> (length a <= length b)%nat.
Proof. intros [t ->]. rewrite app_length. lia. Qed.

Lemma prefix_nth h h' i b : prefix h h' -> nth_error h i = Some b -> nth_error h' i = Some b.
Proof.
  intros [t ->] H. rewrite nth_error_app1; [exact H|].
  apply nth_error_Some. congruence.
Qed.

(* the statement of "caller's buffers unchanged": every buffer id of h has the same contents in h' *)
Lemma prefix_unchanged h h' : prefix h h' -> forall i, (i < length h)%nat -> nth_error h' i = nth_error h i.
Proof. intros [t ->] i Hi. now rewrite nth_error_app1. Qed.

Lemma wfd_val_mono h h' d : prefix h h' -> wfd h d -> wfd h' d /\ val h' d = val h d.
Proof.
  intros Hp [Hl Hb]. unfold wfd, val.
  destruct (nth_error h (d_buf d)) as [b|] eqn:E.
  - rewrite (prefix_nth _ _ _ _ Hp E). auto.
  - destruct Hb as [Hc Ho]. assert (d_len d = 0)%nat by lia.
    destruct (nth_error h' (d_buf d)) as [b|].
    + rewrite H. cbn. split; [split; [lia|lia]|reflexivity].
    + auto.
Qed.
Lemma wfd_mono h h' d : prefix h h' -> wfd h d -> wfd h' d.
Proof. intros A B. apply (wfd_val_mono _ _ _ A B). Qed.
Lemma val_mono h h' d : prefix h h' -> wfd h d -> val h' d = val h d.
Proof. intros A B. apply (wfd_val_mono _ _ _ A B). Qed.
Lemma ritem_mono h h' d v : prefix h h' -> ritem h d v -> ritem h' d v.
Proof. intros A [B C]. split; [eapply wfd_mono; eauto|]. rewrite (val_mono _ _ _ A B). exact C. Qed.

Lemma val_length h d : wfd h d -> length (val h d) = d_len d.
Proof.
  intros [Hl Hb]. unfold val. destruct (nth_error h (d_buf d)) as [b|].
  - rewrite firstn_length, skipn_length. lia.
  - cbn. lia.
Qed.
Lemma ritem_length h d v : ritem h d v -> length v = d_len d.
Proof. intros [A <-]. now apply val_length. Qed.

Lemma wfd_dnil h : wfd h dnil.
Proof. split; cbn; [lia|]. destruct h; cbn; lia. Qed.
Lemma val_dnil h : val h dnil = [].
Proof. unfold val. cbn. now destruct h. Qed.
Lemma ritem_dnil h : ritem h dnil [].
Proof. split; [apply wfd_dnil | apply val_dnil]. Qed.

(* ---------- the buffer at the end of the heap ---------- *)

Definition taild (hl cap n : nat) : desc := {| d_buf := hl; d_off := 0; d_len := n; d_cap := cap |}.

Lemma nth_error_last (h : heap) c : nth_error (h ++ [c]) (length h) = Some c.
Proof. rewrite nth_error_app2 by lia. now rewrite Nat.sub_diag. Qed.

Lemma upd_nth_last {A} (h : list A) c f : upd_nth (h ++ [c]) (length h) f = h ++ [f c].
Proof. induction h as [|x h IH]; cbn; [reflexivity|]. now rewrite IH. Qed.

Lemma val_tail h c cap n : val (h ++ [c]) (taild (length h) cap n) = firstn n c.
Proof. unfold val. cbn. now rewrite nth_error_last. Qed.

Lemma wfd_tail h c cap n : (n <= cap)%nat -> (cap <= length c)%nat -> wfd (h ++ [c]) (taild (length h) cap n).
Proof. intros A B. split; cbn; [lia|]. rewrite nth_error_last. lia. Qed.

Lemma splice_length b off w : (off + length w <= length b)%nat -> length (splice b off w) = length b.
Proof.
  intros H. unfold splice. rewrite !app_length, firstn_length, skipn_length. lia.
Qed.

Lemma firstn_splice b off w : (off + length w <= length b)%nat ->
  firstn (off + length w) (splice b off w) = firstn off b ++ w.
Proof.
  intros H. unfold splice. rewrite app_assoc.
  rewrite firstn_app. rewrite app_length, firstn_length.
  replace (Nat.min off (length b)) with off by lia.
  rewrite Nat.sub_diag. cbn. rewrite app_nil_r.
  apply firstn_all2. rewrite app_length, firstn_length. lia.
Qed.

Definition alloc_ok (h : heap) (r : heap * desc) (v : item) : Prop :=
  prefix h (fst r) /\ wfd (fst r) (snd r) /\ val (fst r) (snd r) = v.

Lemma go_make_eq h n cap : go_make h n cap = (h ++ [repeat 0%N cap], taild (length h) cap n).
Proof. unfold go_make, halloc, taild. now rewrite repeat_length. Qed.

Lemma go_lit_ok h c : alloc_ok h (go_lit h c) c.
Proof.
  unfold go_lit, halloc, alloc_ok. cbn. split; [apply prefix_app|]. split.
  - apply (wfd_tail h c (length c) (length c)); lia.
  - change (val (h ++ [c]) (taild (length h) (length c) (length c)) = c).
    rewrite val_tail. apply firstn_all.
Qed.

Section G.
  Variable growcap : nat -> nat -> nat.

  (* append into the buffer at the end of the heap, within capacity: only that buffer changes *)
  Lemma go_append_tail h c cap n w : cap = length c -> (n + length w <= cap)%nat ->
    go_append growcap (h ++ [c]) (taild (length h) cap n) w
    = (h ++ [splice c n w], taild (length h) cap (n + length w)).
  Proof.
    intros -> H. unfold go_append. cbn [d_len d_cap d_buf d_off taild].
    destruct (Nat.leb_spec (n + length w) (length c)); [|lia].
    unfold hwrite. rewrite upd_nth_last. reflexivity.
  Qed.

  (* append that must reallocate *)
  Lemma go_append_realloc h s w : wfd h s -> (d_cap s < d_len s + length w)%nat ->
    alloc_ok h (go_append growcap h s w) (val h s ++ w).
  Proof.
    intros Hs H. unfold go_append.
    destruct (Nat.leb_spec (d_len s + length w) (d_cap s)); [lia|].
    set (c := Nat.max _ _).
    set (buf := val h s ++ w ++ repeat 0%N (c - (d_len s + length w))).
    assert (Hlen : length buf = c).
    { unfold buf. rewrite !app_length, repeat_length, (val_length _ _ Hs). unfold c. lia. }
    unfold halloc, alloc_ok. cbn [fst snd]. split; [apply prefix_app|].
    change {| d_buf := length h; d_off := 0; d_len := d_len s + length w; d_cap := length buf |}
      with (taild (length h) (length buf) (d_len s + length w)).
    split.
    - apply wfd_tail; [|lia]. rewrite Hlen. unfold c. lia.
    - rewrite val_tail. unfold buf. rewrite app_assoc.
      rewrite firstn_app. rewrite app_length, (val_length _ _ Hs), Nat.sub_diag. cbn.
      rewrite app_nil_r. apply firstn_all2. rewrite app_length, (val_length _ _ Hs). lia.
  Qed.

  Lemma firstn_repeat0 (n : nat) (v : list N) : firstn (length v) (splice (repeat 0%N (length v + n)) 0 v) = v.
  Proof.
    change (length v) with (0 + length v)%nat at 1.
    rewrite firstn_splice; [reflexivity|]. rewrite repeat_length. lia.
  Qed.

  (* make(0, n) followed by one append of n bytes: a new buffer holding exactly those bytes *)
  Lemma make_append_ok h n w : length w = n ->
    alloc_ok h (let '(h1, r) := go_make h 0 n in go_append growcap h1 r w) w.
  Proof.
    intros <-. rewrite go_make_eq.
    rewrite go_append_tail; [|now rewrite repeat_length|cbn; lia].
    unfold alloc_ok. cbn [fst snd]. split; [apply prefix_app|]. split.
    - apply wfd_tail; [cbn; lia|]. rewrite splice_length; rewrite repeat_length; cbn; lia.
    - rewrite val_tail. cbn [Nat.add].
      pose proof (firstn_repeat0 0 w) as E. rewrite Nat.add_0_r in E. exact E.
  Qed.

  Lemma go_invert_ok h t v : ritem h t v -> alloc_ok h (go_invert growcap h t) (map (fun x => N.lxor x 255) v).
  Proof.
    intros [Hw Hv]. unfold go_invert.
    pose proof (make_append_ok h (d_len t) (map (fun x => N.lxor x 255) v)) as H.
    rewrite go_make_eq in *.
    rewrite (val_mono h _ t (prefix_app _ _) Hw), Hv.
    apply H. rewrite map_length. rewrite <- Hv. now apply val_length.
  Qed.

  Lemma and_bytes_length a b : length (and_bytes a b) = Nat.min (length a) (length b).
  Proof. unfold and_bytes. now rewrite map_length, combine_length. Qed.
  Lemma orx_bytes_length f a b : length (orx_bytes f a b) = Nat.max (length a) (length b).
  Proof.
    revert b; induction a as [|x a IH]; intros b; cbn.
    - now rewrite map_length.
    - destruct b; cbn; rewrite IH; cbn; lia.
  Qed.

  Lemma go_and_ok h a b va vb : ritem h a va -> ritem h b vb ->
    alloc_ok h (go_and growcap h a b) (and_bytes va vb).
  Proof.
    intros [Ha Hva] [Hb Hvb]. unfold go_and.
    pose proof (make_append_ok h (Nat.min (d_len a) (d_len b)) (and_bytes va vb)) as H.
    rewrite go_make_eq in *.
    rewrite (val_mono h _ a (prefix_app _ _) Ha), (val_mono h _ b (prefix_app _ _) Hb), Hva, Hvb.
    apply H. rewrite and_bytes_length, <- Hva, <- Hvb, !val_length; auto.
  Qed.

  Lemma go_orx_ok f h a b va vb : ritem h a va -> ritem h b vb ->
    alloc_ok h (go_orx growcap f h a b) (orx_bytes f va vb).
  Proof.
    intros [Ha Hva] [Hb Hvb]. unfold go_orx.
    pose proof (make_append_ok h (Nat.max (d_len a) (d_len b)) (orx_bytes f va vb)) as H.
    rewrite go_make_eq in *.
    rewrite (val_mono h _ a (prefix_app _ _) Ha), (val_mono h _ b (prefix_app _ _) Hb), Hva, Hvb.
    apply H. rewrite orx_bytes_length, <- Hva, <- Hvb, !val_length; auto.
  Qed.

  (* make(0, la+lb); append a; append w  with |w| possibly larger than lb (CATPUSHDATA reallocates) *)
  Lemma cat2_ok h0 h (c : list N) (va w : list N) n :
    length c = n -> (length va <= n)%nat -> prefix h0 h ->
    alloc_ok h0 (go_append growcap (h ++ [splice c 0 va]) (taild (length h) n (length va)) w)
      (va ++ w).
  Proof.
    intros Hc Hle Hp.
    assert (Hs : length (splice c 0 va) = n) by (rewrite splice_length; cbn; lia).
    destruct (Nat.leb_spec (length va + length w) n) as [Hfit|Hbig].
    - rewrite go_append_tail; [|congruence|lia].
      unfold alloc_ok. cbn [fst snd]. split; [eapply prefix_trans; [exact Hp|apply prefix_app]|]. split.
      + apply wfd_tail; [lia|]. rewrite splice_length; lia.
      + rewrite val_tail. rewrite firstn_splice by lia. f_equal.
        change (length va) with (0 + length va)%nat. rewrite firstn_splice by (cbn; lia). reflexivity.
    - assert (Hw : wfd (h ++ [splice c 0 va]) (taild (length h) n (length va))).
      { apply wfd_tail; lia. }
      pose proof (go_append_realloc (h ++ [splice c 0 va]) _ w Hw) as H.
      cbn [taild d_cap d_len] in H. specialize (H ltac:(lia)).
      destruct H as [P [W V]]. split; [|split]; auto.
      + eapply prefix_trans; [exact Hp|]. eapply prefix_trans; [apply prefix_app|exact P].
      + rewrite V. f_equal. rewrite val_tail.
        change (length va) with (0 + length va)%nat. rewrite firstn_splice by (cbn; lia). reflexivity.
  Qed.

  Lemma go_cat_ok h a b va vb : ritem h a va -> ritem h b vb ->
    alloc_ok h (go_cat growcap h a b) (va ++ vb).
  Proof.
    intros [Ha Hva] [Hb Hvb]. unfold go_cat. rewrite go_make_eq.
    rewrite (val_mono h _ a (prefix_app _ _) Ha), Hva.
    assert (La : length va = d_len a) by (rewrite <- Hva; now apply val_length).
    assert (Lb : length vb = d_len b) by (rewrite <- Hvb; now apply val_length).
    rewrite go_append_tail; [|now rewrite repeat_length|cbn; lia].
    cbn [Nat.add].
    rewrite (val_mono h _ b) ; [|eexists; reflexivity|exact Hb]. rewrite Hvb.
    apply cat2_ok; [now rewrite repeat_length|lia|apply prefix_refl].
  Qed.

  Lemma go_pushdatabytes_ok h b vb : ritem h b vb ->
    alloc_ok h (go_pushdatabytes growcap h b) (push_data_bytes vb).
  Proof.
    intros [Hb Hvb].
    assert (Lb : length vb = d_len b) by (rewrite <- Hvb; now apply val_length).
    unfold go_pushdatabytes, push_data_bytes. rewrite Lb.
    destruct (Nat.eqb_spec (d_len b) 0) as [E|E].
    - rewrite E. cbn. apply go_lit_ok.
    - destruct (N.eqb_spec (N.of_nat (d_len b)) 0); [lia|].
      set (l := N.of_nat (d_len b)).
      assert (Hpre : forall pre, pre <> [] ->
        alloc_ok h (let '(h1, p) := go_lit h pre in go_append growcap h1 p (val h1 b)) (pre ++ vb)).
      { intros pre Hne. unfold go_lit, halloc. cbv beta iota zeta.
        change {| d_buf := length h; d_off := 0; d_len := length pre; d_cap := length pre |}
          with (taild (length h) (length pre) (length pre)).
        assert (Hw : wfd (h ++ [pre]) (taild (length h) (length pre) (length pre))) by (apply wfd_tail; lia).
        pose proof (go_append_realloc (h ++ [pre]) _ (val (h ++ [pre]) b) Hw) as H.
        rewrite (val_mono h _ b (prefix_app _ _) Hb), Hvb in *.
        cbn [taild d_cap d_len] in H. specialize (H ltac:(lia)).
        destruct H as [P [W V]]. split; [|split]; auto.
        - eapply prefix_trans; [apply prefix_app|exact P].
        - rewrite V. f_equal. rewrite val_tail. apply firstn_all. }
      unfold pushdata_prefix. fold l.
      destruct (l <=? 75)%N; [apply Hpre; discriminate|].
      destruct (l <? 256)%N; [apply (Hpre [_; _]); discriminate|].
      destruct (l <? 65536)%N; [apply (Hpre [_; _; _]); discriminate|].
      apply (Hpre [_; _; _; _; _]); discriminate.
  Qed.

  Lemma push_data_bytes_length v : (length v < length (push_data_bytes v))%nat.
  Proof.
    unfold push_data_bytes.
    destruct (N.eqb_spec (N.of_nat (length v)) 0) as [E|E]; [cbn; lia|].
    repeat match goal with |- context [if ?c then _ else _] => destruct c end; cbn [length]; lia.
  Qed.

  Lemma go_catpushdata_ok h a b va vb : ritem h a va -> ritem h b vb ->
    alloc_ok h (go_catpushdata growcap h a b) (va ++ push_data_bytes vb).
  Proof.
    intros [Ha Hva] Hb. unfold go_catpushdata. rewrite go_make_eq.
    rewrite (val_mono h _ a (prefix_app _ _) Ha), Hva.
    assert (La : length va = d_len a) by (rewrite <- Hva; now apply val_length).
    assert (Lb : length vb = d_len b) by (apply (ritem_length _ _ _ Hb)).
    rewrite go_append_tail; [|now rewrite repeat_length|cbn; lia].
    cbn [Nat.add].
    set (c := splice (repeat 0%N (d_len a + d_len b)) 0 va).
    assert (Hc : length c = (d_len a + d_len b)%nat).
    { unfold c. rewrite splice_length; rewrite repeat_length; cbn; lia. }
    set (r2 := taild (length h) (d_len a + d_len b) (length va)).
    assert (Hr2 : ritem (h ++ [c]) r2 va).
    { split; [apply wfd_tail; lia|]. unfold r2. rewrite val_tail. unfold c.
      change (length va) with (0 + length va)%nat.
      rewrite firstn_splice by (rewrite repeat_length; cbn; lia). reflexivity. }
    assert (P2 : prefix h (h ++ [c])) by apply prefix_app.
    pose proof (go_pushdatabytes_ok (h ++ [c]) b vb (ritem_mono _ _ _ _ P2 Hb)) as [P3 [W3 V3]].
    destruct (go_pushdatabytes growcap (h ++ [c]) b) as [h3 p]. cbn [fst snd] in *.
    rewrite V3.
    pose proof (ritem_mono _ _ _ _ P3 Hr2) as [W4 V4].
    pose proof (go_append_realloc h3 r2 (push_data_bytes vb) W4) as H.
    pose proof (push_data_bytes_length vb).
    cbn [r2 taild d_cap d_len] in H. specialize (H ltac:(lia)).
    rewrite V4 in H. destruct H as [P [W V]]. split; [|split]; auto.
    eapply prefix_trans; [exact P2|]. eapply prefix_trans; [exact P3|exact P].
  Qed.
End G.

(* make(n); copy: the new buffer holds the source bytes *)
Lemma go_clone_ok h s v : ritem h s v -> alloc_ok h (go_clone h s) v.
Proof.
  intros [Hs Hv]. unfold go_clone. rewrite go_make_eq.
  unfold go_copy, hwrite. cbn [taild d_buf d_off d_len].
  rewrite upd_nth_last. rewrite Nat.min_id.
  rewrite (val_mono h _ s (prefix_app _ _) Hs), Hv.
  assert (L : length v = d_len s) by (rewrite <- Hv; now apply val_length).
  rewrite <- L. rewrite firstn_all.
  unfold alloc_ok. cbn [fst snd]. split; [apply prefix_app|]. split.
  - apply wfd_tail; [lia|]. rewrite splice_length; rewrite repeat_length; cbn; lia.
  - rewrite val_tail. pose proof (firstn_repeat0 0 v) as E. rewrite Nat.add_0_r in E. exact E.
Qed.

Lemma go_reverse_ok h s v : ritem h s v -> alloc_ok h (go_reverse h s) (rev v).
Proof.
  intros [Hs Hv]. unfold go_reverse. rewrite go_make_eq.
  unfold go_copy, hwrite. cbn [taild d_buf d_off d_len].
  rewrite upd_nth_last. rewrite Nat.min_id.
  rewrite (val_mono h _ s (prefix_app _ _) Hs), Hv.
  assert (L : length v = d_len s) by (rewrite <- Hv; now apply val_length).
  rewrite <- L. rewrite firstn_all.
  change {| d_buf := length h; d_off := 0; d_len := length v; d_cap := length v |}
    with (taild (length h) (length v) (length v)).
  rewrite val_tail.
  pose proof (firstn_repeat0 0 v) as E. rewrite Nat.add_0_r in E. rewrite E.
  rewrite upd_nth_last.
  set (c := splice (repeat 0%N (length v)) 0 v).
  assert (Hc : length c = length v) by (unfold c; rewrite splice_length; rewrite repeat_length; cbn; lia).
  unfold alloc_ok. cbn [fst snd]. split; [apply prefix_app|]. split.
  - apply wfd_tail; [lia|]. rewrite splice_length; rewrite ?rev_length, ?Hc; lia.
  - rewrite val_tail. rewrite <- (rev_length v) at 1.
    change (length (rev v)) with (0 + length (rev v))%nat.
    rewrite firstn_splice by (rewrite rev_length, Hc; lia). reflexivity.
Qed.

Lemma go_bigint_bytes_ok h n : alloc_ok h (go_bigint_bytes h n) (le_encode n).
Proof.
  unfold go_bigint_bytes.
  pose proof (go_lit_ok h (rev (le_encode n))) as [P1 [W1 V1]].
  destruct (go_lit h (rev (le_encode n))) as [h1 be]. cbn [fst snd] in *.
  pose proof (go_reverse_ok h1 be _ (conj W1 V1)) as [P2 [W2 V2]].
  rewrite rev_involutive in V2.
  split; [eapply prefix_trans; eauto|]. split; auto.
Qed.

Lemma skipn_add {A} a b (l : list A) : skipn a (skipn b l) = skipn (b + a) l.
Proof.
  revert l; induction b as [|b IH]; intros l; cbn [Nat.add]; [reflexivity|].
  destruct l; cbn [skipn]; [now rewrite skipn_nil|apply IH].
Qed.

(* s[i:j] *)
Lemma go_slice_ok h s v i j : ritem h s v -> (i <= j)%nat -> (j <= d_len s)%nat ->
  ritem h (go_slice s i j) (firstn (j - i) (skipn i v)).
Proof.
  intros [[Hl Hb] Hv] Hij Hj. unfold ritem, wfd, val, go_slice in *. cbn [d_buf d_off d_len d_cap].
  destruct (nth_error h (d_buf s)) as [b|].
  - split; [split; lia|]. subst v.
    rewrite skipn_firstn_comm. rewrite skipn_add.
    rewrite firstn_firstn. f_equal. lia.
  - destruct Hb as [Hc Ho]. assert (j = 0 /\ i = 0)%nat as [-> ->] by lia.
    subst v. cbn. split; [split; lia|reflexivity].
Qed.

(* ---------- the historical defect, on this model (regression examples) ---------- *)

(* x[:1] of a 2-byte item with capacity 2, then CAT with <9> the old way: the other copy of x changes *)
Example inplace_cat_rewrites_sibling :
  let h := [[1; 2]%N; [9]%N] in
  let x := {| d_buf := 0; d_off := 0; d_len := 2; d_cap := 2 |} in
  let y := {| d_buf := 1; d_off := 0; d_len := 1; d_cap := 1 |} in
  let '(h', _) := go_cat_inplace (fun _ n => n) h (go_slice x 0 1) y in
  val h x = [1; 2]%N /\ val h' x = [1; 9]%N.
Proof. vm_compute. auto. Qed.
