(* C06 — VM values behave as immutable byte strings.  PROPERTY THEOREMS ONLY.

   [mstep]/[mrun]/[mverify] (C06/VMmem.v) are the memory-level semantics of
   protocol/vm: stack items, the program, the context's byte strings and the
   process-wide constant trueBytes are Go slice descriptors {buf; off; len;
   cap} over a heap; every opcode says which results alias their inputs and
   which allocate and write.  [step]/[run]/[verify] (Verif.VM) are the pure
   value semantics.  [proj] maps a memory state to the pure state it denotes.

   Quantification: every program, gas limit, fuel, crypto instantiation, heap
   and layout — [wf]/[wfcx] only ask that each descriptor's capacity window
   lies inside its buffer and that trueBytes holds [1]; descriptors may
   overlap, share one buffer, and have spare capacity covering other items
   (the layout ReadVarstr31 produces) — and every append growth policy
   [growcap]. *)
From Coq Require Import List ZArith NArith.
From Verif Require Import VM.
From C06 Require Import VMmem ProofsHeap ProofsSim ProofsOps ProofsRun Proofs.

(* c06_sim: every memory state reached by running (any fuel, i.e. after any number of steps, children
   included) denotes exactly the state the pure VM reaches from the denoted start state: same verdict,
   same error class, same gas, same stack VALUES.  Hence nothing observable depends on the layout. *)
Theorem c06_sim : forall growcap cr mcx cx fuel ms, wf mcx cx ms ->
  agree (mrun growcap cr mcx fuel ms) (run cr cx fuel (proj ms)).
Proof. exact run_agrees. Qed.
Print Assumptions c06_sim.

Theorem c06_sim_step : forall growcap cr mcx cx f ms, wf mcx cx ms ->
  agree (mstep growcap cr mcx (mchild growcap cr mcx f) ms) (step cr cx (pchild cr cx f) (proj ms)).
Proof. exact step_agrees. Qed.
Print Assumptions c06_sim_step.

(* vm.Verify on a layout = the pure Verify on the values the layout denotes *)
Theorem c06_sim_verify : forall growcap cr mcx cx fuel h statedata args gas,
  wfcx mcx cx h -> Forall (wfd h) statedata -> Forall (wfd h) args ->
  fst (mverify growcap cr mcx fuel h statedata args gas)
  = verify cr cx fuel (map (val h) statedata) (map (val h) args) gas.
Proof. exact verify_agrees. Qed.
Print Assumptions c06_sim_verify.

(* two layouts of the same values (independent exact-capacity buffers / sub-slices of one transaction
   buffer with spare capacity / anything else), even under different append growth policies, give the
   same (gasLeft, error) *)
Theorem c06_layout_independent : forall gc1 gc2 cr mcx1 mcx2 cx fuel h1 h2 sd1 sd2 ad1 ad2 gas,
  wfcx mcx1 cx h1 -> wfcx mcx2 cx h2 ->
  Forall (wfd h1) sd1 -> Forall (wfd h1) ad1 -> Forall (wfd h2) sd2 -> Forall (wfd h2) ad2 ->
  map (val h1) sd1 = map (val h2) sd2 -> map (val h1) ad1 = map (val h2) ad2 ->
  fst (mverify gc1 cr mcx1 fuel h1 sd1 ad1 gas) = fst (mverify gc2 cr mcx2 fuel h2 sd2 ad2 gas).
Proof. exact verify_layout_independent. Qed.
Print Assumptions c06_layout_independent.

(* c06_caller_unchanged: every buffer that existed before the run — the caller's arguments, state data,
   program, the other context strings, the global trueBytes, including bytes in spare capacity and in
   neighbouring regions — has the same contents afterwards, whatever the outcome *)
Theorem c06_caller_unchanged : forall growcap cr mcx cx fuel h statedata args gas,
  wfcx mcx cx h -> Forall (wfd h) statedata -> Forall (wfd h) args ->
  forall id, (id < length h)%nat ->
  nth_error (m_heap (snd (mverify growcap cr mcx fuel h statedata args gas))) id = nth_error h id.
Proof. exact verify_keeps_buffers. Qed.
Print Assumptions c06_caller_unchanged.

Theorem c06_caller_unchanged_run : forall growcap cr mcx cx fuel ms, wf mcx cx ms ->
  forall id, (id < length (m_heap ms))%nat ->
  nth_error (m_heap (final (mrun growcap cr mcx fuel ms))) id = nth_error (m_heap ms) id.
Proof. exact run_keeps_buffers. Qed.
Print Assumptions c06_caller_unchanged_run.

(* c06_no_cross_item: one instruction (with whatever child VM it runs) changes the value of NO
   well-formed descriptor of the pre-state — in particular of no item of either stack; together with
   c06_sim_step the new stack holds exactly the values the pure semantics computes, so the only items
   whose value differs are the ones the pure semantics replaces *)
Theorem c06_no_cross_item : forall growcap cr mcx cx f ms, wf mcx cx ms ->
  forall d, wfd (m_heap ms) d ->
  val (m_heap (final (mstep growcap cr mcx (mchild growcap cr mcx f) ms))) d = val (m_heap ms) d.
Proof. exact step_keeps_values. Qed.
Print Assumptions c06_no_cross_item.

Theorem c06_no_cross_item_stack : forall growcap cr mcx cx f ms, wf mcx cx ms ->
  forall d, In d (m_dstack ms ++ m_astack ms) ->
  val (m_heap (final (mstep growcap cr mcx (mchild growcap cr mcx f) ms))) d = val (m_heap ms) d.
Proof. exact step_keeps_stack_items. Qed.
Print Assumptions c06_no_cross_item_stack.
