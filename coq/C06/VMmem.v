(* C06 — memory-level model of the Bytom VM (protocol/vm).

   Same instructions as the pure value model coq/lib/VM.v, but a stack item
   is a Go slice descriptor {buf; off; len; cap} over a heap of byte buffers.
   The control skeleton (pop order, costs, error precedence) is the one of
   VM.v; what this file adds — written from the Go sources, opcode by opcode —
   is WHERE the bytes of every result live:

     aliasing (no allocation, the result shares a buffer with an input)
       pushDataStack(arg) / pushAltStack(state) in Verify, DUP OVER PICK 2DUP
       3DUP 2OVER IFDUP TUCK (same descriptor pushed again), LEFT RIGHT SUBSTR
       (Go s[i:j]: same buffer, capacity reaches to the end of the parent's
       capacity), TOALTSTACK / FROMALTSTACK and all reorderings (descriptors
       move), pushBool(true) (descriptor of the process-wide trueBytes),
       PROGRAM ENTRYID ASSET OUTPUTID TXSIGHASH (the context's descriptors),
       CHECKPREDICATE (descriptors copied into the child; the predicate item
       becomes the child's program), inst.Data of PUSHDATA/OP_DATA/JUMP (a
       sub-slice of the running program);

     allocation followed by writes into the new buffer only
       opPushdata (make + copy), ParseOp's literal for OP_1..OP_16, INVERT AND
       OR XOR (make(0,n) + appends), CAT / CATPUSHDATA (make(0,lens) +
       append + append, PushDataBytes: literal + append), hashes, BigIntBytes
       and AsBigInt (reverse: make + copy + in-place swaps), BoolBytes(false).

   Heap effects are expressed with two primitives, [halloc] (new buffer) and
   [hwrite] (overwrite cells of an existing buffer), through Go's slice
   operations make / append (in place iff len+k <= cap, else reallocate) /
   copy / s[i:j].  No proofs in this file. *)
From Coq Require Import List ZArith NArith Bool Arith.
From Verif Require Import Cmp VM.
Import ListNotations.
Open Scope Z_scope.

(* ---------- heap and slice descriptors ---------- *)

Definition heap := list (list N).          (* buffer id = position *)
Record desc := { d_buf : nat; d_off : nat; d_len : nat; d_cap : nat }.
Definition dnil : desc := {| d_buf := 0; d_off := 0; d_len := 0; d_cap := 0 |}.

(* the bytes a descriptor denotes *)
Definition val (h : heap) (d : desc) : item :=
  match nth_error h (d_buf d) with
  | Some b => firstn (d_len d) (skipn (d_off d) b)
  | None => []
  end.

(* new buffer with contents c; the descriptor covers its first [len] cells, capacity = all of it *)
Definition halloc (h : heap) (c : list N) (len : nat) : heap * desc :=
  (h ++ [c], {| d_buf := length h; d_off := 0; d_len := len; d_cap := length c |}).

Fixpoint upd_nth {A} (l : list A) (i : nat) (f : A -> A) : list A :=
  match l, i with
  | [], _ => []
  | x :: r, O => f x :: r
  | x :: r, S k => x :: upd_nth r k f
  end.

(* overwrite cells off .. off+|w|-1 of b (callers guarantee off+|w| <= |b|) *)
Definition splice (b : list N) (off : nat) (w : list N) : list N :=
  firstn off b ++ w ++ skipn (off + length w) b.
Definition hwrite (h : heap) (buf off : nat) (w : list N) : heap :=
  upd_nth h buf (fun b => splice b off w).

Definition dlen (d : desc) : Z := Z.of_nat (d_len d).
Definition ditem_cost (d : desc) : Z := 8 + dlen d.

(* Go: s[i:j]  (i <= j <= cap s) *)
Definition go_slice (s : desc) (i j : nat) : desc :=
  {| d_buf := d_buf s; d_off := d_off s + i; d_len := j - i; d_cap := d_cap s - i |}.

Section Go.
  (* capacity chosen by the runtime when append must reallocate (old cap, needed) —
     any function: the result is at least the needed length *)
  Variable growcap : nat -> nat -> nat.

  (* make([]byte, len, cap) *)
  Definition go_make (h : heap) (len cap : nat) : heap * desc := halloc h (repeat 0%N cap) len.

  (* append(s, w...) *)
  Definition go_append (h : heap) (s : desc) (w : list N) : heap * desc :=
    let need := (d_len s + length w)%nat in
    if (need <=? d_cap s)%nat then
      (hwrite h (d_buf s) (d_off s + d_len s) w,
       {| d_buf := d_buf s; d_off := d_off s; d_len := need; d_cap := d_cap s |})
    else
      let c := Nat.max need (growcap (d_cap s) need) in
      halloc h (val h s ++ w ++ repeat 0%N (c - need)) need.

  (* copy(dst, src) *)
  Definition go_copy (h : heap) (dst src : desc) : heap :=
    hwrite h (d_buf dst) (d_off dst) (firstn (Nat.min (d_len dst) (d_len src)) (val h src)).

  (* []byte{...} literal *)
  Definition go_lit (h : heap) (c : list N) : heap * desc := halloc h c (length c).

  (* opPushdata:  d := make([]byte, len(vm.data)); copy(d, vm.data) *)
  Definition go_clone (h : heap) (src : desc) : heap * desc :=
    let '(h1, d) := go_make h (d_len src) (d_len src) in
    (go_copy h1 d src, d).

  (* types.go reverse:  r := make([]byte, len(b)); copy(r, b); for i,j := 0,len-1; i<j; … { r[i], r[j] = r[j], r[i] }
     (the swap loop is summarised as one write of the reversed contents into r's own cells) *)
  Definition go_reverse (h : heap) (b : desc) : heap * desc :=
    let '(h1, r) := go_make h (d_len b) (d_len b) in
    let h2 := go_copy h1 r b in
    (hwrite h2 (d_buf r) (d_off r) (rev (val h2 r)), r).

  (* BigIntBytes(n) = reverse(n.Bytes()):  n.Bytes() is a fresh minimal big-endian buffer *)
  Definition go_bigint_bytes (h : heap) (n : N) : heap * desc :=
    let '(h1, be) := go_lit h (rev (le_encode n)) in
    go_reverse h1 be.

  (* opInvert:  newTop := make([]byte, 0, len(top)); for _, b := range top { newTop = append(newTop, ^b) }
     (appends within capacity: summarised as one in-place append of all bytes; same for AND/OR/XOR) *)
  Definition go_invert (h : heap) (t : desc) : heap * desc :=
    let '(h1, r) := go_make h 0 (d_len t) in
    go_append h1 r (map (fun x => N.lxor x 255) (val h1 t)).
  Definition go_and (h : heap) (a b : desc) : heap * desc :=
    let '(h1, r) := go_make h 0 (Nat.min (d_len a) (d_len b)) in
    go_append h1 r (and_bytes (val h1 a) (val h1 b)).
  Definition go_orx (f : N -> N -> N) (h : heap) (a b : desc) : heap * desc :=
    let '(h1, r) := go_make h 0 (Nat.max (d_len a) (d_len b)) in
    go_append h1 r (orx_bytes f (val h1 a) (val h1 b)).

  (* opCat (after the fix):  res := make([]byte, 0, lens); res = append(res, a...); append(res, b...) *)
  Definition go_cat (h : heap) (a b : desc) : heap * desc :=
    let '(h1, r) := go_make h 0 (d_len a + d_len b) in
    let '(h2, r2) := go_append h1 r (val h1 a) in
    go_append h2 r2 (val h2 b).

  (* the historical opCat:  append(a, b...)  — kept for the regression examples only *)
  Definition go_cat_inplace (h : heap) (a b : desc) : heap * desc := go_append h a (val h b).

  (* PushDataBytes(in): []byte{OP_0}, or append([]byte{prefix…}, in...) *)
  Definition pushdata_prefix (l : N) : list N :=
    if (l <=? 75)%N then [(OP_DATA_1 + l - 1)%N]
    else if (l <? 256)%N then [OP_PUSHDATA1; l]
    else if (l <? 65536)%N then [OP_PUSHDATA2; (l mod 256)%N; (l / 256)%N]
    else [OP_PUSHDATA4; (l mod 256)%N; ((l / 256) mod 256)%N; ((l / 65536) mod 256)%N; ((l / 16777216) mod 256)%N].
  Definition go_pushdatabytes (h : heap) (d : desc) : heap * desc :=
    if (d_len d =? 0)%nat then go_lit h [0%N]
    else let '(h1, p) := go_lit h (pushdata_prefix (N.of_nat (d_len d))) in
         go_append h1 p (val h1 d).

  (* opCatpushdata:  res := make(0, lens); res = append(res, a...); append(res, PushDataBytes(b)...) *)
  Definition go_catpushdata (h : heap) (a b : desc) : heap * desc :=
    let '(h1, r) := go_make h 0 (d_len a + d_len b) in
    let '(h2, r2) := go_append h1 r (val h1 a) in
    let '(h3, p) := go_pushdatabytes h2 b in
    go_append h3 r2 (val h3 p).

  (* h.Sum(nil), crypto.Ripemd160: fresh result buffer *)
  Definition go_fresh (h : heap) (c : list N) : heap * desc := go_lit h c.
End Go.

(* ---------- context: descriptors instead of byte strings ---------- *)

Record mcontext := {
  mc_vmversion : N;
  mc_code : desc;
  mc_entryid : desc;
  mc_txversion : option N;
  mc_blockheight : option N;
  mc_assetid : option desc;
  mc_amount : option N;
  mc_destpos : option N;
  mc_spentoutputid : option desc;
  mc_txsighash : option desc;      (* the buffer the TxSigHash callback returns *)
  mc_checkoutput : option (N -> N -> item -> N -> item -> list item -> bool -> vmerr + bool);
  mc_true : desc                   (* types.go: var trueBytes = []byte{1} *)
}.

Definition proj_cx (h : heap) (c : mcontext) : context :=
  {| cx_vmversion := mc_vmversion c; cx_code := val h (mc_code c); cx_entryid := val h (mc_entryid c);
     cx_txversion := mc_txversion c; cx_blockheight := mc_blockheight c;
     cx_assetid := option_map (val h) (mc_assetid c); cx_amount := mc_amount c; cx_destpos := mc_destpos c;
     cx_spentoutputid := option_map (val h) (mc_spentoutputid c);
     cx_txsighash := option_map (val h) (mc_txsighash c);
     cx_checkoutput := mc_checkoutput c |}.

(* ---------- machine state ---------- *)

Record mst := {
  m_prog : desc; m_pc : N; m_nextpc : N; m_runlimit : Z; m_deferred : Z; m_expres : bool;
  m_vdata : desc; m_dstack : list desc; m_astack : list desc;
  m_heap : heap
}.

Definition mset_runlimit s v := {| m_prog := m_prog s; m_pc := m_pc s; m_nextpc := m_nextpc s; m_runlimit := v;
  m_deferred := m_deferred s; m_expres := m_expres s; m_vdata := m_vdata s; m_dstack := m_dstack s;
  m_astack := m_astack s; m_heap := m_heap s |}.
Definition mset_deferred s v := {| m_prog := m_prog s; m_pc := m_pc s; m_nextpc := m_nextpc s; m_runlimit := m_runlimit s;
  m_deferred := v; m_expres := m_expres s; m_vdata := m_vdata s; m_dstack := m_dstack s;
  m_astack := m_astack s; m_heap := m_heap s |}.
Definition mset_dstack s v := {| m_prog := m_prog s; m_pc := m_pc s; m_nextpc := m_nextpc s; m_runlimit := m_runlimit s;
  m_deferred := m_deferred s; m_expres := m_expres s; m_vdata := m_vdata s; m_dstack := v;
  m_astack := m_astack s; m_heap := m_heap s |}.
Definition mset_astack s v := {| m_prog := m_prog s; m_pc := m_pc s; m_nextpc := m_nextpc s; m_runlimit := m_runlimit s;
  m_deferred := m_deferred s; m_expres := m_expres s; m_vdata := m_vdata s; m_dstack := m_dstack s;
  m_astack := v; m_heap := m_heap s |}.
Definition mset_nextpc s v := {| m_prog := m_prog s; m_pc := m_pc s; m_nextpc := v; m_runlimit := m_runlimit s;
  m_deferred := m_deferred s; m_expres := m_expres s; m_vdata := m_vdata s; m_dstack := m_dstack s;
  m_astack := m_astack s; m_heap := m_heap s |}.
Definition mset_pc s v := {| m_prog := m_prog s; m_pc := v; m_nextpc := m_nextpc s; m_runlimit := m_runlimit s;
  m_deferred := m_deferred s; m_expres := m_expres s; m_vdata := m_vdata s; m_dstack := m_dstack s;
  m_astack := m_astack s; m_heap := m_heap s |}.
Definition mset_vdata s v := {| m_prog := m_prog s; m_pc := m_pc s; m_nextpc := m_nextpc s; m_runlimit := m_runlimit s;
  m_deferred := m_deferred s; m_expres := m_expres s; m_vdata := v; m_dstack := m_dstack s;
  m_astack := m_astack s; m_heap := m_heap s |}.
Definition mset_heap s v := {| m_prog := m_prog s; m_pc := m_pc s; m_nextpc := m_nextpc s; m_runlimit := m_runlimit s;
  m_deferred := m_deferred s; m_expres := m_expres s; m_vdata := m_vdata s; m_dstack := m_dstack s;
  m_astack := m_astack s; m_heap := v |}.

(* the pure state a memory state denotes *)
Definition projH (h : heap) (s : mst) : vmst :=
  {| prog := val h (m_prog s); pc := m_pc s; nextpc := m_nextpc s; runlimit := m_runlimit s;
     deferred := m_deferred s; expres := m_expres s; vdata := val h (m_vdata s);
     dstack := map (val h) (m_dstack s); astack := map (val h) (m_astack s) |}.
Definition proj (s : mst) : vmst := projH (m_heap s) s.

Inductive mres (A : Type) :=
| MOk (a : A) (s : mst)
| MErr (e : vmerr) (s : mst).
Arguments MOk {A} a s.
Arguments MErr {A} e s.

Definition MM (A : Type) := mst -> mres A.
Definition mret {A} (a : A) : MM A := fun s => MOk a s.
Definition mfail {A} (e : vmerr) : MM A := fun s => MErr e s.
Definition mbind {A B} (m : MM A) (f : A -> MM B) : MM B :=
  fun s => match m s with
           | MOk a s' => f a s'
           | MErr e s' => MErr e s'
           end.
Notation "x <~ m ;; f" := (mbind m (fun x => f)) (at level 61, m at next level, right associativity).
Notation "m ;;~ f" := (mbind m (fun _ => f)) (at level 61, right associativity).

Definition mlift {A} (x : vmerr + A) : MM A :=
  match x with inl e => mfail e | inr a => mret a end.
Definition mget : MM mst := fun s => MOk s s.

(* reading the bytes of an item (AsBool, bytes.Equal, hashing, …) *)
Definition mread (d : desc) : MM item := fun s => MOk (val (m_heap s) d) s.
Definition mreadl (l : list desc) : MM (list item) := fun s => MOk (map (val (m_heap s)) l) s.
(* running an allocating Go fragment on the heap *)
Definition malloc (f : heap -> heap * desc) : MM desc :=
  fun s => let '(h', d) := f (m_heap s) in MOk d (mset_heap s h').

Definition mapply_cost (n : Z) : MM unit :=
  fun s => if m_runlimit s <? n then MErr ERunLimitExceeded (mset_runlimit s 0)
           else MOk tt (mset_runlimit s (m_runlimit s - n)).
Definition mdefer_cost (n : Z) : MM unit :=
  fun s => MOk tt (mset_deferred s (m_deferred s + n)).

(* pushDataStack(data, deferred): the descriptor itself goes on the stack *)
Definition mpush (d : desc) (deferredp : bool) : MM unit :=
  (if deferredp then mdefer_cost (ditem_cost d) else mapply_cost (ditem_cost d)) ;;~
  (fun s => MOk tt (mset_dstack s (d :: m_dstack s))).
Definition mpush_alt (d : desc) (deferredp : bool) : MM unit :=
  (if deferredp then mdefer_cost (ditem_cost d) else mapply_cost (ditem_cost d)) ;;~
  (fun s => MOk tt (mset_astack s (d :: m_astack s))).

Definition mpop (deferredp : bool) : MM desc :=
  fun s => match m_dstack s with
           | [] => MErr EDataStackUnderflow s
           | x :: r =>
               let s1 := mset_dstack s r in
               if deferredp then MOk x (mset_deferred s1 (m_deferred s1 - ditem_cost x))
               else MOk x (mset_runlimit s1 (m_runlimit s1 + ditem_cost x))
           end.
Definition mtop : MM desc :=
  fun s => match m_dstack s with [] => MErr EDataStackUnderflow s | x :: _ => MOk x s end.

Definition mstack_cost (st : list desc) : Z :=
  fold_right (fun d acc => ditem_cost d + acc) 0 st.

Fixpoint mpopn (n : nat) (d : bool) : MM (list desc) :=
  match n with
  | O => mret []
  | S k => x <~ mpop d ;; r <~ mpopn k d ;; mret (x :: r)
  end.

Section WithParams.
  Variable growcap : nat -> nat -> nat.
  Variable cr : crypto.
  Variable mcx : mcontext.

  (* pushBool: BoolBytes(true) is the global trueBytes, BoolBytes(false) a fresh []byte{} *)
  Definition mpush_bool (b : bool) (d : bool) : MM unit :=
    if b then mpush (mc_true mcx) d
    else r <~ malloc (fun h => go_lit h []) ;; mpush r d.
  Definition mpush_bigint (n : N) (d : bool) : MM unit :=
    r <~ malloc (fun h => go_bigint_bytes h n) ;; mpush r d.

  (* AsBigInt: length check, then reverse(b) (a temporary) is decoded *)
  Definition mas_bigint (b : desc) : MM N :=
    if (32 <? d_len b)%nat then mfail EBadValue
    else t <~ malloc (fun h => go_reverse h b) ;; tv <~ mread t ;;
         let n := le_decode (rev tv) in
         if (two255 <=? n)%N then mfail ERange else mret n.
  Definition mpop_bigint (d : bool) : MM N := b <~ mpop d ;; mas_bigint b.

  Definition mnum2 (c : Z) (f : N -> N -> vmerr + N) : MM unit :=
    mapply_cost c ;;~ y <~ mpop_bigint true ;; x <~ mpop_bigint true ;;
    r <~ mlift (f x y) ;; mpush_bigint r true.
  Definition mnum1 (c : Z) (f : N -> vmerr + N) : MM unit :=
    mapply_cost c ;;~ n <~ mpop_bigint true ;; r <~ mlift (f n) ;; mpush_bigint r true.
  Definition mcmp2 (f : N -> N -> bool) : MM unit :=
    mapply_cost 2 ;;~ y <~ mpop_bigint true ;; x <~ mpop_bigint true ;; mpush_bool (f x y) true.

  (* nDup: n times pushDataStack(vm.dataStack[len-n]) — the same descriptor again *)
  Fixpoint mn_dup_go (n k : nat) {struct k} : MM unit :=
    match k with
    | O => mret tt
    | S k' => s' <~ mget ;; mpush (nth (n - 1) (m_dstack s') dnil) false ;;~ mn_dup_go n k'
    end.
  Definition mn_dup (n : nat) : MM unit :=
    mapply_cost (Z.of_nat n) ;;~
    s <~ mget ;;
    if (length (m_dstack s) <? n)%nat then mfail EDataStackUnderflow
    else mn_dup_go n n.

  Definition mrot_n (n : Z) : MM unit :=
    if n <? 1 then mfail EBadValue
    else s <~ mget ;;
      let st := m_dstack s in
      if Z.of_nat (length st) <? n then mfail EDataStackUnderflow
      else
        let k := Z.to_nat (n - 1) in
        fun s' => MOk tt (mset_dstack s' (nth k st dnil :: firstn k st ++ skipn (S k) st)).

  Definition mdo_equal : MM bool :=
    mapply_cost 1 ;;~ b <~ mpop true ;; a <~ mpop true ;;
    mapply_cost (Z.min (dlen a) (dlen b)) ;;~
    va <~ mread a ;; vb <~ mread b ;; mret (bytes_eqb va vb).

  Definition mdo_hash (hf : item -> item) : MM unit :=
    x <~ mpop false ;; mapply_cost (Z.max (dlen x) 64) ;;~
    r <~ malloc (fun h => go_fresh h (hf (val h x))) ;; mpush r false.

  Definition mset_nextpc_op (v : N) : MM unit := fun s => MOk tt (mset_nextpc s v).

  Definition mexec_op (mrun_child : mst -> bool * mst) (op : N) : MM unit :=
    match op with
    | 0%N => mapply_cost 1 ;;~ mpush_bool false false
    | 76%N | 77%N | 78%N =>
        mapply_cost 1 ;;~ s <~ mget ;; d <~ malloc (fun h => go_clone h (m_vdata s)) ;; mpush d false
    | 97%N => mapply_cost 1
    | 99%N => mapply_cost 1 ;;~ s <~ mget ;; v <~ mread (m_vdata s) ;; mset_nextpc_op (jump_target v)
    | 100%N => mapply_cost 1 ;;~ p <~ mpop true ;; pv <~ mread p ;;
             if as_bool pv then s <~ mget ;; v <~ mread (m_vdata s) ;; mset_nextpc_op (jump_target v)
             else mret tt
    | 105%N => mapply_cost 1 ;;~ p <~ mpop true ;; pv <~ mread p ;;
             if as_bool pv then mret tt else mfail EVerifyFailed
    | 106%N => mapply_cost 1 ;;~ mfail EReturn
    | 192%N => (* CHECKPREDICATE *)
        mapply_cost 256 ;;~ mdefer_cost (-256 + 64) ;;~
        lb <~ mpop_bigint true ;; limit <~ mlift (bigint_int64 lb) ;;
        predicate <~ mpop true ;;
        nb <~ mpop_bigint true ;; n <~ mlift (bigint_int64 nb) ;;
        s <~ mget ;;
        let l := Z.of_nat (length (m_dstack s)) in
        let n := if n =? 0 then l else n in
        if l <? n then mfail EDataStackUnderflow
        else
          let limit := if limit =? 0 then m_runlimit s else limit in
          mapply_cost limit ;;~
          (* childVM{program: predicate, dataStack: append([][]byte{}, vm.dataStack[l-n:]...)} runs on the
             same heap; vm.dataStack = vm.dataStack[:l-n] *)
          rc <~ (fun s1 =>
             let k := Z.to_nat n in
             let child := {| m_prog := predicate; m_pc := 0; m_nextpc := 0; m_runlimit := limit; m_deferred := 0;
                             m_expres := false; m_vdata := dnil; m_dstack := firstn k (m_dstack s1);
                             m_astack := []; m_heap := m_heap s1 |} in
             let '(ok, cs) := mrun_child child in
             MOk (ok, cs) (mset_heap (mset_dstack s1 (skipn k (m_dstack s1))) (m_heap cs))) ;;
          mdefer_cost (- m_runlimit (snd rc)) ;;~ mdefer_cost (- mstack_cost (m_dstack (snd rc))) ;;~
          mdefer_cost (- mstack_cost (m_astack (snd rc))) ;;~
          tv <~ mread (match m_dstack (snd rc) with [] => dnil | t :: _ => t end) ;;
          mpush_bool (fst rc && negb (match m_dstack (snd rc) with [] => true | _ :: _ => negb (as_bool tv) end)) true
    | 107%N => mapply_cost 2 ;;~ s <~ mget ;;
             match m_dstack s with
             | [] => mfail EDataStackUnderflow
             | x :: r => fun s' => MOk tt (mset_astack (mset_dstack s' r) (x :: m_astack s'))
             end
    | 108%N => mapply_cost 2 ;;~ s <~ mget ;;
             match m_astack s with
             | [] => mfail EAltStackUnderflow
             | x :: r => fun s' => MOk tt (mset_astack (mset_dstack s' (x :: m_dstack s')) r)
             end
    | 109%N => mapply_cost 2 ;;~ mpop false ;;~ mpop false ;;~ mret tt
    | 110%N => mn_dup 2
    | 111%N => mn_dup 3
    | 112%N => mapply_cost 2 ;;~ s <~ mget ;;
             if (length (m_dstack s) <? 4)%nat then mfail EDataStackUnderflow
             else (s1 <~ mget ;; mpush (nth 3 (m_dstack s1) dnil) false) ;;~
                  (s2 <~ mget ;; mpush (nth 3 (m_dstack s2) dnil) false)
    | 113%N => mapply_cost 2 ;;~ s <~ mget ;;
             match m_dstack s with
             | a :: b :: c :: d :: e :: f :: r => fun s' => MOk tt (mset_dstack s' (e :: f :: a :: b :: c :: d :: r))
             | _ => mfail EDataStackUnderflow
             end
    | 114%N => mapply_cost 2 ;;~ s <~ mget ;;
             match m_dstack s with
             | a :: b :: c :: d :: r => fun s' => MOk tt (mset_dstack s' (c :: d :: a :: b :: r))
             | _ => mfail EDataStackUnderflow
             end
    | 115%N => mapply_cost 1 ;;~ t <~ mtop ;; tv <~ mread t ;; if as_bool tv then mpush t false else mret tt
    | 116%N => mapply_cost 1 ;;~ s <~ mget ;; mpush_bigint (N.of_nat (length (m_dstack s))) false
    | 117%N => mapply_cost 1 ;;~ mpop false ;;~ mret tt
    | 118%N => mn_dup 1
    | 119%N => mapply_cost 1 ;;~ t <~ mtop ;;
             (fun s => MOk tt (mset_dstack s (tl (m_dstack s)))) ;;~
             mpop false ;;~ (fun s => MOk tt (mset_dstack s (t :: m_dstack s)))
    | 120%N => mapply_cost 1 ;;~ s <~ mget ;;
             if (length (m_dstack s) <? 2)%nat then mfail EDataStackUnderflow
             else mpush (nth 1 (m_dstack s) dnil) false
    | 121%N => mapply_cost 2 ;;~ n <~ mpop_bigint false ;;
             let a := low64_signed n in
             if a =? 2 ^ 63 - 1 then mfail EBadValue
             else
               let off := a + 1 in
               s <~ mget ;;
               let sz := Z.of_nat (length (m_dstack s)) in
               if sz <? off then mfail EDataStackUnderflow
               else if off <=? 0 then mfail EUnexpected
               else mpush (nth (Z.to_nat (off - 1)) (m_dstack s) dnil) false
    | 122%N => mapply_cost 2 ;;~ n <~ mpop_bigint false ;;
             let a := low64_signed n in
             if a =? 2 ^ 63 - 1 then mfail EBadValue else mrot_n (a + 1)
    | 123%N => mapply_cost 2 ;;~ mrot_n 3
    | 124%N => mapply_cost 1 ;;~ s <~ mget ;;
             match m_dstack s with
             | a :: b :: r => fun s' => MOk tt (mset_dstack s' (b :: a :: r))
             | _ => mfail EDataStackUnderflow
             end
    | 125%N => mapply_cost 1 ;;~ s <~ mget ;;
             match m_dstack s with
             | a :: b :: r =>
                 (fun s' => MOk tt (mset_dstack s' r)) ;;~ mpush a false ;;~
                 (fun s' => MOk tt (mset_dstack s' (a :: b :: m_dstack s')))
             | _ => mfail EDataStackUnderflow
             end
    | 126%N => (* CAT: fresh buffer *)
        mapply_cost 4 ;;~ b <~ mpop true ;; a <~ mpop true ;;
        let lens := dlen a + dlen b in
        mapply_cost lens ;;~ mdefer_cost (- lens) ;;~
        r <~ malloc (fun h => go_cat growcap h a b) ;; mpush r true
    | 127%N => (* SUBSTR: str[offset:end] *)
        mapply_cost 4 ;;~ sb <~ mpop_bigint true ;; size <~ mlift (bigint_int64 sb) ;;
        mapply_cost size ;;~ mdefer_cost (- size) ;;~
        ob <~ mpop_bigint true ;; offset <~ mlift (bigint_int64 ob) ;;
        str <~ mpop true ;;
        let e := offset + size in
        if (2 ^ 63 - 1 <? e) || (dlen str <? e) then mfail EBadValue
        else mpush (go_slice str (Z.to_nat offset) (Z.to_nat e)) true
    | 128%N => (* LEFT: str[:size] *)
        mapply_cost 4 ;;~ sb <~ mpop_bigint true ;; size <~ mlift (bigint_int64 sb) ;;
        mapply_cost size ;;~ mdefer_cost (- size) ;;~
        str <~ mpop true ;;
        if dlen str <? size then mfail EBadValue else mpush (go_slice str 0 (Z.to_nat size)) true
    | 129%N => (* RIGHT: str[lstr-size:] *)
        mapply_cost 4 ;;~ sb <~ mpop_bigint true ;; size <~ mlift (bigint_int64 sb) ;;
        mapply_cost size ;;~ mdefer_cost (- size) ;;~
        str <~ mpop true ;;
        if dlen str <? size then mfail EBadValue
        else mpush (go_slice str (Z.to_nat (dlen str - size)) (d_len str)) true
    | 130%N => mapply_cost 1 ;;~ t <~ mtop ;; mpush_bigint (N.of_nat (d_len t)) true
    | 137%N => (* CATPUSHDATA: fresh buffer *)
        mapply_cost 4 ;;~ b <~ mpop true ;; a <~ mpop true ;;
        let lens := dlen a + dlen b in
        mapply_cost lens ;;~ mdefer_cost (- lens) ;;~
        r <~ malloc (fun h => go_catpushdata growcap h a b) ;; mpush r true
    | 131%N => (* INVERT: vm.dataStack[len-1] = newTop *)
        mapply_cost 1 ;;~ t <~ mtop ;; mapply_cost (dlen t) ;;~
        r <~ malloc (fun h => go_invert growcap h t) ;;
        (fun s => MOk tt (mset_dstack s (r :: tl (m_dstack s))))
    | 132%N => mapply_cost 1 ;;~ b <~ mpop true ;; a <~ mpop true ;;
             mapply_cost (Z.min (dlen a) (dlen b)) ;;~
             r <~ malloc (fun h => go_and growcap h a b) ;; mpush r true
    | 133%N => mapply_cost 1 ;;~ b <~ mpop true ;; a <~ mpop true ;;
             mapply_cost (Z.max (dlen a) (dlen b)) ;;~
             r <~ malloc (fun h => go_orx growcap N.lor h a b) ;; mpush r true
    | 134%N => mapply_cost 1 ;;~ b <~ mpop true ;; a <~ mpop true ;;
             mapply_cost (Z.max (dlen a) (dlen b)) ;;~
             r <~ malloc (fun h => go_orx growcap N.lxor h a b) ;; mpush r true
    | 135%N => r <~ mdo_equal ;; mpush_bool r true
    | 136%N => r <~ mdo_equal ;; if r then mret tt else mfail EVerifyFailed
    | 139%N => mnum1 2 (fun n => range_chk (n + 1))
    | 140%N => mnum1 2 (fun n => if (n =? 0)%N then inl ERange else inr (n - 1)%N)
    | 141%N => mnum1 2 (fun n => range_chk (2 * n))
    | 142%N => mnum1 2 (fun n => inr (n / 2)%N)
    | 145%N => mapply_cost 2 ;;~ n <~ mpop_bigint true ;; mpush_bool (n =? 0)%N true
    | 146%N => mapply_cost 2 ;;~ n <~ mpop_bigint true ;; mpush_bool (negb (n =? 0)%N) true
    | 147%N => mnum2 2 (fun x y => range_chk (x + y))
    | 148%N => mnum2 2 (fun x y => if (x <? y)%N then inl ERange else inr (x - y)%N)
    | 149%N => mnum2 8 (fun x y => if (two256 <=? x * y)%N then inl ERange else range_chk (x * y))
    | 150%N => mnum2 8 (fun x y => if (y =? 0)%N then inl EDivZero else inr (x / y)%N)
    | 151%N => mnum2 8 (fun x y => if (y =? 0)%N then inl EDivZero else inr (x mod y)%N)
    | 152%N => mnum2 8 (fun x y => if (y <? 256)%N then range_chk ((x * 2 ^ y) mod two256) else inr 0%N)
    | 153%N => mnum2 8 (fun x y => if (y <? 256)%N then inr (x / 2 ^ y)%N else inr 0%N)
    | 154%N => mapply_cost 2 ;;~ b <~ mpop true ;; a <~ mpop true ;; va <~ mread a ;; vb <~ mread b ;;
             mpush_bool (as_bool va && as_bool vb) true
    | 155%N => mapply_cost 2 ;;~ b <~ mpop true ;; a <~ mpop true ;; va <~ mread a ;; vb <~ mread b ;;
             mpush_bool (as_bool va || as_bool vb) true
    | 156%N => mcmp2 N.eqb
    | 157%N => mapply_cost 2 ;;~ y <~ mpop_bigint true ;; x <~ mpop_bigint true ;;
             if (x =? y)%N then mret tt else mfail EVerifyFailed
    | 158%N => mcmp2 (fun x y => negb (x =? y)%N)
    | 159%N => mcmp2 N.ltb
    | 160%N => mcmp2 (fun x y => (y <? x)%N)
    | 161%N => mcmp2 N.leb
    | 162%N => mcmp2 (fun x y => (y <=? x)%N)
    | 163%N => mnum2 2 (fun x y => inr (if (y <? x)%N then y else x))
    | 164%N => mnum2 2 (fun x y => inr (if (x <? y)%N then y else x))
    | 165%N => mapply_cost 4 ;;~ mx <~ mpop_bigint true ;; mn <~ mpop_bigint true ;; x <~ mpop_bigint true ;;
             mpush_bool ((mn <=? x)%N && (x <? mx)%N) true
    | 168%N => mdo_hash (h_sha256 cr)
    | 170%N => mdo_hash (h_sha3 cr)
    | 171%N => x <~ mpop false ;; mapply_cost (dlen x + 64) ;;~
             r <~ malloc (fun h => go_fresh h (h_ripemd160 cr (val h x))) ;; mpush r false
    | 172%N => (* CHECKSIG *)
        mapply_cost 1024 ;;~ pk <~ mpop true ;; msg <~ mpop true ;; sg <~ mpop true ;;
        if negb (d_len msg =? 32)%nat then mfail EBadValue
        else if negb (d_len pk =? 32)%nat then mpush_bool false true
        else vpk <~ mread pk ;; vmsg <~ mread msg ;; vsg <~ mread sg ;;
             mpush_bool (sig_verify cr vpk vmsg vsg) true
    | 173%N => (* CHECKMULTISIG *)
        npb <~ mpop_bigint true ;; np <~ mlift (bigint_int64 npb) ;;
        (if 2 ^ 63 - 1 <? np * 1024 then mfail EBadValue else mret tt) ;;~
        mapply_cost (np * 1024) ;;~
        nsb <~ mpop_bigint true ;; ns <~ mlift (bigint_int64 nsb) ;;
        if (np <? ns) || ((0 <? np) && (ns =? 0)) then mfail EBadValue
        else
          pks <~ mpopn (Z.to_nat np) true ;;
          msg <~ mpop true ;;
          if negb (d_len msg =? 32)%nat then mfail EBadValue
          else
            sigs <~ mpopn (Z.to_nat ns) true ;;
            vpks <~ mreadl pks ;; vmsg <~ mread msg ;; vsigs <~ mreadl sigs ;;
            if existsb (fun p => negb (length p =? 32)%nat) vpks then mpush_bool false true
            else mpush_bool (multisig_scan cr vmsg vsigs vpks) true
    | 174%N => mapply_cost 256 ;;~
             match mc_txsighash mcx with None => mfail EContext | Some d => mpush d false end
    | 193%N => (* CHECKOUTPUT *)
        mapply_cost 16 ;;~ code <~ mpop true ;; vmv <~ mpop_bigint true ;; asset <~ mpop true ;;
        amt <~ mpop_bigint true ;;
        if (two64 <=? amt)%N then mfail EBadValue
        else
          idx <~ mpop_bigint true ;;
          match mc_checkoutput mcx with
          | None => mfail EContext
          | Some f => s <~ mget ;;
              vasset <~ mread asset ;; vcode <~ mread code ;; valt <~ mreadl (m_astack s) ;;
              match f (idx mod two64)%N amt vasset (vmv mod two64)%N vcode valt (m_expres s) with
              | inl e => mfail e
              | inr ok => mpush_bool ok true
              end
          end
    | 194%N => mapply_cost 1 ;;~ match mc_assetid mcx with None => mfail EContext | Some a => mpush a true end
    | 195%N => mapply_cost 1 ;;~ match mc_amount mcx with None => mfail EContext | Some a => mpush_bigint a true end
    | 196%N => mapply_cost 1 ;;~ mpush (mc_code mcx) true
    | 201%N => mapply_cost 1 ;;~ match mc_destpos mcx with None => mfail EContext | Some a => mpush_bigint a true end
    | 202%N => mapply_cost 1 ;;~ mpush (mc_entryid mcx) true
    | 203%N => mapply_cost 1 ;;~ match mc_spentoutputid mcx with None => mfail EContext | Some a => mpush a true end
    | 205%N => mapply_cost 1 ;;~ match mc_blockheight mcx with None => mfail EContext | Some a => mpush_bigint a true end
    | _ =>
        (* OP_1..OP_16 and OP_DATA_n share opPushdata *)
        mapply_cost 1 ;;~ s <~ mget ;; d <~ malloc (fun h => go_clone h (m_vdata s)) ;; mpush d false
    end.

  (* inst.Data of ParseOp: a fresh one-byte literal for OP_1..OP_16, otherwise a sub-slice of the program
     (empty for instructions without immediate data) *)
  Definition inst_data (h : heap) (p : desc) (pcv : N) (i : inst) : heap * desc :=
    let opc := i_op i in
    let sub (hdr : nat) := (h, go_slice p (N.to_nat pcv + hdr) (N.to_nat pcv + N.to_nat (i_len i))) in
    if ((OP_1 <=? opc) && (opc <=? OP_16))%N then go_lit h [(opc - OP_1 + 1)%N]   (* []byte{uint8(opcode-OP_1)+1} *)
    else if ((OP_DATA_1 <=? opc) && (opc <=? OP_DATA_75))%N then sub 1%nat       (* prog[pc+1 : end] *)
    else if (opc =? OP_PUSHDATA1)%N then sub 2%nat                               (* prog[pc+2 : end] *)
    else if (opc =? OP_PUSHDATA2)%N then sub 3%nat                               (* prog[pc+3 : end] *)
    else if (opc =? OP_PUSHDATA4)%N then sub 5%nat                               (* prog[pc+5 : end] *)
    else if ((opc =? OP_JUMP) || (opc =? OP_JUMPIF))%N then sub 1%nat            (* prog[pc+1 : end] *)
    else (h, dnil).                                                              (* nil *)

  Definition mstep (mrun_child : mst -> bool * mst) : MM unit :=
    fun s =>
      match parse_op (val (m_heap s) (m_prog s)) (m_pc s) with
      | inl e => MErr e s
      | inr i =>
          let s1 := mset_nextpc s ((m_pc s + i_len i) mod two32)%N in
          if is_expansion (i_op i) then
            if m_expres s1 then MErr EDisallowedOpcode s1
            else mapply_cost 1 (mset_pc s1 (m_nextpc s1))
          else
            let '(h', dd) := inst_data (m_heap s1) (m_prog s1) (m_pc s1) i in
            let s2 := mset_heap (mset_vdata (mset_deferred s1 0) dd) h' in
            match mexec_op mrun_child (i_op i) s2 with
            | MErr e s3 => MErr e s3
            | MOk _ s3 =>
                match mapply_cost (m_deferred s3) s3 with
                | MErr e s4 => MErr e (mset_astack (mset_dstack s4 []) [])
                | MOk _ s4 => MOk tt (mset_pc s4 (m_nextpc s4))
                end
            end
      end.

  Fixpoint mrun (fuel : nat) (s : mst) : mres unit :=
    match fuel with
    | O => MErr EOutOfFuel s
    | S f =>
        if (m_pc s <? N.of_nat (d_len (m_prog s)))%N then
          match mstep (fun c => match mrun f c with
                                | MOk _ cs => (true, cs)
                                | MErr _ cs => (false, cs)
                                end) s with
          | MErr e s' => MErr e s'
          | MOk _ s' => mrun f s'
          end
        else MOk tt s
    end.

  Fixpoint mpush_all (f : desc -> bool -> MM unit) (l : list desc) : MM unit :=
    match l with
    | [] => mret tt
    | x :: r => f x false ;;~ mpush_all f r
    end.

  Definition minit (h : heap) (gas_limit : Z) : mst :=
    {| m_prog := mc_code mcx; m_pc := 0; m_nextpc := 0; m_runlimit := gas_limit; m_deferred := 0;
       m_expres := match mc_txversion mcx with Some 1%N => true | _ => false end;
       m_vdata := dnil; m_dstack := []; m_astack := []; m_heap := h |}.

  (* vm.Verify on a memory layout: heap h, the context's descriptors, the caller's state-data and argument
     descriptors.  Returns (gasLeft, error, final state) *)
  Definition mverify (fuel : nat) (h : heap) (statedata args : list desc) (gas_limit : Z)
    : Z * option vmerr * mst :=
    let s0 := minit h gas_limit in
    if negb (mc_vmversion mcx =? 1)%N then (gas_limit, Some EUnsupportedVM, s0)
    else
      match (mpush_all mpush_alt statedata ;;~ mpush_all mpush args) s0 with
      | MErr e s => (m_runlimit s, Some e, s)
      | MOk _ s1 =>
          match mrun fuel s1 with
          | MErr EUnexpected s => (0, Some EUnexpected, s)
          | MErr e s => (m_runlimit s, Some e, s)
          | MOk _ s => (m_runlimit s, (if false_result (proj s) then Some EFalseVMResult else None), s)
          end
      end.
End WithParams.
