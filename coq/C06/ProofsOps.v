(* C06 — every instruction of the memory-level VM simulates the pure one. *)
From Coq Require Import List ZArith NArith Bool Arith Lia.
From Verif Require Import Cmp VM.
From C06 Require Import VMmem ProofsHeap ProofsSim.
Import ListNotations.
Open Scope Z_scope.

Lemma go_fresh_ok (hf : item -> item) h x vx : ritem h x vx -> alloc_ok h (go_fresh h (hf (val h x))) (hf vx).
Proof. intros [_ ->]. apply go_lit_ok. Qed.

Lemma Forall2_cons_inv {A B} (R : A -> B -> Prop) x l y l' : Forall2 R (x :: l) (y :: l') -> R x y /\ Forall2 R l l'.
Proof. intros H; inversion H; auto. Qed.

Lemma Forall_firstn' {A} (P : A -> Prop) l k : Forall P l -> Forall P (firstn k l).
Proof. intros H. revert k. induction H; intros [|k]; cbn; auto. Qed.
Lemma Forall_skipn' {A} (P : A -> Prop) l k : Forall P l -> Forall P (skipn k l).
Proof. intros H. revert k. induction H; intros [|k]; cbn; auto. Qed.

Definition rnonneg (_ : heap) (a b : Z) : Prop := a = b /\ 0 <= b.

Lemma ritem_substr h a v off size : ritem h a v -> 0 <= off -> 0 <= size -> off + size <= Z.of_nat (d_len a) ->
  ritem h (go_slice a (Z.to_nat off) (Z.to_nat (off + size))) (firstn (Z.to_nat size) (skipn (Z.to_nat off) v)).
Proof.
  intros H A B C. replace (Z.to_nat size) with (Z.to_nat (off + size) - Z.to_nat off)%nat by lia.
  apply go_slice_ok; auto; lia.
Qed.
Lemma ritem_left h a v size : ritem h a v -> 0 <= size -> size <= Z.of_nat (d_len a) ->
  ritem h (go_slice a 0 (Z.to_nat size)) (firstn (Z.to_nat size) v).
Proof.
  intros H A B. pose proof (go_slice_ok h a v 0 (Z.to_nat size) H ltac:(lia) ltac:(lia)) as G.
  now rewrite Nat.sub_0_r in G.
Qed.
Lemma ritem_right h a v size : ritem h a v -> 0 <= size -> size <= Z.of_nat (d_len a) ->
  ritem h (go_slice a (Z.to_nat (Z.of_nat (d_len a) - size)) (d_len a)) (skipn (Z.to_nat (Z.of_nat (d_len a) - size)) v).
Proof.
  intros H A B. pose proof (go_slice_ok h a v (Z.to_nat (Z.of_nat (d_len a) - size)) (d_len a) H ltac:(lia) ltac:(lia)) as G.
  rewrite firstn_all2 in G; [exact G|]. rewrite skipn_length, (ritem_length _ _ _ H). lia.
Qed.

Ltac boolhyps := repeat match goal with
  | H : (_ || _) = false |- _ => apply orb_false_elim in H; destruct H
  | H : (_ <? _) = false |- _ => apply Z.ltb_ge in H
  | H : (_ <? _) = true |- _ => apply Z.ltb_lt in H
  end.

Ltac transport P :=
  repeat match goal with
  | H : ritem ?h _ _ |- _ => lazymatch type of P with prefix h _ => apply (ritem_mono _ _ _ _ P) in H end
  | H : Forall2 (ritem ?h) _ _ |- _ => lazymatch type of P with prefix h _ => apply (ritems_mono _ _ _ _ P) in H end
  end.

Ltac process HR :=
  cbv beta in HR;
  lazymatch type of HR with
  | req _ _ _ => red in HR; subst
  | rnonneg _ _ _ => destruct HR as [-> ?]
  | ritem _ _ _ => try rewrite (ritem_length _ _ _ HR)
  | rstate _ _ _ =>
      apply rstate_facts in HR; destruct HR as (-> & ? & ? & ?);
      cbn [projH prog pc nextpc runlimit deferred expres vdata dstack astack]; rewrite ?map_length
  | _ => idtac
  end.

Ltac solve_ritem := first
  [ eassumption | apply ritem_dnil | eapply ritem_nth; eassumption
  | apply ritem_substr; [eassumption|boolhyps; lia..]
  | apply ritem_left; [eassumption|boolhyps; lia..]
  | apply ritem_right; [eassumption|boolhyps; lia..] ].
Ltac solve_ritems :=
  repeat first [ eassumption | apply Forall2_nil | apply Forall2_cons | apply ritems_app | apply ritems_firstn
               | apply ritems_skipn | apply ritems_tl | solve_ritem ].

Ltac solve_alloc := first
  [ eapply go_cat_ok; eassumption | eapply go_catpushdata_ok; eassumption | eapply go_invert_ok; eassumption
  | eapply go_and_ok; eassumption | eapply go_orx_ok; eassumption | eapply go_clone_ok; eassumption
  | eapply go_fresh_ok; eassumption | apply go_lit_ok | apply go_bigint_bytes_ok
  | eapply go_reverse_ok; eassumption ].

Lemma sim_lift_int64 mcx cx h0 n : msim mcx cx h0 rnonneg (mlift (bigint_int64 n)) (lift (bigint_int64 n)).
Proof.
  unfold bigint_int64. destruct (two63 <=? n)%N; [apply sim_fail|].
  apply sim_ret. intros. split; [reflexivity|lia].
Qed.

Ltac leaf_raw := first
  [ apply sim_to_alt; solve_ritems | apply sim_from_alt; solve_ritems
  | apply sim_dstack_tl | apply sim_dstack_cons2; solve_ritem | apply sim_dstack_settop; solve_ritem
  | apply sim_dstack_cons; solve_ritem | apply sim_set_dstack; solve_ritems ].
Ltac leaf_extra := leaf_raw.

Ltac leaf :=
  lazymatch goal with
  | |- msim _ _ _ _ (mapply_cost _) _ => apply sim_apply_cost
  | |- msim _ _ _ _ (mdefer_cost _) _ => apply sim_defer_cost
  | |- msim _ _ _ _ (mpop _) _ => apply sim_pop
  | |- msim _ _ _ _ (mpop_bigint _) _ => apply sim_pop_bigint
  | |- msim _ _ _ _ mtop _ => apply sim_top
  | |- msim _ _ _ _ mget _ => apply sim_get
  | |- msim _ _ _ _ (mlift (bigint_int64 _)) _ => apply sim_lift_int64
  | |- msim _ _ _ _ (mlift _) _ => apply sim_lift
  | |- msim _ _ _ _ (mret _) _ => apply sim_ret_eq
  | |- msim _ _ _ _ (mfail _) _ => apply sim_fail
  | |- msim _ _ _ _ (mpush _ _) _ => first [apply sim_push; solve_ritem | leaf_extra]
  | |- msim _ _ _ _ (mpush_bool _ _ _) _ => apply sim_push_bool
  | |- msim _ _ _ _ (mpush_bigint _ _) _ => apply sim_push_bigint
  | |- msim _ _ _ _ (mset_nextpc_op _) _ => apply sim_set_nextpc
  | |- msim _ _ _ _ (mpopn _ _) _ => apply sim_popn
  | |- _ => leaf_extra
  end.

Ltac sim :=
  cbv zeta;
  lazymatch goal with
  | |- msim _ _ _ _ (mbind (mread _) _) _ => eapply msim_read; [solve_ritem | cbv beta; sim]
  | |- msim _ _ _ _ (mbind (mreadl _) _) _ => eapply msim_readl; [eassumption | cbv beta; sim]
  | |- msim _ _ _ _ (mbind (malloc _) _) _ =>
      eapply msim_alloc;
      [ let h := fresh "h" in let P := fresh "P" in intros h P; transport P; solve_alloc
      | let h := fresh "h" in let r := fresh "r" in let P := fresh "P" in let Hr := fresh "Hr" in
        intros h r P Hr; transport P; clear P; sim ]
  | |- msim _ _ _ _ (mbind (fun s1 => match _ with pair _ _ => _ end) _) _ => idtac
  | |- msim _ _ _ _ (mbind _ _) (bind _ _) =>
      eapply msim_bind;
      [ first [leaf | sim]
      | let h := fresh "h" in let a := fresh "a" in let b := fresh "b" in
        let P := fresh "P" in let HR := fresh "HR" in
        intros h a b P HR; transport P; clear P; process HR; sim ]
  | |- msim _ _ _ _ (if ?c then _ else _) (if ?c then _ else _) =>
      let E := fresh "E" in destruct c eqn:E; sim
  | |- msim _ _ _ _ (match ?x with inl _ => _ | inr _ => _ end) (match ?x with inl _ => _ | inr _ => _ end) =>
      destruct x; sim
  | |- msim ?m ?c _ _ (match mc_checkoutput _ with None => _ | Some _ => _ end) _ =>
      let h := fresh "h" in let P := fresh "P" in let Hc := fresh "Hc" in let Eco := fresh "Eco" in
      apply msim_wfcx; intros h P Hc; transport P; clear P;
      assert (Eco : cx_checkoutput c = mc_checkoutput m) by (rewrite <- (proj1 Hc); reflexivity);
      rewrite Eco; clear Eco Hc; destruct (mc_checkoutput m); sim
  | |- msim _ _ _ _ (match ?l with nil => _ | cons _ _ => _ end) _ =>
      let x := fresh "x" in let r := fresh "r" in
      destruct l as [|x r]; cbn [map] in *;
      [| match goal with H : Forall2 (ritem _) (x :: r) _ |- _ => apply Forall2_cons_inv in H; destruct H end ];
      sim
  | |- _ => leaf
  end.

Ltac op_start := intros; cbv beta iota delta [mexec_op exec_op]; unfold nlen, dlen.

Section Ops.
  Variable growcap : nat -> nat -> nat.
  Variable cr : crypto.
  Variable mcx : mcontext.
  Variable cx : context.
  Variable mrc : mst -> bool * mst.
  Variable rc : vmst -> child_result.

  Notation MSIM := (msim mcx cx).
  Notation mex := (mexec_op growcap cr mcx mrc).
  Notation ex := (exec_op cr cx rc).

  Lemma sim_num2 h0 c f : MSIM h0 req (mnum2 c f) (num2 c f).
  Proof. unfold mnum2, num2. sim. Qed.
  Lemma sim_num1 h0 c f : MSIM h0 req (mnum1 c f) (num1 c f).
  Proof. unfold mnum1, num1. sim. Qed.
  Lemma sim_cmp2 h0 f : MSIM h0 req (mcmp2 mcx f) (cmp2 f).
  Proof. unfold mcmp2, cmp2. sim. Qed.

  Lemma sim_n_dup_go n k : forall h0, MSIM h0 req (mn_dup_go n k) (n_dup_go n k).
  Proof.
    induction k as [|k IH]; intros h0; cbn [mn_dup_go n_dup_go]; [apply sim_ret_eq|].
    eapply msim_bind; [apply sim_get|]. intros h a b P HR; process HR.
    eapply msim_bind; [apply sim_push; solve_ritem|]. intros. apply IH.
  Qed.
  Lemma sim_n_dup n h0 : MSIM h0 req (mn_dup n) (n_dup n).
  Proof.
    unfold mn_dup, n_dup.
    eapply msim_bind; [apply sim_apply_cost|]. intros h1 [] [] P1 _.
    eapply msim_bind; [apply sim_get|]. intros h a b P HR; process HR.
    destruct (length (m_dstack a) <? n)%nat; [apply sim_fail|apply sim_n_dup_go].
  Qed.
  Lemma sim_rot_n n h0 : MSIM h0 req (mrot_n n) (rot_n n).
  Proof. unfold mrot_n, rot_n. sim. Qed.
  Lemma sim_do_equal h0 : MSIM h0 req mdo_equal do_equal.
  Proof. unfold mdo_equal, do_equal, nlen, dlen. sim. Qed.
  Lemma sim_do_hash hf h0 : MSIM h0 req (mdo_hash hf) (do_hash hf).
  Proof. unfold mdo_hash, do_hash, nlen, dlen. sim. Qed.

  (* context pushes *)
  Lemma wfcx_opt h (fm : mcontext -> option desc) (f : context -> option item) :
    (forall hh, f (proj_cx hh mcx) = option_map (val hh) (fm mcx)) -> wfcx mcx cx h -> owfd h (fm mcx) ->
    match fm mcx with None => f cx = None | Some d => exists v, f cx = Some v /\ ritem h d v end.
  Proof.
    intros Hf (A & _) W. rewrite <- A, Hf. destruct (fm mcx) as [d|]; cbn; [|reflexivity].
    eexists; split; [reflexivity|]. now split.
  Qed.
  Lemma sim_cx_sighash h0 :
    MSIM h0 req (match mc_txsighash mcx with None => mfail EContext | Some d => mpush d false end)
               (match cx_txsighash cx with None => fail EContext | Some h => push h false end).
  Proof.
    apply msim_wfcx. intros h P Hc.
    pose proof (wfcx_opt h mc_txsighash cx_txsighash (fun _ => eq_refl) Hc ltac:(apply Hc)) as H.
    destruct (mc_txsighash mcx); [destruct H as (v & -> & Hv); now apply sim_push|rewrite H; apply sim_fail].
  Qed.
  Lemma sim_cx_asset h0 :
    MSIM h0 req (match mc_assetid mcx with None => mfail EContext | Some d => mpush d true end)
               (match cx_assetid cx with None => fail EContext | Some h => push h true end).
  Proof.
    apply msim_wfcx. intros h P Hc.
    pose proof (wfcx_opt h mc_assetid cx_assetid (fun _ => eq_refl) Hc ltac:(apply Hc)) as H.
    destruct (mc_assetid mcx); [destruct H as (v & -> & Hv); now apply sim_push|rewrite H; apply sim_fail].
  Qed.
  Lemma sim_cx_spent h0 :
    MSIM h0 req (match mc_spentoutputid mcx with None => mfail EContext | Some d => mpush d true end)
               (match cx_spentoutputid cx with None => fail EContext | Some h => push h true end).
  Proof.
    apply msim_wfcx. intros h P Hc.
    pose proof (wfcx_opt h mc_spentoutputid cx_spentoutputid (fun _ => eq_refl) Hc ltac:(apply Hc)) as H.
    destruct (mc_spentoutputid mcx); [destruct H as (v & -> & Hv); now apply sim_push|rewrite H; apply sim_fail].
  Qed.
  Lemma sim_cx_code h0 : MSIM h0 req (mpush (mc_code mcx) true) (push (cx_code cx) true).
  Proof.
    apply msim_wfcx. intros h P Hc. apply sim_push. destruct Hc as (A & B & _). rewrite <- A. now split.
  Qed.
  Lemma sim_cx_entryid h0 : MSIM h0 req (mpush (mc_entryid mcx) true) (push (cx_entryid cx) true).
  Proof.
    apply msim_wfcx. intros h P Hc. apply sim_push. destruct Hc as (A & _ & B & _). rewrite <- A. now split.
  Qed.
  Lemma sim_cx_num h0 (fm : mcontext -> option N) (f : context -> option N) :
    (forall hh, f (proj_cx hh mcx) = fm mcx) ->
    MSIM h0 req (match fm mcx with None => mfail EContext | Some a => mpush_bigint a true end)
               (match f cx with None => fail EContext | Some a => push_bigint a true end).
  Proof.
    intros Hf. apply msim_wfcx. intros h P (A & _). rewrite <- A, Hf.
    destruct (fm mcx); [apply sim_push_bigint|apply sim_fail].
  Qed.

  Ltac leaf_extra ::= first
    [ leaf_raw | apply sim_n_dup | apply sim_rot_n | apply sim_do_equal | apply sim_do_hash
    | apply sim_num1 | apply sim_num2 | apply sim_cmp2
    | apply sim_cx_sighash | apply sim_cx_asset | apply sim_cx_spent | apply sim_cx_code | apply sim_cx_entryid
    | apply (sim_cx_num _ mc_amount cx_amount); reflexivity
    | apply (sim_cx_num _ mc_destpos cx_destpos); reflexivity
    | apply (sim_cx_num _ mc_blockheight cx_blockheight); reflexivity ].

  Lemma sim_op_0 h0 : MSIM h0 req (mex 0%N) (ex 0%N).
  Proof. op_start. sim. Qed.
  Lemma sim_op_76 h0 : MSIM h0 req (mex 76%N) (ex 76%N).
  Proof. op_start. sim. Qed.
  Lemma sim_op_77 h0 : MSIM h0 req (mex 77%N) (ex 77%N).
  Proof. op_start. sim. Qed.
  Lemma sim_op_78 h0 : MSIM h0 req (mex 78%N) (ex 78%N).
  Proof. op_start. sim. Qed.
  Lemma sim_op_97 h0 : MSIM h0 req (mex 97%N) (ex 97%N).
  Proof. op_start. sim. Qed.
  Lemma sim_op_99 h0 : MSIM h0 req (mex 99%N) (ex 99%N).
  Proof. op_start. sim. Qed.
  Lemma sim_op_100 h0 : MSIM h0 req (mex 100%N) (ex 100%N).
  Proof. op_start. sim. Qed.
  Lemma sim_op_105 h0 : MSIM h0 req (mex 105%N) (ex 105%N).
  Proof. op_start. sim. Qed.
  Lemma sim_op_106 h0 : MSIM h0 req (mex 106%N) (ex 106%N).
  Proof. op_start. sim. Qed.
  Lemma sim_op_107 h0 : MSIM h0 req (mex 107%N) (ex 107%N).
  Proof. op_start. sim. Qed.
  Lemma sim_op_108 h0 : MSIM h0 req (mex 108%N) (ex 108%N).
  Proof. op_start. sim. Qed.
  Lemma sim_op_109 h0 : MSIM h0 req (mex 109%N) (ex 109%N).
  Proof. op_start. sim. Qed.
  Lemma sim_op_110 h0 : MSIM h0 req (mex 110%N) (ex 110%N).
  Proof. op_start. sim. Qed.
  Lemma sim_op_111 h0 : MSIM h0 req (mex 111%N) (ex 111%N).
  Proof. op_start. sim. Qed.
  Lemma sim_op_112 h0 : MSIM h0 req (mex 112%N) (ex 112%N).
  Proof. op_start. sim. Qed.
  Lemma sim_op_113 h0 : MSIM h0 req (mex 113%N) (ex 113%N).
  Proof. op_start. sim. Qed.
  Lemma sim_op_114 h0 : MSIM h0 req (mex 114%N) (ex 114%N).
  Proof. op_start. sim. Qed.
  Lemma sim_op_115 h0 : MSIM h0 req (mex 115%N) (ex 115%N).
  Proof. op_start. sim. Qed.
  Lemma sim_op_116 h0 : MSIM h0 req (mex 116%N) (ex 116%N).
  Proof. op_start. sim. Qed.
  Lemma sim_op_117 h0 : MSIM h0 req (mex 117%N) (ex 117%N).
  Proof. op_start. sim. Qed.
  Lemma sim_op_118 h0 : MSIM h0 req (mex 118%N) (ex 118%N).
  Proof. op_start. sim. Qed.
  Lemma sim_op_119 h0 : MSIM h0 req (mex 119%N) (ex 119%N).
  Proof. op_start. sim. Qed.
  Lemma sim_op_120 h0 : MSIM h0 req (mex 120%N) (ex 120%N).
  Proof. op_start. sim. Qed.
  Lemma sim_op_121 h0 : MSIM h0 req (mex 121%N) (ex 121%N).
  Proof. op_start. sim. Qed.
  Lemma sim_op_122 h0 : MSIM h0 req (mex 122%N) (ex 122%N).
  Proof. op_start. sim. Qed.
  Lemma sim_op_123 h0 : MSIM h0 req (mex 123%N) (ex 123%N).
  Proof. op_start. sim. Qed.
  Lemma sim_op_124 h0 : MSIM h0 req (mex 124%N) (ex 124%N).
  Proof. op_start. sim. Qed.
  Lemma sim_op_125 h0 : MSIM h0 req (mex 125%N) (ex 125%N).
  Proof. op_start. sim. Qed.
  Lemma sim_op_126 h0 : MSIM h0 req (mex 126%N) (ex 126%N).
  Proof. op_start. sim. Qed.
  Lemma sim_op_127 h0 : MSIM h0 req (mex 127%N) (ex 127%N).
  Proof. op_start. sim. Qed.
  Lemma sim_op_128 h0 : MSIM h0 req (mex 128%N) (ex 128%N).
  Proof. op_start. sim. Qed.
  Lemma sim_op_129 h0 : MSIM h0 req (mex 129%N) (ex 129%N).
  Proof. op_start. sim. Qed.
  Lemma sim_op_130 h0 : MSIM h0 req (mex 130%N) (ex 130%N).
  Proof. op_start. sim. Qed.
  Lemma sim_op_137 h0 : MSIM h0 req (mex 137%N) (ex 137%N).
  Proof. op_start. sim. Qed.
  Lemma sim_op_131 h0 : MSIM h0 req (mex 131%N) (ex 131%N).
  Proof. op_start. sim. Qed.
  Lemma sim_op_132 h0 : MSIM h0 req (mex 132%N) (ex 132%N).
  Proof. op_start. sim. Qed.
  Lemma sim_op_133 h0 : MSIM h0 req (mex 133%N) (ex 133%N).
  Proof. op_start. sim. Qed.
  Lemma sim_op_134 h0 : MSIM h0 req (mex 134%N) (ex 134%N).
  Proof. op_start. sim. Qed.
  Lemma sim_op_135 h0 : MSIM h0 req (mex 135%N) (ex 135%N).
  Proof. op_start. sim. Qed.
  Lemma sim_op_136 h0 : MSIM h0 req (mex 136%N) (ex 136%N).
  Proof. op_start. sim. Qed.
  Lemma sim_op_139 h0 : MSIM h0 req (mex 139%N) (ex 139%N).
  Proof. op_start. sim. Qed.
  Lemma sim_op_140 h0 : MSIM h0 req (mex 140%N) (ex 140%N).
  Proof. op_start. sim. Qed.
  Lemma sim_op_141 h0 : MSIM h0 req (mex 141%N) (ex 141%N).
  Proof. op_start. sim. Qed.
  Lemma sim_op_142 h0 : MSIM h0 req (mex 142%N) (ex 142%N).
  Proof. op_start. sim. Qed.
  Lemma sim_op_145 h0 : MSIM h0 req (mex 145%N) (ex 145%N).
  Proof. op_start. sim. Qed.
  Lemma sim_op_146 h0 : MSIM h0 req (mex 146%N) (ex 146%N).
  Proof. op_start. sim. Qed.
  Lemma sim_op_147 h0 : MSIM h0 req (mex 147%N) (ex 147%N).
  Proof. op_start. sim. Qed.
  Lemma sim_op_148 h0 : MSIM h0 req (mex 148%N) (ex 148%N).
  Proof. op_start. sim. Qed.
  Lemma sim_op_149 h0 : MSIM h0 req (mex 149%N) (ex 149%N).
  Proof. op_start. sim. Qed.
  Lemma sim_op_150 h0 : MSIM h0 req (mex 150%N) (ex 150%N).
  Proof. op_start. sim. Qed.
  Lemma sim_op_151 h0 : MSIM h0 req (mex 151%N) (ex 151%N).
  Proof. op_start. sim. Qed.
  Lemma sim_op_152 h0 : MSIM h0 req (mex 152%N) (ex 152%N).
  Proof. op_start. sim. Qed.
  Lemma sim_op_153 h0 : MSIM h0 req (mex 153%N) (ex 153%N).
  Proof. op_start. sim. Qed.
  Lemma sim_op_154 h0 : MSIM h0 req (mex 154%N) (ex 154%N).
  Proof. op_start. sim. Qed.
  Lemma sim_op_155 h0 : MSIM h0 req (mex 155%N) (ex 155%N).
  Proof. op_start. sim. Qed.
  Lemma sim_op_156 h0 : MSIM h0 req (mex 156%N) (ex 156%N).
  Proof. op_start. sim. Qed.
  Lemma sim_op_157 h0 : MSIM h0 req (mex 157%N) (ex 157%N).
  Proof. op_start. sim. Qed.
  Lemma sim_op_158 h0 : MSIM h0 req (mex 158%N) (ex 158%N).
  Proof. op_start. sim. Qed.
  Lemma sim_op_159 h0 : MSIM h0 req (mex 159%N) (ex 159%N).
  Proof. op_start. sim. Qed.
  Lemma sim_op_160 h0 : MSIM h0 req (mex 160%N) (ex 160%N).
  Proof. op_start. sim. Qed.
  Lemma sim_op_161 h0 : MSIM h0 req (mex 161%N) (ex 161%N).
  Proof. op_start. sim. Qed.
  Lemma sim_op_162 h0 : MSIM h0 req (mex 162%N) (ex 162%N).
  Proof. op_start. sim. Qed.
  Lemma sim_op_163 h0 : MSIM h0 req (mex 163%N) (ex 163%N).
  Proof. op_start. sim. Qed.
  Lemma sim_op_164 h0 : MSIM h0 req (mex 164%N) (ex 164%N).
  Proof. op_start. sim. Qed.
  Lemma sim_op_165 h0 : MSIM h0 req (mex 165%N) (ex 165%N).
  Proof. op_start. sim. Qed.
  Lemma sim_op_168 h0 : MSIM h0 req (mex 168%N) (ex 168%N).
  Proof. op_start. sim. Qed.
  Lemma sim_op_170 h0 : MSIM h0 req (mex 170%N) (ex 170%N).
  Proof. op_start. sim. Qed.
  Lemma sim_op_171 h0 : MSIM h0 req (mex 171%N) (ex 171%N).
  Proof. op_start. sim. Qed.
  Lemma sim_op_172 h0 : MSIM h0 req (mex 172%N) (ex 172%N).
  Proof. op_start. sim. Qed.
  Lemma sim_op_173 h0 : MSIM h0 req (mex 173%N) (ex 173%N).
  Proof. op_start. sim. Qed.
  Lemma sim_op_174 h0 : MSIM h0 req (mex 174%N) (ex 174%N).
  Proof. op_start. sim. Qed.
  Lemma sim_op_193 h0 : MSIM h0 req (mex 193%N) (ex 193%N).
  Proof. op_start. sim. Qed.
  Lemma sim_op_194 h0 : MSIM h0 req (mex 194%N) (ex 194%N).
  Proof. op_start. sim. Qed.
  Lemma sim_op_195 h0 : MSIM h0 req (mex 195%N) (ex 195%N).
  Proof. op_start. sim. Qed.
  Lemma sim_op_196 h0 : MSIM h0 req (mex 196%N) (ex 196%N).
  Proof. op_start. sim. Qed.
  Lemma sim_op_201 h0 : MSIM h0 req (mex 201%N) (ex 201%N).
  Proof. op_start. sim. Qed.
  Lemma sim_op_202 h0 : MSIM h0 req (mex 202%N) (ex 202%N).
  Proof. op_start. sim. Qed.
  Lemma sim_op_203 h0 : MSIM h0 req (mex 203%N) (ex 203%N).
  Proof. op_start. sim. Qed.
  Lemma sim_op_205 h0 : MSIM h0 req (mex 205%N) (ex 205%N).
  Proof. op_start. sim. Qed.
  (* the child VM run used by CHECKPREDICATE simulates the pure child run *)
  Definition child_sim : Prop := forall cms, wf mcx cx cms ->
    wf mcx cx (snd (mrc cms)) /\ prefix (m_heap cms) (m_heap (snd (mrc cms))) /\
    proj (snd (mrc cms)) = snd (rc (proj cms)) /\ fst (mrc cms) = fst (rc (proj cms)).

  Lemma sim_op_192 h0 : child_sim -> MSIM h0 req (mex 192%N) (ex 192%N).
  Proof.
    intros Hrc. op_start. sim.
    rename a into pred, b3 into vpred, HR into Hpred.
    set (k := Z.to_nat (if b5 =? 0 then Z.of_nat (length (m_dstack a0)) else b5)).
    set (lim := if b2 =? 0 then m_runlimit a0 else b2).
    clear H1 H2 H3 E.
    intros ms Hwf Hp.
    destruct Hwf as [Hc (A & B & C & D)].
    pose proof (ritem_mono _ _ _ _ Hp Hpred) as [Wp Vp].
    set (cms := {| m_prog := pred; m_pc := 0; m_nextpc := 0; m_runlimit := lim; m_deferred := 0;
                   m_expres := false; m_vdata := dnil; m_dstack := firstn k (m_dstack ms);
                   m_astack := []; m_heap := m_heap ms |}).
    assert (Wc : wf mcx cx cms).
    { split; [exact Hc|]. unfold wfH. cbn. split; [exact Wp|]. split; [apply wfd_dnil|].
      split; [|constructor]. now apply Forall_firstn'. }
    assert (Pc : proj cms = {| prog := vpred; pc := 0; nextpc := 0; runlimit := lim; deferred := 0;
                               expres := false; vdata := []; dstack := firstn k (dstack (proj ms)); astack := [] |}).
    { unfold proj, projH. cbn. rewrite Vp, val_dnil, firstn_map. reflexivity. }
    destruct (Hrc cms Wc) as (Wc' & Pc' & Ec' & Eok).
    change (m_heap cms) with (m_heap ms) in Pc'.
    set (ms1 := mset_dstack ms (skipn k (m_dstack ms))).
    assert (W1 : wf mcx cx ms1).
    { split; [exact Hc|]. unfold wfH. cbn. split; [exact A|]. split; [exact B|]. split; [|exact D].
      now apply Forall_skipn'. }
    destruct (wf_set_heap mcx cx ms1 (m_heap (snd (mrc cms))) W1 Pc') as [W2 P2].
    assert (P1 : proj ms1 = set_dstack (proj ms) (skipn k (dstack (proj ms)))).
    { unfold proj, projH. cbn. rewrite skipn_map. reflexivity. }
    rewrite P1 in P2.
    (* the rest of the instruction, at the heap the child left *)
    assert (T : MSIM (m_heap (snd (mrc cms))) req
      (mdefer_cost (- m_runlimit (snd (mrc cms)));;~ mdefer_cost (- mstack_cost (m_dstack (snd (mrc cms))));;~
       mdefer_cost (- mstack_cost (m_astack (snd (mrc cms))));;~
       tv <~ mread match m_dstack (snd (mrc cms)) with [] => dnil | t :: _ => t end;;
       mpush_bool mcx (fst (mrc cms) && negb match m_dstack (snd (mrc cms)) with [] => true | _ :: _ => negb (as_bool tv) end) true)
      (defer_cost (- runlimit (snd (rc (proj cms))));;; defer_cost (- stack_cost (dstack (snd (rc (proj cms)))));;;
       defer_cost (- stack_cost (astack (snd (rc (proj cms)))));;;
       push_bool (fst (rc (proj cms)) && negb match dstack (snd (rc (proj cms))) with [] => true | t :: _ => negb (as_bool t) end) true)).
    { rewrite <- Ec', <- Eok. destruct Wc' as [_ (_ & _ & C' & D')].
      pose proof (ritems_of_wfd _ _ C') as RC. pose proof (ritems_of_wfd _ _ D') as RD.
      rewrite (mstack_cost_eq _ _ _ RC), (mstack_cost_eq _ _ _ RD).
      unfold proj, projH. cbn [runlimit dstack astack].
      destruct (m_dstack (snd (mrc cms))) as [|t r]; cbn [map] in *.
      - sim.
      - apply Forall2_cons_inv in RC. destruct RC as [Rt _]. sim. }
    specialize (T (mset_heap ms1 (m_heap (snd (mrc cms)))) W2 (prefix_refl _)).
    rewrite P2 in T. cbn [m_heap mset_heap] in T.
    rewrite Pc in T.
    cbv beta iota delta [mbind bind get] in T |- *.
    fold cms. fold ms1.
    destruct (mrc cms) as [ok cms']. cbn [fst snd] in *.
    match goal with |- context [rc ?c] => destruct (rc c) as [ok' cs'] end. cbn [fst snd] in *.
    cbv beta iota in T |- *.
    match goal with |- match ?x with _ => _ end => destruct x end;
    match goal with |- match ?x with _ => _ end => destruct x end; try contradiction.
    - destruct T as (X1 & X2 & X3 & X4). split4; auto. eapply prefix_trans; [|exact X2]. exact Pc'.
    - destruct T as (X1 & X2 & X3 & X4). split4; auto. eapply prefix_trans; [|exact X3]. exact Pc'.
  Qed.

  (* default branch of the table: OP_1..OP_16 and OP_DATA_n share opPushdata *)
  Lemma sim_op_default h0 : MSIM h0 req (mex 1%N) (ex 1%N).
  Proof. op_start. sim. Qed.
End Ops.
