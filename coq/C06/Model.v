(* C06 — model entry point.  The executable memory-level model of protocol/vm is
   C06/VMmem.v (stack items are Go slice descriptors over a heap of buffers);
   the pure value model it is compared with is Verif.VM (coq/lib/VM.v).
   No proofs in this file. *)
From Verif Require Export VM.
From C06 Require Export VMmem.
