(* C11 — executable model of the best-chain machinery of the Bytom node.

   Mirrors (pinned tree, with the C11 repair of SaveChainStatus as a variant flag):
     protocol/casper/tree_node.go   bestNode, nodeByHash/findOnlyOne, newChild
     protocol/casper/casper.go      bestChain
     protocol/casper/apply_block.go ApplyBlock, applyBlockToCheckpoint, checkpointNodeByHash,
                                    applySupLinks (as its effect: the block's checkpoint becomes
                                    justified through source s, see [bjust])
     protocol/casper/auth_verification.go AuthVerification (as its effect [Justify t s]),
                                    setJustified, setFinalized, tryRollback,
                                    authVerificationLoop/authCachedMsg (as [LateJustify t s])
     protocol/state/checkpoint.go   NewCheckpoint, Increase (hash/height/status part)
     protocol/block.go              processBlock, saveBlock, saveSubBlock, tryReorganize,
                                    reorganizeChain, calcReorganizeChain
     protocol/protocol.go           setState, InMainChain, initChainStatus
     database/store.go              SaveChainStatus (main-chain index writes), GetMainChainHash

   Conventions.  A block hash is an opaque label in N; the label ORDER is the order of the
   hexadecimal hash strings (the harness passes the rank of each hash), which is all that
   bestNode's string comparison observes.  The content of a block is a function [U] of its hash
   (hash functions are injective on the blocks that occur: one hash, one block).  Votes are not
   counted here (C17): whether a checkpoint becomes justified is an input — [bjust] for sup links
   carried by a block, [Justify t s] for a verification message that completed a supermajority —
   and the theorems hold for every such input.  Ledger updates of a reorganisation (utxo and
   contract views, C10/C13) cannot fail for the blocks considered and are not modelled. *)
From Coq Require Import List NArith Bool.
Import ListNotations.
Open Scope N_scope.

Inductive cstatus := Growing | Unjustified | Justified | Finalized.

(* treeNode + the fields of state.Checkpoint that fork choice reads: Hash, Height, Status,
   ParentHash, children (in slice order) *)
Inductive cnode := CNode (chash cheight : N) (cst : cstatus) (cphash : N) (kids : list cnode).

Definition chash_of (t : cnode) := match t with CNode h _ _ _ _ => h end.
Definition cheight_of (t : cnode) := match t with CNode _ h _ _ _ => h end.
Definition cst_of (t : cnode) := match t with CNode _ _ s _ _ => s end.
Definition cphash_of (t : cnode) := match t with CNode _ _ _ p _ => p end.
Definition kids_of (t : cnode) := match t with CNode _ _ _ _ ks => ks end.

Definition is_justified (s : cstatus) := match s with Justified => true | _ => false end.
Definition is_unjustified (s : cstatus) := match s with Unjustified => true | _ => false end.

(* what the model needs to know about a block *)
Record binfo := mkb {
  bparent : N;          (* PreviousBlockHash *)
  bheight : N;          (* Height *)
  bok : bool;           (* the block passes validation.ValidateBlock on top of its parent, apart
                           from the height rule, which the model checks itself *)
  bjust : option N      (* Some s: while this block is applied, the sup link s -> this block that
                           it carries completes a supermajority and setJustified runs *)
}.

(* model variants (DESIGN §5) *)
Record variant := mkv {
  clear_stale : bool;          (* SaveChainStatus deletes the index entries above the new best
                                  height (the C11 repair); false = the pinned code *)
  rollback_deadlocks : bool    (* AuthVerification keeps the casper lock while the chain's
                                  rollback (setState -> LastFinalized) needs it: a verification
                                  message that moves the best chain hangs the node (pinned code,
                                  C37); false = the rollback is carried out *)
}.

(* ------------------------------------------------------------------ fork choice *)

(* the candidate a node stands for: (hash, height) *)
Definition better (cj ch chs bj bh bhs : N) : bool :=
  (bj <? cj) || ((cj =? bj) && (bh <? ch)) || ((cj =? bj) && (ch =? bh) && (bhs <? chs)).

Definition pick (acc r : (N * N) * N) : (N * N) * N :=
  let '((bhs, bh), bj) := acc in
  let '((chs, ch), cj) := r in
  if better cj ch chs bj bh bhs then r else acc.

(* treeNode.bestNode: returns ((hash, height), justified height) *)
Fixpoint best_node (t : cnode) (jh : N) : (N * N) * N :=
  match t with
  | CNode h ht st _ ks =>
    let jh' := if is_justified st then ht else jh in
    fold_left pick (map (fun k => best_node k jh') ks) ((h, ht), jh')
  end.

(* Casper.bestChain *)
Definition best_chain (t : cnode) : N := fst (fst (best_node t (cheight_of t))).

(* ------------------------------------------------------------------ tree access *)

(* findOnlyOne with the predicate Hash == h: first node in preorder; as a path of child indices *)
Fixpoint find_path (h : N) (t : cnode) : option (list nat) :=
  match t with
  | CNode hh _ _ _ ks =>
    if hh =? h then Some [] else
    (fix go (ks : list cnode) (i : nat) : option (list nat) :=
       match ks with
       | [] => None
       | k :: ks' => match find_path h k with
                     | Some p => Some (i :: p)
                     | None => go ks' (S i)
                     end
       end) ks 0%nat
  end.

Fixpoint get_at (p : list nat) (t : cnode) : option cnode :=
  match p with
  | [] => Some t
  | i :: p' => match nth_error (kids_of t) i with
               | Some k => get_at p' k
               | None => None
               end
  end.

Fixpoint upd_nth {A} (i : nat) (f : A -> A) (l : list A) : list A :=
  match l, i with
  | [], _ => []
  | x :: l', O => f x :: l'
  | x :: l', S i' => x :: upd_nth i' f l'
  end.

Fixpoint update_at (p : list nat) (f : cnode -> cnode) (t : cnode) : cnode :=
  match p with
  | [] => f t
  | i :: p' => match t with
               | CNode a b c d ks => CNode a b c d (upd_nth i (update_at p' f) ks)
               end
  end.

Definition set_status (s : cstatus) (t : cnode) : cnode :=
  match t with CNode a b _ d ks => CNode a b s d ks end.

Section Model.

Variable V : variant.
Variable E : N.           (* consensus.ActiveNetParams.BlocksOfEpoch *)
Variable U : N -> binfo.  (* block content as a function of the hash *)

Definition hgt (b : N) := bheight (U b).
Definition par (b : N) := bparent (U b).

Definition memN (x : N) (l : list N) : bool := existsb (N.eqb x) l.

(* Checkpoint.Increase (the part fork choice reads) *)
Definition increase (b : N) (t : cnode) : cnode :=
  match t with
  | CNode _ _ st ph ks => CNode b (hgt b) (if hgt b mod E =? 0 then Unjustified else st) ph ks
  end.

(* treeNode.newChild followed by Increase(b) on the child (the code never does one without the
   other); the child is appended to the children *)
Definition add_kid (b : N) (t : cnode) : cnode :=
  match t with
  | CNode h ht st ph ks =>
    CNode h ht st ph (ks ++ [CNode b (hgt b) (if hgt b mod E =? 0 then Unjustified else Growing) h []])
  end.

Definition nkids_at (p : list nat) (t : cnode) : nat :=
  match get_at p t with Some n => length (kids_of n) | None => 0%nat end.

(* Casper.checkpointNodeByHash: the node whose tip is h, rebuilding a branch of the current epoch
   from the stored blocks when no node has that tip.  Returns the new tree and the node's path. *)
Fixpoint cp_node (fuel : nat) (store : list N) (t : cnode) (h : N) : option (cnode * list nat) :=
  match find_path h t with
  | Some p => Some (t, p)
  | None =>
    if negb (memN h store) then None          (* store.GetBlock fails *)
    else if hgt h mod E =? 0 then None        (* "fail on previous round checkpoint" *)
    else match fuel with
         | O => None
         | S f =>
           match cp_node f store t (par h) with
           | None => None
           | Some (t1, p) =>
             if hgt h mod E =? 1
             then Some (update_at p (add_kid h) t1, p ++ [nkids_at p t1])
             else Some (update_at p (increase h) t1, p)
           end
         end
  end.

(* setFinalized: the node with that hash becomes the root *)
Definition set_finalized (s : N) (t : cnode) : cnode :=
  match find_path s t with
  | Some p => match get_at p t with
              | Some n => set_status Finalized n
              | None => t
              end
  | None => t
  end.

(* setJustified(source s, target at path p) *)
Definition set_justified (p : list nat) (s : N) (t : cnode) : cnode :=
  match get_at p t with
  | Some n =>
    let t1 := update_at p (set_status Justified) t in
    if cphash_of n =? s then set_finalized s t1 else t1
  | None => t
  end.

(* Casper.ApplyBlock: None = error (the block is not saved) *)
Definition apply_block (store : list N) (t : cnode) (b : N) : option cnode :=
  match find_path b t with
  | Some _ => Some t
  | None =>
    match cp_node (S (N.to_nat (hgt b))) store t (par b) with
    | None => None
    | Some (t1, p) =>
      let '(t2, pt) := if hgt b mod E =? 1
                       then (update_at p (add_kid b) t1, p ++ [nkids_at p t1])
                       else (update_at p (increase b) t1, p) in
      (* applySupLinks: only a checkpoint that has just been completed can be justified *)
      match bjust (U b), get_at pt t2 with
      | Some s, Some n => if is_unjustified (cst_of n) then Some (set_justified pt s t2) else Some t2
      | _, _ => Some t2
      end
    end
  end.

(* ------------------------------------------------------------------ main-chain index *)

Definition index := list (N * N).   (* height -> hash; the first entry for a key counts *)

Fixpoint idx_get (h : N) (m : index) : option N :=
  match m with
  | [] => None
  | (k, v) :: m' => if k =? h then Some v else idx_get h m'
  end.

Definition idx_set (h v : N) (m : index) : index := (h, v) :: m.
Definition idx_del_above (h : N) (m : index) : index := filter (fun kv => fst kv <=? h) m.

(* ------------------------------------------------------------------ chain state *)

Record state := mks {
  store : list N;      (* blocks saved by store.SaveBlock *)
  orphans : list N;    (* OrphanManage, in arrival order *)
  tree : cnode;        (* casper's checkpoint tree *)
  best : N;            (* Chain.bestBlockHeader *)
  idx : index;         (* main-chain index of the store *)
  hung : bool          (* the node no longer answers *)
}.

(* calcReorganizeChain(beginAttach = a, beginDetach = d): Some (attach, detach) *)
Fixpoint calc_reorg (fuel : nat) (st : list N) (a d : N) (att det : list N) : option (list N * list N) :=
  if a =? d then Some (att, det) else
  match fuel with
  | O => None
  | S f =>
    let ar := hgt d <=? hgt a in
    let dr := hgt a <=? hgt d in
    let att' := if ar then a :: att else att in
    let det' := if dr then det ++ [d] else det in
    let a' := if ar then par a else a in
    let d' := if dr then par d else d in
    if (ar && negb (memN a' st)) || (dr && negb (memN d' st)) then None   (* GetBlockHeader fails *)
    else calc_reorg f st a' d' att' det'
  end.

(* SaveChainStatus: index entries for the attached headers; the repaired variant also deletes the
   entries above the new best height *)
Definition save_index (newbest : N) (attach : list N) (m : index) : index :=
  let m1 := fold_left (fun m b => idx_set (hgt b) b m) attach m in
  if clear_stale V then idx_del_above (hgt newbest) m1 else m1.

(* tryReorganize + reorganizeChain + setState *)
Definition try_reorganize (s : state) (bh : N) : state :=
  if best s =? bh then s
  else if negb (memN bh (store s)) then s      (* GetHeaderByHash fails *)
  else match calc_reorg (S (N.to_nat (hgt bh) + N.to_nat (hgt (best s)))) (store s) bh (best s) [] [] with
       | None => s
       | Some (attach, _) =>
         mks (store s) (orphans s) (tree s) bh (save_index bh attach (idx s)) (hung s)
       end.

(* saveBlock: None = error *)
Definition save_block (s : state) (b : N) : option state :=
  if negb (memN (par b) (store s)) then None
  else if negb (bok (U b) && (hgt b =? hgt (par b) + 1)) then None
  else match apply_block (store s) (tree s) b with
       | None => None
       | Some t' =>
         Some (mks (if memN b (store s) then store s else b :: store s)
                   (filter (fun o => negb (o =? b)) (orphans s))
                   t' (best s) (idx s) (hung s))
       end.

(* saveSubBlock: depth first over the orphans waiting for b, in arrival order *)
Fixpoint save_sub (fuel : nat) (s : state) (b : N) : state :=
  match fuel with
  | O => s
  | S f =>
    fold_left (fun s o =>
                 if memN o (orphans s)
                 then match save_block s o with
                      | None => s
                      | Some s' => save_sub f s' o
                      end
                 else s)
              (filter (fun o => par o =? b) (orphans s)) s
  end.

(* Chain.processBlock *)
Definition process_block (s : state) (b : N) : state :=
  if (memN b (store s) || memN b (orphans s)) && (hgt b <=? hgt (best s)) then s
  else if negb (memN (par b) (store s))
  then (if memN b (orphans s) then s
        else mks (store s) (orphans s ++ [b]) (tree s) (best s) (idx s) (hung s))
  else match save_block s b with
       | None => s
       | Some s1 =>
         let s2 := save_sub (S (length (orphans s1))) s1 b in
         try_reorganize s2 (best_chain (tree s2))
       end.

(* AuthVerification, for a message that completes a supermajority s -> t *)
Definition justify (st : state) (t s : N) : state :=
  match find_path t (tree st) with
  | None => st
  | Some p =>
    match get_at p (tree st) with
    | Some n =>
      if is_unjustified (cst_of n) then
        let old := best_chain (tree st) in
        let tr := set_justified p s (tree st) in
        let st' := mks (store st) (orphans st) tr (best st) (idx st) (hung st) in
        if old =? best_chain tr then st'
        else if rollback_deadlocks V
             then mks (store st) (orphans st) tr (best st) (idx st) true
             else try_reorganize st' (best_chain tr)
      else st
    | None => st
    end
  end.

(* authVerificationLoop / authCachedMsg: a verification message that arrived before its target
   checkpoint was known is cached and applied later by a background goroutine, through
   authVerification only: the checkpoint becomes justified, tryRollback is NOT called *)
Definition late_justify (st : state) (t s : N) : state :=
  match find_path t (tree st) with
  | None => st
  | Some p =>
    match get_at p (tree st) with
    | Some n =>
      if is_unjustified (cst_of n)
      then mks (store st) (orphans st) (set_justified p s (tree st)) (best st) (idx st) (hung st)
      else st
    | None => st
    end
  end.

Inductive event := Deliver (b : N) | Justify (t s : N) | LateJustify (t s : N) | Nop.

Definition step (s : state) (e : event) : state :=
  if hung s then s else
  match e with
  | Deliver b => process_block s b
  | Justify t src => justify s t src
  | LateJustify t src => late_justify s t src
  | Nop => s
  end.

(* histories in which every verification message found its target checkpoint in the tree *)
Definition is_late (e : event) : bool := match e with LateJustify _ _ => true | _ => false end.
Definition no_late (evs : list event) : bool := forallb (fun e => negb (is_late e)) evs.

(* NewChain on an empty store: initChainStatus *)
Definition init (g : N) : state :=
  mks [g] [] (CNode g 0 Justified 0 []) g [(0, g)] false.

Definition run (g : N) (evs : list event) : state := fold_left step evs (init g).

(* Chain.InMainChain *)
Definition in_main_chain (s : state) (b : N) : bool :=
  if memN b (store s)
  then match idx_get (hgt b) (idx s) with
       | Some x => x =? b
       | None => false
       end
  else false.

End Model.
