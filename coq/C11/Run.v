(* Helpers used by the correspondence case files of C11. *)
From Coq Require Import List NArith Bool.
Import ListNotations.
From C11 Require Import Model.
Open Scope N_scope.

(* the variant of the model that describes /repo's working tree:
   SaveChainStatus clears stale index entries (C11 repair in place);
   a verification message that moves the best chain deadlocks the node (C37, recorded). *)
Definition current_code : variant := mkv true true.
Definition pinned_code : variant := mkv false true.

Definition dummy_block : binfo := mkb 0 0 false None.

Fixpoint lookup_block (l : list (N * binfo)) (h : N) : binfo :=
  match l with
  | [] => dummy_block
  | (k, b) :: l' => if k =? h then b else lookup_block l' h
  end.

(* best, finalized root, index for heights 0..maxh, InMainChain per queried block *)
Definition obs := (N * N * list (option N) * list bool)%type.

Fixpoint heights_upto (n : nat) (from : N) : list N :=
  match n with
  | O => []
  | S n' => from :: heights_upto n' (from + 1)
  end.

Definition observe (U : N -> binfo) (queries : list N) (maxh : N) (s : state) : option obs :=
  if hung s then None
  else Some (best s, chash_of (tree s),
             map (fun h => idx_get h (idx s)) (heights_upto (S (N.to_nat maxh)) 0),
             map (in_main_chain U s) queries).

Fixpoint scan (V : variant) (E : N) (U : N -> binfo) (s : state) (evs : list event) : list state :=
  s :: match evs with
       | [] => []
       | e :: evs' => scan V E U (step V E U s e) evs'
       end.

Definition run_case (V : variant) (E : N) (blocks : list (N * binfo)) (g : N) (evs : list event)
           (queries : list N) (maxh : N) : list (option obs) :=
  let U := lookup_block blocks in
  map (observe U queries maxh) (scan V E U (init g) evs).

Definition opt_eqb {A} (eqb : A -> A -> bool) (x y : option A) : bool :=
  match x, y with
  | Some a, Some b => eqb a b
  | None, None => true
  | _, _ => false
  end.

Fixpoint list_eqb {A} (eqb : A -> A -> bool) (x y : list A) : bool :=
  match x, y with
  | [], [] => true
  | a :: x', b :: y' => eqb a b && list_eqb eqb x' y'
  | _, _ => false
  end.

Definition obs_eqb (x y : obs) : bool :=
  let '(b1, r1, i1, m1) := x in
  let '(b2, r2, i2, m2) := y in
  (b1 =? b2) && (r1 =? r2) && list_eqb (opt_eqb N.eqb) i1 i2 && list_eqb Bool.eqb m1 m2.

Definition obs_list_eqb (x y : list (option obs)) : bool := list_eqb (opt_eqb obs_eqb) x y.
