(* C11 — invariants of the chain model: store is a tree, the index below the best height is the
   ancestry of the best block, (repaired variant) nothing above it, every checkpoint-tree hash is
   a stored block, best = bestChain(tree) while the node answers. *)
From Coq Require Import List NArith Bool Arith Lia Permutation.
Import ListNotations.
From C11 Require Import Model ProofsTree.
Open Scope N_scope.

Lemma memN_In x l : memN x l = true <-> In x l.
Proof.
  unfold memN. rewrite existsb_exists. split.
  - intros (y & Hy & Heq). apply N.eqb_eq in Heq. subst; auto.
  - intros H. exists x; split; auto. apply N.eqb_refl.
Qed.

Lemma memN_false x l : memN x l = false <-> ~ In x l.
Proof.
  rewrite <- memN_In. destruct (memN x l); split; intros; congruence.
Qed.

(* ------------------------------------------------------------------ trees: hashes stay inside a set *)

Definition allP (P : N -> Prop) (t : cnode) : Prop := forall x, In x (hashes t) -> P x.

Lemma allP_node P h ht st ph ks :
  allP P (CNode h ht st ph ks) <-> P h /\ forall k, In k ks -> allP P k.
Proof.
  unfold allP; simpl. split.
  - intros H; split; [apply H; auto|]. intros k Hk x Hx. apply H. right.
    apply in_flat_map. exists k; auto.
  - intros [Hh Hk] x [<- | Hx]; auto.
    apply in_flat_map in Hx as (k & Hin & Hx). eapply Hk; eauto.
Qed.

Lemma get_at_allP P : forall p t n, allP P t -> get_at p t = Some n -> allP P n.
Proof.
  induction p as [| i p IH]; intros t n Ht Hg; simpl in Hg.
  - inversion Hg; subst; auto.
  - destruct (nth_error (kids_of t) i) as [k |] eqn:Hk; [| discriminate].
    eapply IH; [| exact Hg].
    destruct t as [h ht st ph ks]; simpl in Hk.
    apply allP_node in Ht as [_ Ht]. apply Ht. eapply nth_error_In; eauto.
Qed.

Lemma upd_nth_in {A} (f : A -> A) : forall i l y,
  In y (upd_nth i f l) -> In y l \/ exists x, In x l /\ y = f x.
Proof.
  induction i as [| i IH]; intros [| x l] y H; simpl in *; auto.
  - destruct H as [<- | H]; [right; exists x; auto | left; auto].
  - destruct H as [<- | H]; [left; auto |].
    destruct (IH l y H) as [? | (z & ? & ?)]; [left; auto | right; exists z; auto].
Qed.

Lemma update_at_allP P f :
  (forall n, allP P n -> allP P (f n)) ->
  forall p t, allP P t -> allP P (update_at p f t).
Proof.
  intros Hf. induction p as [| i p IH]; intros t Ht; simpl; auto.
  destruct t as [h ht st ph ks].
  apply allP_node in Ht as [Hh Hk]. apply allP_node. split; auto.
  intros k Hin. apply upd_nth_in in Hin as [Hin | (x & Hin & ->)]; auto.
Qed.

Lemma set_status_allP P s n : allP P n -> allP P (set_status s n).
Proof. destruct n; simpl. rewrite !allP_node. auto. Qed.

Lemma set_finalized_allP P s t : allP P t -> allP P (set_finalized s t).
Proof.
  intros Ht. unfold set_finalized.
  destruct (find_path s t) as [p |]; auto.
  destruct (get_at p t) as [n |] eqn:Hg; auto.
  apply set_status_allP. eapply get_at_allP; eauto.
Qed.

Lemma set_justified_allP P p s t : allP P t -> allP P (set_justified p s t).
Proof.
  intros Ht. unfold set_justified.
  destruct (get_at p t) as [n |]; auto.
  assert (allP P (update_at p (set_status Justified) t))
    by (apply update_at_allP; auto using set_status_allP).
  destruct (cphash_of n =? s); auto using set_finalized_allP.
Qed.

Section Chain.

Variable V : variant.
Variable E : N.
Variable U : N -> binfo.
Variable g : N.
Hypothesis genesis_height : bheight (U g) = 0.

Notation hgt := (hgt U).
Notation par := (par U).

Lemma increase_allP (P : N -> Prop) b n : P b -> allP P n -> allP P (increase E U b n).
Proof. destruct n; simpl. rewrite !allP_node. intuition. Qed.

Lemma add_kid_allP (P : N -> Prop) b n : P b -> allP P n -> allP P (add_kid E U b n).
Proof.
  destruct n as [h ht st ph ks]; simpl. rewrite !allP_node. intros Hb [Hh Hk]. split; auto.
  intros k Hin. apply in_app_or in Hin as [Hin | [<- | []]]; auto.
  apply allP_node; split; auto. intros ? [].
Qed.

Lemma cp_node_allP (P : N -> Prop) st : (forall h, memN h st = true -> P h) ->
  forall fuel t h t' p, allP P t -> cp_node E U fuel st t h = Some (t', p) -> allP P t'.
Proof.
  intros HP. induction fuel as [| fuel IH]; intros t h t' p Ht H; simpl in H.
  - destruct (find_path h t); [inversion H; subst; auto |].
    destruct (negb (memN h st)); [discriminate |].
    destruct (hgt h mod E =? 0); discriminate.
  - destruct (find_path h t); [inversion H; subst; auto |].
    destruct (memN h st) eqn:Hm; simpl in H; [| discriminate].
    destruct (hgt h mod E =? 0); [discriminate |].
    destruct (cp_node E U fuel st t (par h)) as [[t1 p1] |] eqn:Hc; [| discriminate].
    assert (allP P t1) by (eapply IH; eauto).
    destruct (hgt h mod E =? 1); inversion H; subst;
      apply update_at_allP; auto; intros; [apply add_kid_allP | apply increase_allP]; auto.
Qed.

Lemma apply_block_allP (P : N -> Prop) st t b t' :
  (forall h, memN h st = true -> P h) -> P b -> allP P t ->
  apply_block E U st t b = Some t' -> allP P t'.
Proof.
  intros HP Hb Ht H. unfold apply_block in H.
  destruct (find_path b t); [inversion H; subst; auto |].
  destruct (cp_node E U (S (N.to_nat (hgt b))) st t (par b)) as [[t1 p] |] eqn:Hc; [| discriminate].
  assert (Ht1 : allP P t1) by (eapply cp_node_allP; eauto).
  set (r := if hgt b mod E =? 1
            then (update_at p (add_kid E U b) t1, (p ++ [nkids_at p t1])%list)
            else (update_at p (increase E U b) t1, p)) in *.
  assert (Hr : allP P (fst r)).
  { unfold r. destruct (hgt b mod E =? 1); simpl; apply update_at_allP; auto; intros;
      [apply add_kid_allP | apply increase_allP]; auto. }
  destruct r as [t2 pt]; simpl in Hr.
  destruct (bjust (U b)) as [s |]; [| inversion H; subst; auto].
  destruct (get_at pt t2) as [n |]; [| inversion H; subst; auto].
  destruct (is_unjustified (cst_of n)); inversion H; subst; auto using set_justified_allP.
Qed.

(* ------------------------------------------------------------------ the block tree *)

Fixpoint up (n : nat) (b : N) : N :=
  match n with
  | O => b
  | S n' => up n' (par b)
  end.

(* the ancestor of b at height h *)
Definition anc (b h : N) : N := up (N.to_nat (hgt b - h)) b.

(* the n blocks ending with b, lowest first *)
Fixpoint path (n : nat) (b : N) : list N :=
  match n with
  | O => []
  | S n' => path n' (par b) ++ [b]
  end.

Definition wf (st : list N) : Prop :=
  In g st /\ forall b, In b st -> b <> g -> In (par b) st /\ hgt b = hgt (par b) + 1.

Lemma up_S n : forall b, up (S n) b = par (up n b).
Proof. induction n as [| n IH]; intros b; [reflexivity |]. simpl in *. rewrite <- IH. reflexivity. Qed.

Lemma up_add n m : forall b, up (n + m) b = up n (up m b).
Proof.
  induction m as [| m IH]; intros b.
  - rewrite Nat.add_0_r. reflexivity.
  - rewrite Nat.add_succ_r. simpl. apply IH.
Qed.

Lemma path_cons i : forall b, path (S i) b = up i b :: path i b.
Proof.
  induction i as [| i IH]; intros b; [reflexivity |].
  change (path (S (S i)) b) with (path (S i) (par b) ++ [b]).
  rewrite IH. simpl. reflexivity.
Qed.

Lemma wf_parent st b : wf st -> In b st -> 0 < hgt b ->
  In (par b) st /\ hgt (par b) = hgt b - 1.
Proof.
  intros [Hg Hw] Hb Hh.
  assert (b <> g) by (intros ->; unfold Model.hgt in Hh; lia).
  destruct (Hw b Hb H) as [Hp Heq]. split; auto. lia.
Qed.

Lemma wf_height0 st b : wf st -> In b st -> hgt b = 0 -> b = g.
Proof.
  intros [Hg Hw] Hb Hh. destruct (N.eq_dec b g) as [| Hne]; auto.
  destruct (Hw b Hb Hne) as [_ Heq]. lia.
Qed.

Lemma up_in st : wf st -> forall n b, In b st -> N.of_nat n <= hgt b ->
  In (up n b) st /\ hgt (up n b) = hgt b - N.of_nat n.
Proof.
  intros Hwf. induction n as [| n IH]; intros b Hb Hn; simpl up.
  - split; auto. lia.
  - destruct (wf_parent st b Hwf Hb) as [Hp Hh]; [lia |].
    destruct (IH (par b) Hp) as [Hin Heq]; [lia |]. split; auto. lia.
Qed.

Lemma anc_up st b n h : wf st -> In b st -> N.of_nat n <= hgt b -> h <= hgt b - N.of_nat n ->
  anc b h = anc (up n b) h.
Proof.
  intros Hwf Hb Hn Hh. unfold anc.
  destruct (up_in st Hwf n b Hb Hn) as [_ Heq]. rewrite Heq.
  replace (N.to_nat (hgt b - h)) with (N.to_nat (hgt b - N.of_nat n - h) + n)%nat by lia.
  apply up_add.
Qed.

(* calcReorganizeChain: the attach list is the path from a common ancestor (exclusive) up to the
   new best, the detach list the path from the old best down to it, and the call succeeds *)
Lemma calc_reorg_spec st a0 d0 : wf st -> In a0 st -> In d0 st ->
  forall fuel i j,
    N.of_nat i <= hgt a0 -> N.of_nat j <= hgt d0 ->
    (N.to_nat (hgt (up i a0)) + N.to_nat (hgt (up j d0)) < fuel)%nat ->
    exists i' j',
      calc_reorg U fuel st (up i a0) (up j d0) (path i a0) (rev (path j d0))
      = Some (path i' a0, rev (path j' d0)) /\
      N.of_nat i' <= hgt a0 /\ N.of_nat j' <= hgt d0 /\ up i' a0 = up j' d0.
Proof.
  intros Hwf Ha0 Hd0. induction fuel as [| fuel IH]; intros i j Hi Hj Hf; [lia |].
  destruct (up_in st Hwf i a0 Ha0 Hi) as [Hain Hah].
  destruct (up_in st Hwf j d0 Hd0 Hj) as [Hdin Hdh].
  simpl calc_reorg.
  destruct (up i a0 =? up j d0) eqn:Heq.
  - apply N.eqb_eq in Heq. exists i, j. auto.
  - apply N.eqb_neq in Heq.
    destruct (hgt (up j d0) <=? hgt (up i a0)) eqn:Har; destruct (hgt (up i a0) <=? hgt (up j d0)) eqn:Hdr;
      try apply N.leb_le in Har; try apply N.leb_gt in Har;
      try apply N.leb_le in Hdr; try apply N.leb_gt in Hdr.
    + (* equal heights: both step *)
      assert (0 < hgt (up i a0)).
      { destruct (N.eq_dec (hgt (up i a0)) 0) as [H0 |]; [| lia]. exfalso. apply Heq.
        rewrite (wf_height0 st _ Hwf Hain H0). symmetry. apply (wf_height0 st _ Hwf Hdin). lia. }
      destruct (wf_parent st _ Hwf Hain) as [Hpa Hpah]; [lia |].
      destruct (wf_parent st _ Hwf Hdin) as [Hpd Hpdh]; [lia |].
      apply memN_In in Hpa. apply memN_In in Hpd. rewrite Hpa, Hpd. simpl.
      rewrite <- !up_S, <- path_cons.
      replace (rev (path j d0) ++ [up j d0])%list with (rev (path (S j) d0))
        by (rewrite path_cons; reflexivity).
      apply IH; try lia. rewrite !up_S. lia.
    + (* attach side is higher *)
      destruct (wf_parent st _ Hwf Hain) as [Hpa Hpah]; [lia |].
      apply memN_In in Hpa. rewrite Hpa. simpl.
      rewrite <- !up_S, <- path_cons.
      apply IH; try lia. rewrite !up_S. lia.
    + (* detach side is higher *)
      destruct (wf_parent st _ Hwf Hdin) as [Hpd Hpdh]; [lia |].
      apply memN_In in Hpd. rewrite Hpd. simpl.
      rewrite <- !up_S.
      replace (rev (path j d0) ++ [up j d0])%list with (rev (path (S j) d0))
        by (rewrite path_cons; reflexivity).
      apply IH; try lia. rewrite !up_S. lia.
    + lia.
Qed.

(* ------------------------------------------------------------------ the index *)

Lemma idx_get_del h H m :
  idx_get h (idx_del_above H m) = if h <=? H then idx_get h m else None.
Proof.
  induction m as [| [k v] m IH]; simpl.
  - destruct (h <=? H); reflexivity.
  - destruct (k <=? H) eqn:Hk; simpl.
    + destruct (k =? h) eqn:Hkh; auto.
      apply N.eqb_eq in Hkh; subst. rewrite Hk. reflexivity.
    + rewrite IH. destruct (k =? h) eqn:Hkh; auto.
      apply N.eqb_eq in Hkh; subst. rewrite Hk. reflexivity.
Qed.

Lemma idx_path st : wf st -> forall n b m h, In b st -> N.of_nat n <= hgt b ->
  idx_get h (fold_left (fun m x => idx_set (hgt x) x m) (path n b) m)
  = if (hgt b - N.of_nat n <? h) && (h <=? hgt b) then Some (anc b h) else idx_get h m.
Proof.
  intros Hwf. induction n as [| n IH]; intros b m h Hb Hn.
  - cbn [path fold_left N.of_nat]. rewrite N.sub_0_r.
    destruct (hgt b <? h) eqn:H1; destruct (h <=? hgt b) eqn:H2; simpl; auto.
    apply N.ltb_lt in H1. apply N.leb_le in H2. lia.
  - simpl path. rewrite fold_left_app. simpl fold_left. unfold idx_set at 1. simpl idx_get.
    destruct (wf_parent st b Hwf Hb) as [Hp Hh]; [lia |].
    destruct (hgt b =? h) eqn:Hbh.
    + apply N.eqb_eq in Hbh. subst h.
      replace (hgt b - N.of_nat (S n) <? hgt b) with true by (symmetry; apply N.ltb_lt; lia).
      rewrite N.leb_refl. simpl. unfold anc. rewrite N.sub_diag. reflexivity.
    + apply N.eqb_neq in Hbh.
      rewrite (IH (par b) m h Hp) by lia.
      destruct (hgt b - N.of_nat (S n) <? h) eqn:H1; destruct (h <=? hgt b) eqn:H2;
        destruct (hgt (par b) - N.of_nat n <? h) eqn:H3; destruct (h <=? hgt (par b)) eqn:H4;
        try apply N.ltb_lt in H1; try apply N.ltb_ge in H1;
        try apply N.leb_le in H2; try apply N.leb_gt in H2;
        try apply N.ltb_lt in H3; try apply N.ltb_ge in H3;
        try apply N.leb_le in H4; try apply N.leb_gt in H4; simpl; auto; try lia.
      f_equal. unfold anc.
      replace (N.to_nat (hgt b - h)) with (S (N.to_nat (hgt (par b) - h))) by lia.
      reflexivity.
Qed.

(* index consistent with the best block b *)
Definition idx_ok (b : N) (m : index) : Prop :=
  (forall h, h <= hgt b -> idx_get h m = Some (anc b h)) /\
  (clear_stale V = true -> forall h, hgt b < h -> idx_get h m = None).

Definition Inv (s : state) : Prop :=
  wf (store s) /\ In (best s) (store s) /\ idx_ok (best s) (idx s) /\
  allP (fun x => In x (store s)) (tree s).

(* while the node answers, the best block is casper's best chain *)
Definition Best (s : state) : Prop := hung s = false -> best s = best_chain (tree s).

Lemma try_reorganize_ok s bh : Inv s -> In bh (store s) ->
  let s' := try_reorganize V U s bh in
  Inv s' /\ best s' = bh /\ tree s' = tree s /\ hung s' = hung s.
Proof.
  intros (Hwf & Hbest & [Hidx1 Hidx2] & Htree) Hbh. unfold try_reorganize.
  destruct (best s =? bh) eqn:Heq.
  { apply N.eqb_eq in Heq. simpl. split; [unfold Inv, idx_ok; auto | auto]. }
  apply memN_In in Hbh as Hm. rewrite Hm. simpl negb. cbv iota.
  destruct (calc_reorg_spec (store s) bh (best s) Hwf Hbh Hbest
              (S (N.to_nat (hgt bh) + N.to_nat (hgt (best s)))) 0 0) as (i & j & Hc & Hi & Hj & Hcommon);
    try (simpl; lia).
  simpl up in Hc. simpl path in Hc. simpl rev in Hc. rewrite Hc. unfold Inv; simpl.
  split; [| auto].
  split; [exact Hwf |]. split; [exact Hbh |]. split; [| exact Htree].
  split.
  - (* heights up to the new best *)
    intros h Hh.
    destruct (up_in (store s) Hwf i bh Hbh Hi) as [Hcin Hch].
    destruct (up_in (store s) Hwf j (best s) Hbest Hj) as [_ Hch'].
    assert (Hget : idx_get h (fold_left (fun m x => idx_set (hgt x) x m) (path i bh) (idx s)) = Some (anc bh h)).
    { rewrite (idx_path (store s) Hwf i bh (idx s) h Hbh Hi).
      destruct (hgt bh - N.of_nat i <? h) eqn:H1.
      - replace (h <=? hgt bh) with true by (symmetry; apply N.leb_le; lia). reflexivity.
      - apply N.ltb_ge in H1. simpl.
        rewrite Hidx1 by (rewrite <- Hcommon in Hch'; lia).
        f_equal.
        rewrite (anc_up (store s) (best s) j h Hwf Hbest Hj) by (rewrite <- Hcommon in Hch'; lia).
        rewrite (anc_up (store s) bh i h Hwf Hbh Hi) by lia.
        rewrite Hcommon. reflexivity. }
    unfold save_index. destruct (clear_stale V); auto.
    rewrite idx_get_del. replace (h <=? hgt bh) with true by (symmetry; apply N.leb_le; lia). auto.
  - (* nothing above it (repaired variant) *)
    intros Hcs h Hh. unfold save_index. rewrite Hcs. rewrite idx_get_del.
    replace (h <=? hgt bh) with false by (symmetry; apply N.leb_gt; lia). reflexivity.
Qed.

(* one state preserves another: what saveBlock / saveSubBlock keep *)
Definition keeps (s s' : state) : Prop :=
  Inv s' /\ best s' = best s /\ idx s' = idx s /\ hung s' = hung s.

Lemma keeps_refl s : Inv s -> keeps s s.
Proof. unfold keeps; auto. Qed.

Lemma keeps_trans s1 s2 s3 : keeps s1 s2 -> keeps s2 s3 -> keeps s1 s3.
Proof.
  unfold keeps. intros (I2 & b2 & i2 & h2) (I3 & b3 & i3 & h3).
  split; [exact I3 |]. split; [congruence |]. split; congruence.
Qed.

Lemma save_block_keeps s b s' : Inv s -> save_block E U s b = Some s' -> keeps s s'.
Proof.
  intros (Hwf & Hbest & Hidx & Htree) H. unfold save_block in H.
  destruct (memN (par b) (store s)) eqn:Hp; simpl in H; [| discriminate].
  destruct (bok (U b) && (hgt b =? hgt (par b) + 1)) eqn:Hok; simpl in H; [| discriminate].
  apply andb_true_iff in Hok as [_ Hh]. apply N.eqb_eq in Hh. apply memN_In in Hp.
  destruct (apply_block E U (store s) (tree s) b) as [t' |] eqn:Ha; [| discriminate].
  inversion H; subst; clear H. unfold keeps, Inv; simpl.
  set (st' := if memN b (store s) then store s else b :: store s).
  assert (Hincl : forall x, In x (store s) -> In x st').
  { unfold st'. destruct (memN b (store s)); simpl; auto. }
  assert (Hb : In b st').
  { unfold st'. destruct (memN b (store s)) eqn:Hm; [apply memN_In; auto | left; auto]. }
  repeat split; auto.
  - apply Hincl, Hwf.
  - destruct Hwf as [_ Hw]. unfold st' in H. destruct (memN b (store s)); [apply Hw; auto |].
    destruct H as [<- | H]; [apply Hincl; auto | ]. right. apply Hw; auto.
  - destruct Hwf as [_ Hw]. unfold st' in H. destruct (memN b (store s)); [apply Hw; auto |].
    destruct H as [<- | H]; [auto | apply Hw; auto].
  - apply Hidx.
  - apply Hidx.
  - eapply apply_block_allP; [| | | exact Ha]; simpl; auto.
    + intros h Hm. apply Hincl. apply memN_In; auto.
    + intros x Hx. apply Hincl. apply Htree; auto.
Qed.

Lemma save_sub_keeps : forall fuel s b, Inv s -> keeps s (save_sub E U fuel s b).
Proof.
  induction fuel as [| fuel IH]; intros s b Hs; simpl; [apply keeps_refl; auto |].
  generalize (filter (fun o => Model.par U o =? b) (orphans s)). intros l.
  revert s Hs. induction l as [| o l IHl]; intros s Hs; simpl; [apply keeps_refl; auto |].
  destruct (memN o (orphans s)); [| apply IHl; auto].
  destruct (save_block E U s o) as [s1 |] eqn:Hsb; [| apply IHl; auto].
  pose proof (save_block_keeps s o s1 Hs Hsb) as K1.
  pose proof (IH s1 o (proj1 K1)) as K2.
  pose proof (keeps_trans _ _ _ K1 K2) as K3.
  eapply keeps_trans; [exact K3 |]. apply IHl. apply K3.
Qed.

Lemma process_block_ok s b : Inv s ->
  Inv (process_block V E U s b) /\ (Best s -> Best (process_block V E U s b)).
Proof.
  intros Hs. unfold process_block.
  destruct ((memN b (store s) || memN b (orphans s)) && (hgt b <=? hgt (best s))); [auto |].
  destruct (negb (memN (par b) (store s))).
  { destruct (memN b (orphans s)); auto. }
  destruct (save_block E U s b) as [s1 |] eqn:Hsb; [| auto].
  pose proof (save_block_keeps s b s1 Hs Hsb) as K1.
  pose proof (save_sub_keeps (S (length (orphans s1))) s1 b (proj1 K1)) as K2.
  set (s2 := save_sub E U (S (length (orphans s1))) s1 b) in *.
  destruct K2 as (Hi2 & _).
  assert (Hin : In (best_chain (tree s2)) (store s2)).
  { destruct Hi2 as (_ & _ & _ & Ht). apply Ht. apply best_chain_in_hashes. }
  destruct (try_reorganize_ok s2 _ Hi2 Hin) as (Hi3 & Hb3 & Ht3 & _).
  split; auto. intros _ _. rewrite Hb3, Ht3. reflexivity.
Qed.

Lemma justify_ok s t src : Inv s -> hung s = false ->
  Inv (justify V U s t src) /\ (Best s -> Best (justify V U s t src)).
Proof.
  intros Hs Hh. unfold justify.
  destruct (find_path t (tree s)) as [p |]; [| auto].
  destruct (get_at p (tree s)) as [n |]; [| auto].
  destruct (is_unjustified (cst_of n)); [| auto].
  set (tr := set_justified p src (tree s)).
  assert (Htr : allP (fun x => In x (store s)) tr).
  { apply set_justified_allP. apply Hs. }
  assert (Hi : Inv (mks (store s) (orphans s) tr (best s) (idx s) (hung s))).
  { destruct Hs as (? & ? & ? & ?). unfold Inv; simpl; auto. }
  destruct (best_chain (tree s) =? best_chain tr) eqn:Heq.
  - split; auto. intros Hb _. simpl. apply N.eqb_eq in Heq. rewrite <- Heq. apply Hb; auto.
  - destruct (rollback_deadlocks V).
    + split.
      * destruct Hs as (? & ? & ? & ?). unfold Inv; simpl; auto.
      * intros _ H; simpl in H; discriminate.
    + assert (Hin : In (best_chain tr) (store s)) by (apply Htr; apply best_chain_in_hashes).
      destruct (try_reorganize_ok _ _ Hi Hin) as (Hi3 & Hb3 & Ht3 & _).
      split; auto. intros _ _. rewrite Hb3, Ht3. reflexivity.
Qed.

Lemma late_justify_inv s t src : Inv s -> Inv (late_justify s t src).
Proof.
  intros Hs. unfold late_justify.
  destruct (find_path t (tree s)) as [p |]; [| auto].
  destruct (get_at p (tree s)) as [n |]; [| auto].
  destruct (is_unjustified (cst_of n)); [| auto].
  destruct Hs as (? & ? & ? & ?). unfold Inv; simpl. repeat (split; [assumption |]).
  apply set_justified_allP. assumption.
Qed.

Lemma step_ok s e : Inv s ->
  Inv (step V E U s e) /\ (is_late e = false -> Best s -> Best (step V E U s e)).
Proof.
  intros Hs. unfold step. destruct (hung s) eqn:Hh; [auto |].
  destruct e as [b | t src | t src |]; simpl.
  - destruct (process_block_ok s b Hs); auto.
  - destruct (justify_ok s t src Hs Hh); auto.
  - split; [apply late_justify_inv; auto | discriminate].
  - auto.
Qed.

Lemma init_ok : Inv (init g) /\ Best (init g).
Proof.
  assert (Hg : hgt g = 0) by (unfold Model.hgt; exact genesis_height).
  split; [| intros _; reflexivity].
  unfold Inv, init; simpl.
  split; [| split; [left; reflexivity | split]].
  - split; [left; reflexivity |]. intros b [<- | []] Hne; congruence.
  - split.
    + intros h Hh. rewrite Hg in Hh. assert (h = 0) by lia. subst h. simpl.
      unfold anc. rewrite Hg. reflexivity.
    + intros _ h Hh. rewrite Hg in Hh. destruct h; [lia | reflexivity].
  - intros x [<- | []]. left; reflexivity.
Qed.

Lemma fold_step_inv evs : forall s, Inv s -> Inv (fold_left (step V E U) evs s).
Proof.
  induction evs as [| e evs IH]; intros s Hs; simpl; auto.
  apply IH. apply step_ok; auto.
Qed.

Lemma fold_step_best evs : forall s, Inv s -> Best s -> no_late evs = true ->
  Best (fold_left (step V E U) evs s).
Proof.
  induction evs as [| e evs IH]; intros s Hs Hb Hn; simpl; auto.
  simpl in Hn. apply andb_true_iff in Hn as [He Hn]. apply negb_true_iff in He.
  destruct (step_ok s e Hs) as [Hi Hbest]. apply IH; auto.
Qed.

Theorem run_inv evs : Inv (run V E U g evs).
Proof. unfold run. destruct init_ok. apply fold_step_inv; auto. Qed.

Theorem run_best evs : no_late evs = true -> Best (run V E U g evs).
Proof. unfold run. destruct init_ok. apply fold_step_best; auto. Qed.

(* ------------------------------------------------------------------ the three statements *)

Theorem best_is_fork_choice evs :
  no_late evs = true ->
  let s := run V E U g evs in
  hung s = false -> fork_choice (tree s) (best s).
Proof.
  intros Hn s Hh. pose proof (run_best evs Hn) as Hb. fold s in Hb.
  rewrite (Hb Hh). apply best_chain_fork_choice.
Qed.

Theorem index_is_ancestry evs h :
  let s := run V E U g evs in
  h <= hgt (best s) -> idx_get h (idx s) = Some (anc (best s) h).
Proof.
  intros s Hh. destruct (run_inv evs) as (_ & _ & [Hi _] & _). apply Hi; auto.
Qed.

(* b is the best block or one of its ancestors *)
Definition on_best_chain (s : state) (b : N) : Prop :=
  exists n, N.of_nat n <= hgt (best s) /\ up n (best s) = b.

Lemma anc_self_up st b n : wf st -> In b st -> N.of_nat n <= hgt b ->
  anc b (hgt (up n b)) = up n b.
Proof.
  intros Hwf Hb Hn. destruct (up_in st Hwf n b Hb Hn) as [_ Heq].
  unfold anc. rewrite Heq. replace (N.to_nat (hgt b - (hgt b - N.of_nat n))) with n by lia. reflexivity.
Qed.

Theorem on_best_chain_in_main evs b :
  let s := run V E U g evs in
  on_best_chain s b -> in_main_chain U s b = true.
Proof.
  intros s (n & Hn & <-). destruct (run_inv evs) as (Hwf & Hbest & [Hi _] & _). fold s in Hwf, Hbest, Hi.
  destruct (up_in (store s) Hwf n (best s) Hbest Hn) as [Hin Heq].
  unfold in_main_chain. apply memN_In in Hin. rewrite Hin.
  rewrite Hi by lia. rewrite (anc_self_up (store s)); auto. apply N.eqb_refl.
Qed.

Theorem in_main_chain_iff evs b : clear_stale V = true ->
  let s := run V E U g evs in
  in_main_chain U s b = true <-> on_best_chain s b.
Proof.
  intros Hcs s. split; [| apply on_best_chain_in_main].
  destruct (run_inv evs) as (Hwf & Hbest & [Hi1 Hi2] & _). fold s in Hwf, Hbest, Hi1, Hi2.
  unfold in_main_chain. destruct (memN b (store s)) eqn:Hm; [| discriminate].
  destruct (N.le_gt_cases (hgt b) (hgt (best s))) as [Hle | Hgt].
  - rewrite Hi1 by auto. intros Heq. apply N.eqb_eq in Heq.
    exists (N.to_nat (hgt (best s) - hgt b)). split; [lia | exact Heq].
  - rewrite Hi2 by auto. discriminate.
Qed.

(* the node stops answering only through a verification message, and only in the variant in which
   the rollback needs the lock that AuthVerification holds *)
Lemma try_reorganize_hung s bh : hung (try_reorganize V U s bh) = hung s.
Proof.
  unfold try_reorganize.
  destruct (best s =? bh); auto.
  destruct (negb (memN bh (store s))); auto.
  destruct (calc_reorg U _ (store s) bh (best s) [] []) as [[? ?] |]; auto.
Qed.

Lemma save_block_hung s b s' : save_block E U s b = Some s' -> hung s' = hung s.
Proof.
  unfold save_block.
  destruct (negb (memN (par b) (store s))); [discriminate |].
  destruct (negb (bok (U b) && (hgt b =? hgt (par b) + 1))); [discriminate |].
  destruct (apply_block E U (store s) (tree s) b); [| discriminate].
  intros H; inversion H; reflexivity.
Qed.

Lemma save_sub_hung : forall fuel s b, hung (save_sub E U fuel s b) = hung s.
Proof.
  induction fuel as [| fuel IHf]; intros s b; simpl; auto.
  generalize (filter (fun o => Model.par U o =? b) (orphans s)). intros l.
  revert s. induction l as [| o l IHl]; intros s; simpl; auto.
  destruct (memN o (orphans s)); [| apply IHl].
  destruct (save_block E U s o) as [s' |] eqn:H0; [| apply IHl].
  rewrite IHl, IHf. eapply save_block_hung; eauto.
Qed.

Lemma process_block_hung s b : hung (process_block V E U s b) = hung s.
Proof.
  unfold process_block.
  destruct ((memN b (store s) || memN b (orphans s)) && (hgt b <=? hgt (best s))); auto.
  destruct (negb (memN (par b) (store s))).
  { destruct (memN b (orphans s)); auto. }
  destruct (save_block E U s b) as [s1 |] eqn:Hsb; auto.
  rewrite try_reorganize_hung, save_sub_hung. eapply save_block_hung; eauto.
Qed.

Lemma justify_hung s t src : hung (justify V U s t src) = true ->
  hung s = true \/ rollback_deadlocks V = true.
Proof.
  unfold justify.
  destruct (find_path t (tree s)) as [p |]; auto.
  destruct (get_at p (tree s)) as [n |]; auto.
  destruct (is_unjustified (cst_of n)); auto.
  destruct (best_chain (tree s) =? best_chain (set_justified p src (tree s))); simpl; auto.
  destruct (rollback_deadlocks V) eqn:Hr; auto.
  rewrite try_reorganize_hung. simpl. auto.
Qed.

Lemma hung_only_by_vote evs : forall s,
  hung (fold_left (step V E U) evs s) = true ->
  hung s = true \/ (rollback_deadlocks V = true /\ exists t src, In (Justify t src) evs).
Proof.
  induction evs as [| e evs IH]; intros s H; simpl in H; auto.
  destruct (IH _ H) as [Hs | (Hr & t & src & Hin)].
  - unfold step in Hs. destruct (hung s) eqn:Hh; auto.
    destruct e as [b | t src | t src |].
    + rewrite process_block_hung in Hs. congruence.
    + apply justify_hung in Hs as [Hs | Hs]; [congruence |].
      right. split; auto. exists t, src. left; reflexivity.
    + exfalso. revert Hs. unfold late_justify.
      destruct (find_path t (tree s)) as [p |]; [| congruence].
      destruct (get_at p (tree s)) as [n |]; [| congruence].
      destruct (is_unjustified (cst_of n)); simpl; congruence.
    + congruence.
  - right. split; auto. exists t, src. right; auto.
Qed.

Theorem answers_without_votes evs :
  (rollback_deadlocks V = false \/ forall t src, ~ In (Justify t src) evs) ->
  hung (run V E U g evs) = false.
Proof.
  intros H. destruct (hung (run V E U g evs)) eqn:Hh; auto.
  apply hung_only_by_vote in Hh as [Hi | (Hr & t & src & Hin)].
  - simpl in Hi. discriminate.
  - destruct H as [H | H]; [congruence | exfalso; eapply H; eauto].
Qed.

End Chain.

(* ------------------------------------------------------------------ statements with the section closed *)

Lemma calc_reorganize_paths U g st a d : bheight (U g) = 0 -> wf U g st -> In a st -> In d st ->
  exists i j,
    calc_reorg U (S (N.to_nat (hgt U a) + N.to_nat (hgt U d))) st a d [] []
    = Some (path U i a, rev (path U j d)) /\
    N.of_nat i <= hgt U a /\ N.of_nat j <= hgt U d /\ up U i a = up U j d.
Proof.
  intros Hg Hwf Ha Hd.
  apply (calc_reorg_spec U g Hg st a d Hwf Ha Hd (S (N.to_nat (hgt U a) + N.to_nat (hgt U d))) 0 0);
    simpl; lia.
Qed.

(* the full statement about InMainChain, per model variant *)
Definition C11_in_main_chain_full (V : variant) : Prop :=
  forall E U g evs b, bheight (U g) = 0 ->
    let s := run V E U g evs in
    in_main_chain U s b = true <-> on_best_chain U s b.

Lemma in_main_chain_repaired d : C11_in_main_chain_full (mkv true d).
Proof.
  intros E U g evs b Hg. apply in_main_chain_iff; auto.
Qed.

(* witness: epoch length 2; trunk 2,3 on genesis 1; branch 4,5,6 (heights 3..5) arrives first;
   branch 7,8 (heights 3,4) whose checkpoint 8 carries a supermajority link from genesis: the best
   block becomes 8 (height 4) while the old best had height 5 *)
Definition wit_blocks (h : N) : binfo :=
  match h with
  | 1 => mkb 0 0 true None
  | 2 => mkb 1 1 true None
  | 3 => mkb 2 2 true None
  | 4 => mkb 3 3 true None
  | 5 => mkb 4 4 true None
  | 6 => mkb 5 5 true None
  | 7 => mkb 3 3 true None
  | 8 => mkb 7 4 true (Some 1)
  | _ => mkb 0 0 false None
  end.

Definition wit_events : list event :=
  [Deliver 2; Deliver 3; Deliver 4; Deliver 5; Deliver 6; Deliver 7; Deliver 8].

Lemma wit_not_on_best_chain V : best (run V 2 wit_blocks 1 wit_events) = 8 ->
  ~ on_best_chain wit_blocks (run V 2 wit_blocks 1 wit_events) 6.
Proof.
  intros Hb (n & Hn & Hup). rewrite Hb in *.
  do 5 (destruct n as [| n]; [vm_compute in Hup; discriminate |]).
  change (hgt wit_blocks 8) with 4 in Hn. lia.
Qed.

Lemma in_main_chain_pinned_refuted d : ~ C11_in_main_chain_full (mkv false d).
Proof.
  intros H.
  assert (Hb : best (run (mkv false d) 2 wit_blocks 1 wit_events) = 8) by (destruct d; vm_compute; reflexivity).
  apply (wit_not_on_best_chain _ Hb).
  apply (H 2 wit_blocks 1 wit_events 6 eq_refl).
  destruct d; vm_compute; reflexivity.
Qed.

(* the hypotheses are satisfiable by non-trivial histories *)
Example wit_repaired :
  let s := run (mkv true true) 2 wit_blocks 1 wit_events in
  hung s = false /\ best s = 8 /\ in_main_chain wit_blocks s 6 = false /\
  in_main_chain wit_blocks s 7 = true /\ idx_get 5 (idx s) = None.
Proof. vm_compute. repeat split; reflexivity. Qed.

Definition wit_blocks_plain (h : N) : binfo :=
  match h with
  | 8 => mkb 7 4 true None
  | _ => wit_blocks h
  end.

(* the same justification through a verification message: the pinned node deadlocks, a node whose
   rollback is carried out reorganises to the shorter chain *)
Example wit_vote_deadlocks :
  hung (run (mkv true true) 2 wit_blocks_plain 1 (wit_events ++ [Justify 8 1])) = true /\
  best (run (mkv true true) 2 wit_blocks_plain 1 wit_events) = 6 /\
  best (run (mkv true false) 2 wit_blocks_plain 1 (wit_events ++ [Justify 8 1])) = 8.
Proof. vm_compute. repeat split; reflexivity. Qed.

(* the statements in the form used by Props.v *)
(* the full statement about the best block, over ALL histories (cached verification messages
   included) *)
Definition C11_best_full (V : variant) : Prop :=
  forall (E : N) (U : N -> binfo) (g : N) (evs : list event),
    bheight (U g) = 0 ->
    let s := run V E U g evs in
    hung s = false -> fork_choice (tree s) (best s).

Lemma best_statement :
  forall (V : variant) (E : N) (U : N -> binfo) (g : N) (evs : list event),
    bheight (U g) = 0 -> no_late evs = true ->
    let s := run V E U g evs in
    hung s = false -> fork_choice (tree s) (best s).
Proof. intros V E U g evs Hg Hn. exact (best_is_fork_choice V E U g Hg evs Hn). Qed.

(* witness: the blocks of [wit_blocks_plain]; the votes for checkpoint 8 arrived before block 8
   and are applied by the background loop after the last delivery: 8 is justified, the fork-choice
   rule selects 8, the best block is still 6 *)
Definition wit_late_events : list event := wit_events ++ [LateJustify 8 1].

Lemma best_refuted_cached_vote V : ~ C11_best_full V.
Proof.
  intros H.
  pose proof (H 2 wit_blocks_plain 1 wit_late_events eq_refl) as Hf. cbv zeta in Hf.
  assert (Hh : hung (run V 2 wit_blocks_plain 1 wit_late_events) = false)
    by (destruct V as [[|] [|]]; vm_compute; reflexivity).
  specialize (Hf Hh).
  assert (Hb : best (run V 2 wit_blocks_plain 1 wit_late_events) = 6)
    by (destruct V as [[|] [|]]; vm_compute; reflexivity).
  assert (Ht : fork_choice (tree (run V 2 wit_blocks_plain 1 wit_late_events)) 8).
  { replace 8 with (best_chain (tree (run V 2 wit_blocks_plain 1 wit_late_events)))
      by (destruct V as [[|] [|]]; vm_compute; reflexivity).
    apply best_chain_fork_choice. }
  rewrite Hb in Hf. pose proof (fork_choice_unique _ _ _ Hf Ht). discriminate.
Qed.

Example wit_guard_satisfiable :
  no_late wit_events = true /\ no_late (wit_events ++ [Justify 8 1; Nop]) = true /\
  no_late wit_late_events = false.
Proof. vm_compute. repeat split; reflexivity. Qed.

Lemma index_statement :
  forall (V : variant) (E : N) (U : N -> binfo) (g : N) (evs : list event) (h : N),
    bheight (U g) = 0 ->
    let s := run V E U g evs in
    h <= hgt U (best s) -> idx_get h (idx s) = Some (anc U (best s) h).
Proof. intros V E U g evs h Hg. exact (index_is_ancestry V E U g Hg evs h). Qed.

Lemma ancestors_statement :
  forall (V : variant) (E : N) (U : N -> binfo) (g : N) (evs : list event) (b : N),
    bheight (U g) = 0 ->
    let s := run V E U g evs in
    on_best_chain U s b -> in_main_chain U s b = true.
Proof. intros V E U g evs b Hg. exact (on_best_chain_in_main V E U g Hg evs b). Qed.

Lemma in_main_chain_statement :
  forall (d : bool) (E : N) (U : N -> binfo) (g : N) (evs : list event) (b : N),
    bheight (U g) = 0 ->
    let s := run (mkv true d) E U g evs in
    in_main_chain U s b = true <-> on_best_chain U s b.
Proof. intros d E U g evs b Hg. exact (in_main_chain_repaired d E U g evs b Hg). Qed.
