(* C11 — fork choice: bestNode is the maximum of a total order over the candidates of the
   checkpoint tree, independent of the order of children. *)
From Coq Require Import List NArith Bool Lia Permutation.
Import ListNotations.
From C11 Require Import Model.
Open Scope N_scope.

(* ------------------------------------------------------------------ induction on trees *)

Fixpoint cnode_ind' (P : cnode -> Prop)
         (H : forall h ht st ph ks, Forall P ks -> P (CNode h ht st ph ks)) (t : cnode) : P t :=
  match t with
  | CNode h ht st ph ks =>
    H h ht st ph ks
      ((fix go (ks : list cnode) : Forall P ks :=
          match ks with
          | [] => Forall_nil P
          | k :: ks' => Forall_cons k (cnode_ind' P H k) (go ks')
          end) ks)
  end.

(* ------------------------------------------------------------------ the order *)

(* a candidate / result of bestNode: ((hash, height), justified height);
   its key: (justified height, height, hash), compared lexicographically *)
Definition result := ((N * N) * N)%type.
Definition rk (r : result) : N * N * N := (snd r, snd (fst r), fst (fst r)).

Definition klt (a b : N * N * N) : Prop :=
  let '(a1, a2, a3) := a in
  let '(b1, b2, b3) := b in
  a1 < b1 \/ (a1 = b1 /\ a2 < b2) \/ (a1 = b1 /\ a2 = b2 /\ a3 < b3).

Definition kle (a b : N * N * N) : Prop := klt a b \/ a = b.

Lemma kle_refl a : kle a a.
Proof. right; reflexivity. Qed.

Lemma klt_trans a b c : klt a b -> klt b c -> klt a c.
Proof.
  destruct a as [[a1 a2] a3], b as [[b1 b2] b3], c as [[c1 c2] c3]; unfold klt; lia.
Qed.

Lemma kle_trans a b c : kle a b -> kle b c -> kle a c.
Proof.
  intros [H1 | ->] [H2 | ->]; unfold kle; eauto using klt_trans.
Qed.

Lemma kle_antisym a b : kle a b -> kle b a -> a = b.
Proof.
  intros [H1 | H1] [H2 | H2]; auto.
  destruct a as [[a1 a2] a3], b as [[b1 b2] b3]; unfold klt in *; lia.
Qed.

Lemma kle_total a b : kle a b \/ kle b a.
Proof.
  destruct a as [[a1 a2] a3], b as [[b1 b2] b3]; unfold kle, klt.
  destruct (N.lt_trichotomy a1 b1) as [?|[?|?]]; try (left; left; lia); try (right; left; lia).
  destruct (N.lt_trichotomy a2 b2) as [?|[?|?]]; try (left; left; lia); try (right; left; lia).
  destruct (N.lt_trichotomy a3 b3) as [?|[?|?]]; try (left; left; lia); try (right; left; lia).
  subst; left; right; reflexivity.
Qed.

Lemma rk_inj a b : rk a = rk b -> a = b.
Proof.
  destruct a as [[a1 a2] a3], b as [[b1 b2] b3]; unfold rk; simpl; congruence.
Qed.

Lemma better_spec cj ch chs bj bh bhs :
  better cj ch chs bj bh bhs = true <-> klt (bj, bh, bhs) (cj, ch, chs).
Proof.
  unfold better, klt.
  rewrite !orb_true_iff, !andb_true_iff, !N.ltb_lt, !N.eqb_eq. lia.
Qed.

Lemma pick_spec acc r :
  (pick acc r = r /\ klt (rk acc) (rk r)) \/ (pick acc r = acc /\ kle (rk r) (rk acc)).
Proof.
  destruct acc as [[bhs bh] bj], r as [[chs ch] cj]; unfold pick, rk; simpl.
  destruct (better cj ch chs bj bh bhs) eqn:Hb.
  - left; split; auto. apply better_spec; exact Hb.
  - right; split; auto.
    destruct (kle_total (cj, ch, chs) (bj, bh, bhs)) as [H | [H | H]]; auto.
    + apply better_spec in H; congruence.
    + right; congruence.
Qed.

Lemma fold_pick_max (l : list result) : forall acc,
  let m := fold_left pick l acc in
  (m = acc \/ In m l) /\ kle (rk acc) (rk m) /\ forall x, In x l -> kle (rk x) (rk m).
Proof.
  induction l as [| r l IH]; intros acc; simpl.
  - split; [left; reflexivity | split; [apply kle_refl | intros x []]].
  - destruct (IH (pick acc r)) as (Hin & Hacc & Hall).
    destruct (pick_spec acc r) as [[Hp Hlt] | [Hp Hle]]; rewrite Hp in *.
    + split; [| split].
      * destruct Hin as [-> | Hin]; auto.
      * eapply kle_trans; [left; exact Hlt | exact Hacc].
      * intros x [<- | Hx]; auto.
    + split; [| split].
      * destruct Hin as [-> | Hin]; auto.
      * exact Hacc.
      * intros x [<- | Hx]; auto. eapply kle_trans; eauto.
Qed.

(* ------------------------------------------------------------------ candidates *)

(* every node of the tree is a candidate, with the height of the highest justified checkpoint on
   its path from the root (the root counts with the height given) *)
Fixpoint cands (t : cnode) (jh : N) : list result :=
  match t with
  | CNode h ht st _ ks =>
    let jh' := if is_justified st then ht else jh in
    ((h, ht), jh') :: flat_map (fun k => cands k jh') ks
  end.

Fixpoint hashes (t : cnode) : list N :=
  match t with
  | CNode h _ _ _ ks => h :: flat_map hashes ks
  end.

Lemma cands_hash t : forall jh c, In c (cands t jh) -> In (fst (fst c)) (hashes t).
Proof.
  induction t as [h ht st ph ks IH] using cnode_ind'; intros jh c; simpl.
  intros [<- | Hc]; [left; reflexivity | right].
  apply in_flat_map in Hc as (k & Hk & Hc). apply in_flat_map. exists k; split; auto.
  rewrite Forall_forall in IH. eapply IH; eauto.
Qed.

Theorem best_node_max t : forall jh,
  In (best_node t jh) (cands t jh) /\
  forall c, In c (cands t jh) -> kle (rk c) (rk (best_node t jh)).
Proof.
  induction t as [h ht st ph ks IH] using cnode_ind'; intros jh.
  rewrite Forall_forall in IH.
  cbn [best_node cands].
  set (jh' := if is_justified st then ht else jh).
  destruct (fold_pick_max (map (fun k => best_node k jh') ks) ((h, ht), jh')) as (Hin & Hacc & Hall).
  set (m := fold_left pick (map (fun k => best_node k jh') ks) ((h, ht), jh')) in *.
  split.
  - destruct Hin as [-> | Hin]; [left; reflexivity | right].
    apply in_map_iff in Hin as (k & <- & Hk).
    apply in_flat_map. exists k; split; auto. apply IH; auto.
  - intros c [<- | Hc]; auto.
    apply in_flat_map in Hc as (k & Hk & Hc).
    eapply kle_trans.
    + apply (proj2 (IH k Hk jh')); exact Hc.
    + apply Hall. apply in_map_iff. exists k; auto.
Qed.

(* the fork-choice rule as a specification: h is the hash of a candidate that is maximal for
   (justified height, height, hash) among the nodes of the checkpoint tree; the root is the last
   finalized checkpoint and counts as justified *)
Definition fork_choice (t : cnode) (h : N) : Prop :=
  exists c, In c (cands t (cheight_of t)) /\ fst (fst c) = h /\
            forall c', In c' (cands t (cheight_of t)) -> kle (rk c') (rk c).

Lemma fork_choice_unique t h1 h2 : fork_choice t h1 -> fork_choice t h2 -> h1 = h2.
Proof.
  intros (c1 & Hin1 & <- & Hmax1) (c2 & Hin2 & <- & Hmax2).
  assert (rk c1 = rk c2) by (apply kle_antisym; auto).
  apply rk_inj in H. congruence.
Qed.

Lemma best_chain_fork_choice t : fork_choice t (best_chain t).
Proof.
  unfold fork_choice, best_chain.
  destruct (best_node_max t (cheight_of t)) as (Hin & Hmax).
  exists (best_node t (cheight_of t)); auto.
Qed.

Lemma best_chain_in_hashes t : In (best_chain t) (hashes t).
Proof.
  unfold best_chain. eapply cands_hash. apply best_node_max.
Qed.

(* independence of the order of children (map iteration / arrival order of siblings) *)
Lemma best_node_child_order h ht st ph ks ks' jh :
  Permutation ks ks' ->
  best_node (CNode h ht st ph ks) jh = best_node (CNode h ht st ph ks') jh.
Proof.
  intros HP. apply rk_inj. apply kle_antisym.
  - apply best_node_max.
    destruct (best_node_max (CNode h ht st ph ks) jh) as (Hin & _).
    cbn [cands] in *. destruct Hin as [Hin | Hin]; [left; exact Hin | right].
    apply in_flat_map in Hin as (k & Hk & Hc). apply in_flat_map. exists k; split; auto.
    eapply Permutation_in; eauto.
  - apply best_node_max.
    destruct (best_node_max (CNode h ht st ph ks') jh) as (Hin & _).
    cbn [cands] in *. destruct Hin as [Hin | Hin]; [left; exact Hin | right].
    apply in_flat_map in Hin as (k & Hk & Hc). apply in_flat_map. exists k; split; auto.
    eapply Permutation_in; [apply Permutation_sym|]; eauto.
Qed.
