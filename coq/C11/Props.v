(* C11 — the best chain follows the fork-choice rule and the main-chain index stays consistent.
   PROPERTY THEOREMS ONLY.

   Model: C11/Model.v mirrors casper's checkpoint tree and bestNode (tree_node.go), ApplyBlock /
   checkpointNodeByHash / setJustified / setFinalized, Chain.processBlock / saveSubBlock /
   tryReorganize / calcReorganizeChain / setState (block.go, protocol.go), the main-chain index
   written by SaveChainStatus (database/store.go) and Chain.InMainChain.

   A history is ANY list of events [Deliver b | Justify t s | LateJustify t s | Nop] over ANY block universe
   [U : hash -> (parent, height, valid, carried supermajority link)] (one hash, one block), any
   epoch length [E], from a fresh node whose genesis [g] has height 0.  Whether a checkpoint
   becomes justified is an input ([bjust], [Justify]); the theorems hold for every choice, also
   for choices that real vote counting (C17) would never make.

   Variants ([variant]): [clear_stale] = SaveChainStatus deletes the index entries above the new
   best height (the repair prepared for C11; false = the pinned code); [rollback_deadlocks] = a
   verification message that moves the best chain leaves the node hung (pinned code: the casper
   lock is held across the rollback, C37; false = the rollback is carried out).  [hung s = false]
   says the node still answers.

   fork_choice t h: h is the hash of a node of the checkpoint tree t (rooted at the last finalized
   checkpoint; a growing checkpoint stands for the tip of its branch) whose key (height of the
   highest justified checkpoint on its path, height, hash) is maximal in the lexicographic
   order; hashes are compared as the strings the code compares.
   anc U b h: the ancestor of b at height h.   on_best_chain U s b: b is the best block or one of
   its ancestors. *)
From Coq Require Import List NArith Permutation.
From C11 Require Import Model ProofsTree Proofs.
Import ListNotations.
Open Scope N_scope.

(* 1. The best block is the one the fork-choice rule selects.
   Full statement (Proofs.C11_best_full V): for ALL histories, [LateJustify] included, i.e. also
   when a verification message arrived before its target block and is applied later by
   authVerificationLoop.  It is refuted for every variant: that loop changes the checkpoint
   statuses without asking the chain to reorganise, so the best block stays behind until the next
   block arrives (witness Proofs.wit_late_events; replayed on the node by the harness's
   early-vote cases). *)
Theorem c11_best_refuted_cached_vote :
  forall V : variant, ~ C11_best_full V.
Proof. exact best_refuted_cached_vote. Qed.
Print Assumptions c11_best_refuted_cached_vote.

(* It holds after every history in which each verification message found its target checkpoint
   in the tree ([no_late]: the decidable guard that excludes exactly the cached-message class). *)
Theorem c11_best_holds_outside :
  forall (V : variant) (E : N) (U : N -> binfo) (g : N) (evs : list event),
    bheight (U g) = 0 -> no_late evs = true ->
    let s := run V E U g evs in
    hung s = false -> fork_choice (tree s) (best s).
Proof. exact best_statement. Qed.
Print Assumptions c11_best_holds_outside.

(* the rule selects exactly one hash *)
Theorem c11_fork_choice_unique :
  forall t h1 h2, fork_choice t h1 -> fork_choice t h2 -> h1 = h2.
Proof. exact fork_choice_unique. Qed.
Print Assumptions c11_fork_choice_unique.

(* bestNode returns a maximum of the total order (justified height, height, hash) over the
   candidates of the subtree, for every inherited justified height *)
Theorem c11_best_node_is_maximum :
  forall t jh,
    In (best_node t jh) (cands t jh) /\
    forall c, In c (cands t jh) -> kle (rk c) (rk (best_node t jh)).
Proof. exact best_node_max. Qed.
Print Assumptions c11_best_node_is_maximum.

(* ... and does not depend on the order of the children *)
Theorem c11_best_node_child_order :
  forall h ht st ph ks ks' jh,
    Permutation ks ks' ->
    best_node (CNode h ht st ph ks) jh = best_node (CNode h ht st ph ks') jh.
Proof. exact best_node_child_order. Qed.
Print Assumptions c11_best_node_child_order.

(* 2. Every height from genesis to the best block maps to the best block's ancestor at that
   height (all histories, both variants of SaveChainStatus, hung or not). *)
Theorem c11_index :
  forall (V : variant) (E : N) (U : N -> binfo) (g : N) (evs : list event) (h : N),
    bheight (U g) = 0 ->
    let s := run V E U g evs in
    h <= hgt U (best s) -> idx_get h (idx s) = Some (anc U (best s) h).
Proof. exact index_statement. Qed.
Print Assumptions c11_index.

(* 3. A block is reported as on the main chain exactly when it is the best block or one of its
   ancestors (all histories; SaveChainStatus as repaired). *)
Theorem c11_in_main_chain :
  forall (d : bool) (E : N) (U : N -> binfo) (g : N) (evs : list event) (b : N),
    bheight (U g) = 0 ->
    let s := run (mkv true d) E U g evs in
    in_main_chain U s b = true <-> on_best_chain U s b.
Proof. exact in_main_chain_statement. Qed.
Print Assumptions c11_in_main_chain.

(* one direction holds for the pinned code too: ancestors of the best block are reported *)
Theorem c11_ancestors_in_main_chain :
  forall (V : variant) (E : N) (U : N -> binfo) (g : N) (evs : list event) (b : N),
    bheight (U g) = 0 ->
    let s := run V E U g evs in
    on_best_chain U s b -> in_main_chain U s b = true.
Proof. exact ancestors_statement. Qed.
Print Assumptions c11_ancestors_in_main_chain.

(* The pinned SaveChainStatus refutes statement 3: after a reorganisation to a shorter chain a
   detached block above the new best height is still reported (witness: Proofs.wit_events). *)
Theorem c11_pinned_refuted_stale_index :
  forall d : bool, ~ C11_in_main_chain_full (mkv false d).
Proof. exact in_main_chain_pinned_refuted. Qed.
Print Assumptions c11_pinned_refuted_stale_index.

(* calcReorganizeChain on two stored blocks succeeds and returns the path from a common ancestor
   up to the new best (attach, lowest first) and from the old best down to it (detach) *)
Theorem c11_calc_reorganize :
  forall U g st a d,
    bheight (U g) = 0 -> wf U g st -> In a st -> In d st ->
    exists i j,
      calc_reorg U (S (N.to_nat (hgt U a) + N.to_nat (hgt U d))) st a d [] []
      = Some (path U i a, rev (path U j d)) /\
      N.of_nat i <= hgt U a /\ N.of_nat j <= hgt U d /\ up U i a = up U j d.
Proof. exact calc_reorganize_paths. Qed.
Print Assumptions c11_calc_reorganize.

(* the node keeps answering in every history without verification messages, and in every history
   at all once the rollback no longer needs the lock held by AuthVerification *)
Theorem c11_answers :
  forall (V : variant) (E : N) (U : N -> binfo) (g : N) (evs : list event),
    (rollback_deadlocks V = false \/ forall t src, ~ In (Justify t src) evs) ->
    hung (run V E U g evs) = false.
Proof. exact answers_without_votes. Qed.
Print Assumptions c11_answers.
