(* C18 — the node never signs or admits slashable votes.
   The engine model is C16/Model.v (shared by C16, C17, C18); this file adds the vocabulary of the property: the
   two commandments on the votes the node accepted ([adm]) or produced ([posted]). *)
From Coq Require Import List NArith Bool.
From C16 Require Export Model.
Import ListNotations.
Open Scope N_scope.

(* commandment I: two votes of one validator for different targets of equal height *)
Definition double_vote (a b : vote) : bool :=
  (vt_key a =? vt_key b) && (vt_tgth a =? vt_tgth b) && negb (vt_tgt a =? vt_tgt b).

(* commandment II: the span of b lies strictly inside the span of a: h(s_a) < h(s_b) < h(t_b) < h(t_a) *)
Definition nested (a b : vote) : bool :=
  (vt_key a =? vt_key b) && (vt_srch a <? vt_srch b) && (vt_srch b <? vt_tgth b) && (vt_tgth b <? vt_tgth a).

Definition no_double_votes (l : list vote) : Prop :=
  forall a b, In a l -> In b l -> double_vote a b = false.

Definition no_nested_votes (l : list vote) : Prop :=
  forall a b, In a l -> In b l -> nested a b = false.

(* every accepted vote names a target that is still in the in-memory tree *)
Definition pruned_vote_free (s : state) : bool :=
  forallb (fun v => memN (vt_tgt v) (tree s)) (adm s).
