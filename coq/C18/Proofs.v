(* C18 — the two commandments on the votes the engine accepts or produces: invariant and preservation. *)
From Coq Require Import List NArith Bool Lia PeanoNat.
From C16 Require Import Base Proofs.
From C17 Require Import Links Proofs.
From C18 Require Import Model.
Import ListNotations.
Open Scope N_scope.

(* ---- generic lemmas ------------------------------------------------------------------ *)

Lemma f2_trans : forall (R : ck -> ck -> Prop) a b c, (forall x y z, R x y -> R y z -> R x z) ->
  Forall2 R a b -> Forall2 R b c -> Forall2 R a c.
Proof.
  intros R a b c Ht H. revert c. induction H as [|x y a b Hxy H IH]; intros c H2; inversion H2; subst; constructor.
  - eapply Ht; eauto.
  - now apply IH.
Qed.

Lemma f2_forallb : forall (R : ck -> ck -> Prop) (P P' : ck -> bool) l l',
  (forall c c', R c c' -> P c = true -> P' c' = true) ->
  Forall2 R l l' -> forallb P l = true -> forallb P' l' = true.
Proof.
  intros R P P' l l' Hr H. induction H as [|x y a b Hxy H IH]; simpl; intros Hf; [reflexivity|].
  apply andb_true_iff in Hf. destruct Hf as [H1 H2]. apply andb_true_iff. split; [eapply Hr; eauto|now apply IH].
Qed.

Lemma f2_with : forall (R : ck -> ck -> Prop) (Q : ck -> Prop) l l',
  Forall2 R l l' -> (forall c, In c l -> Q c) -> Forall2 (fun c c' => R c c' /\ Q c) l l'.
Proof.
  intros R Q l l' H. induction H as [|x y a b Hxy H IH]; intros HQ; constructor.
  - split; [assumption|apply HQ; now left].
  - apply IH. intros c Hc. apply HQ. now right.
Qed.

Lemma forallb_in : forall {A} (P : A -> bool) l x, forallb P l = true -> In x l -> P x = true.
Proof. intros A P l x H Hx. rewrite forallb_forall in H. now apply H. Qed.

(* ---- add_ver: which links and slots exist afterwards --------------------------------- *)

Lemma slot_filled_set : forall j k x l,
  slot_filled j (mklink (l_src l) (l_srch l) (slot_set k x (l_slots l))) = (j =? k) || slot_filled j l.
Proof.
  intros j k x l. unfold slot_filled. cbn [l_slots]. rewrite slot_get_set.
  destruct (j =? k); [reflexivity|]. reflexivity.
Qed.

(* the links after add_ver: source and declared height *)
Lemma add_ver_link : forall src srch k x ls l, In l (add_ver src srch k x ls) ->
  (exists l0, In l0 ls /\ l_src l = l_src l0 /\ l_srch l = l_srch l0) \/ (l_src l = src /\ l_srch l = srch).
Proof.
  induction ls as [|l0 ls IH]; simpl; intros l H.
  - destruct H as [<-|[]]. right. auto.
  - destruct (l_src l0 =? src).
    + destruct H as [<-|H]; left; [exists l0|exists l]; simpl; auto.
    + destruct H as [<-|H]; [left; exists l0; auto|].
      destruct (IH l H) as [(l1 & H1 & H2)|H1]; [left; exists l1; split; [now right|assumption]|now right].
Qed.

(* the new signature is there, in a link of that source *)
Lemma add_ver_has : forall src srch k x ls,
  exists l, In l (add_ver src srch k x ls) /\ l_src l = src /\ slot_filled k l = true /\
            (l_srch l = srch \/ exists l0, In l0 ls /\ l_src l0 = src /\ l_srch l = l_srch l0).
Proof.
  induction ls as [|l0 ls IH]; simpl.
  - eexists. split; [now left|]. simpl. unfold slot_filled. simpl. rewrite N.eqb_refl. auto.
  - destruct (l_src l0 =? src) eqn:E.
    + eexists. split; [now left|]. rewrite slot_filled_set, N.eqb_refl. cbn [l_src l_srch]. apply N.eqb_eq in E.
      split; [assumption|]. split; [reflexivity|]. right. exists l0. auto.
    + destruct IH as (l & H1 & H2 & H3 & H4). exists l. split; [now right|]. split; [assumption|]. split; [assumption|].
      destruct H4 as [H4|(l1 & A & B & C)]; [now left|]. right. exists l1. split; [now right|auto].
Qed.

(* filled slots stay filled *)
Lemma add_ver_keeps : forall src srch k x ls l0 j, In l0 ls -> slot_filled j l0 = true ->
  exists l, In l (add_ver src srch k x ls) /\ slot_filled j l = true /\ l_srch l = l_srch l0 /\ l_src l = l_src l0.
Proof.
  induction ls as [|l1 ls IH]; simpl; intros l0 j H Hs; [contradiction|].
  destruct (l_src l1 =? src) eqn:E.
  - destruct H as [->|H].
    + eexists. split; [now left|]. rewrite slot_filled_set, Hs, orb_true_r. auto.
    + exists l0. split; [now right|auto].
  - destruct H as [->|H].
    + exists l0. split; [now left|auto].
    + destruct (IH l0 j H Hs) as (l & A & B). exists l. split; [now right|assumption].
Qed.

Lemma add_ver_filled_exists : forall src srch k x ls j,
  existsb (slot_filled j) ls = true -> existsb (slot_filled j) (add_ver src srch k x ls) = true.
Proof.
  intros src srch k x ls j H. apply existsb_exists in H. destruct H as (l0 & H0 & Hs).
  destruct (add_ver_keeps src srch k x ls l0 j H0 Hs) as (l & A & B & _).
  apply existsb_exists. exists l. auto.
Qed.

Lemma add_ver_new_exists : forall src srch k x ls, existsb (slot_filled k) (add_ver src srch k x ls) = true.
Proof.
  intros. destruct (add_ver_has src srch k x ls) as (l & A & _ & B & _). apply existsb_exists. exists l. auto.
Qed.

(* a filled slot after add_ver: the new one, or one that was filled *)
Lemma add_ver_filled_inv : forall src srch k x ls l j, In l (add_ver src srch k x ls) -> slot_filled j l = true ->
  j = k \/ exists l0, In l0 ls /\ slot_filled j l0 = true.
Proof.
  intros src srch k x ls l j Hl Hs. unfold slot_filled in Hs.
  destruct (slot_get j (l_slots l)) as [y|] eqn:Ey; [|discriminate].
  destruct (add_ver_slot _ _ _ _ _ _ _ _ Hl Ey) as [(_ & E & _)|(l0 & H0 & _ & H2)]; [now left|].
  right. exists l0. split; [assumption|]. unfold slot_filled. now rewrite H2.
Qed.

(* ---- what one admission changes -------------------------------------------------------- *)

Definition fr (b : N) (c c' : ck) : Prop :=
  skel c = skel c' /\ c_db c = c_db c' /\ c_hl c = c_hl c' /\ (c_id c <> b -> c_tl c = c_tl c').

Lemma fr_refl : forall b c, fr b c c.
Proof. intros. repeat split. Qed.

Lemma fr_trans : forall b x y z, fr b x y -> fr b y z -> fr b x z.
Proof.
  intros b x y z (A1 & A2 & A3 & A4) (B1 & B2 & B3 & B4). split; [congruence|]. split; [congruence|].
  split; [congruence|]. intros H. rewrite A4 by assumption. apply B4.
  unfold skel in A1. replace (c_id y) with (c_id x) by congruence. assumption.
Qed.

Lemma fr_id : forall b a c, fr b a c -> c_id a = c_id c.
Proof. intros b a c (H & _). unfold skel in H. congruence. Qed.

Lemma find_upd_fwd : forall id f l x c, keeps_skel f ->
  find_ck x l = Some c -> exists c', find_ck x (upd_ck id f l) = Some c' /\ (c' = c \/ c' = f c).
Proof.
  intros id f l x c Hf F. destruct (N.eq_dec x id) as [->|Hne].
  - exists (f c). split; [|now right]. rewrite find_upd_same by assumption. now rewrite F.
  - exists c. split; [|now left]. now rewrite find_upd_other.
Qed.

Section S18.

Variable fin : bool.
Variable V : variant.
Variable n E local : N.

Lemma admit_frame : forall s v,
  Forall2 (fr (v_tgt v)) (cks s) (cks (admit_ver V n s v)) /\
  (forall x, memN x (tree (admit_ver V n s v)) = true -> memN x (tree s) = true) /\
  posted (admit_ver V n s v) = posted s.
Proof.
  intros s v. unfold admit_ver.
  assert (R0 : Forall2 (fr (v_tgt v)) (cks s) (cks s) /\
               (forall x, memN x (tree s) = true -> memN x (tree s) = true) /\ posted s = posted s).
  { split; [apply f2_refl, fr_refl|auto]. }
  destruct (find_ck (v_tgt v) (cks s)) as [t|] eqn:Ft; [|exact R0].
  destruct (find_ck (v_src v) (cks s)) as [src|] eqn:Fs; [|exact R0].
  set (tl' := add_ver (v_src v) (v_srch v) (v_key v) (v_sig v) (c_tl t)).
  set (l1 := upd_ck (v_tgt v) (set_tl tl') (cks s)).
  assert (H1 : Forall2 (fr (v_tgt v)) (cks s) l1).
  { apply (f2_upd _ _ _ _ t); [apply fr_refl|exact Ft|].
    split; [reflexivity|]. split; [reflexivity|]. split; [reflexivity|].
    intros H. exfalso. apply H. apply find_ck_some in Ft. tauto. }
  destruct (find_link (v_src v) tl'); [|simpl; auto].
  destruct (status_eqb (c_st t) Unjustified && is_majority n l && src_status_ok V (c_st src)); [|simpl; auto].
  unfold set_justified. cbn [cks with_cks]. fold l1.
  set (l2 := upd_ck (v_tgt v) (set_st Justified) l1).
  assert (H2 : Forall2 (fr (v_tgt v)) (cks s) l2).
  { eapply f2_trans; [apply fr_trans|exact H1|]. apply f2_upd_any; [apply fr_refl|]. intros c. repeat split. }
  destruct (find_ck (v_tgt v) l1) as [t1|]; [|simpl; auto].
  destruct (c_par t1 =? v_src v); [|simpl; auto].
  unfold set_finalized. cbn [cks with_cks tree root adm posted]. fold l2.
  assert (H3 : Forall2 (fr (v_tgt v)) (cks s) (upd_ck (v_src v) (set_st Finalized) l2)).
  { eapply f2_trans; [apply fr_trans|exact H2|]. apply f2_upd_any; [apply fr_refl|]. intros c. repeat split. }
  destruct (memN (v_src v) (tree s)); cbn [cks tree posted]; split; auto. split; [|reflexivity].
  intros x Hx. apply memN_In in Hx. apply filter_In in Hx. apply memN_In. tauto.
Qed.

(* the admitted vote is logged and sits in the target's tree object *)
Lemma admit_target : forall s v tc sc,
  find_ck (v_tgt v) (cks s) = Some tc -> find_ck (v_src v) (cks s) = Some sc ->
  adm (admit_ver V n s v) = vote_of v :: adm s /\
  exists tc', find_ck (v_tgt v) (cks (admit_ver V n s v)) = Some tc' /\
              c_tl tc' = add_ver (v_src v) (v_srch v) (v_key v) (v_sig v) (c_tl tc).
Proof.
  intros s v tc sc Ft Fs. unfold admit_ver. rewrite Ft, Fs.
  set (tl' := add_ver (v_src v) (v_srch v) (v_key v) (v_sig v) (c_tl tc)).
  set (l1 := upd_ck (v_tgt v) (set_tl tl') (cks s)).
  assert (F1 : find_ck (v_tgt v) l1 = Some (set_tl tl' tc)).
  { unfold l1. rewrite find_upd_same by apply keeps_set_tl. now rewrite Ft. }
  assert (R1 : forall a po tr ro, adm (mkst l1 tr ro a po) = a /\
               exists tc', find_ck (v_tgt v) l1 = Some tc' /\ c_tl tc' = tl').
  { intros. split; [reflexivity|]. exists (set_tl tl' tc). auto. }
  destruct (find_link (v_src v) tl'); [|cbn [adm cks]; split; [reflexivity|exists (set_tl tl' tc); auto]].
  destruct (status_eqb (c_st tc) Unjustified && is_majority n l && src_status_ok V (c_st sc));
    [|cbn [adm cks]; split; [reflexivity|exists (set_tl tl' tc); auto]].
  unfold set_justified. cbn [cks with_cks adm]. fold l1. rewrite F1. cbn [c_par set_tl].
  set (l2 := upd_ck (v_tgt v) (set_st Justified) l1).
  assert (F2 : find_ck (v_tgt v) l2 = Some (set_st Justified (set_tl tl' tc))).
  { unfold l2. rewrite find_upd_same by apply keeps_set_st. now rewrite F1. }
  destruct (c_par tc =? v_src v).
  - unfold set_finalized. cbn [cks with_cks tree root adm posted]. fold l2.
    assert (F3 : exists tc', find_ck (v_tgt v) (upd_ck (v_src v) (set_st Finalized) l2) = Some tc' /\ c_tl tc' = tl').
    { destruct (find_upd_fwd (v_src v) (set_st Finalized) l2 _ _ (keeps_set_st Finalized) F2) as (c' & Fc & Hc).
      exists c'. split; [exact Fc|]. destruct Hc as [Hc|Hc]; rewrite Hc; reflexivity. }
    destruct (memN (v_src v) (tree s)); cbn [adm cks]; split; auto.
  - cbn [adm cks]. split; [reflexivity|]. fold l2. eexists. split; [exact F2|reflexivity].
Qed.

(* ---- a passed check stays passed while votes for the same target are admitted --------------- *)

Lemma verify_stable : forall s s' v,
  Forall2 (fr (v_tgt v)) (cks s) (cks s') ->
  (forall x, memN x (tree s') = true -> memN x (tree s) = true) ->
  (forall c, In c (cks s) -> c_id c = v_tgt v -> c_hgt c = v_tgth v) ->
  verify E s v = true -> verify E s' v = true.
Proof.
  intros s s' v F2 Ht Hh H. unfold verify in *. apply andb_true_iff in H. destruct H as [H H3].
  apply andb_true_iff in H. destruct H as [H1 H2]. rewrite H1. simpl. apply andb_true_iff. split.
  - unfold same_height_ok in *. revert H2. apply f2_forallb with (R := fun c c' => fr (v_tgt v) c c' /\ In c (cks s)).
    + intros c c' ((A1 & A2 & A3 & _) & _) HP. unfold skel in A1.
      replace (c_db c') with (c_db c) by assumption. replace (c_hgt c') with (c_hgt c) by congruence.
      replace (c_id c') with (c_id c) by congruence. replace (c_hl c') with (c_hl c) by assumption. exact HP.
    + apply f2_with; [exact F2|auto].
  - unfold span_ok in *. revert H3. apply f2_forallb with (R := fun c c' => fr (v_tgt v) c c' /\ In c (cks s)).
    + intros c c' ((A1 & A2 & A3 & A4) & Hin) HP. unfold skel in A1.
      replace (c_hgt c') with (c_hgt c) by congruence. replace (c_id c') with (c_id c) by congruence.
      destruct (N.eq_dec (c_id c) (v_tgt v)) as [Eid|Eid].
      * rewrite (Hh c Hin Eid), N.eqb_refl. rewrite orb_true_r. reflexivity.
      * rewrite <- (A4 Eid). apply orb_true_iff in HP. destruct HP as [HP|HP]; [|rewrite HP; apply orb_true_r].
        apply orb_true_iff in HP. destruct HP as [HP|HP]; [|rewrite HP; rewrite orb_true_r; reflexivity].
        apply negb_true_iff in HP. destruct (memN (c_id c) (tree s')) eqn:Em; [|reflexivity].
        rewrite (Ht _ Em) in HP. discriminate.
    + apply f2_with; [exact F2|auto].
Qed.

(* ---- the invariant ------------------------------------------------------------------------ *)

(* while an event works on checkpoint cur, H stands for the sup links its stored header will have *)
Definition eff (cur : N) (H : list link) (c : ck) : list link := if c_id c =? cur then H else c_hl c.
Definition edb (cur : N) (c : ck) : bool := (c_id c =? cur) || c_db c.

Record inv18 (cur : N) (H : list link) (s : state) : Prop := mk_inv18 {
  r0 : forall c l, In c (cks s) -> In l (c_tl c) ->
         exists sc, find_ck (l_src l) (cks s) = Some sc /\ c_hgt sc = l_srch l;
  r1 : forall a, In a (adm s) ->
         exists c l, find_ck (vt_tgt a) (cks s) = Some c /\ c_hgt c = vt_tgth a /\
                     In l (c_tl c) /\ slot_filled (vt_key a) l = true /\ l_srch l = vt_srch a /\ l_src l = vt_src a;
  r2 : forall c, In c (cks s) -> edb cur c = true /\
         forall l k, In l (c_tl c) -> slot_filled k l = true -> existsb (slot_filled k) (eff cur H c) = true;
  r3 : no_double_votes (adm s);
  r4 : pruned_vote_free s = true -> no_nested_votes (adm s);
  r5 : forall c l k, In c (cks s) -> In l (c_tl c) -> slot_filled k l = true ->
         exists a, In a (adm s) /\ vt_key a = k /\ vt_src a = l_src l /\ vt_tgt a = c_id c
}.

Definition vok18 (s : state) (v : vmsg) : Prop :=
  verify E s v = true /\
  (exists sc, find_ck (v_src v) (cks s) = Some sc /\ c_hgt sc = v_srch v) /\
  (exists tc, find_ck (v_tgt v) (cks s) = Some tc /\ c_hgt tc = v_tgth v).

Lemma f2_ids : forall b l l', Forall2 (fr b) l l' -> map c_id l = map c_id l'.
Proof.
  intros b l l' H. induction H as [|x y a c Hxy H IH]; simpl; [reflexivity|].
  rewrite (fr_id _ _ _ Hxy). now f_equal.
Qed.

Lemma double_vote_sym : forall a b, double_vote a b = double_vote b a.
Proof.
  intros a b. unfold double_vote. rewrite (N.eqb_sym (vt_key a)), (N.eqb_sym (vt_tgth a)), (N.eqb_sym (vt_tgt a)).
  reflexivity.
Qed.

Lemma admit_inv18 : forall cur H s v,
  NoDup (map c_id (cks s)) -> inv18 cur H s -> v_tgt v = cur -> vok18 s v ->
  existsb (slot_filled (v_key v)) H = true -> inv18 cur H (admit_ver V n s v).
Proof.
  intros cur H s v ND [R0 R1 R2 R3 R4 R5] Hcur (Hver & (sc & Fs & Hsc) & (tc & Ft & Htc)) HH.
  destruct (admit_frame s v) as (F2 & Htree & _). rewrite Hcur in F2.
  destruct (admit_target s v tc sc Ft Fs) as (Hadm & tc' & Ft' & Htl').
  set (s' := admit_ver V n s v) in *.
  assert (ND' : NoDup (map c_id (cks s'))) by (rewrite <- (f2_ids _ _ _ F2); exact ND).
  assert (Hfind : forall x c, find_ck x (cks s) = Some c -> exists c', find_ck x (cks s') = Some c' /\ fr cur c c').
  { intros x c F. apply (f2_find _ _ _ _ _ (fr_id cur) F2 F). }
  assert (Htcin : In tc (cks s) /\ c_id tc = cur) by (rewrite <- Hcur; now apply find_ck_some).
  assert (Htcin' : In tc' (cks s') /\ c_id tc' = cur) by (rewrite <- Hcur; now apply find_ck_some).
  (* a record of the new store: the target's new record, or an old record with the same tree links *)
  assert (Hrec : forall c', In c' (cks s') ->
            (c' = tc') \/ (c_id c' <> cur /\ exists c, In c (cks s) /\ fr cur c c' /\ c_tl c' = c_tl c)).
  { intros c' Hc'. destruct (N.eq_dec (c_id c') cur) as [Eid|Eid].
    - left. pose proof (find_ck_in _ _ ND' Hc') as F. rewrite Eid, <- Hcur in F. congruence.
    - right. split; [assumption|]. destruct (f2_in_r _ _ _ _ F2 Hc') as (c & Hc & Hfr).
      exists c. split; [assumption|]. split; [assumption|]. destruct Hfr as (A1 & _ & _ & A4).
      symmetry. apply A4. unfold skel in A1. congruence. }
  constructor.
  - (* r0 *)
    intros c' l Hc' Hl. destruct (Hrec c' Hc') as [->|(Hne & c & Hc & Hfr & Etl)].
    + rewrite Htl' in Hl. destruct (add_ver_link _ _ _ _ _ _ Hl) as [(l0 & H0 & E1 & E2)|(E1 & E2)].
      * destruct (R0 tc l0 (proj1 Htcin) H0) as (sc0 & F0 & Hh0). rewrite <- E1 in F0.
        destruct (Hfind _ _ F0) as (sc0' & F0' & (A1 & _)). exists sc0'. split; [assumption|].
        unfold skel in A1. rewrite E2. congruence.
      * rewrite E1, E2. destruct (Hfind _ _ Fs) as (sc' & Fs' & (A1 & _)). exists sc'. split; [assumption|].
        unfold skel in A1. congruence.
    + rewrite Etl in Hl. destruct (R0 c l Hc Hl) as (sc0 & F0 & Hh0).
      destruct (Hfind _ _ F0) as (sc0' & F0' & (A1 & _)). exists sc0'. split; [assumption|].
      unfold skel in A1. congruence.
  - (* r1 *)
    intros a Ha. rewrite Hadm in Ha. destruct Ha as [<-|Ha].
    + simpl. destruct (add_ver_has (v_src v) (v_srch v) (v_key v) (v_sig v) (c_tl tc)) as (l & A & B & C & D).
      exists tc', l. split; [assumption|]. split.
      { destruct (Hfind _ _ Ft) as (tc2 & Ft2 & (A1 & _)). assert (tc2 = tc') by congruence. subst tc2.
        unfold skel in A1. congruence. }
      split; [now rewrite Htl'|]. split; [assumption|]. split; [|exact B].
      destruct D as [D|(l0 & D1 & D2 & D3)]; [assumption|].
      destruct (R0 tc l0 (proj1 Htcin) D1) as (sc0 & F0 & Hh0). rewrite D2 in F0. congruence.
    + destruct (R1 a Ha) as (c & l & Fc & Hh & Hl & Hs & Hsr & Hsrc).
      destruct (Hfind _ _ Fc) as (c' & Fc' & Hfr). pose proof Hfr as (A1 & _ & _ & A4).
      destruct (N.eq_dec (vt_tgt a) cur) as [Ea|Ea].
      * rewrite Ea, <- Hcur in Fc, Fc'. assert (c = tc) by congruence. assert (c' = tc') by congruence. subst c c'.
        destruct (add_ver_keeps (v_src v) (v_srch v) (v_key v) (v_sig v) (c_tl tc) l (vt_key a) Hl Hs) as (l2 & B1 & B2 & B3 & B4).
        exists tc', l2. rewrite Ea, <- Hcur. split; [assumption|]. split; [unfold skel in A1; congruence|].
        split; [now rewrite Htl'|]. split; [assumption|]. split; congruence.
      * exists c', l. split; [assumption|]. split; [unfold skel in A1; congruence|].
        split; [|auto]. rewrite <- A4; [assumption|]. apply find_ck_some in Fc. destruct Fc as [_ ->]. assumption.
  - (* r2 *)
    intros c' Hc'. destruct (Hrec c' Hc') as [->|(Hne & c & Hc & Hfr & Etl)].
    + split; [unfold edb; rewrite (proj2 Htcin'), N.eqb_refl; reflexivity|].
      intros l k Hl Hs. unfold eff. rewrite (proj2 Htcin'), N.eqb_refl. rewrite Htl' in Hl.
      destruct (add_ver_filled_inv _ _ _ _ _ _ _ Hl Hs) as [->|(l0 & H0 & Hs0)]; [assumption|].
      destruct (R2 tc (proj1 Htcin)) as (_ & Hx). specialize (Hx l0 k H0 Hs0).
      unfold eff in Hx. now rewrite (proj2 Htcin), N.eqb_refl in Hx.
    + destruct Hfr as (A1 & A2 & A3 & _). destruct (R2 c Hc) as (Hd & Hx).
      assert (Eid : c_id c' = c_id c) by (unfold skel in A1; congruence).
      split; [unfold edb in *; now rewrite Eid, <- A2|].
      intros l k Hl Hs. rewrite Etl in Hl. specialize (Hx l k Hl Hs). unfold eff in *. now rewrite Eid, <- A3.
  - (* r3 *)
    intros a b Ha Hb. rewrite Hadm in Ha, Hb.
    assert (Hnew : forall a, In a (adm s) -> double_vote (vote_of v) a = false).
    { intros a0 Ha0. destruct (double_vote (vote_of v) a0) eqn:Ed; [|reflexivity]. exfalso.
      unfold double_vote in Ed. simpl in Ed. apply andb_true_iff in Ed. destruct Ed as [Ed E3].
      apply andb_true_iff in Ed. destruct Ed as [E1 E2]. apply N.eqb_eq in E1. apply N.eqb_eq in E2.
      apply negb_true_iff in E3. apply N.eqb_neq in E3.
      destruct (R1 a0 Ha0) as (c & l & Fc & Hh & Hl & Hs & _).
      assert (Hc : In c (cks s) /\ c_id c = vt_tgt a0) by now apply find_ck_some.
      destruct (R2 c (proj1 Hc)) as (Hd & Hx). specialize (Hx l _ Hl Hs).
      assert (Hnc : c_id c <> cur) by (rewrite (proj2 Hc), <- Hcur; congruence).
      unfold edb, eff in *. apply N.eqb_neq in Hnc. rewrite Hnc in Hd, Hx. simpl in Hd.
      unfold verify in Hver. apply andb_true_iff in Hver. destruct Hver as [Hver _].
      apply andb_true_iff in Hver. destruct Hver as [_ Hsh]. unfold same_height_ok in Hsh.
      pose proof (forallb_in _ _ c Hsh (proj1 Hc)) as Hp. apply negb_true_iff in Hp.
      rewrite Hd, Hh, <- E2, N.eqb_refl in Hp. rewrite (proj2 Hc) in Hp.
      assert (Hne : (vt_tgt a0 =? v_tgt v) = false) by (apply N.eqb_neq; congruence).
      rewrite Hne in Hp. simpl in Hp. rewrite E1 in Hp. rewrite Hx in Hp. discriminate. }
    destruct Ha as [<-|Ha], Hb as [<-|Hb].
    + unfold double_vote. rewrite (N.eqb_refl (vt_tgt _)). simpl. now rewrite andb_false_r.
    + now apply Hnew.
    + rewrite double_vote_sym. now apply Hnew.
    + now apply R3.
  - (* r4 *)
    intros Hp a b Ha Hb. rewrite Hadm in Ha, Hb.
    unfold pruned_vote_free in Hp. rewrite Hadm in Hp. simpl in Hp. apply andb_true_iff in Hp. destruct Hp as [_ Hp].
    assert (Hold : pruned_vote_free s = true).
    { unfold pruned_vote_free. apply forallb_forall. intros a0 Ha0. apply Htree. exact (forallb_in _ _ a0 Hp Ha0). }
    specialize (R4 Hold).
    assert (Hnew : forall a, In a (adm s) -> nested (vote_of v) a = false /\ nested a (vote_of v) = false).
    { intros a0 Ha0. destruct (R1 a0 Ha0) as (c & l & Fc & Hh & Hl & Hs & Hsr & _).
      assert (Hc : In c (cks s) /\ c_id c = vt_tgt a0) by now apply find_ck_some.
      assert (Hin : memN (c_id c) (tree s) = true).
      { rewrite (proj2 Hc). apply Htree. exact (forallb_in _ _ a0 Hp Ha0). }
      unfold verify in Hver. apply andb_true_iff in Hver. destruct Hver as [_ Hsp]. unfold span_ok in Hsp.
      pose proof (forallb_in _ _ c Hsp (proj1 Hc)) as Hq. cbv beta in Hq. rewrite Hin in Hq. simpl in Hq.
      unfold nested. simpl.
      destruct (vt_key a0 =? v_key v) eqn:Ek;
        [|rewrite (N.eqb_sym (v_key v)), Ek; simpl; auto].
      rewrite (N.eqb_sym (v_key v)), Ek. simpl. apply N.eqb_eq in Ek.
      apply orb_true_iff in Hq. destruct Hq as [Hq|Hq].
      - apply N.eqb_eq in Hq. rewrite <- Hh, Hq. rewrite N.ltb_irrefl. rewrite !andb_false_r. auto.
      - pose proof (forallb_in _ _ l Hq Hl) as Hl2. cbv beta in Hl2. unfold span_link_ok in Hl2. rewrite <- Ek, Hs in Hl2. simpl in Hl2.
        apply negb_true_iff in Hl2. apply orb_false_iff in Hl2. destruct Hl2 as [L1 L2].
        rewrite Hh, Hsr in L1, L2. split.
        + (* a0 inside v *)
          destruct (v_srch v <? vt_srch a0) eqn:X1; [|reflexivity].
          destruct (vt_srch a0 <? vt_tgth a0) eqn:X2; [|reflexivity].
          destruct (vt_tgth a0 <? v_tgth v) eqn:X3; [|reflexivity]. simpl. simpl in L1. discriminate.
        + (* v inside a0 *)
          destruct (vt_srch a0 <? v_srch v) eqn:X1; [|reflexivity].
          destruct (v_srch v <? v_tgth v) eqn:X2; [|reflexivity].
          destruct (v_tgth v <? vt_tgth a0) eqn:X3; [|reflexivity]. simpl. simpl in L2. discriminate. }
    destruct Ha as [<-|Ha], Hb as [<-|Hb].
    + unfold nested. rewrite N.ltb_irrefl. now rewrite andb_false_r.
    + now apply Hnew.
    + now apply Hnew.
    + now apply R4.
  - (* r5 *)
    intros c' l k Hc' Hl Hs. rewrite Hadm. destruct (Hrec c' Hc') as [->|(Hne & c & Hc & Hfr & Etl)].
    + rewrite Htl' in Hl. unfold slot_filled in Hs. destruct (slot_get k (l_slots l)) as [y|] eqn:Ey; [|discriminate].
      destruct (add_ver_slot _ _ _ _ _ _ _ _ Hl Ey) as [(E1 & E2 & _)|(l0 & H0 & E1 & E2)].
      * exists (vote_of v). split; [now left|]. simpl. rewrite (proj2 Htcin'), <- Hcur. auto.
      * destruct (R5 tc l0 k (proj1 Htcin) H0) as (a & Ha & A1 & A2 & A3); [unfold slot_filled; now rewrite E2|].
        exists a. split; [now right|]. rewrite (proj2 Htcin'), <- (proj2 Htcin). split; [assumption|]. split; congruence.
    + rewrite Etl in Hl. destruct (R5 c l k Hc Hl Hs) as (a & Ha & A1 & A2 & A3).
      exists a. split; [now right|]. split; [assumption|]. split; [assumption|]. rewrite A3. now apply (fr_id cur).
Qed.

Lemma nodup_admit : forall s v, NoDup (map c_id (cks s)) -> NoDup (map c_id (cks (admit_ver V n s v))).
Proof. intros s v H. destruct (admit_frame s v) as (F2 & _). now rewrite <- (f2_ids _ _ _ F2). Qed.

Lemma vok18_stable : forall s v w, NoDup (map c_id (cks s)) -> vok18 s w -> v_tgt w = v_tgt v ->
  vok18 (admit_ver V n s v) w.
Proof.
  intros s v w ND (Hver & (sc & Fs & Hsc) & (tc & Ft & Htc)) Et.
  destruct (admit_frame s v) as (F2 & Htree & _). rewrite <- Et in F2.
  split; [|split].
  - apply (verify_stable s); auto. intros c Hc Hid. pose proof (find_ck_in _ _ ND Hc) as F. rewrite Hid in F. congruence.
  - destruct (f2_find _ _ _ _ _ (fr_id _) F2 Fs) as (sc' & Fs' & (A1 & _)). exists sc'. split; [assumption|].
    unfold skel in A1. congruence.
  - destruct (f2_find _ _ _ _ _ (fr_id _) F2 Ft) as (tc' & Ft' & (A1 & _)). exists tc'. split; [assumption|].
    unfold skel in A1. congruence.
Qed.

Lemma fold_admit_inv18 : forall cur H vs s,
  (forall v, In v vs -> v_tgt v = cur /\ vok18 s v /\ existsb (slot_filled (v_key v)) H = true) ->
  NoDup (map c_id (cks s)) -> inv18 cur H s -> inv18 cur H (fold_left (admit_ver V n) vs s).
Proof.
  induction vs as [|v vs IH]; simpl; intros s Hv ND I; [assumption|].
  destruct (Hv v (or_introl eq_refl)) as (Ev & Hok & HH).
  apply IH; [|now apply nodup_admit|now apply admit_inv18].
  intros w Hw. destruct (Hv w (or_intror Hw)) as (Ew & Hokw & HHw). split; [assumption|]. split; [|assumption].
  apply vok18_stable; auto. congruence.
Qed.

Lemma vers_of_slots_props2 : forall k b h src srch sl v, In v (vers_of_slots k b h src srch sl) ->
  v_tgt v = b /\ v_tgth v = h /\ v_src v = src /\ v_srch v = srch /\ slot_get (v_key v) sl = Some (v_sig v).
Proof.
  induction k as [|k IH]; simpl; intros b h src srch sl v H; [contradiction|].
  destruct (slot_get (N.of_nat k) sl) eqn:Es.
  - apply in_app_or in H. destruct H as [H|[<-|[]]]; [eapply IH; eauto|]. simpl. auto.
  - eapply IH; eauto.
Qed.

(* the store and the tree along a fold of admissions: finds keep skeleton and stored flag *)
Lemma fold_admit_frame : forall cur vs s, (forall v, In v vs -> v_tgt v = cur) ->
  Forall2 (fr cur) (cks s) (cks (fold_left (admit_ver V n) vs s)) /\
  (forall x, memN x (tree (fold_left (admit_ver V n) vs s)) = true -> memN x (tree s) = true) /\
  posted (fold_left (admit_ver V n) vs s) = posted s.
Proof.
  induction vs as [|v vs IH]; simpl; intros s Hv; [split; [apply f2_refl, fr_refl|auto]|].
  destruct (admit_frame s v) as (A1 & A2 & A3). rewrite (Hv v (or_introl eq_refl)) in A1.
  destruct (IH (admit_ver V n s v)) as (B1 & B2 & B3); [intros; apply Hv; now right|].
  split; [eapply f2_trans; [apply fr_trans|exact A1|exact B1]|]. split; [auto|congruence].
Qed.

Lemma link_src_ok_frame : forall cur s s' l, Forall2 (fr cur) (cks s) (cks s') ->
  link_src_ok s l = true -> link_src_ok s' l = true.
Proof.
  intros cur s s' l F2 H. unfold link_src_ok in *. destruct (find_ck (l_src l) (cks s)) as [c|] eqn:F; [|discriminate].
  destruct (f2_find _ _ _ _ _ (fr_id cur) F2 F) as (c' & F' & (A1 & A2 & _)). rewrite F'.
  unfold skel in A1. rewrite <- A2. replace (c_hgt c') with (c_hgt c) by congruence. assumption.
Qed.

Lemma apply_links_inv18 : forall H ls b h s,
  (forall l, In l ls -> In l H /\ link_src_ok s l = true) ->
  (exists tc, find_ck b (cks s) = Some tc /\ c_hgt tc = h) ->
  NoDup (map c_id (cks s)) -> inv18 b H s ->
  let r := apply_links V n E b h s ls in
  inv18 b H (fst r) /\ snd r = true /\ Forall2 (fr b) (cks s) (cks (fst r)) /\
  (forall x, memN x (tree (fst r)) = true -> memN x (tree s) = true) /\ posted (fst r) = posted s.
Proof.
  intros H. induction ls as [|l ls IH]; simpl; intros b h s Hl Hb ND I.
  - split; [assumption|]. split; [reflexivity|]. split; [apply f2_refl, fr_refl|auto].
  - destruct (Hl l (or_introl eq_refl)) as (HlH & Hok). unfold apply_link. rewrite Hok.
    set (vs := filter (verify E s) (vers_of_link n b h l)).
    assert (Hvs : forall v, In v vs -> v_tgt v = b /\ vok18 s v /\ existsb (slot_filled (v_key v)) H = true).
    { intros v Hv. apply filter_In in Hv. destruct Hv as [Hv Hver]. unfold vers_of_link in Hv.
      destruct (vers_of_slots_props2 _ _ _ _ _ _ _ Hv) as (A & B & C & D & F).
      split; [assumption|]. split.
      - split; [assumption|]. split.
        + unfold link_src_ok in Hok. destruct (find_ck (l_src l) (cks s)) as [c|] eqn:Fc; [|discriminate].
          apply andb_true_iff in Hok. destruct Hok as [_ Hh]. apply N.eqb_eq in Hh.
          exists c. rewrite C, D. auto.
        + destruct Hb as (tc & Ft & Ht). exists tc. rewrite A, B. auto.
      - apply existsb_exists. exists l. split; [assumption|]. unfold slot_filled. now rewrite F. }
    pose proof (fold_admit_inv18 b H vs s Hvs ND I) as I1.
    destruct (fold_admit_frame b vs s (fun v Hv => proj1 (Hvs v Hv))) as (F1 & T1 & P1).
    set (s1 := fold_left (admit_ver V n) vs s) in *.
    assert (ND1 : NoDup (map c_id (cks s1))) by (rewrite <- (f2_ids _ _ _ F1); exact ND).
    destruct (IH b h s1) as (I2 & O2 & F2 & T2 & P2); auto.
    + intros l0 Hl0. destruct (Hl l0 (or_intror Hl0)) as (A & B). split; [assumption|].
      eapply link_src_ok_frame; eauto.
    + destruct Hb as (tc & Ft & Ht). destruct (f2_find _ _ _ _ _ (fr_id b) F1 Ft) as (tc' & Ft' & (A1 & _)).
      exists tc'. split; [assumption|]. unfold skel in A1. congruence.
    + split; [assumption|]. split; [assumption|]. split; [eapply f2_trans; [apply fr_trans|exact F1|exact F2]|].
      split; [auto|congruence].
Qed.

(* ---- the invariant between two events ---------------------------------------------------- *)

Record binv (s : state) : Prop := mk_binv {
  b0 : forall c l, In c (cks s) -> In l (c_tl c) ->
         exists sc, find_ck (l_src l) (cks s) = Some sc /\ c_hgt sc = l_srch l;
  b1 : forall a, In a (adm s) ->
         exists c l, find_ck (vt_tgt a) (cks s) = Some c /\ c_hgt c = vt_tgth a /\
                     In l (c_tl c) /\ slot_filled (vt_key a) l = true /\ l_srch l = vt_srch a /\ l_src l = vt_src a;
  b2 : forall c, In c (cks s) -> c_db c = true /\
         forall l k, In l (c_tl c) -> slot_filled k l = true -> existsb (slot_filled k) (c_hl c) = true;
  b3 : no_double_votes (adm s);
  b4 : pruned_vote_free s = true -> no_nested_votes (adm s);
  b5 : forall c l k, In c (cks s) -> In l (c_tl c) -> slot_filled k l = true ->
         exists a, In a (adm s) /\ vt_key a = k /\ vt_src a = l_src l /\ vt_tgt a = c_id c
}.

(* records change in header links / stored flag only *)
Definition same_tl (c c' : ck) : Prop := skel c = skel c' /\ c_tl c = c_tl c'.

Lemma same_tl_id : forall a b, same_tl a b -> c_id a = c_id b.
Proof. intros a b (H & _). unfold skel in H. congruence. Qed.

Lemma r01_transfer : forall l l' (ad : list vote), Forall2 same_tl l l' ->
  (forall c ln, In c l -> In ln (c_tl c) -> exists sc, find_ck (l_src ln) l = Some sc /\ c_hgt sc = l_srch ln) ->
  (forall a, In a ad -> exists c ln, find_ck (vt_tgt a) l = Some c /\ c_hgt c = vt_tgth a /\
                       In ln (c_tl c) /\ slot_filled (vt_key a) ln = true /\ l_srch ln = vt_srch a /\ l_src ln = vt_src a) ->
  (forall c ln, In c l' -> In ln (c_tl c) -> exists sc, find_ck (l_src ln) l' = Some sc /\ c_hgt sc = l_srch ln) /\
  (forall a, In a ad -> exists c ln, find_ck (vt_tgt a) l' = Some c /\ c_hgt c = vt_tgth a /\
                       In ln (c_tl c) /\ slot_filled (vt_key a) ln = true /\ l_srch ln = vt_srch a /\ l_src ln = vt_src a).
Proof.
  intros l l' ad F2 R0 R1. split.
  - intros c' ln Hc' Hl. destruct (f2_in_r _ _ _ _ F2 Hc') as (c & Hc & (A1 & A2)). rewrite <- A2 in Hl.
    destruct (R0 c ln Hc Hl) as (sc & Fs & Hh). destruct (f2_find _ _ _ _ _ same_tl_id F2 Fs) as (sc' & Fs' & (B1 & _)).
    exists sc'. split; [assumption|]. unfold skel in B1. congruence.
  - intros a Ha. destruct (R1 a Ha) as (c & ln & Fc & Hh & Hl & Hs & Hr).
    destruct (f2_find _ _ _ _ _ same_tl_id F2 Fc) as (c' & Fc' & (B1 & B2)).
    exists c', ln. split; [assumption|]. split; [unfold skel in B1; congruence|]. rewrite <- B2. auto.
Qed.

(* the working invariant at the end of an event: the header of cur is written *)
Lemma inv18_close : forall cur H s, NoDup (map c_id (cks s)) -> inv18 cur H s ->
  binv (with_cks s (upd_ck cur (fun c => set_db (set_hl H c)) (cks s))).
Proof.
  intros cur H s ND [R0 R1 R2 R3 R4 R5].
  set (f := fun c => set_db (set_hl H c)).
  assert (F2 : Forall2 same_tl (cks s) (upd_ck cur f (cks s))).
  { apply f2_upd_any; intros c; split; reflexivity. }
  destruct (r01_transfer _ _ (adm s) F2 R0 R1) as (B0 & B1).
  constructor; cbn [cks adm with_cks]; auto.
  { intros c' Hc'.
  assert (Hk : keeps_skel f) by (intros x; reflexivity).
  assert (NDu : NoDup (map c_id (upd_ck cur f (cks s)))) by (rewrite upd_ck_ids; [exact ND|exact Hk]).
  destruct (N.eq_dec (c_id c') cur) as [Eid|Eid].
  - pose proof (find_ck_in _ _ NDu Hc') as Fc'. rewrite Eid in Fc'.
    rewrite find_upd_same in Fc' by exact Hk. destruct (find_ck cur (cks s)) as [c0|] eqn:F0; [|discriminate].
    simpl in Fc'. inversion Fc' as [Q]. assert (Hc0 : In c0 (cks s) /\ c_id c0 = cur) by now apply find_ck_some.
    destruct (R2 c0 (proj1 Hc0)) as (_ & Hx). split; [reflexivity|]. intros l k Hl Hs. simpl in Hl.
    specialize (Hx l k Hl Hs). unfold eff in Hx. rewrite (proj2 Hc0), N.eqb_refl in Hx. exact Hx.
  - destruct (in_upd_ck _ _ _ _ Hc') as (c & Hc & [->|[-> Eid2]]).
    + destruct (R2 c Hc) as (Hd & Hx). unfold edb, eff in *. apply N.eqb_neq in Eid. rewrite Eid in Hd, Hx. auto.
    + exfalso. apply Eid. exact Eid2. }
  intros c' l k Hc' Hl Hs. destruct (in_upd_ck _ _ _ _ Hc') as (c & Hc & [->|[-> _]]); [now apply (R5 c l k)|].
  simpl in Hl. destruct (R5 c l k Hc Hl Hs) as (a & Ha & A). exists a. auto.
Qed.

Lemma inv18_same : forall cur H s s', inv18 cur H s -> cks s' = cks s -> adm s' = adm s -> tree s' = tree s ->
  inv18 cur H s'.
Proof.
  intros cur H s s' [R0 R1 R2 R3 R4 R5] Hc Ha Ht. constructor; try rewrite Hc; try rewrite Ha; auto.
  unfold pruned_vote_free. now rewrite Ha, Ht.
Qed.

(* a new checkpoint b: the working invariant for b, whatever its header will be *)
Lemma binv_open_new : forall s b H nb tr ro,
  binv s -> in_cks b (cks s) = false -> c_id nb = b -> c_tl nb = [] ->
  (forall x, memN x tr = true -> memN x (tree s) = true \/ x = b) ->
  inv18 b H (mkst (cks s ++ [nb]) tr ro (adm s) (posted s)).
Proof.
  intros s b H nb tr ro [B0 B1 B2 B3 B4 B5] Hb Hid Htl Htr.
  assert (Hbn : forall c, In c (cks s) -> c_id c <> b).
  { intros c Hc E0. assert (in_cks b (cks s) = true); [|congruence]. apply in_cks_true. rewrite <- E0. now apply in_map. }
  constructor; cbn [cks adm].
  - intros c l Hc Hl. apply in_app_or in Hc. destruct Hc as [Hc|[<-|[]]]; [|rewrite Htl in Hl; contradiction].
    destruct (B0 c l Hc Hl) as (sc & Fs & Hh). exists sc. split; [now apply find_ck_snoc_old|assumption].
  - intros a Ha. destruct (B1 a Ha) as (c & l & Fc & Hrest). exists c, l. split; [now apply find_ck_snoc_old|assumption].
  - intros c Hc. apply in_app_or in Hc. destruct Hc as [Hc|[<-|[]]].
    + destruct (B2 c Hc) as (Hd & Hx). pose proof (Hbn c Hc) as Hne. apply N.eqb_neq in Hne.
      unfold edb, eff. rewrite Hne, Hd. split; [reflexivity|exact Hx].
    + unfold edb. rewrite Hid, N.eqb_refl. split; [reflexivity|]. intros l k Hl. rewrite Htl in Hl. contradiction.
  - exact B3.
  - intros Hp. apply B4. unfold pruned_vote_free in *. cbn [adm tree] in Hp. apply forallb_forall. intros a Ha.
    pose proof (forallb_in _ _ a Hp Ha) as Hm. cbv beta in Hm. destruct (Htr _ Hm) as [Hm'|Hm']; [assumption|].
    exfalso. destruct (B1 a Ha) as (c & l & Fc & _). apply find_ck_some in Fc. destruct Fc as [Hc Hci].
    apply (Hbn c Hc). congruence.
  - intros c l k Hc Hl Hs. apply in_app_or in Hc. destruct Hc as [Hc|[<-|[]]]; [now apply (B5 c l k)|].
    rewrite Htl in Hl. contradiction.
Qed.

(* an existing checkpoint: its header will get one more signature *)
Lemma binv_open_auth : forall s tgt t src srch k x,
  NoDup (map c_id (cks s)) -> binv s -> find_ck tgt (cks s) = Some t ->
  inv18 tgt (add_ver src srch k x (c_hl t)) s.
Proof.
  intros s tgt t src srch k x ND [B0 B1 B2 B3 B4 B5] Ft. constructor; auto.
  intros c Hc. destruct (B2 c Hc) as (Hd & Hx). unfold edb, eff. rewrite Hd, orb_true_r. split; [reflexivity|].
  intros l j Hl Hs. specialize (Hx l j Hl Hs). destruct (c_id c =? tgt) eqn:Eid; [|assumption].
  apply N.eqb_eq in Eid. pose proof (find_ck_in _ _ ND Hc) as Fc. rewrite Eid in Fc. assert (c = t) by congruence. subst c.
  now apply add_ver_filled_exists.
Qed.

Lemma my_verification_spec : forall s b v, my_verification n E local s b = Some v ->
  exists a src, In a (c_anc b) /\ find_ck a (cks s) = Some src /\ local < n /\ verify E s v = true /\
    v = mkvmsg local (c_id src) (c_hgt src) (c_id b) (c_hgt b) (mksig local (c_id src) (c_id b)).
Proof.
  intros s b v H. unfold my_verification in H. destruct (local <? n) eqn:Hl; [|discriminate].
  unfold last_justified_anc in H.
  destruct (find (fun a => memN a (tree s) &&
              match find_ck a (cks s) with Some c => status_eqb (c_st c) Justified | None => false end) (c_anc b))
    as [a|] eqn:Ef; [|discriminate].
  apply find_some in Ef. destruct Ef as [Ha _]. destruct (find_ck a (cks s)) as [src|] eqn:Fs; [|discriminate].
  destruct (existsb (slot_filled local) (c_tl b)); [discriminate|].
  destruct (verify E s _) eqn:Hv; [|discriminate]. inversion H; subst v.
  exists a, src. split; [assumption|]. split; [assumption|]. split; [now apply N.ltb_lt|]. split; [assumption|reflexivity].
Qed.

Lemma link_src_ok_ext : forall s s' l, (forall x c, find_ck x (cks s) = Some c -> find_ck x (cks s') = Some c) ->
  link_src_ok s l = true -> link_src_ok s' l = true.
Proof.
  intros s s' l He H. unfold link_src_ok in *. destruct (find_ck (l_src l) (cks s)) as [c|] eqn:F; [|discriminate].
  now rewrite (He _ _ F).
Qed.

Lemma link_src_ok_same : forall s l l', l_src l' = l_src l -> l_srch l' = l_srch l ->
  link_src_ok s l = true -> link_src_ok s l' = true.
Proof. intros s l l' H1 H2 H. unfold link_src_ok in *. now rewrite H1, H2. Qed.

Lemma upd_ck_ext : forall id f g l, (forall c, In c l -> c_id c = id -> f c = g c) -> upd_ck id f l = upd_ck id g l.
Proof.
  induction l as [|d l IH]; simpl; intros H; [reflexivity|].
  destruct (c_id d =? id) eqn:Eid.
  - rewrite (H d); [reflexivity|now left|now apply N.eqb_eq].
  - f_equal. apply IH. intros c Hc. apply H. now right.
Qed.

Hypothesis HP : precheck_links V = true.

Lemma apply_block_binv : forall s b p h links, wf fin s -> binv s ->
  binv (fst (apply_block V n E local s b p h links)).
Proof.
  intros s b p h links W B. unfold apply_block.
  destruct (memN b (tree s)); [exact B|].
  destruct (in_cks b (cks s)) eqn:Hb; [exact B|].
  destruct (memN p (tree s)) eqn:Hp; [|exact B]. simpl.
  destruct (find_ck p (cks s)) as [pc|] eqn:Fp; [|exact B].
  destruct (c_hgt pc <? h); [|exact B]. simpl. rewrite HP. simpl.
  destruct (forallb (link_src_ok s) (map norm_link links)) eqn:Hpre; [|exact B]. simpl.
  set (nb := mkck b p h (p :: c_anc pc) Unjustified false [] []).
  set (s1 := mkst (cks s ++ [nb]) (tree s ++ [b]) (root s) (adm s) (posted s)).
  assert (W1 : wf fin s1) by (apply wf_add; auto; discriminate).
  pose proof (wf_ids _ (w_sk fin s1 W1)) as ND1.
  assert (Fb : find_ck b (cks s1) = Some nb) by (apply (find_ck_snoc_new (cks s) nb); exact Hb).
  assert (Hold : forall x c, find_ck x (cks s) = Some c -> find_ck x (cks s1) = Some c).
  { intros x c F. simpl. now apply find_ck_snoc_old. }
  assert (I1 : forall H, inv18 b H s1).
  { intros H. apply binv_open_new; auto. intros x Hx. rewrite memN_app in Hx. apply orb_true_iff in Hx.
    destruct Hx as [Hx|Hx]; [now left|right]. simpl in Hx. rewrite orb_false_r in Hx. now apply N.eqb_eq in Hx. }
  assert (Hl1 : forall l, In l (map norm_link links) -> link_src_ok s1 l = true).
  { intros l Hl. apply (link_src_ok_ext s); [exact Hold|]. exact (forallb_in _ _ l Hpre Hl). }
  (* the common end: all links usable, the header of b is written *)
  assert (Hmain : forall s2 links2, cks s2 = cks s1 -> adm s2 = adm s1 -> tree s2 = tree s1 ->
            (forall l, In l links2 -> link_src_ok s1 l = true) ->
            let '(s3, ok) := apply_links V n E b h s2 links2 in
            binv (fst (if ok then (with_cks s3 (upd_ck b (fun c => set_db (set_hl links2 c)) (cks s3)), true)
                       else (s3, false)))).
  { intros s2 links2 Hc Ha Ht Hls.
    assert (I2 : inv18 b links2 s2) by (apply (inv18_same b links2 s1); auto).
    destruct (apply_links_inv18 links2 links2 b h s2) as (I3 & O3 & F3 & _); auto.
    - intros l Hl. split; [assumption|]. apply (link_src_ok_ext s1); [intros x c; now rewrite Hc|now apply Hls].
    - exists nb. rewrite Hc. auto.
    - now rewrite Hc.
    - destruct (apply_links V n E b h s2 links2) as [s3 ok]. simpl in I3, O3, F3. subst ok. cbn [fst].
      apply inv18_close; [|assumption]. rewrite <- (f2_ids _ _ _ F3), Hc. exact ND1. }
  destruct (my_verification n E local s1 nb) as [v|] eqn:Emy.
  - destruct (my_verification_spec s1 nb v Emy) as (a & src & Ha & Fs & Hln & Hver & Ev).
    specialize (Hmain (post s1 v) (add_ver (v_src v) (v_srch v) (v_key v) (v_sig v) (map norm_link links))
                      eq_refl eq_refl eq_refl).
    destruct (apply_links V n E b h (post s1 v) _) as [s3 ok]. apply Hmain.
    intros l Hl. destruct (add_ver_link _ _ _ _ _ _ Hl) as [(l0 & H0 & E1 & E2)|(E1 & E2)].
    + apply (link_src_ok_same s1 l0); auto.
    + (* the link of the node's own vote: its source is a stored checkpoint of that height *)
      assert (Hsrc : In src (cks s1) /\ c_id src = a) by now apply find_ck_some.
      assert (Hdb : c_db src = true).
      { destruct Hsrc as [Hin Hid]. simpl in Hin. apply in_app_or in Hin. destruct Hin as [Hin|[Hin|[]]].
        - destruct (b2 s B src Hin). assumption.
        - exfalso. subst src. simpl in Hid. subst a.
          apply (wf_self _ (w_sk fin s1 W1) nb); [simpl; apply in_or_app; right; now left|exact Ha]. }
      unfold link_src_ok. rewrite E1, E2. subst v. cbn [v_src v_srch].
      rewrite (proj2 Hsrc), Fs, Hdb, N.eqb_refl. reflexivity.
  - specialize (Hmain s1 (map norm_link links) eq_refl eq_refl eq_refl Hl1).
    destruct (apply_links V n E b h s1 _) as [s3 ok]. exact Hmain.
Qed.

Lemma auth_binv : forall dup s pub src tgt x, wf fin s -> memN tgt (tree s) = true -> binv s ->
  binv (fst (auth V n E dup s pub src tgt x)).
Proof.
  intros dup s pub src tgt x W Ht B. unfold auth. pose proof (wf_ids _ (w_sk fin s W)) as ND.
  destruct (find_ck src (cks s)) as [sc|] eqn:Fs; [|exact B].
  destruct (negb (c_db sc)); [exact B|].
  destruct (find_ck tgt (cks s)) as [t|] eqn:Ft; [|exact B].
  destruct (tgt =? root s) eqn:Er; [exact B|].
  destruct (negb (pub <? n)); [exact B|].
  destruct (dup && contains_ver pub src (c_tl t)); [exact B|].
  set (v := mkvmsg pub src (c_hgt sc) tgt (c_hgt t) x).
  destruct (negb (verify E s v)) eqn:Hver; [exact B|]. apply negb_false_iff in Hver.
  set (H := add_ver src (c_hgt sc) pub x (c_hl t)).
  assert (I0 : inv18 tgt H s) by (apply binv_open_auth; auto).
  assert (I1 : inv18 tgt H (admit_ver V n s v)).
  { apply admit_inv18; auto.
    - split; [assumption|]. split; [exists sc; auto|exists t; auto].
    - apply add_ver_new_exists. }
  destruct (admit_frame s v) as (F2 & _). cbn [v_tgt v] in F2.
  set (s1 := post (admit_ver V n s v) v).
  assert (I2 : inv18 tgt H s1) by (apply (inv18_same tgt H (admit_ver V n s v)); auto).
  assert (ND1 : NoDup (map c_id (cks s1))) by (cbn [cks s1 post]; rewrite <- (f2_ids _ _ _ F2); exact ND).
  assert (Hdb : c_db t = true) by (destruct (b2 s B t) as (Hd & _); [apply find_ck_some in Ft; tauto|assumption]).
  rewrite Hdb. cbn [fst].
  assert (Eupd : upd_ck tgt (fun c => set_hl (add_ver src (c_hgt sc) pub x (c_hl c)) c) (cks s1)
                 = upd_ck tgt (fun c => set_db (set_hl H c)) (cks s1)).
  { apply upd_ck_ext. intros c Hc Hid.
    destruct (f2_find _ _ _ _ _ (fr_id tgt) F2 Ft) as (t' & Ft' & (A1 & A2 & A3 & _)).
    pose proof (find_ck_in _ _ ND1 Hc) as Fc. rewrite Hid in Fc. cbn [cks s1 post] in Fc.
    assert (c = t') by congruence. subst c. unfold H. rewrite <- A3.
    unfold set_db, set_hl. simpl. rewrite <- A2, Hdb. reflexivity. }
  rewrite Eupd. now apply inv18_close.
Qed.

Lemma step_binv : forall s e, is_restart e = false -> wf fin s -> binv s -> binv (fst (step V n E local s e)).
Proof.
  intros s e He W B. destruct e as [b p h links|pub src tgt x|pub src tgt x|r]; simpl in *; try discriminate.
  - now apply apply_block_binv.
  - unfold auth_verification. destruct (memN tgt (tree s)) eqn:Ht; [now apply auth_binv|exact B].
  - unfold auth_cached. destruct (memN tgt (tree s)) eqn:Ht; [now apply auth_binv|exact B].
Qed.

Lemma steps_binv : forall evs s, restart_free evs = true -> wf fin s -> binv s ->
  binv (fold_left (fun s e => fst (step V n E local s e)) evs s).
Proof.
  induction evs as [|e evs IH]; simpl; intros s Hr W B; [assumption|].
  apply andb_true_iff in Hr. destruct Hr as [He Hr]. apply negb_true_iff in He.
  destruct (step_ok fin V n E local s e He W) as (W1 & _).
  apply IH; [assumption|assumption|]. now apply step_binv.
Qed.

(* ---- every vote the node posts is a vote it accepted ----------------------------------------- *)

Lemma admit_adm_mono : forall s v a, In a (adm s) -> In a (adm (admit_ver V n s v)).
Proof.
  intros s v a Ha. unfold admit_ver.
  destruct (find_ck (v_tgt v) (cks s)) as [t|]; [|assumption].
  destruct (find_ck (v_src v) (cks s)) as [src|]; [|assumption].
  match goal with |- In a (adm (match ?x with Some _ => _ | None => ?s1 end)) =>
    assert (H1 : In a (adm s1)) by (simpl; now right); destruct x; [|exact H1] end.
  match goal with |- In a (adm (if ?c then _ else _)) => destruct c; [|simpl; now right] end.
  unfold set_justified. cbn [cks with_cks].
  match goal with |- In a (adm (match ?x with Some _ => _ | None => _ end)) => destruct x; [|simpl; now right] end.
  match goal with |- In a (adm (if ?c then _ else _)) => destruct c; [|simpl; now right] end.
  unfold set_finalized. cbn [cks with_cks tree root adm posted].
  match goal with |- In a (adm (if ?c then _ else _)) => destruct c; simpl; now right end.
Qed.

Lemma fold_admit_adm_mono : forall vs s a, In a (adm s) -> In a (adm (fold_left (admit_ver V n) vs s)).
Proof. induction vs as [|v vs IH]; simpl; intros s a Ha; [assumption|]. apply IH. now apply admit_adm_mono. Qed.

Lemma fold_admit_logs : forall b vs s w, In w vs -> (forall v, In v vs -> v_tgt v = b) ->
  (forall v, In v vs -> vok18 s v) -> NoDup (map c_id (cks s)) ->
  In (vote_of w) (adm (fold_left (admit_ver V n) vs s)).
Proof.
  induction vs as [|v vs IH]; simpl; intros s w Hw Hb Hok ND; [contradiction|].
  assert (Hrest : forall u, In u vs -> vok18 (admit_ver V n s v) u).
  { intros u Hu. apply vok18_stable; auto. rewrite (Hb u (or_intror Hu)), (Hb v (or_introl eq_refl)). reflexivity. }
  destruct Hw as [->|Hw].
  - apply fold_admit_adm_mono. destruct (Hok w (or_introl eq_refl)) as (_ & (sc & Fs & _) & (tc & Ft & _)).
    destruct (admit_target s w tc sc Ft Fs) as (Ha & _). rewrite Ha. now left.
  - apply IH; auto. now apply nodup_admit.
Qed.

Lemma vers_of_slots_in : forall m b h src srch sl k x, slot_get k sl = Some x -> (N.to_nat k < m)%nat ->
  In (mkvmsg k src srch b h x) (vers_of_slots m b h src srch sl).
Proof.
  induction m as [|m IH]; simpl; intros b h src srch sl k x Hs Hk; [lia|].
  destruct (Nat.eq_dec (N.to_nat k) m) as [Ek|Ek].
  - assert (Ek' : N.of_nat m = k) by (rewrite <- Ek; apply N2Nat.id). rewrite Ek', Hs. apply in_or_app. right. now left.
  - assert (Hlt : (N.to_nat k < m)%nat) by lia. specialize (IH b h src srch sl k x Hs Hlt).
    destruct (slot_get (N.of_nat m) sl); [apply in_or_app; now left|assumption].
Qed.

Lemma apply_links_adm_mono : forall ls b h s a, In a (adm s) -> In a (adm (fst (apply_links V n E b h s ls))).
Proof.
  induction ls as [|l ls IH]; simpl; intros b h s a Ha; [assumption|].
  unfold apply_link. destruct (link_src_ok s l); [|assumption]. apply IH. now apply fold_admit_adm_mono.
Qed.

(* a vote carried by one of the links, and passing the checks, is accepted *)
Lemma apply_links_logs : forall ls b h s k src srch x,
  (exists l, In l ls /\ l_src l = src /\ l_srch l = srch /\ slot_get k (l_slots l) = Some x) ->
  k < n -> vok18 s (mkvmsg k src srch b h x) ->
  (forall l, In l ls -> link_src_ok s l = true) -> NoDup (map c_id (cks s)) ->
  In (mkvote k src srch b h) (adm (fst (apply_links V n E b h s ls))).
Proof.
  induction ls as [|l0 ls IH]; simpl; intros b h s k src srch x (l & Hl & E1 & E2 & Hs) Hk Hok Hlinks ND; [contradiction|].
  unfold apply_link. rewrite (Hlinks l0 (or_introl eq_refl)).
  set (vs := filter (verify E s) (vers_of_link n b h l0)).
  assert (Hvs : forall v, In v vs -> v_tgt v = b /\ vok18 s v).
  { intros v Hv. apply filter_In in Hv. destruct Hv as [Hv Hver]. unfold vers_of_link in Hv.
    destruct (vers_of_slots_props2 _ _ _ _ _ _ _ Hv) as (A & B & C & D & F). split; [assumption|].
    split; [assumption|]. split.
    - pose proof (Hlinks l0 (or_introl eq_refl)) as Hl0. unfold link_src_ok in Hl0.
      destruct (find_ck (l_src l0) (cks s)) as [c|] eqn:Fc; [|discriminate].
      apply andb_true_iff in Hl0. destruct Hl0 as [_ Hh]. apply N.eqb_eq in Hh. exists c. rewrite C, D. auto.
    - destruct Hok as (_ & _ & (tc & Ft & Ht)). exists tc. rewrite A, B. auto. }
  destruct (fold_admit_frame b vs s (fun v Hv => proj1 (Hvs v Hv))) as (F1 & _ & _).
  set (s1 := fold_left (admit_ver V n) vs s) in *.
  destruct Hl as [->|Hl].
  - (* the vote is carried by this link *)
    apply apply_links_adm_mono.
    assert (Hw : In (mkvmsg k src srch b h x) vs).
    { apply filter_In. split; [|apply Hok]. unfold vers_of_link. rewrite E1, E2. apply vers_of_slots_in; [assumption|lia]. }
    exact (fold_admit_logs b vs s _ Hw (fun v Hv => proj1 (Hvs v Hv)) (fun v Hv => proj2 (Hvs v Hv)) ND).
  - apply (IH b h s1 k src srch x); auto.
    + exists l. auto.
    + (* the checks still pass after the admissions of the first link *)
      destruct Hok as (Hver & (sc & Fs & Hsc) & (tc & Ft & Htc)).
      assert (F1' : Forall2 (fr (v_tgt (mkvmsg k src srch b h x))) (cks s) (cks s1)) by exact F1.
      destruct (fold_admit_frame b vs s (fun v Hv => proj1 (Hvs v Hv))) as (_ & T1 & _).
      split; [|split].
      * apply (verify_stable s); auto. intros c Hc Hid. pose proof (find_ck_in _ _ ND Hc) as F. simpl in Hid.
        rewrite Hid in F. simpl in Ft. congruence.
      * destruct (f2_find _ _ _ _ _ (fr_id _) F1 Fs) as (sc' & Fs' & (A1 & _)). exists sc'. split; [assumption|].
        unfold skel in A1. simpl in *. congruence.
      * destruct (f2_find _ _ _ _ _ (fr_id _) F1 Ft) as (tc' & Ft' & (A1 & _)). exists tc'. split; [assumption|].
        unfold skel in A1. simpl in *. congruence.
    + intros l1 Hl1. eapply link_src_ok_frame; [exact F1|]. apply Hlinks. now right.
    + rewrite <- (f2_ids _ _ _ F1). exact ND.
Qed.

Lemma add_ver_has2 : forall src srch k x ls,
  exists l, In l (add_ver src srch k x ls) /\ l_src l = src /\ slot_get k (l_slots l) = Some x /\
            (l_srch l = srch \/ exists l0, In l0 ls /\ l_src l0 = src /\ l_srch l = l_srch l0).
Proof.
  induction ls as [|l0 ls IH]; simpl.
  - eexists. split; [now left|]. simpl. rewrite N.eqb_refl. auto.
  - destruct (l_src l0 =? src) eqn:E0.
    + eexists. split; [now left|]. cbn [l_src l_srch l_slots]. rewrite slot_get_set, N.eqb_refl. apply N.eqb_eq in E0.
      split; [assumption|]. split; [reflexivity|]. right. exists l0. auto.
    + destruct IH as (l & H1 & H2 & H3 & H4). exists l. split; [now right|]. split; [assumption|]. split; [assumption|].
      destruct H4 as [H4|(l1 & A & B & C)]; [now left|]. right. exists l1. split; [now right|auto].
Qed.

Definition posted_admitted (s : state) : Prop := forall p, In p (posted s) -> In p (adm s).

Lemma apply_block_posted : forall s b p h links, wf fin s -> binv s -> posted_admitted s ->
  posted_admitted (fst (apply_block V n E local s b p h links)).
Proof.
  intros s b p h links W B PA. unfold apply_block.
  destruct (memN b (tree s)); [exact PA|].
  destruct (in_cks b (cks s)) eqn:Hb; [exact PA|].
  destruct (memN p (tree s)) eqn:Hp; [|exact PA]. simpl.
  destruct (find_ck p (cks s)) as [pc|] eqn:Fp; [|exact PA].
  destruct (c_hgt pc <? h); [|exact PA]. simpl. rewrite HP. simpl.
  destruct (forallb (link_src_ok s) (map norm_link links)) eqn:Hpre; [|exact PA]. simpl.
  set (nb := mkck b p h (p :: c_anc pc) Unjustified false [] []).
  set (s1 := mkst (cks s ++ [nb]) (tree s ++ [b]) (root s) (adm s) (posted s)).
  assert (W1 : wf fin s1) by (apply wf_add; auto; discriminate).
  pose proof (wf_ids _ (w_sk fin s1 W1)) as ND1.
  assert (Fb : find_ck b (cks s1) = Some nb) by (apply (find_ck_snoc_new (cks s) nb); exact Hb).
  assert (Hold : forall x c, find_ck x (cks s) = Some c -> find_ck x (cks s1) = Some c).
  { intros x c F. simpl. now apply find_ck_snoc_old. }
  assert (Hl1 : forall l, In l (map norm_link links) -> link_src_ok s1 l = true).
  { intros l Hl. apply (link_src_ok_ext s); [exact Hold|]. exact (forallb_in _ _ l Hpre Hl). }
  destruct (my_verification n E local s1 nb) as [v|] eqn:Emy.
  - destruct (my_verification_spec s1 nb v Emy) as (a & src & Ha & Fs & Hln & Hver & Ev).
    set (links2 := add_ver (v_src v) (v_srch v) (v_key v) (v_sig v) (map norm_link links)).
    assert (Hsrc : In src (cks s1) /\ c_id src = a) by now apply find_ck_some.
    assert (Hdb : c_db src = true).
    { destruct Hsrc as [Hin Hid]. simpl in Hin. apply in_app_or in Hin. destruct Hin as [Hin|[Hin|[]]].
      - destruct (b2 s B src Hin). assumption.
      - exfalso. subst src. simpl in Hid. subst a.
        apply (wf_self _ (w_sk fin s1 W1) nb); [simpl; apply in_or_app; right; now left|exact Ha]. }
    assert (Fsrc : find_ck (c_id src) (cks s1) = Some src) by (rewrite (proj2 Hsrc); exact Fs).
    assert (Hl2 : forall l, In l links2 -> link_src_ok (post s1 v) l = true).
    { intros l Hl. destruct (add_ver_link _ _ _ _ _ _ Hl) as [(l0 & H0 & E1 & E2)|(E1 & E2)].
      - apply (link_src_ok_same _ l0); auto. now apply Hl1.
      - unfold link_src_ok. cbn [cks post]. rewrite E1, E2. subst v. cbn [v_src v_srch].
        rewrite Fsrc, Hdb, N.eqb_refl. reflexivity. }
    (* the node's own vote is carried by links2 and passes the checks again *)
    assert (Hlog : In (vote_of v) (adm (fst (apply_links V n E b h (post s1 v) links2)))).
    { subst v. cbn [vote_of v_key v_src v_srch v_tgt v_tgth c_id c_hgt nb].
      apply (apply_links_logs links2 b h (post s1 _) local (c_id src) (c_hgt src) (mksig local (c_id src) b)); auto.
      - destruct (add_ver_has2 (c_id src) (c_hgt src) local (mksig local (c_id src) b) (map norm_link links))
          as (l & A & B1 & C & D).
        exists l. split; [exact A|]. split; [assumption|]. split; [|assumption].
        destruct D as [D|(l0 & D1 & D2 & D3)]; [assumption|].
        pose proof (Hl1 l0 D1) as Hok0. unfold link_src_ok in Hok0. rewrite D2, Fsrc in Hok0.
        apply andb_true_iff in Hok0. destruct Hok0 as [_ Hh]. apply N.eqb_eq in Hh. congruence.
      - split; [exact Hver|]. split; [exists src; auto|exists nb; auto]. }
    destruct (apply_links_inv18 links2 links2 b h (post s1 v)) as (_ & O3 & _ & _ & P3); auto.
    + exists nb. auto.
    + apply (inv18_same b links2 s1); auto. apply binv_open_new; auto. intros x Hx. rewrite memN_app in Hx.
      apply orb_true_iff in Hx. destruct Hx as [Hx|Hx]; [now left|right]. simpl in Hx. rewrite orb_false_r in Hx.
      now apply N.eqb_eq in Hx.
    + pose proof (apply_links_adm_mono links2 b h (post s1 v)) as Hmono.
      fold links2. destruct (apply_links V n E b h (post s1 v) links2) as [s3 ok]. simpl in *. subst ok. cbn [fst].
      intros q Hq. cbn [posted adm with_cks] in *. rewrite P3 in Hq. destruct Hq as [<-|Hq]; [exact Hlog|].
      apply Hmono. apply PA. exact Hq.
  - destruct (apply_links_inv18 (map norm_link links) (map norm_link links) b h s1) as (_ & O3 & _ & _ & P3); auto.
    + exists nb. auto.
    + apply binv_open_new; auto. intros x Hx. rewrite memN_app in Hx.
      apply orb_true_iff in Hx. destruct Hx as [Hx|Hx]; [now left|right]. simpl in Hx. rewrite orb_false_r in Hx.
      now apply N.eqb_eq in Hx.
    + pose proof (apply_links_adm_mono (map norm_link links) b h s1) as Hmono.
      destruct (apply_links V n E b h s1 (map norm_link links)) as [s3 ok]. simpl in *. subst ok. cbn [fst].
      intros q Hq. cbn [posted adm with_cks] in *. rewrite P3 in Hq. apply Hmono. apply PA. exact Hq.
Qed.

Lemma auth_posted : forall dup s pub src tgt x, posted_admitted s ->
  posted_admitted (fst (auth V n E dup s pub src tgt x)).
Proof.
  intros dup s pub src tgt x PA. unfold auth.
  destruct (find_ck src (cks s)) as [sc|] eqn:Fs; [|exact PA].
  destruct (negb (c_db sc)); [exact PA|].
  destruct (find_ck tgt (cks s)) as [t|] eqn:Ft; [|exact PA].
  destruct (tgt =? root s); [exact PA|].
  destruct (negb (pub <? n)); [exact PA|].
  destruct (dup && contains_ver pub src (c_tl t)); [exact PA|].
  set (v := mkvmsg pub src (c_hgt sc) tgt (c_hgt t) x).
  destruct (negb (verify E s v)); [exact PA|].
  destruct (admit_target s v t sc Ft Fs) as (Ha & _). destruct (admit_frame s v) as (_ & _ & Hp).
  assert (R : posted_admitted (post (admit_ver V n s v) v)).
  { intros q Hq. cbn [posted adm post] in *. rewrite Ha. rewrite Hp in Hq.
    destruct Hq as [<-|Hq]; [now left|right; now apply PA]. }
  destruct (c_db t); cbn [fst]; exact R.
Qed.

Lemma steps_posted : forall evs s, restart_free evs = true -> wf fin s -> binv s -> posted_admitted s ->
  posted_admitted (fold_left (fun s e => fst (step V n E local s e)) evs s).
Proof.
  induction evs as [|e evs IH]; simpl; intros s Hr W B PA; [assumption|].
  apply andb_true_iff in Hr. destruct Hr as [He Hr]. apply negb_true_iff in He.
  destruct (step_ok fin V n E local s e He W) as (W1 & _).
  apply IH; [assumption|assumption|now apply step_binv|].
  destruct e as [b p h links|pub src tgt x|pub src tgt x|r]; simpl in *; try discriminate.
  - now apply apply_block_posted.
  - unfold auth_verification. destruct (memN tgt (tree s)); [now apply auth_posted|exact PA].
  - unfold auth_cached. destruct (memN tgt (tree s)); [now apply auth_posted|exact PA].
Qed.

End S18.

(* ---- histories -------------------------------------------------------------------------- *)

Lemma init_binv : forall g, binv (init g).
Proof.
  intros g. unfold init. constructor; simpl.
  - intros c l [<-|[]] [].
  - intros a [].
  - intros c [<-|[]]. split; [reflexivity|]. intros l k [].
  - intros a b [].
  - intros _ a b [].
  - intros c l k [<-|[]] [].
Qed.

Section H18.

Variable V : variant.
Variable n E local g : N.
Hypothesis HP : precheck_links V = true.

Lemma run_binv : forall evs, restart_free evs = true -> binv (run V n E local g evs).
Proof.
  intros evs Hr. unfold run. apply (steps_binv false V n E local HP evs (init g) Hr (init_wf false g) (init_binv g)).
Qed.

Lemma run_posted : forall evs, restart_free evs = true -> posted_admitted (run V n E local g evs).
Proof.
  intros evs Hr. unfold run.
  apply (steps_posted false V n E local HP evs (init g) Hr (init_wf false g) (init_binv g)). intros p [].
Qed.

(* the votes the node produced or accepted *)
Definition all_votes (s : state) : list vote := adm s ++ posted s.

Lemma all_votes_adm : forall evs a, restart_free evs = true ->
  In a (all_votes (run V n E local g evs)) -> In a (adm (run V n E local g evs)).
Proof.
  intros evs a Hr Ha. apply in_app_or in Ha. destruct Ha as [Ha|Ha]; [assumption|]. now apply run_posted.
Qed.

Lemma no_double_votes_holds : forall evs, restart_free evs = true ->
  no_double_votes (all_votes (run V n E local g evs)).
Proof.
  intros evs Hr a b Ha Hb. apply (b3 _ (run_binv evs Hr)); now apply all_votes_adm.
Qed.

Lemma no_nested_votes_holds : forall evs, restart_free evs = true ->
  pruned_vote_free (run V n E local g evs) = true ->
  no_nested_votes (all_votes (run V n E local g evs)).
Proof.
  intros evs Hr Hp a b Ha Hb. apply (b4 _ (run_binv evs Hr) Hp); now apply all_votes_adm.
Qed.

End H18.

(* ---- refutations -------------------------------------------------------------------------- *)

Definition has_nested (l : list vote) : bool := existsb (fun a => existsb (nested a) l) l.
Definition has_double (l : list vote) : bool := existsb (fun a => existsb (double_vote a) l) l.

Lemma has_nested_refutes : forall l, has_nested l = true -> ~ no_nested_votes l.
Proof.
  intros l H Hn. unfold has_nested in H. apply existsb_exists in H. destruct H as (a & Ha & H).
  apply existsb_exists in H. destruct H as (b & Hb & H). rewrite (Hn a b Ha Hb) in H. discriminate.
Qed.

Lemma has_double_refutes : forall l, has_double l = true -> ~ no_double_votes l.
Proof.
  intros l H Hn. unfold has_double in H. apply existsb_exists in H. destruct H as (a & Ha & H).
  apply existsb_exists in H. destruct H as (b & Hb & H). rewrite (Hn a b Ha Hb) in H. discriminate.
Qed.

(* the full statement of the span rule: every restart-free history *)
Definition C18_span_full : Prop :=
  forall V n E local g evs, precheck_links V = true -> restart_free evs = true ->
    no_nested_votes (all_votes (run V n E local g evs)).

(* witness (replayed on the node by the harness): branch C = 4,8,12 and branch B = 16,20,24 from genesis, the
   node is no validator.  Validator 3 votes 0 -> 12; validators 0,1,2 justify 16 and then 20 (16 finalized, branch
   C pruned); validator 3's 16 -> 20 (heights 4 -> 8, inside 0 -> 12) is refused before and accepted after *)
Definition wit_pruned : list event :=
  [Ckpt 4 0 4 []; Ckpt 8 4 8 []; Ckpt 12 8 12 []; Ckpt 16 0 4 []; Ckpt 20 16 8 []; Ckpt 24 20 12 [];
   Vote 3 0 12 (mksig 3 0 12);
   Vote 0 0 16 (mksig 0 0 16); Vote 1 0 16 (mksig 1 0 16); Vote 2 0 16 (mksig 2 0 16);
   Vote 3 16 20 (mksig 3 16 20);
   Vote 0 16 20 (mksig 0 16 20); Vote 1 16 20 (mksig 1 16 20); Vote 2 16 20 (mksig 2 16 20);
   Vote 3 16 20 (mksig 3 16 20)].

Lemma span_refuted_pruned_branch : ~ C18_span_full.
Proof.
  intros H. specialize (H (mkvar true true) 4 4 99 0 wit_pruned eq_refl eq_refl).
  revert H. apply has_nested_refutes. vm_compute. reflexivity.
Qed.

(* the guard of the positive theorem fails on the witness, and only at its last event *)
Example wit_pruned_guard :
  pruned_vote_free (run (mkvar true true) 4 4 99 0 wit_pruned) = false /\
  pruned_vote_free (run (mkvar true true) 4 4 99 0 (removelast wit_pruned)) = false /\
  pruned_vote_free (run (mkvar true true) 4 4 99 0 (firstn 11 wit_pruned)) = true.
Proof. vm_compute. auto. Qed.

(* an honest history satisfies the guard: every accepted vote names a checkpoint of the tree *)
Example guard_satisfiable :
  let s := run (mkvar true true) 4 4 0 0
             [Ckpt 4 0 4 []; Vote 1 0 4 (mksig 1 0 4); Vote 2 0 4 (mksig 2 0 4);
              Ckpt 8 4 8 []; Vote 1 4 8 (mksig 1 4 8); Vote 2 4 8 (mksig 2 4 8); Ckpt 12 8 12 []] in
  pruned_vote_free s = true /\ length (adm s) = 7%nat /\ root s = 4.
Proof. vm_compute. auto. Qed.

(* the pinned ApplyBlock (sup links checked after the node's own vote): block 4 carries a sup link whose source
   no block has; the node signs 0 -> 4, rejects the block, and signs 0 -> 5 for the honest sibling *)
Definition wit_own_double : list event :=
  [Ckpt 4 0 4 [mklink 9999 0 [(1, mksig 1 9999 4)]]; Ckpt 5 0 4 []].

Lemma pinned_refuted_own_double_vote :
  ~ no_double_votes (posted (run (mkvar true false) 4 4 0 0 wit_own_double)).
Proof. apply has_double_refutes. vm_compute. reflexivity. Qed.

Example repaired_own_single_vote :
  posted (run (mkvar true true) 4 4 0 0 wit_own_double) = [mkvote 0 0 0 5 4].
Proof. reflexivity. Qed.
