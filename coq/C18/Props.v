(* C18 — the node never signs or admits slashable votes.  PROPERTY THEOREMS ONLY.

   Engine model: C16/Model.v (shared with C16 and C17; mirrors package protocol/casper at checkpoint granularity,
   tied to the node by the correspondence run of harness c18).  A history is ANY list of events: epoch-closing
   blocks with any sup links (in any order the block tree allows), verification messages with any key and
   signature, replays of cached messages; any number of validators n, epoch length E, own key [local], genesis g.
   all_votes s = the votes the node ACCEPTED into a checkpoint (adm: from messages, from the cache, from block
   headers, its own) together with the votes it POSTED on its event dispatcher (its own votes and accepted
   messages).  A vote is (validator key, source, source height, target, target height).
     double_vote a b : same validator, equal target height, different targets          (commandment I)
     nested a b      : same validator, h(s_a) < h(s_b) < h(t_b) < h(t_a)                 (commandment II)
   V with precheck_links V = true: ApplyBlock as repaired in /repo's working tree (the sup links of an epoch-closing
   block are checked before the tree grows and before the node signs). *)
From Coq Require Import List NArith Bool.
From C16 Require Import Base Proofs.
From C18 Require Import Model Proofs.
Import ListNotations.
Open Scope N_scope.

(* 1. Commandment I: no validator - the node's own key included - has two votes for different targets of equal
   height among the votes the node produced or accepted.  Every history without restart. *)
Theorem c18_no_double_votes :
  forall (V : variant) (n E local g : N) (evs : list event),
    precheck_links V = true -> restart_free evs = true ->
    forall a b, In a (all_votes (run V n E local g evs)) -> In b (all_votes (run V n E local g evs)) ->
      double_vote a b = false.
Proof. intros V n E local g evs HP Hr. exact (no_double_votes_holds V n E local g HP evs Hr). Qed.
Print Assumptions c18_no_double_votes.

(* 2. Every vote the node posts (its own votes included) is a vote it accepted under both rules. *)
Theorem c18_produced_votes_are_checked :
  forall (V : variant) (n E local g : N) (evs : list event),
    precheck_links V = true -> restart_free evs = true ->
    forall p, In p (posted (run V n E local g evs)) -> In p (adm (run V n E local g evs)).
Proof. intros V n E local g evs HP Hr. exact (run_posted V n E local g HP evs Hr). Qed.
Print Assumptions c18_produced_votes_are_checked.

(* 3. Commandment II, full statement (Proofs.C18_span_full: no nested pair after any restart-free history):
   REFUTED - the span check walks the in-memory tree only, votes on a branch pruned by a finalization are not seen. *)
Theorem c18_span_refuted_pruned_branch : ~ C18_span_full.
Proof. exact span_refuted_pruned_branch. Qed.
Print Assumptions c18_span_refuted_pruned_branch.

(* 4. Commandment II holds outside that class: whenever every accepted vote still names a checkpoint of the tree
   (decidable guard pruned_vote_free; Examples guard_satisfiable / wit_pruned_guard in C18/Proofs.v). *)
Theorem c18_span_holds_outside :
  forall (V : variant) (n E local g : N) (evs : list event),
    precheck_links V = true -> restart_free evs = true ->
    pruned_vote_free (run V n E local g evs) = true ->
    forall a b, In a (all_votes (run V n E local g evs)) -> In b (all_votes (run V n E local g evs)) ->
      nested a b = false.
Proof. intros V n E local g evs HP Hr Hg. exact (no_nested_votes_holds V n E local g HP evs Hr Hg). Qed.
Print Assumptions c18_span_holds_outside.

(* 5. The pinned ApplyBlock violated commandment I with the node's OWN votes: the repair in /repo is what theorems
   1 and 2 are about. *)
Theorem c18_pinned_refuted_own_double_vote :
  ~ no_double_votes (posted (run (mkvar true false) 4 4 0 0 wit_own_double)).
Proof. exact pinned_refuted_own_double_vote. Qed.
Print Assumptions c18_pinned_refuted_own_double_vote.
